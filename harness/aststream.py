"""AST correspondence: ast.parse(transpile(p)) of the real transpiler vs the Lean transpiler model."""
import ast
import itertools
import os
import secrets
import sys

sys.path.insert(0, os.path.join(os.path.dirname(os.path.abspath(__file__)), "..", "tools"))
import pyast2lean as P  # noqa: E402
import vy  # noqa: E402
from vyxal.transpile import transpile  # noqa: E402


class _Counter:
    def __init__(self):
        self.n = 0

    def __call__(self, nbytes=None):
        v = self.n
        self.n += 1
        return str(v)


def real_dump(src, dict_compress=False):
    """canonical dump of the real transpiler's output (identifiers made deterministic), or an ERR line"""
    old = secrets.token_hex
    secrets.token_hex = _Counter()
    try:
        try:
            code = transpile(src, dict_compress)
        except IndexError:
            return "ERR parse Vy.Err.index", None
        except AssertionError:
            return "ERR parse Vy.Err.assertion", None
        except ValueError as ex:
            if "Arity" in str(ex):
                return "ERR parse Vy.Err.arity", None
            return "ERR transpile ValueError", None
    finally:
        secrets.token_hex = old
    try:
        tree = ast.parse(code)
    except SyntaxError as ex:
        return "ERR SyntaxError " + str(ex.msg), code
    except ValueError as ex:  # source contains NUL
        return "ERR ValueError " + str(ex), code
    return P.dumpSL(tree.body), code


def classify(real, model):
    """agree / skip (model says unmodelled) / disagree"""
    if model == "ERR unmodelled":
        return "skip"
    if real == model:
        return "agree"
    if model == "ERR stringSyntax" and real.startswith("ERR SyntaxError"):
        return "agree"
    if model.startswith("ERR badTemplate") and real.startswith("ERR SyntaxError"):
        return "agree"
    return "disagree"


def run_stream(ctx, progs, dict_compress=False, stream="ast"):
    progs = list(dict.fromkeys(progs))
    cmd = "transpileD" if dict_compress else "transpile"
    lines = [cmd + "\t" + vy.cps(p) for p in progs]
    real = [real_dump(p, dict_compress)[0] for p in progs]
    out = ctx.driver(lines)
    ctx.count("corr:" + stream, len(progs))
    stats = {"agree": 0, "skip": 0, "disagree": 0}
    for p, r, m in zip(progs, real, out):
        c = classify(r, m)
        stats[c] += 1
        if c == "disagree":
            i = next((k for k in range(min(len(r), len(m))) if r[k] != m[k]), min(len(r), len(m)))
            ctx.disagree(stream, p, "…" + r[max(0, i - 150):i + 150], "…" + m[max(0, i - 150):i + 150])
    for k, v in stats.items():
        ctx.bump(f"{stream}:{k}", v)
    return stats
