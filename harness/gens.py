"""Program generators shared by the lexer / parser / transpiler streams."""
import itertools

STRUCT_CHARS = list("[](){}λƛ'µ⟨⟩@;|Xx")
MOD_CHARS = list("v⁽&~ßƒɖ₌‡₍≬")
SYNTAX28 = list("|;])}⟩Xxv⁽&~ßƒɖ₌‡₍≬[({λƛ'µ⟨@")
LEXSIG = list("\\`«»‛#⁺\n")      # characters the lexer itself reacts to (escapes, literal openers, comment)
ATOMS = ["1", "12", "0", "2.5", "+", "-", "a", "b", ":", "_", "$", "n", "`s`", "`a|b`", "\\|", "\\X", "\\a", "‛ab", "‛|;",
         "→a", "←a", "←", "→", "»X»", "»1»", "«|«", "«ab«", "⁺v", "⁺1", "k1", "∆c", "Þf", "#c\n", "*", "2", " ", "M", "F", "ṡ", "†", "?"]

LIT_KINDS = ["backquote", "twoChar", "escChar", "cstr", "cnum", "cpnum", "comment"]


def render_lit(kind, p):
    if kind == "backquote":
        return "`" + "".join("\\" + c if c in "`\\" else c for c in p) + "`"
    if kind == "twoChar":
        return "‛" + p
    if kind == "escChar":
        return "\\" + p
    if kind == "cstr":
        return "«" + p + "«"
    if kind == "cnum":
        return "»" + p + "»"
    if kind == "cpnum":
        return "⁺" + p
    if kind == "comment":
        return "#" + p + "\n"
    raise ValueError(kind)


def payload_ok(kind, p):
    if kind == "twoChar":
        return len(p) == 2
    if kind in ("escChar", "cpnum"):
        return len(p) == 1
    if kind == "cstr":
        return "«" not in p
    if kind == "cnum":
        return "»" not in p
    if kind == "comment":
        return "\n" not in p
    return True


def neutral(kind, p):
    return "a" * len(p)


def random_program(rng, maxlen=10, atoms=None):
    pool = STRUCT_CHARS + MOD_CHARS + (atoms or ATOMS)
    return "".join(rng.choice(pool) for _ in range(rng.randint(0, maxlen)))


# contexts for literal payloads: (prefix, suffix); none of them puts the literal into a header that
# the grammar reads as text (λ arity, @ header, ( loop variable)
CONTEXTS = [
    ("", ""), ("", "1+"), ("[", "]"), ("[1|", "]"), ("[", "|2]"), ("[1|", "|3]"), ("[1|2|", "|4]"),
    ("(", ")"), ("(n|", ")"), ("{", "}"), ("{", "|1}"), ("{1|", "}"), ("λ", ";"), ("λ2|", ";"),
    ("ƛ", ";"), ("'", ";"), ("µ", ";"), ("⟨", "⟩"), ("⟨1|", "⟩"), ("⟨", "|2⟩"), ("@f|", ";"), ("@f:a|", ";"),
    ("v", "1"), ("₌", "+1"), ("₌+", "1"), ("≬", "++1"), ("≬+", "+1"), ("≬++", "1"), ("⁽", "1"), ("‡", "+1"),
    ("‡+", "1"), ("&", "1"), ("~", "1"), ("ß", "1"), ("ƒ", "1"), ("₍", "+1"),
    # a modifier whose literal operand is the last thing in the program / in its branch
    ("v", ""), ("⁽", ""), ("ß", ""), ("&", ""), ("~", ""), ("ƒ", ""), ("₌+", ""), ("₍+", ""), ("≬++", ""), ("‡+", ""), ("5 ß", ""),
    ("[1|ß", "]"), ("λv", ";"), ("⟨⁽", "⟩"), ("(₌+", ")"), ("{1|~", "}"), ("[ß", "|2]"),
    # the literal is followed at once by characters that only mean something together (digraphs, runs of letters, a number)
    ("", "k[1|2]"), ("(", "vH)"), ("[1|", "xX]"), ("λ", "ab;"), ("", "dd"), ("", "∆a1"), ("⟨", "øA|2⟩"), ("", "Þa;"), ("[", "k;|2]"), ("", "12.5"), ("", "#c\n1"),
    ("[[", "]1]"), ("(λ", ";)"), ("⟨[1|", "]|2⟩"), ("{[", "|X]}"), ("λƛ", ";;1"), ("[(", ")|{1}]"),
]


def well_formed(rng, depth=3, closed=True):
    """a random closed program from the structure grammar"""
    def atom():
        return rng.choice(["1", "2", "+", "-", ":", "_", "n", "`ab`", "\\a", "‛xy", "→a", "←a", "»1»", "«ab«", "kA", "∆c", "⁺1", "12", "3.5", "$", "X", "x", "?"])

    def seq(d):
        return "".join(item(d) for _ in range(rng.randint(0, 3)))

    def item(d):
        if d <= 0 or rng.random() < 0.45:
            return atom()
        k = rng.randrange(13)
        if k == 0:
            return "[" + "|".join(seq(d - 1) for _ in range(rng.randint(1, 3))) + "]"
        if k == 1:
            return "(" + (rng.choice(["", "n|", "ab|"])) + seq(d - 1) + ")"
        if k == 2:
            return "{" + (seq(d - 1) + "|" if rng.random() < 0.5 else "") + seq(d - 1) + "}"
        if k == 3:
            return "λ" + (rng.choice(["", "2|", "0|"])) + seq(d - 1) + ";"
        if k == 4:
            return rng.choice("ƛ'µ") + seq(d - 1) + ";"
        if k == 5:
            return "⟨" + "|".join(seq(d - 1) for _ in range(rng.randint(1, 3))) + "⟩"
        if k == 6:
            return "@f" + rng.choice(["", ":a", ":2", ":a:b"]) + "|" + seq(d - 1) + ";"
        if k == 7:
            return "@f;"
        if k == 8:
            return rng.choice("v⁽&~ßƒɖ") + item(d - 1)
        if k == 9:
            return rng.choice("₌‡₍") + item(d - 1) + item(d - 1)
        if k == 10:
            return "≬" + item(d - 1) + item(d - 1) + item(d - 1)
        return atom()

    return seq(depth)
