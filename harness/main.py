import os
import sys
sys.path.insert(0, os.path.dirname(os.path.abspath(__file__)))
import core  # noqa: E402
if __name__ == "__main__":
    sys.exit(core.main(sys.argv[1:]))
