"""C04 — omitting trailing closers never changes the parse."""
import itertools
import gens
import vy
from vyxal import lexer, parse as vparse

RULE = ("closed programs from the structure grammar (depth <= 4) that end in a run of closers (every opener kind, literals that "
        "end the program, modifiers as last token, function definitions), then EVERY number of trailing closers (and the string "
        "delimiter) removed; oracle: repr(parse(tokenise(closed))) == repr(parse(tokenise(truncated))). Thorough adds every "
        "program of <= 5 symbols over a 16-symbol alphabet (plus a seeded sample of 300 000 programs of 6..8 symbols) closed by its pending closers. Each program is also lexed/parsed by the "
        "Lean model. Non-trivial = distinct (closed program, number of dropped characters).")
CLOSERS = "])};⟩"
OPEN = {"[": "]", "(": ")", "{": "}", "λ": ";", "ƛ": ";", "'": ";", "µ": ";", "⟨": "⟩", "@": ";"}


def o_truncation(inp):
    closed, k = inp["closed"], inp["drop"]
    trunc = closed[: len(closed) - k]
    a, b = vy.impl_lexparse(closed), vy.impl_lexparse(trunc)
    return a == b, f"closed {closed!r}: {a}   truncated {trunc!r}: {b}"


ORACLES = {"truncation": o_truncation}


def tail_chain(rng, depth):
    """a closed program ending in `depth` nested open structures, all closed at the very end"""
    body, closers = "", ""
    for d in range(depth):
        body += gens.well_formed(rng, 1)
        o = rng.choice(list(OPEN))
        if o == "@":
            body += "@f" + rng.choice(["", ":a", ":2"]) + "|"
        elif o == "(":
            body += "(" + rng.choice(["", "n|"])
        elif o == "λ":
            body += "λ" + rng.choice(["", "2|"])
        elif o in "[⟨{":
            body += o + (gens.well_formed(rng, 1) + "|" if rng.random() < 0.4 else "")
        else:
            body += o
        closers = OPEN[o] + closers
        if rng.random() < 0.3:
            body += rng.choice("v&~ßƒɖ")  # a modifier directly in front of the next structure
    last = rng.choice(["", "1", "+", "`ab", "«ab", "»12", "‛xy", "\\a", "kA", "X", "x", "v+", "₌+-", "→a",
                       "`a\\n", "`a\\`", "`\\\\", "`\\`\\n", "`a b\\t", "«a\\", "»1\\",
                       # literal bodies ending in real white space (a final newline is what an editor adds to a file)
                       "`a\n", "`a\n\n", "«ab\n", "»12\n", "`a ", "`a\t", "` ", "`\n", "«\n", "`a\r\n"])
    body += gens.well_formed(rng, 1) + last
    strcloser = {"`": "`", "«": "«", "»": "»"}.get(last[:1], "") if last[:1] in "`«»" and len(last) > 1 else ""
    return body + strcloser + closers, len(strcloser) + len(closers)


def pending(prog):
    """closers still pending at the end of `prog` (by the flat bracket scan, general tokens only)"""
    st = []
    for t in lexer.tokenise(prog):
        if t.name != lexer.TokenType.GENERAL:
            continue
        if t.value in OPEN:
            st.append(OPEN[t.value])
        elif t.value in CLOSERS and len(t.value) == 1 and st and st[-1] == t.value:
            st.pop()
    return "".join(reversed(st))


def run(ctx, widen=False):
    thorough = ctx.tier == "thorough" or widen
    progs = []
    n = 3000 if not thorough else 30000
    for _ in range(n):
        closed, k = tail_chain(ctx.rng, ctx.rng.randint(1, 4))
        for drop in range(1, k + 1):
            ctx.check("truncation", {"closed": closed, "drop": drop})
        ctx.bump("chain depth %d" % k)
        progs.append(closed)
        progs.append(closed[: len(closed) - ctx.rng.randint(1, k)] if k else closed)
    if True:
        A = list("[({λƛ⟨|1+vX;)]⟩}")
        cnt = 0
        def short_programs():
            # every program of <= 5 symbols (1.1 million), and a seeded sample of 300 000 programs of 6..8 symbols
            # (all 16^6 of the next length would take hours in one process)
            # (quick: every program of <= 3 symbols — a modifier or a `|` right before an opener that is the last character
            # is the kind of end-of-input shape only short programs reach)
            for L in range(1, 6 if thorough else 4):
                for t in itertools.product(A, repeat=L):
                    yield "".join(t)
            if ctx.tier == "thorough":
                for _ in range(300000):
                    yield "".join(ctx.rng.choice(A) for _ in range(ctx.rng.randint(6, 8)))
        for p in short_programs():
            if True:
                cl = pending(p)
                if not cl:
                    continue
                closed = p + cl
                for drop in range(1, len(cl) + 1):
                    ctx.check("truncation", {"closed": closed, "drop": drop})
                cnt += 1
                if cnt % 50 == 0:
                    progs.append(closed)
        ctx.bump("exhaustive short programs", cnt)
        ctx.exhaustive = thorough
    # every short string body over the escape-relevant characters, with and without its closing delimiter
    for d in "`«»":
        for L in range(0, 5 if thorough else 4):
            for t in itertools.product(["\\", d, "a", "n", "]", "\n", " "], repeat=L):
                body = "".join(t)
                toks = lexer.tokenise(d + body + d + "+")
                if len(toks) == 2 and toks[1].value == "+" and toks[1].name == lexer.TokenType.GENERAL and toks[0].value:   # the closer really closes this literal
                    closed = "[" + d + body + d + "]"
                    for drop in (1, 2):
                        ctx.check("truncation", {"closed": closed, "drop": drop})
                    progs.append(closed); progs.append(closed[:-2])
    # --- programs with `@` (function definitions / references): the hypothesis `atOK` of parse_append_closers is evaluated
    # by the model on each program; where it holds, the real parser must give the same tree with every prefix of the
    # pending closers appended; where it does not, the program is run too and the outcome only counted
    B = list("@f[(λ|:;])1*")
    atp = []
    for L in range(1, 6 if thorough else 5):
        for t in itertools.product(B, repeat=L):
            if "@" in t:
                atp.append("".join(t))
    for _ in range(60000 if ctx.tier == "thorough" else 6000):
        q = "".join(ctx.rng.choice(B) for _ in range(ctx.rng.randint(5, 10)))
        if "@" in q:
            atp.append(q)
    atp = list(dict.fromkeys(atp))
    aout = ctx.driver(["atok\t" + vy.cps(p) for p in atp])
    nT = nF = nFdiff = 0
    for p, o in zip(atp, aout):
        try:
            flag, pend = o.split(" pend=")
            pend = "".join(chr(int(x)) for x in pend.split())
        except ValueError:
            ctx.disagree("atok", p, "atok=… pend=…", o)
            continue
        if pend != pending(p):
            ctx.disagree("atok pending closers", p, pending(p), pend)
            continue
        base = vy.impl_lexparse(p)
        same = all(vy.impl_lexparse(p + pend[:k]) == base for k in range(1, len(pend) + 1))
        if flag == "atok=T":
            nT += 1
            ctx.count("oracle:truncation")
            if not same:
                k = next(k for k in range(1, len(pend) + 1) if vy.impl_lexparse(p + pend[:k]) != base)
                ctx.violation("truncation", {"closed": p + pend[:k], "drop": k},
                         f"atOK holds for {p!r} but the real parse changes with {pend[:k]!r} appended: {base}  vs  {vy.impl_lexparse(p + pend[:k])}")
        else:
            nF += 1
            nFdiff += (not same)
    ctx.bump("@ programs with atOK", nT)
    ctx.bump("@ programs outside atOK", nF)
    ctx.bump("@ programs outside atOK where the real parse does change", nFdiff)
    ctx.sample({"closed": "[1(λ+;)]", "drop": 3, "truncated": "[1(λ+", "parse": vy.impl_lexparse("[1(λ+")})
    progs = list(dict.fromkeys(progs))
    lines = ["tok\t" + vy.cps(p) for p in progs] + ["lexparse\t" + vy.cps(p) for p in progs]
    exp = [vy.show_tokens(lexer.tokenise(p)) for p in progs] + [vy.impl_lexparse(p) for p in progs]
    out = ctx.driver(lines)
    ctx.count("corr:lexer", len(progs))
    ctx.count("corr:parser", len(progs))
    for l, e, o in zip(lines, exp, out):
        if e != o:
            ctx.disagree("lexparse", l, e, o)


def search(ctx):
    if ctx.tier != "thorough":
        run(ctx, widen=True)
