"""C15 — compression and base-conversion codecs round-trip."""
import itertools
import math
import vy
from core import alarm
from vyxal import dictionary, encoding
from vyxal.context import Context
from vyxal.elements import (base_255_number_compress, base_255_string_compress, optimal_compress, to_base, from_base, log_mold_multi)
from vyxal.helpers import (to_base_digits, from_base_digits, to_base_alphabet, from_base_alphabet, uncompress_num, uncompress_str)

RULE = ("numbers: every integer 1..1200 (quick) / 1..12000 (thorough), multiples of 255 and their successors (to 10^5 quick / 10^6 thorough), small multiples of 255^k, b^k-1, b^k, b^k+1 for every base 2..300 and every k with b^k < 10^120, "
        "random integers to 10^120; strings: every string of length 1 and a third of those of length 2 (quick) / <= 3 (thorough) over [a-z ] not starting with a space, random "
        "to length 80; dictionary: random concatenations of dictionary words, spaces and printable ASCII (no backslash / back-quote). Oracles: "
        "compress with the element, run the produced text as a program, compare with the original (and, for dictionary compression, "
        "len(text) <= len(plain literal)); to_base then from_base is the identity with every digit inside the base; the floating-point "
        "contract b^(e+1) > n of the `τ` loop is checked on every case. Correspondence: each codec function of helpers.py / elements.py vs "
        "the Lean model. Non-trivial = distinct value.")
TRUSTED = ["T6 the exponent of the τ loop comes from math.log (floating point); the theorem assumes n < b^(e+1) and the check evaluates that on every generated case"]
CTX = Context()


def o_num(n):
    text = base_255_number_compress(n, CTX)
    with alarm(10):
        stack, _, _ = vy.run_program(text)
    return stack == [n], f"øC gives {text!r}, which evaluates to {stack!r}"


def o_str(s):
    text = base_255_string_compress(s, CTX)
    with alarm(10):
        stack, _, _ = vy.run_program(text)
    return stack == [s], f"øc gives {text!r}, which evaluates to {stack!r}"


def o_dict(s):
    text = optimal_compress(s, CTX)
    with alarm(10):
        stack, _, _ = vy.run_program(text)
    ok = stack == [s] and len(text) <= len(s) + 2
    return ok, f"øD gives {text!r} (plain literal has {len(s) + 2} characters), which evaluates to {stack!r}"


def o_base(inp):
    n, b = inp["n"], inp["b"]
    ds = to_base(n, b, CTX)
    back = from_base(ds, b, CTX)
    ok = back == n and all(0 <= d < b for d in ds)
    return ok, f"to_base({n},{b}) = {ds}, from_base gives {back}"


def o_float_contract(inp):
    n, b = inp["n"], inp["b"]
    e = int(log_mold_multi(n, b, CTX)) if n > 0 else 0
    return b ** (e + 1) > n, f"int(log_{b}({n})) = {e} but {b}^{e + 1} <= n: the most significant digit would be lost"


ORACLES = {"num_roundtrip": o_num, "str_roundtrip": o_str, "dict_roundtrip": o_dict, "base_roundtrip": o_base,
           "float_contract": o_float_contract}


def run(ctx, widen=False):
    thorough = ctx.tier == "thorough" or widen
    rng = ctx.rng
    # (1..100 000 took 70 minutes: sympy makes one round trip cost ~45 ms)
    nums = list(range(1, 12001 if ctx.tier == "thorough" else 1201))
    # multiples of the base and their neighbours (a low-order zero digit), small multiples of powers of the base
    nums += [255 * m + d for m in range(1, 4000 if ctx.tier == "thorough" else 400, 1 if ctx.tier == "thorough" else 3) for d in (0, 1)][:9000]
    nums += [255 ** k * m for k in (2, 3, 4, 7) for m in (1, 2, 3, 254, 255, 256)]
    edge = []
    for b in range(2, 301):
        k = 1
        while b ** k < 10 ** 120:
            edge += [(b ** k - 1, b), (b ** k, b), (b ** k + 1, b)]
            k += 1 if (thorough or k < 6) else 7
    for _ in range(3000 if thorough else 150):
        nums.append(rng.randrange(1, 10 ** rng.randint(1, 120)))
    nums += [n for n, b in edge if b == 255]
    nums = sorted(set(nums))
    ctx.check_many("num_roundtrip", nums)
    ctx.bump("numbers", len(nums))
    pairs = [{"n": n, "b": b} for n, b in edge] + [{"n": rng.randrange(0, 10 ** rng.randint(1, 60)), "b": rng.randint(2, 300)} for _ in range(2000 if thorough else 400)] \
        + [{"n": 0, "b": b} for b in (2, 3, 10, 255)]
    if not thorough:
        pairs = pairs[::11] + pairs[-120:]
    ctx.check_many("base_roundtrip", pairs)
    ctx.check_many("float_contract", pairs + [{"n": n, "b": 255} for n in nums[::(3 if thorough else 9)]])
    ctx.bump("(n, base) pairs", len(pairs))
    A = "abcdefghijklmnopqrstuvwxyz "
    strs = []
    for L in range(1, 4 if ctx.tier == "thorough" else 3):
        for t in itertools.product(A, repeat=L):
            if t[0] != " ":
                strs.append("".join(t))
    for _ in range(3000 if thorough else 150):
        s = rng.choice(A[:-1]) + "".join(rng.choice(A) for _ in range(rng.randint(0, 79)))
        strs.append(s)
    if not thorough:
        strs = strs[:26] + strs[26:754:3] + strs[754:]
    ctx.check_many("str_roundtrip", strs)
    ctx.bump("base-27 strings", len(strs))
    words = dictionary.contents if isinstance(dictionary.contents, list) else list(dictionary.contents)
    ascii_ok = [chr(i) for i in range(32, 127) if chr(i) not in "\\`"]
    dstrs = []
    for _ in range(2500 if thorough else 300):
        parts = []
        for _ in range(rng.randint(1, 6)):
            r = rng.random()
            if r < 0.5:
                w = rng.choice(words)
                parts.append(w if all(c in ascii_ok for c in w) else "x")
            elif r < 0.7:
                parts.append(" ")
            else:
                parts.append("".join(rng.choice(ascii_ok) for _ in range(rng.randint(1, 5))))
        dstrs.append("".join(parts))
    # single dictionary words: the ones around every boundary of the two-character code (index 0, 159/160/161, multiples of 160,
    # the last ones) and a stride through the rest (thorough: every word), alone and inside a sentence
    n_w = len(words)
    bidx = sorted(set([i for i in list(range(0, 6)) + list(range(155, 166)) + [160 * k + d for k in range(1, n_w // 160 + 1, 7) for d in (-1, 0, 1)]
                       + list(range(n_w - 4, n_w)) if 0 <= i < n_w]))
    boundary_words = [words[i] for i in bidx if all(c in ascii_ok for c in words[i])]
    stride_words = [w for w in (words if thorough else words[::20]) if all(c in ascii_ok for c in w)]
    dstrs += boundary_words + stride_words + ["the " + w + " of" for w in boundary_words[:40]]
    ctx.bump("single dictionary words", len(boundary_words) + len(stride_words))
    dstrs += ["", " ", "a", "the", "the the", "Hello, World!", "hello world"]
    ctx.check_many("dict_roundtrip", dstrs)
    ctx.bump("dictionary strings", len(dstrs))
    ctx.sample({"n": 13, "text": base_255_number_compress(13, CTX), "evaluates_to": vy.run_program(base_255_number_compress(13, CTX))[0]})
    ctx.sample({"s": "hello world", "text": optimal_compress("hello world", CTX)})
    ctx.exhaustive = True
    # ---- model correspondence, function by function
    lines, exp = [], []
    sample_n = nums[::7] if not thorough else nums[::3]
    for n in sample_n:
        for b in (2, 10, 27, 255):
            lines.append(f"todigits\t{b} {n}"); exp.append(" ".join(map(str, to_base_digits(n, b))))
        lines.append("fromdigits\t255 " + " ".join(map(str, to_base_digits(n, 255)))); exp.append(str(from_base_digits(to_base_digits(n, 255), 255)))
        if n > 0:
            e = int(log_mold_multi(n, 255, CTX))
            text = base_255_number_compress(n, CTX)
            lines.append(f"cnum\t{e} {n}"); exp.append(vy.cps(text))
            lines.append("ucnum\t" + vy.cps(text[1:-1])); exp.append(str(uncompress_num(text[1:-1])))
    for p in pairs[::5]:
        n, b = p["n"], p["b"]
        if n > 0:
            e = int(log_mold_multi(n, b, CTX))
            lines.append(f"tobaseloop\t{b} {e} {n}"); exp.append(" ".join(map(str, to_base(n, b, CTX))))
    for s in strs[::3]:
        N = from_base_alphabet(s, encoding.base_27_alphabet)
        lines.append("frombase27\t" + vy.cps(s)); exp.append(str(N))
        text = base_255_string_compress(s, CTX)
        if N > 0:
            e = int(log_mold_multi(N, 255, CTX))
            lines.append(f"cstr\t{e} {N}"); exp.append(vy.cps(text))
        lines.append("ucstr\t" + vy.cps(text[1:-1])); exp.append(vy.cps(uncompress_str(text[1:-1])))
    # dictionary compression: the DP model of `øD` (the object of dict_compress_roundtrip) against the element, and the facts
    # about the word list that the theorem takes as a hypothesis (at most 160^2 words: every code has two characters)
    nd = 400 if thorough else 60       # (the model looks every slice up in the 23 113-word list: ~30 ms per character)
    for sdict in dstrs[-7:] + [words[i] for i in (0, 1, 159, 160, 161, 320, n_w - 1) if all(c in ascii_ok for c in words[i])] + [x for x in dstrs[:nd] if len(x) <= (32 if thorough else 18)][: (60 if thorough else 14)]:
        lines.append("dictcomp\t" + vy.cps(sdict)); exp.append(vy.cps(optimal_compress(sdict, CTX)))
    lines.append("dictfacts\t")
    exp.append(f"{len(words)} {len(encoding.compression)} {dictionary.max_word_len}")
    if not (len(words) <= len(encoding.compression) ** 2 and len(encoding.compression) == 160):
        ctx.disagree("codec", "dictionary size", f"{len(words)} words, {len(encoding.compression)} compression characters",
                     "dict_compress_roundtrip assumes at most 160^2 words and 160 characters")
    out = ctx.driver(lines)
    ctx.count("corr:codec", len(lines))
    for l, e, o in zip(lines, exp, out):
        if e != o:
            ctx.disagree("codec", l, e, o)


def search(ctx):
    if ctx.tier != "thorough":
        run(ctx, widen=True)
