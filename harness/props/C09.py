"""C09 — an element touches only the stack entries it consumes."""
import contextlib
import io
import itertools
import sympy
import vy
from core import alarm, Timeout
from vyxal.context import Context
from vyxal.elements import elements, modifiers
from vyxal.LazyList import LazyList
from vyxal.transpile import transpile
import vyxal.main as M

RULE = ("every key of the element table (except the documented whole-stack operations † W ^ Ȯ „ ‟ ¨ẇ and the dead entry x) with 6 (quick) / 30 "
        "(thorough) generated argument tuples of its arity over integers, rationals, strings, nested lists, lazy lists and functions, and every "
        "modifier applied to 40 (quick) / every (thorough) element, each on top of a three-object sentinel prefix (and the parallel-apply modifiers ₌ ₍ on every pair of 21 one-result elements of arity 1-3 against their compositional definition: B on the live stack, A on a copy): afterwards the prefix must be "
        "the same objects (identity) with the same contents, also when the element raises. The analysis side is regenerated: the Lean theorem "
        "re-checks every template of the current table. Non-trivial = distinct (key, argument tuple).")
TRUSTED = ["T7 helpers that are not handed `stack` do not reach it (a helper could go through ctx.stacks[-1]); validated by this sentinel run"]
WHOLE = {"†", "W", "^", "Ȯ", "„", "‟", "¨ẇ", "x"}
SKIP_RUN = {"Q", "¨U", "□", "¨□", "E", "Ė", "∆ċ", "øḋ"}     # exit(), network, stdin, Python/Vyxal eval of generated strings: run in C19, not here


def decode(a, fresh):
    if isinstance(a, list):
        if a and a[0] == "R":
            return sympy.Rational(a[1], a[2])
        if a and a[0] == "L":
            return LazyList(decode(x, fresh) for x in a[1])
        if a and a[0] == "F":
            ctx = Context(); stack = []; ctx.stacks.append(stack)
            ns = dict(vars(M)); ns["stack"] = stack; ns["ctx"] = ctx
            exec(transpile("⁽" + a[1]), ns)
            return stack[-1]
        if a and a[0] == "l":
            return [decode(x, fresh) for x in a[1]]
    return a


def snapshot(v):
    if isinstance(v, list):
        return ["l", [snapshot(x) for x in v]]
    return repr(v)


def o_prefix(inp):
    key, args, mod = inp["key"], inp["args"], inp.get("mod")
    s1, s2, s3 = [7001, [7002]], [7003], [[7004], 7005]
    prefix = [s1, s2, s3]
    before = [snapshot(x) for x in prefix]
    ctx = Context()
    stack = prefix + [decode(a, None) for a in args]
    ctx.stacks.append(stack)
    ctx.inputs[0][0] = [3, 4]
    ns = dict(vars(M)); ns["stack"] = stack; ns["ctx"] = ctx
    code = transpile(mod + key) if mod else elements[key][0]
    outcome = "returned"
    try:
        with alarm(2), contextlib.redirect_stdout(io.StringIO()):
            exec(code, ns)
    except Timeout:
        outcome = "timeout"
    except BaseException as ex:  # noqa: BLE001
        outcome = "raised " + type(ex).__name__
    stack = ns["stack"]
    if len(stack) < 3 or any(stack[i] is not prefix[i] for i in range(3)):
        detail = f"{(mod or '') + key} on {args} ({outcome}): the entries below its arguments are no longer the same objects: {stack[:4]!r}"
        # F31: printing / stringifying a *function value* applies it to the live stack (vy_print, vy_str, vy_repr call
        # lhs(ctx.stacks[-1], ...)); classified by call site, and only for the printing / string family given a function
        if not mod and key in PRINT_FAMILY and any(isinstance(a, list) and a and a[0] == "F" for a in args):
            return False, detail, ("function_value_applied", "callsite")
        return False, detail
    after = [snapshot(x) for x in prefix]
    if after != before:
        return False, f"{(mod or '') + key} on {args} ({outcome}): an entry below its arguments was modified: {after} (was {before})"
    return True, outcome


PRINT_FAMILY = {",", "…", "¨…", "¨,", "₴", "S", "øV", "q", "Ṅ", "ṅ", "J", "j", "∑", "ṡ"}


def o_callsite(_):
    return o_prefix({"key": ",", "args": [["F", "d"]]})[:2]


def o_whole(inp):
    """the documented whole-stack operations may reach every entry — and must do exactly what they are documented to do with
    them: nothing lost, nothing invented, nothing taken apart. (Over `Ȯ` and the rotations need two entries; below that inputs
    come into play, which is C11's subject.)"""
    key, st = inp["key"], [decode(a, True) for a in inp["stack"]]
    want = {"^": lambda s: s[::-1], "W": lambda s: [list(s)], "!": lambda s: s + [len(s)],
            "„": lambda s: s[1:] + s[:1], "‟": lambda s: s[-1:] + s[:-1], "Ȯ": lambda s: s + [s[-2]]}[key](list(st))
    ctx = Context(); stack = list(st); ctx.stacks.append(stack); ctx.inputs[0][0] = [9, 8]
    ns = dict(vars(M)); ns["stack"] = stack; ns["ctx"] = ctx
    try:
        with alarm(2):
            exec(elements[key][0], ns)
    except BaseException as ex:  # noqa: BLE001
        return False, f"{key} on a stack of {len(st)} entries {inp['stack']} raised {type(ex).__name__}: {ex}"
    got = [snapshot(x) for x in stack]
    return got == [snapshot(x) for x in want], f"{key} on {inp['stack']}: stack afterwards {got}, documented result {[snapshot(x) for x in want]}"


PAR_MON = ["N", "d", "›", "‹", "L", "Ṙ", "¬", "U", "½"]
PAR_DY = ["+", "-", "*", "J", "\"", "=", "<", "ẋ", "%"]
PAR_TRI = ["Ȧ", "Ŀ", "V"]
PAR_VALUES = [0, 1, 2, 3, -1, 5, ["R", 1, 2], ["R", -3, 2], "ab", "", "a b", ["l", [1, 2, 3]], ["l", []], ["l", [["l", [1, 2]], ["l", [3]]]], ["l", ["a", "bc"]]]


def _exec_on(code, values):
    ctx = Context(); stack = list(values); ctx.stacks.append(stack); ctx.inputs[0][0] = [3, 4]
    ns = dict(vars(M)); ns["stack"] = stack; ns["ctx"] = ctx
    with alarm(2), contextlib.redirect_stdout(io.StringIO()):
        exec(code, ns)
    return ns["stack"]


def _snap(v):
    if isinstance(v, LazyList):
        v = list(v)
    if isinstance(v, list):
        return ["l", [_snap(x) for x in v]]
    return repr(v)


def o_parallel(inp):
    """the parallel-apply modifiers, compositionally: `₌AB` gives A a *copy* of the stack and B the live one, so the result must be
    the stack B alone leaves, with A's result (computed on its own copy) pushed under B's — `₍AB` pairs the two. Nothing below B's
    operands may move, and every operand of B must go: the entries between the two arities are where a mix-up of the two stacks shows."""
    m, a, b, args = inp["mod"], inp["A"], inp["B"], inp["args"]
    try:
        sa = _exec_on(elements[a][0], [decode(x, None) for x in args])
        sb = _exec_on(elements[b][0], [decode(x, None) for x in args])
        if len(sa) != len(args) - elements[a][1] + 1 or len(sb) != len(args) - elements[b][1] + 1:
            return True, "skipped: not a one-result element"
        ra, rb, left = _snap(sa[-1]), _snap(sb[-1]), [_snap(x) for x in sb[:-1]]
    except BaseException as ex:  # noqa: BLE001
        return True, "skipped: an element alone raises " + type(ex).__name__
    want = left + ([ra, rb] if m == "₌" else [["l", [ra, rb]]])
    try:
        got = [_snap(x) for x in _exec_on(transpile(m + a + b), [decode(x, None) for x in args])]
    except BaseException as ex:  # noqa: BLE001
        return False, f"{m}{a}{b} on {args} raised {type(ex).__name__}: {ex} although {a} and {b} alone return"
    return got == want, f"{m}{a}{b} on {args}: stack afterwards {got}; {b} alone leaves {left + [rb]}, {a} on a copy gives {ra}: expected {want}"


ORACLES = {"whole_stack": o_whole, "prefix_untouched": o_prefix, "function_value_applied": o_callsite, "parallel_apply": o_parallel}

VALUES = [0, 1, 2, 3, -1, 5, ["R", 1, 2], ["R", -3, 2], "ab", "", "a b", ["l", [1, 2, 3]], ["l", []], ["l", [["l", [1, 2]], ["l", [3]]]], ["l", ["a", "bc"]],
          ["L", [1, 2, 3]], ["L", []], ["F", "d"], ["F", "+"], ["l", [["F", "d"]]], ["l", [7, ["F", "+"]]], ["L", [["F", "+"], 2]]]


def run(ctx, widen=False):
    thorough = ctx.tier == "thorough" or widen
    rng = ctx.rng
    g = ctx.gen
    table = {}
    for e in g["elements"]:
        table[e["key"]] = e["arity"]
    cases = []
    per = 30 if ctx.tier == "thorough" else 6
    for key, ar in sorted(table.items()):
        if key in WHOLE or key in SKIP_RUN:
            continue
        n = max(ar, 0)
        tuples = set()
        tuples.add(tuple(range(1, n + 1)))
        for _ in range(per * 3):
            if len(tuples) >= per:
                break
            tuples.add(tuple(rng.randrange(len(VALUES)) for _ in range(n)))
        for t in sorted(tuples):
            args = [VALUES[i] if not (isinstance(i, int) and len(tuples) and t == tuple(range(1, n + 1))) else i for i in t] if t != tuple(range(1, n + 1)) else list(t)
            cases.append({"key": key, "args": args})
    ctx.bump("element cases", len(cases))
    mods = sorted(m["key"] for m in g["modifiers"]) + ["⁽", "‡", "≬"]
    keys = [k for k in sorted(table) if k not in WHOLE and k not in SKIP_RUN and len(k) <= 2]
    sub = keys if ctx.tier == "thorough" else rng.sample(keys, 40)
    mc = 0
    for m in mods:
        for key in sub:
            if m in "₌₍‡":
                prog_key = key + rng.choice(["+", "d", "_"])
            elif m == "≬":
                prog_key = key + "d" + "+"
            else:
                prog_key = key
            for _ in range(2 if thorough else 1):
                args = [VALUES[rng.randrange(len(VALUES))] for _ in range(7)]     # a modifier consumes its own operand plus the elements' arities
                cases.append({"key": prog_key, "args": args, "mod": m}); mc += 1
    ctx.bump("modifier cases", mc)
    # the whole-stack operations against what they are documented to do, at every depth 0..4 (depth 1 is where a bare item and a
    # one-item list are easily confused)
    wvals = [5, ["l", [1, 2, 3]], "ab", ["l", []], 0, ["l", [["l", [1]], 2]]]
    wcases = []
    for key in ("^", "W", "!", "„", "‟", "Ȯ"):
        lo = 2 if key in ("„", "‟", "Ȯ") else 0
        for d in range(lo, 5):
            for t in (itertools.product(wvals, repeat=d) if d <= 2 else [tuple(rng.choice(wvals) for _ in range(d)) for _ in range(12)]):
                wcases.append({"key": key, "stack": list(t)})
    ctx.bump("whole-stack operation cases", len(wcases))
    ctx.check_many("whole_stack", wcases, procs=1)
    ctx.check_many("prefix_untouched", cases)
    # the parallel-apply modifiers on every pair of well-behaved one-result elements of arity 1..3 (441 pairs, both modifiers)
    els = PAR_MON + PAR_DY + PAR_TRI
    pcases = []
    for m in ("₌", "₍"):
        for a in els:
            for b in els:
                for _ in range(3 if thorough else 1):
                    pcases.append({"mod": m, "A": a, "B": b, "args": [PAR_VALUES[rng.randrange(len(PAR_VALUES))] for _ in range(5)]})
    ctx.bump("parallel-apply cases", len(pcases))
    ctx.check_many("parallel_apply", pcases)
    # the `pop` helper itself against its Lean model (object of pop_frame / pop_retain / pop_short): every count 0..5 on every
    # stack of length 0..5, the four flag combinations; the inputs are 100, 101, … so a read is visible in the result
    from vyxal.helpers import pop as real_pop
    lines, exp = [], []
    for n in range(0, 6):
        st = list(range(1, n + 1))
        for k in range(0, 6):
            for retain in (False, True):
                for rev in (False, True):
                    c = Context(); c.inputs[0][0] = list(range(100, 140)); c.retain_popped = retain; c.reverse_flag = rev
                    s_ = list(st)
                    try:
                        got = real_pop(s_, k, c)
                        got = [got] if k == 1 else list(got)
                        e = str(got).replace(" ", "") + " " + str(s_).replace(" ", "") + " " + str(c.inputs[0][1])
                    except Exception as ex:  # noqa: BLE001
                        e = "ERR " + type(ex).__name__
                    lines.append(f"pophelper\t{k}|{' '.join(map(str, st))}|{'T' if retain else 'F'}{'T' if rev else 'F'}"); exp.append(e)
    outp = ctx.driver(lines)
    ctx.count("corr:pop-helper", len(lines))
    for l, e, o in zip(lines, exp, outp):
        if e != o:
            ctx.disagree("pop-helper", l, e, o)
    ctx.sample({"key": "+", "args": [1, 2], "outcome": o_prefix({"key": "+", "args": [1, 2]})[1]})
    ctx.sample(cases[-1])
    ctx.exhaustive = False


def search(ctx):
    if ctx.tier != "thorough":
        run(ctx, widen=True)
