"""C10 — values are immutable: no element changes a value another reference can see."""
import contextlib
import io
import sympy
import vy
from core import alarm, Timeout
from vyxal.context import Context
from vyxal.elements import elements
from vyxal.helpers import deep_copy
from vyxal.LazyList import LazyList
from vyxal.transpile import transpile
import vyxal.main as M

RULE = ("(a) every key of the element table (except stack-shuffling / IO entries) with 5 (quick) / 25 (thorough) generated argument tuples: an eager "
        "structural snapshot of every argument is taken before the call (lazy lists through a copy) and compared after it, also when the element "
        "raises; (b) programs <list value> <copy-op> <up to 3 monadic elements>: the untouched copy (made by dup, triplicate, a variable, the register "
        "or the global array) must still denote the original value, for eager and lazy values; (c) pre ; push-from-state ; post, where post only changes "
        "the global array / a variable / the register: the pushed value must denote what the same push denoted when forced immediately (separate run); (d) inside a scope (lambdas of arity 1..3, reduce / map lambdas, named functions, for loops) the context value n taken after the scope's stack has been changed, or kept in the register / a variable / the global array while it is changed, denotes what n alone denotes. Non-trivial = distinct (key / program, arguments). "
        "The Lean side proves the frame theorem on a reference-level heap model and re-checks the regenerated inventory of in-place mutation sites.")
TRUSTED = ["T7 element bodies allocate fresh objects and write to nothing that existed before (frame condition): inventory theorem + this snapshot differential"]
SKIP = {"†", "W", "^", "Ȯ", "„", "‟", "¨ẇ", "x", "Q", "¨U", "□", "¨□", "E", "Ė", "∆ċ", "øḋ", "$", "_", ":", "D", "!"}


def decode(a):
    if isinstance(a, list):
        if a and a[0] == "F":
            return vy.run_program(a[1])[0][-1]
        if a and a[0] == "R":
            return sympy.Rational(a[1], a[2])
        if a and a[0] == "L":
            return LazyList(decode(x) for x in a[1])
        if a and a[0] == "l":
            return [decode(x) for x in a[1]]
    return a


def snap(v, depth=0):
    if isinstance(v, LazyList):
        with alarm(2):
            return ["lazy", [snap(x, depth + 1) for x in deep_copy(v)]]
    if isinstance(v, list):
        return ["list", [snap(x, depth + 1) for x in v]]
    return repr(v)


def flat(s):
    """denotation: eager and lazy lists with the same items denote the same value"""
    if isinstance(s, list):
        return [flat(x) for x in s[1]]
    return s


def o_args(inp):
    key, args = inp["key"], inp["args"]
    vals = [decode(a) for a in args]
    before = [flat(snap(v)) for v in vals]
    ctx = Context()
    stack = list(vals)
    ctx.stacks.append(stack); ctx.inputs[0][0] = [3, 4]
    ns = dict(vars(M)); ns["stack"] = stack; ns["ctx"] = ctx
    outcome = "returned"
    try:
        with alarm(2), contextlib.redirect_stdout(io.StringIO()):
            exec(elements[key][0], ns)
    except Timeout:
        outcome = "timeout"
    except BaseException as ex:  # noqa: BLE001
        outcome = "raised " + type(ex).__name__
    # results may be lazy: the writes they would do happen when they are read, so read a few items of each
    try:
        with alarm(2), contextlib.redirect_stdout(io.StringIO()):
            for r in list(stack):
                if isinstance(r, LazyList) and not any(r is v for v in vals):
                    it = iter(deep_copy(r))
                    for _ in range(6):
                        if next(it, None) is None:
                            break
    except BaseException:  # noqa: BLE001
        pass
    try:
        after = [flat(snap(v)) for v in vals]
    except Timeout:
        return True, "argument became unforceable (infinite)"
    except BaseException as ex:  # noqa: BLE001
        return False, f"{key} on {args} ({outcome}): an argument can no longer be read afterwards ({type(ex).__name__})"
    ok = after == before
    return ok, f"{key} on {args} ({outcome}): arguments afterwards {after}, before {before}"


def o_held(inp):
    """a value pushed from interpreter state (global array, variable, register) keeps denoting what it denoted when it was pushed,
    whatever is done to that state afterwards. Expected = the value forced right after the push, in a separate run."""
    pre, push, post = inp["pre"], inp["push"], inp["post"]
    try:
        with alarm(3):
            s1, _, _ = vy.run_program(pre + push)
            want = flat(snap(s1[-1]))
            s2, _, _ = vy.run_program(pre + push + " " + post)
            got = flat(snap(s2[-1])) if s2 else None
    except Timeout:
        return True, "timeout"
    except BaseException as ex:  # noqa: BLE001
        return True, f"raised {type(ex).__name__}"
    return got == want, f"{pre + push!r} pushes {want}; after {post!r} (which only changes interpreter state) the held value denotes {got}"


def o_copy(inp):
    prog, value = inp["prog"], inp["value"]
    want = flat(snap(decode(value)))
    try:
        with alarm(3):
            stack, ctx, _ = vy.run_program(prog)
    except Timeout:
        return True, "timeout"
    except BaseException as ex:  # noqa: BLE001
        return True, f"raised {type(ex).__name__} (no copy to compare)"
    kind = inp["where"]
    try:
        if kind == "stack0":
            got = flat(snap(stack[0])) if stack else None
        elif kind == "top":
            got = flat(snap(stack[-1])) if stack else None
        elif kind == "register":
            got = flat(snap(ctx.register))
        elif kind == "global":
            got = flat(snap(ctx.global_array[0])) if ctx.global_array else None
    except Timeout:
        return True, "timeout"
    return got == want, f"{prog!r}: the untouched copy now denotes {got}, the original value was {want}"


def o_scope(inp):
    """the context value `n` of a scope (a lambda's arguments, a loop's item, a function's parameters) denotes the same value
    wherever in the scope it is taken and however long it has been kept in the register / a variable / the global array,
    whatever the elements in between do to the scope's own stack. Expected = the scope run with `n` alone."""
    a, b = inp["plain"], inp["prog"]
    try:
        with alarm(3):
            s1, _, _ = vy.run_program(a)
            want = flat(snap(s1[-1])) if s1 else None
            s2, _, _ = vy.run_program(b)
            got = flat(snap(s2[-1])) if s2 else None
    except Timeout:
        return True, "timeout"
    except BaseException as ex:  # noqa: BLE001
        return True, f"raised {type(ex).__name__}"
    return got == want, f"{a!r} gives {want}; {b!r}, which only works on the scope's own stack in between, gives {got}"


ORACLES = {"args_unchanged": o_args, "copy_untouched": o_copy, "held_value": o_held, "scope_value": o_scope}

VALUES = [0, 1, 2, -1, 5, ["R", 1, 2], "ab", "", ["l", [1, 2, 3]], ["l", []], ["l", [["l", [1, 2]], ["l", [3]]]], ["l", ["a", "bc"]], ["l", [3, 1, 2]],
          ["L", [1, 2, 3]], ["L", []], ["L", [["l", [2, 1]], 4]], ["F", "λ+;"], ["F", "λd;"]]
LISTVALS = [("⟨1|2|3⟩", ["l", [1, 2, 3]]), ("⟨3|1|2⟩", ["l", [3, 1, 2]]), ("⟨⟨1|2⟩|⟨3⟩⟩", ["l", [["l", [1, 2]], ["l", [3]]]]), ("3ɾ", ["l", [1, 2, 3]]),
            ("4ʁ", ["l", [0, 1, 2, 3]]), ("⟨`a`|`bc`⟩", ["l", ["a", "bc"]]), ("3ɾƛd;", ["l", [2, 4, 6]]), ("⟨2|2|1⟩U", ["l", [2, 1]])]


def run(ctx, widen=False):
    thorough = ctx.tier == "thorough" or widen
    rng = ctx.rng
    g = ctx.gen
    table = {e["key"]: e["arity"] for e in g["elements"]}
    cases = []
    per = 25 if thorough else 5
    for key, ar in sorted(table.items()):
        if key in SKIP or ar <= 0:
            continue
        seen = set()
        for _ in range(per * 3):
            if len(seen) >= per:
                break
            t = tuple(rng.randrange(len(VALUES)) for _ in range(ar))
            if not any(isinstance(VALUES[i], list) and VALUES[i][0] in "lL" for i in t) and rng.random() < 0.7:
                continue
            seen.add(t)
        cases += [{"key": key, "args": [VALUES[i] for i in t]} for t in sorted(seen)]
    ctx.bump("(a) element x arguments", len(cases))
    ctx.check_many("args_unchanged", cases)
    # elements made by the process_element boilerplate pop exactly their arity and push exactly one result
    kinds = {e["key"]: e["kind"] for e in g["elements"]}
    monads = [k for k, a in sorted(table.items()) if a == 1 and kinds[k] in ("fn", "expr") and k not in SKIP]
    progs = []
    n = 6000 if thorough else 700
    for _ in range(n):
        src, val = rng.choice(LISTVALS)
        els = "".join(rng.choice(monads) + " " for _ in range(rng.randint(1, 3)))
        if rng.random() < 0.35:
            els = rng.choice(["0 9Ȧ", "1 7Ȧ", "t", "h", "Ṙ", "s", "ṫ_", "ḣ_", "U", "Ṫ", "Ḣ", "0 5Ṁ", "Ṙ s", "1 9Ȧ Ṙ"]) + " " + els
        k = rng.randrange(6)
        if k == 0:
            progs.append({"prog": src + ":" + els, "value": val, "where": "stack0"})
        elif k == 1:
            progs.append({"prog": src + "D" + els, "value": val, "where": "stack0"})
        elif k == 2:
            progs.append({"prog": src + "→a ←a " + els + "_ ←a", "value": val, "where": "top"})
        elif k == 3:
            progs.append({"prog": src + "£¥" + els, "value": val, "where": "register"})
        elif k == 4:
            progs.append({"prog": src + ":⅛" + els, "value": val, "where": "global"})
        else:
            progs.append({"prog": src + ":" + els + "_ :" + els, "value": val, "where": "stack0"})
    ctx.bump("(b) copy programs", len(progs))
    ctx.check_many("copy_untouched", progs)
    # (c) values read out of interpreter state, then the state is changed
    PRE = ["1⅛2⅛", "⟨1|2⟩⅛", "3ɾ⅛5⅛", "1⅛", "", "⟨1|2⟩→a 1⅛", "3ɾ→a", "⟨1|2⟩£", "3ɾ£ 4⅛"]
    PUSH = ["¾", "¾:h_", "¾:L_", "←a", "¥", "¾ƛd;", "¾ṫ_", "←a:h_", "¥:t_"]
    POST = ["2⅛", "¼_", "Þ¾", "⟨3⟩⅛", "9→a", "9£", "¾_", "2⅛¼_", "2⅛3⅛", "¼_¼_", "⟨7|8⟩→a", "⟨7|8⟩£"]
    held = [{"pre": a, "push": b, "post": c} for a in PRE for b in PUSH for c in POST]
    if not thorough:
        held = rng.sample(held, 300)
    ctx.bump("(c) held value vs later state change", len(held))
    ctx.check_many("held_value", held)
    # (d) the context value of a scope, taken late or kept while the scope's stack changes
    SCOPES = [("3 4 λ2|", ";†"), ("3 4 5 λ3|", ";†"), ("7 λ", ";†"), ("⟨1|2⟩ 7 λ2|", ";†"), ("⟨1|2|3⟩ λ", ";R"), ("⟨4|5⟩ ƛ", ";"),
              ("⟨⟨1|2⟩|⟨3⟩⟩ ƛ", ";"), ("@f:2|", "; 3 4 @f;"), ("@f:1|", "; ⟨1|2⟩ @f;"), ("2(", ")"), ("⟨⟨5⟩|⟨6|7⟩⟩(", ")"),
              ("3 4 λ2|1 λ", ";†;†"), ("3 4 λ2|_ ƛ", ";;†"), ("⟨1|2⟩ ⟨3|4⟩ λ2|", ";†")]
    POSTS = ["+", "7 8 9", "_", "d", "$", "1+", ":", "+ 5", "__ 6", "W", "9 J", "h", "Ṙ", "0 9Ȧ", "L", "^"]
    KEEP = [("£", "¥"), ("→x", "←x"), ("⅛", "¾t")]
    scoped = []
    for sc in SCOPES:
        op, cl = sc
        for post in POSTS:
            body_plain = "n"
            scoped.append({"plain": op + body_plain + cl, "prog": op + post + " n" + cl})
            for st, rd in KEEP:
                scoped.append({"plain": op + body_plain + cl, "prog": op + "n" + st + " " + post + " " + rd + cl})
    if not thorough:
        scoped = rng.sample(scoped, 400)
    ctx.bump("(d) scope value taken late / kept while the scope's stack changes", len(scoped))
    ctx.check_many("scope_value", scoped)
    ctx.sample({"prog": "⟨1|2|3⟩:0 9Ȧ", "stack": [flat(snap(x)) for x in vy.run_program("⟨1|2|3⟩:0 9Ȧ")[0]]})
    ctx.sample(cases[0])


def search(ctx):
    if ctx.tier != "thorough":
        run(ctx, widen=True)
