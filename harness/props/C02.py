"""C02 — every well-formed program transpiles to Python that compiles."""
import itertools
import re
import gens
import vy
import aststream
from core import alarm
from vyxal import lexer, parse as vparse, structure as S
from vyxal.transpile import transpile

RULE = ("(a) every key of the element table in 8 (quick) / 33 (thorough) contexts: each branch of each structure, each modifier slot, nested; "
        "(b) every program of <= 3 (quick) / <= 5 (thorough) symbols over the 14-symbol structural alphabet [ ] ( ) { } λ ; | X x v ₌ 1, "
        "plus a seeded sample of longer ones; (e) every code-page character in every header position (function name, each parameter kind, loop variable, variable name, lambda arity); (c) grammar-derived programs to depth 4 with all token kinds and all eleven modifier "
        "characters; (d) string literals with every backslash escape. A program whose parse raises (a modifier without enough operands, a "
        "non-integer lambda arity) is not well-formed and is skipped (counted); (f) every structure with 1..9 branches, several bodies, several contexts, closed and end-truncated. Oracle: transpile returns and compile() accepts the text. "
        "Correspondence: ast.parse of the text vs the Lean transpiler model's tree. Non-trivial = distinct well-formed program.")
TRUSTED = ["T3 CPython's compile() is the judge of 'syntactically valid Python'"]

ALPHA14 = list("[](){}λ;|Xxv₌1")


def loopy_parent_sites(tree, in_list=False, out=None):
    """does the tree contain X/x with a loop/lambda parent directly inside a list-literal item, or inside a while condition?"""
    out = out if out is not None else []
    for s in tree:
        t = type(s)
        if t in (S.BreakStatement, S.RecurseStatement):
            if in_list and s.parent_structure in (S.ForLoop, S.WhileLoop):
                out.append("list-item")
        elif t is S.IfStatement:
            for b in s.branches:
                loopy_parent_sites(b, in_list, out)
        elif t is S.ListLiteral:
            for b in s.items:
                loopy_parent_sites(b, True, out)
        elif t is S.ForLoop:
            loopy_parent_sites(s.body, False, out)
        elif t is S.WhileLoop:
            if s.condition and not isinstance(s.condition[0], lexer.Token):
                if has_break(s.condition):
                    out.append("while-condition")
                loopy_parent_sites(s.condition, False, out)
            loopy_parent_sites(s.body, False, out)
        elif t is S.FunctionDef:
            loopy_parent_sites(s.body, False, out)
        elif t is S.Lambda:
            loopy_parent_sites(s.body, False, out)
        elif isinstance(s, S.LambdaOp):
            loopy_parent_sites(s.lam.body, False, out)
        elif isinstance(s, (S.MonadicModifier, S.DyadicModifier, S.TriadicModifier)):
            loopy_parent_sites([b for b in s.branches], in_list, out)
    return out


def has_break(tree):
    for s in tree:
        t = type(s)
        if t in (S.BreakStatement, S.RecurseStatement) and s.parent_structure in (S.ForLoop, S.WhileLoop):
            return True
        if t in (S.IfStatement,):
            if any(has_break(b) for b in s.branches):
                return True
        if t is S.ListLiteral and any(has_break(b) for b in s.items):
            return True
        if isinstance(s, (S.MonadicModifier, S.DyadicModifier, S.TriadicModifier)) and has_break(list(s.branches)):
            return True
    return False


def o_compiles(inp):
    prog, dc = inp["prog"], inp.get("dict", True)
    try:
        toks = lexer.tokenise(prog)
        tree = vparse.parse(toks)
    except (IndexError, ValueError, AssertionError) as ex:
        return True, f"not well-formed ({type(ex).__name__})"
    try:
        code = transpile(prog, dc)
    except Exception as ex:  # noqa: BLE001
        return False, f"transpile raised {type(ex).__name__}: {ex}"
    try:
        compile(code, "<vyxal>", "exec")
    except SyntaxError as ex:
        msg = str(ex.msg)
        detail = f"SyntaxError: {msg}"
        if msg in ("'break' outside loop", "'continue' not properly in loop") and loopy_parent_sites(tree):
            # F5 / F26: break/continue emitted before a `while` (condition branch) or inside `def list_item`
            return False, detail, ("break_outside_loop", "callsite")
        if ("escape" in msg or "codec" in msg) and re.search(r"\\[xuUN]", prog):
            # F7: a Vyxal string is copied into a Python literal with its \x \u \U \N escapes live
            return False, detail, ("string_escape", "callsite")
        return False, detail
    except ValueError as ex:
        return True, f"source rejected before compilation ({ex})"
    return True, "compiles"


def o_callsite_break(_):
    try:
        compile(transpile("3(⟨X⟩)"), "<vyxal>", "exec")
        compile(transpile("{X|1}"), "<vyxal>", "exec")
    except SyntaxError as ex:
        return False, f"3(⟨X⟩) / {{X|1}}: SyntaxError {ex.msg}"
    return True, "compile"


def o_callsite_escape(_):
    try:
        compile(transpile("`\\xq`"), "<vyxal>", "exec")
    except SyntaxError as ex:
        return False, f"`\\xq`: SyntaxError {ex.msg}"
    return True, "compiles"


def real_verdict(prog):
    """what the real pipeline says: ('skip', why) | ('ok',) | ('break',) | ('syntax', msg)"""
    try:
        vparse.parse(lexer.tokenise(prog))
    except (IndexError, ValueError, AssertionError) as ex:
        return ("skip", "parse " + type(ex).__name__)
    try:
        code = transpile(prog, False)
    except Exception as ex:  # noqa: BLE001
        return ("skip", "transpile " + type(ex).__name__)
    try:
        compile(code, "<vyxal>", "exec")
    except SyntaxError as ex:
        if str(ex.msg) in ("'break' outside loop", "'continue' not properly in loop", "'return' outside function"):
            return ("break",)
        return ("syntax", str(ex.msg))
    except ValueError as ex:
        return ("skip", "source " + str(ex)[:40])
    return ("ok",)


def placed_stream(ctx, progs):
    """ties the hypothesis and the conclusion of the tree-level theorem `transpile_wf` to the real pipeline:
    the model's `placedL false false (parse p)` is false exactly where CPython reports break / continue / return out of
    place (the F5 / F26 call sites), and the model's `wfL` verdict on the transpiled tree is CPython's verdict"""
    progs = list(dict.fromkeys(progs))
    out = ctx.driver(["placed\t" + vy.cps(p) for p in progs])
    ctx.count("corr:placed", len(progs))
    st = {"agree": 0, "skip": 0, "disagree": 0, "placed=F": 0}
    for p, m in zip(progs, out):
        r = real_verdict(p)
        if r[0] == "skip" or m.startswith("ERR") or "wf=ERR" in m:
            st["skip"] += 1        # not well-formed (parse raises) or outside the transpiler model (strings it cannot decode)
            continue
        placed = "placed=T" in m
        wf = "wf=T" in m
        st["placed=F"] += (not placed)
        if r[0] == "syntax":          # a syntax error of another kind (string escapes, F7): not what wfL is about
            st["skip"] += 1
            continue
        ok = (r[0] == "ok")
        if wf == ok and (placed or not ok) and (ok or not placed):
            st["agree"] += 1
        else:
            st["disagree"] += 1
            ctx.disagree("placed", p, repr(r), m)
    for k, v in st.items():
        ctx.bump("placed:" + k, v)
    return st


ORACLES = {"compiles": o_compiles, "break_outside_loop": o_callsite_break, "string_escape": o_callsite_escape}

CONTEXTS33 = [("", ""), ("1", ""), ("[", "]"), ("[1|", "]"), ("[1|2|", "]"), ("(", ")"), ("(n|", ")"), ("{", "}"), ("{", "|1}"), ("{1|", "}"),
              ("λ", ";"), ("λ2|", ";"), ("ƛ", ";"), ("'", ";"), ("µ", ";"), ("⟨", "⟩"), ("⟨1|", "⟩"), ("@f|", ";"), ("@f:a:2:*|", ";"),
              ("v", ""), ("&", ""), ("~", ""), ("ß", ""), ("ƒ", ""), ("ɖ", ""), ("⁽", ""), ("₌", "+"), ("₌+", ""), ("₍+", ""), ("‡+", ""),
              ("≬++", ""), ("(λ[", "];)"), ("⟨{1|", "}⟩")]
QUICK_CTX = [0, 2, 5, 9, 10, 15, 19, 26]


def run(ctx, widen=False):
    thorough = ctx.tier == "thorough" or widen
    rng = ctx.rng
    g = ctx.gen
    keys = sorted({e["key"] for e in g["elements"]})
    progs = []
    ctxs = CONTEXTS33 if thorough else [CONTEXTS33[i] for i in QUICK_CTX]
    for k in keys:
        for pre, post in ctxs:
            progs.append(pre + k + post)
    ctx.bump("(a) key x context", len(progs))
    nb = 0
    for L in range(0, 6 if ctx.tier == "thorough" else 4):
        for t in itertools.product(ALPHA14, repeat=L):
            progs.append("".join(t)); nb += 1
    for _ in range(40000 if thorough else 4000):
        progs.append("".join(rng.choice(ALPHA14) for _ in range(rng.randint(4, 9)))); nb += 1
    ctx.bump("(b) structural alphabet", nb)
    nc = 20000 if thorough else 3000
    for _ in range(nc):
        progs.append(gens.well_formed(rng, rng.randint(1, 4)))
    for _ in range(nc // 2):
        progs.append(gens.random_program(rng, 10))
    ctx.bump("(c) grammar", nc + nc // 2)
    esc = []
    for c in "abfnrtv0123456789xuUN\\'\"`\n qQ{}":
        esc += ["`\\" + c + "`", "`a\\" + c + "41}b`", "‛\\" + c, "‛" + c + "\\", "\\\\", "`\\" + c,
                "`\\" + c + "7`", "`\\" + c + "77`", "`\\" + c + "777`", "`\\" + c + "8`"]
    progs += esc
    ctx.bump("(d) escapes", len(esc))
    hdr = []
    for c in g["codepage"]:
        hdr += [f"@f:{c}|1;", f"@f:a{c}b|1;", f"@f:{c}{c}:2|1;", f"@{c}|1;", f"@{c};", f"({c}|1)", f"(a{c}|1)", f"→a{c}", f"λ{c}|1;"]
    import itertools as _it
    for L in (1, 2, 3):
        for t in _it.product("0129", repeat=L):
            d = "".join(t)
            hdr += [f"@f:{d}|1;", f"@f:a:{d}|+;", f"λ{d}|1;", f"@f:{d}:*|W;", f"({d}|1)", f"@{d}|1;@{d};"]
    progs += hdr
    ctx.bump("(e) headers with every code-page character and every short digit string", len(hdr))
    # (f) every structure with 1..9 branches (the templates nest one level per branch: the text-level indentation is only
    # exercised by long chains), bodies of several kinds, in several contexts, closed and end-truncated
    sweep = []
    bodies = ["", "1", "X", "x", "n+", "[1|2]", "(n)", "λ1;"]
    for op, cl in (("[", "]"), ("(", ")"), ("{", "}"), ("λ", ";"), ("ƛ", ";"), ("'", ";"), ("µ", ";"), ("⟨", "⟩"), ("@f:", ";"), ("@f|", ";")):
        for nb in range(1, 10):
            for body in bodies:
                inner = "|".join([body] * nb)
                for pre, post in (("", ""), ("3(", ")"), ("λ", ";"), ("⟨", "⟩"), ("[1|", "]"), ("{1|", "}"), ("v", ""), ("₌+", "")):
                    sweep.append(pre + op + inner + cl + post)
                sweep.append(op + inner)                      # end-truncated
            mixed = "|".join(bodies[(i + nb) % len(bodies)] for i in range(nb))
            sweep += [op + mixed + cl, "2(" + op + mixed + cl + ")", op + mixed]
    # (g) every code-page character (the newline among them) as the payload of each one-/two-character literal kind, in several positions
    lits = []
    for c in g["codepage"]:
        for lit_ in ("\\" + c, "‛" + c + "a", "‛a" + c, "‛" + c + c, "k" + c if c not in "\n" else "\\" + c + "1", "⁺" + c):
            lits += [lit_, "λ" + lit_ + ";", "[1|" + lit_ + "]", "⟨" + lit_ + "|2⟩", "v" + lit_, "3(" + lit_ + ")"]
    progs += lits
    ctx.bump("(g) every code-page character in character / two-character / code-page-number literals x position", len(lits))
    progs += sweep
    ctx.bump("(f) branch-count sweep (1..9 branches x structure x body x context)", len(sweep))
    progs = list(dict.fromkeys(progs))
    cases = [{"prog": p, "dict": True} for p in progs] + [{"prog": p, "dict": False} for p in esc + progs[:2000]]
    ctx.check_many("compiles", cases)
    ctx.exhaustive = ctx.tier == "thorough"
    ctx.sample({"prog": "3(λ[X];)", "python": transpile("3(λ[X];)")[:300]})
    sub = progs if thorough else (progs[: 9000] + sweep[:: 7] + esc + hdr[:: 5])
    aststream.run_stream(ctx, sub, dict_compress=False)
    placed_stream(ctx, sub)
    nocomp = [p for p in sub[:3000] if not any(c in g["codepage"][:0] for c in p)]
    ctx.sample({"prog": sub[-1]})


def search(ctx):
    if ctx.tier != "thorough":
        run(ctx, widen=True)
