"""C19 — online mode contains the program: no host output, no evaluation of user text."""
import ast
import io
import json
import multiprocessing as mp
import os
import sys
import tempfile
import progs

RULE = ("programs from the core grammar extended with every printing element (, … ₴ ¨, ¨…) on scalars, lists, lazy lists and functions, with E "
        "(evaluate), † (call) and Ė (execute) on strings, and inputs / string literals carrying a taint marker (including Python expressions with "
        "side effects, alone and behind a literal-looking prefix such as 1/2, [1,2], 'a', 0x10); each case runs in a child process under sys.addaudithook with fd-level capture of the host's stdout. Oracles: the host's "
        "stdout stays empty; no compile / exec audit event carries the marker anywhere but inside a string constant of generated code; no "
        "input() / os.system / subprocess / socket event; an exception ends in the error record and exit status, not in a traceback; the output "
        "record is not missing anything the same program prints offline (as many lines, not empty when the offline output is not). Non-trivial = distinct (program, inputs).")
TRUSTED = ["T8 dynamic ways of reaching eval that are not syntactic calls are outside the sink inventory; the audit-hook runs are the backstop"]
MARK = "TAINT7731"
FORBIDDEN_EVENTS = ("os.system", "subprocess.Popen", "socket.connect", "os.exec", "os.posix_spawn", "urllib.Request")


def _child(cases, q):
    """runs in a fresh process: audit hook + fd capture; results go through the queue"""
    sys.path.insert(0, os.environ.get("VERIF_REPO", "/repo"))
    import warnings
    warnings.simplefilter("ignore")
    import signal
    from vyxal.main import execute_vyxal
    events = []
    state = {"on": False}

    def hook(ev, args):
        if not state["on"]:
            return
        if ev == "compile":
            src = args[0]
            fname = args[1] if len(args) > 1 else ""
            if isinstance(src, (bytes, bytearray)):
                src = src.decode("utf-8", "replace")
            # ast.parse / ast.literal_eval compile with the filename "<unknown>" and PyCF_ONLY_AST: nothing is executed
            if isinstance(src, str) and MARK in src and fname != "<unknown>":
                events.append((ev, src[:2000]))
        elif ev in FORBIDDEN_EVENTS:
            events.append((ev, repr(args)[:200]))

    sys.addaudithook(hook)
    devnull = os.open(os.devnull, os.O_RDONLY)
    os.dup2(devnull, 0)
    out = []
    for case in cases:
        prog, inputs, flags, online = case["prog"], case["inputs"], case.get("flags", ""), case["online"]
        events.clear()
        tmp = tempfile.TemporaryFile(mode="w+b")
        saved = os.dup(1)
        sys.stdout.flush()
        os.dup2(tmp.fileno(), 1)
        ret = {1: "", 2: ""}
        status = "returned"

        def on_alarm(signum, frame):
            raise TimeoutError()
        signal.signal(signal.SIGALRM, on_alarm)
        signal.setitimer(signal.ITIMER_REAL, 4, 0.5)
        state["on"] = True
        try:
            if online:
                execute_vyxal(prog, flags + "e", "\n".join(inputs), ret, True)
            else:
                execute_vyxal(prog, flags + "e", list(inputs), None, False)
        except SystemExit as ex:
            status = f"exit {ex.code}"
        except TimeoutError:
            status = "timeout"
        except BaseException as ex:  # noqa: BLE001
            status = f"raised {type(ex).__name__}"
        finally:
            state["on"] = False
            signal.setitimer(signal.ITIMER_REAL, 0)
            sys.stdout.flush()
            os.dup2(saved, 1)
            os.close(saved)
        tmp.seek(0)
        host = tmp.read().decode("utf-8", "replace")
        tmp.close()
        out.append({"host": host, "events": list(events), "rec": ret[1], "err": ret[2][-300:], "status": status})
    q.put(out)


def run_cases(cases):
    ctxm = mp.get_context("spawn")
    q = ctxm.Queue()
    p = ctxm.Process(target=_child, args=(cases, q))
    p.start()
    try:
        res = q.get(timeout=60 + 5 * len(cases))
    finally:
        p.join(10)
        if p.is_alive():
            p.kill()
    return res


def marker_only_in_constants(src):
    """in generated code the marker may appear only inside string constants"""
    try:
        tree = ast.parse(src)
    except SyntaxError:
        return False
    for n in ast.walk(tree):
        if isinstance(n, ast.Name) and MARK in n.id:
            return False
        if isinstance(n, ast.Attribute) and MARK in n.attr:
            return False
        if isinstance(n, ast.FunctionDef) and MARK in n.name:
            return False
        if isinstance(n, ast.keyword) and n.arg and MARK in n.arg:
            return False
    # every occurrence must be accounted for by string constants
    total = src.count(MARK)
    in_consts = sum(str(n.value).count(MARK) for n in ast.walk(tree) if isinstance(n, ast.Constant) and isinstance(n.value, str))
    return in_consts >= 1 and total >= 1


def judge(case, on, off):
    if on["host"]:
        return False, f"online run wrote to the host's stdout: {on['host'][:120]!r}"
    for ev, detail in on["events"]:
        if ev in ("compile", "exec"):
            if not marker_only_in_constants(detail):
                return False, f"user text reached {ev}(): {detail[:160]!r}"
        else:
            return False, f"audit event {ev} {detail}"
    if on["status"].startswith("raised"):
        return False, f"an exception propagated out of online mode: {on['status']} (error record: {on['err'][-120:]!r})"
    if on["status"] == "exit 1" and not on["err"].strip():
        return False, "online run failed without anything in the error record"
    if off is not None and on["status"] == "returned" and off["status"] == "returned" and MARK not in case["prog"] + "".join(case["inputs"]):
        # C19 says that everything printed is collected in the record — not that the record equals the offline output: a value
        # that passes through vy_eval legitimately differs between the modes (`-J,` on 9, 8: `9-1` online, 8 offline). What is
        # demanded is that nothing the offline run prints is *missing* from the record: as many lines, and no shorter.
        # (the line count is not compared under the flags that lay a value out character by character — j J L C — where a value that
        # legitimately differs also differs in its number of lines: the input 1/3 is the text `1/3` online and 0.333… offline)
        fewer = on["rec"].count("\n") < off["host"].count("\n") and not (set(case.get("flags", "")) & set("jJLC"))
        if on["rec"] != off["host"] and (fewer or (off["host"].strip() and not on["rec"].strip())):
            return False, f"output is missing from the record: record {on['rec'][:100]!r}, offline stdout {off['host'][:100]!r}"
    return True, on["status"]


def o_contained(inp):
    case = dict(inp, online=True)
    off = dict(inp, online=False)
    res = run_cases([case, off] if inp.get("compare", True) else [case])
    return judge(inp, res[0], res[1] if len(res) > 1 else None)


ORACLES = {"online_contained": o_contained}

TAINTS = [f"print('{MARK}')", f"__import__('os').system('echo {MARK}')", f"{MARK}", f"[1, {MARK}]", f"'{MARK}'", f"open('/tmp/{MARK}','w')",
          f"(lambda: {MARK})()", f"1 if {MARK} else 2", "1+1", "[1,2,3]", '"abc"', "3.5"]


# injection payloads ride on text the input reader accepts: a literal-looking prefix followed by an expression with a side effect
PREFIXES = ["1", "1/2", "-3", "3.5", "1e3", "[1,2]", "'a'", '"a"', "1,2", "0x10", "(1)", "True", " 7", "1 / 2", "12/34"]
TAILS = ["+0*len([print('%s')])", " and print('%s')", "if print('%s') else 0", "+[print('%s')]", "*(print('%s') or 1)", "**print('%s')"]
PREFIXED = [p + (t % MARK) for p in PREFIXES for t in TAILS]


# ---- the widened search's element sweep: a tainted input handed to EVERY element of the regenerated table, at every argument
# position, next to number fillers and next to string fillers.  It exists so that a new evaluation path inside an element (the
# sink inventory `sinks_accounted` breaks on it) is reported with a concrete input instead of no-failing-input-found.
# The payloads only ever call print(): an evaluated payload shows up on the host's stdout.
SWEEP_TAINTS = [f"print('{MARK}')", f"*(print('{MARK}') or 1)*", f"1+len([print('{MARK}')])"]
# Elements that evaluate text BY DESIGN on the unchanged tree — outside what C19 states (it names the evaluate element, the call
# element on a string and input parsing) and audited one by one in Proofs/C19.lean `audited` (classes symbolicMath / numericText:
# sympy.sympify / parse_expr of an expression the program hands to a calculus element), plus the http element.  Established by
# running this sweep on the unchanged tree (DESIGN §11.4); an element outside this list that evaluates text is a new path.
SWEEP_BY_DESIGN = {k: "calculus / symbolic-math element: a string argument is an expression, read with sympy (audited: helpers.make_expression, "
                      "helpers.local_minima / local_maxima / stationary_points — class symbolicMath)"
                   for k in ["∆²", "∆c", "∆C", "∆s", "∆S", "∆t", "∆T", "∆q", "∆Q", "∆i", "∆ė", "∆Ė", "∆K", "∆e", "∆E", "∆L", "∆l", "∆τ", "∆D",
                             "∆R", "∆Ṗ", "∆ṗ", "∆p", "∆ṫ", "∆¢", "∆ṁ", "∆Ṁ"]}
SWEEP_BY_DESIGN["øḋ"] = "to decimal: str(eval(sympy.pycode(lhs))) — pycode sympifies a string argument (audited: template:øḋ)"


def element_sweep_cases(gen, exclude=True):
    cases = []
    for e in gen["elements"]:
        k, a = e["key"], e["arity"]
        if not isinstance(a, int) or a < 1 or a > 3:
            continue
        if exclude and k in SWEEP_BY_DESIGN:
            continue
        for fill in (["1444", "44"], ["`a1`", "`1`"]):
            for pos in range(a):
                args, f = [], 0
                for i in range(a):
                    if i == pos:
                        args.append("?")
                    else:
                        args.append(fill[f % 2]); f += 1
                prog = " ".join(args) + " " + k
                for t in SWEEP_TAINTS:
                    cases.append({"prog": prog, "inputs": [t], "compare": False, "elem": k})
    return cases


def run(ctx, widen=False):
    thorough = ctx.tier == "thorough" or widen
    rng = ctx.rng
    cases = []
    # (a) tainted inputs with programs that read, evaluate, call, execute and print them
    readers = ["?", "?E", "??+", "?,", "?…", "?₴", "?†", "?Ė", "?S E", "□", "?:E$,", "λ?E;†", "?`E`+Ė", "3(?E,)", "?ṅE", "⟨?|?⟩vE", "?q E", "?øV", "?E ¨,", "?E¨…"]
    for prog in readers:
        for t in (TAINTS + PREFIXED if thorough else rng.sample(TAINTS, 5) + rng.sample(PREFIXED, 12)):
            cases.append({"prog": prog, "inputs": [t, t], "compare": False})
    # (b) tainted string literals inside the program
    for t in TAINTS[:8] + (PREFIXED if thorough else rng.sample(PREFIXED, 10)):
        q = t.replace("\\", "\\\\").replace("`", "\\`")
        for tail in ["E", "†", "Ė", ",", "E,", "…", ":E", "S", "q E", "→a ←a E"]:
            cases.append({"prog": "`" + q + "`" + tail, "inputs": [], "compare": False})
    # (c) printing elements on every kind of value, online record == offline stdout
    vals = ["5", "3.5", "`ab`", "⟨1|2|3⟩", "3ɾ", "⟨⟩", "⟨`a`|⟨1|2⟩⟩", "λ1+;", "3ɾƛd;", "10ʁ'2%;"]
    prints = [",", "…", "₴", "¨,", "¨…", ",,", "… ₴", ", 5,"]
    for v in vals:
        for pr in prints:
            cases.append({"prog": v + pr, "inputs": [], "compare": True})
    # (d) core-grammar programs (with printing) and failing programs
    for _ in range(400 if thorough else 60):
        cases.append({"prog": progs.core_program(rng, rng.randint(1, 3)), "inputs": [str(rng.randint(0, 9)) for _ in range(rng.randint(0, 2))], "compare": True})
    for bad in ["1 0/ `a`+ 5 ∆ṫ", "`abc` ∆Ṗ", "λ", "⟨1|2⟩ `x` ÷ ε", "5 `a` e", "@f;"]:
        cases.append({"prog": bad, "inputs": [], "compare": False})
    for flags in ["", "j", "s", "W", "c", "O", "o"]:
        cases.append({"prog": "⟨1|2|3⟩", "inputs": [], "flags": flags, "compare": flags != "c"})   # `c` shows the code: stdout offline, error record online
        cases.append({"prog": "`" + MARK + "`", "inputs": [], "flags": flags, "compare": False})
    # (c2) every flag that changes how values are produced or printed, on integers, non-integers (the `ḋ` flag turns those into
    # Python floats on their way to the record), strings and lists, through every printing element and the implicit output
    all_flags = list("jsdṪLSCGgWṡJ…lḋHMṀmrRDVtP?23aṠOo")
    fvals = ["1 4/", "0.5", "2√", "5", "3 7/ 2", "`ab`", "⟨1|2.5|3⟩", "?"]
    fprints = ["", ",", "…", "₴", "¨,"]
    grid = [{"prog": v + pr, "inputs": ["3", "7"], "flags": fl, "compare": True} for fl in all_flags for v in fvals for pr in fprints]
    cases += grid if thorough else rng.sample(grid, 40) + [c for c in grid if c["flags"] == "ḋ" and c["prog"] in ("1 4/,", "0.5", "2√…", "?₴")]
    # (e) inputs / evaluated strings that ARE Python literals but not Vyxal values, or that strain the literal reader: the
    # input reader must keep them as text or read them as values — never let an exception out
    odd = ["None", "...", "[1, None, 'x']", "{['x']: 2}", "1e999", "-1e999", "1j", "b'ab'", "{1, 2}", "{'a': 1}", "(1, 2)", "()", "[[]]",
           "True", "False", "-" * 3000 + "1", "[" * 200 + "]" * 200, "1_000", "0o17", "0b2", "00", "1.0.0", "nan", "inf", "'\\ud800'",
           '\"\"\"x\"\"\"', "[1,[2,[3,[None]]]]", "1e-999", "[1, ...]", "{}", "[None]", "(None,)", "-None", "1 if 1 else 2", "''", "\"", "[", "]",
           "1,", ",1", "[1,]", "[,1]", "3.", ".5", "-.5e3", "+7", "--7", "~7", "1__0", "1e", "0x", "0xg", "\\", "#"]
    odd_readers = [",", "?,", "?E,", "? ?+,", "?S,", "□,", "?:,", "?₴", "?…"]
    for t in (odd if thorough else rng.sample(odd, 24) + ["None", "...", "1e999", "[1, None, 'x']"]):
        for prog in (odd_readers if thorough else rng.sample(odd_readers, 4) + [","]):
            cases.append({"prog": prog, "inputs": [t], "compare": False})
            cases.append({"prog": prog, "inputs": ["12", t], "compare": False})
        q = t.replace("\\", "\\\\").replace("`", "\\`")
        if len(q) < 200:
            # no comparison with the offline run: online `E` reads literals only, offline `E` is Python's eval, so a string
            # that is an expression but not a literal (`~7`, `--7`, `1 if 1 else 2`) differs by design
            cases.append({"prog": "`" + q + "`E,", "inputs": [], "compare": False})
            cases.append({"prog": "`" + q + "`E", "inputs": [], "compare": False})
    # (f) printing a list that never ends: the run is cut off after 4 s, and whatever reached the host's stdout by then is judged
    # (the separators / items of an infinite list go through LazyList.output, item by item)
    inf_src = ["Þp", "ÞF", "Þ!", "Þo", "Þc", "⁽›1Ḟ", "Þ∞", "Þp⁽dM", "Þ∞2ẇ"]
    inf_print = [(",", ""), ("", ""), ("…", "P"), ("¨,", ""), ("₴", ""), (":,", "")]
    inf_cases = [{"prog": a + pr, "inputs": [], "flags": fl, "compare": False} for a in inf_src for pr, fl in inf_print]
    cases += inf_cases if thorough else rng.sample(inf_cases, 10) + [{"prog": "Þp,", "inputs": [], "compare": False}]
    ctx.bump("cases", len(cases))
    # run in batches in child processes
    B = 40
    batches = [cases[i:i + B] for i in range(0, len(cases), B)]
    import concurrent.futures as cf
    def work(batch):
        flat = []
        for c in batch:
            flat.append(dict(c, online=True))
            if c.get("compare", True):
                flat.append(dict(c, online=False))
        res = run_cases(flat)
        out, i = [], 0
        for c in batch:
            on = res[i]; i += 1
            off = None
            if c.get("compare", True):
                off = res[i]; i += 1
            out.append((c, on, off))
        return out
    with cf.ThreadPoolExecutor(max_workers=8) as ex:
        for triples in ex.map(work, batches):
            for c, on, off in triples:
                ctx.count("oracle:online_contained")
                ctx.nontriv(("c19", json.dumps(c, sort_keys=True, ensure_ascii=False)))
                ctx.bump("status:" + on["status"].split(" ")[0])
                ok, detail = judge(c, on, off)
                if not ok:
                    ctx.violation("online_contained", c, detail)
    ctx.sample({"prog": "?E", "inputs": [TAINTS[1]], "what": "the input stays a string online; literal_eval refuses it"})
    ctx.sample(cases[-1])


def sweep(ctx):
    """tainted input through every element (see SWEEP_BY_DESIGN); only ever run by the widened search"""
    import concurrent.futures as cf
    cases = element_sweep_cases(ctx.gen)
    ctx.bump("sweep-cases", len(cases))
    batches = [cases[i:i + 40] for i in range(0, len(cases), 40)]

    def work(batch):
        return list(zip(batch, run_cases([dict(c, online=True) for c in batch])))
    with cf.ThreadPoolExecutor(max_workers=8) as ex:
        for pairs in ex.map(work, batches):
            for c, on in pairs:
                ctx.count("oracle:online_contained(sweep)")
                ok, detail = judge(c, on, None)
                if not ok:
                    ctx.violation("online_contained", c, "element sweep of the widened search (a new evaluation path inside an element): " + detail)


def search(ctx):
    if ctx.tier != "thorough":
        run(ctx, widen=True)
    if not ctx.violations:
        sweep(ctx)
