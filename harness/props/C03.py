"""C03 — literal contents and comments are data, never syntax."""
import itertools
import gens
import vy
from vyxal import lexer

RULE = ("programs = context (42 fixed prefixes/suffixes: top level, every branch of every structure, every modifier operand slot, "
        "nested) x literal kind (7) x payload over the 28 syntax-significant characters and the 8 characters the lexer itself reacts to (\\ ` « » ‛ # ⁺ newline); quick: every payload of length 1 (and 2 "
        "for two-character strings) plus seeded random length-2 payloads and random piece programs; thorough: every payload of "
        "length <= 2, exhaustively. Oracle: the parse of the program with the payload and with a neutral payload of the same length "
        "have the same shape (token values of literal kinds erased; errors compared too). Every program is also lexed and parsed by "
        "the Lean model and compared with the real lexer/parser. Non-trivial = distinct (context, kind, payload).")
TRUSTED = ["T-C03 the shape comparison erases the value of string/character/compressed/code-page tokens only (same `erase` as the Lean theorem)"]

ERASE = {lexer.TokenType.STRING, lexer.TokenType.CHARACTER, lexer.TokenType.COMPRESSED_NUMBER,
         lexer.TokenType.COMPRESSED_STRING, lexer.TokenType.CODEPAGE_NUMBER}


def shape(src):
    toks = lexer.tokenise(src)
    toks = [lexer.Token(t.name, "") if t.name in ERASE else t for t in toks]
    return vy.impl_parse_tokens(toks), len(toks)


def shape_of_parse(src):
    """parse first, erase afterwards (the property's own reading)"""
    import re
    s = vy.impl_lexparse(src)
    return re.sub(r"\(G (string|character|compressed_number|compressed_string|codepage_number) <[0-9 ]*>\)", r"(G \1 <>)", s)


def o_payload_shape(inp):
    pre, kind, p, post = inp["pre"], inp["kind"], inp["p"], inp["post"]
    a = shape_of_parse(pre + gens.render_lit(kind, p) + post)
    b = shape_of_parse(pre + gens.render_lit(kind, gens.neutral(kind, p)) + post)
    return a == b, f"with payload: {a}   with neutral payload: {b}"


ORACLES = {"payload_shape": o_payload_shape}


def payloads(kind, maxlen, rng=None, nrand=0):
    A = gens.SYNTAX28 + gens.LEXSIG
    out = []
    for L in range(1, maxlen + 1):
        for t in itertools.product(A, repeat=L):
            p = "".join(t)
            if gens.payload_ok(kind, p):
                out.append(p)
    return out


def run(ctx, widen=False):
    thorough = ctx.tier == "thorough" or widen
    progs = []
    n = 0
    for (pre, post) in gens.CONTEXTS:
        for kind in gens.LIT_KINDS:
            fixed2 = kind == "twoChar"
            if thorough or fixed2:
                ps = payloads(kind, 2)
            else:
                ps = payloads(kind, 1)
                if kind not in ("escChar", "cpnum"):
                    ps += ["".join(ctx.rng.choice(gens.SYNTAX28 + gens.LEXSIG) for _ in range(2)) for _ in range(12)]
                    ps += [a + b for a in "|];" for b in gens.LEXSIG] + [b + a for a in "|];" for b in gens.LEXSIG]
                    ps = [p for p in ps if gens.payload_ok(kind, p)]
            for p in ps:
                inp = {"pre": pre, "kind": kind, "p": p, "post": post}
                ctx.check("payload_shape", inp)
                progs.append(pre + gens.render_lit(kind, p) + post)
                n += 1
        ctx.bump("contexts")
    ctx.bump("payload programs", n)
    ctx.exhaustive = thorough
    ctx.sample({"pre": "[", "kind": "backquote", "p": "|", "post": "|2]", "program": "[`|`|2]", "shape": shape_of_parse("[`|`|2]")})
    # random piece programs for the lexer / parser correspondence
    nrand = 40000 if thorough else 6000
    for _ in range(nrand):
        progs.append(gens.random_program(ctx.rng, 10))
    for _ in range(nrand // 4):
        progs.append(gens.well_formed(ctx.rng, 3))
    progs = list(dict.fromkeys(progs))
    lines = ["tok\t" + vy.cps(p) for p in progs]
    exp = [vy.show_tokens(lexer.tokenise(p)) for p in progs]
    lines += ["lexparse\t" + vy.cps(p) for p in progs]
    exp += [vy.impl_lexparse(p) for p in progs]
    out = ctx.driver(lines)
    ctx.count("corr:lexer", len(progs))
    ctx.count("corr:parser", len(progs))
    errs = 0
    for l, e, o in zip(lines, exp, out):
        if e.startswith("ERR"):
            errs += 1
        if e != o:
            ctx.disagree("lexparse", l, e, o)
    ctx.bump("programs with a parse error", errs)
    ctx.bump("random programs", len(progs) - n)


def search(ctx):
    if ctx.tier != "thorough":
        run(ctx, widen=True)
