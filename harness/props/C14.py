"""C14 — finite prefixes of infinite lists are computed lazily and terminate."""
import itertools
import vy
from core import alarm, Timeout
from vyxal.context import Context
from vyxal import elements as E
from vyxal import helpers as H
from vyxal.LazyList import LazyList
from vyxal.transpile import transpile
import vyxal.main as M

RULE = ("an instrumented infinite source 1, 2, 3, … that counts __next__ calls (and raises after 20 000) feeds each of 27 catalogued lazy "
        "transformations (vectorised arithmetic, map, filter, zip, interleave, prefixes, cumulative sums, deltas, windows, chunks, flatten, uniquify, "
        "enumerate, prepend / append, slicing from an offset, head removal, every other item, …) and compositions of 2 (quick) / up to 3 (thorough); "
        "the first n items (n in 1,2,3,5,10,20,40) must come back within the time limit with at most a*n+b pulls, where (a, b) is the proved bound "
        "for the modelled machines and a stated generous linear bound otherwise; composed bounds by bound_compose. Correspondence: outputs and "
        "pull counts of the real elements vs the Lean machines. Non-trivial = distinct (pipeline, n).")
TRUSTED = ["T4 CPython's generator protocol and itertools are not modelled; each machine is a hand reading of a generator body validated by outputs and pull counts"]
CTX = Context()


class Source:
    def __init__(self):
        self.pulls = 0

    def __iter__(self):
        return self

    def __next__(self):
        self.pulls += 1
        if self.pulls > 20000:
            raise RuntimeError("source exhausted its budget")
        return self.pulls


def fn(code):
    ctx = Context(); stack = []; ctx.stacks.append(stack)
    ns = dict(vars(M)); ns["stack"] = stack; ns["ctx"] = ctx
    exec(transpile(code), ns)
    return stack[-1]


# name -> (apply to a lazy list, (a, b) such that pulls(n) <= a*n + b, model machine or None)
def catalogue():
    inc, odd, dbl = fn("λ›;"), fn("λ2%;"), fn("λd;")
    return {
        "incr": (lambda L: E.increment(L, CTX), (1, 0), "map 0"),
        "double": (lambda L: E.multiply(L, 2, CTX), (1, 0), "double 0"),
        "add-scalar": (lambda L: E.add(L, 5, CTX), (1, 0), "addk 5"),
        "compare": (lambda L: E.less_than(L, 7, CTX), (1, 0), "ltk 7"),
        # every operand shape of the dyadic vectorise skeleton (C08): scalar on the left, list on the left, two lists, nested
        "scalar-left-add": (lambda L: E.add(5, L, CTX), (1, 0), "kadd 5"),
        "scalar-left-sub": (lambda L: E.subtract(10, L, CTX), (1, 0), "ksub 10"),
        "scalar-left-mul": (lambda L: E.multiply(3, L, CTX), (1, 0), "kmul 3"),
        "scalar-left-cmp": (lambda L: E.less_than(7, L, CTX), (1, 0), "klt 7"),
        "list-list-add": (lambda L: E.add(L, E.multiply(L, 2, CTX), CTX), (2, 2), "triple 0"),
        "finite-left-add": (lambda L: E.add([1, 2, 3], L, CTX), (1, 1), "addlist 3"),
        "nested-scalar-left": (lambda L: E.add(1, E.wrap(L, 2, CTX), CTX), (2, 2), "chunksinc 2"),
        "explicit-v-right": (lambda L: E.vectorise(E.add, L, 5, explicit=True, ctx=CTX), (1, 0), "addk 5"),
        "explicit-v-left": (lambda L: E.vectorise(E.add, 5, L, explicit=True, ctx=CTX), (1, 0), "kadd 5"),
        "map-lambda": (lambda L: E.vy_map(L, inc, CTX), (1, 0), "map 0"),
        "filter-odd": (lambda L: E.vy_filter(L, odd, CTX), (2, 2), "filtermod-odd"),
        "zip-self": (lambda L: E.vy_zip(L, E.increment(L, CTX), CTX), (2, 2), "zipinc 0"),
        "interleave": (lambda L: E.interleave(L, E.multiply(L, 2, CTX), CTX), (1, 2), "interleavedbl 0"),
        "prefixes": (lambda L: H.prefixes(L, CTX), (1, 0), "prefixes 0"),
        "cumsum": (lambda L: E.cumulative_sum(L, CTX), (1, 1), "cumsum 0"),
        "deltas": (lambda L: E.deltas(L, CTX), (1, 1), "deltas 0"),
        "windows3": (lambda L: E.overlapping_groups(L, 3, CTX), (1, 3), "windows 3"),
        "chunks2": (lambda L: E.wrap(L, 2, CTX), (2, 2), "chunks 2"),
        "chunks3": (lambda L: E.wrap(L, 3, CTX), (3, 3), "chunks 3"),
        "flatten-chunks": (lambda L: E.deep_flatten(E.wrap(L, 2, CTX), CTX), (1, 2), "flattenchunks 0"),
        "uniquify": (lambda L: E.uniquify(L, CTX), (1, 0), "uniq 1"),
        "enumerate": (lambda L: E.vy_enumerate(L, CTX), (1, 1), "enumerate 0"),
        "prepend": (lambda L: E.prepend(L, 0, CTX), (1, 1), "prepend 0"),
        "merge-front": (lambda L: E.merge([0, 0], L, CTX), (1, 1), "prependlist 2"),
        "slice-from2": (lambda L: L[2:], (1, 3), "slicefrom 2"),
        "slice-from-elem": (lambda L: E.slice_from(L, 3, CTX), (1, 4), "slicefrom 3"),
        "head-remove": (lambda L: E.head_remove(L, CTX), (1, 2), "slicefrom 1"),
        "every-other": (lambda L: L[::2], (2, 1), "everyother 0"),
        "uninterleave-0": (lambda L: E.uninterleave(L, CTX)[0], (2, 1), "everyother 0"),
        "negate": (lambda L: E.negate(L, CTX), (1, 0), "neg 0"),
        "halve": (lambda L: E.halve(L, CTX), (1, 0), None),
        "group-consecutive": (lambda L: E.group_consecutive(L, CTX), (1, 2), "group 1"),
    }


CAT = None


def cat():
    global CAT
    if CAT is None:
        CAT = catalogue()
    return CAT


def canon(v):
    if isinstance(v, LazyList):
        return [canon(x) for x in v.listify()] if not v.infinite and False else [canon(x) for x in v[:6]]
    if isinstance(v, (list, tuple)):
        return [canon(x) for x in v]
    try:
        return int(v)
    except (TypeError, ValueError):
        return str(v)


_RETRIES = 0


def take_prefix(L, n, how):
    """the first n items, taken the way a program takes them: by index, by a Python slice, or with the element Ẏ"""
    if isinstance(L, list):
        return L[:n]
    if how == "slice":
        r = L[:n]
    elif how == "Ẏ":
        r = E.zero_slice(L, n, CTX)
    else:
        return [L[i] for i in range(n)]
    return list(r) if not isinstance(r, list) else r


def measure(pipeline, n, limit=10, how="index"):
    src = Source()
    L = LazyList(src, isinf=True)
    a, b = 1, 0
    for name in pipeline:
        f, (a2, b2), _ = cat()[name]
        L = f(L)
        a, b = a * a2, a * b2 + b       # bound_compose: p1(p2(n)) <= a1*a2*n + a1*b2 + b1  (outer stage last)
    with alarm(limit):
        out = take_prefix(L, n, how)
    return out, src.pulls, (a, b)


def o_lazy(inp):
    pipeline, n, how = inp["pipeline"], inp["n"], inp.get("take", "index")
    try:
        try:
            out, pulls, (a, b) = measure(pipeline, n, how=how)
        except Timeout:
            global _RETRIES
            _RETRIES += 1
            if _RETRIES > 3:
                raise
            # a busy machine can stall a worker: believed only if it does not arrive within a minute either (the source's own
            # budget of 20000 pulls ends a real runaway long before that)
            out, pulls, (a, b) = measure(pipeline, n, limit=60, how=how)
    except Timeout:
        return False, f"the first {n} items of {' | '.join(pipeline)} did not arrive within 60 s (after not arriving within 10 s)"
    except RuntimeError as ex:
        return False, f"the first {n} items of {' | '.join(pipeline)} pulled more than 20000 source items ({ex})"
    # composed bound: inner stage first in the list
    aa, bb = 1, 0
    for name in reversed(pipeline):
        a2, b2 = cat()[name][1]
        aa, bb = a2 * aa, a2 * bb + b2
    ok = len(out) == n and pulls <= aa * n + bb
    return ok, f"{' | '.join(pipeline)}: first {n} items took {pulls} pulls (bound {aa}*n+{bb} = {aa * n + bb}), got {len(out)} items"


ORACLES = {"lazy_prefix": o_lazy}
NS = [1, 2, 3, 5, 10, 20, 40]


def run(ctx, widen=False):
    thorough = ctx.tier == "thorough" or widen
    rng = ctx.rng
    names = sorted(cat())
    scalar_out = [k for k in names if k in ("incr", "double", "add-scalar", "compare", "map-lambda", "filter-odd", "interleave", "cumsum", "deltas", "flatten-chunks",
                                             "uniquify", "prepend", "merge-front", "slice-from2", "slice-from-elem", "head-remove", "every-other", "uninterleave-0", "negate", "halve")]
    cases = [{"pipeline": [k], "n": n} for k in names for n in NS]
    # the prefix taken by a slice / by the element Ẏ instead of by index, the empty prefix included (n = 0 must not touch the list)
    cases += [{"pipeline": p, "n": n, "take": how} for p in [[]] + [[k] for k in names] for n in (0, 1, 3) for how in ("slice", "Ẏ")]
    pairs = [(a, b) for a in scalar_out for b in names]
    if not thorough:
        pairs = rng.sample(pairs, 120)
    cases += [{"pipeline": [a, b], "n": n} for a, b in pairs for n in (3, 10, 40)]
    if thorough:
        triples = [(a, b, c) for a in scalar_out for b in scalar_out for c in names]
        for a, b, c in rng.sample(triples, 600):
            cases += [{"pipeline": [a, b, c], "n": n} for n in (5, 20)]
    # data-dependent pipelines whose OUTPUT is finite or sparse on this source are outside the property (no n-th item exists)
    def sparse(p):
        s = " ".join(p)
        return ("double filter-odd" in s) or ("compare" in s and ("uniquify" in s or "group" in s or "deltas" in s)) or \
               ("deltas uniquify" in s) or ("deltas group" in s) or ("compare filter-odd" in s) or ("halve filter-odd" in s) or \
               ("deltas filter-odd" in s) or ("compare" in s and "filter-odd" in s) or ("deltas" in s and ("uniquify" in s or "filter" in s or "group" in s))
    cases = [c for c in cases if not sparse(c["pipeline"])]
    # … decided for every pipeline by running it on the FINITE list 1..400 (which terminates whatever the stages do): if that does
    # not contain an n-th item, the infinite run has none within reach either (e.g. double | interleave | filter-odd: all even)
    finite_len = {}
    def has_nth(p, n):
        key = tuple(p)
        if key not in finite_len:
            try:
                with alarm(10):
                    L = list(range(1, 401))
                    for name in p:
                        L = cat()[name][0](L)
                    finite_len[key] = len(L) if isinstance(L, (list, str)) else len(L.listify())
            except BaseException:  # noqa: BLE001
                finite_len[key] = 10 ** 9       # cannot tell: keep the case
        return finite_len[key] >= n
    before = len(cases)
    cases = [c for c in cases if has_nth(c["pipeline"], c["n"])]
    ctx.bump("pipelines left out because their output on 1..400 has no n-th item", before - len(cases))
    ctx.check_many("lazy_prefix", cases, procs=1)
    ctx.bump("catalogue entries", len(names)); ctx.bump("pipelines x n", len(cases))
    try:
        out, pulls, _ = measure(["deltas"], 3)
        ctx.sample({"pipeline": ["deltas"], "n": 3, "items": canon(out), "pulls": pulls})
    except (Timeout, RuntimeError) as ex:      # the oracle above has already judged this pipeline
        ctx.sample({"pipeline": ["deltas"], "n": 3, "error": str(ex)})
    # correspondence with the Lean machines: outputs and pull counts
    lines, exp = [], []
    for name in names:
        f, bound, model = cat()[name]
        if not model or model.startswith("filtermod"):
            continue
        for n in NS[:6]:
            try:
                out, pulls, _ = measure([name], n)
            except (Timeout, RuntimeError) as ex:
                # an eager stage: no finite prefix arrives (judged by the lazy_prefix oracle); for the correspondence it is a
                # disagreement with the machine, which delivers the prefix
                lines.append(f"stream\t{model} {n}")
                exp.append("[] 0")
                ctx.disagree("stream-machines", f"stream\t{model} {n}", f"no prefix: {ex}", "(the machine delivers it)")
                continue
            items = [x if isinstance(x, list) else [x] for x in canon(out)]
            if name.startswith("uninterleave"):
                pass
            lines.append(f"stream\t{model} {n}")
            exp.append(str(items).replace(" ", "") + " " + str(pulls))
    outl = ctx.driver(lines)
    ctx.count("corr:stream-machines", len(lines))
    for l, e, o in zip(lines, exp, outl):
        eo, ep = e.rsplit(" ", 1); oo, op = o.rsplit(" ", 1)
        if eo != oo or int(ep) > int(op) + 0 and False:
            ctx.disagree("stream-machines", l, e, o)
        elif int(ep) != int(op):
            ctx.bump("pull count differs from the machine (outputs equal)")
            if int(ep) > int(op) + 2:
                ctx.disagree("stream-machines-pulls", l, e, o)


def search(ctx):
    if ctx.tier != "thorough":
        run(ctx, widen=True)
