"""C01 — structures execute as specified (transpiled program == reference semantics)."""
import contextlib
import io
import json
import os
import subprocess
import types

import vy
import aststream
from core import alarm, Timeout, LEAN
from vyxal.context import Context
from vyxal.LazyList import LazyList

RULE = ("programs from the structure grammar over the closed core (integer and list literals, stack / arithmetic / comparison / list "
        "elements, global variables, register, explicit and implicit input, printing, if chains of 1..5 branches, for over numbers and "
        "lists with and without a named variable, while with a condition, break / continue, plain lambdas of arity 0..3 called with "
        "the call element, map / filter / sort lambdas, reduce, named functions with numeric / named / mixed parameters, list literals, "
        "the modifiers v & ~ ß ƒ ɖ ₌ ₍ and the lambda-forming ⁽ ‡ ≬; nesting <= 4), flag sets '', O, o, j, s, W, H, M, m, inputs = 0..3 "
        "small integers or integer lists. Oracle: final stack and printed text of the real run equal the Lean reference semantics "
        "(documents/specs applied to the parsed tree) AND the Lean Python-semantics of the model's transpiled tree; cases the model "
        "calls unmodelled (outside the closed core) or that run out of fuel / time are skipped and counted. "
        "Non-trivial = distinct (program, flags, inputs) inside the core.")

TRUSTED = ["T3/T4 CPython executes the emitted fragment as Model/PySem.lean says (validated by the py stream on every case)",
           "T5 the first-order element functions mean what Model/CoreLib.lean says on integers and integer lists (validated by the element stream)",
           "lazy lists are the lists they enumerate (C13 / C14); lazily consumed lambda bodies are pure by construction of the generator"]
ASSUMPTIONS = ["the reference semantics follows the implementation where documents/specs is silent or stale: numeric loops run over "
               "[range_start, n + range_end), an `if` does not set the context value, a lambda receives its arguments in pop order, "
               "a variable assigned inside a lambda / function / list item is a Python local (outside the core)"]

DRV = os.path.join(LEAN, ".lake", "build", "bin", "vyxdrv")
FLAGS = ["", "", "", "W", "W", "j", "s", "O", "o", "H", "M", "m", "Wm", "WM"]

# ------------------------------------------------------------------ generator
PURE_ATOMS = ["1", "2", "3", "0", "5", "10", "+", "-", "*", ":", "_", "$", "n", "←a ", "←b ", "!", "D", "^", "W",
              "⟨1|2⟩", "⟨⟩", "⟨3|1|2⟩", "d", "›", "‹", "N", "=", "<", ">", "h", "t", "L", "J", "w", "\"", "ɾ", "ʁ", "∑", "Ṙ", "¬", "₂", "∷",
              "u", "₀", "%", "ȧ", "U", "s", "G", "g", "f", "A", "a", "c", "O", "p", "ɽ"]
EFFECT_ATOMS = ["?", "?", ",", "…", "₴", "£", "¥", "¥"]
MON = ["›", "‹", "d", "N", "w", "L", "∑", "¬", "ɾ"]
DYA = ["+", "-", "*", "=", "<", ">", "J", "\"", "%"]
NIL = ["1", "2", "⟨1|2⟩", "←a "]


def gen_program(rng, depth=3):
    """(program text) — terminating by construction, global variables assigned only in the prologue"""

    def atom(pure):
        if not pure and rng.random() < 0.22:
            return rng.choice(EFFECT_ATOMS)
        a = rng.choice(PURE_ATOMS)
        return a + (" " if a[-1].isdigit() else "")

    inw = [False]     # inside a register-driven while: a nested one would reset the counter and never end

    def seq(d, pure, fn, lo=0, hi=3):
        return "".join(item(d, pure, fn) for _ in range(rng.randint(lo, hi)))

    def operand(d, pure, fn):
        k = rng.randrange(10)
        if k < 4:
            return rng.choice(MON)
        if k < 8:
            return rng.choice(DYA)
        if k == 8:
            return rng.choice(NIL) + " "
        return "λ" + rng.choice(["", "1|", "2|"]) + seq(d - 1, True, fn, 1, 2) + ";"

    def item(d, pure, fn):
        if d <= 0 or rng.random() < 0.45:
            return atom(pure)
        k = rng.randrange(16)
        if k == 0:      # if chain
            nb = rng.choice([1, 2, 2, 3, 4, 5])
            return rng.choice(["0", "1", "2", "n", ":", "⟨⟩", "⟨0⟩", ""]) + "[" + "|".join(seq(d - 1, pure, fn) for _ in range(nb)) + "]"
        if k == 1:      # for
            var = rng.choice(["", "", "i|", "j|"]) if not fn else ""
            src = rng.choice(["0", "1", "2", "3", "⟨4|7⟩", "⟨⟩", "n", ":"])
            brk = rng.choice(["", "", "", "n2=[X]", "n1=[x]", "X", "x"])
            return src + "(" + var + seq(d - 1, pure, fn) + brk + seq(d - 1, pure, fn, 0, 1) + ")"
        if k == 2:      # while on the register (any depth) — not in pure bodies
            if rng.random() < 0.4:    # a counter on the stack, compared with the context value or a constant
                lim = rng.choice(["n", "n", "3", "2", "n›"])
                body = rng.choice(["", "", "n…_", ":…_", "n,"] if not pure else ["", "n_", ":_"])
                return "0{:" + lim + "<|›" + body + "}"
            if pure or inw[0]:
                return atom(pure)
            # `x` (continue) under a test that holds for one value of the counter only: after it the OLD condition value is
            # tested again — the condition code (which may print or change the stack) is not re-run
            brk = rng.choice(["", "", "¥1=[X]", "X", "¥1=[x]", "¥2=[x]", "¥1=[x]"])
            cond = "¥" if "x" not in brk else rng.choice(["¥", "¥:…_", "¥:,", "¥d", "5¥"])
            inw[0] = True
            body = seq(d - 1, True, fn)
            inw[0] = False
            return rng.choice("1234" if "x" in brk else "123") + "£{" + cond + "|¥‹£" + body + brk + "}"
        if k == 3:      # lambda called at once
            ar = rng.choice(["", "", "1|", "2|", "0|", "3|"])
            brk = rng.choice(["", "", "", "X", "1[X]"])
            return seq(d - 1, pure, fn, 0, 2) + "λ" + ar + seq(d - 1, pure, True, 0, 3) + brk + seq(d - 1, pure, True, 0, 1) + ";†"
        if k == 4:      # map / filter / sort lambda
            src = rng.choice(["3ɾ", "4ʁ", "⟨3|1|2⟩", "⟨⟨1|2⟩|⟨3⟩⟩", "2 ", "n"])
            return src + rng.choice("ƛ'µ") + seq(d - 1, True, True, 0, 3) + ";"
        if k == 5:      # lambda with an explicit element
            el = rng.choice(["M", "F", "ṡ"])
            src = rng.choice(["3ɾ", "⟨3|1|2⟩", "⟨5|4⟩"])
            ar = rng.choice(["", "1|"])
            return src + "λ" + ar + seq(d - 1, True, True, 0, 3) + ";" + el
        if k == 6:      # named function: definition only at top level, call anywhere after it
            if fn:
                return atom(pure)
            ps = rng.choice(["", ":1", ":2", ":p", ":p:q", ":1:p", ":p:2", ":3"])
            body = seq(d - 1, pure, True, 0, 3) + rng.choice(["", "", "←p " if "p" in ps else "", "←q " if "q" in ps else ""])
            name = rng.choice("fg")
            return "@" + name + ps + "|" + body + ";" + seq(d - 1, pure, fn, 0, 2) + "@" + name + ";"
        if k == 7:      # list literal
            return "⟨" + "|".join(seq(d - 1, pure, True, 0, 2) for _ in range(rng.randint(1, 3))) + "⟩"
        if k == 8:
            m = rng.choice(["v", "v", "~", "ß", "&"]) if not pure else rng.choice(["v", "~", "ß"])
            return seq(d - 1, pure, fn, 1, 2) + m + operand(d, pure, fn)
        if k == 9:
            return seq(d - 1, pure, fn, 0, 2) + rng.choice(["₌", "₍"]) + operand(d, pure, fn) + operand(d, pure, fn)
        if k == 10:
            return rng.choice(["⟨1|2|3⟩", "⟨⟩", "⟨5⟩", "4ɾ", "n"]) + rng.choice(["ƒ", "ɖ"]) + rng.choice(["+", "*", "-", "J", "λ2|-;", "λ2|$-;"])
        if k == 11:
            lam = rng.choice(["⁽" + rng.choice(MON), "‡" + rng.choice(MON) + rng.choice(MON + DYA), "≬" + rng.choice(MON) * 2 + rng.choice(MON)])
            return seq(d - 1, pure, fn, 1, 2) + lam + rng.choice(["†", "†", "M"])
        return atom(pure)

    prologue = rng.choice(["", "5→a 7→b ", "⟨1|2⟩→a 3→b ", "2→a ?→b "])
    body = seq(depth, False, False, 1, 5)
    if "←a" in body or "←b" in body:
        prologue = prologue or "4→a 6→b "
    return prologue + body


def gen_inputs(rng):
    return [rng.choice([0, 1, 2, 3, 5, 7, -2, [1, 2], [3], []]) for _ in range(rng.randint(0, 3))]


# ------------------------------------------------------------------ real side
def canon(v, budget=[0]):
    """integers, (lazy) lists forced, functions as a tag; anything else is outside the core"""
    import sympy
    if isinstance(v, bool):
        return int(v)
    if isinstance(v, int):
        return v
    if isinstance(v, sympy.Integer):
        return int(v)
    if isinstance(v, (list, LazyList, types.GeneratorType, range)):
        out = []
        for x in v:
            out.append(canon(x))
            if len(out) > 400:
                raise OverflowError("long list")
        return out
    if isinstance(v, types.FunctionType):
        return "<fn>"
    if v is None:
        return "None"
    raise TypeError(f"outside the core: {type(v).__name__}")


def fmt(v):
    if isinstance(v, list):
        return "[" + ",".join(fmt(x) for x in v) + "]"
    return str(v)


def real_run(prog, flags, inputs):
    """('ok', stack text, stdout) | ('raise', class) | ('skip', why)"""
    from vyxal.main import execute_vyxal
    buf = io.StringIO()
    try:
        with alarm(3), contextlib.redirect_stdout(buf):
            execute_vyxal(prog, flags + "e", [fmt(i) for i in inputs])
        out = buf.getvalue()
    except Timeout:
        return ("skip", "timeout")
    except RecursionError:
        return ("skip", "recursion")
    except SystemExit:
        return ("skip", "exit")
    except BaseException as ex:  # noqa: BLE001
        return ("raise", type(ex).__name__)
    # the final stack: the same program once more, observing the exec namespace
    ctx = Context()
    if "M" in flags:
        ctx.range_start = 0
    elif "m" in flags:
        ctx.range_end = 0
    stack = [100] if "H" in flags else []
    try:
        with alarm(3):
            from vyxal.helpers import vy_eval
            st, _, _ = vy.run_code(vy.transpile(prog), [vy_eval(fmt(i), ctx) for i in inputs], ctx, stack)
            cst = fmt([canon(x) for x in st])
    except Timeout:
        return ("skip", "timeout")
    except (TypeError, OverflowError) as ex:
        return ("skip", str(ex)[:60])
    except BaseException as ex:  # noqa: BLE001
        return ("raise", type(ex).__name__)
    return ("ok", cst, out)


# ------------------------------------------------------------------ model side
_CACHE = {}


def req_line(cmd, prog, flags, inputs):
    return f"{cmd}\t{flags}|{fmt(inputs)}|{vy.cps(prog)}"


def _drive(lines, timeout):
    """one driver process; returns the answers, or None when it crashed / ran away"""
    import resource

    def limit():
        resource.setrlimit(resource.RLIMIT_AS, (6 << 30, 6 << 30))
    try:
        p = subprocess.run([DRV], input="".join(l + "\n" for l in lines), capture_output=True, text=True, timeout=timeout,
                           encoding="utf-8", preexec_fn=limit)
    except subprocess.TimeoutExpired:
        return None
    outs = p.stdout.split("\n")
    if p.returncode != 0 or len(outs) != len(lines) + 1:
        return None
    return outs[:-1]


def model_answers(lines):
    """answers of the Lean driver, cached; a request that makes the model run away (eager lists of a lazy program) is
    answered ERR runaway and the case is skipped"""
    todo = [l for l in dict.fromkeys(lines) if l not in _CACHE]
    for i in range(0, len(todo), 400):
        chunk = todo[i:i + 400]
        outs = _drive(chunk, 60)
        if outs is None:
            outs = []
            for l in chunk:
                o = _drive([l], 4)
                outs.append(o[0] if o else "ERR runaway")
        for l, o in zip(chunk, outs):
            _CACHE[l] = o
    return [_CACHE.get(l, "ERR nodriver") for l in lines]


def parse_model(ans):
    """('ok', stack text, stdout) | ('raise', cls) | ('skip', why)"""
    if ans.startswith("ERR raised"):
        return ("raise", ans[11:])
    if ans.startswith("ERR") or ans.startswith("BAD"):
        return ("skip", ans)
    st, _, out = ans.partition(" ")
    out = out.replace("\\n", "\n").replace("\\\\", "\\")
    return ("ok", st, out)


def compare(real, model):
    """None = agree or skipped; otherwise a description of the difference"""
    if real[0] == "skip" or model[0] == "skip":
        return None
    if real[0] == "raise" and model[0] == "raise":
        return None
    if real[0] != model[0]:
        return f"implementation {real}, semantics {model}"
    if real[1] != model[1]:
        return f"final stack {real[1]}, semantics says {model[1]}"
    if real[2] != model[2]:
        return f"printed {real[2]!r}, semantics says {model[2]!r}"
    return None


def o_ref(inp):
    """the property itself: the real run equals the reference semantics of the program's tree"""
    prog, flags, inputs = inp["prog"], inp.get("flags", ""), inp.get("inputs", [])
    model = parse_model(model_answers([req_line("ref", prog, flags, inputs)])[0])
    if model[0] == "skip":
        return True, "outside the core: " + model[1][:80]
    real = real_run(prog, flags, inputs)
    d = compare(real, model)
    return (d is None), (d or "agree")


ORACLES = {"ref": o_ref}

FIXED = [
    ("3(n,)", "", []), ("3(n,)", "M", []), ("3(n,)", "m", []), ("⟨1|2|3⟩", "j", []), ("57", "s", []), ("1 2 3", "W", []), ("", "W", [4]),
    ("1 2 3,", "o", []), ("+", "H", [5]), ("1 2 3 λ2|-;†", "W", []), ("1 2 3 λ-;†", "W", []), ("5 λ3|W;†", "W", [7, 8]),
    ("1 2 λ2|n;†", "W", [7, 8]), ("1 2 3ɾƛn+;", "W", []), ("3ɾ'2<;", "W", []), ("3ɾµN;", "W", []),
    ("@f:p:q|←p←q-;5 3@f;", "W", []), ("@f:2|W;9 5 3@f;", "W", []), ("@f:1:p|←p W;9 5 3@f;", "W", []), ("@f:2|? ? ?;9 5 3@f;", "W", [7, 8]),
    ("λ2|? ? ?;†", "W", [7, 8]), ("+ +", "W", [7, 8]), ("⟨1|2⟩ ⟨3|4⟩ v+", "W", []), ("1 2 ⟨3|4⟩ v+", "W", []), ("⟨⟨1|2⟩|3⟩ vL", "W", []),
    ("5£ 3 &› ¥", "W", []), ("5£ 3 4 &+ ¥", "W", []), ("5£ 3 4 &- ¥", "W", []), ("1 2 ~+", "W", []), ("⟨1|2|3|4⟩ ~‹", "W", []),
    ("3 4 ₌+-", "W", []), ("3 4 ₍›‹", "W", []), ("⟨1|2|3⟩ƒ-", "W", []), ("⟨1|2|3⟩ɖ+", "W", []), ("⟨⟩ƒ+", "W", []),
    ("1 ß5 9", "W", []), ("0 2 7 ß+", "W", []), ("3 ≬›d› †", "W", []), ("⟨1|2⟩ ‡›d M", "W", []), ("4 ⟨:|+|_|⟩", "W", [9]),
    ("3(n(n))", "W", []), ("3(i|2(j|←i←j+))", "W", []), ("0[1|0|2|1|3|4]", "W", []), ("0[1|0|2|0|3]", "W", []), ("⟨0⟩[1|2]", "W", []),
    ("3→c{←c|←c‹→c n}", "W", []), ("3{:|‹:}", "W", []), 
    ("5(n3=[X]n)", "W", []), ("5(n3=[x]n)", "W", []), ("4£{¥|¥‹£¥2=[X]¥}", "W", []), ("1 2 λ2|1[X]5;†", "W", []), ("x", "", []), ("1 2x", "O", []),
]


def _both(inp):
    """one real run against both models: (difference from the reference semantics, difference from the Python semantics)"""
    prog, flags, inputs = inp["prog"], inp.get("flags", ""), inp.get("inputs", [])
    mref, mpy = [parse_model(a) for a in model_answers([req_line("ref", prog, flags, inputs), req_line("py", prog, flags, inputs)])]
    if mref[0] == "skip" and mpy[0] == "skip":
        return None, None, "skip"
    real = real_run(prog, flags, inputs)
    return (compare(real, mref), compare(real, mpy), real[0])


def _both_chunk(items):
    out = []
    for inp in items:
        try:
            out.append((inp,) + _both(inp))
        except Timeout:
            out.append((inp, None, None, "timeout"))
    return out


def run(ctx, widen=False):
    thorough = ctx.tier == "thorough" or widen
    rng = ctx.rng
    cases = [{"prog": p, "flags": f, "inputs": i} for p, f, i in FIXED]
    n = 40000 if thorough else 6000
    for _ in range(n):
        cases.append({"prog": gen_program(rng, rng.randint(1, 4)), "flags": rng.choice(FLAGS), "inputs": gen_inputs(rng)})
    # the model's answers in one batch: reference semantics of the tree, Python semantics of the model's transpiled tree
    lines = []
    for c in cases:
        lines.append(req_line("ref", c["prog"], c["flags"], c["inputs"]))
        lines.append(req_line("py", c["prog"], c["flags"], c["inputs"]))
    model_answers(lines)
    inside = []
    for c in cases:
        mr = parse_model(_CACHE.get(req_line("ref", c["prog"], c["flags"], c["inputs"]), "ERR"))
        mp_ = parse_model(_CACHE.get(req_line("py", c["prog"], c["flags"], c["inputs"]), "ERR"))
        ctx.bump("ref:" + (mr[0] if mr[0] != "skip" else "outside:" + mr[1][:44]))
        ctx.bump("py:" + (mp_[0] if mp_[0] != "skip" else "outside:" + mp_[1][:44]))
        if mr[0] != "skip" and mp_[0] != "skip" and mr != mp_:
            ctx.disagree("py-vs-ref", c, mp_, mr)          # the two Lean interpreters themselves (what the theorem is about)
        if mr[0] != "skip" or mp_[0] != "skip":
            inside.append(c)
        for ch in c["prog"]:
            if ch in "[({λƛ'µ⟨@v&~ßƒɖ₌₍⁽‡≬Xx":
                ctx.bump("struct:" + ch)
    ctx.bump("inside-core", len(inside))
    import multiprocessing as mp
    procs = 16 if thorough else 8
    chunks = [inside[i::procs * 8] for i in range(procs * 8)]
    with mp.get_context("fork").Pool(procs) as pool:
        for res in pool.imap_unordered(_both_chunk, chunks):
            for inp, dref, dpy, status in res:
                ctx.count("oracle:ref")
                ctx.count("corr:py")
                ctx.bump("real:" + status)
                if status in ("ok", "raise"):
                    ctx.nontriv(("ref", json.dumps(inp, sort_keys=True, ensure_ascii=False)))
                if dref:
                    ctx.violation("ref", inp, dref)
                if dpy:
                    ctx.disagree("py", inp, dpy, "")
    for c in inside[len(FIXED):len(FIXED) + 6]:
        ctx.sample(c)
    ctx.sample({"prog": "0[1|0|2|1|3|4]", "flags": "W", "stack": "[3]"})
    # the transpiler model against the real transpiler on the same programs
    aststream.run_stream(ctx, [c["prog"] for c in cases], dict_compress=True)
    elem_stream(ctx, 4000 if thorough else 600)


# ------------------------------------------------------------------ element stream: CoreLib.elemFn vs the real functions
ELEMS = {"add": 2, "subtract": 2, "multiply": 2, "less_than": 2, "greater_than": 2, "equals": 2, "modulo": 2, "increment": 1, "decrement": 1,
         "negate": 1, "is_even": 1, "parity": 1, "vy_abs": 1, "inclusive_one_range": 1, "exclusive_zero_range": 1, "exclusive_one_range": 1,
         "length": 1, "head": 1, "tail": 1, "reverse": 1, "merge": 2, "vy_sum": 1, "deep_flatten": 1, "uniquify": 1, "vy_sort": 1,
         "monadic_maximum": 1, "monadic_minimum": 1, "all_true": 1, "any_true": 1, "contains": 2, "count_item": 2, "prepend": 2}


def gen_val(rng, d=2):
    if d <= 0 or rng.random() < 0.5:
        return rng.choice([0, 1, 2, 3, 5, 10, 12, -1, -3, 7])
    return [gen_val(rng, d - 1) for _ in range(rng.randint(0, 3))]


def elem_stream(ctx, n):
    import vyxal.elements as E
    rng = ctx.rng
    reqs = []
    for _ in range(n):
        name = rng.choice(list(ELEMS))
        args = [gen_val(rng) for _ in range(ELEMS[name])]
        reqs.append((name, args))
    outs = ctx.driver([f"elem\t{name}|{fmt(args)}" for name, args in reqs])
    ctx.count("corr:elements", len(reqs))
    for (name, args), m in zip(reqs, outs):
        if m.startswith("ERR unmodelled") or m.startswith("ERR fuel"):
            ctx.bump("elements:skip")
            continue
        try:
            with alarm(2):
                from vyxal.helpers import vy_eval
                c = Context()
                r = fmt(canon(getattr(E, name)(*[vy_eval(fmt(a), c) for a in args], ctx=c)))
        except Timeout:
            continue
        except (TypeError, OverflowError) as ex:
            r = "outside " + str(ex)[:40]
        except BaseException as ex:  # noqa: BLE001
            r = "raise " + type(ex).__name__
        if m.startswith("ERR raised "):
            m = "raise " + m[11:]
        if r != m:
            ctx.disagree("elements", {"fn": name, "args": args}, r, m)
        else:
            ctx.bump("elements:agree")


def search(ctx):
    if ctx.tier != "thorough":
        run(ctx, widen=True)
