"""C17 — number-theory builtins agree with their definitions."""
import math
import sympy
import vy
from core import alarm
from vyxal.context import Context
from vyxal import elements as E

RULE = ("every n in 0..600 (quick) / 0..20000 (thorough) every n to 3 000 (thorough 20 000) plus products of two / three odd primes for totient, divisors and divisor sum (factor-based reference, checked against the counting definition on 1..300 at the start of the run), random n to 10^12 and (for factorisation / primality / squareness) semiprimes and three-prime products of primes between 3 000 and 200 000 for the monads (primality, prime factors with and without "
        "multiplicity, divisors, factorial, totient, next / previous prime, divisor sum, perfect square, binary, hexadecimal, the four ranges, "
        "double / halve, square / root), every pair (n, m) <= 40 (quick) / <= 300 (thorough) for gcd, lcm and binomial. Oracle: the real element "
        "equals a naive Python reference written from the textbook definition, and the inverse pairs compose to the identity. Correspondence: "
        "the real element vs the Lean reference (whose agreement with the textbook definition is the theorem). Domains per function are listed "
        "in the evidence (the textbook functions are undefined at 0 for factorisation, totient). Non-trivial = distinct (function, argument).")
TRUSTED = ["T5 sympy.ntheory / math implement the functions the elements delegate to (validated on the ranges run, never proved)"]
CTX = Context()


def naive_isprime(n):
    return n >= 2 and all(n % d for d in range(2, int(math.isqrt(n)) + 1))


def naive_pf(n):
    out, d = [], 2
    while n > 1 and d * d <= n:
        while n % d == 0:
            out.append(d); n //= d
        d += 1
    if n > 1:
        out.append(n)
    return out


def naive_divisors(n):
    return [d for d in range(1, n + 1) if n % d == 0]


def naive_totient(n):
    return sum(1 for k in range(1, n + 1) if math.gcd(n, k) == 1)


def naive_nextprime(n):
    m = n + 1
    while not naive_isprime(m):
        m += 1
    return m


def naive_prevprime(n):
    m = n - 1
    while not naive_isprime(m):
        m -= 1
    return m


def canon(v):
    if isinstance(v, (list, tuple)) or type(v).__name__ == "LazyList":
        return [canon(x) for x in v]
    if isinstance(v, sympy.Integer) or (isinstance(v, sympy.Basic) and v.is_Integer):
        return int(v)
    if isinstance(v, sympy.Rational):
        return f"{v.p}/{v.q}"
    return v


# name: (element function, reference, domain lower bound, cost class)
MONADS = {
    "isprime": (lambda n: E.is_prime(n, CTX), lambda n: int(naive_isprime(n)), 0),
    "pf": (lambda n: E.prime_factors(n, CTX), naive_pf, 1),
    "pfd": (lambda n: E.prime_factorisation(n, CTX), lambda n: sorted(set(naive_pf(n))), 1),
    "divisors": (lambda n: E.divisors_or_prefixes(n, CTX), naive_divisors, 1),
    "fact": (lambda n: E.factorial(n, CTX), math.factorial, 0),
    "totient": (lambda n: E.totient(n, CTX), naive_totient, 1),
    "nextprime": (lambda n: E.next_prime(n, CTX), naive_nextprime, 0),
    "prevprime": (lambda n: E.prev_prime(n, CTX), naive_prevprime, 3),
    "divsum": (lambda n: E.divisor_sum(n, CTX), lambda n: sum(naive_divisors(n)) - n, 1),
    "issquare": (lambda n: E.is_square(n, CTX), lambda n: int(math.isqrt(n) ** 2 == n), 0),
    "bin": (lambda n: E.vy_bin(n, CTX), lambda n: [int(c) for c in bin(n)[2:]], 0),
    "r1": (lambda n: E.inclusive_one_range(n, CTX), lambda n: list(range(1, n + 1)), 0),
    "r1x": (lambda n: E.exclusive_one_range(n, CTX), lambda n: list(range(1, n)), 0),
    "r0": (lambda n: E.inclusive_zero_range(n, CTX), lambda n: list(range(0, n + 1)), 0),
    "r0x": (lambda n: E.exclusive_zero_range(n, CTX), lambda n: list(range(0, n)), 0),
}
DYADS = {
    "gcd": (lambda a, b: E.vy_gcd(a, b, CTX), math.gcd, 0),
    "lcm": (lambda a, b: E.lowest_common_multiple(a, b, CTX), lambda a, b: 0 if a == 0 or b == 0 else a * b // math.gcd(a, b), 0),
    "choose": (lambda a, b: E.n_choose_r(a, b, CTX), lambda a, b: math.comb(a, b), 0),
}
SLOW = {"fact", "r1", "r1x", "r0", "r0x", "divisors", "totient", "divsum"}


def _factored(n):
    out = {}
    for p in naive_pf(n):
        out[p] = out.get(p, 0) + 1
    return out


def fast_totient(n):
    """the multiplicative formula in integers: prod p^(k-1) (p-1) — for arguments where counting coprimes one by one is too slow.
    It is checked against the definition on 1..300 at the start of every run (`_selfcheck`)."""
    r = 1
    for p, k in _factored(n).items():
        r *= p ** (k - 1) * (p - 1)
    return r


def fast_divisors(n):
    ds = [1]
    for p, k in _factored(n).items():
        ds = [d * p ** e for d in ds for e in range(k + 1)]
    return sorted(ds)


FAST = {"totient": fast_totient, "divisors": fast_divisors, "divsum": lambda n: sum(fast_divisors(n)) - n}


def _selfcheck():
    for n in range(1, 301):
        assert fast_totient(n) == naive_totient(n) and fast_divisors(n) == naive_divisors(n), n


def o_monad(inp):
    name, n = inp["f"], inp["n"]
    fn, ref, lo = MONADS[name]
    if inp.get("fast"):
        ref = FAST[name]
    if n < lo:
        return True, "outside the function's domain"
    with alarm(20):
        got = canon(fn(n))
    want = ref(n)
    return got == want, f"{name}({n}) = {got!r}, definition gives {want!r}"


def o_dyad(inp):
    name, a, b = inp["f"], inp["a"], inp["b"]
    fn, ref, lo = DYADS[name]
    with alarm(20):
        got = canon(fn(a, b))
    want = ref(a, b)
    return got == want, f"{name}({a},{b}) = {got!r}, definition gives {want!r}"


def o_inverse(inp):
    kind, n = inp["k"], inp["n"]
    if kind == "bin":
        back = E.vy_int(E.vy_bin(n, CTX), 2)
    elif kind == "hex":
        back = E.vy_hex(E.vy_hex(n, CTX), CTX)
    elif kind == "square":
        back = E.square_root(E.square(n, CTX), CTX)
    elif kind == "double":
        back = E.halve(E.multiply(n, 2, CTX), CTX)
    got = canon(back)
    return got == n, f"{kind}: inverse pair applied to {n} gives {got!r}"


def o_repeat(inp):
    """the answer does not depend on what an earlier caller did with an earlier answer (results are not shared)"""
    name, n = inp["f"], inp["n"]
    fn, ref, lo = MONADS[name]
    if n < lo:
        return True, "outside the function's domain"
    with alarm(20):
        first = fn(n)
        if isinstance(first, list) and first:
            first[0] = 99          # what an in-place element (Ȧ, assign) does to a value it was handed
            first.append(-1)
        got = canon(fn(n))
    want = ref(n)
    return got == want, f"{name}({n}) asked again after the first answer was modified in place = {got!r}, definition gives {want!r}"


ORACLES = {"monad": o_monad, "dyad": o_dyad, "inverse": o_inverse, "repeat": o_repeat}


def run(ctx, widen=False):
    thorough = ctx.tier == "thorough" or widen
    rng = ctx.rng
    N = 20000 if ctx.tier == "thorough" else 600
    cases = []
    for name in MONADS:
        top = min(N, 2500) if name in SLOW and ctx.tier == "thorough" else (min(N, 300) if name in SLOW else N)
        for n in range(0, top + 1):
            cases.append({"f": name, "n": n})
        if name not in SLOW:
            for _ in range(300 if thorough else 40):
                cases.append({"f": name, "n": rng.randrange(10 ** rng.randint(3, 12))})
    # numbers with two or three prime factors past any trial-division stage (where factorisers switch algorithm), prime squares
    # and cubes, products of a small and a large prime: only for the functions whose reference stays cheap there
    big_primes = [p for p in range(3001, 200000) if naive_isprime(p)]
    structured = []
    for _ in range(1500 if thorough else 250):
        p, q, r = (rng.choice(big_primes) for _ in range(3))
        structured += [p * q, p * p, rng.choice([2, 3, 5, 7, 11, 13]) * p * q, rng.choice([2, 4, 9, 25]) * p]
        if rng.random() < 0.1:
            structured.append(p * q * r if p * q * r < 10 ** 13 else p * q)
    structured = sorted(set(structured))
    for name in ("pf", "pfd", "isprime", "square"):
        if name in MONADS:
            cases += [{"f": name, "n": n} for n in structured]
    # totient / divisors / divisor sum beyond the range where the definition can be counted out: every n to 3000 (thorough 20000)
    # and products of two or three distinct odd primes below 200 (where a floating-point product formula first goes wrong: 451 = 11*41)
    _selfcheck()
    odd_primes = [p for p in range(3, 200) if naive_isprime(p)]
    mids = list(range(301, 20001 if ctx.tier == "thorough" else 3001))
    for _ in range(3000 if thorough else 500):
        p, q, r = rng.sample(odd_primes, 3)
        mids += [p * q, p * q * r, 2 * p * q, 4 * p * q, p * p * q]
    mids = sorted(set(mids))
    for name in ("totient", "divisors", "divsum"):
        cases += [{"f": name, "n": n, "fast": True} for n in mids]
    ctx.bump("totient / divisors / divisor sum beyond 300 (factor-based reference, self-checked against the definition)", len(mids))
    ctx.bump("structured arguments (semiprimes and products of large primes)", len(structured))
    ctx.check_many("monad", cases)
    ctx.check_many("repeat", [c for c in cases if c["n"] <= 400][::3], procs=1)
    M = 300 if ctx.tier == "thorough" else 40
    dy = [{"f": name, "a": a, "b": b} for name in DYADS for a in range(0, M + 1) for b in range(0, M + 1)]
    ctx.check_many("dyad", dy)
    inv = [{"k": k, "n": n} for k in ("bin", "hex", "square", "double") for n in list(range(0, N + 1, 7 if not thorough else 1)) + [rng.randrange(10 ** 12) for _ in range(50)]]
    ctx.check_many("inverse", inv)
    ctx.bump("monad cases", len(cases)); ctx.bump("dyad cases", len(dy)); ctx.bump("inverse-pair cases", len(inv))
    ctx.sample({"f": "pf", "n": 360, "element": canon(E.prime_factors(360, CTX)), "definition": naive_pf(360)})
    ctx.exhaustive = True
    ctx.notes.append("domains: factorisation, divisors, totient, divisor sum from 1; previous prime from 3; everything else from 0")
    # correspondence with the Lean references (bounded arguments: the references are deliberately naive)
    lines, exp = [], []
    lim = 400 if not thorough else 1500
    for name, (fn, ref, lo) in MONADS.items():
        top = lim if name not in ("fact",) else 60
        for n in range(lo, top + 1, 1 if thorough or name in ("isprime", "pf", "nextprime") else 3):
            lines.append(f"nt\t{name} {n}")
            v = canon(fn(n))
            exp.append("[" + ",".join(map(str, v)) + "]" if isinstance(v, list) else str(v))
    for name, (fn, ref, lo) in DYADS.items():
        top = 15 if name == "choose" else (31 if not thorough else 80)   # the reference binomial is plain Pascal recursion
        for a in range(0, top):
            for b in range(0, top):
                lines.append(f"nt\t{name} {a} {b}")
                exp.append(str(canon(fn(a, b))))
    out = ctx.driver(lines)
    ctx.count("corr:number-theory-references", len(lines))
    for l, e, o in zip(lines, exp, out):
        if e != o:
            ctx.disagree("number-theory-references", l, e, o)


def search(ctx):
    if ctx.tier != "thorough":
        run(ctx, widen=True)
