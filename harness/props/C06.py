"""C06 — quoting a string and evaluating the quoted text returns the same string."""
import ast
import itertools
import vy
from core import alarm
from vyxal import lexer, encoding
from vyxal.context import Context
from vyxal.elements import quotify
from vyxal.transpile import transpile

RULE = ("all strings of length <= 3 over the escape-relevant set {\\ ` \" ' newline a n x 0 λ space » | ] X} (dictionary compression off; "
        "on for the printable-ASCII ones) exhaustively, plus random strings to length 40 over the whole code page (off) / printable ASCII "
        "(on). Oracle: running quotify(s) as a program pushes exactly s. Correspondence: real quotify / tokenise / the emitted literal body / "
        "CPython's decoding of that body vs the Lean model's quotify / tokenise / escapeString / pyStringBody. Non-trivial = distinct (s, mode).")
TRUSTED = ["T3 CPython decodes the body of a \"...\" literal as pyStringBody does for \\\\, \\\", \\n and unknown escapes (validated on every case)"]
ESC = ["\\", "`", '"', "'", "\n", "a", "n", "x", "0", "λ", " ", "»", "|", "]", "X"]
ASCII = [chr(i) for i in range(32, 127)]


def o_quote_roundtrip(inp):
    s, dc = inp["s"], inp["dict"]
    q = quotify(s, Context())
    with alarm(10):
        stack, _, _ = vy.run_program(q, dict_compress=dc)
    return stack == [s], f"quoted text {q!r} pushed {stack!r}"


ORACLES = {"quote_roundtrip": o_quote_roundtrip}


def run(ctx, widen=False):
    thorough = ctx.tier == "thorough" or widen
    rng = ctx.rng
    strs = [""]
    for L in range(1, 4):
        for t in itertools.product(ESC, repeat=L):
            strs.append("".join(t))
    cp = encoding.codepage
    for _ in range(20000 if thorough else 1500):
        strs.append("".join(rng.choice(cp) for _ in range(rng.randint(1, 40))))
    asc = []
    for _ in range(20000 if thorough else 1500):
        asc.append("".join(rng.choice(ASCII) for _ in range(rng.randint(1, 40))))
    cases = [{"s": s, "dict": False} for s in strs] + [{"s": s, "dict": True} for s in strs + asc if all(c in ASCII for c in s)] \
        + [{"s": s, "dict": False} for s in asc[:500]]
    ctx.check_many("quote_roundtrip", cases)
    ctx.bump("strings over escape set (<=3)", 1 + 15 + 225 + 3375)
    ctx.bump("random code-page strings", len(strs) - 3616)
    ctx.bump("random ASCII strings", len(asc))
    # correspondence
    lines, exp = [], []
    c0 = Context()
    for s in strs + asc:
        q = quotify(s, c0)
        lines.append("quotify\t" + vy.cps(s)); exp.append(vy.cps(q))
        lines.append("tok\t" + vy.cps(q)); exp.append(vy.show_tokens(lexer.tokenise(q)))
        toks = lexer.tokenise(q)
        val = toks[0].value if toks else ""
        code = transpile(q, False)
        pre, suf = 'stack.append("', '")\n'
        if code.startswith(pre) and code.endswith(suf):
            body = code[len(pre):-len(suf)]
            lines.append("escstr\t" + vy.cps(val)); exp.append(vy.cps(body))
            try:
                dec = vy.cps(ast.literal_eval('"' + body + '"'))
            except SyntaxError:
                dec = "ERR"
            lines.append("pybody\t" + vy.cps(body)); exp.append(dec)
        else:
            ctx.disagree("template", s, code, "stack.append(\"…\")")
    out = ctx.driver(lines)
    ctx.count("corr:quotify+lexer+escape+decode", len(lines))
    for l, e, o in zip(lines, exp, out):
        if e != o:
            ctx.disagree(l.split("\t")[0], l, e, o)
    ctx.sample({"s": "a\\`\"\n", "quoted": quotify("a\\`\"\n", c0), "python": transpile(quotify("a\\`\"\n", c0), False)})
    ctx.exhaustive = True


def search(ctx):
    if ctx.tier != "thorough":
        run(ctx, widen=True)
