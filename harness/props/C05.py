"""C05 — numeric literals denote exactly their decimal value."""
import itertools
import math
from fractions import Fraction
import sympy
import vy
from core import alarm, Timeout
from vyxal import lexer
from vyxal.transpile import transpile

RULE = ("lexer: every string of length <= 5 (quick) / <= 7 (thorough) over {0,1,9,.,°} exhaustively plus random strings to length 40 "
        "over digits, points and neighbours, real tokenise vs the Lean model; value: every integer literal 0..3000 plus 1500 sampled below 10^6 (quick) / 0..10^6 "
        "(thorough), random integers to 10^60, random decimals with <= 25 + 18 digits, and an adversarial family (first 8-17 digits of "
        "sqrt k, cbrt k, phi, e, pi, ln 2, p/q for q <= 50): exec(transpile(lit)) must push an int/Integer/Rational equal to "
        "fractions.Fraction(lit) and equal to the Lean model's decimalValue; the emitted call text is compared with the model's "
        "numberParts. Non-trivial = distinct literal.")
TRUSTED = ["T5 sympy.Rational(<decimal string>) and sympy.nsimplify(<integer string>) parse exactly (validated on every literal run, never proved)"]


def pushed_value(lit):
    with alarm(10):
        stack, _, _ = vy.run_program(lit)
    return stack


def o_literal_value(lit):
    """the literal pushes exactly Fraction(lit) as int / Integer / Rational"""
    stack = pushed_value(lit)
    if len(stack) != 1:
        return False, f"pushed {len(stack)} values: {stack!r}"
    v = stack[0]
    want = Fraction(1, 2) if lit == "." else Fraction(lit)
    ok = not isinstance(v, bool) and isinstance(v, (int, sympy.Integer, sympy.Rational))
    if ok:
        got = Fraction(int(v.p), int(v.q)) if isinstance(v, sympy.Rational) else Fraction(int(v))
        ok = got == want
    if ok:
        return True, "exact"
    detail = f"pushed {v!r} of type {type(v).__name__}, expected exactly {want}"
    # F25: an integer literal is emitted as sympy.nsimplify("<digits>") (text pinned by tests/test_transpiler.py) and
    # sympy's nsimplify of an integer *string* runs mpmath.identify.  Classified by call site, and only when the
    # wrong value is exactly what that call returns for exactly that text.
    if lit.isdigit() and transpile(lit).strip() == f'stack.append(sympy.nsimplify("{lit}"))':
        with alarm(10):
            same = sympy.nsimplify(lit) == v
        if same:
            return False, detail, ("int_literal_nsimplify", "callsite")
    return False, detail


def o_int_literal_nsimplify(_):
    """call-site oracle (replay): first integer literal that sympy.nsimplify("<digits>") mis-evaluates"""
    for i in range(0, 5000):
        if sympy.nsimplify(str(i)) != i:
            return False, f"integer literal {i} pushes {sympy.nsimplify(str(i))!r}"
    return True, "0..4999 exact"


def o_split(inp):
    """adjacent literals split the documented way"""
    src, want = inp["src"], inp["tokens"]
    got = [t.value for t in lexer.tokenise(src) if t.name == lexer.TokenType.NUMBER]
    return got == want, f"tokens {got}, documented split {want}"


ORACLES = {"literal_value": o_literal_value, "split": o_split, "int_literal_nsimplify": o_int_literal_nsimplify}


def adversarial():
    import mpmath
    out = []
    with mpmath.workdps(40):
        return _adversarial(mpmath, out)


def _adversarial(mpmath, out):
    consts = [mpmath.sqrt(k) for k in range(2, 30)] + [mpmath.cbrt(k) for k in range(2, 12)] + \
             [mpmath.phi, mpmath.e, mpmath.pi, mpmath.log(2), mpmath.log(10), mpmath.euler, mpmath.sqrt(2) / 2,
              mpmath.pi / 2, mpmath.pi / 4, mpmath.e ** 2, 1 / mpmath.pi, mpmath.sqrt(5) / 2]
    for c in consts:
        s = mpmath.nstr(c, 30, strip_zeros=False)
        ip, fp = s.split(".")
        for d in (8, 10, 12, 13, 14, 15, 16, 17):
            out.append(ip + "." + fp[:d])
    for q in range(2, 51):
        for p in (1, q - 1, q + 1):
            if math.gcd(p, q) == 1:
                s = mpmath.nstr(mpmath.mpf(p) / q, 25, strip_zeros=False)
                ip, fp = s.split(".")
                for d in (10, 15, 16):
                    out.append(ip + "." + fp[:d])
    out += ["0.30000000000000004", "0.1", "0.2", "0.7", "1.1", "2.675", "0.000001", "1000000.000001", "5.", ".5", ".", "0.", "0.0",
            "10.10", "123456789.987654321"]
    return out


def run(ctx, widen=False):
    thorough = ctx.tier == "thorough" or widen
    rng = ctx.rng
    # ---------------- lexer correspondence
    A = "019.°"
    strs = []
    for L in range(0, 8 if thorough else 6):
        for t in itertools.product(A, repeat=L):
            strs.append("".join(t))
    B = "0123456789..°k`a+ -"
    for _ in range(20000 if thorough else 3000):
        strs.append("".join(rng.choice(B) for _ in range(rng.randint(1, 40))))
    lines = ["tok\t" + vy.cps(s) for s in strs]
    exp = [vy.show_tokens(lexer.tokenise(s)) for s in strs]
    # ---------------- emitted text correspondence (numberParts / Rational vs nsimplify)
    nums = sorted({t.value for s in strs[:6000] for t in lexer.tokenise(s) if t.name == lexer.TokenType.NUMBER})
    for v in nums:
        code = transpile(v).strip()
        lines.append("numparts\t" + vy.cps(v))
        m = code.split('"')
        exp.append(vy.cps(m[1]) if len(m) == 3 else "UNEXPECTED " + code)
        lines.append("userat\t" + vy.cps(v))
        exp.append("T" if code.startswith("stack.append(sympy.Rational(") else "F" if code.startswith("stack.append(sympy.nsimplify(") else "?")
    ctx.count("corr:lexer", len(strs))
    ctx.count("corr:number-template", len(nums))
    # ---------------- documented splitting
    for a, b in [("0", "12"), ("0", "0"), ("1.5", ".5"), ("0.5", ".25"), ("12.", ".3"), ("0", "1.5"), ("00", "")]:
        pass
    ctx.check("split", {"src": "0123", "tokens": ["0", "123"]})
    ctx.check("split", {"src": "1.5.5", "tokens": ["1.5", ".5"]})
    ctx.check("split", {"src": "007", "tokens": ["0", "0", "7"]})
    ctx.check("split", {"src": "0.5.25", "tokens": ["0.5", ".25"]})
    ctx.check("split", {"src": "10.0.0", "tokens": ["10.0", ".0"]})
    ctx.check("split", {"src": "1 2", "tokens": ["1", "2"]})
    # ---------------- values
    lits = [str(i) for i in range(0, 1_000_001 if ctx.tier == "thorough" else 3_001)]
    lits += [str(rng.randrange(3000, 1_000_000)) for _ in range(1500)]
    for _ in range(3000 if thorough else 600):
        lits.append(str(rng.randrange(10 ** rng.randint(1, 60))))
    decs = []
    for _ in range(6000 if thorough else 800):
        a = str(rng.randrange(10 ** rng.randint(0, 25))) if rng.random() < 0.9 else ""
        b = "".join(rng.choice("0123456789") for _ in range(rng.randint(0 if a else 1, 18)))
        decs.append(a + "." + b)
    decs += adversarial()
    ctx.bump("integer literals", len(lits))
    ctx.bump("decimal literals", len(decs))
    ctx.check_many("literal_value", lits + decs)
    for lit in lits + decs:
        if lit != ".":
            lines.append("decval\t" + vy.cps(lit))
            f = Fraction(lit)
            k = len(lit.split(".")[1]) if "." in lit else 0
            exp.append(f"{f.numerator * (10 ** k) // f.denominator} {k}")
    ctx.sample({"literal": "1.4142135623731", "pushed": repr(pushed_value("1.4142135623731")), "Fraction": str(Fraction("1.4142135623731"))})
    out = ctx.driver(lines)
    ctx.count("corr:value", len(lits) + len(decs))
    for l, e, o in zip(lines, exp, out):
        if e != o:
            ctx.disagree(l.split("\t")[0], l, e, o)
    ctx.exhaustive = ctx.tier == "thorough"


def search(ctx):
    if ctx.tier != "thorough":
        run(ctx, widen=True)
