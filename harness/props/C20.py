"""C20 — every element is typeable in one byte per character and reachable."""
import itertools
import vy
from vyxal import encoding, lexer, parse as vparse, structure as S

RULE = ("exhaustive: all 256 bytes and all 65 536 two-byte strings through both conversions (real vs model, and the "
        "round-trip oracle); every key of the element table in source order, every modifier and structure character "
        "(lexer + parser real vs model, and the one-token / unique / reachable / documented oracles). A case is "
        "non-trivial when it is a distinct key or byte string; all of them are.")
ASSUMPTIONS = ["the web front-end emits these bytes (not covered)"]


def gen():
    import json, os
    return json.load(open(os.path.join(os.path.dirname(os.path.dirname(__file__)), "gen.json"), encoding="utf-8"))


_G = None


def G():
    global _G
    if _G is None:
        _G = gen()
    return _G


def arity_compat(doc, a):
    if doc in (None, "NA", "*", ""):
        return True
    if doc == "1 or 2":
        return a in (1, 2)
    return doc == str(a)


def o_codepage(_):
    cp = encoding.codepage
    return (len(cp) == 256 and len(set(cp)) == 256), f"len={len(cp)} distinct={len(set(cp))}"


def o_roundtrip_bytes(bs):
    text = encoding.vyxal_to_utf8(bs)
    back = [ord(c) for c in encoding.utf8_to_vyxal(text)]
    return (back == list(bs) and len(text) == len(bs)), f"text={text!r} back={back}"


def o_one_token(key):
    toks = lexer.tokenise(key)
    ok = len(toks) == 1 and toks[0].name == lexer.TokenType.GENERAL and toks[0].value == key
    return ok, f"tokens={toks!r}"


def o_token_in_context(key):
    """the key is its own token wherever it stands: after a number, a letter, another element, and before them"""
    for pre in ("5", "12", "3.5", "a", "+", "`s`"):
        toks = lexer.tokenise(pre + key)
        want = lexer.tokenise(pre) + [lexer.Token(lexer.TokenType.GENERAL, key)]
        if toks != want:
            return False, f"{pre + key!r} lexes as {toks!r}"
    for post in ("5", "a", "+"):
        toks = lexer.tokenise(key + post)
        if not toks or toks[0] != lexer.Token(lexer.TokenType.GENERAL, key):
            return False, f"{key + post!r} lexes as {toks!r}"
    return True, "one token in every context"


def o_in_codepage(key):
    return all(c in encoding.codepage for c in key), "key has a character outside the code page"


def o_unique(key):
    n = sum(1 for e in G()["elements"] if e["key"] == key)
    return n == 1, f"key occurs {n} times in the elements literal (a later entry silently replaces an earlier one)"


def o_reachable(key):
    tree = vparse.parse(lexer.tokenise(key))
    ok = (len(tree) == 1 and type(tree[0]) is S.GenericStatement and tree[0].branches[0][0].value == key
          and tree[0].branches[0][0].name == lexer.TokenType.GENERAL)
    return ok, f"parse gives {tree!r}: the table entry can never be executed"


def o_documented(key):
    docs = [d for d in G()["yaml"] if d["key"] == key and not d["modifier"]]
    return bool(docs), "no entry in documents/knowledge/elements.yaml"


def o_doc_arity(key):
    ar = [e["arity"] for e in G()["elements"] if e["key"] == key][-1]
    docs = [d for d in G()["yaml"] if d["key"] == key and not d["modifier"]]
    bad = [d["arity"] for d in docs if not arity_compat(d["arity"], ar)]
    return not bad, f"table arity {ar}, documented {bad}"


def o_modifier(m):
    k = 1 if m in vparse.MONADIC_MODIFIERS else 2 if m in vparse.DYADIC_MODIFIERS else 3
    tree = vparse.parse(lexer.tokenise(m + "+" * k))
    if len(tree) != 1:
        return False, repr(tree)
    t = tree[0]
    if m in "⁽‡≬":
        ok = type(t) is S.Lambda and len(t.body) == k
    else:
        from vyxal.elements import modifiers
        ok = isinstance(t, (S.MonadicModifier, S.DyadicModifier, S.TriadicModifier)) and t.modifier == m and m in modifiers
    return ok, repr(tree)


ORACLES = {"codepage_bijective": o_codepage, "roundtrip_bytes": o_roundtrip_bytes, "key_one_token": o_one_token,
           "key_in_codepage": o_in_codepage, "key_token_in_context": o_token_in_context, "key_unique": o_unique, "key_reachable": o_reachable,
           "documented": o_documented, "doc_arity": o_doc_arity, "modifier_reachable": o_modifier}


def run(ctx):
    g = ctx.gen
    cp = encoding.codepage
    ctx.check("codepage_bijective", None)
    # ---- conversions: exhaustive on byte strings of length <= 2, real vs model and round trip
    cases = [[b] for b in range(256)] + [[a, b] for a in range(256) for b in range(256)] + [[]]
    lines, exp = [], []
    for bs in cases:
        lines.append("v2u\t" + " ".join(map(str, bs)))
        text = encoding.vyxal_to_utf8(bs)
        exp.append(vy.cps(text))
        lines.append("u2v\t" + vy.cps(text))
        exp.append(" ".join(str(ord(c)) for c in encoding.utf8_to_vyxal(text)))
        back = [ord(c) for c in encoding.utf8_to_vyxal(text)]
        ctx.count("oracle:roundtrip_bytes")
        ctx.nontriv(("rt", tuple(bs)))
        if back != bs or len(text) != len(bs):
            ctx.violation("roundtrip_bytes", bs, f"text={text!r} back={back}")
    # out-of-domain: characters outside the code page and bytes >= 256 must be rejected by both
    for bad in ([256], [300, 1], [0, 256]):
        lines.append("v2u\t" + " ".join(map(str, bad)))
        try:
            encoding.vyxal_to_utf8(bad)
            exp.append("accepted")
        except IndexError:
            exp.append("ERR")
    for bad in ("é", "aé", "\x00"):
        lines.append("u2v\t" + vy.cps(bad))
        try:
            encoding.utf8_to_vyxal(bad)
            exp.append("accepted")
        except ValueError:
            exp.append("ERR")
    out = ctx.driver(lines)
    ctx.count("corr:encoding", len(lines))
    for l, e, o in zip(lines, exp, out):
        if e != o:
            ctx.disagree("encoding", l, e, o)
    ctx.exhaustive = True
    ctx.sample({"bytes": [0, 255], "text": encoding.vyxal_to_utf8([0, 255])})

    # ---- keys
    ekeys = [e["key"] for e in g["elements"]]
    mkeys = [m["key"] for m in g["modifiers"]]
    pmods = vparse.MONADIC_MODIFIERS + vparse.DYADIC_MODIFIERS + vparse.TRIADIC_MODIFIERS
    schars = list(vparse.OPENING_CHARACTERS) + list(vparse.CLOSING_CHARACTERS) + ["X", "x", "|"]
    for k in ekeys + mkeys + pmods + schars:
        ctx.check("key_in_codepage", k)
        ctx.check("key_one_token", k)
    for k in sorted(set(ekeys + mkeys + pmods)):
        ctx.check("key_token_in_context", k)
    for k in sorted(set(ekeys)):
        ctx.check("key_unique", k)
        ctx.check("key_reachable", k)
        ctx.check("documented", k)
        ctx.check("doc_arity", k)
    for m in pmods:
        ctx.check("modifier_reachable", m)
    from vyxal.elements import elements as rt_elements, modifiers as rt_mods
    if set(rt_mods) != set(mkeys):
        ctx.disagree("tables", "modifiers", sorted(rt_mods), sorted(mkeys))
    if set(rt_elements) != set(ekeys):
        ctx.disagree("tables", "elements", len(rt_elements), len(set(ekeys)))
    # lexer + parser, real vs model, on every key and key pair-with-modifier
    progs = sorted(set(ekeys + mkeys + pmods + schars)) + [m + k for m in pmods for k in ["+", "kA", "∆c"]] \
        + [pre + k for k in sorted(set(ekeys)) for pre in ("5", "3.5", "a")] + [k + "5" for k in sorted(set(ekeys))]
    lines = ["tok\t" + vy.cps(p) for p in progs] + ["lexparse\t" + vy.cps(p) for p in progs]
    exp = [vy.show_tokens(lexer.tokenise(p)) for p in progs] + [vy.impl_lexparse(p) for p in progs]
    out = ctx.driver(lines)
    ctx.count("corr:lexparse-keys", len(lines))
    for l, e, o in zip(lines, exp, out):
        if e != o:
            ctx.disagree("lexparse-keys", l, e, o)
    ctx.sample({"key": "∆c", "tokens": vy.show_tokens(lexer.tokenise("∆c")), "parse": vy.impl_lexparse("∆c")})
    ctx.bump("element keys", len(ekeys))
    ctx.bump("byte strings", len(cases))


def search(ctx):
    # the always-on sweep is already exhaustive over the finite domain of this property
    ctx.notes.append("search: domain is finite and was enumerated completely by run()")
