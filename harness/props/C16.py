"""C16 — list builtins obey their defining laws."""
import itertools
import math
from collections import Counter
import sympy
import vy
from core import alarm
from vyxal.context import Context
from vyxal import elements as E
from vyxal.LazyList import LazyList

RULE = ("every integer list of length <= 3 (quick) / <= 5 (thorough) over -2..3 exhaustively, random lists to length 12, and lists of short strings; "
        "each of ~40 elements is compared with its defining law written with builtins / itertools (sort = ordered permutation, reverse involution, "
        "uniquify = first occurrences in order, flatten = leaves, sum / product / max / min / cumulative sums / deltas as folds, zip / transpose / "
        "interleave / uninterleave / wrap / prefixes / sublists / powerset / permutations / cartesian product enumerate exactly the defined "
        "collections (as multisets where the documentation fixes no order), counting, membership, grouping, grading). Correspondence: the 13 "
        "elements whose algorithm lives in the repository vs their Lean models. Non-trivial = distinct (element, argument).")
TRUSTED = ["T5 sorted / itertools.permutations / product / combinations behave as documented (the elements delegate to them)"]
CTX = Context()


def canon(v):
    if isinstance(v, LazyList):
        with alarm(5):
            return [canon(x) for x in v]
    if isinstance(v, (list, tuple)):
        return [canon(x) for x in v]
    if isinstance(v, bool):
        return int(v)
    if isinstance(v, sympy.Integer):
        return int(v)
    if isinstance(v, sympy.Rational):
        return f"{v.p}/{v.q}"
    return v


def ms(x):
    return sorted(map(repr, x))


def uniq(l):
    out = []
    for x in l:
        if x not in out:
            out.append(x)
    return out


def group(l):
    return [list(g) for _, g in itertools.groupby(l)]


def sublists(l):
    return [l[i:j] for i in range(len(l)) for j in range(i + 1, len(l) + 1)]


def powerset(l):
    return [list(c) for r in range(len(l) + 1) for c in itertools.combinations(l, r)]


def transpose(m):
    n = max((len(r) for r in m), default=0)
    return [[r[i] for r in m if i < len(r)] for i in range(n)]


# name -> (call on the implementation, law, argument kind, compare-as-multiset)
MONO = {
    "sort": (lambda l: E.vy_sort(l, CTX), sorted, "list", False),
    "reverse": (lambda l: E.reverse(l, CTX), lambda l: l[::-1], "list", False),
    "reverse2": (lambda l: E.reverse(E.reverse(l, CTX), CTX), lambda l: l, "list", False),
    "uniquify": (lambda l: E.uniquify(l, CTX), uniq, "list", False),
    "flatten": (lambda l: E.deep_flatten(l, CTX), None, "nested", False),
    "sum": (lambda l: E.vy_sum(l, CTX), lambda l: sum(l), "list", False),
    "product": (lambda l: E.product(l, CTX), lambda l: math.prod(l), "list", False),
    "max": (lambda l: E.monadic_maximum(l, CTX), lambda l: max(l), "nonempty", False),
    "min": (lambda l: E.monadic_minimum(l, CTX), lambda l: min(l), "nonempty", False),
    "cumsum": (lambda l: E.cumulative_sum(l, CTX), lambda l: list(itertools.accumulate(l)), "list", False),
    "deltas": (lambda l: E.deltas(l, CTX), lambda l: [b - a for a, b in zip(l, l[1:])], "list", False),
    "uninterleave": (lambda l: E.uninterleave(l, CTX), lambda l: [l[::2], l[1::2]], "list", False),
    "prefixes": (lambda l: E.divisors_or_prefixes(l, CTX), lambda l: [l[:i + 1] for i in range(len(l))], "list", False),
    "sublists": (lambda l: E.sublists(l, CTX), sublists, "list", True),
    "powerset": (lambda l: E.powerset(l, CTX), powerset, "list", True),
    "permutations": (lambda l: E.permutations(l, CTX), lambda l: [list(p) for p in itertools.permutations(l)], "nonempty", True),
    "group": (lambda l: E.group_consecutive(l, CTX), group, "list", False),
    "counts": (lambda l: E.counts(l, CTX), lambda l: [[x, l.count(x)] for x in uniq(l)], "list", False),
    "gradeup": (lambda l: E.grade_up(l, CTX), lambda l: sorted(range(len(l)), key=lambda i: l[i]), "list", False),
    "gradedown": (lambda l: E.grade_down(l, CTX), lambda l: sorted(range(len(l)), key=lambda i: -l[i]), "list", False),
    "length": (lambda l: E.length(l, CTX), len, "list", False),
    "allunique": (lambda l: E.all_unique(l, CTX), lambda l: int(len(set(l)) == len(l)), "list", False),
    "uniqmask": (lambda l: E.uniquify_mask(l, CTX), lambda l: [int(x not in l[:i]) for i, x in enumerate(l)], "list", False),
    "headremove": (lambda l: E.head_remove(l, CTX), lambda l: l[1:], "list", False),
    "tailremove": (lambda l: E.tail_remove(l, CTX), lambda l: l[:-1], "list", False),
    "transpose": (lambda m: E.transpose(m, ctx=CTX), transpose, "matrix", False),
    "vsum": (lambda m: E.vectorised_sum(m, CTX), lambda m: [sum(r) for r in m], "matrix", False),
}
DUO = {
    "zip": (lambda a, b: E.vy_zip(a, b, CTX), lambda a, b: [[x, y] for x, y in itertools.zip_longest(a, b, fillvalue=0)], "ll"),
    "interleave": (lambda a, b: E.interleave(a, b, CTX), lambda a, b: [x for p in itertools.zip_longest(a, b) for x in p if x is not None], "ll"),
    "wrap": (lambda a, k: E.wrap(a, k, CTX), lambda a, k: [a[i:i + k] for i in range(0, len(a), k)], "lk"),
    "cartesian": (lambda a, b: E.cartesian_product(a, b, CTX), lambda a, b: [[x, y] for x in a for y in b], "llms"),
    "count": (lambda a, x: E.count_item(a, x, CTX), lambda a, x: a.count(x), "lx"),
    "contains": (lambda a, x: E.contains(a, x, CTX), lambda a, x: int(x in a), "lx"),
    "merge": (lambda a, b: E.merge(a, b, CTX), lambda a, b: a + b, "ll"),
    "union": (lambda a, b: E.union(a, b, CTX), lambda a, b: uniq(a + b), "llms"),
    "remove": (lambda a, x: E.remove(a, x, CTX), lambda a, x: [y for y in a if y != x], "lx"),
    "prepend": (lambda a, x: E.prepend(a, x, CTX), lambda a, x: [x] + a, "lx"),
    "dmax": (lambda a, b: E.dyadic_maximum(a, b, CTX), max, "xx"),
    "dmin": (lambda a, b: E.dyadic_minimum(a, b, CTX), min, "xx"),
}


GENERIC_MONO = ["reverse", "reverse2", "uniquify", "uninterleave", "prefixes", "sublists", "powerset", "group", "counts", "length",
                "headremove", "tailremove"]
GENERIC_DUO_LX = ["count", "remove"]
GENERIC_DUO_LL = ["zip", "interleave", "merge"]


def leaves(t):
    return [x for i in t for x in (leaves(i) if isinstance(i, list) else [i])]


def o_mono(inp):
    name, arg = inp["f"], inp["a"]
    fn, law, kind, asms = MONO[name]
    if kind == "nonempty" and not arg:
        return True, "empty argument is outside this law"
    import copy
    with alarm(10):
        got = canon(fn(copy.deepcopy(arg)))
    want = leaves(arg) if name == "flatten" else law(copy.deepcopy(arg))
    ok = (ms(got) == ms(want)) if asms else (got == want)
    return ok, f"{name}({arg}) = {got!r}, the law gives {want!r}"


def o_duo(inp):
    name, a, b = inp["f"], inp["a"], inp["b"]
    fn, law, kind = DUO[name]
    import copy
    with alarm(10):
        got = canon(fn(copy.deepcopy(a), copy.deepcopy(b)))
    want = law(copy.deepcopy(a), copy.deepcopy(b))
    ok = (ms(got) == ms(want)) if kind.endswith("ms") else (got == want)
    return ok, f"{name}({a}, {b}) = {got!r}, the law gives {want!r}"


ORACLES = {"mono": o_mono, "duo": o_duo}


def run(ctx, widen=False):
    thorough = ctx.tier == "thorough" or widen
    rng = ctx.rng
    V = [-2, -1, 0, 1, 2, 3]
    maxlen = 5 if ctx.tier == "thorough" else 3
    lists = [list(t) for L in range(0, maxlen + 1) for t in itertools.product(V, repeat=L)]
    lists += [[rng.randint(-9, 9) for _ in range(rng.randint(4, 12))] for _ in range(600 if thorough else 120)]
    small = [l for l in lists if len(l) <= 6]
    cases = []
    for name, (fn, law, kind, asms) in MONO.items():
        if kind in ("list", "nonempty"):
            src = small if name in ("permutations", "powerset", "sublists") else lists
            cases += [{"f": name, "a": l} for l in src]
        elif kind == "matrix":
            for _ in range(400 if thorough else 80):
                r, c = rng.randint(0, 4), rng.randint(0, 4)
                ragged = rng.random() < 0.3
                cases.append({"f": name, "a": [[rng.randint(-3, 5) for _ in range(rng.randint(0, c) if ragged else c)] for _ in range(r)]})
        elif kind == "nested":
            def nest(d):
                return [nest(d - 1) if d > 0 and rng.random() < 0.4 else rng.randint(-3, 5) for _ in range(rng.randint(0, 4))]
            cases += [{"f": name, "a": nest(3)} for _ in range(500 if thorough else 100)]
    # laws that do not look inside the items are also run on lists whose items are themselves lists
    POOL = [1, [1, 2], [3], 3, [], [[1], 2]]
    mixed = [list(t) for L in range(0, 4) for t in itertools.product(POOL, repeat=L)]
    if not thorough:
        mixed = mixed[::3]
    for name in GENERIC_MONO:
        src = [m for m in mixed if len(m) <= 3] if name in ("powerset", "sublists") else mixed
        cases += [{"f": name, "a": m} for m in src]
    ctx.bump("monadic law cases with list-valued items", sum(1 for c in cases if any(isinstance(x, list) for x in c["a"])))
    ctx.check_many("mono", cases)
    duo = []
    for name in GENERIC_DUO_LX:
        duo += [{"f": name, "a": m, "b": x} for m in mixed[::2] for x in ([1, 2], [3], 3, [])]
    for name in GENERIC_DUO_LL:
        duo += [{"f": name, "a": a, "b": b} for a in mixed[::7] for b in mixed[::11]]
    short = [l for l in lists if len(l) <= (4 if thorough else 3)][:: (1 if thorough else 2)]
    for name, (fn, law, kind) in DUO.items():
        if kind in ("ll", "llms"):
            pool = short[::5] if name == "cartesian" else short[::3]
            duo += [{"f": name, "a": a, "b": b} for a in pool for b in pool[::4]]
        elif kind == "lk":
            duo += [{"f": name, "a": a, "b": k} for a in short for k in (1, 2, 3)]
        elif kind == "lx":
            duo += [{"f": name, "a": a, "b": x} for a in short for x in (-1, 0, 2)]
        elif kind == "xx":
            duo += [{"f": name, "a": a, "b": b} for a in range(-3, 4) for b in range(-3, 4)]
    ctx.check_many("duo", duo)
    ctx.bump("monadic law cases", len(cases)); ctx.bump("dyadic law cases", len(duo))
    ctx.sample({"f": "group", "a": [1, 1, 2, 1], "element": canon(E.group_consecutive([1, 1, 2, 1], CTX))})
    ctx.exhaustive = True
    # correspondence with the Lean models
    lines, exp = [], []
    sub = lists if thorough else lists[::2]
    def S(l):
        return " ".join(map(str, l))
    def F(v):
        return str(v).replace(" ", "")
    def safe(call):
        try:
            return F(canon(call()))
        except Exception as ex:  # noqa: BLE001
            return "ERR " + type(ex).__name__
    for l in sub:
        for fn, call in [("uniquify", lambda: E.uniquify(l, CTX)), ("cumsum", lambda: E.cumulative_sum(l, CTX)), ("deltas", lambda: E.deltas(l, CTX)),
                         ("uninterleave", lambda: E.uninterleave(list(l), CTX)), ("prefixes", lambda: E.divisors_or_prefixes(l, CTX)),
                         ("group", lambda: E.group_consecutive(list(l), CTX)), ("counts", lambda: E.counts(l, CTX)), ("sort", lambda: E.vy_sort(l, CTX)),
                         ("sum", lambda: E.vy_sum(l, CTX)), ("product", lambda: E.product(l, CTX)), ("reverse", lambda: E.reverse(l, CTX)),
                         ("gradeup", lambda: E.grade_up(list(l), CTX)), ("gradedown", lambda: E.grade_down(list(l), CTX)),
                         ("max", lambda: E.monadic_maximum(list(l), CTX)), ("min", lambda: E.monadic_minimum(list(l), CTX))]:
            lines.append(f"ls\t{fn}|{S(l)}|"); exp.append(safe(call))
        for k in (1, 2, 3):
            lines.append(f"ls\twrap|{S(l)}|{k}"); exp.append(safe(lambda: E.wrap(list(l), k, CTX)))
    for a in short[::3]:
        for b in short[::7]:
            lines.append(f"ls\tinterleave|{S(a)}|{S(b)}"); exp.append(safe(lambda: E.interleave(list(a), list(b), CTX)))
    for l in [x for x in lists if len(x) <= 5][: (400 if thorough else 80)]:
        lines.append(f"ls\tpowerset|{S(l)}|"); exp.append(safe(lambda: E.powerset(list(l), CTX)))
        if l:
            lines.append(f"ls\tpermutations|{S(l)}|"); exp.append(safe(lambda: E.permutations(list(l), CTX)))
    # sublists / overlapping groups / run-length coding (theorems contiguous_mem, windows_spec, rld_rle, rle_rld)
    for l in [x for x in lists if len(x) <= 6][: (600 if thorough else 150)]:
        lines.append(f"ls\tsublists|{S(l)}|"); exp.append(safe(lambda: E.sublists(list(l), CTX)))
        for k in (-1, 0, 1, 2, 3, len(l), len(l) + 1):
            lines.append(f"ls\twindows|{S(l)}|{k}"); exp.append(safe(lambda: E.overlapping_groups(list(l), k, CTX)))
        # run-length coding is defined on strings: the items are read as code points 97 + (x mod 5)
        cs = [97 + (x % 5) for x in l]
        st = "".join(map(chr, cs))
        lines.append(f"ls\trle|{S(cs)}|"); exp.append(safe(lambda: [[ord(c), n] for c, n in E.run_length_encoding(st, CTX)]))
        if st:
            lines.append(f"ls\trlerld|{S(cs)}|"); exp.append(safe(lambda: [ord(c) for c in E.run_length_decoding(E.run_length_encoding(st, CTX), CTX)]))
    # cartesian product: the diagonal walk (theorems cartesian_diagonals / cartesian_perm), on lists and on lazy lists
    from vyxal.LazyList import LazyList as _LL
    cshort = [x for x in lists if len(x) <= 4]
    for a in cshort[:: (3 if thorough else 9)]:
        for b in cshort[:: (5 if thorough else 11)]:
            lines.append(f"ls\tcartesian|{S(a)}|{S(b)}"); exp.append(safe(lambda: E.cartesian_product(list(a), list(b), CTX)))
            lines.append(f"ls\tcartesianlazy|{S(a)}|{S(b)}"); exp.append(safe(lambda: E.cartesian_product(_LL(iter(list(a))), _LL(iter(list(b))), CTX)))
    # zip (zip-longest, 0 for the missing side) and transpose of ragged matrices
    for a in cshort[:: (3 if thorough else 9)]:
        for b in cshort[:: (5 if thorough else 11)]:
            lines.append(f"ls\tzip|{S(a)}|{S(b)}"); exp.append(safe(lambda: E.vy_zip(list(a), list(b), CTX)))
    mats = [[list(r) for r in m] for m in itertools.product([x for x in lists if 1 <= len(x) <= 3][:: (7 if thorough else 23)], repeat=2)]
    mats += [[[1, 2, 3], [4], [5, 6]], [[1], [2, 3]], [[1, 2], [3, 4], [5, 6]], [[7]]]
    for m in mats:
        lines.append("ls\ttranspose|" + ";".join(S(r) for r in m) + "|"); exp.append(safe(lambda: E.transpose(m, ctx=CTX)))
    out = ctx.driver(lines)
    ctx.count("corr:list-models", len(lines))
    for l, e, o in zip(lines, exp, out):
        if e != o:
            ctx.disagree("list-models", l, e, o)


def search(ctx):
    if ctx.tier != "thorough":
        run(ctx, widen=True)
