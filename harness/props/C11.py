"""C11 — input is a cyclic stream shared by explicit and implicit reads."""
import itertools
import vy
from core import alarm
from vyxal.context import Context
from vyxal.helpers import get_input, pop
from vyxal.elements import elements

RULE = ("input lists of length 0..4; histories over: explicit read (the real `?` template is exec'd), implicit pops of arity 1-3 from an empty "
        "stack (the real helpers.pop / get_input), scope entry with 0..3 arguments and scope exit (exactly what the lambda / function "
        "templates do to ctx.inputs); every history of length <= 4 (quick) / <= 6 (thorough) exhaustively plus random histories to length 12; "
        "the same histories compiled to Vyxal programs (λ…;† scopes, @f:… functions) and run end to end. Oracle: the k-th value delivered "
        "from the program's inputs is input k mod n (0 without inputs); inside a scope implicit reads cycle over that call's arguments "
        "(last argument first), explicit reads still take the program's inputs. Correspondence: the Lean input machine on the same "
        "histories. Non-trivial = distinct (inputs, history). stdin is /dev/null, so a read with no inputs hits end of input.")


def real_history(inputs, ops):
    """drive the real ctx / pop / get_input / `?` template; returns the delivered values tagged like the model"""
    ctx = Context()
    ctx.inputs[0][0] = list(inputs)
    out = []
    qcode = elements["?"][0]
    import vyxal.main as M
    for op in ops:
        if op[0] == "e":
            ns = dict(vars(M)); stack = []; ns["stack"] = stack; ns["ctx"] = ctx
            exec(qcode, ns)
            out.append(("T", stack[-1]))
        elif op[0] == "i":
            top_before = ctx.inputs[0][1]
            v = pop([], 1, ctx)
            out.append(("T" if len(ctx.inputs) == 1 else "S", v))
        elif op[0] == "n":
            args = list(op[1])
            ctx.inputs.append([args[::-1], 0])      # ctx.inputs.append([list(deep_copy(stack))[::-1], 0])
            out.append(None)
        elif op[0] == "l":
            if len(ctx.inputs) > 1:
                ctx.inputs.pop()
            out.append(None)
    return out


def spec_history(inputs, ops):
    """the property, read literally"""
    out, k = [], 0
    scopes = []
    for op in ops:
        if op[0] == "e" or (op[0] == "i" and not scopes):
            out.append(("T", inputs[k % len(inputs)] if inputs else 0)); k += 1
        elif op[0] == "i":
            args, j = scopes[-1]
            cyc = args[::-1]
            out.append(("S", cyc[j % len(cyc)] if cyc else 0))
            scopes[-1][1] = j + (1 if cyc else 0)
        elif op[0] == "n":
            scopes.append([list(op[1]), 0]); out.append(None)
        elif op[0] == "l":
            if scopes:
                scopes.pop()
            out.append(None)
    return out


def o_history(inp):
    got = real_history(inp["inputs"], inp["ops"])
    want = spec_history(inp["inputs"], inp["ops"])
    return got == want, f"delivered {got}, the property says {want}"


def o_pop_arity(inp):
    """an implicit pop of arity k from an empty stack is k consecutive reads, in pop order"""
    inputs, k, pre = inp["inputs"], inp["k"], inp["pre"]
    ctx = Context(); ctx.inputs[0][0] = list(inputs)
    for _ in range(pre):
        pop([], 1, ctx)
    got = pop([], k, ctx)
    got = [got] if k == 1 else list(got)
    want = [(inputs[(pre + j) % len(inputs)] if inputs else 0) for j in range(k)]
    return got == want, f"pop(k={k}) after {pre} reads delivered {got}, expected {want}"


def o_program(inp):
    """end to end: recorded values of a compiled history (global array) equal the property's stream"""
    prog, inputs, want = inp["prog"], inp["inputs"], inp["want"]
    with alarm(5):
        stack, ctx, _ = vy.run_program(prog, inputs)
    got = list(ctx.global_array)
    return got == want, f"{prog!r} on {inputs}: recorded {got}, expected {want}"


def o_main(inp):
    """through vyxal.main.execute_vyxal, the way the command line hands inputs over (as text): k explicit reads deliver
    input k mod n — blank and whitespace-only inputs are inputs too (the empty string), no inputs at all give 0"""
    import io, contextlib
    from vyxal.main import execute_vyxal
    from vyxal.helpers import vy_eval
    from vyxal.elements import vy_str
    inputs, reads, flags = inp["inputs"], inp["reads"], inp.get("flags", "")
    buf = io.StringIO()
    try:
        with alarm(5), contextlib.redirect_stdout(buf):
            execute_vyxal("?" * reads, "We" + flags, list(inputs), None, False)
    except SystemExit:
        pass
    c = Context()
    vals = [(x if "Ṡ" in flags else vy_eval(x, c)) for x in inputs]
    want = vy_str([vals[k % len(vals)] if vals else 0 for k in range(reads)], c) + "\n"
    return buf.getvalue() == want, f"{reads} reads on inputs {inputs} (flags {flags!r}) printed {buf.getvalue()!r}, expected {want!r}"


ORACLES = {"main_inputs": o_main, "history": o_history, "pop_arity": o_pop_arity, "program": o_program}


def lit(x):
    """a value as a Vyxal literal (arguments may be small lists: a one-argument scope whose argument is a list must still
    deliver that list, not its items)"""
    return "⟨" + "|".join(lit(y) for y in x) + "⟩" if isinstance(x, list) else str(x)


def compile_history(inputs, ops):
    """history -> program; every read is recorded with ⅛ (push to the global array). Scopes are λ…;† with literal arguments
    (kind "lam": the body leaves 0 on its stack; kind "lamret": the body leaves its stack EMPTY, so the lambda's return value
    is one more implicit read inside its scope, recorded after the call) or named functions @fN:k|…; called right away."""
    want, k = [], 0
    uid = [0]

    def emit(ops_iter, scope):
        nonlocal k
        s = ""
        j = 0
        for op in ops_iter:
            if op[0] == "e":
                s += "?⅛"; want.append(inputs[k % len(inputs)] if inputs else 0); k += 1
            elif op[0] == "i":
                s += ":⅛_"      # empty stack: dup pops one item (implicit input), record a copy, drop the other
                if scope is None:
                    want.append(inputs[k % len(inputs)] if inputs else 0); k += 1
                else:
                    # `†` hands the lambda its arguments in pop order, so the lambda's own stack is the pushed
                    # arguments reversed and its input scope (that stack reversed) is the arguments as pushed
                    cyc = scope
                    want.append(cyc[j % len(cyc)] if cyc else 0); j += 1 if cyc else 0
            elif op[0] == "n":
                args = list(op[1]); body = op[2]
                kind = op[3] if len(op) > 3 else "lam"
                if kind == "fn":
                    uid[0] += 1
                    name = "f" + "abcdefghij"[uid[0] % 10] + "abcdefghij"[(uid[0] // 10) % 10]
                    # the definition comes first, the reads happen at the call: emit the body into a side buffer
                    inner, _ = emit(body, args)
                    s += "@" + name + ":" + str(len(args)) + "|" + "_" * len(args) + inner + ";" + " ".join(map(lit, args)) + " @" + name + ";"
                elif kind == "lamret":
                    inner, jj = emit(body, args)
                    cyc = args
                    s += " ".join(map(lit, args)) + " λ" + str(len(args)) + "|" + "_" * len(args) + inner + ";†⅛"
                    want.append(cyc[jj % len(cyc)] if cyc else 0)
                else:
                    inner, _ = emit(body, args)
                    s += " ".join(map(lit, args)) + " λ" + str(len(args)) + "|" + "_" * len(args) + inner + "0;†_"
        return s, j

    return emit(ops, None)[0], want


def run(ctx, widen=False):
    thorough = ctx.tier == "thorough" or widen
    rng = ctx.rng
    OPS = [["e"], ["i"], ["n", []], ["n", [5]], ["n", [5, 6]], ["n", [5, 6, 7]], ["l"]]
    inputs_all = [[], [7], [7, 8], [7, 8, 9], [7, 8, 9, 4]]
    cases = []
    maxlen = 6 if ctx.tier == "thorough" else 4
    for ins in inputs_all:
        for L in range(1, maxlen + 1):
            for h in itertools.product(OPS, repeat=L):
                cases.append({"inputs": ins, "ops": [list(x) for x in h]})
    for _ in range(40000 if thorough else 4000):
        ins = [rng.randint(-3, 9) for _ in range(rng.randint(0, 4))]
        ops = [rng.choice(OPS) if rng.random() < 0.8 else ["n", [rng.randint(0, 9) for _ in range(rng.randint(0, 3))]] for _ in range(rng.randint(1, 12))]
        cases.append({"inputs": ins, "ops": ops})
    ctx.check_many("history", cases, procs=1 if not thorough else None)
    ctx.bump("function-level histories", len(cases))
    for ins in inputs_all:
        for k in (1, 2, 3):
            for pre in range(0, 5):
                ctx.check("pop_arity", {"inputs": ins, "k": k, "pre": pre})
    # end-to-end programs
    def rand_tree(depth):
        ops = []
        for _ in range(rng.randint(1, 4)):
            r = rng.random()
            if r < 0.35:
                ops.append(["e"])
            elif r < 0.7:
                ops.append(["i"])
            elif depth > 0:
                ops.append(["n", [(rng.randint(1, 9) if rng.random() < 0.75 else [rng.randint(1, 9) for _ in range(rng.randint(1, 3))]) for _ in range(rng.randint(0, 3))],   # (not ⟨⟩: an empty item takes the value under it)
                            rand_tree(depth - 1), rng.choice(["lam", "lamret", "lamret", "fn"])])
        return ops
    pcases = []
    for _ in range(3000 if thorough else 600):
        ins = [rng.randint(1, 9) for _ in range(rng.randint(0, 4))]
        prog, want = compile_history(ins, rand_tree(2))
        pcases.append({"prog": prog, "inputs": ins, "want": want})
    ctx.check_many("program", pcases)
    # inputs as the command line gives them (text), blank ones included
    TXT = ["1", "", "3", " ", "[1,2]", "x", "7", "`a`", "0", "\t"]
    mcases = [{"inputs": list(t), "reads": r} for n_ in range(0, 4) for t in itertools.product(TXT[:7], repeat=n_) for r in (n_ + 2,)]
    mcases += [{"inputs": [rng.choice(TXT) for _ in range(rng.randint(0, 4))], "reads": rng.randint(1, 7), "flags": rng.choice(["", "", "Ṡ"])} for _ in range(300)]
    if not thorough:
        mcases = mcases[::3]
    ctx.bump("execute_vyxal input cases", len(mcases))
    ctx.check_many("main_inputs", mcases, procs=1)
    ctx.bump("end-to-end programs", len(pcases))
    ctx.sample(pcases[0])
    ctx.sample({"inputs": [7, 8], "ops": [["e"], ["n", [5, 6]], ["i"], ["e"], ["i"], ["l"], ["i"]],
                "delivered": [str(x) for x in real_history([7, 8], [["e"], ["n", [5, 6]], ["i"], ["e"], ["i"], ["l"], ["i"]])]})
    ctx.exhaustive = True
    # model correspondence
    sub = cases if thorough else cases[::5] + cases[-2000:]
    def enc(c):
        return " ".join(map(str, c["inputs"])) + "|" + " ".join(("n:" + ",".join(map(str, op[1])) if op[0] == "n" and op[1] else op[0]) for op in c["ops"])
    lines = ["inp\t" + enc(c) for c in sub]
    exp = [" ".join("-" if v is None else f"{v[0]}{v[1]}" for v in real_history(c["inputs"], c["ops"])) for c in sub]
    out = ctx.driver(lines)
    ctx.count("corr:input-machine", len(lines))
    for c, e, o in zip(sub, exp, out):
        if e != o:
            ctx.disagree("input-machine", c, e, o)


def search(ctx):
    if ctx.tier != "thorough":
        run(ctx, widen=True)
