"""C18 — generated Python contains program text only as constants."""
import ast
import itertools
import re
import aststream
import vy
from vyxal import encoding
from vyxal.transpile import transpile

RULE = ("payloads of length <= 2 (quick) / <= 3 (thorough) over the adversarial alphabet {' \" \\ newline ( ) [ ] ^ ` : ; a A 0 _} injected at "
        "every position that accepts program-chosen text (string, two-character string, escaped character, variable get/set name, loop "
        "variable, function name, each parameter slot, lambda arity, compressed string/number, code-page number); all raw strings of "
        "length <= 3 (quick) / <= 4 (thorough) over that alphabet; random strings to length 60 over the code page and over arbitrary "
        "Unicode; backtick strings made of every dictionary-compression code and random code pairs in front of adversarial tails (default "
        "dict_compress=True, the model carries the regenerated dictionary). Oracle on the real output (when transpile returns and the text parses): every Name / Attribute / keyword / def name is in "
        "the fixed vocabulary (names of the element and modifier templates and of the structure templates) or matches "
        "^(VAR_|_lambda_)[A-Za-z0-9_]*$; every other leaf is a Constant. Correspondence: AST vs the Lean transpiler model. "
        "Non-trivial = distinct program text.")
TRUSTED = ["T3 CPython's repr() of a str and str() of an int produce valid literals (used by the !r and {int} holes)"]

ADV = ["'", '"', "\\", "\n", "(", ")", "[", "]", "^", "`", ":", ";", "a", "A", "0", "_"]
IDENT = re.compile(r"^(VAR_|_lambda_)[A-Za-z0-9_]*$")
BENIGN = ["1", "`s`", "‛ab", "\\a", "»1»", "«a«", "⁺a", "← →", "←_a →_a", "(1)", "(1X x)", "{1|2X x}", "{1}", "[1|2]", "[X x]", "λ1X x;", "λ2|1;",
          "ƛ1X x;", "'1;", "µ1;", "⟨1|2X x⟩", "@|1X x;", "@;", "v+ &+ ~+ ß+ ƒ+ ɖ+", "₌+- ₍+-", "⁽+ ‡+- ≬+-×", "vx", "X x", "@:1:*|1;", "1.5"]
_VOCAB = None


def names_of(tree):
    names, leaves_ok = set(), True
    for n in ast.walk(tree):
        if isinstance(n, ast.Name):
            names.add(n.id)
        elif isinstance(n, ast.Attribute):
            names.add(n.attr)
        elif isinstance(n, ast.keyword) and n.arg:
            names.add(n.arg)
        elif isinstance(n, ast.FunctionDef):
            names.add(n.name)
        elif isinstance(n, ast.arg):
            names.add(n.arg)
    return names


def vocabulary(gen):
    global _VOCAB
    if _VOCAB is None:
        v = set()
        for e in gen["elements"] + gen["modifiers"]:
            try:
                v |= names_of(ast.parse(e["code"]))
            except SyntaxError:
                pass
        for p in BENIGN:
            for dc in (True, False):
                v |= names_of(ast.parse(transpile(p, dc)))
        _VOCAB = {n for n in v if not IDENT.match(n)}
    return _VOCAB


_GEN = None


def o_constants_only(prog):
    global _GEN
    if _GEN is None:
        import json, os
        _GEN = json.load(open(os.path.join(os.path.dirname(os.path.dirname(__file__)), "gen.json"), encoding="utf-8"))
    vflag = False
    if isinstance(prog, str) and prog.startswith("\x00V:"):      # the `V` flag (one-character variable names): a lexer mode
        vflag, prog = True, prog[3:]
    try:
        code = transpile(prog, True, vflag)
    except Exception as ex:  # noqa: BLE001  "if it returns code"
        return True, f"no code returned ({type(ex).__name__})"
    try:
        tree = ast.parse(code)
    except (SyntaxError, ValueError):
        return True, "does-not-compile (no code is run)"
    voc = vocabulary(_GEN)
    bad = sorted(n for n in names_of(tree) if n not in voc and not IDENT.match(n))
    return not bad, f"names outside the vocabulary and not prefixed identifiers: {bad}   python: {code[:200]!r}"


ORACLES = {"constants_only": o_constants_only}

POSITIONS = ["`{}`", "‛{}", "\\{}", "←{}", "→{}", "({}|1)", "@{};", "@{}|1;", "@f:{}|1;", "@f:a:{}|1;", "@f:{}:{}|1;", "λ{}|1;", "«{}«", "»{}»", "⁺{}",
             "[{}|1]", "⟨←{}⟩", "λ→{};", "`{}", "{}"]


def run(ctx, widen=False):
    thorough = ctx.tier == "thorough" or widen
    rng = ctx.rng
    progs = []
    maxp = 3 if thorough else 2
    for L in range(0, maxp + 1):
        for t in itertools.product(ADV, repeat=L):
            p = "".join(t)
            for pos in POSITIONS:
                progs.append(pos.replace("{}", p))
    ctx.bump("payload x position", len(progs))
    for L in range(0, (5 if ctx.tier == "thorough" else 4)):
        for t in itertools.product(ADV, repeat=L):
            progs.append("".join(t))
    cp = encoding.codepage
    # dictionary text is program-determined too: every single compression code, and random pairs, in front of adversarial tails
    # (transpile's default is dict_compress=True)
    TAILS = [');zz9(1)#', '"', '\\', 'a"+zz9(1)+"', ' ', '']
    dprogs = ["`" + c + t + "`" for c in cp for t in TAILS]
    comp = encoding.compression
    for _ in range(6000 if thorough else 1200):
        body = "".join(rng.choice([rng.choice(comp), rng.choice(comp) + rng.choice(comp), rng.choice(ADV), " "]) for _ in range(rng.randint(1, 5)))
        dprogs.append("`" + body.replace("`", "") + rng.choice(TAILS) + "`")
    # attacks on the escaping of string constants: 0..3 backslashes, then a quote character, then a tail that would be Python
    # if the constant ended there (the `#` swallows what the template puts after the text)
    for pos in ("`{}`", "`{}", "‛{}", "«{}«", "λ`{}`;", "⟨`{}`⟩", "@f|`{}`;", "[`{}`]", "`a{}b`", "k`{}`"):
        for nb in range(0, 4):
            for q in ('"', "'", '"""', "\n\"", "\r\""):
                for tail in TAILS + [")\nzz9(1)#", "+zz9(1))#", ");zz9(1);(\""]:
                    body = "\\" * nb + q + tail
                    if pos.startswith("‛"):
                        body = ("\\" * (nb % 2) + q)[:2].ljust(2, "a") + tail
                    dprogs.append(pos.replace("{}", body.replace("`", "")))
                    # the same with the *other* quote character behind the `#`: a constant holding both kinds of quote is where an
                    # escaper that lets Python choose the delimiter (repr) changes its mind
                    if q in ('"', "'") and "#" in tail and not pos.startswith("‛"):
                        dprogs.append(pos.replace("{}", (body + ("'" if q == '"' else '"')).replace("`", "")))
    ctx.bump("dictionary-code strings", len(dprogs))
    progs += dprogs
    nr = 20000 if thorough else 2500
    for _ in range(nr):
        progs.append("".join(rng.choice(cp) for _ in range(rng.randint(1, 60))))
    uni = []
    for _ in range(nr):
        uni.append("".join(chr(rng.choice([rng.randrange(32, 127), rng.randrange(0x80, 0x3000), rng.randrange(0x10000, 0x10FFFF), ord(rng.choice(cp)),
                                            ord(rng.choice("@:|;λ(→←`\\")), rng.randrange(0, 32)])) for _ in range(rng.randint(1, 40))))
    uni = [u for u in uni if not any(0xD800 <= ord(c) <= 0xDFFF for c in u)]
    progs += uni
    ctx.bump("random code-page strings", nr)
    ctx.bump("random unicode strings", len(uni))
    # the V flag changes how a variable name is cut out of the program text: every code-page character and a sample of other
    # letters right behind an arrow, the adversarial payloads behind an arrow, and random code-page strings, all with the flag on
    vprogs = [a + c + t for a in "→←" for c in cp for t in ("", "1", "a")]
    vprogs += [a + chr(u) for a in "→←" for u in list(range(0xAA, 0x250)) + [0x3B1, 0x3BB, 0x410, 0x5D0, 0x4E00, 0xFF46, 0x1D400, 0x2160, 0xB2, 0x2082]]
    vprogs += [pos.replace("{}", "".join(t)) for pos in ("←{}", "→{}", "⟨←{}⟩", "λ→{};") for L in (1, 2) for t in itertools.product(ADV, repeat=L)]
    vprogs += ["".join(rng.choice(cp + "→←→←") for _ in range(rng.randint(1, 30))) for _ in range(nr // 4)]
    ctx.bump("programs transpiled with the V flag", len(vprogs))
    # the Lean lexer in V mode (object of lexV_variable_letters) against the real lexer with variables_as_digraphs=True
    import vy as _vy
    from vyxal import lexer as _lexer
    vsub = [v for v in vprogs if all(ord(ch) < 0x110000 and not (0xD800 <= ord(ch) <= 0xDFFF) for ch in v)][:: (1 if thorough else 3)]
    vout = ctx.driver(["tokV\t" + _vy.cps(v) for v in vsub])
    ctx.count("corr:lexer-V", len(vsub))
    for v, o in zip(vsub, vout):
        e = _vy.show_tokens(_lexer.tokenise(v, True))
        if e != o:
            ctx.disagree("lexer-V", v, e, o)
    progs += ["\x00V:" + v for v in vprogs]
    progs = list(dict.fromkeys(progs))
    ctx.check_many("constants_only", progs)
    ctx.exhaustive = True
    ctx.sample({"prog": "@f:a[b]|1;", "python": transpile("@f:a[b]|1;")[:200]})
    # model correspondence: skip programs with non-ASCII decimal digits (Python's isdecimal/int accept them; the model reads ASCII digits)
    sub = [p for p in progs if not any(c.isdecimal() and not c.isascii() for c in p)]
    sub = sub if thorough else sub[:12000]
    aststream.run_stream(ctx, sub, dict_compress=False)
    # the hypothesis of the tree-level theorem `names_from_vocabulary` (variable tokens carry letters only — the lexer's own
    # guarantee, `lex_variable_letters`) holds of the tree the parser model builds for every generated program
    vt = [p for p in sub if vy.in_codepage(p)] if hasattr(vy, "in_codepage") else sub
    out = ctx.driver(["placed\t" + vy.cps(p) for p in vt])
    ctx.count("corr:vtok", len(vt))
    bad = 0
    for p, m in zip(vt, out):
        if "vtok=F" in m:
            bad += 1
            ctx.disagree("vtok", p, "variable tokens carry letters only (lexer)", m)
    ctx.bump("vtok:hypothesis holds", len(vt) - bad)
    dsub = [p for p in dict.fromkeys(dprogs) if not any(c.isdecimal() and not c.isascii() for c in p)]
    aststream.run_stream(ctx, dsub, dict_compress=True)


def search(ctx):
    if ctx.tier != "thorough":
        run(ctx, widen=True)
