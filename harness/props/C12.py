"""C12 — interpreter context is balanced after every construct."""
import vy
import progs
import aststream
from core import alarm, Timeout
from vyxal.context import Context
from vyxal.lexer import tokenise
from vyxal.parse import parse
from vyxal.transpile import transpile_ast

RULE = ("terminating programs from the core grammar (literals, stack/arithmetic elements, variables, if/for/while, the four lambdas, "
        "named functions, list literals, modifiers; nesting <= 4) with break/recurse at legal positions, plus each printing element on "
        "eager and lazy lists, on 0..3 inputs. Oracle: the depth tuple (context_values, inputs, stacks, function_stack) after every "
        "top-level statement equals the tuple before it, and `n` at the end pushes the top-level context; runs that raise or time out do "
        "not 'finish normally' and are skipped (counted). Correspondence: ast.parse(transpile(p)) vs the Lean transpiler model. "
        "Non-trivial = distinct program x inputs that finished normally.")


def depths(ctx):
    return (len(ctx.context_values), len(ctx.inputs), len(ctx.stacks), len(ctx.function_stack))


def o_balanced(inp):
    prog, inputs = inp["prog"], inp.get("inputs", [])
    ctx = Context()
    stack = []
    ctx.inputs[0][0] = list(inputs)
    ctx.stacks.append(stack)
    ns = dict(vars(vy._M))
    ns["stack"] = stack
    ns["ctx"] = ctx
    tree = parse(tokenise(prog))
    d0 = depths(ctx)
    top0 = list(ctx.context_values)
    import io, contextlib
    try:
        with alarm(1.5), contextlib.redirect_stdout(io.StringIO()):
            for i, s in enumerate(tree):
                code = transpile_ast([s])
                exec(code, ns)
                d = depths(ctx)
                if d != d0:
                    return False, f"after top-level statement {i} of {prog!r}: depths {d}, initially {d0}"
            exec(transpile_ast(parse(tokenise("n"))), ns)
    except Timeout:
        raise
    except BaseException as ex:  # noqa: BLE001  abnormal termination is outside the property
        return True, f"raised {type(ex).__name__}"
    if ctx.context_values != top0:
        return False, f"context values at the end {ctx.context_values!r}, initially {top0!r}"
    got = stack[-1] if stack else None
    if got != top0[-1]:
        return False, f"`n` at top level pushed {got!r}, the top-level context is {top0[-1]!r}"
    return True, "balanced"


ORACLES = {"balanced": o_balanced}

FIXED = ["3(X)", "3(x)", "1{X}", "λX;†", "3ɾ,", "3ɾ…", "3ɾ₴", "3(2(X))", "2(1[X|x])", "λ1[X];†", "1 2λ2|X;†", "3ɾƛX;", "3ɾ'X;", "@f|X;@f;",
         "@f:1|1[X];5@f;", "⟨1|X|2⟩", "3(⟨X⟩)", "3(n[x])n", "3ɾ¨,", "⟨1|2⟩,", "3ɾƛ,;", "2(3ɾ,)", "1→c{←c|←c1-→cX}", "2(λx;)", "3(i|X)", "vX", "1 2₌X+"]


def run(ctx, widen=False):
    thorough = ctx.tier == "thorough" or widen
    rng = ctx.rng
    cases = [{"prog": p, "inputs": []} for p in FIXED]
    n = 20000 if thorough else 1500
    for _ in range(n):
        p = progs.core_program(rng, rng.randint(1, 4))
        inputs = [rng.randint(0, 5) for _ in range(rng.randint(0, 3))]
        cases.append({"prog": p, "inputs": inputs})
    ctx.check_many("balanced", cases)
    ctx.sample({"prog": "3(X)", "depths": "(1,1,2,0) before and after", "n_after": 0})
    ctx.sample(cases[len(FIXED)])
    aststream.run_stream(ctx, [c["prog"] for c in cases])
    verdict_stream(ctx, [c["prog"] for c in cases])


def verdict_stream(ctx, programs):
    """ties the tree-level theorem `transpile_balanced` to the run-time oracle: the model's placement predicate `bplL .plain`
    (hypothesis) and the delta typing's verdict on the transpiled tree (conclusion) for every generated program — the same
    programs whose real runs the `balanced` oracle judges; the programs outside the hypothesis are counted (they are the
    X-in-a-while-condition / X-in-a-list-item call sites)"""
    programs = list(dict.fromkeys(programs))
    out = ctx.driver(["placed\t" + vy.cps(p) for p in programs])
    ctx.count("corr:balance-verdict", len(programs))
    st = {"bpl=T,bal=T": 0, "bpl=F": 0, "skip": 0, "disagree": 0}
    for p, m in zip(programs, out):
        if m.startswith("ERR") or "wf=ERR" in m:
            st["skip"] += 1
            continue
        bpl, bal = "bpl=T" in m, "bal=T" in m
        if not bpl:
            st["bpl=F"] += 1
            continue
        if bal:          # (the real run of the same program is judged by the `balanced` oracle above)
            st["bpl=T,bal=T"] += 1
        else:
            st["disagree"] += 1
            ctx.disagree("balance-verdict", p, "the theorem transpile_balanced says: accepted", m)
    for k, v in st.items():
        ctx.bump("verdict:" + k, v)


def search(ctx):
    if ctx.tier != "thorough":
        run(ctx, widen=True)
