"""C08 — vectorising elements act element-wise."""
import itertools
import sympy
import vy
from core import alarm, Timeout
from vyxal.context import Context
from vyxal import elements as E
from vyxal.elements import elements, vectorise, vy_type, NUMBER_TYPE
from vyxal.LazyList import LazyList
import vyxal.main as M

RULE = ("every element documented `vectorise: true` whose arity is 1 or 2 and whose scalar overload answers a scalar (the list is regenerated "
        "from the documentation each run; string-only elements and elements with a documented list overload are excluded by name), on flat and "
        "nested lists (depth <= 3, length <= 4) of integers, rationals and short strings, in the shapes list-scalar, scalar-list, list-list "
        "(equal and unequal lengths: vy_zip pads with 0), each given eagerly and lazily. Oracle: the result on lists equals the element applied "
        "item by item (computed with the same element on scalars). Correspondence: the shared helper `vectorise` driven with a labelled pairing "
        "function vs the Lean skeleton d2 / d1. Non-trivial = distinct (element, shape, arguments).")
TRUSTED = ["T5 the scalar overloads are opaque: the oracle uses the element itself on scalars as the reference for the items"]
CTX = Context()
# documented vectorising but outside "arithmetic, comparison, bitwise and numeric" or with a documented list overload of their own
EXCLUDE = {"øβ", "øM", "ø↳", "ø↲",          # string elements
           "Ė", "¯", "Ḋ",                       # push several values / not element-wise by nature (deltas)
           "Ẏ", "Ż", "∆Ŀ", "•", "%", "Þ∴", "Þ∵"}   # a documented list overload of their own


def run_elem(key, args):
    ctx = Context()
    stack = list(args)
    ctx.stacks.append(stack)
    ns = dict(vars(M)); ns["stack"] = stack; ns["ctx"] = ctx
    exec(elements[key][0], ns)
    return stack[-1]


_VCODE = {}


def run_v(key, args):
    """the element under the explicit `v` modifier: the transpiled program `v<key>` on a preset stack"""
    from vyxal.transpile import transpile
    if key not in _VCODE:
        _VCODE[key] = transpile("v" + key)
    ctx = Context()
    stack = list(args)
    ctx.stacks.append(stack)
    ns = dict(vars(M)); ns["stack"] = stack; ns["ctx"] = ctx
    exec(_VCODE[key], ns)
    return stack[-1]


def o_explicit(inp):
    """`v` + a dyadic element with one scalar and one list: the element applied to the scalar and each item of the list
    (each application vectorising further on its own), whether the list is eager or lazy"""
    key, args, lazy = inp["key"], inp["args"], inp["lazy"]
    a, b = args
    try:
        with alarm(5):
            if isl(b):
                want = [canon(run_elem(key, [dec(a, False), dec(y, False)])) for y in b[1]]
            else:
                want = [canon(run_elem(key, [dec(x, False), dec(b, False)])) for x in a[1]]
    except Timeout:
        return True, "timeout on items"
    except BaseException as ex:  # noqa: BLE001
        return True, f"an item result is undefined ({type(ex).__name__})"
    try:
        with alarm(5):
            got = canon(run_v(key, [dec(x, lazy) for x in args]))
    except Timeout:
        return True, "timeout"
    except BaseException as ex:  # noqa: BLE001
        return False, f"v{key} on {args} ({'lazy' if lazy else 'eager'}) raised {type(ex).__name__}: {ex}; item by item it gives {want}"
    return got == want, f"v{key} on {args} ({'lazy' if lazy else 'eager'}) = {got}, item by item {want}"


def canon(v):
    if isinstance(v, LazyList):
        with alarm(3):
            return [canon(x) for x in v]
    if isinstance(v, list):
        return [canon(x) for x in v]
    if isinstance(v, bool):
        return int(v)
    if isinstance(v, float):
        return str(sympy.nsimplify(v, rational=True))
    if isinstance(v, sympy.Basic):
        return str(sympy.nsimplify(v, rational=True)) if v.is_number else str(v)
    return v if isinstance(v, str) else str(v)


def dec(a, lazy):
    if isinstance(a, list):
        if a and a[0] == "R":
            return sympy.Rational(a[1], a[2])
        items = [dec(x, lazy) for x in a[1]]
        return LazyList(iter(items)) if lazy else items
    return a


def isl(a):
    return isinstance(a, list) and a and a[0] == "l"


def expected(key, args):
    """the property, read literally: element-wise, recursively; list-list position by position (vy_zip pads with 0)"""
    if len(args) == 1:
        a, = args
        if isl(a):
            return [expected(key, [x]) for x in a[1]]
        return canon(run_elem(key, [dec(a, False)]))
    a, b = args
    if isl(a) and isl(b):
        n = max(len(a[1]), len(b[1]))
        xs = a[1] + [0] * (n - len(a[1])); ys = b[1] + [0] * (n - len(b[1]))
        return [expected(key, [x, y]) for x, y in zip(xs, ys)]
    if isl(a):
        return [expected(key, [x, b]) for x in a[1]]
    if isl(b):
        return [expected(key, [a, y]) for y in b[1]]
    return canon(run_elem(key, [dec(a, False), dec(b, False)]))


def o_elementwise(inp):
    key, args, lazy = inp["key"], inp["args"], inp["lazy"]
    try:
        with alarm(5):
            want = expected(key, args)
    except Timeout:
        return True, "timeout on items"
    except BaseException as ex:  # noqa: BLE001  an item is outside the element's domain: nothing to compare
        return True, f"an item result is undefined ({type(ex).__name__})"
    try:
        with alarm(5):
            got = canon(run_elem(key, [dec(a, lazy) for a in args]))
    except Timeout:
        return True, "timeout"
    except BaseException as ex:  # noqa: BLE001
        detail = f"{key} on {args} ({'lazy' if lazy else 'eager'}) raised {type(ex).__name__}: {ex}; item by item it gives {want}"
        if key == "∆f":
            return False, detail, ("not_vectorising", "∆f")
        return False, detail
    detail = f"{key} on {args} ({'lazy' if lazy else 'eager'}) = {got}, item by item {want}"
    if got != want and key == "∆f":
        return False, detail, ("not_vectorising", "∆f")     # F19: documented vectorise: true, template is a bare sympy call
    return got == want, detail


def o_fib(_):
    return o_elementwise({"key": "∆f", "args": [["l", [3, 2, 7]]], "lazy": False})[:2]


ORACLES = {"explicit_v": o_explicit, "elementwise": o_elementwise, "not_vectorising": o_fib}


def pairf(lhs, rhs, ctx):
    ts = vy_type(lhs, rhs)
    return {(NUMBER_TYPE, NUMBER_TYPE): lambda: lhs * 1000 + rhs}.get(ts, lambda: vectorise(pairf, lhs, rhs, ctx=ctx))()


def monf(lhs, ctx):
    return {NUMBER_TYPE: lambda: lhs * 7 + 1}.get(vy_type(lhs), lambda: vectorise(monf, lhs, ctx=ctx))()


def shapes(rng, depth):
    def t(d):
        if d == 0 or rng.random() < 0.35:
            return rng.randint(0, 9)
        return ["l", [t(d - 1) for _ in range(rng.randint(0, 4))]]
    return ["l", [t(depth - 1) for _ in range(rng.randint(0, 4))]]


def toj(a):
    return "[" + ",".join(toj(x) for x in a[1]) + "]" if isl(a) else str(a)


def run(ctx, widen=False):
    thorough = ctx.tier == "thorough" or widen
    rng = ctx.rng
    g = ctx.gen
    arity = {e["key"]: e["arity"] for e in g["elements"]}
    keys = [k for k, ok in g["vectorising"] if k not in EXCLUDE and arity.get(k) in (1, 2)]
    ctx.bump("documented vectorising elements", len(g["vectorising"]))
    ctx.bump("elements in the numeric domain of the property", len(keys))
    S = [0, 1, 2, 3, -2, 5, ["R", 1, 2], ["R", -3, 2]]
    cases = []
    per = 24 if ctx.tier == "thorough" else 8
    for k in keys:
        for _ in range(per):
            d = rng.randint(1, 3)
            def sc():
                # short strings are scalars too (a third of the scalar positions), except for the two elements whose string
                # overload is not a scalar function (ƈ pairs characters, ∆L returns an iterator object)
                if k not in ("ƈ", "∆L") and rng.random() < 0.33:
                    return rng.choice(["a", "xy", "", "7"])
                return rng.choice(S)
            def lst(dd):
                return ["l", [lst(dd - 1) if dd > 1 and rng.random() < 0.4 else sc() for _ in range(rng.randint(0, 4))]]
            lazy = rng.random() < 0.5
            if arity[k] == 1:
                cases.append({"key": k, "args": [lst(d)], "lazy": lazy})
            else:
                shape = rng.choice(["LS", "SL", "LL", "LLu"])
                if shape == "LS":
                    cases.append({"key": k, "args": [lst(d), sc()], "lazy": lazy})
                elif shape == "SL":
                    cases.append({"key": k, "args": [sc(), lst(d)], "lazy": lazy})
                else:
                    a, b = lst(d), lst(d)
                    if shape == "LL":
                        n = min(len(a[1]), len(b[1])); a = ["l", a[1][:n]]; b = ["l", b[1][:n]]
                    cases.append({"key": k, "args": [a, b], "lazy": lazy})
    ctx.check_many("elementwise", cases)
    # the explicit `v` modifier on dyadic elements, scalar-list and list-scalar, eager and lazy
    vcases = []
    for k in [k for k in keys if arity[k] == 2 and k not in ("ƈ", "∆L")]:
        for _ in range(6 if ctx.tier == "thorough" else 2):
            l = ["l", [rng.choice(S) for _ in range(rng.randint(1, 3))]]
            sc_ = rng.choice([0, 1, 2, 3, 5, 12, 25])
            for args in ([sc_, l], [l, sc_]):
                for lazy in (False, True):
                    vcases.append({"key": k, "args": args, "lazy": lazy})
    ctx.bump("explicit v cases", len(vcases))
    ctx.check_many("explicit_v", vcases)
    ctx.sample(cases[0]); ctx.sample({"key": "+", "args": [["l", [1, ["l", [2, 3]]]], 10], "result": canon(run_elem("+", [[1, [2, 3]], 10]))})
    # correspondence of the shared `vectorise` helper with the Lean skeleton
    lines, exp = [], []
    for _ in range(4000 if thorough else 600):
        a, b = shapes(rng, rng.randint(1, 3)), shapes(rng, rng.randint(1, 3))
        k = rng.randrange(4)
        if k == 0:
            b = rng.randint(0, 9)
        elif k == 1:
            a = rng.randint(0, 9)
        for lazy in (False, True):
            if k == 3:
                lines.append("vec\t" + toj(a)); exp.append(str(canon_int(monf(dec(a, lazy), CTX))).replace(" ", ""))
            else:
                lines.append("vec\t" + toj(a) + "|" + toj(b)); exp.append(str(canon_int(pairf(dec(a, lazy), dec(b, lazy), CTX))).replace(" ", ""))
    out = ctx.driver(lines)
    ctx.count("corr:vectorise-skeleton", len(lines))
    for l, e, o in zip(lines, exp, out):
        if e != o:
            ctx.disagree("vectorise-skeleton", l, e, o)


def canon_int(v):
    if isinstance(v, (LazyList, list)):
        return [canon_int(x) for x in v]
    return int(v)


def search(ctx):
    if ctx.tier != "thorough":
        run(ctx, widen=True)
