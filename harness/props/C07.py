"""C07 — rational arithmetic is exact and stays inside the number types."""
import itertools
from fractions import Fraction
import sympy
import vy
from core import alarm
from vyxal.context import Context
from vyxal.elements import add, subtract, multiply, divide, modulo, integer_divide

RULE = ("operands in every representation that reaches the operators (Python int, sympy.Integer, sympy.Rational): every pair p/q with |p| <= 6, "
        "q <= 4 (quick) / |p| <= 12, q <= 6 (thorough) exhaustively for all six operators, random pairs with |p| <= 10^6, q <= 10^4 (30% of them around 2^53, 2^63, 2^64, 10^17 .. 10^40, where floats and machine words stop being exact), and random "
        "expression trees of depth <= 5 over + - * / run as Vyxal programs. Oracle: the result has type int / Integer / Rational (never float "
        "or a symbolic expression) and equals the fractions.Fraction result exactly; / and ḭ by zero give 0. Correspondence: value and "
        "representation class vs the Lean number model. Non-trivial = distinct (operator, operands, representations).")
TRUSTED = ["T5 sympy's Integer/Rational arithmetic and Mod are exact (validated on every pair run)"]
CTX = Context()
OPS = {"add": (add, lambda a, b: a + b), "sub": (subtract, lambda a, b: a - b), "mul": (multiply, lambda a, b: a * b),
       "div": (divide, lambda a, b: Fraction(0) if b == 0 else a / b),
       "idiv": (integer_divide, lambda a, b: Fraction(0) if b == 0 else Fraction((a / b).__floor__())),
       "mod": (modulo, lambda a, b: a - b * (a / b).__floor__())}


def mkval(rep, p, q):
    if rep == "i":
        return int(p)
    if rep == "I":
        return sympy.Integer(p)
    return sympy.Rational(p, q)


def classify(v):
    if isinstance(v, bool):
        return None
    if type(v) is int:
        return "i", Fraction(v)
    if isinstance(v, sympy.Integer):
        return "I", Fraction(int(v))
    if isinstance(v, sympy.Rational):
        return "R", Fraction(int(v.p), int(v.q))
    return None


def o_op(inp):
    op, a, b = inp["op"], inp["a"], inp["b"]
    fa, fb = Fraction(a[1], a[2]), Fraction(b[1], b[2])
    if op == "mod" and fb == 0:
        return True, "modulo by zero is outside the property"
    fn, ref = OPS[op]
    with alarm(10):
        got = fn(mkval(*a), mkval(*b), CTX)
    want = ref(fa, fb)
    c = classify(got)
    if c is None:
        return False, f"{op}({mkval(*a)!r}, {mkval(*b)!r}) = {got!r} of type {type(got).__name__}: not an int / Integer / Rational (exact value {want})"
    return c[1] == want, f"{op}({mkval(*a)!r}, {mkval(*b)!r}) = {got!r}, exact value {want}"


def tree_prog(t):
    if t[0] == "lit":
        p, q = t[1], t[2]
        s = str(abs(p)) + ("N" if p < 0 else "")
        return s + (" " + str(q) + "/" if q != 1 else " ")
    return tree_prog(t[1]) + tree_prog(t[2]) + {"add": "+", "sub": "-", "mul": "*", "div": "/"}[t[0]] + " "


def tree_val(t):
    if t[0] == "lit":
        return Fraction(t[1], t[2])
    a, b = tree_val(t[1]), tree_val(t[2])
    return OPS[t[0]][1](a, b)


def o_tree(t):
    prog = tree_prog(t)
    with alarm(10):
        stack, _, _ = vy.run_program(prog)
    want = tree_val(t)
    c = classify(stack[-1]) if stack else None
    if c is None:
        return False, f"{prog!r} leaves {stack!r}; exact value {want}"
    return c[1] == want, f"{prog!r} leaves {stack[-1]!r}; exact value {want}"


ORACLES = {"op": o_op, "tree": o_tree}


def reps(p, q):
    if q == 1:
        return [["i", p, 1], ["I", p, 1]]
    return [["R", p, q]]


def run(ctx, widen=False):
    thorough = ctx.tier == "thorough" or widen
    rng = ctx.rng
    P, Q = (12, 6) if ctx.tier == "thorough" else (6, 4)
    vals = []
    seen = set()
    for p in range(-P, P + 1):
        for q in range(1, Q + 1):
            f = Fraction(p, q)
            if f in seen:
                continue
            seen.add(f)
            vals += reps(f.numerator, f.denominator)
    cases = []
    for op in OPS:
        for a in vals:
            for b in vals:
                cases.append({"op": op, "a": a, "b": b})
    if ctx.tier != "thorough":
        cases = cases[::2]
    ctx.bump("exhaustive small pairs", len(cases))
    for _ in range(30000 if thorough else 3000):
        def rv():
            p = rng.randint(-10 ** 6, 10 ** 6)
            q = rng.randint(1, 10 ** 4) if rng.random() < 0.5 else 1
            r = rng.random()
            if r < 0.3:       # magnitudes where a float (53-bit mantissa) or a machine word stops being exact
                p = rng.choice([1, -1]) * (rng.choice([2 ** 53, 2 ** 63, 2 ** 64, 10 ** 17, 10 ** 18, 10 ** 25, 3 * 10 ** 17, 10 ** 40]) + rng.randint(-3, 9))
                q = rng.choice([1, 1, 1, 2, 3, 7, 10 ** 9 + 7])
            f = Fraction(p, q)
            return rng.choice(reps(f.numerator, f.denominator))
        cases.append({"op": rng.choice(list(OPS)), "a": rv(), "b": rv()})
    ctx.check_many("op", cases)

    def rtree(d):
        if d == 0 or rng.random() < 0.25:
            return ["lit", rng.randint(-9, 9), 1] if rng.random() < 0.7 else ["lit", rng.randint(-9, 9), rng.randint(2, 7)]
        return [rng.choice(["add", "sub", "mul", "div"]), rtree(d - 1), rtree(d - 1)]
    trees = [rtree(rng.randint(1, 5)) for _ in range(6000 if thorough else 600)]
    ctx.check_many("tree", trees)
    ctx.bump("expression trees", len(trees))
    ctx.sample({"op": "div", "a": ["i", -171702, 1], "b": ["i", 962067, 1], "result": repr(divide(-171702, 962067, CTX)), "exact": str(Fraction(-171702, 962067))})
    ctx.sample({"tree_program": tree_prog(trees[0]), "exact": str(tree_val(trees[0]))})
    ctx.exhaustive = True
    # model correspondence: value and representation class
    sub = [c for c in cases if not (c["op"] == "mod" and c["b"][1] == 0)]
    sub = sub if thorough else sub[::3]
    lines, exp = [], []
    for c in sub:
        a, b = c["a"], c["b"]
        lines.append("arith\t" + " ".join([c["op"], a[0], str(a[1]), str(a[2]), b[0], str(b[1]), str(b[2])]))
        try:
            with alarm(10):
                got = OPS[c["op"]][0](mkval(*a), mkval(*b), CTX)
            k = classify(got)
            exp.append(f"{k[0]} {k[1].numerator}/{k[1].denominator}" if k else "UNCLASSIFIED " + repr(got))
        except Exception as ex:  # noqa: BLE001
            exp.append("ERR " + type(ex).__name__)
    out = ctx.driver(lines)
    ctx.count("corr:number-model", len(lines))
    for l, e, o in zip(lines, exp, out):
        if e != o:
            ctx.disagree("number-model", l, e, o)


def search(ctx):
    if ctx.tier != "thorough":
        run(ctx, widen=True)
