"""C13 — a finite lazy list is indistinguishable from the list it enumerates."""
import itertools
import vy
from core import alarm, Timeout
from vyxal.LazyList import LazyList
from vyxal.helpers import deep_copy

RULE = ("sources: every list of length 0..3 over {0,1,2}; histories: every sequence of <= 2 (quick) / <= 3 (thorough) of the 44 parametrised "
        "observations (index -4..5, ten slices, len, iteration, truthiness, membership of 0/1/2/5, equality with three lists, count, reversal, "
        "copy, listify, and a copy / an iterator kept across observations: make, index, listify, next, rest) exhaustively, plus random histories of length <= 12 on lists of length <= 8 over -2..3. Oracle: each answer equals the "
        "same observation on the plain Python list (with the documented wrap-around for out-of-range non-negative indices). Correspondence: "
        "the same histories on the Lean lazy-list machine. Non-trivial = distinct (source, history).")

OPS = [["g", i] for i in range(-4, 6)] + \
      [["s", a, b, c] for (a, b, c) in [(None, None, None), (1, None, None), (None, 2, None), (0, 10, None), (-2, None, None),
                                         (None, None, -1), (None, None, 2), (1, 3, None), (2, 0, -1), (-3, -1, None)]] + \
      [["len"], ["iter"], ["bool"]] + [["c", x] for x in (0, 1, 2, 5)] + [["e", 0], ["e", 1], ["e", 2]] + \
      [["n", 1], ["n", 2]] + [["rev"], ["copy"], ["lst"], ["copyg", 0], ["copyg", -1]] + \
      [["mk"], ["cg", 0], ["cg", 1], ["cl"], ["mi"], ["nx"], ["rest"]]     # a copy / an iterator that is KEPT across observations


def canon(v):
    if isinstance(v, LazyList):
        with alarm(2):
            return [canon(x) for x in v]
    if isinstance(v, (list, tuple)):
        return [canon(x) for x in v]
    if isinstance(v, bool):
        return int(v)
    return v


def eq_other(src, k):
    return [list(src), list(src) + [0], []][k]


def observe_ll(ll, op, src, keep):
    k = op[0]
    if k == "mk":
        keep["copy"] = deep_copy(ll); return 0
    if k == "cg":
        if "copy" not in keep:
            keep["copy"] = deep_copy(ll)
        return keep["copy"][op[1]]
    if k == "cl":
        if "copy" not in keep:
            keep["copy"] = deep_copy(ll)
        return keep["copy"].listify()
    if k == "mi":
        keep["it"] = iter(ll); return 0
    if k == "nx":
        if "it" not in keep:
            keep["it"] = iter(ll)
        return next(keep["it"], "stop")
    if k == "rest":
        if "it" not in keep:
            keep["it"] = iter(ll)
        return list(keep["it"])
    if k == "g":
        return ll[op[1]]
    if k == "s":
        return ll[slice(op[1], op[2], op[3])]
    if k == "len":
        return len(ll)
    if k == "iter":
        return list(ll)
    if k == "bool":
        return bool(ll)
    if k == "c":
        return int(op[1] in ll)
    if k == "e":
        return int(ll == eq_other(src, op[1]))
    if k == "n":
        return ll.count(op[1])
    if k == "rev":
        return ll.reversed()
    if k == "copy":
        return list(deep_copy(ll))
    if k == "copyg":
        return deep_copy(ll)[op[1]]
    if k == "lst":
        return ll.listify()
    raise ValueError(k)


def observe_list(l, op, src, keep):
    k = op[0]
    if k in ("mk", "mi"):
        if k == "mi":
            keep["it"] = iter(l)
        return 0
    if k == "cl":
        return list(l)
    if k == "nx":
        if "it" not in keep:
            keep["it"] = iter(l)
        return next(keep["it"], "stop")
    if k == "rest":
        if "it" not in keep:
            keep["it"] = iter(l)
        return list(keep["it"])
    if k in ("g", "copyg", "cg"):
        i = op[1]
        if i >= 0:
            return l[i % len(l)] if l else 0      # documented wrap-around
        return l[i]
    if k == "s":
        return l[slice(op[1], op[2], op[3])]
    if k == "len":
        return len(l)
    if k in ("iter", "copy", "lst"):
        return list(l)
    if k == "bool":
        return bool(l)
    if k == "c":
        return int(op[1] in l)
    if k == "e":
        return int(l == eq_other(src, op[1]))
    if k == "n":
        return l.count(op[1])
    if k == "rev":
        return l[::-1]
    raise ValueError(k)


_RETRIES = 0


def run_history(src, ops, limit=2):
    """(an observation on a list of <= 5 items takes microseconds; `limit` only guards against a hang. A machine that is busy
    elsewhere can stall a worker for more than 2 s, so a history with a timeout in it is run again with limit=60 before it is
    believed — see o_history)"""
    ll = LazyList(x for x in src)
    out = []
    keep = {}
    for op in ops:
        try:
            with alarm(limit):
                out.append(canon(observe_ll(ll, op, src, keep)))
        except Timeout:
            out.append("timeout")
        except Exception as ex:  # noqa: BLE001
            out.append("ERR " + type(ex).__name__)
    return out


def want_history(src, ops):
    out = []
    keep = {}
    l = list(src)
    for op in ops:
        try:
            out.append(canon(observe_list(l, op, src, keep)))
        except Exception as ex:  # noqa: BLE001
            out.append("ERR " + type(ex).__name__)
    return out


def o_history(inp):
    src, ops = inp["src"], inp["ops"]
    got, want = run_history(src, ops), want_history(src, ops)
    global _RETRIES
    if "timeout" in got and _RETRIES < 3:      # (per worker process: a change that makes everything hang is not retried for ever)
        _RETRIES += 1
        got = run_history(src, ops, limit=60)
    if got == want:
        # observations never change the sequence the lazy list denotes
        return True, "equal"
    i = next(k for k in range(len(ops)) if got[k] != want[k])
    return False, f"observation #{i} {ops[i]} after {ops[:i]} on {src}: lazy list gives {got[i]!r}, the list gives {want[i]!r}"


ORACLES = {"history": o_history}


def enc(src, ops):
    def e(x):
        return "N" if x is None else str(x)
    def m(op):
        # a kept copy is modelled by the same observations as a fresh one (its answers depend on the source only)
        return {"mk": ["nop"], "mi": ["nop"], "cl": ["copy"]}.get(op[0], ["copyg", op[1]] if op[0] == "cg" else op)
    return " ".join(map(str, src)) + "|" + " ".join(":".join(e(x) for x in m(op)) for op in ops)


def run(ctx, widen=False):
    thorough = ctx.tier == "thorough" or widen
    rng = ctx.rng
    sources = [list(t) for L in range(0, 4) for t in itertools.product([0, 1, 2], repeat=L)]
    cases = []
    maxlen = 3 if ctx.tier == "thorough" else 2
    for src in sources:
        for L in range(1, maxlen + 1):
            for h in itertools.product(OPS, repeat=L):
                cases.append({"src": src, "ops": list(h)})
    ctx.bump("exhaustive histories", len(cases))
    nr = 60000 if thorough else 6000
    for _ in range(nr):
        src = [rng.randint(-2, 3) for _ in range(rng.randint(0, 8))]
        ops = [rng.choice(OPS) if rng.random() < 0.7 else rng.choice([["g", rng.randint(-9, 12)], ["c", rng.randint(-2, 3)], ["n", rng.randint(-2, 3)],
               ["s", rng.choice([None, -3, -1, 0, 1, 2, 5]), rng.choice([None, -2, 0, 1, 3, 9]), rng.choice([None, 1, 2, -1, -2])]])
               for _ in range(rng.randint(1, 12))]
        cases.append({"src": src, "ops": ops})
    ctx.bump("random histories", nr)
    # interleavings of a kept view with forcing observations on the original
    FORCE = [["len"], ["lst"], ["iter"], ["g", -1], ["g", 5], ["bool"], ["c", 5], ["e", 0], ["rev"], ["copy"]]
    for _ in range(6000 if thorough else 1200):
        src = [rng.randint(-2, 3) for _ in range(rng.randint(1, 7))]
        h = [["g", rng.randint(0, len(src))]] if rng.random() < 0.8 else []
        view = rng.choice(["copy", "iter"])
        h.append(["mk"] if view == "copy" else ["mi"])
        for _ in range(rng.randint(0, 3)):
            h.append(["cg", rng.randint(0, 2)] if view == "copy" else ["nx"])
            if rng.random() < 0.6:
                h.append(rng.choice(FORCE))
        h.append(["cl"] if view == "copy" else ["rest"])
        h.append(rng.choice(OPS))
        cases.append({"src": src, "ops": h})
    ctx.bump("kept-view interleavings", 6000 if thorough else 1200)
    ctx.check_many("history", cases)
    ctx.exhaustive = True
    ctx.sample({"src": [1, 2, 3], "ops": [["len"], ["g", -1], ["bool"], ["len"]], "answers": run_history([1, 2, 3], [["len"], ["g", -1], ["bool"], ["len"]])})
    # correspondence with the Lean machine (a slice with step 0 raises in Python and is outside the model)
    sub = [c for c in cases if not any((op[0] == "s" and op[3] == 0) or op[0] in ("nx", "rest") for op in c["ops"])]
    if not thorough:
        sub = sub[::7] + sub[-3000:]
    lines = ["ll\t" + enc(c["src"], c["ops"]) for c in sub]
    exp = [" ; ".join(fmt(a) for a in run_history(c["src"], c["ops"], limit=60)) for c in sub]
    out = ctx.driver(lines)
    ctx.count("corr:lazylist-machine", len(lines))
    for c, e, o in zip(sub, exp, out):
        if e != o:
            ctx.disagree("lazylist-machine", c, e, o)


def fmt(a):
    if isinstance(a, list):
        return "[" + ",".join(str(x) for x in a) + "]"
    return str(a)


def search(ctx):
    if ctx.tier != "thorough":
        run(ctx, widen=True)
