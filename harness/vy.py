"""Implementation-side helpers: call the real Vyxal code and render results in the canonical
formats the Lean driver prints (Model/Show.lean)."""
import sys

sys.setrecursionlimit(20000)
from vyxal.lexer import tokenise, Token, TokenType  # noqa: E402
from vyxal.parse import parse  # noqa: E402
from vyxal import structure as S  # noqa: E402


def cps(s):
    return " ".join(str(ord(c)) for c in s)


def strS(s):
    return "<" + " ".join(str(ord(c)) for c in s) + ">"


PN = {None: "None", S.IfStatement: "If", S.ForLoop: "For", S.WhileLoop: "While", S.FunctionCall: "FnCall",
      S.Lambda: "Lambda", S.LambdaMap: "Map", S.LambdaFilter: "Filter", S.LambdaSort: "Sort",
      S.ListLiteral: "List", S.MonadicModifier: "Mon", S.DyadicModifier: "Dy", S.TriadicModifier: "Tri"}


def showL(l):
    return "[" + " ".join(showS(x) for x in l) + "]"


def showS(s):
    t = type(s)
    if t is S.GenericStatement:
        tok = s.branches[0][0]
        return f"(G {tok.name.value} {strS(tok.value)})"
    if t is S.BreakStatement:
        return f"(X {PN[s.parent_structure]})"
    if t is S.RecurseStatement:
        return f"(x {PN[s.parent_structure]})"
    if t is S.IfStatement:
        return "(If " + " ".join(showL(b) for b in s.branches) + ")"
    if t is S.ListLiteral:
        return "(List " + " ".join(showL(b) for b in s.items) + ")"
    if t is S.ForLoop:
        return "(For [" + " ".join(strS(n) for n in s.names) + "] " + showL(s.body) + ")"
    if t is S.WhileLoop:
        if s.condition and isinstance(s.condition[0], Token):
            return "(While default " + showL(s.body) + ")"
        return "(While " + showL(s.condition) + " " + showL(s.body) + ")"
    if t is S.FunctionCall:
        return f"(Call {strS(s.name)})"
    if t is S.FunctionDef:
        return "(Def " + strS(s.name) + " [" + " ".join(strS(p) for p in s.parameters) + "] " + showL(s.body) + ")"
    if t is S.Lambda:
        return f"(Lam {s.arity} " + showL(s.body) + ")"
    if isinstance(s, S.LambdaOp):
        return f"(LamOp {PN[t]} " + showL(s.lam.body) + ")"
    if t is S.MonadicModifier:
        return f"(Mon {strS(s.modifier)} {showS(s.function_A)})"
    if t is S.DyadicModifier:
        return f"(Dy {strS(s.modifier)} {showS(s.function_A)} {showS(s.function_B)})"
    if t is S.TriadicModifier:
        return f"(Tri {strS(s.modifier)} {showS(s.function_A)} {showS(s.function_B)} {showS(s.function_C)})"
    raise TypeError(t)


def show_tokens(toks):
    return " ".join(f"{t.name.value}:{','.join(str(ord(c)) for c in t.value)}" for t in toks)


def impl_parse_tokens(toks):
    """canonical rendering of parse(toks), errors mapped to the model's error enum"""
    try:
        return showL(parse(toks))
    except IndexError:
        return "ERR Vy.Err.index"
    except ValueError:
        return "ERR Vy.Err.arity"
    except AssertionError:
        return "ERR Vy.Err.assertion"


def impl_lexparse(src):
    return impl_parse_tokens(tokenise(src))


# ------------------------------------------------------------------ running programs in-process
import contextlib
import io
import vyxal.main as _M
from vyxal.context import Context
from vyxal.transpile import transpile


def run_code(py_code, inputs=(), ctx=None, stack=None):
    """exec generated Python the way `execute_vyxal` does (one namespace = globals of vyxal.main);
    returns (stack, ctx, printed text)"""
    ctx = ctx or Context()
    stack = [] if stack is None else stack
    ctx.inputs[0][0] = list(inputs)
    ctx.stacks.append(stack)
    ns = dict(vars(_M))
    ns["stack"] = stack
    ns["ctx"] = ctx
    buf = io.StringIO()
    with contextlib.redirect_stdout(buf):
        exec(py_code, ns)
    return stack, ctx, buf.getvalue()


def run_program(src, inputs=(), dict_compress=True, ctx=None):
    return run_code(transpile(src, dict_compress), inputs, ctx)
