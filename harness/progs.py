"""Generator of terminating 'core grammar' programs (C01, C12, C19): literals, stack/arithmetic elements, variables,
if/for/while, the four lambdas, named functions, list literals, modifiers, with break/recurse at legal positions."""

ATOMS = ["1", "2", "3", "0", "5", "+", "-", "×", ":", "_", "$", "n", "?", "→a", "←a", "→b", "←b", "`ab`", "W", "!", "D", "^", "¥", "£",
         "⟨1|2⟩", "⟨⟩", "d", "›", "‹", "N", "=", "<", "h", "t", "L", "J", "w", "ɾ", "ʁ", "∑", "Ṙ", "…", "₴"]
SAFE_MONADS = ["›", "‹", "d", "N", "w", ":_"]
SAFE_DYADS = ["+", "-", "×", "=", "<", ">", "J", "$_"]


def core_program(rng, depth=3, allow_break=True, allow_print=True):
    atoms = [a for a in ATOMS if allow_print or a not in ("…", "₴")]

    def atom():
        return rng.choice(atoms)

    def brk():
        if allow_break and rng.random() < 0.25:
            return rng.choice(["X", "X", "x"])
        return ""

    def seq(d, lo=0, hi=3):
        return "".join(item(d) for _ in range(rng.randint(lo, hi)))

    def item(d):
        if d <= 0 or rng.random() < 0.4:
            return atom()
        k = rng.randrange(12)
        if k == 0:   # if
            bs = [seq(d - 1) + brk() for _ in range(rng.randint(1, 3))]
            return rng.choice("012") + "[" + "|".join(bs) + "]"
        if k == 1:   # for
            var = rng.choice(["", "i|", "j|"])
            return rng.choice("0123") + "(" + var + seq(d - 1) + brk() + seq(d - 1, 0, 1) + ")"
        if k == 2:   # while with a variable counter; a break may appear, a continue may not (it never re-tests)
            b = seq(d - 1) + ("X" if allow_break and rng.random() < 0.3 else "") + seq(d - 1, 0, 1)
            if allow_break and rng.random() < 0.3:
                # a continue that runs for exactly one value of the counter: after it the OLD condition value is tested again
                # (the condition code is not re-run), so the next iteration starts without a fresh test
                b = seq(d - 1, 0, 2) + "←c" + rng.choice("12") + "=[" + seq(d - 1, 0, 1) + "x]" + seq(d - 1, 0, 2)
                return rng.choice("234") + "→c{←c" + rng.choice(["", ":…_", "d"]) + "|←c1-→c" + b + "}"
            return rng.choice("123") + "→c{←c|←c1-→c" + b + "}"
        if k == 3:   # lambda called at once
            ar = rng.choice(["", "1|", "2|", "0|"])
            return seq(d - 1, 1, 2) + "λ" + ar + seq(d - 1) + brk() + seq(d - 1, 0, 1) + ";†"
        if k == 4:   # map / filter / sort lambda over a small range
            return rng.choice("123") + "ɾ" + rng.choice("ƛ'µ") + seq(d - 1) + brk() + ";"
        if k == 5:   # function definition + call
            ps = rng.choice(["", ":1", ":2", ":a", ":a:b", ":1:a", ":*", ":0", ":*:1", ":a:*", ":0:a"])   # `*`: the call pops a count first
            return "@f" + ps + "|" + seq(d - 1) + brk() + ";" + seq(d - 1, 0, 2) + "@f;"
        if k == 6:   # list literal
            return "⟨" + "|".join(seq(d - 1) + brk() for _ in range(rng.randint(1, 3))) + "⟩"
        if k == 7:
            return seq(d - 1, 1, 2) + rng.choice(["v", "&", "~", "ß"]) + rng.choice(SAFE_MONADS + SAFE_DYADS)
        if k == 8:
            return "1 2 " + rng.choice(["₌", "₍"]) + rng.choice(SAFE_DYADS) + rng.choice(SAFE_DYADS)
        if k == 9:
            return "⟨1|2|3⟩" + rng.choice(["ƒ", "ɖ"]) + rng.choice(["+", "×", "-"])
        if k == 10:
            return seq(d - 1, 1, 2) + rng.choice(["⁽" + rng.choice(SAFE_MONADS), "‡" + rng.choice(SAFE_MONADS) * 2, "≬" + rng.choice(SAFE_MONADS) * 3]) + "†"
        return atom()

    return seq(depth, 1, 4)
