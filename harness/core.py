"""Shared machinery of every check: translator run, Lean build + audit, driver I/O, oracles,
known findings, evidence, outcome.  See DESIGN.md §2.

A property module `harness/props/<id>.py` provides
    THEOREMS      : optional explicit list of property theorem names (default: every `theorem` in Proofs/<id>.lean)
    ORACLES       : {name: fn(input) -> (ok: bool, detail)}   direct executable statements of the property
                    on the *implementation*; inputs are JSON values, so every violation replays exactly
    run(ctx)      : the correspondence streams and the always-on oracle sweep
    search(ctx)   : the widened failing-input search (run only when an obligation or correspondence broke)
"""
import contextlib
import fcntl
import hashlib
import importlib
import json
import os
import random
import re
import signal
import subprocess
import sys
import time
if hasattr(sys, "set_int_max_str_digits"):
    sys.set_int_max_str_digits(0)      # factorials and number compression print integers of many thousand digits

HERE = os.path.dirname(os.path.abspath(__file__))
VERIF = os.path.dirname(HERE)
LEAN = os.path.join(VERIF, "lean")
REPO = os.environ.get("VERIF_REPO", "/repo")
GUARD = "MATHCAT4_VYXAL2_VERIF"

ALLOWED_AXIOMS = {"propext", "Classical.choice", "Quot.sound"}
FORBIDDEN = re.compile(r"\bsorry\b|\badmit\b|^\s*axiom\s|native_decide|bv_decide|implemented_by|\bunsafe\s|maxHeartbeats\s+0\b")

TRUSTED_BASE = [
    "T0 Lean 4.33.0 kernel; axioms allowed in property theorems: propext, Classical.choice, Quot.sound (audited by #print axioms each run); no sorry/admit/axiom/native_decide/bv_decide/implemented_by/unsafe (grep each run)",
    "T1 translator tools/extract.py + tools/pyast2lean.py: Gen/*.lean are the tables/templates/inventories of the current source (cross-checked against the runtime dicts)",
    "T2 correspondence harness: generators, canonicalisers, line protocol to the compiled Lean driver",
]


class Timeout(BaseException):
    pass


@contextlib.contextmanager
def alarm(seconds):
    """Per-case wall clock guard for calls into the implementation (one-branch `{}` loops never end)."""
    def handler(signum, frame):
        raise Timeout()
    old = signal.signal(signal.SIGALRM, handler)
    signal.setitimer(signal.ITIMER_REAL, seconds, 0.25)   # keeps firing: the code under test may swallow one exception
    try:
        yield
    finally:
        signal.setitimer(signal.ITIMER_REAL, 0)
        signal.signal(signal.SIGALRM, old)


def strip_lean_comments(text):
    """Remove -- line comments, (nested) /- -/ block comments and the contents of string literals (data, not proof text)."""
    out, i, depth, n = [], 0, 0, len(text)
    while i < n:
        if text.startswith("/-", i):
            depth += 1
            i += 2
        elif depth and text.startswith("-/", i):
            depth -= 1
            i += 2
        elif depth:
            if text[i] == "\n":
                out.append("\n")
            i += 1
        elif text.startswith("--", i):
            while i < n and text[i] != "\n":
                i += 1
        elif text.startswith("'\"'", i) or text.startswith("'\\\"'", i):     # the character literals '"' and '\"'
            k = 3 if text.startswith("'\"'", i) else 4
            out.append(text[i:i + k])
            i += k
        elif text[i] == '"':                      # a string literal: keep the quotes and the line structure, blank the contents
            out.append('"')
            i += 1
            while i < n and text[i] != '"':
                if text[i] == "\\":
                    i += 1
                if i < n and text[i] == "\n":
                    out.append("\n")
                i += 1
            out.append('"')
            i += 1
        else:
            out.append(text[i])
            i += 1
    return "".join(out)


_POOL_FN = None


def _pool_chunk(items):
    out = []
    for inp in items:
        try:
            res = _POOL_FN(inp)
            out.append((inp, res[0], str(res[1])[:500], res[2] if len(res) > 2 else None))
        except Timeout:
            out.append((inp, True, "timeout", None))
        except Exception as ex:  # noqa: BLE001
            out.append((inp, False, f"oracle raised {type(ex).__name__}: {ex}", None))
    return out


class Ctx:
    def __init__(self, pid, tier, seed):
        self.pid = pid
        self.tier = tier
        self.seed = seed
        self.rng = random.Random(seed * 1000003 + int(pid[1:]))
        self.t0 = time.time()
        self.budget = float(os.environ.get("VERIF_BUDGET", 600 if tier == "quick" else 3300))
        self.evaluations = 0
        self.nontrivial = set()
        self.samples = []
        self.violations = []          # (key, what, replay)
        self.known_hits = []
        self.disagreements = []       # correspondence: (stream, case, impl, model)
        self.broken = []              # proof obligations that did not check
        self.streams = {}             # stream -> count
        self.dist = {}                # generator distribution
        self.notes = []
        self.obligations = []
        self.discharged = []
        self.axioms = {}
        self.disagreements_checked = 0
        self.exhaustive = False
        self.rule = ""
        self.mod = None
        self.known = load_known(pid)

    # ---------------------------------------------------------------- time
    def left(self):
        return self.budget - (time.time() - self.t0)

    # ---------------------------------------------------------------- counting
    def count(self, stream, n=1):
        self.streams[stream] = self.streams.get(stream, 0) + n
        self.evaluations += n

    def bump(self, key, n=1):
        self.dist[key] = self.dist.get(key, 0) + n

    def nontriv(self, key):
        if len(self.nontrivial) < 2_000_000:
            self.nontrivial.add(key if isinstance(key, (str, int, tuple)) else json.dumps(key, sort_keys=True, ensure_ascii=False))

    def sample(self, x, limit=12):
        if len(self.samples) < limit:
            self.samples.append(x)

    # ---------------------------------------------------------------- oracles
    def check(self, oracle, inp, nontrivial=True):
        """Evaluate a direct property oracle on the implementation. Returns ok."""
        fn = self.mod.ORACLES[oracle]
        self.count("oracle:" + oracle)
        cls = None
        try:
            res = fn(inp)
            ok, detail = res[0], res[1]
            if len(res) > 2:
                cls = res[2]          # (oracle, input) under which this failure is classified (a call-site finding)
        except Timeout:
            ok, detail = True, "timeout"
            self.bump("oracle-timeouts")
        if nontrivial:
            self.nontriv((oracle, json.dumps(inp, sort_keys=True, ensure_ascii=False)))
        if not ok:
            if cls:
                self.violation(cls[0], cls[1], f"{json.dumps(inp, ensure_ascii=False)}: {detail}")
            else:
                self.violation(oracle, inp, detail)
        return ok

    def check_many(self, oracle, inputs, procs=None):
        """ctx.check over many inputs; thorough tier fans out over worker processes (fork)."""
        inputs = list(inputs)
        if procs is None:
            procs = 16 if (self.tier == "thorough" and len(inputs) >= 2000) else (8 if len(inputs) >= 400 else 1)
        if procs <= 1:
            for inp in inputs:
                if len(self.violations) >= 50:
                    self.notes.append(f"{oracle}: sweep stopped after 50 violations")
                    break
                if self.left() < 45:
                    self.notes.append(f"{oracle}: sweep stopped early (time budget) ")
                    break
                self.check(oracle, inp)
            return
        import multiprocessing as mp
        global _POOL_FN
        _POOL_FN = self.mod.ORACLES[oracle]
        chunks = [inputs[i::procs * 8] for i in range(procs * 8)]
        with mp.get_context("fork").Pool(procs) as pool:
            for res in pool.imap_unordered(_pool_chunk, chunks):
                if len(self.violations) >= 50:
                    self.notes.append(f"{oracle}: sweep stopped after 50 violations")
                    pool.terminate()
                    break
                for inp, ok, detail, cls in res:
                    self.count("oracle:" + oracle)
                    self.nontriv((oracle, json.dumps(inp, sort_keys=True, ensure_ascii=False)))
                    if detail == "timeout":
                        self.bump("oracle-timeouts")
                    if not ok:
                        if cls:
                            self.violation(cls[0], cls[1], f"{json.dumps(inp, ensure_ascii=False)}: {detail}")
                        else:
                            self.violation(oracle, inp, detail)

    def violation(self, oracle, inp, detail):
        key = finding_key(oracle, inp)
        if key in self.known:
            if key not in [k for k, _ in self.known_hits]:
                self.known_hits.append((key, self.known[key]))
            return
        if len(self.violations) < 50:
            self.violations.append({"oracle": oracle, "input": inp, "detail": detail, "key": key})

    def disagree(self, stream, case, impl, model):
        if len(self.disagreements) < 50:
            self.disagreements.append({"stream": stream, "case": case, "impl": impl, "model": model})

    # ---------------------------------------------------------------- Lean
    def driver(self, lines):
        return run_driver(lines)


def finding_key(oracle, inp):
    return oracle + ":" + json.dumps(inp, sort_keys=True, ensure_ascii=False)


def load_known(pid):
    known = {}
    path = os.path.join(VERIF, "KNOWN_FINDINGS.txt")
    if not os.path.exists(path):
        return known
    for line in open(path, encoding="utf-8"):
        line = line.rstrip("\n")
        m = re.match(r"^known: property=(\S+) key=(\S+:.*?) :: (.*)$", line)
        if m and m.group(1) == pid:
            known[m.group(2)] = m.group(3)
    return known


# -------------------------------------------------------------------- build
@contextlib.contextmanager
def build_lock():
    os.makedirs(os.path.join(LEAN, ".lake"), exist_ok=True)
    with open(os.path.join(LEAN, ".lake", "verif.lock"), "w") as f:
        fcntl.flock(f, fcntl.LOCK_EX)
        try:
            yield
        finally:
            fcntl.flock(f, fcntl.LOCK_UN)


def run_extract():
    env = dict(os.environ, VERIF_REPO=REPO, PYTHONDONTWRITEBYTECODE="1")
    p = subprocess.run([sys.executable, os.path.join(VERIF, "tools", "extract.py")], capture_output=True,
                       text=True, env=env, timeout=300)
    return p.returncode, p.stdout + p.stderr


def lake_build(targets, timeout=1500):
    p = subprocess.run(["lake", "build"] + targets, cwd=LEAN, capture_output=True, text=True, timeout=timeout)
    return p.returncode, p.stdout + p.stderr


def enclosing_decl(path, line):
    """name of the theorem/def enclosing a source line"""
    try:
        lines = open(os.path.join(LEAN, path), encoding="utf-8").read().split("\n")
    except OSError:
        return None
    for i in range(min(line, len(lines)) - 1, -1, -1):
        m = re.match(r"^\s*(?:private\s+|protected\s+)?(theorem|def|lemma|example|instance|abbrev)\s+([^\s:(\[{]+)?", lines[i])
        if m:
            return (m.group(2) or "example") + f" ({path}:{i + 1})"
    return f"{path}:{line}"


def parse_build_errors(out):
    broken = []
    for m in re.finditer(r"^error: (\S+?\.lean):(\d+):(\d+): (.*)$", out, re.M):
        broken.append({"decl": enclosing_decl(m.group(1), int(m.group(2))), "file": m.group(1),
                       "line": int(m.group(2)), "message": m.group(4)[:300]})
    if not broken and re.search(r"^error", out, re.M):
        broken.append({"decl": "build", "file": "", "line": 0, "message": out[-600:]})
    return broken


def property_theorems(pid):
    path = os.path.join(LEAN, "VyxalModel", "Proofs", pid + ".lean")
    text = strip_lean_comments(open(path, encoding="utf-8").read())
    names = []
    ns = []
    for line in text.split("\n"):
        m = re.match(r"^namespace\s+(\S+)", line)
        if m:
            ns.append(m.group(1))
        m = re.match(r"^end\s+(\S+)", line)
        if m and ns and ns[-1] == m.group(1):
            ns.pop()
        m = re.match(r"^theorem\s+([^\s:(\[{]+)", line)
        if m:
            names.append(".".join(ns + [m.group(1)]))
    return names


def lean_audit(pid, names):
    """#print axioms on every property theorem; returns {name: [axioms]} (missing name = not in the build)"""
    d = os.path.join(LEAN, ".lake", "audit")
    os.makedirs(d, exist_ok=True)
    f = os.path.join(d, f"{pid}_{os.getpid()}.lean")
    with open(f, "w", encoding="utf-8") as fh:
        fh.write(f"import VyxalModel.Proofs.{pid}\n")
        for n in names:
            fh.write(f"#print axioms {n}\n")
    p = subprocess.run(["lake", "env", "lean", f], cwd=LEAN, capture_output=True, text=True, timeout=600)
    os.unlink(f)
    out = p.stdout + p.stderr
    res = {}
    for m in re.finditer(r"'(\S+)' depends on axioms: \[([^\]]*)\]", out):
        res[m.group(1)] = [a.strip() for a in m.group(2).replace("\n", " ").split(",") if a.strip()]
    for m in re.finditer(r"'(\S+)' does not depend on any axioms", out):
        res[m.group(1)] = []
    return res, out


def grep_forbidden():
    hits = []
    root = os.path.join(LEAN, "VyxalModel")
    files = [os.path.join(dp, f) for dp, _, fs in os.walk(root) for f in fs if f.endswith(".lean")]
    files.append(os.path.join(LEAN, "Driver.lean"))
    for path in files:
        if not os.path.exists(path):
            continue
        text = strip_lean_comments(open(path, encoding="utf-8").read())
        for i, line in enumerate(text.split("\n")):
            if FORBIDDEN.search(line):
                hits.append(f"{os.path.relpath(path, LEAN)}:{i + 1}: {line.strip()[:120]}")
    return hits


def run_driver(lines, timeout=900):
    """Feed request lines to the compiled Lean driver; returns the list of answer lines."""
    exe = os.path.join(LEAN, ".lake", "build", "bin", "vyxdrv")
    data = "".join(l + "\n" for l in lines)
    p = subprocess.run([exe], input=data, capture_output=True, text=True, timeout=timeout, encoding="utf-8")
    if p.returncode != 0:
        raise RuntimeError("driver failed: " + p.stderr[-500:])
    out = p.stdout.split("\n")
    if out and out[-1] == "":
        out.pop()
    if len(out) != len(lines):
        raise RuntimeError(f"driver answered {len(out)} lines for {len(lines)} requests")
    return out


# -------------------------------------------------------------------- outcome
def write_replay(pid, obj):
    d = os.path.join(VERIF, "replays")
    os.makedirs(d, exist_ok=True)
    h = hashlib.sha1(json.dumps(obj, sort_keys=True, ensure_ascii=False).encode()).hexdigest()[:12]
    path = os.path.join(d, f"{pid}-{h}.json")
    with open(path, "w", encoding="utf-8") as f:
        json.dump(obj, f, ensure_ascii=False, indent=1)
    return os.path.relpath(path, VERIF)


def write_evidence(ctx, violations_n, extra=None):
    mod = ctx.mod
    cov = {
        "obligations": len(ctx.obligations),
        "discharged": len(ctx.discharged),
        "checker_cmd": f"tools/extract.py && cd lean && lake build VyxalModel.Proofs.{ctx.pid} vyxdrv && lake env lean <#print axioms of each obligation>" + (" && lake env leanchecker VyxalModel.Proofs.%s" % ctx.pid if ctx.tier == "thorough" else ""),
        "trusted_base": TRUSTED_BASE + list(getattr(mod, "TRUSTED", [])),
        "theorems": ctx.obligations,
        "axioms": ctx.axioms,
        "broken_obligations": ctx.broken,
        "evaluations": ctx.evaluations,
        "distinct_nontrivial": len(ctx.nontrivial),
        "rule": getattr(mod, "RULE", ctx.rule),
        "samples": ctx.samples or ["(no cases)"],
        "streams": ctx.streams,
        "generator_distribution": ctx.dist,
        "disagreements_checked": ctx.disagreements_checked,
        "correspondence_disagreements": len(ctx.disagreements),
        "known_findings_hit": [k for k, _ in ctx.known_hits],
        "exhaustive": bool(ctx.exhaustive),
        "notes": ctx.notes,
    }
    if extra:
        cov.update(extra)
    ev = {
        "property_id": ctx.pid,
        "tier": ctx.tier,
        "seed": ctx.seed,
        "level": "proof",
        "coverage": cov,
        "assumptions": list(getattr(mod, "ASSUMPTIONS", [])),
        "wall_s": round(time.time() - ctx.t0, 2),
        "violations": violations_n,
    }
    d = os.path.join(VERIF, "evidence")
    os.makedirs(d, exist_ok=True)
    tmp = os.path.join(d, f".{ctx.pid}.{os.getpid()}.tmp")
    with open(tmp, "w", encoding="utf-8") as f:
        json.dump(ev, f, ensure_ascii=False, indent=1)
    os.replace(tmp, os.path.join(d, ctx.pid + ".json"))


def setup_repo_import():
    import warnings
    warnings.filterwarnings("ignore", category=SyntaxWarning)
    warnings.filterwarnings("ignore", category=DeprecationWarning)
    warnings.simplefilter("ignore")
    if REPO not in sys.path:
        sys.path.insert(0, REPO)
    os.environ[GUARD] = "1"
    sys.dont_write_bytecode = True


def main(argv):
    import argparse
    ap = argparse.ArgumentParser()
    ap.add_argument("pid")
    ap.add_argument("--tier", default=os.environ.get("VERIF_TIER", "quick"), choices=["quick", "thorough"])
    ap.add_argument("--replay")
    ap.add_argument("--no-build", action="store_true", help="skip extract/lake (debugging only)")
    args = ap.parse_args(argv)
    pid = args.pid
    seed = int(os.environ.get("VERIF_SEED", "0") or 0)
    setup_repo_import()
    sys.path.insert(0, HERE)
    mod = importlib.import_module("props." + pid)

    if args.replay:
        data = json.load(open(args.replay, encoding="utf-8"))
        if "oracle" not in data:
            print("replay file names broken obligations / correspondence only:")
            print(json.dumps(data, ensure_ascii=False, indent=1)[:3000])
            return 1
        ok, detail = mod.ORACLES[data["oracle"]](data["input"])
        print("oracle", data["oracle"], "input", json.dumps(data["input"], ensure_ascii=False))
        print("holds" if ok else "FAILS", "-", detail)
        return 0 if ok else 1

    ctx = Ctx(pid, args.tier, seed)
    ctx.mod = mod
    try:
        return run_check(ctx, args)
    except subprocess.TimeoutExpired as ex:
        print(f"check machinery timed out: {ex}")
        return 2


def run_check(ctx, args):
    pid, mod = ctx.pid, ctx.mod
    # ---------------- layer A: regenerate, build, audit
    names = []
    if not args.no_build:
        with build_lock():
            rc, out = run_extract()
            if rc != 0:
                ctx.broken.append({"decl": "translator", "file": "tools/extract.py", "line": 0, "message": out[-800:]})
            gen = json.load(open(os.path.join(HERE, "gen.json"), encoding="utf-8"))
            for pr in gen.get("problems", []):
                ctx.notes.append("translator: " + pr)
            rc, out = lake_build([f"VyxalModel.Proofs.{pid}", "vyxdrv"])
            build_out = out
            if rc != 0:
                ctx.broken += parse_build_errors(out)
            # the driver must exist for the correspondence; if only a proof module failed, build it alone
            if rc != 0:
                rc2, out2 = lake_build(["vyxdrv"])
                if rc2 != 0:
                    ctx.notes.append("driver build failed")
        names = list(getattr(mod, "THEOREMS", None) or property_theorems(pid))
        ctx.obligations = names
        broken_files = {b["file"] for b in ctx.broken}
        if not any(f.endswith(f"Proofs/{pid}.lean") or "Gen/" in f or "Model/" in f or "Lemmas/" in f for f in broken_files) or True:
            try:
                ax, aout = lean_audit(pid, names)
            except subprocess.TimeoutExpired:
                raise
            missing = []
            for n in names:
                if n in ax and set(ax[n]) <= ALLOWED_AXIOMS:
                    ctx.discharged.append(n)
                    ctx.axioms[n] = ax[n]
                elif n in ax:
                    ctx.axioms[n] = ax[n]
                    ctx.broken.append({"decl": n, "file": f"VyxalModel/Proofs/{pid}.lean", "line": 0,
                                       "message": "axioms outside the allowed set: " + ", ".join(ax[n])})
                else:
                    missing.append(n)
            if missing and not ctx.broken:
                ctx.broken.append({"decl": ", ".join(missing), "file": f"VyxalModel/Proofs/{pid}.lean", "line": 0,
                                   "message": "theorems not available in the build: " + aout[-300:]})
            elif missing:
                ctx.notes.append("not available because the module did not build: " + ", ".join(missing))
        hits = grep_forbidden()
        for h in hits:
            ctx.broken.append({"decl": "forbidden-token", "file": h, "line": 0, "message": h})
        if ctx.tier == "thorough" and not ctx.broken:
            p = subprocess.run(["lake", "env", "leanchecker", f"VyxalModel.Proofs.{pid}"], cwd=LEAN,
                               capture_output=True, text=True, timeout=1800)
            ctx.notes.append("leanchecker exit %d" % p.returncode)
            if p.returncode != 0:
                ctx.broken.append({"decl": "leanchecker", "file": "", "line": 0, "message": (p.stdout + p.stderr)[-400:]})

    # ---------------- layer B: correspondence + always-on oracles
    ctx.gen = json.load(open(os.path.join(HERE, "gen.json"), encoding="utf-8"))
    import warnings
    warnings.resetwarnings()
    warnings.simplefilter("ignore")      # sympy re-enables its own deprecation warnings at import
    try:
        mod.run(ctx)
    except Exception as ex:  # noqa: BLE001
        # the implementation did something the harness's own plumbing (not an oracle) could not digest — e.g. a helper that
        # used to return now raises outside every guarded call.  That is a broken correspondence, not a crash of the check:
        # record it, keep what the oracles have already found, and let the search look for a failing input.
        import traceback
        tb = traceback.format_exc()
        ctx.notes.append("property module raised: " + tb[-1500:])
        ctx.disagreements.append({"stream": "harness", "case": type(ex).__name__ + ": " + str(ex)[:300],
                                  "impl": tb[-600:], "model": "the harness expected this call to return"})

    # ---------------- layer C: widened search when A or B broke
    # VERIF_FORCE_SEARCH=1 runs the widened search although nothing broke — used to confirm that the search itself is quiet on the
    # unchanged tree (a replay it produces must fail only with a change)
    if (ctx.broken or ctx.disagreements or os.environ.get("VERIF_FORCE_SEARCH") == "1") and not ctx.violations and hasattr(mod, "search"):
        ctx.notes.append("widened failing-input search ran")
        try:
            mod.search(ctx)
        except Exception as ex:  # noqa: BLE001
            import traceback
            ctx.notes.append("search raised: " + traceback.format_exc()[-1500:])
    ctx.disagreements_checked = len(ctx.disagreements)

    # ---------------- outcome
    for key, what in ctx.known_hits:
        print(f"KNOWN-FINDING: property={pid} {what} [{key}]")
    rc = 0
    if ctx.violations:
        v = ctx.violations[0]
        path = write_replay(pid, {"property": pid, "oracle": v["oracle"], "input": v["input"], "detail": v["detail"],
                                  "seed": ctx.seed, "tier": ctx.tier,
                                  "replay_cmd": f"./check {pid} --replay <this file>",
                                  "other_violations": [x["key"] for x in ctx.violations[1:10]],
                                  "broken_obligations": ctx.broken[:10],
                                  "correspondence": ctx.disagreements[:5]})
        print(f"VIOLATION property={pid} replay={path}")
        print("  failing input:", json.dumps(v["input"], ensure_ascii=False)[:400], "--", str(v["detail"])[:400])
        rc = 1
    elif ctx.broken or ctx.disagreements:
        path = write_replay(pid, {"property": pid, "broken_obligations": ctx.broken[:20],
                                  "correspondence": ctx.disagreements[:10], "seed": ctx.seed, "tier": ctx.tier,
                                  "note": "a proof obligation or the model/implementation correspondence no longer checks; "
                                          "the failing-input search found no input on which the property itself fails"})
        print(f"VIOLATION property={pid} replay={path} no-failing-input-found")
        for b in ctx.broken[:5]:
            print("  broken obligation:", b["decl"], "-", b["message"][:200])
        for d in ctx.disagreements[:3]:
            print("  correspondence:", d["stream"], json.dumps(d["case"], ensure_ascii=False)[:200], "impl=", str(d["impl"])[:150], "model=", str(d["model"])[:150])
        rc = 1
    write_evidence(ctx, len(ctx.violations) + (1 if rc and not ctx.violations else 0))
    print(f"{pid} {ctx.tier}: obligations {len(ctx.discharged)}/{len(ctx.obligations)} discharged, "
          f"{ctx.evaluations} evaluations, {len(ctx.nontrivial)} distinct non-trivial, "
          f"{len(ctx.disagreements)} disagreements, {len(ctx.violations)} violations, "
          f"{len(ctx.known_hits)} known findings, {time.time() - ctx.t0:.1f}s")
    return rc


if __name__ == "__main__":
    sys.exit(main(sys.argv[1:]))
