import VyxalModel.Proofs.C20
import VyxalModel.Proofs.C03
import VyxalModel.Proofs.C04
import VyxalModel.Proofs.C05
