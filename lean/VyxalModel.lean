import VyxalModel.Proofs.C20
