import VyxalModel.Proofs.C20
import VyxalModel.Proofs.C03
import VyxalModel.Proofs.C04
import VyxalModel.Proofs.C05
import VyxalModel.Proofs.C06
import VyxalModel.Proofs.C02
import VyxalModel.Proofs.C12
import VyxalModel.Proofs.C18
