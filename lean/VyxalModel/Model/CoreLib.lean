/-!
# Values and the first-order element library of the closed core (C01)

`Val` is the value type shared by the reference semantics (`RefSem`) and the semantics of the generated
Python (`PySem`): integers, lists (eager and lazy lists are one constructor — C13 / C14 are the properties
that justify it), function values as *references into a closure table*, and Python's `None`.

`elemFn name args` is the meaning of the element function `vyxal.elements.<name>` on integers and lists of
the closed core.  Both interpreters take element meanings from here, so the compiler-correctness theorem is
*parametric* in this table: nothing in its proof looks inside `elemFn`.  The table itself is tied to the real
functions by the element stream of the C01 check.  Anything outside the core answers `unmodelled`.
-/
namespace Vy.Sem

inductive Val
  | int (i : Int)
  | list (xs : List Val)
  | fn (id : Nat)
  | none
  deriving Repr, Inhabited

inductive SErr
  | fuel                      -- the interpreter ran out of fuel
  | unmodelled (what : String)  -- outside the closed core (strings, rationals, closures over locals …)
  | raised (cls : String)     -- the real code raises here
  | stuck (what : String)     -- PySem only: Python the templates never produce
  deriving Repr, Inhabited

abbrev R := Except SErr

mutual
def Val.beq : Val → Val → Bool
  | .int a, .int b => a == b
  | .list a, .list b => Val.beqL a b
  | .fn a, .fn b => a == b
  | .none, .none => true
  | _, _ => false
def Val.beqL : List Val → List Val → Bool
  | [], [] => true
  | a :: as, b :: bs => Val.beq a b && Val.beqL as bs
  | _, _ => false
end

instance : BEq Val := ⟨Val.beq⟩

def isFnVal : Val → Bool
  | .fn _ => true
  | _ => false

/-! ### text -/

def intText (i : Int) : String := toString i

mutual
/-- `vy_str` / `vy_repr` on integers and lists (`⟨ 1 | 2 ⟩`, empty `⟨  ⟩`) -/
def showVal : Val → String
  | .int i => intText i
  | .list xs => "⟨ " ++ showVals xs ++ " ⟩"
  | .fn id => s!"<fn {id}>"
  | .none => "None"
def showVals : List Val → String
  | [] => ""
  | [x] => showVal x
  | x :: y :: r => showVal x ++ " | " ++ showVals (y :: r)
end

/-! ### truth, ranges, digits -/

/-- `boolify` followed by Python's truth test: a number is true iff non-zero, a list iff non-empty,
    a function always -/
def truthy : Val → Bool
  | .int i => i != 0
  | .list xs => !xs.isEmpty
  | .fn _ => true
  | .none => false

/-- `range(a, b)` as values -/
def rangeV (a b : Int) : List Val :=
  (List.range (b - a).toNat).map (fun (k : Nat) => Val.int (a + k))

def digitsOf (i : Int) : List Val := (Nat.toDigits 10 i.natAbs).map (fun c => Val.int (c.toNat - 48))

def natOfDigitVals (ds : List Val) : Option Nat :=
  ds.foldl (fun acc d => match acc, d with
    | some a, .int k => if 0 ≤ k ∧ k ≤ 9 then some (10 * a + k.toNat) else Option.none
    | _, _ => Option.none) (some 0)

/-! ### the vectorising skeleton (C08's `d2` / `d1`, here with errors) -/

def zipFill : List Val → List Val → List (Val × Val)
  | [], [] => []
  | x :: xs, [] => (x, .int 0) :: zipFill xs []
  | [], y :: ys => (.int 0, y) :: zipFill [] ys
  | x :: xs, y :: ys => (x, y) :: zipFill xs ys

def mapR {α β} (f : α → R β) : List α → R (List β)
  | [] => .ok []
  | a :: as => do let b ← f a; let bs ← mapR f as; pure (b :: bs)

def dyadV : Nat → (Int → Int → R Val) → Val → Val → R Val
  | 0, _, _, _ => .error .fuel
  | _ + 1, op, .int a, .int b => op a b
  | n + 1, op, .int a, .list ys => do let r ← mapR (fun y => dyadV n op (.int a) y) ys; pure (.list r)
  | n + 1, op, .list xs, .int b => do let r ← mapR (fun x => dyadV n op x (.int b)) xs; pure (.list r)
  | n + 1, op, .list xs, .list ys => do let r ← mapR (fun p => dyadV n op p.1 p.2) (zipFill xs ys); pure (.list r)
  | _ + 1, _, _, _ => .error (.unmodelled "dyad on a function value")

def monadV : Nat → (Int → R Val) → Val → R Val
  | 0, _, _ => .error .fuel
  | _ + 1, op, .int a => op a
  | n + 1, op, .list xs => do let r ← mapR (monadV n op) xs; pure (.list r)
  | _ + 1, _, _ => .error (.unmodelled "monad on a function value")

mutual
def depthV : Val → Nat
  | .list xs => depthVL xs + 1
  | _ => 0
def depthVL : List Val → Nat
  | [] => 0
  | x :: xs => max (depthV x) (depthVL xs)
end

/-- an element-wise result over a list is a lazy list: an error inside it is raised only if and when the item is
    forced, which the eager model cannot place — such runs are outside the core -/
def deferErr (scalar : Bool) (r : R Val) : R Val :=
  match r with
  | .error (.raised c) => if scalar then .error (.raised c) else .error (.unmodelled "error inside a lazy list")
  | r => r
/-- the same for the lazily consumed results of map / filter / vectorise / scan -/
def lazyErr {α} (r : R α) : R α :=
  match r with
  | .error (.raised _) => .error (.unmodelled "error inside a lazy list")
  | r => r
def isScalar : Val → Bool
  | .list _ => false
  | _ => true
def dy (op : Int → Int → R Val) (a b : Val) : R Val :=
  deferErr (isScalar a && isScalar b) (dyadV (depthV a + depthV b + 2) op a b)
def mo (op : Int → R Val) (a : Val) : R Val := deferErr (isScalar a) (monadV (depthV a + 2) op a)
def okI (i : Int) : R Val := .ok (.int i)
def b2i (b : Bool) : Int := if b then 1 else 0

/-- `foldl(add, …)` of `vy_sum`: the empty list gives 0 -/
def sumV : List Val → R Val
  | [] => okI 0
  | x :: xs => xs.foldlM (fun acc y => dy (fun a b => okI (a + b)) acc y) x

mutual
def flattenV : Val → List Val
  | .list xs => flattenVL xs
  | v => [v]
def flattenVL : List Val → List Val
  | [] => []
  | x :: xs => flattenV x ++ flattenVL xs
end

def allInts : List Val → Option (List Int)
  | [] => some []
  | .int i :: r => (allInts r).map (i :: ·)
  | _ => Option.none

def insertSorted (i : Int) : List Int → List Int
  | [] => [i]
  | j :: r => if i ≤ j then i :: j :: r else j :: insertSorted i r

def sortInts (l : List Int) : List Int := l.foldr insertSorted []

def uniqV : List Val → List Val → List Val
  | _, [] => []
  | seen, x :: xs => if seen.any (· == x) then uniqV seen xs else x :: uniqV (x :: seen) xs

/-- ranges are lazy in the implementation; the eager model refuses long ones instead of building them -/
def rangeR (a b : Int) : R Val :=
  if b - a > 2000 then .error (.unmodelled "long range") else .ok (.list (rangeV a b))

/-- the first-order element functions of the closed core, by the name of the Python function -/
def elemFn (name : String) (args : List Val) : R Val :=
  match name, args with
  | "add", [a, b] => dy (fun x y => okI (x + y)) a b
  | "subtract", [a, b] => dy (fun x y => okI (x - y)) a b
  | "multiply", [a, b] => dy (fun x y => okI (x * y)) a b
  | "less_than", [a, b] => dy (fun x y => okI (b2i (x < y))) a b
  | "greater_than", [a, b] => dy (fun x y => okI (b2i (x > y))) a b
  | "equals", [a, b] => dy (fun x y => okI (b2i (x == y))) a b
  | "modulo", [a, b] => dy (fun x y => if y = 0 then .error (.raised "ZeroDivisionError") else okI (Int.fmod x y)) a b
  | "increment", [a] => mo (fun x => okI (x + 1)) a
  | "decrement", [a] => mo (fun x => okI (x - 1)) a
  | "negate", [a] => mo (fun x => okI (-x)) a
  | "is_even", [.int x] => okI (b2i (x % 2 == 0))
  | "parity", [.int x] => okI (Int.fmod x 2)
  | "vy_abs", [a] => mo (fun x => okI (Int.ofNat x.natAbs)) a
  | "inclusive_one_range", [a] => mo (fun x => rangeR 1 (x + 1)) a
  | "exclusive_zero_range", [a] => mo (fun x => rangeR 0 x) a
  | "exclusive_one_range", [a] => mo (fun x => rangeR 1 x) a
  | "length", [.list xs] => okI xs.length
  | "length", [.int i] => okI (intText i).length
  | "head", [.list (x :: _)] => .ok x
  | "head", [.list []] => okI 0
  | "tail", [.list xs] => (match xs.getLast? with | some x => .ok x | Option.none => okI 0)
  | "reverse", [.list xs] => .ok (.list xs.reverse)
  | "merge", [.list xs, .list ys] => .ok (.list (xs ++ ys))
  | "merge", [.list xs, .int b] => .ok (.list (xs ++ [.int b]))
  | "merge", [.int a, .list ys] => .ok (.list (.int a :: ys))
  | "vy_sum", [.list xs] => sumV xs
  | "vy_sum", [.int i] => if i < 0 then .error (.unmodelled "digits of a negative number") else sumV (digitsOf i)
  | "deep_flatten", [.list xs] => .ok (.list (flattenVL xs))
  | "uniquify", [.list xs] => .ok (.list (uniqV [] xs))
  | "vy_sort", [.list xs] =>
      (match allInts xs with
       | some is => .ok (.list ((sortInts is).map Val.int))
       | Option.none => .error (.unmodelled "sort of a nested list"))
  | "monadic_maximum", [.list xs] =>
      (match allInts xs with
       | some (i :: is) => okI (is.foldl max i)
       | some [] => .ok (.list [])
       | Option.none => .error (.unmodelled "maximum of a nested list"))
  | "monadic_minimum", [.list xs] =>
      (match allInts xs with
       | some (i :: is) => okI (is.foldl min i)
       | some [] => .ok (.list [])
       | Option.none => .error (.unmodelled "minimum of a nested list"))
  | "all_true", [.list xs] => okI (b2i (xs.all truthy))
  | "any_true", [.list xs] => okI (b2i (xs.any truthy))
  | "contains", [.list xs, b] => okI (b2i (xs.any (· == b)))
  | "count_item", [.list xs, b] => okI ((xs.filter (· == b)).length)
  | "prepend", [.list xs, .int b] => .ok (.list (.int b :: xs))
  | _, _ => .error (.unmodelled ("element function " ++ name))

end Vy.Sem
