/-!
# `helpers.pop(stack, count, ctx)` — the one routine through which every element reaches the stack

```python
popped_items = []
for _ in range(count):
    if iterable_object: popped_items.append(iterable_object.pop())
    else:               popped_items.append(get_input(ctx))
if ctx.retain_popped:
    for item in popped_items[::-1]: iterable_object.append(item)
if ctx.reverse_flag: popped_items = popped_items[::-1]
```
The stack is a list with its top at the END.  `get_input` is a parameter here (`inp k` = the k-th value it delivers from now on);
the cursor arithmetic behind it is the subject of C11.
-/
namespace PopH

/-- the `for _ in range(count)` loop: popped items in pop order, what is left of the stack, how many inputs were read -/
def popLoop {α : Type} (inp : Nat → α) : Nat → List α → Nat → List α × List α × Nat
  | 0, st, r => ([], st, r)
  | n + 1, st, r =>
    match st.getLast? with
    | some x => let res := popLoop inp n st.dropLast r; (x :: res.1, res.2.1, res.2.2)
    | none => let res := popLoop inp n [] (r + 1); (inp r :: res.1, res.2.1, res.2.2)

structure Res (α : Type) where
  popped : List α
  stack : List α
  reads : Nat

def pop {α : Type} (inp : Nat → α) (retain reverse : Bool) (count : Nat) (st : List α) : Res α :=
  let r := popLoop inp count st 0
  let st' := if retain then r.2.1 ++ r.1.reverse else r.2.1
  ⟨if reverse then r.1.reverse else r.1, st', r.2.2⟩

end PopH
