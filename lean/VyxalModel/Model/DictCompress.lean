import VyxalModel.Model.Codec
import VyxalModel.Model.Strings
/-! `øD` (`elements.optimal_compress`) and `dictionary.word_index`: the dynamic programme that writes a string with
    dictionary codes where that is shorter. -/
namespace Vy

/-- `dictionary.lookup[word]`: the *last* index of the word (`lookup[word] = index` runs in enumeration order) -/
def lastIdxGo (w : Str) : List Str → Nat → Option Nat → Option Nat
  | [], _, acc => acc
  | x :: xs, i, acc => lastIdxGo w xs (i + 1) (if x = w then some i else acc)

def lastIdx (contents : List Str) (w : Str) : Option Nat := lastIdxGo w contents 0 none

/-- `dictionary.word_index`: two characters of the compression alphabet (`λ` in front of a single digit), or nothing -/
def wordCode (comp : Str) (contents : List Str) (w : Str) : Option Str :=
  (lastIdx contents w).map (fun i => if (toAlphabet comp i).length = 1 then 955 :: toAlphabet comp i else toAlphabet comp i)

/-- the first `left` in `range(left, left + k)` whose slice `lhs[left:ind]` is a dictionary word, with its code -/
def firstWord (comp : Str) (contents : List Str) (lhs : Str) (ind : Nat) : Nat → Nat → Option (Nat × Str)
  | 0, _ => none
  | k + 1, left =>
    match wordCode comp contents ((lhs.drop left).take (ind - left)) with
    | some code => some (left, code)
    | none => firstWord comp contents lhs ind k (left + 1)

/-- `min([a, b], key=len)`: the first of the two unless the second is strictly shorter -/
def minLen (a b : Str) : Str := if a.length ≤ b.length then a else b

/-- one round of the outer loop: `DP[ind]` from `DP[0 .. ind-1]` -/
def dpCell (comp : Str) (contents : List Str) (maxLen : Nat) (lhs : Str) (DP : List Str) (ind : Nat) : Str :=
  let lo := ind - maxLen
  let init : Str := List.replicate (lhs.length + 1) 32
  let c1 := match firstWord comp contents lhs ind ((ind - 1) - lo) lo with
    | some (left, code) => minLen init (DP.getD left [] ++ code)
    | none => init
  minLen c1 (DP.getD (ind - 1) [] ++ [lhs.getD (ind - 1) 0])

/-- `DP[0 .. k]` -/
def dpTable (comp : Str) (contents : List Str) (maxLen : Nat) (lhs : Str) : Nat → List Str
  | 0 => [[]]
  | k + 1 => dpTable comp contents maxLen lhs k ++ [dpCell comp contents maxLen lhs (dpTable comp contents maxLen lhs k) (k + 1)]

/-- the body of the back-quoted string `øD` returns -/
def optimalCompressBody (comp : Str) (contents : List Str) (maxLen : Nat) (lhs : Str) : Str :=
  (dpTable comp contents maxLen lhs lhs.length).getD lhs.length []

def optimalCompress (comp : Str) (contents : List Str) (maxLen : Nat) (lhs : Str) : Str :=
  96 :: optimalCompressBody comp contents maxLen lhs ++ [96]

end Vy
