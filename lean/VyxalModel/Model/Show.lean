import VyxalModel.Model.Lexer
/-! Canonical one-line renderings used by the driver (line protocol with the Python harness). -/
namespace Vy

def kindOf (s : String) : TokKind :=
  match s with
  | "string" => .string | "number" => .number | "character" => .character | "general" => .general
  | "compressed_number" => .cnum | "compressed_string" => .cstr | "variable_get" => .vget
  | "variable_set" => .vset | _ => .cpnum

def kindName : TokKind → String
  | .string => "string" | .number => "number" | .character => "character" | .general => "general"
  | .cnum => "compressed_number" | .cstr => "compressed_string" | .vget => "variable_get"
  | .vset => "variable_set" | .cpnum => "codepage_number"

def parentName : Parent → String
  | .none => "None" | .ifS => "If" | .forS => "For" | .whileS => "While" | .fnCall => "FnCall"
  | .lam => "Lambda" | .lmap => "Map" | .lfilter => "Filter" | .lsort => "Sort" | .listS => "List"
  | .mon => "Mon" | .dy => "Dy" | .tri => "Tri"

def strS (s : Str) : String := "<" ++ " ".intercalate (s.map toString) ++ ">"

mutual
partial def showS : Structure → String
  | .generic t => s!"(G {kindName t.kind} {strS t.value})"
  | .brk p => s!"(X {parentName p})"
  | .recurse p => s!"(x {parentName p})"
  | .ifS bs => "(If " ++ " ".intercalate (bs.map showL) ++ ")"
  | .forS ns b => "(For [" ++ " ".intercalate (ns.map strS) ++ "] " ++ showL b ++ ")"
  | .whileS none b => "(While default " ++ showL b ++ ")"
  | .whileS (some c) b => "(While " ++ showL c ++ " " ++ showL b ++ ")"
  | .fnCall n => s!"(Call {strS n})"
  | .fnDef n ps b => "(Def " ++ strS n ++ " [" ++ " ".intercalate (ps.map strS) ++ "] " ++ showL b ++ ")"
  | .lam none b => "(Lam default " ++ showL b ++ ")"
  | .lam (some a) b => s!"(Lam {a} " ++ showL b ++ ")"
  | .lamOp k b => s!"(LamOp {parentName k} " ++ showL b ++ ")"
  | .listS bs => "(List " ++ " ".intercalate (bs.map showL) ++ ")"
  | .mon m a => s!"(Mon {strS m} {showS a})"
  | .dy m a b => s!"(Dy {strS m} {showS a} {showS b})"
  | .tri m a b c => s!"(Tri {strS m} {showS a} {showS b} {showS c})"
partial def showL (l : List Structure) : String := "[" ++ " ".intercalate (l.map showS) ++ "]"
end

def showToks (toks : List Token) : String :=
  " ".intercalate (toks.map (fun t => kindName t.kind ++ ":" ++ ",".intercalate (t.value.map toString)))

def parseTokStr (s : String) : Token :=
  match s.splitOn ":" with
  | [k, v] => ⟨kindOf k, (v.splitOn ",").filterMap String.toNat?⟩
  | _ => ⟨.general, []⟩

def parseCps (s : String) : List Nat :=
  if s.isEmpty then [] else (s.splitOn " ").filterMap String.toNat?

def showOptCps : Option (List Nat) → String
  | none => "ERR"
  | some l => " ".intercalate (l.map toString)

end Vy
