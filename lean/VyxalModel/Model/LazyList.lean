/-!
# Model of `vyxal/LazyList.py` over a finite source

`src` is the finite sequence the raw iterator will deliver, `pos` how much of it has been pulled,
`gen` the cache `self.generated`.  One function per method, written after the Python (as repaired).
-/
namespace LLM

structure LL where
  src : List Int
  pos : Nat
  gen : List Int
  deriving Repr, DecidableEq

def LL.fresh (src : List Int) : LL := ⟨src, 0, []⟩

/-- `__next__` -/
def LL.next (l : LL) : Option Int × LL :=
  match l.src[l.pos]? with
  | some x => (some x, { l with pos := l.pos + 1, gen := l.gen ++ [x] })
  | none => (none, l)

/-- up to `n` calls of `next`, stopping at the first `StopIteration` -/
def LL.pullN : Nat → LL → LL
  | 0, l => l
  | n + 1, l => match l.next with
    | (some _, l') => l'.pullN n
    | (none, _) => l

/-- `while True: next(self)` until `StopIteration` -/
def LL.forceAll (l : LL) : LL := l.pullN (l.src.length + 1)

/-- exactly `n` calls of `next`; `false` at the first failure (`has_ind`'s loop) -/
def LL.pullK : Nat → LL → Bool × LL
  | 0, l => (true, l)
  | n + 1, l => match l.next with
    | (some _, l') => l'.pullK n
    | (none, _) => (false, l)

inductive Ans
  | int (i : Int)
  | list (l : List Int)
  | err            -- IndexError
  deriving Repr, DecidableEq

/-- `has_ind` -/
def LL.hasInd (l : LL) (i : Int) : Bool × LL :=
  if i < l.gen.length then (decide (0 ≤ i), l)
  else l.pullK (i.toNat - l.gen.length + 1)

def idxAns (g : List Int) (k : Nat) : Ans :=
  match g[k]? with
  | some x => .int x
  | none => .err

/-- Python's `g[i]` for a negative `i` -/
def negAns (g : List Int) (i : Int) : Ans :=
  let j : Int := g.length + i
  if 0 ≤ j then idxAns g j.toNat else .err

/-- `g[i % len(g)]` if `g` else `0` -/
def wrapAns (g : List Int) (i : Int) : Ans :=
  if g.isEmpty then .int 0 else idxAns g (i.toNat % g.length)

/-- `__getitem__` with an integer -/
def LL.getItem (l : LL) (i : Int) : Ans × LL :=
  if i < 0 then (negAns l.forceAll.gen i, l.forceAll)
  else if i < l.gen.length then (idxAns l.gen i.toNat, l)
  else (wrapAns (l.pullN (i.toNat + 1 - l.gen.length)).gen i, l.pullN (i.toNat + 1 - l.gen.length))

/-- membership, finite branch: `for temp in self: if temp == lhs: return 1` -/
def LL.containsF : Nat → LL → Int → Ans × LL
  | 0, l, _ => (.int 0, l)
  | n + 1, l, x => match l.next with
    | (some y, l') => if y = x then (.int 1, l') else l'.containsF n x
    | (none, _) => (.int 0, l)

def LL.contains (l : LL) (x : Int) : Ans × LL :=
  if l.gen.contains x then (.int 1, l) else l.containsF (l.src.length + 1) x

/-! ### Python slice semantics on a plain list -/

def adjust (len : Int) (step : Int) (v : Int) : Int :=
  if v < 0 then (if v + len < 0 then (if step < 0 then -1 else 0) else v + len)
  else if v ≥ len then (if step < 0 then len - 1 else len)
  else v

/-- `slice(start, stop, step).indices(len)`: the first index and the bound -/
def sliceBounds (len : Int) (start stop : Option Int) (step : Int) : Int × Int :=
  let s := match start with
    | some v => adjust len step v
    | none => if step < 0 then len - 1 else 0
  let e := match stop with
    | some v => adjust len step v
    | none => if step < 0 then -1 else len
  (s, e)

def sliceIdx : Nat → Int → Int → Int → List Int
  | 0, _, _, _ => []
  | n + 1, i, e, step =>
    if (step > 0 ∧ i < e) ∨ (step < 0 ∧ i > e) then i :: sliceIdx n (i + step) e step else []

/-- `l[start:stop:step]` for a Python list (step ≠ 0) -/
def pySlice (l : List Int) (start stop : Option Int) (step : Int) : List Int :=
  let (s, e) := sliceBounds l.length start stop step
  (sliceIdx (l.length + 1) s e step).filterMap (fun i => l[i.toNat]?)

def stopOK (stop : Option Int) (i : Int) : Bool :=
  match stop with
  | some e => decide (i < e)
  | none => true

/-- the forward loop of both slice branches: `i = start; while has_ind(i) [and i < stop]: take self[i]; i += step` -/
def LL.sliceLoop : Nat → LL → Int → Option Int → Int → List Int → List Int × LL
  | 0, l, _, _, _, acc => (acc.reverse, l)
  | n + 1, l, i, stop, step, acc =>
    if stopOK stop i then
      if (l.hasInd i).1 then
        match ((l.hasInd i).2.getItem i).1 with
        | .int x => ((l.hasInd i).2.getItem i).2.sliceLoop n (i + step) stop step (x :: acc)
        | _ => (acc.reverse, ((l.hasInd i).2.getItem i).2)
      else (acc.reverse, (l.hasInd i).2)
    else (acc.reverse, l)

/-- `__getitem__` with a slice (step ≠ 0 after `or 1`) -/
def LL.getSlice (l : LL) (start stop : Option Int) (step : Int) : Ans × LL :=
  let st := start.getD 0
  match stop with
  | none =>
    if step < 0 ∨ st < 0 then (.list (pySlice l.forceAll.gen start stop step), l.forceAll)
    else (.list (l.sliceLoop (l.src.length + 2) st none step []).1, (l.sliceLoop (l.src.length + 2) st none step []).2)
  | some e =>
    if step < 0 ∨ e < 0 ∨ st < 0 then (.list (pySlice l.forceAll.gen start stop step), l.forceAll)
    else (.list (l.sliceLoop (l.src.length + 2) st (some e) step []).1, (l.sliceLoop (l.src.length + 2) st (some e) step []).2)

/-! ### observations -/

inductive Obs
  | getItem (i : Int)
  | slice (start stop : Option Int) (step : Int)
  | len | iter | bool
  | contains (x : Int)
  | eq (other : List Int)
  | count (x : Int)
  | reversed | copy | listify
  | copyGet (i : Int)
  | nop            -- creating (and keeping) a copy or an iterator: nothing is pulled yet
  deriving Repr

def LL.observe (l : LL) : Obs → Ans × LL
  | .getItem i => l.getItem i
  | .slice a b c => l.getSlice a b c
  | .len => let l' := l.forceAll; (.int l'.gen.length, l')
  | .iter => let l' := l.forceAll; (.list l'.gen, l')
  | .bool => let (b, l') := l.hasInd 0; (.int (if b then 1 else 0), l')
  | .contains x => l.contains x
  | .eq other => let l' := l.forceAll; (.int (if l'.gen = other then 1 else 0), l')
  | .count x => let l' := l.forceAll; (.int (l'.gen.count x), l')
  | .reversed => let l' := l.forceAll; (.list l'.gen.reverse, l')
  | .copy => let l' := l.forceAll; (.list l'.gen, l')
  | .listify => let l' := l.forceAll; (.list l'.gen, l')
  | .copyGet i =>
      -- the copy is a view: it pulls through the parent's iterator only as far as it needs
      let l' := if i < 0 then l.forceAll else l.pullN (i.toNat + 1 - l.gen.length)
      ((LL.fresh l.src).getItem i |>.1, l')
  | .nop => (.int 0, l)

/-- the same observation on the plain list (wrap-around for out-of-range non-negative indices, as documented) -/
def oracle (src : List Int) : Obs → Ans
  | .getItem i | .copyGet i => if i < 0 then negAns src i else wrapAns src i
  | .slice a b c => .list (pySlice src a b c)
  | .len => .int src.length
  | .iter | .copy | .listify => .list src
  | .bool => .int (if src.isEmpty then 0 else 1)
  | .contains x => .int (if src.contains x then 1 else 0)
  | .eq other => .int (if src = other then 1 else 0)
  | .count x => .int (src.count x)
  | .reversed => .list src.reverse
  | .nop => .int 0

def runObs : LL → List Obs → List Ans × LL
  | l, [] => ([], l)
  | l, o :: os =>
    let (a, l1) := l.observe o
    let (as, l2) := runObs l1 os
    (a :: as, l2)

end LLM
