import VyxalModel.Model.PyAst
/-! Record types of the generated tables (`Gen/*.lean`). -/
namespace Gen
open PyAst

/-- one entry of the `elements` / `modifiers` dict literal -/
structure Entry where
  key : List Nat
  arity : Int
  /-- "fn" (process_element of a function), "expr" (process_element of an expression string),
      "raw" (hand-written tuple), "modifier" -/
  kind : String
  helper : String
  /-- the template parsed by Python's `ast` (none = it does not parse) -/
  body : Option (List PyStmt)

/-- one entry of documents/knowledge/elements.yaml -/
structure DocEntry where
  key : List Nat
  arity : String
  vectorise : Option Bool
  isModifier : Bool

end Gen
