/-!
# Effect model of the places where the interpreter decides by `ctx.online` (C19)

Effects a program run can have on its host, and the decision functions as written in
`elements.vy_print`, `helpers.vy_eval`, `elements.function_call` (string overload), `elements.vy_exec`,
input parsing in `main.execute_vyxal` and its two `try/except` wrappers.
-/
namespace Onl

inductive Eff
  | hostPrint (s : List Nat)        -- `print(...)` to the host's standard output
  | record (s : List Nat)           -- appended to the caller's output record (`ctx.online_output[1]`)
  | errRecord (s : List Nat)        -- appended to the error record (`ctx.online_output[2]`)
  | pyEval (userText : List Nat)    -- `eval(<user text>)`
  | pyExec (userText : List Nat)    -- `exec(<user text>)`
  | literalEval (s : List Nat)      -- `ast.literal_eval`: parses a literal, executes nothing
  | execGenerated (program : List Nat)  -- `exec(transpile(<Vyxal text>))`: only generated code runs (C18)
  | exit
  | raise_                          -- an exception propagates to the caller
  deriving Repr, DecidableEq

/-- `vy_print` of a printable value -/
def vyPrint (online : Bool) (s : List Nat) : List Eff := if online then [.record s] else [.hostPrint s]

/-- `vy_eval` (element `E` on a string, and input parsing): literal_eval online, `eval` offline -/
def vyEval (online : Bool) (text : List Nat) : List Eff := if online then [.literalEval text] else [.pyEval text]

/-- `†` on a string: `exec(top) … if not ctx.online else []` -/
def callString (online : Bool) (text : List Nat) : List Eff := if online then [] else [.pyExec text]

/-- `Ė` on a string: the text is transpiled as Vyxal, and the *generated* code is executed, in both modes -/
def vyExec (_online : Bool) (text : List Nat) : List Eff := [.execGenerated text]

/-- the two `try/except` wrappers of `execute_vyxal` -/
def onError (online : Bool) (msg : List Nat) : List Eff := if online then [.errRecord msg, .exit] else [.raise_]

/-- the observable operations of a run -/
inductive Op
  | print (s : List Nat)
  | eval (text : List Nat)
  | callStr (text : List Nat)
  | execStr (text : List Nat)
  | parseInput (text : List Nat)
  | error (msg : List Nat)
  deriving Repr

def effects (online : Bool) : Op → List Eff
  | .print s => vyPrint online s
  | .eval t => vyEval online t
  | .callStr t => callString online t
  | .execStr t => vyExec online t
  | .parseInput t => vyEval online t
  | .error m => onError online m

def trace (online : Bool) (ops : List Op) : List Eff := ops.flatMap (effects online)

def Eff.isHostPrint : Eff → Bool | .hostPrint _ => true | _ => false
def Eff.isUserCode : Eff → Bool | .pyEval _ => true | .pyExec _ => true | _ => false
def Eff.isRaise : Eff → Bool | .raise_ => true | _ => false

def recorded : List Eff → List (List Nat)
  | [] => []
  | .record s :: r => s :: recorded r
  | _ :: r => recorded r

def hostPrinted : List Eff → List (List Nat)
  | [] => []
  | .hostPrint s :: r => s :: hostPrinted r
  | _ :: r => hostPrinted r

end Onl
