/-! Executable model of vyxal/parse.py (`parse`, `_get_branches`, `process_parameters`, `variable_name`). -/
namespace Vy

abbrev Str := List Nat

inductive TokKind | string | number | character | general | cnum | cstr | vget | vset | cpnum
  deriving DecidableEq, Repr

structure Token where
  kind : TokKind
  value : Str
  deriving DecidableEq, Repr

inductive Parent | none | ifS | forS | whileS | fnCall | lam | lmap | lfilter | lsort | listS | mon | dy | tri
  deriving DecidableEq, Repr

inductive Err | fuel | index | arity | assertion
  deriving DecidableEq, Repr

inductive Structure
  | generic (t : Token)
  | brk (p : Parent)
  | recurse (p : Parent)
  | ifS (bs : List (List Structure))
  | forS (names : List Str) (body : List Structure)
  | whileS (cond : Option (List Structure)) (body : List Structure)
  | fnCall (name : Str)
  | fnDef (name : Str) (params : List Str) (body : List Structure)
  | lam (arity : Option Nat) (body : List Structure)
  | lamOp (k : Parent) (body : List Structure)
  | listS (items : List (List Structure))
  | mon (m : Str) (a : Structure)
  | dy (m : Str) (a b : Structure)
  | tri (m : Str) (a b c : Structure)
  deriving Repr

-- characters
def cBar : Nat := 124      -- |
def cX : Nat := 88
def cx : Nat := 120
def cColon : Nat := 58
def cStar : Nat := 42

/-- opener ↦ (class, closer) as in STRUCTURE_INFORMATION -/
def opener? (c : Nat) : Option (Parent × Nat) :=
  if c = 91 then some (.ifS, 93)           -- [ ]
  else if c = 40 then some (.forS, 41)     -- ( )
  else if c = 123 then some (.whileS, 125) -- { }
  else if c = 64 then some (.fnCall, 59)   -- @ ;
  else if c = 955 then some (.lam, 59)     -- λ ;
  else if c = 411 then some (.lmap, 59)    -- ƛ ;
  else if c = 39 then some (.lfilter, 59)  -- ' ;
  else if c = 181 then some (.lsort, 59)   -- µ ;
  else if c = 10216 then some (.listS, 10217) -- ⟨ ⟩
  else none

def isCloserCh (c : Nat) : Bool := c = 93 || c = 41 || c = 125 || c = 59 || c = 10217

def monadicMods : List Nat := [118, 8317, 38, 126, 223, 402, 598]   -- v ⁽ & ~ ß ƒ ɖ
def dyadicMods : List Nat := [8332, 8225, 8333]                      -- ₌ ‡ ₍
def triadicMods : List Nat := [8812]                                  -- ≬

def Token.isGen1 (t : Token) : Option Nat :=
  if t.kind = .general then (match t.value with | [c] => some c | _ => none) else none

/-- `_get_branches`: `st` = bracket stack (head = innermost), `done` reversed finished branches,
    `cur` reversed current branch. Returns (branches, unread tokens). -/
def gb : List Token → List Nat → List (List Token) → List Token → List (List Token) × List Token
  | [], _, done, cur => ((cur.reverse :: done).reverse, [])
  | t :: ts, [], done, cur => ((cur.reverse :: done).reverse, t :: ts)
  | t :: ts, c :: st, done, cur =>
    match t.isGen1 with
    | some ch =>
      match opener? ch with
      | some (_, cl) => gb ts (cl :: c :: st) done (t :: cur)
      | none =>
        if ch = cBar then
          (match st with
           | [] => gb ts [c] (cur.reverse :: done) []
           | _ :: _ => gb ts (c :: st) done (t :: cur))
        else if isCloserCh ch then
          if ch = c then
            (match st with
             | [] => ((cur.reverse :: done).reverse, ts)
             | _ :: _ => gb ts st done (t :: cur))
          else gb ts (c :: st) done cur
        else gb ts (c :: st) done (t :: cur)
    | none => gb ts (c :: st) done (t :: cur)

def isLetter (c : Nat) : Bool := (65 ≤ c && c ≤ 90) || (97 ≤ c && c ≤ 122) || c = 95
def isDigit (c : Nat) : Bool := 48 ≤ c && c ≤ 57

def variableName (ts : List Token) : Str := (ts.flatMap (·.value)).filter isLetter

def splitOn (sep : Nat) : Str → List Str
  | [] => [[]]
  | c :: cs =>
    match splitOn sep cs with
    | [] => [[]]   -- unreachable
    | h :: t => if c = sep then [] :: h :: t else (c :: h) :: t

def natOfDigits (s : Str) : Nat := s.foldl (fun a c => 10 * a + (c - 48)) 0

def processParameters (ts : List Token) : Str × List Str :=
  match splitOn cColon (ts.flatMap (·.value)) with
  | [] => ([], [])
  | name :: ps => (name, ps.map (fun p => if (p ≠ [] ∧ p.all isDigit) ∨ p = [cStar] then p else p.filter isLetter))

def lambdaArity (b0 : List Token) : Except Err Nat :=
  match b0 with
  | [] => .error .index
  | t :: _ => if t.value ≠ [] ∧ t.value.all isDigit then .ok (natOfDigits t.value) else .error .arity

def passParent (par cls : Parent) : Parent := if par = .none then cls else par

/-- map with early error -/
def mapE {α β} (f : α → Except Err β) : List α → Except Err (List β)
  | [] => .ok []
  | a :: as => do let b ← f a; let bs ← mapE f as; pure (b :: bs)

/-- what `parse` builds from the branches of one structure; `p` is the recursive parser -/
def buildS (p : List Token → Parent → Except Err (List Structure)) (par cls : Parent)
    (branches : List (List Token)) : Except Err Structure :=
  let last := branches.getLast?.getD []
  match cls with
  | .forS => do
      let body ← p last cls
      pure (Structure.forS ((branches.dropLast).map variableName) body)
  | .whileS => do
      let cond ← (if branches.length = 1 then pure none
                  else do let c ← p (branches.head?.getD []) cls; pure (some c))
      let body ← p last cls
      pure (Structure.whileS cond body)
  | .fnCall =>
      let (name, params) := processParameters (branches.head?.getD [])
      if branches.length > 1 then do
        let body ← p last cls
        pure (Structure.fnDef name params body)
      else if params ≠ [] then .error .assertion else pure (Structure.fnCall name)
  | .lam => do
      let ar ← (if branches.length = 1 then pure none
                else do let a ← lambdaArity (branches.head?.getD []); pure (some a))
      let body ← p last cls
      pure (Structure.lam ar body)
  | .lmap | .lfilter | .lsort => do
      let body ← p (branches.head?.getD []) cls
      pure (Structure.lamOp cls body)
  | .listS => do
      let bs ← mapE (fun b => p b (passParent par cls)) branches
      pure (Structure.listS bs)
  | _ => do
      let bs ← mapE (fun b => p b (passParent par cls)) branches
      pure (Structure.ifS bs)

def parse : Nat → List Token → Parent → Except Err (List Structure)
  | 0, _, _ => .error .fuel
  | _ + 1, [], _ => .ok []
  | n + 1, t :: ts, par =>
    match t.isGen1 with
    | none =>
      do let r ← parse n ts par; pure (.generic t :: r)
    | some ch =>
      if ch = cX then do let r ← parse n ts par; pure (.brk par :: r)
      else if ch = cx then do let r ← parse n ts par; pure (.recurse par :: r)
      else match opener? ch with
      | some (cls, cl) =>
        do
          let s ← buildS (parse n) par cls (gb ts [cl] [] []).1
          let r ← parse n (gb ts [cl] [] []).2 par
          pure (s :: r)
      | none =>
        if monadicMods.contains ch then
          (match ts with
           | [] => .ok []
           | _ :: _ => do
              let rem ← parse n ts .mon
              match rem with
              | a :: r => if ch = 8317 then pure (.lam (some 1) [a] :: r) else pure (.mon [ch] a :: r)
              | _ => .error .index)
        else if dyadicMods.contains ch then
          (match ts with
           | [] => .ok []
           | _ :: _ => do
              let rem ← parse n ts .dy
              match rem with
              | a :: b :: r => if ch = 8225 then pure (.lam (some 1) [a, b] :: r) else pure (.dy [ch] a b :: r)
              | _ => .error .index)
        else if triadicMods.contains ch then
          (match ts with
           | [] => .ok []
           | _ :: _ => do
              let rem ← parse n ts .tri
              match rem with
              | a :: b :: c :: r => pure (.lam (some 1) [a, b, c] :: r)
              | _ => .error .index)
        else if isCloserCh ch || ch = 32 || ch = cBar then parse n ts par
        else do let r ← parse n ts par; pure (.generic t :: r)

/-- the element a map / filter / sort lambda is followed by (`struct.after`: `M`, `F`, `ṡ`) -/
def lamOpKey : Parent → Str
  | .lmap => [77]
  | .lfilter => [70]
  | _ => [7777]

def parseTop (ts : List Token) : Except Err (List Structure) := parse (ts.length + 1) ts .none

end Vy
