/-!
# Model of the number overloads of `+ - * / % ḭ` (`vyxal/elements.py`)

A number is a rational value together with the Python representation it has: a Python `int`,
a `sympy.Integer`, or a `sympy.Rational` with denominator ≠ 1.  There is no float constructor: the
model says what the (repaired) code computes when sympy's exact arithmetic is taken as given (T5).
-/
namespace NumM

inductive Rep | pyInt | symInt | symRat
  deriving DecidableEq, Repr

structure Num where
  val : Rat
  rep : Rep
  deriving Repr

/-- the representation invariant: integer-valued ⇒ an integer representation, never `Rational` with denominator 1 -/
def Num.Normal (n : Num) : Prop :=
  match n.rep with
  | .symRat => n.val.den ≠ 1
  | _ => n.val.den = 1

/-- what Python / sympy return for a result `q`: two Python ints stay a Python int, anything else is sympy-normalised -/
def mk (bothPy : Bool) (q : Rat) : Num :=
  if q.den = 1 then ⟨q, if bothPy then .pyInt else .symInt⟩ else ⟨q, .symRat⟩

def bothPy (a b : Num) : Bool := a.rep == .pyInt && b.rep == .pyInt

/-- `vyxalify`: `sympy.Integer → int`, everything else unchanged -/
def vyxalify (n : Num) : Num := if n.rep = .symInt then { n with rep := .pyInt } else n

def add (a b : Num) : Num := mk (bothPy a b) (a.val + b.val)
def subtract (a b : Num) : Num := mk (bothPy a b) (a.val - b.val)
def multiply (a b : Num) : Num := mk (bothPy a b) (a.val * b.val)

/-- `/` : `0 if rhs == 0 else vyxalify(nsimplify(sympify(lhs) / rhs))` — exact rational division -/
def divide (a b : Num) : Num :=
  if b.val = 0 then ⟨0, .pyInt⟩ else vyxalify (mk false (a.val / b.val))

/-- `ḭ` : `0 if rhs == 0 else vyxalify(floor(sympify(lhs) / rhs))` -/
def integerDivide (a b : Num) : Num :=
  if b.val = 0 then ⟨0, .pyInt⟩ else vyxalify (mk false ((a.val / b.val).floor : Int))

/-- `%` for a non-zero right operand (the sign follows the divisor, as in Python and sympy's `Mod`) -/
def modulo (a b : Num) : Num := mk (bothPy a b) (a.val - b.val * ((a.val / b.val).floor : Int))

inductive Op | add | sub | mul | div | idiv | mod
  deriving DecidableEq, Repr

def apply : Op → Num → Num → Num
  | .add => add | .sub => subtract | .mul => multiply | .div => divide | .idiv => integerDivide | .mod => modulo

/-- expression trees over `+ - * /` -/
inductive Expr
  | lit (n : Num)
  | bin (op : Op) (l r : Expr)

def evalNum : Expr → Num
  | .lit n => n
  | .bin op l r => apply op (evalNum l) (evalNum r)

/-- the mathematical value of the same tree (division by zero is 0, as the property states) -/
def evalRat : Expr → Rat
  | .lit n => n.val
  | .bin .add l r => evalRat l + evalRat r
  | .bin .sub l r => evalRat l - evalRat r
  | .bin .mul l r => evalRat l * evalRat r
  | .bin .div l r => if evalRat r = 0 then 0 else evalRat l / evalRat r
  | .bin .idiv l r => if evalRat r = 0 then (0 : Rat) else (((evalRat l / evalRat r).floor : Int) : Rat)
  | .bin .mod l r => evalRat l - evalRat r * ((evalRat l / evalRat r).floor : Int)

end NumM
