import VyxalModel.Model.Parser
/-! Executable model of vyxal/lexer.py `tokenise` (variables_as_digraphs = False). -/
namespace Vy

def isDig (c : Nat) : Bool := 48 ≤ c && c ≤ 57
def cDot : Nat := 46
def cDeg : Nat := 176
def isNumCh (c : Nat) : Bool := isDig c || c = cDot || c = cDeg
def isDigraphPrefix (c : Nat) : Bool := c = 107 || c = 8710 || c = 248 || c = 222 || c = 168  -- k ∆ ø Þ ¨

/-- scan a string body up to the delimiter; backslash escapes only when `esc` (back-quote strings).
    Returns (value, rest after the closing delimiter if any). -/
def scanString (delim : Nat) (esc : Bool) : List Nat → List Nat → List Nat × List Nat
  | [], acc => (acc.reverse, [])
  | c :: cs, acc =>
    if c = delim then (acc.reverse, cs)
    else if esc && c = 92 then
      match cs with
      | [] => (acc.reverse, [])                    -- trailing backslash is dropped
      | d :: ds => scanString delim esc ds (d :: 92 :: acc)
    else scanString delim esc cs (c :: acc)
termination_by l _ => l.length

/-- continue a number token: `deg` = a ° was seen, `dots` = points in the current part -/
def scanNumber : List Nat → Bool → Nat → List Nat → List Nat × List Nat
  | [], _, _, acc => (acc.reverse, [])
  | c :: cs, deg, dots, acc =>
    if isDig c then scanNumber cs deg dots (c :: acc)
    else if c = cDot then (if dots = 0 then scanNumber cs deg 1 (c :: acc) else (acc.reverse, c :: cs))
    else if c = cDeg then (if deg then (acc.reverse, c :: cs) else scanNumber cs true 0 (c :: acc))
    else (acc.reverse, c :: cs)

def takeLetters : List Nat → List Nat → List Nat × List Nat
  | [], acc => (acc.reverse, [])
  | c :: cs, acc => if isLetter c then takeLetters cs (c :: acc) else (acc.reverse, c :: cs)

def skipComment : List Nat → List Nat
  | [] => []
  | c :: cs => if c = 10 then cs else skipComment cs

def nextIsDotOrDeg : List Nat → Bool
  | d :: _ => d = cDeg || d = cDot
  | [] => false

/-- which branch of the `while source:` loop a head character selects -/
inductive LK | esc | bq | cnum | cstr | num | two | vset | vget | comment | digraph | cp | gen
  deriving DecidableEq, Repr

def lexKind (c : Nat) : LK :=
  if c = 92 then .esc else if c = 96 then .bq else if c = 187 then .cnum else if c = 171 then .cstr
  else if isNumCh c then .num else if c = 8219 then .two else if c = 8594 then .vset
  else if c = 8592 then .vget else if c = 35 then .comment else if isDigraphPrefix c then .digraph
  else if c = 8314 then .cp else .gen

/-- one iteration of the loop: the token produced (if any) and the unread rest; `none` only on empty input -/
def lexStep : List Nat → Option (Option Token × List Nat)
  | [] => none
  | c :: cs =>
    match lexKind c with
    | .esc =>
      (match cs with
       | [] => some (none, [])
       | d :: r => some (some ⟨.character, [d]⟩, r))
    | .bq => some (some ⟨.string, (scanString 96 true cs []).1⟩, (scanString 96 true cs []).2)
    | .cnum => some (some ⟨.cnum, (scanString 187 false cs []).1⟩, (scanString 187 false cs []).2)
    | .cstr => some (some ⟨.cstr, (scanString 171 false cs []).1⟩, (scanString 171 false cs []).2)
    | .num =>
      if c = 48 && !nextIsDotOrDeg cs then
        some (some ⟨.number, [48]⟩, cs)
      else
        some (some ⟨.number, (scanNumber cs (c = cDeg) (if c = cDot then 1 else 0) [c]).1⟩,
              (scanNumber cs (c = cDeg) (if c = cDot then 1 else 0) [c]).2)
    | .two =>
      (match cs with
       | [] => some (some ⟨.string, []⟩, [])
       | [a] => some (some ⟨.string, [a]⟩, [])
       | a :: b :: r => some (some ⟨.string, [a, b]⟩, r))
    | .vset => some (some ⟨.vset, (takeLetters cs []).1⟩, (takeLetters cs []).2)
    | .vget => some (some ⟨.vget, (takeLetters cs []).1⟩, (takeLetters cs []).2)
    | .comment => some (none, skipComment cs)
    | .digraph =>
      (match cs with
       | [] => some (some ⟨.general, [c]⟩, [])
       | d :: r => if d = 124 then some (some ⟨.general, [c]⟩, d :: r) else some (some ⟨.general, [c, d]⟩, r))
    | .cp =>
      (match cs with
       | [] => some (none, [])
       | d :: r => some (some ⟨.cpnum, [d]⟩, r))
    | .gen => some (some ⟨.general, [c]⟩, cs)

def tokeniseF : Nat → List Nat → List Token
  | 0, _ => []
  | n + 1, s =>
    match lexStep s with
    | none => []
    | some (none, r) => tokeniseF n r
    | some (some t, r) => t :: tokeniseF n r

def tokenise (s : List Nat) : List Token := tokeniseF (s.length + 1) s
end Vy
