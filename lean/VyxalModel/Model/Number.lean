import VyxalModel.Model.Lexer
/-! Model of the NUMBER branch of `transpile_token` and of the value a decimal literal denotes. -/
namespace Vy

/-- split on every `°` (Python's `str.split("°")`) -/
def splitDeg (s : Str) : List Str := splitOn cDeg s

def joinPlus : List Str → Str
  | [] => []
  | [p] => p
  | p :: ps => p ++ 43 :: joinPlus ps

/-- the text handed to sympy for a NUMBER token (`parts` in `transpile_token`) -/
def numberParts (v : Str) : Str :=
  let parts := joinPlus ((splitDeg v).map (fun p => if p = [cDot] then [48, 46, 53] else p))
  if parts.head? = some 43 then parts ++ [73]                 -- "+5" ↦ "+5I"
  else if parts.getLast? = some 43 then parts ++ [49, 32, 42, 32, 73]   -- "5+" ↦ "5+1 * I"
  else if parts.contains 43 then parts ++ [42, 32, 73]        -- "3+4" ↦ "3+4* I"
  else parts

/-- a real literal containing a point is handed to `sympy.Rational`, anything else to `sympy.nsimplify` -/
def numberUsesRational (v : Str) : Bool := (numberParts v).contains cDot && !(numberParts v).contains 73

/-- value of a string of digits with at most one point, read left to right:
    (numerator, number of fractional digits) — i.e. numerator / 10^k.  `none` on any other character
    or a second point. -/
def decimalValueAux : Str → Nat → Option Nat → Option (Nat × Nat)
  | [], num, none => some (num, 0)
  | [], num, some k => some (num, k)
  | c :: cs, num, frac =>
    if isDig c then
      decimalValueAux cs (10 * num + (c - 48)) (frac.map (· + 1))
    else if c = cDot then
      (match frac with
       | none => decimalValueAux cs num (some 0)
       | some _ => none)
    else none

def decimalValue (s : Str) : Option (Nat × Nat) := decimalValueAux s 0 none

end Vy
