import VyxalModel.Model.RefSem
import VyxalModel.Model.PyAst
/-!
# Semantics of the Python the transpiler emits (C01)

An interpreter for exactly the fragment of Python that `transpile.py`'s structure templates and the
element / modifier templates of the closed core use: assignment to names, tuples of names, `ctx` attributes and
function attributes; `x.append(e)`, `x += e`, `ctx.<list>.append/pop`; `if`, `while`, `for`, nested `def`,
`return`, `break`, `continue`, `pass`; name lookup local → module; calls of the helper functions the templates
call (`pop`, `wrapify`, `iterable`, `boolify`, `deep_copy`, `safe_apply`, `vy_map`, `vy_filter`, `sort_by`,
`vy_reduce`, `scanl`, `vectorise`, `function_call`, `vy_print`, `get_input`, …) with their real meaning, calls of
function values, and every other called name as an element function of `CoreLib.elemFn`.
Anything else is `stuck`.

Python lists are `Val.list` in Python order (last item = top of a stack).  A list argument that a callee pops
from (`arg_stack`) is passed by reference in Python; the model copies the callee's final value of its first
parameter back into the caller's variable — exact as long as nobody else reads the caller's list during the call,
which holds for the templates (they never touch `arg_stack` after their prologue).

Fuel is spent as in `RefSem`: one unit per loop iteration and per call of a function value.
-/
namespace Vy.Sem
open Vy PyAst

abbrev PKey := String × List Nat

structure PFn where
  params : List (String × Option PyExpr)
  body : List PyStmt
  arity : Option Val := Option.none
  stored : Option Val := Option.none

structure PSt where
  locals : List (PKey × Val) := []      -- the running function's frame (unused at module level)
  globals : List (PKey × Val) := []     -- the exec namespace
  depth : Nat := 0
  ctxVals : List Val := [.int 0]        -- head = ctx.context_values[-1]
  inputs : List (List Val × Nat) := [([], 0)]
  stacks : List Val := []
  fnStack : List Val := []
  register : Val := .int 0
  ghost : Val := .int 0
  retain : Bool := false
  useTop : Bool := false
  fns : List PFn := []
  out : String := ""
  printed : Bool := false

inductive PSig
  | normal | brk | cont | ret (v : Val)

def lookupP (k : PKey) : List (PKey × Val) → Option Val
  | [] => Option.none
  | (k', v) :: r => if k' = k then some v else lookupP k r

def setP (k : PKey) (v : Val) : List (PKey × Val) → List (PKey × Val)
  | [] => [(k, v)]
  | (k', v') :: r => if k' = k then (k, v) :: r else (k', v') :: setP k v r

def PSt.getVar (σ : PSt) (k : PKey) : Option Val :=
  if σ.depth = 0 then lookupP k σ.globals
  else match lookupP k σ.locals with
    | some v => some v
    | Option.none => lookupP k σ.globals

def PSt.setVar (σ : PSt) (k : PKey) (v : Val) : PSt :=
  if σ.depth = 0 then { σ with globals := setP k v σ.globals } else { σ with locals := setP k v σ.locals }

def PSt.print (σ : PSt) (s : String) : PSt := { σ with out := σ.out ++ s, printed := true }

/-- the key of a name expression -/
def nameKey : PyExpr → Option PKey
  | .name n => some (n, [])
  | .pname pre s => some (pre, s)
  | _ => Option.none

/-- `pop(lst, k, ctx)` on a Python-order list: popped values in pop order, the list left, the input scopes.
    With `ctx.retain_popped` the popped values are put back. -/
def popPy (k : Nat) (xs : List Val) (ins : List (List Val × Nat)) (retain : Bool) :
    List Val × List Val × List (List Val × Nat) :=
  let (p, r, ins') := popN k xs.reverse ins
  (p, if retain then r.reverse ++ p.reverse else r.reverse, ins')

def asNat (v : Val) : R Nat :=
  match v with
  | .int i => if i < 0 then .error (.unmodelled "negative count") else .ok i.toNat
  | _ => .error (.stuck "count that is not a number")

def asList (v : Val) : R (List Val) :=
  match v with
  | .list xs => .ok xs
  | _ => .error (.stuck "list expected")

/-- Python's truth value -/
def pyTruth : Val → Bool
  | .int i => i != 0
  | .list xs => !xs.isEmpty
  | .fn _ => true
  | .none => false

def isCtxName : PyExpr → Bool
  | .name "ctx" => true
  | _ => false

/-- keyword argument lookup -/
def kwGet (kw : List (String × PyExpr)) (k : String) : Option PyExpr :=
  match kw with
  | [] => Option.none
  | (k', e) :: r => if k' = k then some e else kwGet r k

def cmpVals (op : CmpOp) (a b : Val) : R Bool :=
  match op, a, b with
  | .eq, a, b => .ok (a == b)
  | .ne, a, b => .ok (!(a == b))
  | .lt, .int x, .int y => .ok (x < y)
  | .le, .int x, .int y => .ok (x ≤ y)
  | .gt, .int x, .int y => .ok (x > y)
  | .ge, .int x, .int y => .ok (x ≥ y)
  | .is_, .none, .none => .ok true
  | .is_, _, .none => .ok false
  | .isNot, .none, .none => .ok false
  | .isNot, _, .none => .ok true
  | _, _, _ => .error (.stuck "comparison")

/-- subscripts the templates use: `[::-1]`, `[::]`, `[k]`, `[-k]` -/
def subscriptV (v : Val) (idx : PyExpr) : R Val :=
  match v, idx with
  | .list xs, .slice Option.none Option.none (some (.unary "USub" (.cint 1))) => .ok (.list xs.reverse)
  | .list xs, .slice Option.none Option.none Option.none => .ok (.list xs)
  | .list xs, .cint i => (match xs[i.toNat]? with | some x => .ok x | Option.none => .error (.raised "IndexError"))
  | .list xs, .unary "USub" (.cint i) =>
      if i.toNat ≤ xs.length ∧ 0 < i.toNat then
        (match xs[xs.length - i.toNat]? with | some x => .ok x | Option.none => .error (.raised "IndexError"))
      else .error (.raised "IndexError")
  | _, _ => .error (.stuck "subscript")

def printPy (σ : PSt) (v : Val) (end_ : String) : R PSt := do
  let s ← printText v
  .ok (σ.print (s ++ end_))

/-- `end=` of a `vy_print` call: a string constant -/
def endOf (kw : List (String × PyExpr)) : R String :=
  match kwGet kw "end" with
  | Option.none => .ok "\n"
  | some (.cstr s) => .ok s
  | some _ => .error (.stuck "end= that is not a constant")

/-- helper functions with a dedicated meaning in `evalSpecial` -/
inductive Special
  | int_ | pop | wrapify | len | list_ | deep_copy | iterable | boolify | get_input | vy_print | function_call | safe_apply | vy_map | vy_filter | sort_by | vy_reduce | scanl | vectorise
  deriving DecidableEq, Repr

def specialOf (h : String) : Option Special :=
  if h = "int" then some .int_
  else if h = "pop" then some .pop
  else if h = "wrapify" then some .wrapify
  else if h = "len" then some .len
  else if h = "list" then some .list_
  else if h = "deep_copy" then some .deep_copy
  else if h = "iterable" then some .iterable
  else if h = "boolify" then some .boolify
  else if h = "get_input" then some .get_input
  else if h = "vy_print" then some .vy_print
  else if h = "function_call" then some .function_call
  else if h = "safe_apply" then some .safe_apply
  else if h = "vy_map" then some .vy_map
  else if h = "vy_filter" then some .vy_filter
  else if h = "sort_by" then some .sort_by
  else if h = "vy_reduce" then some .vy_reduce
  else if h = "scanl" then some .scanl
  else if h = "vectorise" then some .vectorise
  else Option.none

/-- assignment targets the templates use -/
def assignTo (t : PyExpr) (v : Val) (σ : PSt) : R PSt :=
  match t with
  | .name n => .ok (σ.setVar (n, []) v)
  | .pname pre s => .ok (σ.setVar (pre, s) v)
  | .tuple ts =>
      (match v with
       | .list vs =>
           if ts.length ≠ vs.length then .error (.raised "ValueError") else
           (ts.zip vs).foldlM (fun σ' (tv : PyExpr × Val) =>
             match tv.1 with
             | .name n => .ok (σ'.setVar (n, []) tv.2)
             | _ => .error (.stuck "tuple target")) σ
       | _ => .error (.stuck "unpacking something that is not a list"))
  | .attr (.name "ctx") "register" => .ok { σ with register := v }
  | .attr (.name "ctx") "ghost_variable" => .ok { σ with ghost := v }
  | .attr (.name "ctx") "use_top_input" => .ok { σ with useTop := pyTruth v }
  | .attr (.name "ctx") "retain_popped" => .ok { σ with retain := pyTruth v }
  | .attr f a =>
      (match nameKey f with
       | some key =>
           (match σ.getVar key with
            | some (.fn id) =>
                (match σ.fns[id]? with
                 | some fo =>
                     if a = "arity" then .ok { σ with fns := σ.fns.set id { fo with arity := some v } }
                     else if a = "stored_arity" then .ok { σ with fns := σ.fns.set id { fo with stored := some v } }
                     else .error (.stuck ("attribute " ++ a))
                 | Option.none => .error (.stuck "dangling function reference"))
            | _ => .error (.stuck "attribute of something that is not a function"))
       | Option.none => .error (.stuck "attribute target"))
  | _ => .error (.stuck "assignment target")

mutual
/-- expressions: value and state (calls have effects) -/
def evalE (cfg : Cfg) : Nat → PyExpr → PSt → R (Val × PSt)
  | _, .cint i, σ => .ok (.int i, σ)
  | _, .cbool b, σ => .ok (.int (b2i b), σ)
  | _, .cnone, σ => .ok (.none, σ)
  | _, .name n, σ =>
      (match σ.getVar (n, []) with
       | some v => .ok (v, σ)
       | Option.none => .error (.stuck ("name " ++ n)))       -- a library name the model does not know
  | _, .pname pre s, σ =>
      (match σ.getVar (pre, s) with
       | some v => .ok (v, σ)
       | Option.none =>
           -- inside a function the name may live in an enclosing function's frame (a closure cell): not modelled
           if σ.depth = 0 then .error (.raised "NameError") else .error (.unmodelled "possibly a closure variable"))
  | n, .unary op e, σ => do
      let (v, σ1) ← evalE cfg n e σ
      match op, v with
      | "USub", .int i => .ok (.int (-i), σ1)
      | "Not", v => .ok (.int (b2i (!pyTruth v)), σ1)
      | _, _ => .error (.stuck "unary operator")
  | n, .list es, σ => do
      let (vs, σ1) ← evalArgs cfg n es σ
      .ok (.list vs, σ1)
  | n, .ifExp c t e, σ => do
      let (b, σ1) ← evalE cfg n c σ
      if pyTruth b then evalE cfg n t σ1 else evalE cfg n e σ1
  | n, .boolop isAnd es, σ => evalBool cfg n isAnd es σ
  | n, .compare l rest, σ =>
      (match l, rest with
       | .cstr "stored_arity", [(.in_, .call (.name "dir") [e] [])] => do
           let (f, σ1) ← evalE cfg n e σ
           match f with
           | .fn id => .ok (.int (b2i ((σ1.fns[id]?.bind (·.stored)).isSome)), σ1)
           | _ => .ok (.int 0, σ1)
       | l, [(op, r)] => do
           let (a, σ1) ← evalE cfg n l σ
           let (b, σ2) ← evalE cfg n r σ1
           let c ← cmpVals op a b
           .ok (.int (b2i c), σ2)
       | _, _ => .error (.stuck "comparison chain"))
  | n, .subscript e idx, σ => do
      let (v, σ1) ← evalE cfg n e σ
      let r ← subscriptV v idx
      .ok (r, σ1)
  | n, .attr e a, σ =>
      if isCtxName e then
        (match a with
         | "register" => .ok (σ.register, σ)
         | "ghost_variable" => .ok (σ.ghost, σ)
         | "context_values" => .ok (.list σ.ctxVals.reverse, σ)
         | "function_stack" => .ok (.list σ.fnStack.reverse, σ)
         | "default_arity" => .ok (.int 1, σ)
         | "online" => .ok (.int 0, σ)
         | _ => .error (.stuck ("ctx." ++ a)))
      else do
        let (f, σ1) ← evalE cfg n e σ
        match f, a with
        | .fn id, "arity" =>
            (match σ1.fns[id]?.bind (·.arity) with
             | some v => .ok (v, σ1)
             | Option.none => .error (.raised "AttributeError"))
        | .fn id, "stored_arity" =>
            (match σ1.fns[id]?.bind (·.stored) with
             | some v => .ok (v, σ1)
             | Option.none => .error (.raised "AttributeError"))
        | _, _ => .error (.stuck ("attribute " ++ a))
  | n, .call (.attr (.name "sympy") "nsimplify") [.cstrN ds] _, σ =>
      if ds ≠ [] ∧ ds.all isDigit then .ok (.int (natOfDigits ds), σ) else .error (.unmodelled "non-integer literal")
  | n, .call (.attr (.name "sympy") "nsimplify") [e] _, σ => evalE cfg n e σ
  | n, .call (.name h) args kw, σ =>
      (match specialOf h with
       | some sp => evalSpecial cfg n sp args kw σ
       | Option.none => callVar cfg n (h, []) (some h) args kw σ)
  | n, .call (.pname pre s) args kw, σ => callVar cfg n (pre, s) Option.none args kw σ
  | _, _, _ => .error (.stuck "expression")
termination_by n e _ => (n, 10, sizeOf e)

/-- the helper functions of `vyxal/helpers.py` / `elements.py` that the templates call, with their real meaning -/
def evalSpecial (cfg : Cfg) : Nat → Special → List PyExpr → List (String × PyExpr) → PSt → R (Val × PSt)
  | n, .int_, [e], _, σ => evalE cfg n e σ
  | n, .pop, ((.name x) :: k :: _), _, σ => do
      let (kv, σ1) ← evalE cfg n k σ
      let kk ← asNat kv
      match σ1.getVar (x, []) with
      | some (.list xs) =>
          let (p, xs', ins) := popPy kk xs σ1.inputs σ1.retain
          let σ2 := ({ σ1 with inputs := ins }).setVar (x, []) (.list xs')
          (match kk, p with
           | 1, [v] => .ok (v, σ2)
           | _, _ => .ok (.list p, σ2))
      | _ => .error (.stuck "pop from something that is not a list variable")
  | n, .wrapify, ((.name x) :: k :: _), _, σ => do
      let (kv, σ1) ← evalE cfg n k σ
      let kk ← asNat kv
      match σ1.getVar (x, []) with
      | some (.list xs) =>
          let (p, xs', ins) := popPy kk xs σ1.inputs σ1.retain
          .ok (.list p, ({ σ1 with inputs := ins }).setVar (x, []) (.list xs'))
      | _ => .error (.stuck "wrapify of something that is not a list variable")
  | n, .len, [e], _, σ => do
      let (v, σ1) ← evalE cfg n e σ
      let xs ← asList v
      .ok (.int xs.length, σ1)
  | n, .list_, [e], _, σ => evalE cfg n e σ
  | n, .deep_copy, [e], _, σ => evalE cfg n e σ
  | n, .iterable, (e :: rest), _, σ => do
      let (v, σ1) ← evalE cfg n e σ
      let xs ← (match rest with
        | .name "range" :: _ => iterRange cfg v
        | _ => iterDigits v)
      .ok (.list xs, σ1)
  | n, .boolify, (e :: _), _, σ => do
      let (v, σ1) ← evalE cfg n e σ
      .ok (.int (b2i (truthy v)), σ1)
  | _, .get_input, _, _, σ =>
      let (x, ins) := if σ.useTop then explicitInput σ.inputs else implicitInput σ.inputs
      .ok (x, { σ with inputs := ins })
  | n, .vy_print, (e :: _), kw, σ => do
      let (v, σ1) ← evalE cfg n e σ
      let end_ ← endOf kw
      let σ2 ← printPy σ1 v end_
      .ok (.none, σ2)
  | n, .function_call, ((.name x) :: _), _, σ =>
      (match σ.getVar (x, []) with
       | some (.list xs) =>
           let (p, xs', ins) := popPy 1 xs σ.inputs σ.retain
           let σ1 := ({ σ with inputs := ins }).setVar (x, []) (.list xs')
           (match p with
            | [.fn id] => do
                let (r, rest, σ2) ← callPy cfg n id [.list xs', .fn id] [] true σ1
                let rl : List Val := match r with | .list l => l | v => [v]
                .ok (.none, σ2.setVar (x, []) (.list ((match rest with | some (.list l) => l | _ => xs') ++ rl)))
            | _ => .error (.unmodelled "† on a non-function"))
       | _ => .error (.stuck "function_call on something that is not a list variable"))
  | n, .safe_apply, (f :: args), _, σ => do
      let (fv, σ1) ← evalE cfg n f σ
      let (vs, σ2) ← evalArgs cfg n args σ1
      applyPy cfg n fv vs σ2
  | n, .vy_map, [a, b], _, σ => do
      let (av, σ1) ← evalE cfg n a σ
      let (bv, σ2) ← evalE cfg n b σ1
      if isFnVal av || isFnVal bv then do
        let (f, v) := if isFnVal bv then (bv, av) else (av, bv)
        let xs ← iterRange cfg v
        let (ys, σ3) ← lazyErr (mapPy cfg n f xs σ2)
        .ok (.list ys, σ3)
      else .error (.unmodelled "function value given to vy_map")
  | n, .vy_filter, (a :: b :: _), _, σ => do
      let (av, σ1) ← evalE cfg n a σ
      let (bv, σ2) ← evalE cfg n b σ1
      if isFnVal av || isFnVal bv then do
        let (f, v) := if isFnVal av then (av, bv) else (bv, av)
        let xs ← iterRange cfg v
        let (ys, σ3) ← lazyErr (filterPy cfg n f xs σ2)
        .ok (.list ys, σ3)
      else .error (.unmodelled "function value given to vy_filter")
  | n, .sort_by, [a, b], _, σ => do
      let (av, σ1) ← evalE cfg n a σ
      let (bv, σ2) ← evalE cfg n b σ1
      if isFnVal av || isFnVal bv then do
        let (f, v) := if isFnVal av then (av, bv) else (bv, av)
        let xs ← iterDigits v
        let (ks, σ3) ← keysPy cfg n f xs σ2
        .ok (.list (sortByKeys ks), σ3)
      else do
        let r ← elemFn "sort_by" [av, bv]
        .ok (r, σ2)
  | n, .vy_reduce, (a :: b :: _), _, σ => do
      let (av, σ1) ← evalE cfg n a σ
      let (bv, σ2) ← evalE cfg n b σ1
      if isFnVal av || isFnVal bv then do
        let (f, v) := if isFnVal bv then (bv, av) else (av, bv)
        let xs ← iterDigits v
        match xs with
        | [] => .ok (.int 0, σ2)
        | x :: r => foldPy cfg n f x r σ2
      else .error (.unmodelled "function value given to vy_reduce")
  | n, .scanl, (f :: e :: _), _, σ => do
      let (fv, σ1) ← evalE cfg n f σ
      let (v, σ2) ← evalE cfg n e σ1
      let xs ← iterDigits v
      match xs with
      | [] => .ok (.list [], σ2)
      | x :: r => do
          let (ys, σ3) ← lazyErr (scanPy cfg n fv x r σ2)
          .ok (.list ys, σ3)
  | n, .vectorise, (f :: args), _, σ => do
      let (fv, σ1) ← evalE cfg n f σ
      let (vs, σ2) ← evalArgs cfg n args σ1
      match vs with
      | [a] => do
          let xs ← iterRange cfg a
          let (ys, σ3) ← lazyErr (mapPy cfg n fv xs σ2)
          .ok (.list ys, σ3)
      | [a, b] => do
          let pairs ← vecPairs a b
          let (zs, σ3) ← lazyErr (mapPy2 cfg n fv pairs σ2)
          .ok (.list zs, σ3)
      | [] => .error (.raised "TypeError")
      | _ => .error (.unmodelled "vectorise with three arguments")
  | _, _, _, _, _ => .error (.stuck "helper called with arguments the templates never pass")
termination_by n _ args kw _ => (n, 10, sizeOf args + sizeOf kw + 1)

/-- a call through a Python variable: a function value (lambda, named function, `list_item`) — or, when no such
    variable exists, the element function of that name -/
def callVar (cfg : Cfg) : Nat → PKey → Option String → List PyExpr → List (String × PyExpr) → PSt → R (Val × PSt)
  | n, key, fname, args, kw, σ =>
         match σ.getVar key with
         | some (.fn id) => do
             -- f(arg_stack_expr, self_expr?, arity=?, ctx=ctx): the first argument is by reference when it is a name
             let (vs, σ1) ← evalArgs cfg n args σ
             let (kvs, σ3) ← evalKws cfg n kw σ1
             let pos := vs ++ (match kvs.find? (·.1 = "self") with | some (_, v) => [v] | Option.none => [])
             let kws : List (String × Val) := kvs.filter (·.1 = "arity")
             let (r, back, σ4) ← callPy cfg n id pos kws true σ3
             let σ5 := (match args, back with
               | (.name x) :: _, some v => σ4.setVar (x, []) v
               | _, _ => σ4)
             .ok (r, σ5)
         | some _ => .error (.raised "TypeError")
         | Option.none =>
           (match fname with
            | some fname => do
                let (vs, σ1) ← evalArgs cfg n args σ
                if vs.any isFnVal then .error (.unmodelled ("function value given to " ++ fname)) else
                let r ← elemFn fname vs
                .ok (r, σ1)
            | Option.none => if σ.depth = 0 then .error (.raised "NameError") else .error (.unmodelled "possibly a closure variable"))
termination_by n _ _ args kw _ => (n, 10, sizeOf args + sizeOf kw + 1)

/-- `a and b` / `a or b` with Python's value semantics -/
def evalBool (cfg : Cfg) : Nat → Bool → List PyExpr → PSt → R (Val × PSt)
  | _, isAnd, [], σ => .ok (.int (b2i isAnd), σ)
  | n, _, [e], σ => evalE cfg n e σ
  | n, isAnd, e :: e2 :: es, σ => do
      let (v, σ1) ← evalE cfg n e σ
      if pyTruth v = isAnd then evalBool cfg n isAnd (e2 :: es) σ1 else .ok (v, σ1)
termination_by n _ es _ => (n, 10, sizeOf es)

/-- keyword arguments other than `ctx=ctx` -/
def evalKws (cfg : Cfg) : Nat → List (String × PyExpr) → PSt → R (List (String × Val) × PSt)
  | _, [], σ => .ok ([], σ)
  | n, (k, e) :: rest, σ =>
      if k = "ctx" then evalKws cfg n rest σ else do
      let (v, σ1) ← evalE cfg n e σ
      let (vs, σ2) ← evalKws cfg n rest σ1
      .ok ((k, v) :: vs, σ2)
termination_by n kw _ => (n, 10, sizeOf kw)

/-- positional arguments left to right; `*e` splices a list; the name `ctx` passed positionally is dropped -/
def evalArgs (cfg : Cfg) : Nat → List PyExpr → PSt → R (List Val × PSt)
  | _, [], σ => .ok ([], σ)
  | n, .starred e :: rest, σ => do
      let (v, σ1) ← evalE cfg n e σ
      let xs ← asList v
      let (vs, σ2) ← evalArgs cfg n rest σ1
      .ok (xs ++ vs, σ2)
  | n, e :: rest, σ =>
      if isCtxName e then evalArgs cfg n rest σ else do
      let (v, σ1) ← evalE cfg n e σ
      let (vs, σ2) ← evalArgs cfg n rest σ1
      .ok (v :: vs, σ2)
termination_by n es _ => (n, 10, sizeOf es)

/-- call the function object `id` with positional and keyword arguments; returns the returned value, the final
    value of the callee's first parameter (the by-reference list), and the state with the caller's frame back -/
def callPy (cfg : Cfg) : Nat → Nat → List Val → List (String × Val) → Bool → PSt → R (Val × Option Val × PSt)
  | 0, _, _, _, _, _ => .error .fuel
  | n + 1, id, pos, kws, _, σ =>
      match σ.fns[id]? with
      | Option.none => .error (.stuck "dangling function reference")
      | some f => do
          let frame ← bindPy cfg n f.params pos kws σ
          let σ1 := { σ with locals := frame, depth := σ.depth + 1 }
          let (sg, σ2) ← execPL cfg n f.body σ1
          let first : Option Val := match f.params with
            | (p, _) :: _ => if p = "arg_stack" then σ2.getVar (p, []) else Option.none   -- `list_item(s, …)` copies `s` first
            | [] => Option.none
          -- back in the caller's frame; a function body cannot rebind a module variable (no `global` statement in
          -- any template: `setVar` at depth > 0 writes the frame), which restoring `globals` states once, here
          -- (likewise the function objects that existed before the call: attributes are only set on freshly made ones)
          let σ3 := { σ2 with locals := σ.locals, depth := σ.depth, globals := σ.globals,
                              fns := σ.fns ++ σ2.fns.drop σ.fns.length }
          match sg with
          | .ret v => .ok (v, first, σ3)
          | .normal => .ok (.none, first, σ3)
          | _ => .error (.stuck "break outside a loop")
termination_by n _ _ _ _ _ => (n, 2, 0)

/-- bind parameters: positional in order, then keywords, then defaults (evaluated in the caller's state; the
    defaults the templates use are constants) -/
def bindPy (cfg : Cfg) : Nat → List (String × Option PyExpr) → List Val → List (String × Val) → PSt → R (List (PKey × Val))
  | _, [], _, _, _ => .ok []
  | n, (p, dflt) :: ps, pos, kws, σ =>
      match pos with
      | v :: pos' => do
          let r ← bindPy cfg n ps pos' kws σ
          .ok (((p, []), v) :: r)
      | [] =>
        if p = "ctx" then bindPy cfg n ps [] kws σ else
        match kws.find? (·.1 = p), dflt with
        | some (_, v), _ => do
            let r ← bindPy cfg n ps [] kws σ
            .ok (((p, []), v) :: r)
        | Option.none, some (.unary "USub" (.cint i)) => do
            let r ← bindPy cfg n ps [] kws σ
            .ok (((p, []), .int (-i)) :: r)
        | Option.none, some .cnone => do
            let r ← bindPy cfg n ps [] kws σ
            .ok (((p, []), .none) :: r)
        | Option.none, _ => .error (.raised "TypeError")
termination_by n ps _ _ _ => (n, 1, ps.length)

/-- `safe_apply(f, a, b, …)`: a lambda gets the reversed argument list, itself and the number of arguments -/
def applyPy (cfg : Cfg) (n : Nat) (f : Val) (args : List Val) (σ : PSt) : R (Val × PSt) :=
  match f with
  | .fn id => do
      let (r, _, σ1) ← callPy cfg n id [.list args.reverse, .fn id, .int args.length] [] false σ
      match r with
      | .list l => (match l.getLast? with | some x => .ok (x, σ1) | Option.none => .ok (.list [], σ1))
      | _ => .error (.stuck "a lambda returns a list")
  | _ => .error (.unmodelled "applying a non-function")
termination_by (n, 3, 0)

def mapPy (cfg : Cfg) : Nat → Val → List Val → PSt → R (List Val × PSt)
  | _, _, [], σ => .ok ([], σ)
  | n, f, x :: xs, σ => do
      let (y, σ1) ← applyPy cfg n f [x] σ
      let (ys, σ2) ← mapPy cfg n f xs σ1
      .ok (y :: ys, σ2)
termination_by n _ xs _ => (n, 4, xs.length)

def mapPy2 (cfg : Cfg) : Nat → Val → List (Val × Val) → PSt → R (List Val × PSt)
  | _, _, [], σ => .ok ([], σ)
  | n, f, (x, y) :: r, σ => do
      let (z, σ1) ← applyPy cfg n f [x, y] σ
      let (zs, σ2) ← mapPy2 cfg n f r σ1
      .ok (z :: zs, σ2)
termination_by n _ xs _ => (n, 4, xs.length)

def filterPy (cfg : Cfg) : Nat → Val → List Val → PSt → R (List Val × PSt)
  | _, _, [], σ => .ok ([], σ)
  | n, f, x :: xs, σ => do
      let (y, σ1) ← applyPy cfg n f [x] σ
      let (ys, σ2) ← filterPy cfg n f xs σ1
      .ok (if truthy y then x :: ys else ys, σ2)
termination_by n _ xs _ => (n, 4, xs.length)

def keysPy (cfg : Cfg) : Nat → Val → List Val → PSt → R (List (Int × Val) × PSt)
  | _, _, [], σ => .ok ([], σ)
  | n, f, x :: xs, σ => do
      let (y, σ1) ← applyPy cfg n f [x] σ
      let (ys, σ2) ← keysPy cfg n f xs σ1
      match y with
      | .int k => .ok ((k, x) :: ys, σ2)
      | _ => .error (.unmodelled "sort key that is not a number")
termination_by n _ xs _ => (n, 4, xs.length)

def foldPy (cfg : Cfg) : Nat → Val → Val → List Val → PSt → R (Val × PSt)
  | _, _, acc, [], σ => .ok (acc, σ)
  | n, f, acc, x :: xs, σ => do
      let (y, σ1) ← applyPy cfg n f [acc, x] σ
      foldPy cfg n f y xs σ1
termination_by n _ _ xs _ => (n, 4, xs.length)

def scanPy (cfg : Cfg) : Nat → Val → Val → List Val → PSt → R (List Val × PSt)
  | _, _, acc, [], σ => .ok ([acc], σ)
  | n, f, acc, x :: xs, σ => do
      let (y, σ1) ← applyPy cfg n f [acc, x] σ
      let (ys, σ2) ← scanPy cfg n f y xs σ1
      .ok (acc :: ys, σ2)
termination_by n _ _ xs _ => (n, 4, xs.length)

/-- statements -/
def execPS (cfg : Cfg) : Nat → PyStmt → PSt → R (PSig × PSt)
  | _, .pass, σ => .ok (.normal, σ)
  | _, .brk, σ => .ok (.brk, σ)
  | _, .cont, σ => .ok (.cont, σ)
  | _, .ret Option.none, σ => .ok (.ret .none, σ)
  | n, .ret (some e), σ => do
      let (v, σ1) ← evalE cfg n e σ
      .ok (.ret v, σ1)
  | n, .assign [t] e, σ => do
      let (v, σ1) ← evalE cfg n e σ
      let σ2 ← assignTo t v σ1
      .ok (.normal, σ2)
  | n, .augAssign t .add e, σ =>
      (match nameKey t with
       | some key => do
           let (v, σ1) ← evalE cfg n e σ
           match σ1.getVar key, v with
           | some (.list xs), .list ys => .ok (.normal, σ1.setVar key (.list (xs ++ ys)))
           | _, _ => .error (.stuck "+= on something that is not a list")
       | Option.none => .error (.stuck "+= target"))
  | n, .expr (.call (.attr (.attr (.name "ctx") lst) meth) args []), σ =>
      ctxListOp cfg n lst meth args σ
  | n, .expr (.call (.attr (.name x) "append") [e] []), σ => do
      let (v, σ1) ← evalE cfg n e σ
      match σ1.getVar (x, []) with
      | some (.list xs) => .ok (.normal, σ1.setVar (x, []) (.list (xs ++ [v])))
      | _ => .error (.stuck "append to something that is not a list variable")
  | n, .expr e, σ => do
      let (_, σ1) ← evalE cfg n e σ
      .ok (.normal, σ1)
  | n, .ifS c t e, σ => do
      let (b, σ1) ← evalE cfg n c σ
      if pyTruth b then execPL cfg n t σ1 else execPL cfg n e σ1
  | n, .whileS c b, σ => whilePy cfg n c b σ
  | n, .forS t it b, σ => do
      let (v, σ1) ← evalE cfg n it σ
      let xs ← asList v
      forPy cfg n t b xs σ1
  | _, .defS name params b, σ =>
      .ok (.normal, ({ σ with fns := σ.fns ++ [({ params := params, body := b } : PFn)] }).setVar (name, []) (.fn σ.fns.length))
  | _, .defP pre s params b, σ =>
      .ok (.normal, ({ σ with fns := σ.fns ++ [({ params := params, body := b } : PFn)] }).setVar (pre, s) (.fn σ.fns.length))
  | _, _, _ => .error (.stuck "statement")
termination_by n s _ => (n, 14, sizeOf s)

def execPL (cfg : Cfg) : Nat → List PyStmt → PSt → R (PSig × PSt)
  | _, [], σ => .ok (.normal, σ)
  | n, s :: rest, σ => do
      let (sg, σ1) ← execPS cfg n s σ
      match sg with
      | .normal => execPL cfg n rest σ1
      | _ => .ok (sg, σ1)
termination_by n l _ => (n, 14, sizeOf l)

/-- `ctx.<list>.append(e)` / `ctx.<list>.pop()` -/
def ctxListOp (cfg : Cfg) : Nat → String → String → List PyExpr → PSt → R (PSig × PSt)
  | n, lst, "append", [e], σ => do
      let (v, σ1) ← evalE cfg n e σ
      match lst with
      | "context_values" => .ok (.normal, { σ1 with ctxVals := v :: σ1.ctxVals })
      | "stacks" => .ok (.normal, { σ1 with stacks := v :: σ1.stacks })
      | "function_stack" => .ok (.normal, { σ1 with fnStack := v :: σ1.fnStack })
      | "inputs" =>
          (match v with
           | .list [.list vals, .int 0] => .ok (.normal, { σ1 with inputs := (vals, 0) :: σ1.inputs })
           | _ => .error (.stuck "input scope"))
      | _ => .error (.stuck ("ctx." ++ lst))
  | _, lst, "pop", [], σ =>
      (match lst with
       | "context_values" => (match σ.ctxVals with | _ :: r => .ok (.normal, { σ with ctxVals := r }) | [] => .error (.raised "IndexError"))
       | "stacks" => (match σ.stacks with | _ :: r => .ok (.normal, { σ with stacks := r }) | [] => .error (.raised "IndexError"))
       | "function_stack" => (match σ.fnStack with | _ :: r => .ok (.normal, { σ with fnStack := r }) | [] => .error (.raised "IndexError"))
       | "inputs" => (match σ.inputs with | _ :: r => .ok (.normal, { σ with inputs := r }) | [] => .error (.raised "IndexError"))
       | _ => .error (.stuck ("ctx." ++ lst)))
  | _, _, _, _, _ => .error (.stuck "ctx list operation")
termination_by n _ _ args _ => (n, 10, sizeOf args)

def whilePy (cfg : Cfg) : Nat → PyExpr → List PyStmt → PSt → R (PSig × PSt)
  | 0, c, _, σ => do
      let (b, σ1) ← evalE cfg 0 c σ
      if pyTruth b then .error .fuel else .ok (.normal, σ1)
  | n + 1, c, body, σ => do
      let (b, σ1) ← evalE cfg n c σ
      if !pyTruth b then .ok (.normal, σ1) else do
        let (sg, σ2) ← execPL cfg n body σ1
        match sg with
        | .normal | .cont => whilePy cfg n c body σ2
        | .brk => .ok (.normal, σ2)
        | .ret v => .ok (.ret v, σ2)
termination_by n _ _ _ => (n, 13, 0)

def forPy (cfg : Cfg) : Nat → PyExpr → List PyStmt → List Val → PSt → R (PSig × PSt)
  | _, _, _, [], σ => .ok (.normal, σ)
  | 0, _, _, _ :: _, _ => .error .fuel
  | n + 1, t, body, x :: xs, σ => do
      let σ0 ← assignTo t x σ
      let (sg, σ1) ← execPL cfg n body σ0
      match sg with
      | .normal | .cont => forPy cfg n t body xs σ1
      | .brk => .ok (.normal, σ1)
      | .ret v => .ok (.ret v, σ1)
termination_by n _ _ _ _ => (n, 13, 0)
end

end Vy.Sem

namespace Vy.Sem
open Vy PyAst

/-! ### whole programs -/

def initPy (flags : String) (inputs : List Val) : PSt :=
  { globals := [(("stack", []), .list (if flags.contains 'H' then [.int 100] else []))], inputs := [(inputs, 0)] }

/-- the end of `execute_vyxal` on the Python state: pop the output from `stack`, apply the flags, print -/
def finishPy (flags : String) (σ : PSt) : R PSt :=
  match σ.getVar ("stack", []) with
  | some (.list xs) => do
      let σ1 : PSt := { σ with inputs := (popPy 1 xs σ.inputs false).2.2 }
      let o ← flags.toList.foldlM (fun o c => applyFlag xs.isEmpty (popPy 1 xs σ.inputs false).2.1.reverse c o)
        (OutV.val ((popPy 1 xs σ.inputs false).1.headD (.int 0)))
      if (!(σ1.printed || flags.contains 'O')) || flags.contains 'o' then
        match o with
        | .text s => .ok (σ1.print (s ++ "\n"))
        | .val v => do let s ← printText v; .ok (σ1.print (s ++ "\n"))
      else .ok σ1
  | _ => .error (.stuck "stack is not a list")

/-- run generated Python; the observation is (final `stack` in Python order, printed text) -/
def pyProgram (cfg : Cfg) (fuel : Nat) (flags : String) (inputs : List Val) (code : List PyStmt) :
    R (List Val × String) := do
  let (sg, σ) ← execPL cfg fuel code (initPy flags inputs)
  match sg with
  | .normal =>
      let σ' ← finishPy flags σ
      (match σ.getVar ("stack", []) with
       | some (.list xs) => .ok (xs, σ'.out)
       | _ => .error (.stuck "stack is not a list"))
  | _ => .error (.stuck "break outside a loop")

end Vy.Sem
