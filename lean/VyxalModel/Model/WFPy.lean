import VyxalModel.Model.PyAst
/-! Context-sensitive well-formedness of generated Python (what `compile()` checks beyond the grammar):
    `break` / `continue` only inside a loop of the same function, `return` only inside a function,
    nothing the serialiser could not represent. -/
namespace PyAst

mutual
def wfE : PyExpr → Bool
  | .other _ _ => false
  | .call f args kw => wfE f && wfEL args && wfKw kw
  | .attr e _ => wfE e
  | .pattr e _ _ => wfE e
  | .subscript e i => wfE e && wfE i
  | .slice a b c => wfO a && wfO b && wfO c
  | .binop _ l r => wfE l && wfE r
  | .boolop _ vs => wfEL vs
  | .unary _ e => wfE e
  | .compare l rest => wfE l && wfC rest
  | .list xs => wfEL xs
  | .tuple xs => wfEL xs
  | .starred e => wfE e
  | .ifExp c t e => wfE c && wfE t && wfE e
  | .lambda _ b => wfE b
  | _ => true
def wfEL : List PyExpr → Bool
  | [] => true
  | x :: xs => wfE x && wfEL xs
def wfKw : List (String × PyExpr) → Bool
  | [] => true
  | (_, x) :: xs => wfE x && wfKw xs
def wfC : List (CmpOp × PyExpr) → Bool
  | [] => true
  | (_, x) :: xs => wfE x && wfC xs
def wfO : Option PyExpr → Bool
  | none => true
  | some e => wfE e
end

/-- an assignment target: a name, an attribute, a subscript, or a tuple / list of those (starred allowed) -/
def wfTarget : PyExpr → Bool
  | .name _ | .pname _ _ => true
  | .attr e _ | .pattr e _ _ => wfE e
  | .subscript e i => wfE e && wfE i
  | .tuple xs | .list xs => xs.all (fun x => match x with
      | .name _ | .pname _ _ => true
      | .attr e _ | .pattr e _ _ => wfE e
      | .subscript e i => wfE e && wfE i
      | .starred (.name _) => true
      | _ => false)
  | _ => false

mutual
def wfS (inLoop inDef : Bool) : PyStmt → Bool
  | .assign ts v => !ts.isEmpty && ts.all wfTarget && wfE v
  | .augAssign t _ v => wfTarget t && wfE v
  | .expr e => wfE e
  | .ifS c t e => wfE c && !t.isEmpty && wfL inLoop inDef t && wfL inLoop inDef e
  | .whileS c b => wfE c && !b.isEmpty && wfL true inDef b
  | .forS t it b => wfTarget t && wfE it && !b.isEmpty && wfL true inDef b
  | .defS _ ps b => ps.all (fun p => wfO p.2) && !b.isEmpty && wfL false true b
  | .defP _ _ ps b => ps.all (fun p => wfO p.2) && !b.isEmpty && wfL false true b
  | .ret v => inDef && wfO v
  | .brk => inLoop
  | .cont => inLoop
  | .pass => true
  | .tryS b hs o f => !b.isEmpty && wfL inLoop inDef b && wfLL inLoop inDef hs && wfL inLoop inDef o && wfL inLoop inDef f
  | .other _ _ _ => false
def wfL (inLoop inDef : Bool) : List PyStmt → Bool
  | [] => true
  | s :: r => wfS inLoop inDef s && wfL inLoop inDef r
def wfLL (inLoop inDef : Bool) : List (List PyStmt) → Bool
  | [] => true
  | l :: r => wfL inLoop inDef l && wfLL inLoop inDef r
end

end PyAst
