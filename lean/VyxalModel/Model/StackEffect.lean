import VyxalModel.Model.PyAst
/-!
# Stack discipline of element templates (C09)

`classifyL` reads a template as a sequence of stack operations: `pop(stack, k, ctx)` in an assignment or
expression statement, `stack.append(e)`, `stack += e`, statements that do not mention `stack` at all
(neutral), `if` / loops over those.  Anything else that mentions `stack` — `len(stack)`, `stack[-2]`,
`deep_copy(stack)`, passing `stack` to a helper — is `whole`: the template may reach arbitrarily deep.

`depth ops` is an abstract interpretation: the deepest position below the initial top that the
sequence can reach (`none` = unbounded).
-/
namespace SE
open PyAst

mutual
/-- does the expression mention the name `stack`? -/
def mentions : PyExpr → Bool
  | .name n => n == "stack"
  | .call f args kw => mentions f || mentionsL args || mentionsKw kw
  | .attr e _ => mentions e
  | .pattr e _ _ => mentions e
  | .subscript e i => mentions e || mentions i
  | .slice a b c => mentionsO a || mentionsO b || mentionsO c
  | .binop _ l r => mentions l || mentions r
  | .boolop _ vs => mentionsL vs
  | .unary _ e => mentions e
  | .compare l rest => mentions l || mentionsC rest
  | .list xs => mentionsL xs
  | .tuple xs => mentionsL xs
  | .starred e => mentions e
  | .ifExp c t e => mentions c || mentions t || mentions e
  | .lambda ps b => !ps.contains "stack" && mentions b
  | .other _ cs => mentionsL cs
  | _ => false
def mentionsL : List PyExpr → Bool
  | [] => false
  | x :: xs => mentions x || mentionsL xs
def mentionsKw : List (String × PyExpr) → Bool
  | [] => false
  | (_, x) :: xs => mentions x || mentionsKw xs
def mentionsC : List (CmpOp × PyExpr) → Bool
  | [] => false
  | (_, x) :: xs => mentions x || mentionsC xs
def mentionsO : Option PyExpr → Bool
  | none => false
  | some e => mentions e
end

inductive SOp
  | pop (k : Nat)
  | peek (j : Nat)                 -- reads the j-th entry from the top (`stack[-j]`) without removing it
  | push
  | extend                         -- stack += <some list>
  | neutral
  | ifS (t e : List SOp)
  | loop (b : List SOp)
  | whole                          -- may reach anywhere
  deriving Repr

def comb (a b : Option (Nat × Nat)) : Option (Nat × Nat) :=
  match a, b with
  | some (p, q), some (r, t) => some (p + r, max q t)
  | _, _ => none

mutual
/-- how an expression uses the stack: `(pops, peek)` when every mention of `stack` is the first argument of a
    literal `pop(stack, k, …)`, a `len(stack)`, or a literal `stack[-j]`; `none` otherwise -/
def exprUse : PyExpr → Option (Nat × Nat)
  | .name n => if n == "stack" then none else some (0, 0)
  | .call (.name "pop") (.name "stack" :: .cint k :: rest) kw =>
      if 0 ≤ k then
        (match exprUseL rest, exprUseKw kw with
         | some (a, b), some (c, d) => some (k.toNat + a + c, max b d)
         | _, _ => none)
      else none
  | .call (.name "len") [.name "stack"] [] => some (0, 0)
  | .subscript (.name "stack") (.unary "USub" (.cint j)) => if 0 < j then some (0, j.toNat) else none
  | .call f args kw =>
      (match exprUse f, exprUseL args, exprUseKw kw with
       | some (a, b), some (c, d), some (e, g) => some (a + c + e, max b (max d g))
       | _, _, _ => none)
  | .attr e _ => exprUse e
  | .pattr e _ _ => exprUse e
  | .subscript e i => comb (exprUse e) (exprUse i)
  | .slice a b c => comb (exprUseO a) (comb (exprUseO b) (exprUseO c))
  | .binop _ l r => comb (exprUse l) (exprUse r)
  | .boolop _ vs => exprUseL vs
  | .unary _ e => exprUse e
  | .compare l rest => comb (exprUse l) (exprUseC rest)
  | .list xs => exprUseL xs
  | .tuple xs => exprUseL xs
  | .starred e => exprUse e
  | .ifExp c t e => comb (exprUse c) (comb (exprUse t) (exprUse e))
  | .lambda ps b => if ps.contains "stack" then some (0, 0) else (if mentions b then none else some (0, 0))
  | .other _ cs => if mentionsL cs then none else some (0, 0)
  | _ => some (0, 0)
def exprUseL : List PyExpr → Option (Nat × Nat)
  | [] => some (0, 0)
  | x :: xs =>
    match exprUse x, exprUseL xs with
    | some (p, q), some (r, t) => some (p + r, max q t)
    | _, _ => none
def exprUseKw : List (String × PyExpr) → Option (Nat × Nat)
  | [] => some (0, 0)
  | (_, x) :: xs =>
    match exprUse x, exprUseKw xs with
    | some (p, q), some (r, t) => some (p + r, max q t)
    | _, _ => none
def exprUseC : List (CmpOp × PyExpr) → Option (Nat × Nat)
  | [] => some (0, 0)
  | (_, x) :: xs => comb (exprUse x) (exprUseC xs)
def exprUseO : Option PyExpr → Option (Nat × Nat)
  | none => some (0, 0)
  | some e => exprUse e
end

/-- the operations an expression performs on the stack: peek as deep as it may look, then its pops -/
def useOps (u : Nat × Nat) : List SOp :=
  (if u.1 + u.2 = 0 then [] else [.peek (u.1 + u.2)]) ++ (if u.1 = 0 then [] else [.pop u.1])

mutual
def classifyS : PyStmt → List SOp
  | .assign ts v =>
      if mentionsL ts then [.whole] else
      match exprUse v with
      | some u => useOps u ++ [.neutral]
      | none => [.whole]
  | .expr (.call (.attr (.name "stack") "append") [a] []) =>
      match exprUse a with
      | some u => useOps u ++ [.push]
      | none => [.whole]
  | .expr e =>
      match exprUse e with
      | some u => useOps u ++ [.neutral]
      | none => [.whole]
  | .augAssign (.name "stack") .add v =>
      match exprUse v with
      | some u => useOps u ++ [.extend]
      | none => [.whole]
  | .augAssign t _ v =>
      if mentions t then [.whole] else
      match exprUse v with
      | some u => useOps u ++ [.neutral]
      | none => [.whole]
  | .ifS c t e =>
      match exprUse c with
      | some u => useOps u ++ [.ifS (classifyL t) (classifyL e)]
      | none => [.whole]
  | .whileS c b =>
      match exprUse c with
      | some (0, 0) => [.loop (classifyL b)]
      | _ => [.whole]
  | .forS t it b =>
      if mentions t then [.whole] else
      match exprUse it with
      | some u => useOps u ++ [.loop (classifyL b)]
      | none => [.whole]
  | .pass => [.neutral]
  | _ => [.whole]
def classifyL : List PyStmt → List SOp
  | [] => []
  | s :: r => classifyS s ++ classifyL r
end

/-- analysis state: `h` = lower bound of (current height − initial height), `d` = deepest reach so far -/
structure St where
  h : Int
  d : Nat
  deriving Repr, DecidableEq

def St.pop (s : St) (k : Nat) : St := ⟨s.h - k, max s.d (-(s.h - k)).toNat⟩
def St.peek (s : St) (j : Nat) : St := ⟨s.h, max s.d (-(s.h - j)).toNat⟩

mutual
def depthS (s : St) : SOp → Option St
  | .pop k => some (s.pop k)
  | .peek j => some (s.peek j)
  | .push => some ⟨s.h + 1, s.d⟩
  | .extend => some s
  | .neutral => some s
  | .whole => none
  | .ifS t e =>
      match depthL s t, depthL s e with
      | some a, some b => some ⟨min a.h b.h, max a.d b.d⟩
      | _, _ => none
  | .loop b =>
      match depthL s b with
      | some a => if s.h ≤ a.h then some ⟨s.h, a.d⟩ else none
      | none => none
def depthL (s : St) : List SOp → Option St
  | [] => some s
  | o :: rest =>
      match depthS s o with
      | some s' => depthL s' rest
      | none => none
end

/-- deepest stack position (counted from the top) a template can touch; `none` = whole stack -/
def templateDepth (body : List PyStmt) : Option Nat := (depthL ⟨0, 0⟩ (classifyL body)).map (·.d)

end SE
