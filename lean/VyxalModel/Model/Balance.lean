import VyxalModel.Model.PyAst
/-!
# Control-flow skeleton of generated Python, for the bookkeeping of `ctx` (C12)

`skelL` erases a `PyStmt` tree to what matters for the four bookkeeping lists of the interpreter
context — `ctx.context_values`, `ctx.inputs`, `ctx.stacks`, `ctx.function_stack` — namely the
`append` / `pop()` statements on them and the control flow.  Anything that calls another method on
one of the lists, assigns to them, or is a construct the erasure does not understand becomes
`unknown`, which the checker rejects.

`chkL lb fb cur l` is a *delta typing*: `cur` is the net change of the four depths since the start of
the enclosing function body; `lb` the delta at the start of the enclosing loop iteration, `fb` the
delta a `return` must have (zero).  It answers `none` (not balanced), `some none` (never falls
through), `some (some d)` (falls through with delta `d` on every path).
-/
namespace Bal
open PyAst

structure D4 where
  cv : Int
  inp : Int
  stk : Int
  fs : Int
  deriving DecidableEq, Repr

def D4.zero : D4 := ⟨0, 0, 0, 0⟩
def D4.add (a b : D4) : D4 := ⟨a.cv + b.cv, a.inp + b.inp, a.stk + b.stk, a.fs + b.fs⟩
def D4.sub (a b : D4) : D4 := ⟨a.cv - b.cv, a.inp - b.inp, a.stk - b.stk, a.fs - b.fs⟩

inductive Sk
  | ev (d : D4)               -- ctx.<list>.append(..) / ctx.<list>.pop()
  | other                     -- does not change the length of the four lists (calls are balanced: see Proofs/C12)
  | unknown                   -- not understood: rejected
  | ifS (t e : List Sk)
  | loop (b : List Sk)
  | brk | cont | ret
  | defn (b : List Sk)
  deriving Repr

def listDelta (lst : String) (d : Int) : Option D4 :=
  if lst = "context_values" then some ⟨d, 0, 0, 0⟩
  else if lst = "inputs" then some ⟨0, d, 0, 0⟩
  else if lst = "stacks" then some ⟨0, 0, d, 0⟩
  else if lst = "function_stack" then some ⟨0, 0, 0, d⟩
  else none

def isBookList (lst : String) : Bool :=
  lst = "context_values" || lst = "inputs" || lst = "stacks" || lst = "function_stack"

/-- is `e` the expression `ctx.<one of the four lists>`? -/
def isCtxList : PyExpr → Bool
  | .attr (.name "ctx") lst => isBookList lst
  | _ => false

mutual
/-- does the expression call a method on one of the four lists (`ctx.inputs.clear()`, a nested
    `.append`, …)?  Reads (`ctx.context_values[-1]`, `len(ctx.stacks)`, slices) are fine. -/
def mutatesE : PyExpr → Bool
  | .call (.attr e _) args kw => isCtxList e || mutatesE e || mutatesEL args || mutatesKw kw
  | .call f args kw => mutatesE f || mutatesEL args || mutatesKw kw
  | .attr e _ => mutatesE e
  | .pattr e _ _ => mutatesE e
  | .subscript e i => mutatesE e || mutatesE i
  | .slice a b c => mutatesO a || mutatesO b || mutatesO c
  | .binop _ l r => mutatesE l || mutatesE r
  | .boolop _ vs => mutatesEL vs
  | .unary _ e => mutatesE e
  | .compare l rest => mutatesE l || mutatesC rest
  | .list xs => mutatesEL xs
  | .tuple xs => mutatesEL xs
  | .starred e => mutatesE e
  | .ifExp c t e => mutatesE c || mutatesE t || mutatesE e
  | .lambda _ b => mutatesE b
  | .other _ cs => mutatesEL cs
  | _ => false
def mutatesEL : List PyExpr → Bool
  | [] => false
  | x :: xs => mutatesE x || mutatesEL xs
def mutatesKw : List (String × PyExpr) → Bool
  | [] => false
  | (_, x) :: xs => mutatesE x || mutatesKw xs
def mutatesC : List (CmpOp × PyExpr) → Bool
  | [] => false
  | (_, x) :: xs => mutatesE x || mutatesC xs
def mutatesO : Option PyExpr → Bool
  | none => false
  | some e => mutatesE e
end

/-- an assignment target that would replace or resize one of the four lists -/
def badTarget : PyExpr → Bool
  | .attr (.name "ctx") lst => isBookList lst
  | .subscript e (.slice _ _ _) => isCtxList e
  | .tuple xs => xs.any (fun x => match x with
      | .attr (.name "ctx") lst => isBookList lst
      | .subscript e (.slice _ _ _) => isCtxList e
      | _ => false)
  | _ => false

mutual
/-- no bookkeeping event and nothing unknown anywhere inside (exits are allowed) -/
def eventFreeS : Sk → Bool
  | .ev _ => false
  | .unknown => false
  | .ifS t e => eventFreeL t && eventFreeL e
  | .loop b => eventFreeL b
  | .defn _ => true
  | _ => true
def eventFreeL : List Sk → Bool
  | [] => true
  | s :: r => eventFreeS s && eventFreeL r
end

mutual
def skelS : PyStmt → Sk
  | .expr (.call (.attr (.attr (.name "ctx") lst) "append") [a] []) =>
      if mutatesE a then .unknown else
      match listDelta lst 1 with
      | some d => .ev d
      | none => .other
  | .expr (.call (.attr (.attr (.name "ctx") lst) "pop") [] []) =>
      match listDelta lst (-1) with
      | some d => .ev d
      | none => .other
  | .expr e => if mutatesE e then .unknown else .other
  | .assign ts v => if mutatesE v || ts.any badTarget || mutatesEL ts then .unknown else .other
  | .augAssign t _ v => if mutatesE v || badTarget t || isCtxList t || mutatesE t then .unknown else .other
  | .ifS c t e => if mutatesE c then .unknown else .ifS (skelL t) (skelL e)
  | .whileS c b => if mutatesE c then .unknown else .loop (skelL b)
  | .forS _ it b => if mutatesE it then .unknown else .loop (skelL b)
  | .defS _ _ b => .defn (skelL b)
  | .defP _ _ _ b => .defn (skelL b)
  | .ret none => .ret
  | .ret (some v) => if mutatesE v then .unknown else .ret
  | .brk => .brk
  | .cont => .cont
  | .pass => .other
  | .tryS b hs o f =>
      -- with event-free parts a try statement is a nondeterministic choice between "body, else, finally"
      -- and "some handler, finally", all at the same delta
      if eventFreeL (skelL b) && eventFreeL (skelL o) && eventFreeL (skelL f) && eventFreeL (skelHandlers hs (skelL f)) then
        .ifS (skelL b ++ skelL o ++ skelL f) (skelHandlers hs (skelL f))
      else .unknown
  | .other tag es ss =>
      -- imports, global/nonlocal, assert … : harmless when they contain no statements and no mutating expression
      if tag = "Delete" || !ss.isEmpty || mutatesEL es then .unknown else .other
def skelL : List PyStmt → List Sk
  | [] => []
  | s :: r => skelS s :: skelL r
def skelHandlers : List (List PyStmt) → List Sk → List Sk
  | [], _ => []
  | h :: r, fin => [.ifS (skelL h ++ fin) (skelHandlers r fin)]
end

/-! ### the checker -/

def joinIf : Option D4 → Option D4 → Option (Option D4)
  | some x, some y => if x = y then some (some x) else none
  | some x, none => some (some x)
  | none, some y => some (some y)
  | none, none => some none

mutual
def chkS (lb fb : Option D4) (cur : D4) : Sk → Option (Option D4)
  | .ev d => some (some (cur.add d))
  | .other => some (some cur)
  | .unknown => none
  | .ifS t e =>
      match chkL lb fb cur t, chkL lb fb cur e with
      | some a, some b => joinIf a b
      | _, _ => none
  | .loop b =>
      match chkL (some cur) fb cur b with
      | some (some x) => if x = cur then some (some cur) else none
      | some none => some (some cur)
      | none => none
  | .brk => if lb = some cur then some none else none
  | .cont => if lb = some cur then some none else none
  | .ret => if fb = some cur then some none else none
  | .defn b =>
      match chkL none (some D4.zero) D4.zero b with
      | some (some x) => if x = D4.zero then some (some cur) else none
      | some none => some (some cur)
      | none => none
def chkL (lb fb : Option D4) (cur : D4) : List Sk → Option (Option D4)
  | [] => some (some cur)
  | s :: rest =>
      match chkS lb fb cur s with
      | some (some d) => chkL lb fb d rest
      | some none => some none
      | none => none
end

/-- a top-level program / a template spliced into any context: falls through with no net change -/
def balancedTop (l : List PyStmt) : Bool := chkL none none D4.zero (skelL l) == some (some D4.zero)

/-- the body of a function: every `return` and the implicit one at the end see zero net change -/
def balancedFn (l : List PyStmt) : Bool :=
  match chkL none (some D4.zero) D4.zero (skelL l) with
  | some (some x) => x == D4.zero
  | some none => true
  | none => false

end Bal
