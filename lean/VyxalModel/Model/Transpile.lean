import VyxalModel.Model.GenTypes
import VyxalModel.Model.Number
import VyxalModel.Model.Strings
import VyxalModel.Model.Codec
/-!
# Model of `vyxal/transpile.py`

`transpileAst env tree` is the Python the real transpiler emits for `tree`, as a `PyStmt` tree
(what `ast.parse` returns for the emitted text).  Element and modifier templates come from the
generated tables through `env`; the structure templates are written out below, one function per
branch of `transpile_structure`.

Program-supplied text enters the result only through `cstrN`, `cint`, `pname`, `pattr`, `defP`.
The random lambda / loop identifiers (`secrets.token_hex`) are a counter threaded through.
-/
namespace Vy
open PyAst

structure TEnv where
  elements : List Gen.Entry
  modifiers : List Gen.Entry
  codepage : Str
  numCompress : Str
  strCompress : Str
  base27 : Str
  compression : Str
  dictCompress : Bool
  small : List Str
  contents : List Str

inductive TErr
  | badTemplate (key : Str)      -- the element / modifier template does not parse as Python
  | stringSyntax                 -- the emitted string literal is not a Python literal (F7 / F24)
  | unmodelled                   -- outside the model (\N{…}, raw CR/NUL, characters outside an alphabet)
  deriving Repr

/-- dict lookup: the last entry with this key wins -/
def lookupEntry (tbl : List Gen.Entry) (k : Str) : Option Gen.Entry :=
  tbl.foldl (fun acc e => if e.key = k then some e else acc) none

/-! ### small constructors -/
def nm (s : String) : PyExpr := .name s
def callN (f : String) (args : List PyExpr) (kw : List (String × PyExpr) := []) : PyExpr := .call (.name f) args kw
def ctxE : PyExpr := .name "ctx"
def stackE : PyExpr := .name "stack"
def kwCtx : List (String × PyExpr) := [("ctx", ctxE)]
def pyInt (i : Int) : PyExpr := if i < 0 then .unary "USub" (.cint (-i)) else .cint i
/-- `stack.append(e)` -/
def push (e : PyExpr) : PyStmt := .expr (.call (.attr stackE "append") [e] [])
/-- `ctx.<list>.<method>(args)` -/
def ctxCall (lst meth : String) (args : List PyExpr) : PyStmt :=
  .expr (.call (.attr (.attr ctxE lst) meth) args [])
/-- `pop(stack, 1, ctx=ctx)` -/
def pop1kw (s : PyExpr := stackE) : PyExpr := .call (.name "pop") [s, .cint 1] kwCtx
/-- `pop(stack, 1, ctx)` -/
def pop1pos (s : PyExpr := stackE) : PyExpr := .call (.name "pop") [s, .cint 1, ctxE] []
def assign1 (t : PyExpr) (v : PyExpr) : PyStmt := .assign [t] v

def isAlnumU (c : Nat) : Bool := isLetter c || isDigit c
/-- `re.sub("[^A-Za-z0-9_]", "", s)` -/
def sanitise (s : Str) : Str := s.filter isAlnumU

def digitsOfNat (n : Nat) : Str := (Nat.toDigits 10 n).map Char.toNat

/-! ### tokens -/

def transpileToken (env : TEnv) (t : Token) : Except TErr (List PyStmt) :=
  match t.kind with
  | .string =>
    let v := if env.dictCompress then uncompressDict env.compression env.small env.contents t.value else t.value
    match pyDecode (escapeString v) with
    | .ok s => .ok [push (.cstrN s)]
    | .error .syntax => .error .stringSyntax
    | .error .unmodelled => .error .unmodelled
  | .number =>
    let parts := numberParts t.value
    .ok [push (.call (.attr (.name "sympy") (if numberUsesRational t.value then "Rational" else "nsimplify")) [.cstrN parts] [])]
  | .general =>
    match lookupEntry env.elements t.value with
    | none => .ok [.pass]
    | some e => match e.body with
      | some b => .ok b
      | none => .error (.badTemplate t.value)
  | .cnum =>
    match uncompressNum env.numCompress t.value with
    | some n => .ok [push (.cint n)]
    | none => .error .unmodelled
  | .cstr =>
    match uncompressStr env.strCompress env.base27 t.value with
    | some s => .ok [push (.cstrN s)]
    | none => .error .unmodelled
  | .vget =>
    match t.value with
    | [] => .ok [push (.attr ctxE "ghost_variable")]
    | c :: _ => if c = 95 then .ok [push (.pattr ctxE "VAR_" t.value)] else .ok [push (.pname "VAR_" t.value)]
  | .vset =>
    match t.value with
    | [] => .ok [assign1 (.attr ctxE "ghost_variable") pop1kw]
    | c :: _ => if c = 95 then .ok [assign1 (.pattr ctxE "VAR_" t.value) pop1pos]
                else .ok [assign1 (.pname "VAR_" t.value) pop1kw]
  | .cpnum =>
    let idx : Int := match t.value with
      | [c] => if env.codepage.contains c then (env.codepage.idxOf c : Int) else -1
      | _ => -1
    .ok [push (pyInt (idx + 101))]
  | .character => .ok [push (.cstrN t.value)]

/-! ### structure templates -/

def lambdaParams : List (String × Option PyExpr) :=
  [("arg_stack", none), ("self", none), ("arity", some (.unary "USub" (.cint 1))), ("ctx", some .cnone)]

/-- first statements of a lambda body: the stack selection, then one push on each bookkeeping list -/
def lambdaPrologue (ar : PyExpr) : List PyStmt :=
  [ .ifS (.compare (nm "arity") [(.ne, .unary "USub" (.cint 1))])
      [assign1 stackE (.call (nm "wrapify") [nm "arg_stack", nm "arity"] kwCtx)]
      [.ifS (.compare (.cstr "stored_arity") [(.in_, callN "dir" [nm "self"])])
         [assign1 stackE (callN "wrapify" [nm "arg_stack", .attr (nm "self") "stored_arity", ctxE])]
         [assign1 stackE (callN "wrapify" [nm "arg_stack", ar, ctxE])]],
    assign1 (nm "this") (nm "self"),
    ctxCall "function_stack" "append" [nm "this"],
    ctxCall "context_values" "append"
      [.ifExp (.compare (callN "len" [stackE]) [(.ne, .cint 1)])
         (callN "list" [callN "deep_copy" [stackE]])
         (callN "deep_copy" [.subscript stackE (.cint 0)])],
    ctxCall "inputs" "append"
      [.list [.subscript (callN "list" [callN "deep_copy" [stackE]]) (.slice none none (some (.unary "USub" (.cint 1)))), .cint 0]],
    ctxCall "stacks" "append" [stackE] ]

/-- last statements of a lambda body: the result, one pop on each list, return -/
def lambdaEpilogue : List PyStmt :=
  [ assign1 (nm "res") (.list [pop1pos]),
    ctxCall "context_values" "pop" [],
    ctxCall "inputs" "pop" [],
    ctxCall "stacks" "pop" [],
    ctxCall "function_stack" "pop" [],
    .ret (some (nm "res")) ]

/-- `transpile_lambda`: `id` = the identifier characters, `ar` = `str(lam.arity)` or `ctx.default_arity` -/
def lambdaTemplate (id : Str) (ar : PyExpr) (body : List PyStmt) : List PyStmt :=
  [ .defP "_lambda_" id lambdaParams (lambdaPrologue ar ++ body ++ lambdaEpilogue),
    assign1 (.attr (.pname "_lambda_" id) "arity") ar,
    push (.pname "_lambda_" id) ]

def arityExpr : Option Nat → PyExpr
  | none => .attr ctxE "default_arity"
  | some n => .cint n

def condPop : PyStmt := assign1 (nm "condition") pop1kw
def boolifyCond : PyExpr := callN "boolify" [nm "condition", ctxE]

/-- the `if` template over already-transpiled branches -/
def ifChain : List (List PyStmt) → List PyStmt
  | [] => []
  | [b0] => [condPop, .ifS boolifyCond b0 []]
  | [b0, b1] => [condPop, .ifS boolifyCond b0 b1]
  | b0 :: b1 :: rest => [condPop, .ifS boolifyCond b0 (b1 ++ ifChain rest)]

def forTemplate (var : PyExpr) (body : List PyStmt) : List PyStmt :=
  [ .forS var (callN "iterable" [pop1kw, nm "range", ctxE])
      ([ctxCall "context_values" "append" [var]] ++ body ++ [ctxCall "context_values" "pop" []]) ]

def whileTemplate (cond body : List PyStmt) : List PyStmt :=
  cond ++ [ condPop,
            .whileS boolifyCond
              ([ctxCall "context_values" "append" [nm "condition"]] ++ body ++
               [ctxCall "context_values" "pop" []] ++ cond ++ [condPop]) ]

/-- one parameter of a function definition (`parameter_total` is not emitted) -/
def paramStmt (p : Str) : PyStmt :=
  if p ≠ [] ∧ p.all isDigit then
    .augAssign (nm "parameters") .add (callN "wrapify" [nm "arg_stack", .cint (natOfDigits p), ctxE])
  else if p = [cStar] then
    .augAssign (nm "parameters") .add (.call (nm "wrapify") [nm "arg_stack", pop1kw (nm "arg_stack")] kwCtx)
  else assign1 (.pname "VAR_" (sanitise p)) (pop1kw (nm "arg_stack"))

def fnDefPrologue (name : Str) (params : List Str) : List PyStmt :=
  [ assign1 (nm "parameters") (.list []) ] ++ params.map paramStmt ++
  [ assign1 stackE (.subscript (nm "parameters") (.slice none none none)),
    ctxCall "context_values" "append" [.subscript (nm "parameters") (.slice none none none)],
    ctxCall "stacks" "append" [stackE],
    ctxCall "inputs" "append" [.list [.subscript (nm "parameters") (.slice none none (some (.unary "USub" (.cint 1)))), .cint 0]],
    assign1 (nm "this") (.pname "VAR_" (sanitise name)) ]

def fnDefEpilogue : List PyStmt :=
  [ ctxCall "context_values" "pop" [],
    ctxCall "inputs" "pop" [],
    ctxCall "stacks" "pop" [],
    .ret (some stackE) ]

def fnDefTemplate (name : Str) (params : List Str) (body : List PyStmt) : List PyStmt :=
  [ .defP "VAR_" (sanitise name) lambdaParams (fnDefPrologue name params ++ body ++ fnDefEpilogue) ]

def fnCallTemplate (name : Str) : List PyStmt :=
  [ .augAssign stackE .add (.call (.pname "VAR_" (sanitise name)) [stackE] [("self", .cnone), ("ctx", ctxE)]) ]

def listItemEpilogue : List PyStmt :=
  [ .ifS (.compare (callN "len" [stackE]) [(.eq, .cint 0)]) [.ret none] [],
    .ret (some pop1kw) ]

def listItemTemplate (item : List PyStmt) : List PyStmt :=
  [ .defS "list_item" [("s", none), ("ctx", none)]
      ([ assign1 stackE (callN "list" [callN "deep_copy" [nm "s"]]) ] ++ item ++ listItemEpilogue),
    assign1 (nm "f") (callN "list_item" [stackE, ctxE]),
    .ifS (.compare (nm "f") [(.isNot, .cnone)]) [.expr (.call (.attr (nm "temp_list") "append") [nm "f"] [])] [] ]

def listTemplate (items : List (List PyStmt)) : List PyStmt :=
  [assign1 (nm "temp_list") (.list [])] ++ (items.map listItemTemplate).flatten ++
  [push (callN "list" [callN "deep_copy" [nm "temp_list"]])]

def functionPop (letter : String) : PyStmt := assign1 (nm ("function_" ++ letter)) pop1pos

/-- `break` (`X`) by the parent kind `parse` recorded.  `parse` stores the class of the *opener*
    (`FunctionCall` for `@`, `LambdaMap` for `ƛ` …) while `transpile_structure` tests for `FunctionDef`
    and `Lambda`, so inside `@…;`, `ƛ`, `'`, `µ` a break is a no-op — copied here. -/
def breakTemplate : Parent → List PyStmt
  | .forS | .whileS => [ctxCall "context_values" "pop" [], .brk]
  | .lam => [ assign1 (nm "ret") (.list [pop1kw]), ctxCall "context_values" "pop" [], ctxCall "inputs" "pop" [],
              ctxCall "stacks" "pop" [], ctxCall "function_stack" "pop" [], .ret (some (nm "ret")) ]
  | _ => [.pass]

/-- `recurse` (`x`) by parent kind (same remark: the `FunctionDef` branch is unreachable) -/
def recurseTemplate : Parent → List PyStmt
  | .ifS => [.pass]
  | .forS | .whileS => [ctxCall "context_values" "pop" [], .cont]
  | .lam => [ .augAssign stackE .add (.call (nm "this") [stackE, nm "this"] kwCtx) ]
  | .mon | .dy | .tri =>
    [ .augAssign stackE .add
        (.call (.subscript (.attr ctxE "function_stack") (.unary "USub" (.cint 2)))
           [stackE, .subscript (.attr ctxE "function_stack") (.unary "USub" (.cint 2))] kwCtx) ]
  | _ => [ .expr (.call (nm "vy_print") [stackE] kwCtx) ]

/-- `lambda_wrap`'s arity for a single wrapped structure -/
def niladic : TokKind → Bool
  | .string | .number | .cnum | .cstr | .vget | .cpnum => true
  | _ => false

def orPass (l : List PyStmt) : List PyStmt := if l.isEmpty then [.pass] else l

mutual
/-- returns the statements and the next free identifier -/
def transpileS (env : TEnv) : Nat → Structure → Except TErr (List PyStmt × Nat)
  | k, .generic t => do let r ← transpileToken env t; pure (r, k)
  | k, .brk p => pure (breakTemplate p, k)
  | k, .recurse p => pure (recurseTemplate p, k)
  | k, .ifS bs => do
      let (bs', k') ← transpileLL env k bs
      pure (ifChain bs', k')
  | k, .forS names body =>
      -- the loop identifier is drawn before the body is transpiled
      let (var, k1) : PyExpr × Nat := match names with
        | [] => (.pname "VAR_" ([76, 79, 79, 80] ++ digitsOfNat k), k + 1)
        | n :: _ => (if sanitise n = [] then .attr ctxE "ghost_variable" else .pname "VAR_" (sanitise n), k)
      do
        let (b, k2) ← transpileL env k1 body
        pure (forTemplate var (orPass b), k2)
  | k, .whileS cond body =>
      match cond with
      | none => do
          let c ← transpileToken env ⟨.number, [49]⟩
          let (b, k1) ← transpileL env k body
          pure (whileTemplate c (orPass b), k1)
      | some cnd => do
          -- `transpile_ast(condition)` is evaluated twice in the real code: the identifiers differ,
          -- so the second copy is transpiled again with fresh identifiers
          let (c1, k1) ← transpileL env k cnd
          let (b, k2) ← transpileL env k1 body
          let (c2, k3) ← transpileL env k2 cnd
          pure (orPass c1 ++ [ condPop,
                  .whileS boolifyCond
                    ([ctxCall "context_values" "append" [nm "condition"]] ++ orPass b ++
                     [ctxCall "context_values" "pop" []] ++ orPass c2 ++ [condPop]) ], k3)
  | k, .fnCall name => pure (fnCallTemplate name, k)
  | k, .fnDef name params body => do
      let (b, k1) ← transpileL env k body
      pure (fnDefTemplate name params (orPass b), k1)
  | k, .lam ar body => do
      -- the identifier is drawn before the body is transpiled
      let (b, k1) ← transpileL env (k + 1) body
      pure (lambdaTemplate (digitsOfNat k) (arityExpr ar) (orPass b), k1)
  | k, .lamOp kind body => do
      let (b, k1) ← transpileL env (k + 1) body
      let a ← transpileToken env ⟨.general, lamOpKey kind⟩
      pure (lambdaTemplate (digitsOfNat k) (.cint 1) (orPass b) ++ a, k1)
  | k, .listS items => do
      let (is, k1) ← transpileLL env k items
      pure (listTemplate is, k1)
  | k, .mon m a => do
      let (fa, k1) ← wrapLambda env k a
      let tmpl ← modTemplate env m
      pure (fa ++ [functionPop "A"] ++ tmpl, k1)
  | k, .dy m a b => do
      let (fa, k1) ← wrapLambda env k a
      let (fb, k2) ← wrapLambda env k1 b
      let tmpl ← modTemplate env m
      pure (fa ++ [functionPop "A"] ++ fb ++ [functionPop "B"] ++ tmpl, k2)
  | k, .tri m a b c => do
      let (fa, k1) ← wrapLambda env k a
      let (fb, k2) ← wrapLambda env k1 b
      let (fc, k3) ← wrapLambda env k2 c
      let tmpl ← modTemplate env m
      pure (fa ++ [functionPop "A"] ++ fb ++ [functionPop "B"] ++ fc ++ [functionPop "C"] ++ tmpl, k3)

/-- `transpile_ast([lambda_wrap([s])])` -/
def wrapLambda (env : TEnv) : Nat → Structure → Except TErr (List PyStmt × Nat)
  | k, .generic t => do
      let ar : Int := if niladic t.kind then 0 else
        match lookupEntry env.elements t.value with
        | some e => e.arity
        | none => 1
      let b ← transpileToken env t
      pure (lambdaTemplate (digitsOfNat k) (pyInt ar) b, k + 1)
  | k, .lam ar body => transpileS env k (.lam ar body)
  | k, s => do
      let (b, k1) ← transpileS env (k + 1) s
      pure (lambdaTemplate (digitsOfNat k) (.cint 1) b, k1)

def modTemplate (env : TEnv) (m : Str) : Except TErr (List PyStmt) :=
  match lookupEntry env.modifiers m with
  | none => .ok [.pass]
  | some e => match e.body with
    | some b => .ok b
    | none => .error (.badTemplate m)

def transpileL (env : TEnv) : Nat → List Structure → Except TErr (List PyStmt × Nat)
  | k, [] => pure ([], k)
  | k, s :: rest => do
      let (a, k1) ← transpileS env k s
      let (b, k2) ← transpileL env k1 rest
      pure (a ++ b, k2)

def transpileLL (env : TEnv) : Nat → List (List Structure) → Except TErr (List (List PyStmt) × Nat)
  | k, [] => pure ([], k)
  | k, l :: rest => do
      let (a, k1) ← transpileL env k l
      let (b, k2) ← transpileLL env k1 rest
      pure (orPass a :: b, k2)
end

/-- `transpile_ast(program)` at top level -/
def transpileAst (env : TEnv) (prog : List Structure) : Except TErr (List PyStmt) := do
  let (r, _) ← transpileL env 0 prog
  pure (orPass r)

end Vy
