import VyxalModel.Model.Parser
/-! Positional codecs of `vyxal/helpers.py`. -/
namespace Vy

/-- `helpers.to_base_digits`: most significant digit first (`while n >= base: divmod`) -/
def toDigitsAux (b : Nat) : Nat → Nat → List Nat → List Nat
  | 0, n, acc => n :: acc
  | fuel + 1, n, acc => if n ≥ b then toDigitsAux b fuel (n / b) (n % b :: acc) else n :: acc

def toDigits (b n : Nat) : List Nat := toDigitsAux b n n []

/-- `helpers.from_base_digits` -/
def fromDigits (b : Nat) (ds : List Nat) : Nat := ds.foldl (fun r d => b * r + d) 0

/-- `helpers.from_base_alphabet` (`alphabet.find` of a missing character is −1 in Python; the model
    is used only on characters of the alphabet and says so: `none` otherwise) -/
def fromAlphabet (α : Str) (s : Str) : Option Nat :=
  s.foldl (fun r c => match r with
    | none => none
    | some r => if α.contains c then some (α.length * r + α.idxOf c) else none) (some 0)

/-- `helpers.to_base_alphabet` -/
def toAlphabet (α : Str) (n : Nat) : Str := (toDigits α.length n).map (fun i => α.getD i 0)

/-- `uncompress_num` -/
def uncompressNum (numAlpha : Str) (s : Str) : Option Nat := fromAlphabet numAlpha s

/-- `uncompress_str` -/
def uncompressStr (strAlpha base27 : Str) (s : Str) : Option Str :=
  (fromAlphabet strAlpha s).map (toAlphabet base27)

end Vy
