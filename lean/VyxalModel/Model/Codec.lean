import VyxalModel.Model.Parser
/-! Positional codecs of `vyxal/helpers.py` and the `τ` (`to_base`) element of `vyxal/elements.py`. -/
namespace Vy

/-- `helpers.to_base_digits`: `while n >= base: n, digit = divmod(n, base)`; most significant digit first.
    (For `base < 2` the Python loop does not terminate; the model answers `[n]` and every theorem assumes `2 ≤ base`.) -/
def toDigits (b : Nat) (n : Nat) : List Nat :=
  if h : b < 2 then [n] else
  if n < b then [n] else toDigits b (n / b) ++ [n % b]
termination_by n
decreasing_by
  have : 2 ≤ b := by omega
  exact Nat.div_lt_self (by omega) (by omega)

/-- `helpers.from_base_digits`: Horner -/
def fromDigits (b : Nat) (ds : List Nat) : Nat := ds.foldl (fun r d => b * r + d) 0

/-- `helpers.from_base_alphabet` (`alphabet.find` of a missing character is −1 in Python; the model
    says `none` there and is used only on characters of the alphabet) -/
def alphaStep (α : Str) (r : Option Nat) (c : Nat) : Option Nat :=
  match r with
  | none => none
  | some r => if α.contains c then some (α.length * r + α.idxOf c) else none

def fromAlphabet (α : Str) (s : Str) : Option Nat := s.foldl (alphaStep α) (some 0)

/-- `helpers.to_base_alphabet` -/
def toAlphabet (α : Str) (n : Nat) : Str := (toDigits α.length n).map (fun i => α.getD i 0)

/-- `uncompress_num` -/
def uncompressNum (numAlpha : Str) (s : Str) : Option Nat := fromAlphabet numAlpha s

/-- `uncompress_str` -/
def uncompressStr (strAlpha base27 : Str) (s : Str) : Option Str :=
  (fromAlphabet strAlpha s).map (toAlphabet base27)

/-- the digit loop of the `τ` element: `for i in range(e, -1, -1): digit, n = divmod(n, b ** i)`.
    `e` is `int(log_b n)` computed **in floating point** in the real code; here it is a parameter. -/
def toBaseLoop (b : Nat) : Nat → Nat → List Nat
  | 0, n => [n]
  | e + 1, n => (n / b ^ (e + 1)) :: toBaseLoop b e (n % b ^ (e + 1))

/-- `to_base(n, alphabet)`: each digit indexes the alphabet cyclically (`index(rhs, digit)`) -/
def toBaseAlpha (α : Str) (e n : Nat) : Str := (toBaseLoop α.length e n).map (fun d => α.getD (d % α.length) 0)

/-- `øC` : the program text of a compressed number -/
def compressNum (numAlpha : Str) (e n : Nat) : Str := 187 :: toBaseAlpha numAlpha e n ++ [187]

/-- `øc` : the program text of a compressed lowercase-and-space string (`N` = its base-27 value) -/
def compressStr (strAlpha : Str) (e N : Nat) : Str := 171 :: toBaseAlpha strAlpha e N ++ [171]

end Vy
