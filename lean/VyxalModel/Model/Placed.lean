import VyxalModel.Model.Parser
/-! Where `X` (break) and `x` (recurse / continue) stand in a parsed program: `parse` records the kind of the enclosing
    structure in the node, and the transpiler picks the template by that kind; the text is valid Python when that kind
    is also the context the template ends up in.  (C02: hypothesis of `transpile_wf`; the two placements where it fails
    are the known findings F5 / F26.) -/
namespace Vy

/-- where `X` / `x` stand: the parent kind `parse` recorded must be the context the emitted text ends up in
    (known findings F5 / F26 are the two placements where it is not) -/
def placedBrk (inLoop inDef : Bool) : Parent → Bool
  | .forS | .whileS => inLoop
  | .lam => inDef
  | _ => true

def placedRec (inLoop : Bool) : Parent → Bool
  | .forS | .whileS => inLoop
  | _ => true

mutual
def placedS (inLoop inDef : Bool) : Structure → Bool
  | .generic _ => true
  | .brk p => placedBrk inLoop inDef p
  | .recurse p => placedRec inLoop p
  | .ifS bs => placedLL inLoop inDef bs
  | .forS _ body => placedL true inDef body
  | .whileS Option.none body => placedL true inDef body
  | .whileS (some c) body => placedL inLoop inDef c && placedL true inDef body
  | .fnCall _ => true
  | .fnDef _ _ body => placedL false true body
  | .lam _ body => placedL false true body
  | .lamOp _ body => placedL false true body
  | .listS items => placedLL false true items
  | .mon _ a => placedS false true a
  | .dy _ a b => placedS false true a && placedS false true b
  | .tri _ a b c => placedS false true a && placedS false true b && placedS false true c
def placedL (inLoop inDef : Bool) : List Structure → Bool
  | [] => true
  | s :: r => placedS inLoop inDef s && placedL inLoop inDef r
def placedLL (inLoop inDef : Bool) : List (List Structure) → Bool
  | [] => true
  | l :: r => placedL inLoop inDef l && placedLL inLoop inDef r
end

end Vy
