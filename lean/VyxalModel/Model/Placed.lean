import VyxalModel.Model.Parser
/-! Where `X` (break) and `x` (recurse / continue) stand in a parsed program: `parse` records the kind of the enclosing
    structure in the node, and the transpiler picks the template by that kind; the text is valid Python when that kind
    is also the context the template ends up in.  (C02: hypothesis of `transpile_wf`; the two placements where it fails
    are the known findings F5 / F26.) -/
namespace Vy

/-- where `X` / `x` stand: the parent kind `parse` recorded must be the context the emitted text ends up in
    (known findings F5 / F26 are the two placements where it is not) -/
def placedBrk (inLoop inDef : Bool) : Parent → Bool
  | .forS | .whileS => inLoop
  | .lam => inDef
  | _ => true

def placedRec (inLoop : Bool) : Parent → Bool
  | .forS | .whileS => inLoop
  | _ => true

mutual
def placedS (inLoop inDef : Bool) : Structure → Bool
  | .generic _ => true
  | .brk p => placedBrk inLoop inDef p
  | .recurse p => placedRec inLoop p
  | .ifS bs => placedLL inLoop inDef bs
  | .forS _ body => placedL true inDef body
  | .whileS Option.none body => placedL true inDef body
  | .whileS (some c) body => placedL inLoop inDef c && placedL true inDef body
  | .fnCall _ => true
  | .fnDef _ _ body => placedL false true body
  | .lam _ body => placedL false true body
  | .lamOp _ body => placedL false true body
  | .listS items => placedLL false true items
  | .mon _ a => placedS false true a
  | .dy _ a b => placedS false true a && placedS false true b
  | .tri _ a b c => placedS false true a && placedS false true b && placedS false true c
def placedL (inLoop inDef : Bool) : List Structure → Bool
  | [] => true
  | s :: r => placedS inLoop inDef s && placedL inLoop inDef r
def placedLL (inLoop inDef : Bool) : List (List Structure) → Bool
  | [] => true
  | l :: r => placedL inLoop inDef l && placedLL inLoop inDef r
end

/-! C12: where `X` / `x` stand with respect to the bookkeeping depths (hypothesis of `transpile_balanced`): in the body of
    a loop (`loop`: one context value deeper than the loop statement), directly in a lambda body (`lam`: all four lists
    one deeper than the `def`), or anywhere else (`plain`: a while condition, a list item, a function body, top level) -/

inductive BCtx | plain | loop | lam
  deriving DecidableEq, Repr

def bBrk (c : BCtx) : Parent → Bool
  | .forS | .whileS => c == .loop
  | .lam => c == .lam
  | _ => true

def bRec (c : BCtx) : Parent → Bool
  | .forS | .whileS => c == .loop
  | _ => true

mutual
def bplS (c : BCtx) : Structure → Bool
  | .generic _ => true
  | .brk p => bBrk c p
  | .recurse p => bRec c p
  | .ifS bs => bplLL c bs
  | .forS _ body => bplL .loop body
  | .whileS Option.none body => bplL .loop body
  | .whileS (some cnd) body => bplL .plain cnd && bplL .loop body
  | .fnCall _ => true
  | .fnDef _ _ body => bplL .plain body
  | .lam _ body => bplL .lam body
  | .lamOp _ body => bplL .lam body
  | .listS items => bplLL .plain items
  | .mon _ a => bplS .lam a
  | .dy _ a b => bplS .lam a && bplS .lam b
  | .tri _ a b c => bplS .lam a && bplS .lam b && bplS .lam c
def bplL (c : BCtx) : List Structure → Bool
  | [] => true
  | s :: r => bplS c s && bplL c r
def bplLL (c : BCtx) : List (List Structure) → Bool
  | [] => true
  | l :: r => bplL c l && bplLL c r
end

/-! C18: the lexer's guarantee on variable tokens, as a predicate on trees (hypothesis of `names_from_vocabulary`) -/

/-- the lexer's guarantee on variable tokens (`lex_variable_letters`), as a predicate on trees -/
def vtokOK (t : Token) : Bool :=
  match t.kind with
  | .vget | .vset => t.value.all isLetter
  | _ => true

mutual
def vtokS : Structure → Bool
  | .generic t => vtokOK t
  | .brk _ | .recurse _ | .fnCall _ => true
  | .ifS bs => vtokLL bs
  | .forS _ body => vtokL body
  | .whileS Option.none body => vtokL body
  | .whileS (some c) body => vtokL c && vtokL body
  | .fnDef _ _ body => vtokL body
  | .lam _ body => vtokL body
  | .lamOp _ body => vtokL body
  | .listS items => vtokLL items
  | .mon _ a => vtokS a
  | .dy _ a b => vtokS a && vtokS b
  | .tri _ a b c => vtokS a && vtokS b && vtokS c
def vtokL : List Structure → Bool
  | [] => true
  | s :: r => vtokS s && vtokL r
def vtokLL : List (List Structure) → Bool
  | [] => true
  | l :: r => vtokL l && vtokLL r
end

/-! every token of the tree satisfies `q` (the element a map / filter / sort lambda is followed by included) -/

mutual
def allTokS (q : Token → Bool) : Structure → Bool
  | .generic t => q t
  | .brk _ | .recurse _ | .fnCall _ => true
  | .ifS bs => allTokLL q bs
  | .forS _ body => allTokL q body
  | .whileS Option.none body => allTokL q body
  | .whileS (some c) body => allTokL q c && allTokL q body
  | .fnDef _ _ body => allTokL q body
  | .lam _ body => allTokL q body
  | .lamOp k body => allTokL q body && q ⟨.general, lamOpKey k⟩
  | .listS items => allTokLL q items
  | .mon _ a => allTokS q a
  | .dy _ a b => allTokS q a && allTokS q b
  | .tri _ a b c => allTokS q a && allTokS q b && allTokS q c
def allTokL (q : Token → Bool) : List Structure → Bool
  | [] => true
  | s :: r => allTokS q s && allTokL q r
def allTokLL (q : Token → Bool) : List (List Structure) → Bool
  | [] => true
  | l :: r => allTokL q l && allTokLL q r
end

end Vy
