import VyxalModel.Model.PyAst
/-! Canonical one-line dump of a `PyStmt` tree — the same format as `tools/pyast2lean.py: dumpS`. -/
namespace PyAst

def cpsS (l : List Nat) : String := ",".intercalate (l.map toString)
def strCps (s : String) : String := cpsS (s.toList.map Char.toNat)
def progName (pre : String) (s : List Nat) : String := pre ++ String.ofList (s.map Char.ofNat)
def dl (xs : List String) : String := "[" ++ " ".intercalate xs ++ "]"

def binName : BinOp → String
  | .add => "add" | .sub => "sub" | .mul => "mul" | .div => "div" | .pow => "pow" | .mod => "mod" | .fdiv => "fdiv"
  | .band => "band" | .bor => "bor" | .bxor => "bxor" | .shl => "shl" | .shr => "shr" | .matmul => "matmul"
def cmpName : CmpOp → String
  | .eq => "eq" | .ne => "ne" | .lt => "lt" | .le => "le" | .gt => "gt" | .ge => "ge" | .is_ => "is_"
  | .isNot => "isNot" | .in_ => "in_" | .notIn => "notIn"

mutual
partial def dumpE : PyExpr → String
  | .name n => s!"(n {n})"
  | .cint i => s!"(i {i})"
  | .cstr s => s!"(s {strCps s})"
  | .cbool b => if b then "(b T)" else "(b F)"
  | .cnone => "(none)"
  | .cfloat r => s!"(f {r})"
  | .call f args kw => s!"(call {dumpE f} {dl (args.map dumpE)} {dl (kw.map (fun (k, v) => s!"(kw {k} {dumpE v})"))})"
  | .attr e a => s!"(attr {dumpE e} {a})"
  | .subscript e i => s!"(sub {dumpE e} {dumpE i})"
  | .slice a b c => s!"(slice {dumpO a} {dumpO b} {dumpO c})"
  | .binop op l r => s!"(bin {binName op} {dumpE l} {dumpE r})"
  | .boolop isAnd vs => s!"({if isAnd then "and" else "or"} {dl (vs.map dumpE)})"
  | .unary op e => s!"(un {op} {dumpE e})"
  | .compare l rest => s!"(cmp {dumpE l} {dl (rest.map (fun (o, c) => s!"({cmpName o} {dumpE c})"))})"
  | .list xs => s!"(list {dl (xs.map dumpE)})"
  | .tuple xs => s!"(tuple {dl (xs.map dumpE)})"
  | .starred e => s!"(star {dumpE e})"
  | .ifExp c t e => s!"(ifexp {dumpE c} {dumpE t} {dumpE e})"
  | .lambda ps b => s!"(lambda {dl ps} {dumpE b})"
  | .other t cs => s!"(other {t} {dl (cs.map dumpE)})"
  | .cstrN l => s!"(s {cpsS l})"
  | .pname pre s => s!"(n {progName pre s})"
  | .pattr e pre s => s!"(attr {dumpE e} {progName pre s})"
partial def dumpO : Option PyExpr → String
  | none => "_"
  | some e => dumpE e
end

def dumpParams (ps : List (String × Option PyExpr)) : String :=
  dl (ps.map (fun (n, d) => s!"({n} {dumpO d})"))

mutual
partial def dumpS : PyStmt → String
  | .assign ts v => s!"(assign {dl (ts.map dumpE)} {dumpE v})"
  | .augAssign t op v => s!"(aug {dumpE t} {binName op} {dumpE v})"
  | .expr e => s!"(expr {dumpE e})"
  | .ifS c t e => s!"(if {dumpE c} {dumpSL t} {dumpSL e})"
  | .whileS c b => s!"(while {dumpE c} {dumpSL b})"
  | .forS t i b => s!"(for {dumpE t} {dumpE i} {dumpSL b})"
  | .defS n ps b => s!"(def {n} {dumpParams ps} {dumpSL b})"
  | .defP pre s ps b => s!"(def {progName pre s} {dumpParams ps} {dumpSL b})"
  | .ret none => "(ret _)"
  | .ret (some v) => s!"(ret {dumpE v})"
  | .brk => "(break)"
  | .cont => "(continue)"
  | .pass => "(pass)"
  | .tryS b hs o f => s!"(try {dumpSL b} {dl (hs.map dumpSL)} {dumpSL o} {dumpSL f})"
  | .other t es ss => s!"(other {t} {dl (es.map dumpE)} {dumpSL ss})"
partial def dumpSL (l : List PyStmt) : String := dl (l.map dumpS)
end

end PyAst
