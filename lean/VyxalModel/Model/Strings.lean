import VyxalModel.Model.Lexer
/-! Models for the string path: `quotify` (string overload), the escaping loop of `transpile_token`,
    CPython's decoding of the body of a `"…"` literal (for the escapes that can arise), and
    `helpers.uncompress_dict` (parametric in the compression alphabet and the two word lists). -/
namespace Vy

def cBS : Nat := 92      -- backslash
def cBQ : Nat := 96      -- back-quote
def cDQ : Nat := 34      -- double quote
def cNL : Nat := 10

/-- `quotify` on a string: backslash ↦ two backslashes, back-quote ↦ backslash back-quote -/
def escBB : Str → Str
  | [] => []
  | c :: cs => if c = cBS then cBS :: cBS :: escBB cs else if c = cBQ then cBS :: cBQ :: escBB cs else c :: escBB cs

/-- the program text `quotify` returns for a string -/
def quotify (s : Str) : Str := cBQ :: escBB s ++ [cBQ]

/-- `transpile_token` STRING: the manual escaping loop (the text between the emitted double quotes) -/
def escapeString : Str → Str
  | [] => []
  | c :: cs =>
    if c = cBS then
      match cs with
      | [] => [cBS]                                   -- "\\" + "" : a lone backslash
      | d :: ds => if d = cBQ then cBQ :: escapeString ds else cBS :: d :: escapeString ds
    else if c = cDQ then cBS :: cDQ :: escapeString cs
    else if c = cNL then cBS :: 110 :: escapeString cs
    else c :: escapeString cs
termination_by l => l.length

/-- body of a Python "..." literal, for the escapes that can arise here: `\\`, `\"`, `\n`;
    any other `\c` is kept as two characters (CPython's behaviour for unknown escapes);
    a raw quote, a raw newline or a trailing lone backslash is not a literal body -/
def pyStringBody : Str → Option Str
  | [] => some []
  | c :: cs =>
    if c = cDQ ∨ c = cNL then none
    else if c = cBS then
      match cs with
      | [] => none
      | d :: ds =>
        (pyStringBody ds).map (fun r =>
          if d = cBS then cBS :: r else if d = cDQ then cDQ :: r else if d = 110 then cNL :: r else cBS :: d :: r)
    else (pyStringBody cs).map (c :: ·)
termination_by l => l.length

/-- backslashes are paired the way both escaping loops read them -/
def wellPaired : Str → Bool
  | [] => true
  | c :: cs =>
    if c = cBS then
      match cs with
      | [] => false
      | _ :: ds => wellPaired ds
    else wellPaired cs
termination_by l => l.length

/-! ### dictionary decompression -/

structure UD where
  ret : Str
  scc : Str
  esc : Bool

/-- flush a pending single compression character through the small dictionary -/
def udFlush (comp : Str) (small : List Str) (st : UD) : Str :=
  match st.scc with
  | [] => st.ret
  | c :: _ => st.ret ++ (small[comp.idxOf c]?).getD []

def udStep (comp : Str) (small contents : List Str) (st : UD) (c : Nat) : UD :=
  if st.esc then
    let r1 := udFlush comp small st
    let r2 := if comp.contains c then r1 else r1 ++ [cBS]
    ⟨r2 ++ [c], [], false⟩
  else if c = cBS then { st with esc := true }
  else if comp.contains c then
    match st.scc with
    | [] => { st with scc := [c] }
    | a :: _ => ⟨st.ret ++ (contents[comp.length * comp.idxOf a + comp.idxOf c]?).getD [], [], false⟩
  else
    match st.scc with
    | [] => { st with ret := st.ret ++ [c] }
    | _ :: _ => if c = 32 then ⟨udFlush comp small st, [], false⟩ else ⟨udFlush comp small st ++ [c], [], false⟩

def uncompressDict (comp : Str) (small contents : List Str) (s : Str) : Str :=
  udFlush comp small (s.foldl (udStep comp small contents) ⟨[], [], false⟩)

end Vy
