import VyxalModel.Model.Lexer
/-! Models for the string path: `quotify` (string overload), the escaping loop of `transpile_token`,
    CPython's decoding of the body of a `"…"` literal (for the escapes that can arise), and
    `helpers.uncompress_dict` (parametric in the compression alphabet and the two word lists). -/
namespace Vy

def cBS : Nat := 92      -- backslash
def cBQ : Nat := 96      -- back-quote
def cDQ : Nat := 34      -- double quote
def cNL : Nat := 10

/-- `quotify` on a string: backslash ↦ two backslashes, back-quote ↦ backslash back-quote -/
def escBB : Str → Str
  | [] => []
  | c :: cs => if c = cBS then cBS :: cBS :: escBB cs else if c = cBQ then cBS :: cBQ :: escBB cs else c :: escBB cs

/-- the program text `quotify` returns for a string -/
def quotify (s : Str) : Str := cBQ :: escBB s ++ [cBQ]

/-- `transpile_token` STRING: the manual escaping loop (the text between the emitted double quotes) -/
def escapeString : Str → Str
  | [] => []
  | c :: cs =>
    if c = cBS then
      match cs with
      | [] => [cBS, cBS]                              -- a lone backslash at the end is emitted escaped
      | d :: ds => if d = cBQ then cBQ :: escapeString ds else cBS :: d :: escapeString ds
    else if c = cDQ then cBS :: cDQ :: escapeString cs
    else if c = cNL then cBS :: 110 :: escapeString cs
    else c :: escapeString cs
termination_by l => l.length

/-- body of a Python "..." literal, for the escapes that can arise here: `\\`, `\"`, `\n`;
    any other `\c` is kept as two characters (CPython's behaviour for unknown escapes);
    a raw quote, a raw newline or a trailing lone backslash is not a literal body -/
def pyStringBody : Str → Option Str
  | [] => some []
  | c :: cs =>
    if c = cDQ ∨ c = cNL then none
    else if c = cBS then
      match cs with
      | [] => none
      | d :: ds =>
        (pyStringBody ds).map (fun r =>
          if d = cBS then cBS :: r else if d = cDQ then cDQ :: r else if d = 110 then cNL :: r else cBS :: d :: r)
    else (pyStringBody cs).map (c :: ·)
termination_by l => l.length

/-- backslashes are paired the way both escaping loops read them -/
def wellPaired : Str → Bool
  | [] => true
  | c :: cs =>
    if c = cBS then
      match cs with
      | [] => false
      | _ :: ds => wellPaired ds
    else wellPaired cs
termination_by l => l.length

/-! ### dictionary decompression -/

structure UD where
  ret : Str
  scc : Str
  esc : Bool

/-- flush a pending single compression character through the small dictionary -/
def udFlush (comp : Str) (small : List Str) (st : UD) : Str :=
  match st.scc with
  | [] => st.ret
  | c :: _ => st.ret ++ (small[comp.idxOf c]?).getD []

def udStep (comp : Str) (small contents : List Str) (st : UD) (c : Nat) : UD :=
  if st.esc then
    let r1 := udFlush comp small st
    let r2 := if comp.contains c then r1 else r1 ++ [cBS]
    ⟨r2 ++ [c], [], false⟩
  else if c = cBS then { st with esc := true }
  else if comp.contains c then
    match st.scc with
    | [] => { st with scc := [c] }
    | a :: _ => ⟨st.ret ++ (contents[comp.length * comp.idxOf a + comp.idxOf c]?).getD [], [], false⟩
  else
    match st.scc with
    | [] => { st with ret := st.ret ++ [c] }
    | _ :: _ => if c = 32 then ⟨udFlush comp small st, [], false⟩ else ⟨udFlush comp small st ++ [c], [], false⟩

def uncompressDict (comp : Str) (small contents : List Str) (s : Str) : Str :=
  udFlush comp small (s.foldl (udStep comp small contents) ⟨[], [], false⟩)

end Vy

namespace Vy
/-! ### CPython's decoding of the body of a (non-raw, non-byte) string literal -/

inductive DecErr | syntax | unmodelled
  deriving DecidableEq, Repr

def hexVal (c : Nat) : Option Nat :=
  if 48 ≤ c ∧ c ≤ 57 then some (c - 48)
  else if 97 ≤ c ∧ c ≤ 102 then some (c - 87)
  else if 65 ≤ c ∧ c ≤ 70 then some (c - 55)
  else none

def isOct (c : Nat) : Bool := 48 ≤ c && c ≤ 55

/-- read exactly `k` hex digits -/
def takeHex : Nat → Str → Nat → Option (Nat × Str)
  | 0, s, acc => some (acc, s)
  | k + 1, c :: cs, acc => match hexVal c with
    | some v => takeHex k cs (16 * acc + v)
    | none => none
  | _ + 1, [], _ => none

/-- read up to `k` octal digits -/
def takeOct : Nat → Str → Nat → Nat × Str
  | 0, s, acc => (acc, s)
  | k + 1, c :: cs, acc => if isOct c then takeOct k cs (8 * acc + (c - 48)) else (acc, c :: cs)
  | _ + 1, [], acc => (acc, [])

theorem takeHex_len : ∀ (k : Nat) (s : Str) (acc v : Nat) (r : Str), takeHex k s acc = some (v, r) → r.length ≤ s.length
  | 0, s, acc, v, r, h => by simp [takeHex] at h; simp [h.2]
  | k + 1, [], acc, v, r, h => by simp [takeHex] at h
  | k + 1, c :: cs, acc, v, r, h => by
    simp only [takeHex] at h
    cases hv : hexVal c with
    | none => simp [hv] at h
    | some x =>
      simp only [hv] at h
      have := takeHex_len k cs _ v r h
      simp; omega

theorem takeOct_len : ∀ (k : Nat) (s : Str) (acc : Nat), (takeOct k s acc).2.length ≤ s.length
  | 0, s, acc => by simp [takeOct]
  | k + 1, [], acc => by simp [takeOct]
  | k + 1, c :: cs, acc => by
    simp only [takeOct]
    split
    · have := takeOct_len k cs (8 * acc + (c - 48)); simp; omega
    · simp

/-- decode the text between the quotes of a `"…"` literal.  `fuel` ≥ length suffices. -/
def pyDecodeF : Nat → Str → Except DecErr Str
  | 0, _ => .error .unmodelled
  | _ + 1, [] => .ok []
  | n + 1, c :: cs =>
    if c = cDQ ∨ c = cNL then .error .syntax                 -- raw quote / raw newline ends the literal
    else if c = 13 ∨ c = 0 ∨ c = 11 ∨ c = 12 ∨ c = 28 ∨ c = 29 ∨ c = 30 ∨ c = 133 ∨ c = 8232 ∨ c = 8233 then
      .error .unmodelled    -- raw CR / NUL (tokenizer) and the other `str.splitlines` boundaries (`textwrap.indent` re-indents after them)
    else if c ≠ cBS then (pyDecodeF n cs).map (c :: ·)
    else match cs with
      | [] => .error .syntax                                 -- dangling backslash
      | d :: ds =>
        if d = cNL then .error .unmodelled                   -- line continuation: the next line's indentation joins the string
        else if d = cBS then (pyDecodeF n ds).map (cBS :: ·)
        else if d = 39 then (pyDecodeF n ds).map (39 :: ·)
        else if d = cDQ then (pyDecodeF n ds).map (cDQ :: ·)
        else if d = 97 then (pyDecodeF n ds).map (7 :: ·)
        else if d = 98 then (pyDecodeF n ds).map (8 :: ·)
        else if d = 102 then (pyDecodeF n ds).map (12 :: ·)
        else if d = 110 then (pyDecodeF n ds).map (10 :: ·)
        else if d = 114 then (pyDecodeF n ds).map (13 :: ·)
        else if d = 116 then (pyDecodeF n ds).map (9 :: ·)
        else if d = 118 then (pyDecodeF n ds).map (11 :: ·)
        else if isOct d then
          -- (a value above 0o377 is only a SyntaxWarning, "invalid octal escape sequence", in CPython 3.12: the character is kept)
          let (v, r) := takeOct 2 ds (d - 48)
          (pyDecodeF n r).map (v :: ·)
        else if d = 120 then
          (match takeHex 2 ds 0 with
           | some (v, r) => (pyDecodeF n r).map (v :: ·)
           | none => .error .syntax)
        else if d = 117 then
          (match takeHex 4 ds 0 with
           | some (v, r) => (pyDecodeF n r).map (v :: ·)
           | none => .error .syntax)
        else if d = 85 then
          (match takeHex 8 ds 0 with
           | some (v, r) => if v > 1114111 then .error .syntax else (pyDecodeF n r).map (v :: ·)
           | none => .error .syntax)
        else if d = 78 then .error .unmodelled               -- \N{name}
        else if d = 13 ∨ d = 0 ∨ d = 11 ∨ d = 12 ∨ d = 28 ∨ d = 29 ∨ d = 30 ∨ d = 133 ∨ d = 8232 ∨ d = 8233 then .error .unmodelled
        else (pyDecodeF n ds).map (fun r => cBS :: d :: r)    -- unknown escape: kept (a warning, not an error)

def pyDecode (s : Str) : Except DecErr Str := pyDecodeF (s.length + 1) s

end Vy
