/-! Model of `vyxal/encoding.py`: `vyxal_to_utf8` / `utf8_to_vyxal`, parametric in the code page.
    The real functions raise on a byte ≥ len(codepage) / on a character that is not in the code page;
    the model returns `none` there. -/
namespace Vy

/-- `vyxal_to_utf8`: bytes ↦ characters (`codepage[char]`) -/
def vyxalToUtf8 (cp : List Nat) : List Nat → Option (List Nat)
  | [] => some []
  | b :: bs => match cp[b]?, vyxalToUtf8 cp bs with
    | some c, some r => some (c :: r)
    | _, _ => none

/-- `utf8_to_vyxal`: characters ↦ bytes (`codepage.index(char)`) -/
def utf8ToVyxal (cp : List Nat) : List Nat → Option (List Nat)
  | [] => some []
  | c :: cs => if cp.idxOf c < cp.length then
      (match utf8ToVyxal cp cs with
       | some r => some (cp.idxOf c :: r)
       | none => none)
    else none

/-- Boolean duplicate check used for the table theorems (kernel-friendly) -/
def nodupB : List Nat → Bool
  | [] => true
  | x :: xs => !xs.contains x && nodupB xs

def nodupBL : List (List Nat) → Bool
  | [] => true
  | x :: xs => !xs.contains x && nodupBL xs

end Vy
