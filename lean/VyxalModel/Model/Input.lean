/-!
# Model of the input scopes: `helpers.get_input`, `helpers.pop` on an empty stack, the `?` template,
  and the scope push / pop of the lambda and function templates
-/
namespace Inp

structure Sc where
  vals : List Int
  cur : Nat
  deriving Repr, DecidableEq

structure St where
  top : Sc               -- ctx.inputs[0] : the program's inputs
  inner : List Sc        -- ctx.inputs[1:], innermost first
  deriving Repr

def St.init (inputs : List Int) : St := ⟨⟨inputs, 0⟩, []⟩

def cyc (vals : List Int) (i : Nat) : Int := if vals = [] then 0 else vals[i % vals.length]?.getD 0

/-- read from one scope: cyclic, cursor advances; an empty scope yields 0 and does not move
    (program inputs: `input()` at end of input; inner scope: the literal `return 0`) -/
def Sc.read (s : Sc) : Int × Sc := if s.vals = [] then (0, s) else (cyc s.vals s.cur, { s with cur := s.cur + 1 })

inductive Op
  | explicit                 -- the `?` element: ctx.use_top_input = True
  | implicit                 -- one item popped from an empty stack in the current scope
  | enter (args : List Int)  -- lambda / function prologue: ctx.inputs.append([args[::-1], 0])
  | leave                    -- epilogue: ctx.inputs.pop()
  deriving Repr

/-- one operation; the result says whether the value came from the program's inputs -/
def step (st : St) : Op → St × Option (Bool × Int)
  | .explicit => let (v, t) := st.top.read; ({ st with top := t }, some (true, v))
  | .implicit =>
    match st.inner with
    | [] => let (v, t) := st.top.read; ({ st with top := t }, some (true, v))
    | s :: rest => let (v, s') := s.read; ({ st with inner := s' :: rest }, some (false, v))
  | .enter args => ({ st with inner := ⟨args.reverse, 0⟩ :: st.inner }, none)
  | .leave => ({ st with inner := st.inner.tail }, none)

/-- every value delivered, in order (`none` for enter / leave) -/
def run : List Op → St → List (Option (Bool × Int))
  | [], _ => []
  | op :: ops, st => (step st op).2 :: run ops (step st op).1

/-- values delivered from the program's inputs, in order -/
def topReads : List Op → St → List Int
  | [], _ => []
  | op :: ops, st =>
    match step st op with
    | (st', some (true, v)) => v :: topReads ops st'
    | (st', _) => topReads ops st'

/-- values delivered by implicit reads to the innermost scope, for a history without enter / leave -/
def innerReads : List Op → St → List Int
  | [], _ => []
  | op :: ops, st =>
    match step st op with
    | (st', some (false, v)) => v :: innerReads ops st'
    | (st', _) => innerReads ops st'

end Inp
