/-!
# A reference-level model of Vyxal values (C10)

In a purely functional model values cannot change, so immutability would be vacuous.  Here values
live in a heap and are reached through references, as in CPython:

* `list items`  — a Python list (items are scalars or references);
* `view r`      — what `deep_copy` makes of a list or lazy list: `LazyList(itertools.tee(v)[-1])`, a lazy
                  *view of the same object*, not a copy.  It denotes whatever `r` denotes when it is read.

Operations: allocation of fresh objects (all a pure element does), `deep_copy` (a view), a slice copy
(`lhs[::]`), and the one in-place operation the code base contains, item assignment.
-/
namespace Hp

inductive Val
  | int (i : Int)
  | ref (r : Nat)
  deriving Repr, DecidableEq

inductive Obj
  | list (items : List Val)
  | view (r : Nat)
  deriving Repr

abbrev Heap := List Obj

/-- the mathematical value a reference denotes (fuel bounds the chain of views / nesting) -/
inductive Tree
  | leaf (i : Int)
  | node (ts : List Tree)
  | dangling
  deriving Repr

mutual
def Tree.beq : Tree → Tree → Bool
  | .leaf a, .leaf b => a == b
  | .node as, .node bs => Tree.beqL as bs
  | .dangling, .dangling => true
  | _, _ => false
def Tree.beqL : List Tree → List Tree → Bool
  | [], [] => true
  | a :: as, b :: bs => Tree.beq a b && Tree.beqL as bs
  | _, _ => false
end

/-- what a value denotes, given what references denote -/
def denVal (d : Nat → Tree) : Val → Tree
  | .int i => .leaf i
  | .ref r => d r

def denR (h : Heap) : Nat → Nat → Tree
  | 0, _ => .dangling
  | f + 1, r =>
    match h[r]? with
    | some (.list items) => .node (items.map (denVal (denR h f)))
    | some (.view p) => denR h f p
    | none => .dangling

inductive Op
  | alloc (o : Obj)                      -- a fresh object: everything a pure element does to the heap
  | deepCopy (r : Nat)                   -- `deep_copy(v)`: a view of `r`
  | sliceCopy (r : Nat)                  -- `lhs[::]`: a fresh list with the same items
  | setItem (r : Nat) (i : Nat) (v : Val) -- `lhs[i] = v` in place
  deriving Repr

def setAt (l : List Val) (i : Nat) (v : Val) : List Val := l.set i v

def step (h : Heap) : Op → Heap
  | .alloc o => h ++ [o]
  | .deepCopy r => h ++ [.view r]
  | .sliceCopy r =>
    match h[r]? with
    | some (.list items) => h ++ [.list items]
    | _ => h ++ [.list []]
  | .setItem r i v => h.set r (match h[r]? with
      | some (.list items) => .list (setAt items i v)
      | some o => o
      | none => .list [])

def run (h : Heap) : List Op → Heap
  | [] => h
  | o :: os => run (step h o) os

/-- an operation respects the frame `n` when it writes to no object that existed when the heap had `n` cells -/
def Op.respects (n : Nat) : Op → Bool
  | .setItem r _ _ => decide (n ≤ r)
  | _ => true

/-- `assign_iterable` as repaired: copy, then write into the copy (the new cell is `h.length`) -/
def assignRepaired (h : Heap) (r i : Nat) (v : Val) : List Op := [.sliceCopy r, .setItem h.length i v]

/-- `assign_iterable` as shipped: write into the argument -/
def assignShipped (r i : Nat) (v : Val) : List Op := [.setItem r i v]

end Hp
