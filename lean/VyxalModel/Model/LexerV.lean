import VyxalModel.Model.Lexer
/-!
# The lexer with the `V` flag (`variables_as_digraphs`): a variable name is at most one letter

`while source and source[0] in ascii_letters + "_": value += source.popleft(); if variables_as_digraphs: break` — everything
else is the ordinary lexer step.
-/
namespace Vy

def oneLetter (kind : TokKind) (cs : List Nat) : Option (Option Token × List Nat) :=
  match cs with
  | d :: r => if isLetter d then some (some ⟨kind, [d]⟩, r) else some (some ⟨kind, []⟩, d :: r)
  | [] => some (some ⟨kind, []⟩, [])

def lexStepV : List Nat → Option (Option Token × List Nat)
  | [] => none
  | c :: cs =>
    if lexKind c = .vset then oneLetter .vset cs
    else if lexKind c = .vget then oneLetter .vget cs
    else lexStep (c :: cs)

def tokeniseVF : Nat → List Nat → List Token
  | 0, _ => []
  | n + 1, s =>
    match lexStepV s with
    | none => []
    | some (none, r) => tokeniseVF n r
    | some (some t, r) => t :: tokeniseVF n r

def tokeniseV (s : List Nat) : List Token := tokeniseVF (s.length + 1) s

end Vy
