import VyxalModel.Model.Parser
import VyxalModel.Model.GenTypes
import VyxalModel.Model.CoreLib
/-!
# Reference semantics of the structures (C01)

A big-step interpreter over the parsed `Structure` tree, written from documents/specs/Structures.md,
Input.md and the element descriptions — *not* from the Python templates: an `if` pops and runs one branch,
a `for` iterates the popped value binding the loop variable and the context value, a `while` re-evaluates its
condition, a lambda is a closure that is called with `arity` popped arguments on its own stack and returns its
top, map / filter / sort are a lambda followed by the corresponding element, a named function pops its
parameters and gives back its whole stack, a list literal evaluates every item on a copy of the stack, a
modifier wraps the next element(s) into a lambda and applies its documented meaning.

Where the documents are silent or stale the interpreter follows what the implementation does and the
DESIGN says so (ranges of numeric loops start at `range_start`; an `if` does not set the context value;
a lambda receives its arguments in pop order).

Fuel: one unit per loop iteration and per call of a function value / named function / list item.
`unmodelled` marks everything outside the closed core (strings, variables assigned inside functions …).
-/
namespace Vy.Sem
open Vy

structure Cfg where
  rangeStart : Int := 1
  rangeEnd : Int := 1
  elements : List Gen.Entry := []
  modifiers : List Gen.Entry := []

/-- a function value: a lambda of the program (or the wrapper a modifier puts round an element) -/
structure RFn where
  arity : Int
  stored : Option Int          -- set by the reduce / scan modifiers
  body : List Structure
  shadow : List Str            -- named parameters of the enclosing named functions (Python closure cells)
  /-- `false` for the entries that only keep the numbering of function objects in step with the implementation
      (a named function's `def`, the `def list_item` of a list literal): never called through the table -/
  live : Bool := true

structure RSt where
  stack : List Val := []                 -- head = top of the stack
  params : List (Str × Val) := []        -- named parameters of the running named function
  shadow : List Str := []
  depth : Nat := 0                       -- number of enclosing function activations
  globals : List (Str × Val) := []
  funcs : List (Str × (List Str × List Structure)) := []
  ctxVals : List Val := [.int 0]         -- head = the value `n` pushes
  inputs : List (List Val × Nat) := [([], 0)]   -- head = innermost scope, last = the program's inputs
  register : Val := .int 0
  ghost : Val := .int 0
  fns : List RFn := []
  out : String := ""
  printed : Bool := false
  /-- the two remaining bookkeeping lists of `Context` (`ctx.stacks`, `ctx.function_stack`; C12) -/
  stacks : List Val := []
  fnStack : List Val := []

inductive Sig
  | normal | brk | cont | ret (v : Val)

def lookupKV {α} (k : Str) : List (Str × α) → Option α
  | [] => Option.none
  | (k', v) :: r => if k' = k then some v else lookupKV k r

def setKV {α} (k : Str) (v : α) : List (Str × α) → List (Str × α)
  | [] => [(k, v)]
  | (k', v') :: r => if k' = k then (k, v) :: r else (k', v') :: setKV k v r

/-- dict lookup in the element table: the last entry with this key wins -/
def lookupElem (tbl : List Gen.Entry) (k : Str) : Option Gen.Entry :=
  tbl.foldl (fun acc e => if e.key = k then some e else acc) Option.none

/-! ### inputs -/

def cyc (vals : List Val) (i : Nat) : Val := vals.getD (i % vals.length) (.int 0)

/-- the implicit input (`get_input` with `use_top_input` off): cycles through the innermost scope; an empty
    scope gives 0 (at top level the interpreter would read stdin — the model has no stdin) -/
def implicitInput (ins : List (List Val × Nat)) : Val × List (List Val × Nat) :=
  match ins with
  | [] => (.int 0, [])
  | (vals, i) :: rest => if vals.isEmpty then (.int 0, ins) else (cyc vals i, (vals, i + 1) :: rest)

def bumpLast : List (List Val × Nat) → List (List Val × Nat)
  | [] => []
  | [(vals, i)] => [(vals, i + 1)]
  | s :: r => s :: bumpLast r

/-- the explicit input `?`: cycles through the program's inputs -/
def explicitInput (ins : List (List Val × Nat)) : Val × List (List Val × Nat) :=
  match ins.getLast? with
  | Option.none => (.int 0, ins)
  | some (vals, i) => if vals.isEmpty then (.int 0, ins) else (cyc vals i, bumpLast ins)

/-- `pop(stack, k, ctx)`: the popped values in pop order, the remaining stack, the input scopes -/
def popN : Nat → List Val → List (List Val × Nat) → List Val × List Val × List (List Val × Nat)
  | 0, st, ins => ([], st, ins)
  | k + 1, x :: st, ins => let (r, st', ins') := popN k st ins; (x :: r, st', ins')
  | k + 1, [], ins =>
      let (x, ins1) := implicitInput ins
      let (r, st', ins') := popN k [] ins1
      (x :: r, st', ins')

def RSt.pop1 (σ : RSt) : Val × RSt :=
  match popN 1 σ.stack σ.inputs with
  | (x :: _, st, ins) => (x, { σ with stack := st, inputs := ins })
  | ([], st, ins) => (.int 0, { σ with stack := st, inputs := ins })

def RSt.popK (σ : RSt) (k : Nat) : List Val × RSt :=
  let (xs, st, ins) := popN k σ.stack σ.inputs
  (xs, { σ with stack := st, inputs := ins })

/-- leave a context-value scope; an empty list cannot happen in a balanced run (C12) and is an error here, as
    `ctx.context_values.pop()` would be -/
def RSt.dropCtx (σ : RSt) : R RSt :=
  match σ.ctxVals with
  | _ :: r => .ok { σ with ctxVals := r }
  | [] => .error (.raised "IndexError")

def RSt.push (σ : RSt) (v : Val) : RSt := { σ with stack := v :: σ.stack }

def RSt.print (σ : RSt) (s : String) : RSt := { σ with out := σ.out ++ s, printed := true }

/-- `iterable(x, range, ctx)`: a number is the range `[range_start, x + range_end)` -/
def iterRange (cfg : Cfg) : Val → R (List Val)
  | .int i => if i > 2000 then .error (.unmodelled "long range") else .ok (rangeV cfg.rangeStart (i + cfg.rangeEnd))
  | .list xs => .ok xs
  | _ => .error (.unmodelled "iterating a function value")

/-- `iterable(x, ctx=ctx)`: a number is its digits -/
def iterDigits : Val → R (List Val)
  | .int i => if i < 0 then .error (.unmodelled "digits of a negative number") else .ok (digitsOf i)
  | .list xs => .ok xs
  | _ => .error (.unmodelled "iterating a function value")

/-- explicit two-argument vectorisation: a number against a list pairs the number with every item; otherwise the
    items (digits) of the first argument are paired with the whole second one -/
def vecPairs (a b : Val) : R (List (Val × Val)) :=
  match a, b with
  | .int _, .list ys => .ok (ys.map (fun y => (a, y)))
  | .list xs, _ => .ok (xs.map (fun x => (x, b)))
  | a, _ => do let xs ← iterDigits a; .ok (xs.map (fun x => (x, b)))

mutual
/-- does the value contain a function (or `None`) anywhere?  Printing such a value calls the function on the
    live stack (finding F31) — outside the closed core -/
def hasFnV : Val → Bool
  | .fn _ => true
  | .none => true
  | .int _ => false
  | .list xs => hasFnVL xs
def hasFnVL : List Val → Bool
  | [] => false
  | x :: xs => hasFnV x || hasFnVL xs
end

def printText (v : Val) : R String :=
  if hasFnV v then .error (.unmodelled "printing a function value") else .ok (showVal v)

def toNatArity (a : Int) : R Nat :=
  if a < 0 then .error (.unmodelled "negative arity") else .ok a.toNat

/-- what `lambda_wrap` gives the wrapper of a modifier's operand -/
def wrapArity (cfg : Cfg) : Structure → Int × List Structure
  | .generic t =>
      (if (match t.kind with | .string | .number | .cnum | .cstr | .vget | .cpnum => true | _ => false) then 0
       else match lookupElem cfg.elements t.value with
         | some e => e.arity
         | Option.none => 1, [.generic t])
  | .lam ar body => ((match ar with | some a => (a : Int) | Option.none => 1), body)
  | s => (1, [s])

/-- unnamed loops bind the Python variable `VAR_LOOP<random>`; a program variable of that shape could collide with
    it (never in practice: the suffix is 32 random hex digits) — such names are outside the core -/
def loopPrefix : Str := [76, 79, 79, 80]
def isLoopName (x : Str) : Bool := loopPrefix.isPrefixOf x

def keyCh (k : Str) : Nat := match k with | [c] => c | _ => 0

def insertByKey (k : Int) (v : Val) : List (Int × Val) → List (Int × Val)
  | [] => [(k, v)]
  | (k', v') :: r => if k < k' then (k, v) :: (k', v') :: r else (k', v') :: insertByKey k v r

/-- stable sort by integer keys -/
def sortByKeys (kvs : List (Int × Val)) : List Val := (kvs.foldl (fun acc kv => insertByKey kv.1 kv.2 acc) []).map (·.2)

/-- pop the parameters of a named function, left to right: a number pops that many values onto the function's initial
    stack (`acc`, in the order popped), a name pops one value into a local variable (`loc`), `*` pops a count first -/
def bindParams : List Str → List Val → List (Str × Val) → RSt → R (List Val × List (Str × Val) × RSt)
  | [], acc, loc, σ => .ok (acc, loc, σ)
  | p :: ps, acc, loc, σ =>
      if p ≠ [] ∧ p.all isDigit then
        bindParams ps (acc ++ (σ.popK (natOfDigits p)).1) loc (σ.popK (natOfDigits p)).2
      else if p = [cStar] then
        (match σ.pop1.1 with
         | .int i => do
             let kk ← toNatArity i
             bindParams ps (acc ++ (σ.pop1.2.popK kk).1) loc (σ.pop1.2.popK kk).2
         | _ => .error (.unmodelled "variadic count that is not a number"))
      else
        bindParams ps acc (setKV (p.filter (fun c => isLetter c || isDigit c)) σ.pop1.1 loc) σ.pop1.2

/-- the arity a lambda is written with (`λ2|…;`), 1 when it has no header -/
def declArity (ar : Option Nat) : Int :=
  match ar with
  | some a => (a : Int)
  | Option.none => 1

/-- the number of arguments a lambda takes: what the caller passes (`safe_apply`: the number of arguments), else the
    `stored_arity` the reduce / scan modifiers set, else its own arity -/
def lamArity (f : RFn) (arity : Option Int) : Int :=
  match arity with
  | some a => a
  | Option.none => f.stored.getD f.arity

/-- the context value of a lambda call: the argument itself for one argument, else the list of arguments -/
def ctxValOf (popped : List Val) : Val :=
  match popped with
  | [x] => x
  | _ => .list popped

/-- enter a lambda: its own stack (arguments in pop order), input scope, context value, bookkeeping -/
def enterLam (σ : RSt) (f : RFn) (id : Nat) (popped : List Val) (ins : List (List Val × Nat)) : RSt :=
  { σ with stack := popped.reverse, params := [], shadow := f.shadow, depth := σ.depth + 1,
           ctxVals := ctxValOf popped :: σ.ctxVals, inputs := (popped.reverse, 0) :: ins,
           stacks := .list popped :: σ.stacks, fnStack := .fn id :: σ.fnStack }

/-- leave a lambda: one pop on each of the four bookkeeping lists (an empty one is the `IndexError` of `list.pop`) -/
def RSt.leaveLam (σ : RSt) : R RSt :=
  match σ.ctxVals, σ.inputs, σ.stacks, σ.fnStack with
  | _ :: cv, _ :: ins, _ :: st, _ :: fs => .ok { σ with ctxVals := cv, inputs := ins, stacks := st, fnStack := fs }
  | _, _, _, _ => .error (.raised "IndexError")

/-- leave a named function: context value, input scope, stack registration -/
def RSt.leaveFn (σ : RSt) : R RSt :=
  match σ.ctxVals, σ.inputs, σ.stacks with
  | _ :: cv, _ :: ins, _ :: st => .ok { σ with ctxVals := cv, inputs := ins, stacks := st }
  | _, _, _ => .error (.raised "IndexError")

/-- enter a named function: its stack is the collected parameters, the named ones are its variables -/
def enterFn (caller σ1 : RSt) (parameters : List Val) (locals : List (Str × Val)) : RSt :=
  { σ1 with stack := parameters.reverse, params := locals, shadow := [], depth := caller.depth + 1,
            ctxVals := .list parameters :: σ1.ctxVals, inputs := (parameters.reverse, 0) :: σ1.inputs,
            stacks := .list parameters :: σ1.stacks }

/-- back in the caller's frame -/
def restoreFrame (caller σ : RSt) : RSt :=
  -- (module variables and named functions cannot change inside a function: every rule that would is outside the
  --  core; restoring them states that frame property once, here)
  { σ with stack := caller.stack, params := caller.params, shadow := caller.shadow, depth := caller.depth,
           globals := caller.globals, funcs := caller.funcs,
           -- function objects that existed before the call are not changed by it (attributes are only ever set on the
           -- wrapper a modifier has just created): the call contributes the new ones
           fns := caller.fns ++ σ.fns.drop caller.fns.length }

/-- enter a list item: a frame of its own (no named parameters), the same stack, one more function object -/
def enterItem (σ : RSt) : RSt :=
  { σ with params := [], shadow := σ.params.map (·.1) ++ σ.shadow, depth := σ.depth + 1 }

/-- the function object of a `def list_item` / `def VAR_name`: only its number matters here -/
def RSt.allocFn (σ : RSt) : RSt := { σ with fns := σ.fns ++ [⟨0, Option.none, [], [], false⟩] }

/-- what a list item contributes: nothing if it leaves its stack empty, else its top -/
def itemResult (σ : RSt) : Option Val × RSt :=
  if σ.stack.isEmpty then (Option.none, σ)
  else match σ.pop1.1 with
    | .none => (Option.none, σ.pop1.2)      -- (Python's `None` never is a stack value; it would be dropped like this)
    | v => (some v, σ.pop1.2)

/-- the result of a lambda body: its top of stack, or what a `break` returned -/
def lamResult (sg : Sig) (σ : RSt) : R (Val × RSt) :=
  match sg with
  | .normal => .ok σ.pop1
  | .ret v => .ok (v, σ)
  | _ => .error (.stuck "break outside a loop")

/-- the condition of a `while`: a missing one is the literal 1 -/
def condProg (cond : Option (List Structure)) : List Structure :=
  match cond with
  | Option.none => [.generic ⟨.number, [49]⟩]
  | some c => c

/-- is the loop variable a program variable (not the unnamed one, not the ghost variable)? -/
def namedVar (var : Option Str) : Bool :=
  match var with
  | some (_ :: _) => true
  | _ => false

/-- bind the loop variable of a `for`: none for an unnamed loop, the ghost variable for an empty name -/
def bindFor (var : Option Str) (x : Val) (σ : RSt) : RSt :=
  match var with
  | Option.none => σ
  | some [] => { σ with ghost := x }
  | some v => { σ with globals := setKV v x σ.globals }

mutual
def execS (cfg : Cfg) : Nat → Structure → RSt → R (Sig × RSt)
  | n, .generic t, σ => execTok cfg n t σ
  | _, .brk p, σ =>
      (match p with
       | .forS | .whileS => if σ.ctxVals.isEmpty then .error (.raised "IndexError") else .ok (.brk, σ)
       | .lam =>
           -- return the top of the stack; the four bookkeeping lists are popped by the call (an empty one is the
           -- IndexError the template's pops would raise here)
           (match σ.pop1.2.leaveLam with
            | .ok _ => .ok (.ret σ.pop1.1, σ.pop1.2)
            | .error e => .error e)
       | _ => .ok (.normal, σ))
  | n, .recurse p, σ =>
      (match p with
       | .ifS => .ok (.normal, σ)
       | .forS | .whileS => if σ.ctxVals.isEmpty then .error (.raised "IndexError") else .ok (.cont, σ)
       | .lam => .error (.unmodelled "recursion")
       | .mon | .dy | .tri => .error (.unmodelled "recursion through a modifier")
       | _ => do let s ← printText (.list σ.stack.reverse); .ok (.normal, σ.print (s ++ "\n")))
  | n, .ifS bs, σ => execIf cfg n bs σ
  | n, .forS names body, σ =>
      let (x, σ1) := σ.pop1
      do
        let items ← iterRange cfg x
        let var : Option Str := match names with
          | [] => Option.none
          | nm :: _ => some (nm.filter (fun c => isLetter c || isDigit c))
        (match var with
         | some v => if v ≠ [] ∧ σ.depth > 0 then .error (.unmodelled "loop variable inside a function")
                     else if isLoopName v then .error (.unmodelled "variable named LOOP…")
                     else if (lookupKV v σ.funcs).isSome then .error (.unmodelled "variable that is also a function name")
                     else pure ()
         | Option.none => pure ())
        forLoop cfg n var body items σ1
  | n, .whileS Option.none body, σ =>
      let (x, σ2) := (σ.push (.int 1)).pop1
      whileLoop cfg n Option.none body x σ2
  | n, .whileS (some c) body, σ =>
      do
        let (sg, σ1) ← execL cfg n c σ
        match sg with
        | .normal =>
            let (x, σ2) := σ1.pop1
            whileLoop cfg n (some c) body x σ2
        | _ => .error (.unmodelled "break inside a loop condition")
  | n, .fnCall name, σ => callNamed cfg n (name.filter (fun c => isLetter c || isDigit c)) σ
  | _, .fnDef name params body, σ =>
      if σ.depth > 0 then .error (.unmodelled "function defined inside a function")
      else if isLoopName (name.filter (fun c => isLetter c || isDigit c)) ∨ (name.filter (fun c => isLetter c || isDigit c)) = [] ∨
          (lookupKV (name.filter (fun c => isLetter c || isDigit c)) σ.globals).isSome then
        .error (.unmodelled "function name that is also a variable")
      else .ok (.normal, { σ with funcs := setKV (name.filter (fun c => isLetter c || isDigit c)) (params, body) σ.funcs,
                                  fns := σ.fns ++ [⟨0, Option.none, [], [], false⟩] })
  | _, .lam ar body, σ =>
      let ar' : Int := declArity ar
      .ok (.normal, { σ with fns := σ.fns ++ [⟨ar', Option.none, body, σ.params.map (·.1) ++ σ.shadow, true⟩],
                             stack := .fn σ.fns.length :: σ.stack })
  | n, .lamOp k body, σ =>
      let σ1 := { σ with fns := σ.fns ++ [⟨1, Option.none, body, σ.params.map (·.1) ++ σ.shadow, true⟩],
                         stack := .fn σ.fns.length :: σ.stack }
      execElem cfg n (lamOpKey k) σ1
  | n, .listS items, σ =>
      do
        let (vals, σ1) ← listItems cfg n items σ
        .ok (.normal, σ1.push (.list vals))
  | n, .mon m a, σ =>
      let (ar, body) := wrapArity cfg a
      let id := σ.fns.length
      let σ1 := { σ with fns := σ.fns ++ [⟨ar, Option.none, body, σ.params.map (·.1) ++ σ.shadow, true⟩] }
      execMon cfg n (keyCh m) id ar σ1
  | n, .dy m a b, σ =>
      let (arA, bodyA) := wrapArity cfg a
      let (arB, bodyB) := wrapArity cfg b
      let idA := σ.fns.length
      let sh := σ.params.map (·.1) ++ σ.shadow
      let σ1 := { σ with fns := σ.fns ++ [⟨arA, Option.none, bodyA, sh, true⟩, ⟨arB, Option.none, bodyB, sh, true⟩] }
      execDy cfg n (keyCh m) idA arA (idA + 1) arB σ1
  | _, .tri _ _ _ _, _ => .error (.unmodelled "triadic modifier")
termination_by n s _ => (n, 10, sizeOf s)

def execL (cfg : Cfg) : Nat → List Structure → RSt → R (Sig × RSt)
  | _, [], σ => .ok (.normal, σ)
  | n, s :: rest, σ =>
      -- a program that keeps growing its stack is lazy-infinite in the implementation; the eager model stops
      if σ.stack.length > 3000 then .error (.unmodelled "runaway stack") else
      do
        let (sg, σ1) ← execS cfg n s σ
        match sg with
        | .normal => execL cfg n rest σ1
        | _ => .ok (sg, σ1)
termination_by n l _ => (n, 10, sizeOf l)

/-- `[a|b|c|…]`: pop; true → `a`; else run `b` — which is the next condition when more branches follow -/
def execIf (cfg : Cfg) : Nat → List (List Structure) → RSt → R (Sig × RSt)
  | _, [], σ => .ok (.normal, σ)
  | n, [b0], σ =>
      let (x, σ1) := σ.pop1
      if truthy x then execL cfg n b0 σ1 else .ok (.normal, σ1)
  | n, b0 :: b1 :: rest, σ =>
      let (x, σ1) := σ.pop1
      if truthy x then execL cfg n b0 σ1
      else do
        let (sg, σ2) ← execL cfg n b1 σ1
        match sg with
        | .normal => execIf cfg n rest σ2
        | _ => .ok (sg, σ2)
termination_by n bs _ => (n, 10, sizeOf bs)

def forLoop (cfg : Cfg) : Nat → Option Str → List Structure → List Val → RSt → R (Sig × RSt)
  | _, _, _, [], σ => .ok (.normal, σ)
  | 0, _, _, _ :: _, _ => .error .fuel
  | n + 1, var, body, x :: xs, σ =>
      -- a named loop variable inside a function is a Python local: outside the core
      if namedVar var ∧ (σ.depth > 0 ∨ (lookupKV (var.getD []) σ.funcs).isSome) then
        .error (.unmodelled "loop variable inside a function, or named like a function") else
      do
        let (sg, σ1) ← execL cfg n body { bindFor var x σ with ctxVals := x :: (bindFor var x σ).ctxVals }
        let σ2 ← σ1.dropCtx
        match sg with
        | .normal | .cont => forLoop cfg n var body xs σ2
        | .brk => .ok (.normal, σ2)
        | .ret _ => .error (.stuck "return out of a loop")     -- the parser never nests a lambda's break inside a loop
termination_by n _ _ _ _ => (n, 1, 0)

def whileLoop (cfg : Cfg) : Nat → Option (List Structure) → List Structure → Val → RSt → R (Sig × RSt)
  | 0, _, _, x, σ => if truthy x then .error .fuel else .ok (.normal, σ)
  | n + 1, cond, body, x, σ =>
      if !truthy x then .ok (.normal, σ) else
      do
        let (sg, σ1) ← execL cfg n body { σ with ctxVals := x :: σ.ctxVals }
        let σ2 ← σ1.dropCtx
        match sg with
        | .normal =>
            let (sg2, σ3) ← execL cfg n (condProg cond) σ2
            (match sg2 with
             | .normal => let (y, σ4) := σ3.pop1; whileLoop cfg n cond body y σ4
             | _ => .error (.unmodelled "break inside a loop condition"))
        | .cont =>
            -- the implementation's `continue` re-tests whatever the Python variable `condition` last held
            -- (an inner `if` overwrites it): not a documented behaviour, outside the core
            .error (.unmodelled "continue in a while loop")
        | .brk => .ok (.normal, σ2)
        | .ret _ => .error (.stuck "return out of a loop")
termination_by n _ _ _ _ => (n, 1, 0)

/-- evaluate the items of a list literal, each on a copy of the current stack -/
def listItems (cfg : Cfg) : Nat → List (List Structure) → RSt → R (List Val × RSt)
  | _, [], σ => .ok ([], σ)
  | 0, _ :: _, _ => .error .fuel
  | n + 1, item :: rest, σ =>
      do
        let (sg, σ1) ← execL cfg n item (enterItem σ.allocFn)
        match sg with
        | .normal =>
            let (vs, σ4) ← listItems cfg (n + 1) rest (restoreFrame σ.allocFn (itemResult σ1).2)
            .ok ((match (itemResult σ1).1 with | some v => v :: vs | Option.none => vs), σ4)
        | _ => .error (.unmodelled "break inside a list item")
termination_by n items _ => (n, 1, items.length)

/-- call a function value: `argStack` is the list its arguments are popped from (head = first popped),
    `arity` overrides the function's own arity (`safe_apply` passes the number of arguments).
    Returns the result, what is left of `argStack`, and the state (with the caller's frame restored). -/
def callLam (cfg : Cfg) : Nat → Nat → List Val → Option Int → RSt → R (Val × List Val × RSt)
  | 0, _, _, _, _ => .error .fuel
  | n + 1, id, argStack, arity, σ =>
      match σ.fns[id]? with
      | Option.none => .error (.stuck "dangling function reference")
      | some f =>
        if !f.live then .error (.stuck "call of a placeholder") else
        do
          let ar ← toNatArity (lamArity f arity)
          let (sg, σ2) ← execL cfg n f.body (enterLam σ f id (popN ar argStack σ.inputs).1 (popN ar argStack σ.inputs).2.2)
          let (res, σ3) ← lamResult sg σ2
          let σ4 ← σ3.leaveLam
          .ok (res, (popN ar argStack σ.inputs).2.1, restoreFrame σ σ4)
termination_by n _ _ _ _ => (n, 2, 0)

/-- `safe_apply(f, a, b, …)` -/
def applyFn (cfg : Cfg) (n : Nat) (f : Val) (args : List Val) (σ : RSt) : R (Val × RSt) :=
  match f with
  | .fn id => do
      let (r, _, σ1) ← callLam cfg n id args (some args.length) σ
      .ok (r, σ1)
  | _ => .error (.unmodelled "applying a non-function")
termination_by (n, 3, 0)

def mapFn (cfg : Cfg) : Nat → Val → List Val → RSt → R (List Val × RSt)
  | _, _, [], σ => .ok ([], σ)
  | n, f, x :: xs, σ => do
      let (y, σ1) ← applyFn cfg n f [x] σ
      let (ys, σ2) ← lazyErr (mapFn cfg n f xs σ1)
      .ok (y :: ys, σ2)
termination_by n _ xs _ => (n, 4, xs.length)

def filterFn (cfg : Cfg) : Nat → Val → List Val → RSt → R (List Val × RSt)
  | _, _, [], σ => .ok ([], σ)
  | n, f, x :: xs, σ => do
      let (y, σ1) ← applyFn cfg n f [x] σ
      let (ys, σ2) ← lazyErr (filterFn cfg n f xs σ1)
      .ok (if truthy y then x :: ys else ys, σ2)
termination_by n _ xs _ => (n, 4, xs.length)

def keysFn (cfg : Cfg) : Nat → Val → List Val → RSt → R (List (Int × Val) × RSt)
  | _, _, [], σ => .ok ([], σ)
  | n, f, x :: xs, σ => do
      let (y, σ1) ← applyFn cfg n f [x] σ
      let (ys, σ2) ← keysFn cfg n f xs σ1
      match y with
      | .int k => .ok ((k, x) :: ys, σ2)
      | _ => .error (.unmodelled "sort key that is not a number")
termination_by n _ xs _ => (n, 4, xs.length)

/-- `foldl(f, items)` after the first item -/
def foldFn (cfg : Cfg) : Nat → Val → Val → List Val → RSt → R (Val × RSt)
  | _, _, acc, [], σ => .ok (acc, σ)
  | n, f, acc, x :: xs, σ => do
      let (y, σ1) ← applyFn cfg n f [acc, x] σ
      foldFn cfg n f y xs σ1
termination_by n _ _ xs _ => (n, 4, xs.length)

/-- `scanl(f, items)` after the first item: the running values -/
def scanFn (cfg : Cfg) : Nat → Val → Val → List Val → RSt → R (List Val × RSt)
  | _, _, acc, [], σ => .ok ([acc], σ)
  | n, f, acc, x :: xs, σ => do
      let (y, σ1) ← applyFn cfg n f [acc, x] σ
      let (ys, σ2) ← scanFn cfg n f y xs σ1
      .ok (acc :: ys, σ2)
termination_by n _ _ xs _ => (n, 4, xs.length)

/-- `@name;` : the parameters are popped from the caller's stack, the function's whole stack comes back -/
def callNamed (cfg : Cfg) : Nat → Str → RSt → R (Sig × RSt)
  | 0, _, _ => .error .fuel
  | n + 1, name, σ =>
      match lookupKV name σ.funcs with
      | Option.none => .error (.raised "NameError")
      | some (ps, body) =>
        if (lookupKV name σ.params).isSome then .error (.unmodelled "parameter named like the function") else
        do
          let (parameters, locals, σ1) ← bindParams ps [] [] σ
          let (sg, σ3) ← execL cfg n body (enterFn σ σ1 parameters locals)
          match sg with
          | .normal => do
              let σ4 ← σ3.leaveFn
              .ok (.normal, { restoreFrame σ σ4 with stack := σ3.stack ++ σ1.stack })
          | _ => .error (.stuck "break outside a loop")
termination_by n _ _ => (n, 1, 0)

/-- the elements that call function values, and the table-driven first-order ones -/
def execElem (cfg : Cfg) : Nat → Str → RSt → R (Sig × RSt)
  | n, key, σ =>
    match lookupElem cfg.elements key with
    | Option.none => .ok (.normal, σ)
    | some e =>
      if e.kind = "fn" then
        do
          let k ← toNatArity e.arity
          let (popped, σ1) := σ.popK k
          let args := popped.reverse           -- lhs first
          let hasFn := args.any (fun v => match v with | .fn _ => true | _ => false)
          if hasFn then
            (match e.helper, args with
             | "vy_map", [a, b] =>
                 let (f, v) := (match b with | .fn _ => (b, a) | _ => (a, b))
                 do let xs ← iterRange cfg v
                    let (ys, σ2) ← lazyErr (mapFn cfg n f xs σ1)
                    .ok (.normal, σ2.push (.list ys))
             | "vy_filter", [a, b] =>
                 let (f, v) := (match a with | .fn _ => (a, b) | _ => (b, a))
                 do let xs ← iterRange cfg v
                    let (ys, σ2) ← lazyErr (filterFn cfg n f xs σ1)
                    .ok (.normal, σ2.push (.list ys))
             | "sort_by", [a, b] =>
                 let (f, v) := (match a with | .fn _ => (a, b) | _ => (b, a))
                 do let xs ← iterDigits v
                    let (ks, σ2) ← keysFn cfg n f xs σ1
                    .ok (.normal, σ2.push (.list (sortByKeys ks)))
             | "vy_reduce", [a, b] =>
                 let (f, v) := (match b with | .fn _ => (b, a) | _ => (a, b))
                 do let xs ← iterDigits v
                    match xs with
                    | [] => .ok (.normal, σ1.push (.int 0))
                    | x :: r => do
                        let (y, σ2) ← foldFn cfg n f x r σ1
                        .ok (.normal, σ2.push y)
             | _, _ => .error (.unmodelled ("function value given to " ++ e.helper)))
          else if e.helper = "vy_map" ∨ e.helper = "vy_filter" ∨ e.helper = "sort_by" ∨ e.helper = "vy_reduce" then
            .error (.unmodelled "higher-order element without a function value")
          else do
            let r ← elemFn e.helper args
            .ok (.normal, σ1.push r)
      else execCore cfg n (keyCh key) σ
termination_by n _ _ => (n, 6, 0)

/-- the hand-written templates of the closed core, by what the element is documented to do -/
def execCore (cfg : Cfg) : Nat → Nat → RSt → R (Sig × RSt)
  | n, c, σ =>
    if c = 58 then          -- `:` duplicate
      let (x, σ1) := σ.pop1; .ok (.normal, (σ1.push x).push x)
    else if c = 68 then     -- `D` triplicate
      let (x, σ1) := σ.pop1; .ok (.normal, ((σ1.push x).push x).push x)
    else if c = 36 then     -- `$` swap
      let (xs, σ1) := σ.popK 2
      (match xs with | [a, b] => .ok (.normal, (σ1.push a).push b) | _ => .error (.stuck "pop"))
    else if c = 95 then     -- `_` pop
      let (_, σ1) := σ.pop1; .ok (.normal, σ1)
    else if c = 94 then     -- `^` reverse the stack
      .ok (.normal, { σ with stack := σ.stack.reverse })
    else if c = 87 then     -- `W` wrap the stack
      .ok (.normal, { σ with stack := [.list σ.stack.reverse] })
    else if c = 33 then     -- `!` stack length
      .ok (.normal, σ.push (.int σ.stack.length))
    else if c = 63 then     -- `?` explicit input
      let (x, ins) := explicitInput σ.inputs
      .ok (.normal, { σ with inputs := ins, stack := x :: σ.stack })
    else if c = 110 then    -- `n` context value
      (match σ.ctxVals with
       | x :: _ => .ok (.normal, σ.push x)
       | [] => .error (.raised "IndexError"))
    else if c = 163 then    -- `£` set register
      let (x, σ1) := σ.pop1; .ok (.normal, { σ1 with register := x })
    else if c = 165 then    -- `¥` get register
      .ok (.normal, σ.push σ.register)
    else if c = 44 then     -- `,` print
      let (x, σ1) := σ.pop1
      do let s ← printText x; .ok (.normal, σ1.print (s ++ "\n"))
    else if c = 8230 then   -- `…` print without popping
      let (x, σ1) := σ.pop1
      do let s ← printText x; .ok (.normal, (σ1.print (s ++ "\n")).push x)
    else if c = 8372 then   -- `₴` print without newline
      let (x, σ1) := σ.pop1
      do let s ← printText x; .ok (.normal, σ1.print s)
    else if c = 119 then    -- `w` wrap
      let (x, σ1) := σ.pop1; .ok (.normal, σ1.push (.list [x]))
    else if c = 34 then     -- `"` pair
      let (xs, σ1) := σ.popK 2
      (match xs with | [b, a] => .ok (.normal, σ1.push (.list [a, b])) | _ => .error (.stuck "pop"))
    else if c = 100 then    -- `d` double
      let (x, σ1) := σ.pop1
      if isFnVal x then .error (.unmodelled "function value given to multiply") else
      do let r ← elemFn "multiply" [x, .int 2]; .ok (.normal, σ1.push r)
    else if c = 172 then    -- `¬` logical not
      let (x, σ1) := σ.pop1; .ok (.normal, σ1.push (.int (b2i (!truthy x))))
    else if c = 117 then .ok (.normal, σ.push (.int (-1)))     -- `u`
    else if c = 8320 then .ok (.normal, σ.push (.int 10))      -- `₀`
    else if c = 8321 then .ok (.normal, σ.push (.int 100))     -- `₁`
    else if c = 8224 then   -- `†` call
      let (f, σ1) := σ.pop1
      (match f with
       | .fn id => do
           let (r, st, σ2) ← callLam cfg n id σ1.stack Option.none σ1
           .ok (.normal, { σ2 with stack := r :: st })
       | _ => .error (.unmodelled "† on a non-function"))
    else .error (.unmodelled "element outside the closed core")
termination_by n _ _ => (n, 5, 0)

def execTok (cfg : Cfg) : Nat → Token → RSt → R (Sig × RSt)
  | n, t, σ =>
    match t.kind with
    | .number =>
        if t.value ≠ [] ∧ t.value.all isDigit then .ok (.normal, σ.push (.int (natOfDigits t.value)))
        else .error (.unmodelled "non-integer literal")
    | .general => execElem cfg n t.value σ
    | .vget =>
        (match t.value with
         | [] => .ok (.normal, σ.push σ.ghost)
         | c :: _ =>
           if c = 95 then .error (.unmodelled "underscore variable")
           else if isLoopName t.value then .error (.unmodelled "variable named LOOP…")
           else if (lookupKV t.value σ.funcs).isSome then .error (.unmodelled "variable that is also a function name")
           else match lookupKV t.value σ.params with
             | some v => .ok (.normal, σ.push v)
             | Option.none =>
               if σ.shadow.contains t.value then .error (.unmodelled "closure over a parameter")
               else match lookupKV t.value σ.globals with
                 | some v => .ok (.normal, σ.push v)
                 | Option.none => .error (.raised "NameError"))
    | .vset =>
        (match t.value with
         | [] => let (x, σ1) := σ.pop1; .ok (.normal, { σ1 with ghost := x })
         | c :: _ =>
           if c = 95 then .error (.unmodelled "underscore variable")
           else if isLoopName t.value then .error (.unmodelled "variable named LOOP…")
           else if (lookupKV t.value σ.funcs).isSome then .error (.unmodelled "variable that is also a function name")
           else if σ.depth > 0 then .error (.unmodelled "assignment inside a function")
           else let (x, σ1) := σ.pop1; .ok (.normal, { σ1 with globals := setKV t.value x σ1.globals }))
    | _ => .error (.unmodelled "literal outside the closed core")
termination_by n _ _ => (n, 7, 0)

/-- the monadic modifiers, by their documented meaning; `id` is the wrapped operand -/
def execMon (cfg : Cfg) : Nat → Nat → Nat → Int → RSt → R (Sig × RSt)
  | n, m, id, ar, σ =>
    if m = 118 then       -- `v` vectorise
      do
        let k ← toNatArity ar
        let (popped, σ1) := σ.popK k
        match popped.reverse with
        | [a] => do
            let xs ← iterRange cfg a
            let (ys, σ2) ← lazyErr (mapFn cfg n (.fn id) xs σ1)
            .ok (.normal, σ2.push (.list ys))
        | [a, b] => do
            -- a number against a list pairs the number with every item; otherwise the items (digits) of the first
            -- argument are paired with the whole second one
            let pairs ← vecPairs a b
            let (zs, σ2) ← lazyErr (mapFn2 cfg n (.fn id) pairs σ1)
            .ok (.normal, σ2.push (.list zs))
        | [] => .error (.raised "TypeError")
        | _ => .error (.unmodelled "vectorise with three arguments")
    else if m = 38 then   -- `&` apply to the register
      do
        let k ← toNatArity ar
        let (popped, σ1) := (σ.push σ.register).popK k
        let (r, σ2) ← applyFn cfg n (.fn id) popped.reverse σ1
        .ok (.normal, { σ2 with register := r })
    else if m = 126 then  -- `~` apply without popping (arity ≥ 2) / filter (arity 1)
      if ar ≥ 2 then do
        let k ← toNatArity ar
        let (popped, σ1) := σ.popK k
        let σ1' := { σ1 with stack := popped.reverse.reverse ++ σ1.stack }
        let (r, σ2) ← applyFn cfg n (.fn id) popped.reverse σ1'
        .ok (.normal, σ2.push r)
      else if ar = 1 then do
        let (x, σ1) := σ.pop1
        let xs ← iterRange cfg x
        let (ys, σ2) ← lazyErr (filterFn cfg n (.fn id) xs σ1)
        .ok (.normal, σ2.push (.list ys))
      else .ok (.normal, σ)
    else if m = 223 then  -- `ß` conditional application
      let (c, σ1) := σ.pop1
      if truthy c then do
        let (r, st, σ2) ← callLam cfg n id σ1.stack Option.none σ1
        .ok (.normal, { σ2 with stack := r :: st })
      else .ok (.normal, σ1)
    else if m = 402 then  -- `ƒ` reduce
      let σ0 := { σ with fns := σ.fns.set id { (σ.fns.getD id ⟨0, Option.none, [], [], true⟩) with stored := some 2 } }
      let (x, σ1) := σ0.pop1
      do
        let xs ← iterDigits x
        match xs with
        | [] => .ok (.normal, σ1.push (.int 0))
        | y :: r => do
            let (z, σ2) ← foldFn cfg n (.fn id) y r σ1
            .ok (.normal, σ2.push z)
    else if m = 598 then  -- `ɖ` cumulative reduce
      let σ0 := { σ with fns := σ.fns.set id { (σ.fns.getD id ⟨0, Option.none, [], [], true⟩) with stored := some 2 } }
      let (x, σ1) := σ0.pop1
      do
        let xs ← iterDigits x
        match xs with
        | [] => .ok (.normal, σ1.push (.list []))
        | y :: r => do
            let (zs, σ2) ← lazyErr (scanFn cfg n (.fn id) y r σ1)
            .ok (.normal, σ2.push (.list zs))
    else if m = 8332 ∨ m = 8333 then .error (.unmodelled "dyadic modifier with one operand")   -- (the parser never builds this)
    else .ok (.normal, σ)
termination_by n _ _ _ _ => (n, 5, 0)

def mapFn2 (cfg : Cfg) : Nat → Val → List (Val × Val) → RSt → R (List Val × RSt)
  | _, _, [], σ => .ok ([], σ)
  | n, f, (x, y) :: r, σ => do
      let (z, σ1) ← applyFn cfg n f [x, y] σ
      let (zs, σ2) ← mapFn2 cfg n f r σ1
      .ok (z :: zs, σ2)
termination_by n _ xs _ => (n, 4, xs.length)

/-- `₌` / `₍`: both operands see the same stack; the second one consumes its arguments -/
def execDy (cfg : Cfg) : Nat → Nat → Nat → Int → Nat → Int → RSt → R (Sig × RSt)
  | n, m, idA, arA, idB, arB, σ =>
    if m = 8332 ∨ m = 8333 then do
      let kA ← toNatArity arA
      let kB ← toNatArity arB
      let (argsA, _, ins1) := popN kA σ.stack σ.inputs
      let σ0 := { σ with inputs := ins1 }
      let (argsB, σ1) := σ0.popK kB
      let (rA, σ2) ← applyFn cfg n (.fn idA) argsA.reverse σ1
      let (rB, σ3) ← applyFn cfg n (.fn idB) argsB.reverse σ2
      if m = 8332 then .ok (.normal, (σ3.push rA).push rB) else .ok (.normal, σ3.push (.list [rA, rB]))
    else if m = 38 ∨ m = 118 ∨ m = 126 ∨ m = 223 ∨ m = 402 ∨ m = 598 then
      .error (.unmodelled "monadic modifier with two operands")   -- (the parser never builds this)
    else .ok (.normal, σ)
termination_by n _ _ _ _ _ _ => (n, 5, 0)
end

end Vy.Sem

namespace Vy.Sem
open Vy

/-! ### whole programs: flags, implicit output -/

/-- what the end-of-execution code prints: a value, or text a flag has already built -/
inductive OutV | val (v : Val) | text (s : String)

def joinNl : List Val → String
  | [] => ""
  | [x] => showVal x
  | x :: y :: r => showVal x ++ "\n" ++ joinNl (y :: r)

/-- one output flag applied to the pending output (`j` join on newlines, `s` sum, `W` the whole stack) -/
def applyFlag (origEmpty : Bool) (stack : List Val) (c : Char) (o : OutV) : R OutV :=
  match c, o with
  | 'j', .val v => do
      let xs ← iterDigits v
      if hasFnVL xs then .error (.unmodelled "printing a function value") else .ok (.text (joinNl xs))
  | 's', .val (.list xs) => do let r ← sumV xs; .ok (.val r)
  | 's', .val (.int i) => if i < 0 then .error (.unmodelled "digits of a negative number") else do let r ← sumV (digitsOf i); .ok (.val r)
  | 'W', .val v => if origEmpty then .ok (.val (.list [])) else do
      let s ← printText (.list (stack.reverse ++ [v])); .ok (.text s)
  | 'j', _ | 's', _ | 'W', _ => .error (.unmodelled "flag applied to text")
  | _, o => .ok o

def cfgOfFlags (flags : String) (elements modifiers : List Gen.Entry) : Cfg :=
  { rangeStart := if flags.contains 'M' then 0 else 1,
    rangeEnd := if flags.contains 'M' then 1 else if flags.contains 'm' then 0 else 1,
    elements := elements, modifiers := modifiers }

/-- the implicit output at the end of `execute_vyxal` -/
def finish (flags : String) (σ : RSt) : R RSt := do
  let o ← flags.toList.foldlM (fun o c => applyFlag σ.stack.isEmpty σ.pop1.2.stack c o) (OutV.val σ.pop1.1)
  if (!(σ.pop1.2.printed || flags.contains 'O')) || flags.contains 'o' then
    match o with
    | .text s => .ok (σ.pop1.2.print (s ++ "\n"))
    | .val v => do let s ← printText v; .ok (σ.pop1.2.print (s ++ "\n"))
  else .ok σ.pop1.2

def initState (flags : String) (inputs : List Val) : RSt :=
  { stack := if flags.contains 'H' then [.int 100] else [], inputs := [(inputs, 0)] }

/-- run a parsed program by the reference semantics; the observation is (final stack bottom→top, printed text) -/
def refProgram (cfg : Cfg) (fuel : Nat) (flags : String) (inputs : List Val) (prog : List Structure) :
    R (List Val × String) := do
  let (sg, σ) ← execL cfg fuel prog (initState flags inputs)
  match sg with
  | .normal =>
      let σ' ← finish flags σ
      .ok (σ.stack.reverse, σ'.out)
  | _ => .error (.stuck "break outside a loop")

end Vy.Sem
