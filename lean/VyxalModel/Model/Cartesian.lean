/-!
# `Ẋ` (cartesian product) on two lists: the diagonal walk of `elements.cartesian_product`

```python
diag_num = 0
lhs_max = len(lhs) - 1 if isinstance(lhs, list) else None
rhs_max = len(rhs) - 1 if isinstance(rhs, list) else None
while True:
    lhs_start = max(0, diag_num - rhs_max) if rhs_max else 0
    lhs_end = min(diag_num, lhs_max) if lhs_max else diag_num
    touched = False
    for left in range(lhs_start, lhs_end + 1):
        right = diag_num - left
        if rhs_max and right > rhs_max: continue
        if not has_ind(rhs, right): rhs_max = right; continue
        if lhs_max and left > lhs_max: break
        if not has_ind(lhs, left): lhs_max = left; break
        touched = True
        yield [lhs[left], rhs[right]]
    if not touched: break
    diag_num += 1
```
`lhs_max` / `rhs_max` are used through their truthiness: `None` (a lazy list) and `0` (a one-item list) behave alike, so both
are the natural number `0` here.  After a failed `has_ind` they hold an index *past* the end, not the last index — the model
keeps that.
-/
namespace Ls

/-- the `for left in …` loop over the remaining values of `left`; state `(lhs_max, rhs_max, touched, yielded so far)` -/
def cpInner (l r : List Int) (diag : Nat) : List Nat → Nat → Nat → Bool → List (Int × Int) → Nat × Nat × Bool × List (Int × Int)
  | [], lm, rm, t, acc => (lm, rm, t, acc)
  | left :: rest, lm, rm, t, acc =>
    if rm ≠ 0 ∧ diag - left > rm then cpInner l r diag rest lm rm t acc
    else if ¬ (diag - left < r.length) then cpInner l r diag rest lm (diag - left) t acc
    else if lm ≠ 0 ∧ left > lm then (lm, rm, t, acc)
    else if ¬ (left < l.length) then (left, rm, t, acc)
    else cpInner l r diag rest lm rm true (acc ++ [(l.getD left 0, r.getD (diag - left) 0)])

/-- the `while True` loop (fuel = number of diagonals still allowed) -/
def cpOuter (l r : List Int) : Nat → Nat → Nat → Nat → List (Int × Int) → List (Int × Int)
  | 0, _, _, _, acc => acc
  | f + 1, diag, lm, rm, acc =>
    let lstart := if rm ≠ 0 then diag - rm else 0
    let lend := if lm ≠ 0 then min diag lm else diag
    let res := cpInner l r diag (List.range' lstart (lend + 1 - lstart)) lm rm false acc
    if res.2.2.1 then cpOuter l r f (diag + 1) res.1 res.2.1 res.2.2.2 else res.2.2.2

/-- `lm0` / `rm0`: the initial `lhs_max` / `rhs_max` (`len - 1` for a list, `0` for a lazy list) -/
def cartesian (l r : List Int) (lm0 rm0 : Nat) : List (Int × Int) :=
  if l = [] ∨ r = [] then [] else cpOuter l r (l.length + r.length + 1) 0 lm0 rm0 []

end Ls
