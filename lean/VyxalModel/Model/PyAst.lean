/-!
# PyAst — serialisation target for Python's `ast`

The translator (`tools/pyast2lean.py`) turns every element / modifier template of
`vyxal/elements.py` and the bodies of the helper functions that touch `ctx` into terms of
these types.  The transpiler model (`Model/Transpile.lean`) produces terms of the same types,
so that the real `ast.parse(transpile(p))` and the model can be compared node for node.

Anything the serialiser does not know becomes `.other "<NodeName>" <child expressions> <child statements>`;
analyses look through it conservatively (never treat it as harmless by default).
-/
namespace PyAst

inductive BinOp | add | sub | mul | div | pow | mod | fdiv | band | bor | bxor | shl | shr | matmul
  deriving DecidableEq, Repr

inductive CmpOp | eq | ne | lt | le | gt | ge | is_ | isNot | in_ | notIn
  deriving DecidableEq, Repr

inductive PyExpr
  | name (n : String)
  | cint (i : Int)
  | cstr (s : String)
  | cbool (b : Bool)
  | cnone
  | cfloat (repr : String)
  | call (f : PyExpr) (args : List PyExpr) (kw : List (String × PyExpr))
  | attr (e : PyExpr) (a : String)
  | subscript (e i : PyExpr)
  | slice (lo hi st : Option PyExpr)
  | binop (op : BinOp) (l r : PyExpr)
  | boolop (isAnd : Bool) (vs : List PyExpr)
  | unary (op : String) (e : PyExpr)
  | compare (l : PyExpr) (rest : List (CmpOp × PyExpr))
  | list (xs : List PyExpr)
  | tuple (xs : List PyExpr)
  | starred (e : PyExpr)
  | ifExp (c t e : PyExpr)
  | lambda (params : List String) (body : PyExpr)
  | other (tag : String) (children : List PyExpr)
  /- the next three are never produced by the serialiser: they are the only places where the
     transpiler model puts *program-supplied* text (C18) -/
  | cstrN (cps : List Nat)                       -- a string constant given by code points
  | pname (pre : String) (s : List Nat)          -- identifier = fixed prefix ++ program characters
  | pattr (e : PyExpr) (pre : String) (s : List Nat)   -- attribute whose name is prefix ++ program characters
  deriving Repr

inductive PyStmt
  | assign (targets : List PyExpr) (v : PyExpr)
  | augAssign (t : PyExpr) (op : BinOp) (v : PyExpr)
  | expr (e : PyExpr)
  | ifS (c : PyExpr) (t e : List PyStmt)
  | whileS (c : PyExpr) (b : List PyStmt)
  | forS (target : PyExpr) (iter : PyExpr) (b : List PyStmt)
  | defS (name : String) (params : List (String × Option PyExpr)) (b : List PyStmt)
  | defP (pre : String) (s : List Nat) (params : List (String × Option PyExpr)) (b : List PyStmt)
  | ret (v : Option PyExpr)
  | brk
  | cont
  | pass
  | tryS (b : List PyStmt) (handlers : List (List PyStmt)) (orelse fin : List PyStmt)
  | other (tag : String) (es : List PyExpr) (ss : List PyStmt)
  deriving Repr

end PyAst
