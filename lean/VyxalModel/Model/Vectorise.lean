/-!
# The dispatch skeleton shared by the vectorising elements (C08)

≈100 element functions of `vyxal/elements.py` have the shape
`{ (scalar types…): scalar overload … }.get(ts, lambda: vectorise(self, same args, ctx=ctx))()`.
`d2 n op` models that shape for a dyad whose scalar overload is `op`: scalars meet `op`; a scalar against a
list pairs the scalar with every item; two lists are zipped position by position (`vy_zip`: the shorter one
is padded with 0), and every pair goes through the same dispatch again — so nesting of any depth works.
`n` is fuel (the nesting depth the recursion may descend); `d1` is the monadic form.  Eager and lazy lists
are one constructor here: the skeleton never looks at which.
-/
namespace Vec

inductive V
  | s (a : Int)
  | l (xs : List V)
  deriving Repr

/-- `vy_zip`: pairs, the shorter list padded with 0 -/
def zipFill : List V → List V → List (V × V)
  | [], [] => []
  | x :: xs, [] => (x, .s 0) :: zipFill xs []
  | [], y :: ys => (.s 0, y) :: zipFill [] ys
  | x :: xs, y :: ys => (x, y) :: zipFill xs ys

def d2 : Nat → (Int → Int → Int) → V → V → V
  | 0, _, _, _ => .s 0
  | _ + 1, op, .s a, .s b => .s (op a b)
  | n + 1, op, .s a, .l ys => .l (ys.map (fun y => d2 n op (.s a) y))
  | n + 1, op, .l xs, .s b => .l (xs.map (fun x => d2 n op x (.s b)))
  | n + 1, op, .l xs, .l ys => .l ((zipFill xs ys).map (fun p => d2 n op p.1 p.2))

def d1 : Nat → (Int → Int) → V → V
  | 0, _, _ => .s 0
  | _ + 1, op, .s a => .s (op a)
  | n + 1, op, .l xs => .l (xs.map (d1 n op))

mutual
def depth : V → Nat
  | .s _ => 0
  | .l xs => depthL xs + 1
def depthL : List V → Nat
  | [] => 0
  | x :: xs => max (depth x) (depthL xs)
end

end Vec
