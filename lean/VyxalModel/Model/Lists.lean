/-!
# Models of the structural list builtins whose algorithm lives in the repository (C16)

Each function follows the Python loop of `vyxal/elements.py` / `helpers.py` (generators become lists:
the property is about finite lists).  Builtins that delegate to Python (`sorted`, `itertools`) are
represented by the corresponding standard function and the delegation is T5.
-/
namespace Ls

/-- `uniquify`: `seen = []; for item in t: if item not in seen: yield item; seen.append(item)` -/
def uniqGo : List Int → List Int → List Int
  | [], _ => []
  | x :: xs, seen => if seen.contains x then uniqGo xs seen else x :: uniqGo xs (seen ++ [x])

def uniquify (l : List Int) : List Int := uniqGo l []

/-- nested lists -/
inductive T
  | leaf (v : Int)
  | node (items : List T)
  deriving Repr

mutual
/-- `deep_flatten`: `for item in lhs: if list: yield from deep_flatten(item) else: yield item` -/
def flattenT : T → List Int
  | .leaf v => [v]
  | .node items => flattenL items
def flattenL : List T → List Int
  | [] => []
  | t :: ts => flattenT t ++ flattenL ts
end

/-- `scanl(add, l)`: cumulative sums -/
def cumsumGo : Int → List Int → List Int
  | _, [] => []
  | acc, x :: xs => (acc + x) :: cumsumGo (acc + x) xs

def cumulativeSum (l : List Int) : List Int := cumsumGo 0 l

/-- `deltas`: `prev = None; for item: if prev is not None: yield item - prev; prev = item` -/
def deltasGo : Int → List Int → List Int
  | _, [] => []
  | prev, x :: xs => (x - prev) :: deltasGo x xs

def deltas : List Int → List Int
  | [] => []
  | x :: xs => deltasGo x xs

/-- `interleave`: alternate, then the rest of whichever is longer -/
def interleave : List Int → List Int → List Int
  | [], bs => bs
  | a :: as, [] => a :: as
  | a :: as, b :: bs => a :: b :: interleave as bs

/-- `a[::2]` -/
def evens : List Int → List Int
  | [] => []
  | [a] => [a]
  | a :: _ :: r => a :: evens r

/-- `a[1::2]` -/
def odds : List Int → List Int
  | [] => []
  | [_] => []
  | _ :: b :: r => b :: odds r

def uninterleave (l : List Int) : List Int × List Int := (evens l, odds l)

/-- `wrap(l, k)`: chunks of length `k` (the last one may be shorter) -/
def chunks (k : Nat) : Nat → List Int → List (List Int)
  | 0, _ => []
  | _ + 1, [] => []
  | f + 1, l => l.take k :: chunks k f (l.drop k)

def wrapK (l : List Int) (k : Nat) : List (List Int) := if k = 0 then [] else chunks k l.length l

/-- `prefixes`: `temp = []; for item: temp.append(item); yield temp` -/
def prefixesGo : List Int → List Int → List (List Int)
  | _, [] => []
  | acc, x :: xs => (acc ++ [x]) :: prefixesGo (acc ++ [x]) xs

def prefixes (l : List Int) : List (List Int) := prefixesGo [] l

/-- `group_consecutive` -/
def groupGo : Int → Nat → List Int → List (List Int)
  | prev, n, [] => [List.replicate n prev]
  | prev, n, x :: xs => if x = prev then groupGo prev (n + 1) xs else List.replicate n prev :: groupGo x 1 xs

def groupConsecutive : List Int → List (List Int)
  | [] => []
  | x :: xs => groupGo x 1 xs

/-- `counts`: `[[x, a.count(x)] for x in uniquify(a)]` -/
def counts (l : List Int) : List (Int × Nat) := (uniquify l).map (fun x => (x, l.count x))

def vySum (l : List Int) : Int := l.foldl (· + ·) 0
/-- `vy_reduce(multiply, l)`: the first item is the start value; an empty list reduces to 0 (F30) -/
def vyProduct : List Int → Int
  | [] => 0
  | x :: xs => xs.foldl (· * ·) x

/-- `sorted(l)` (delegated to Python; here: merge sort) -/
def vySort (l : List Int) : List Int := l.mergeSort (fun a b => decide (a ≤ b))

/-- `ṗ` (powerset): `prev_sets = [[]]; yield []; for elem: new = [p + [elem] for p in prev_sets]; prev_sets += new; yield from new` —
    what is yielded is exactly `prev_sets` at the end -/
def powerset (l : List Int) : List (List Int) := l.foldl (fun ps e => ps ++ ps.map (· ++ [e])) [[]]

/-- `Ṗ` (`itertools.permutations(l, len(l))`): by position, lexicographic in the positions -/
def permsFuel : Nat → List Int → List (List Int)
  | 0, _ => [[]]
  | n + 1, l => (List.range l.length).flatMap (fun i => (permsFuel n (l.eraseIdx i)).map (fun p => l.getD i 0 :: p))

def permutations (l : List Int) : List (List Int) := permsFuel l.length l

/-- `helpers.suffixes` (list branch): `while lst: yield lst; lst = lst[1:]` — the non-empty tails, longest first -/
def suffixesNE : List Int → List (List Int)
  | [] => []
  | x :: xs => (x :: xs) :: suffixesNE xs

/-- `ÞS` (sublists): `for prefix in prefixes(lhs): yield from suffixes(prefix)` -/
def contiguous (l : List Int) : List (List Int) := (prefixes l).flatMap suffixesNE

/-- `l` (overlapping groups): `window = []; for item: window.append(item); if len(window) == rhs: yield window; window = window[1:]` -/
def windowsGo (k : Nat) : List Int → List Int → List (List Int)
  | _, [] => []
  | w, x :: xs =>
    if (w ++ [x]).length = k then (w ++ [x]) :: windowsGo k (w ++ [x]).tail xs else windowsGo k (w ++ [x]) xs

def windows (l : List Int) (k : Int) : List (List Int) := if k ≤ 0 then [] else windowsGo k.toNat [] l

/-- `øe` (run-length encoding): `itertools.groupby` — `[key, len(group)]` for every maximal run -/
def rleGo : Int → Nat → List Int → List (Int × Nat)
  | prev, n, [] => [(prev, n)]
  | prev, n, x :: xs => if x = prev then rleGo prev (n + 1) xs else (prev, n) :: rleGo x 1 xs

def rle : List Int → List (Int × Nat)
  | [] => []
  | x :: xs => rleGo x 1 xs

/-- `ød` (run-length decoding, on characters): `"".join(elem[0] * elem[1] for elem in lhs)` -/
def rld (ps : List (Int × Nat)) : List Int := ps.flatMap (fun p => List.replicate p.2 p.1)

/-- the order Python's stable `sorted(enumerate(l), key=item)` sorts positions by: the item, then the position -/
def gradeLe (l : List Int) (i j : Nat) : Bool :=
  decide (l.getD i 0 < l.getD j 0) || (decide (l.getD i 0 = l.getD j 0) && decide (i ≤ j))

/-- `⇧` (grade up): `[i for i, x in sorted(enumerate(l), key=x)]` -/
def gradeUp (l : List Int) : List Nat := (List.range l.length).mergeSort (gradeLe l)

/-- `sorted(..., reverse=True)` keeps equal items in their original order -/
def gradeGe (l : List Int) (i j : Nat) : Bool :=
  decide (l.getD j 0 < l.getD i 0) || (decide (l.getD i 0 = l.getD j 0) && decide (i ≤ j))

/-- `⇩` (grade down) -/
def gradeDown (l : List Int) : List Nat := (List.range l.length).mergeSort (gradeGe l)

/-- `Z` (zip): `zip_longest` with `0` for the missing side -/
def zipLongest : List Int → List Int → List (Int × Int)
  | [], bs => bs.map (fun b => (0, b))
  | a :: as, [] => (a, 0) :: zipLongest as []
  | a :: as, b :: bs => (a, b) :: zipLongest as bs

/-- `∩` (transpose), ragged rows allowed: `zip_longest(*rows, fillvalue=None)` with the `None`s dropped —
    column `i` holds item `i` of every row that has one -/
def transposeR (m : List (List Int)) : List (List Int) :=
  (List.range (m.foldl (fun k r => max k r.length) 0)).map (fun i => m.filterMap (fun r => r[i]?))

/-- `max_by(vec, cmp=less_than)`: `foldl(lambda a, b: b if a < b else a, vec)` -/
def maxFold : List Int → Option Int
  | [] => none
  | x :: xs => some (xs.foldl (fun a b => if a < b then b else a) x)

/-- `min_by`: `foldl(lambda a, b: b if b < a else a, vec)` -/
def minFold : List Int → Option Int
  | [] => none
  | x :: xs => some (xs.foldl (fun a b => if b < a then b else a) x)

/-- `G` / `g`: deep flatten first; the empty list gives the empty list (here: `none`) -/
def vyMax (t : T) : Option Int := maxFold (flattenT t)
def vyMin (t : T) : Option Int := minFold (flattenT t)

end Ls
