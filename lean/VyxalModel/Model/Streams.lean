/-!
# Lazy transformations as pulling machines (C14)

A source is a function `Nat → Int` (an infinite list) read through a cursor; a transformation is a
machine whose `step` produces one output item, possibly updating its state and advancing the cursor by
the number of items it pulled.  `run m src n` produces the first `n` outputs by structural recursion on
`n` — termination is totality — and reports the cursor, i.e. how many source items were pulled.
The machines are written after the generator bodies of `vyxal/elements.py` / `helpers.py`.
-/
namespace Str

structure M (σ : Type) where
  init : σ
  /-- state, source, cursor ↦ output item, new state, new cursor -/
  step : σ → (Nat → Int) → Nat → List Int × σ × Nat

def runFrom {σ : Type} (m : M σ) (src : Nat → Int) : Nat → σ → Nat → List (List Int) × σ × Nat
  | 0, s, p => ([], s, p)
  | n + 1, s, p =>
    ((m.step s src p).1 :: (runFrom m src n (m.step s src p).2.1 (m.step s src p).2.2).1,
     (runFrom m src n (m.step s src p).2.1 (m.step s src p).2.2).2.1,
     (runFrom m src n (m.step s src p).2.1 (m.step s src p).2.2).2.2)

def take {σ : Type} (m : M σ) (src : Nat → Int) (n : Nat) : List (List Int) := (runFrom m src n m.init 0).1
def pulls {σ : Type} (m : M σ) (src : Nat → Int) (n : Nat) : Nat := (runFrom m src n m.init 0).2.2

/-- `vectorise` of a monad / map of a pure function: one pull per item -/
def mapT (f : Int → Int) : M Unit := ⟨(), fun _ src p => ([f (src p)], (), p + 1)⟩

/-- cumulative sums (`scanl(add, …)`) -/
def cumsumT : M Int := ⟨0, fun acc src p => ([acc + src p], acc + src p, p + 1)⟩

/-- deltas: the first output needs two items, every later one a single new item -/
def deltasT : M (Option Int) :=
  ⟨none, fun st src p => match st with
    | none => ([src (p + 1) - src p], some (src (p + 1)), p + 2)
    | some prev => ([src p - prev], some (src p), p + 1)⟩

/-- overlapping windows of length `k + 1`: the first output pulls `k + 1` items, later ones one each -/
def windowsT (k : Nat) : M (Option (List Int)) :=
  ⟨none, fun st src p => match st with
    | none => let w := (List.range (k + 1)).map (fun i => src (p + i)); (w, some w, p + k + 1)
    | some w => let w' := w.tail ++ [src p]; (w', some w', p + 1)⟩

/-- chunks of length `k` (`wrap`): `k` pulls per output -/
def chunksT (k : Nat) : M Unit := ⟨(), fun _ src p => ((List.range k).map (fun i => src (p + i)), (), p + k)⟩

/-- enumerate: `[index, item]` -/
def enumerateT : M Nat := ⟨0, fun i src p => ([(i : Int), src p], i + 1, p + 1)⟩

/-- prepend a value: the first output pulls nothing -/
def prependT (x : Int) : M Bool := ⟨false, fun started src p => if started then ([src p], true, p + 1) else ([x], true, p)⟩

/-- slice from an offset `k` (`ll[k:]`): the first output pulls `k + 1` items -/
def sliceFromT (k : Nat) : M Bool := ⟨false, fun started src p => if started then ([src p], true, p + 1) else ([src (p + k)], true, p + k + 1)⟩

/-- prefixes: the i-th output is the first `i + 1` items; one pull per output -/
def prefixesT : M (List Int) := ⟨[], fun acc src p => (acc ++ [src p], acc ++ [src p], p + 1)⟩

/-- every second item (`ll[::2]`): the first output pulls one item, later ones two -/
def everyOtherT : M Bool := ⟨false, fun started src p => if started then ([src (p + 1)], true, p + 2) else ([src p], true, p + 1)⟩

/-- search for the next item satisfying `q`, looking at most `c` items ahead -/
def findNext (q : Int → Bool) (src : Nat → Int) : Nat → Nat → Option Nat
  | 0, _ => none
  | c + 1, p => if q (src p) then some p else findNext q src c (p + 1)

/-- filter, with a search window `c` (the density of `q` in the source): at most `c` pulls per output -/
def filterT (q : Int → Bool) (c : Nat) : M Unit :=
  ⟨(), fun _ src p => match findNext q src c p with
    | some i => ([src i], (), i + 1)
    | none => ([], (), p + c)⟩

/-- a finite list in front (`merge([0, 0], L)`): its items pull nothing -/
def prependListT (xs : List Int) : M Nat :=
  ⟨0, fun i src p => if i < xs.length then ([xs.getD i 0], i + 1, p) else ([src p], i, p + 1)⟩

/-- a finite list added item by item (`[1, 2, 3] + L`: zip-longest, the finite side filled with 0) -/
def addListT (xs : List Int) : M Nat := ⟨0, fun i src p => ([xs.getD i 0 + src p], i + 1, p + 1)⟩

/-- zip with a mapped copy of itself (`zip(L, f(L))`; both sides read the same cached source) -/
def zipMapT (f : Int → Int) : M Unit := ⟨(), fun _ src p => ([src p, f (src p)], (), p + 1)⟩

/-- interleave with a mapped copy of itself: `x0, f x0, x1, f x1, …` — every second output pulls nothing -/
def interleaveMapT (f : Int → Int) : M (Option Int) :=
  ⟨none, fun st src p => match st with
    | none => ([src p], some (src p), p + 1)
    | some x => ([f x], none, p)⟩

/-- a function vectorised over chunks of length `k` (`1 + wrap(L, k)`) -/
def chunksMapT (k : Nat) (f : Int → Int) : M Unit :=
  ⟨(), fun _ src p => ((List.range k).map (fun i => f (src (p + i))), (), p + k)⟩

/-- flatten of chunks of two (`deep_flatten(wrap(L, 2))`): a chunk is pulled whole, its second item is handed out without a pull -/
def flattenChunks2T : M (Option Int) :=
  ⟨none, fun st src p => match st with
    | none => ([src p], some (src (p + 1)), p + 2)
    | some y => ([y], none, p)⟩

/-- uniquify, with a search window `c`: the next item not seen so far -/
def uniqT (c : Nat) : M (List Int) :=
  ⟨[], fun seen src p => match findNext (fun x => !seen.contains x) src c p with
    | some i => ([src i], src i :: seen, i + 1)
    | none => ([], seen, p + c)⟩

/-- length of the run of items equal to `v` starting at `p`, looking at most `c` items ahead -/
def runLen (src : Nat → Int) (v : Int) : Nat → Nat → Nat
  | 0, _ => 0
  | c + 1, p => if src p = v then runLen src v c (p + 1) + 1 else 0

/-- group consecutive equal items (`Ġ`): `prev = lhs[0]; for item in lhs[1:]: if item != prev: yield [prev] * n; prev = item …` —
    a group is handed out when the first *different* item has been pulled; that item starts the next group.
    `c` bounds the length of a run (beyond it the model cuts the run). -/
def groupT (c : Nat) : M (Option Int) :=
  ⟨none, fun st src p =>
    let first := match st with | some v => v | none => src p
    let p1 := match st with | some _ => p | none => p + 1
    let k := runLen src first c p1
    (List.replicate (k + 1) first, some (src (p1 + k)), p1 + k + 1)⟩

end Str
