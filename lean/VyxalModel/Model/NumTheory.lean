/-!
# Executable reference definitions for the number-theory builtins (C17)

Each function is the textbook definition made executable in the most direct way; `Proofs/C17.lean`
proves that it *is* the textbook definition.  The real elements delegate to sympy / math; that
they agree with these references is established by the correspondence on the ranges run (T5).
-/
namespace NT

def isPrimeB (n : Nat) : Bool := decide (2 ≤ n) && (List.range n).all (fun d => decide (d < 2) || n % d != 0)

def divisorsL (n : Nat) : List Nat := (List.range (n + 1)).filter (fun d => decide (0 < d) && n % d == 0)

def fact : Nat → Nat
  | 0 => 1
  | n + 1 => (n + 1) * fact n

def choose : Nat → Nat → Nat
  | _, 0 => 1
  | 0, _ + 1 => 0
  | n + 1, k + 1 => choose n k + choose n (k + 1)

def totient (n : Nat) : Nat := ((List.range (n + 1)).filter (fun k => decide (0 < k) && Nat.gcd n k == 1)).length

def lcm (a b : Nat) : Nat := if a = 0 ∨ b = 0 then 0 else a / Nat.gcd a b * b

/-- trial division: prime factors with multiplicity, ascending -/
def pfAux : Nat → Nat → Nat → List Nat
  | 0, _, _ => []
  | f + 1, n, d =>
    if n < 2 then [] else if n % d = 0 then d :: pfAux f (n / d) d else pfAux f n (d + 1)

def primeFactors (n : Nat) : List Nat := pfAux (2 * n + 2) n 2

def dedup : List Nat → List Nat
  | [] => []
  | x :: xs => if xs.head? = some x then dedup xs else x :: dedup xs

def primeFactorsDistinct (n : Nat) : List Nat := dedup (primeFactors n)

/-- least prime above `n`, searched in `(n, n + fuel]` -/
def nextPrimeF : Nat → Nat → Option Nat
  | 0, _ => none
  | f + 1, m => if isPrimeB m then some m else nextPrimeF f (m + 1)

def nextPrime (n : Nat) : Option Nat := nextPrimeF (n + 3) (n + 1)    -- Bertrand: a prime in (n, 2n+2]

def prevPrimeF : Nat → Nat → Option Nat
  | 0, _ => none
  | f + 1, m => if isPrimeB m then some m else (if m = 0 then none else prevPrimeF f (m - 1))

def prevPrime (n : Nat) : Option Nat := if n < 3 then none else prevPrimeF n (n - 1)

def divisorSum (n : Nat) : Nat := ((divisorsL n).filter (· != n)).foldl (· + ·) 0

def isSquareB (n : Nat) : Bool := (List.range (n + 1)).any (fun k => k * k == n)

def digitsOf (b : Nat) : Nat → Nat → List Nat → List Nat   -- fuel, n, acc : most significant first
  | 0, _, acc => acc
  | f + 1, n, acc => if n < b then n :: acc else digitsOf b f (n / b) (n % b :: acc)

def binDigits (n : Nat) : List Nat := digitsOf 2 (n + 1) n []
def decDigits (n : Nat) : List Nat := digitsOf 10 (n + 1) n []
def fromBinDigits (ds : List Nat) : Nat := ds.foldl (fun r d => 2 * r + d) 0

def inclusiveOneRange (n : Nat) : List Nat := (List.range n).map (· + 1)      -- ɾ : 1..n
def exclusiveOneRange (n : Nat) : List Nat := (List.range (n - 1)).map (· + 1) -- ɽ : 1..n-1
def inclusiveZeroRange (n : Nat) : List Nat := List.range (n + 1)              -- ʀ : 0..n
def exclusiveZeroRange (n : Nat) : List Nat := List.range n                    -- ʁ : 0..n-1

end NT
