import VyxalModel.Lemmas.Number
/-!
# C05 — numeric literals denote exactly their decimal value

* lexer: an integer literal is one NUMBER token (`lex_integer`), a leading zero stands alone
  (`lex_leading_zero`), `a.b` is one token (`lex_decimal`), a second point starts a new number
  (`lex_second_point`) — for **all** digit strings;
* transpiler: for a real literal the text handed to sympy is the literal itself, unchanged
  (`number_parts_plain`; the lone `.` is the documented `0.5`), and a literal with a point goes to
  `sympy.Rational`, an integer literal to `sympy.nsimplify` (`uses_rational_iff`);
* value: read left to right, the literal `a.b` denotes `(a·10^|b| + b) / 10^|b|` (`decimal_value`),
  an integer literal its integer (`integer_value`).

That `sympy.Rational("<decimal string>")` / `sympy.nsimplify("<integer string>")` return exactly this
value is the recorded assumption T5, validated on every literal the correspondence runs (compared
with `fractions.Fraction` by type and exact equality).
-/
namespace C05
open Vy

def AllDigits (s : List Nat) : Prop := ∀ c ∈ s, isDig c = true

theorem lex_integer (c : Nat) (cs : List Nat) (hc : isDig c = true) (h0 : c ≠ 48) (hd : AllDigits cs) :
    tokenise (c :: cs) = [⟨.number, c :: cs⟩] := _root_.lex_integer c cs hc h0 hd

theorem lex_zero : tokenise [48] = [⟨.number, [48]⟩] := by decide

theorem lex_leading_zero (d : Nat) (ds : List Nat) (hd : isDig d = true) :
    tokenise (48 :: d :: ds) = ⟨.number, [48]⟩ :: tokenise (d :: ds) := _root_.lex_leading_zero d ds hd

theorem lex_decimal (a b : List Nat) (ha : AllDigits a) (hb : AllDigits b) (h0 : a.head? ≠ some 48 ∨ a = [48]) :
    tokenise (a ++ cDot :: b) = [⟨.number, a ++ cDot :: b⟩] := by
  have := lex_decimal_gen a b [] ha hb h0 (Or.inl rfl)
  simpa [tokenise_nil] using this

theorem lex_second_point (a b r : List Nat) (ha : AllDigits a) (hb : AllDigits b)
    (h0 : a.head? ≠ some 48 ∨ a = [48]) :
    tokenise (a ++ cDot :: b ++ cDot :: r) = ⟨.number, a ++ cDot :: b⟩ :: tokenise (cDot :: r) :=
  lex_decimal_gen a b (cDot :: r) ha hb h0 (Or.inr ⟨r, rfl⟩)

example : tokenise [49, 46, 53, 46, 53] = [⟨.number, [49, 46, 53]⟩, ⟨.number, [46, 53]⟩] := by decide

/-! ## the text handed to sympy -/

theorem splitOn_none (sep : Nat) (s : List Nat) (h : ∀ c ∈ s, c ≠ sep) : splitOn sep s = [s] := by
  induction s with
  | nil => rfl
  | cons c cs ih =>
    have hc : c ≠ sep := h c (by simp)
    simp [splitOn, ih (fun x hx => h x (by simp [hx])), hc]

def RealLiteral (s : List Nat) : Prop := ∀ c ∈ s, isDig c = true ∨ c = cDot

/-- the payload of the emitted call is the literal's own text (only digits and points; used again by C18) -/
theorem number_parts_plain (s : List Nat) (hs : RealLiteral s) (hne : s ≠ [cDot]) : numberParts s = s := by
  have hdeg : ∀ c ∈ s, c ≠ cDeg := by
    intro c hc; rcases hs c hc with h | h
    · exact (isDig_not_dot h).2
    · subst h; decide
  have h43 : ∀ c ∈ s, c ≠ 43 := by
    intro c hc; rcases hs c hc with h | h
    · have hr : 48 ≤ c ∧ c ≤ 57 := by simpa [isDig] using h
      omega
    · subst h; decide
  have hhead : s.head? ≠ some 43 := by
    cases s with
    | nil => simp
    | cons c cs => simpa using h43 c (by simp)
  have hlast : s.getLast? ≠ some 43 := by
    intro h
    exact h43 43 (List.mem_of_getLast? h) rfl
  have hcont : s.contains 43 = false := by
    cases hc : s.contains 43 with
    | false => rfl
    | true => exact absurd rfl (h43 43 (by simpa using hc))
  have hnm : ¬ (43 ∈ s) := fun h => h43 43 h rfl
  simp [numberParts, splitDeg, splitOn_none cDeg s hdeg, joinPlus, hne, hhead, hlast, hnm]

theorem number_parts_lone_point : numberParts [cDot] = [48, 46, 53] := by decide

/-- a literal goes to the exact constructor `sympy.Rational` exactly when it contains a point -/
theorem uses_rational_iff (s : List Nat) (hs : RealLiteral s) (hne : s ≠ [cDot]) :
    numberUsesRational s = s.contains cDot := by
  have h73 : s.contains 73 = false := by
    cases hc : s.contains 73 with
    | false => rfl
    | true =>
      have hm : 73 ∈ s := by simpa using hc
      rcases hs 73 hm with h | h
      · simp [isDig] at h
      · simp [cDot] at h
  have hnm : ¬ (73 ∈ s) := by simpa using h73
  simp [numberUsesRational, number_parts_plain s hs hne, hnm]

/-! ## the value -/

theorem integer_value (ds : List Nat) (hd : AllDigits ds) : decimalValue ds = some (natOfDigits ds, 0) := by
  have := decimalValueAux_digits ds [] hd 0 none
  simp only [List.append_nil] at this
  simp [decimalValue, this, decimalValueAux, natOfDigits_eq]

/-- `a.b` denotes `(a·10^|b| + b) / 10^|b|`: the fraction the literal spells, with no rounding -/
theorem decimal_value (a b : List Nat) (ha : AllDigits a) (hb : AllDigits b) :
    decimalValue (a ++ cDot :: b) = some (natOfDigits a * 10 ^ b.length + natOfDigits b, b.length) := by
  have h1 := decimalValueAux_digits a (cDot :: b) ha 0 none
  have hnd : isDig cDot = false := by decide
  have h2 := decimalValueAux_digits b [] hb (digitsVal 0 a) (some 0)
  simp only [List.append_nil] at h2
  simp only [decimalValue, h1, Option.map_none, decimalValueAux, hnd, Bool.false_eq_true, if_false, if_true, h2]
  simp [decimalValueAux, digitsVal_shift (digitsVal 0 a) b, natOfDigits_eq]

example : decimalValue [49, 46, 52, 49] = some (141, 2) := by decide    -- 1.41 = 141/100

end C05
