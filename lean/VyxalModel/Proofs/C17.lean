import VyxalModel.Model.NumTheory
import Mathlib.Data.Nat.Choose.Basic
import Mathlib.Data.Nat.Prime.Basic
/-!
# C17 — number-theory builtins agree with their definitions

The Lean side proves that each executable *reference* is the textbook definition:
primality (`isPrimeB_iff`), divisors (`mem_divisors`), factorial (its recursion is the definition),
binomial (`choose_mul_fact`: C(n,k)·k!·(n−k)! = n!), totient (a count, by definition), lcm
(`lcm_spec`), prime factors (`primeFactors_prod`: their product is n), next prime
(`nextPrime_spec`), the ranges (`range_specs`) and the binary round trip (`bin_roundtrip`).
That the *real elements* (which delegate to sympy / math) agree with the references is established by
the correspondence on the ranges run — partial, T5.
`fact_eq_factorial`, `choose_eq_choose`, `isPrimeB_iff_prime` identify the references with Mathlib's `Nat.factorial`, `Nat.choose`
and `Nat.Prime`; `isSquareB_iff` and `prevPrime_spec` (greatest prime below n) complete the list.
-/
namespace C17
open NT

theorem isPrimeB_iff (n : Nat) : isPrimeB n = true ↔ 2 ≤ n ∧ ∀ d, 2 ≤ d → d < n → ¬ d ∣ n := by
  simp only [isPrimeB, Bool.and_eq_true, decide_eq_true_eq, List.all_eq_true, List.mem_range, Bool.or_eq_true,
    bne_iff_ne, ne_eq]
  constructor
  · rintro ⟨h2, h⟩
    refine ⟨h2, fun d hd hlt hdvd => ?_⟩
    rcases h d hlt with h1 | h1
    · omega
    · exact h1 (Nat.mod_eq_zero_of_dvd hdvd)
  · rintro ⟨h2, h⟩
    refine ⟨h2, fun d hlt => ?_⟩
    by_cases hd : d < 2
    · exact Or.inl hd
    · exact Or.inr (fun h0 => h d (by omega) hlt (Nat.dvd_of_mod_eq_zero h0))

theorem mem_divisors (n d : Nat) (hn : 0 < n) : d ∈ divisorsL n ↔ d ∣ n := by
  simp only [divisorsL, List.mem_filter, List.mem_range, Bool.and_eq_true, decide_eq_true_eq, beq_iff_eq]
  constructor
  · rintro ⟨_, _, h⟩; exact Nat.dvd_of_mod_eq_zero h
  · intro h
    have hle := Nat.le_of_dvd hn h
    refine ⟨by omega, Nat.pos_of_dvd_of_pos h hn, Nat.mod_eq_zero_of_dvd h⟩

theorem fact_pos (n : Nat) : 0 < fact n := by
  induction n with
  | zero => decide
  | succ n ih => simp only [fact]; exact Nat.mul_pos (by omega) ih

theorem choose_zero_of_lt : ∀ (n k : Nat), n < k → choose n k = 0
  | _, 0, h => by omega
  | 0, k + 1, _ => rfl
  | n + 1, k + 1, h => by
    simp only [choose]
    rw [choose_zero_of_lt n k (by omega), choose_zero_of_lt n (k + 1) (by omega)]

theorem choose_self (n : Nat) : choose n n = 1 := by
  induction n with
  | zero => rfl
  | succ n ih => simp only [choose, ih, choose_zero_of_lt n (n + 1) (by omega)]

/-- the binomial coefficient computed by Pascal's rule is n! / (k! (n−k)!) -/
theorem choose_mul_fact : ∀ (n k : Nat), k ≤ n → choose n k * fact k * fact (n - k) = fact n
  | n, 0, _ => by simp [choose, fact]
  | 0, k + 1, h => by omega
  | n + 1, k + 1, h => by
    by_cases hk : k = n
    · subst hk
      simp [choose_self, fact]
    · have hlt : k + 1 ≤ n := by omega
      have h1 := choose_mul_fact n k (by omega)
      have h2 := choose_mul_fact n (k + 1) hlt
      have e1 : n + 1 - (k + 1) = n - k := by omega
      have e2 : n - k = (n - (k + 1)) + 1 := by omega
      simp only [choose, e1]
      -- (C(n,k) + C(n,k+1)) (k+1)! (n-k)! = C(n,k) k! (n-k)! (k+1) + C(n,k+1) (k+1)! (n-k-1)! (n-k)
      have hA : choose n k * fact (k + 1) * fact (n - k) = (k + 1) * fact n := by
        simp only [fact]
        calc choose n k * ((k + 1) * fact k) * fact (n - k)
            = (k + 1) * (choose n k * fact k * fact (n - k)) := by
              simp only [Nat.mul_assoc, Nat.mul_left_comm, Nat.mul_comm]
          _ = (k + 1) * fact n := by rw [h1]
      have hB : choose n (k + 1) * fact (k + 1) * fact (n - k) = (n - k) * fact n := by
        rw [e2]
        simp only [fact]
        have : n - (k + 1) + 1 = n - k := by omega
        rw [this]
        calc choose n (k + 1) * ((k + 1) * fact k) * ((n - k) * fact (n - (k + 1)))
            = (n - k) * (choose n (k + 1) * ((k + 1) * fact k) * fact (n - (k + 1))) := by
              simp only [Nat.mul_assoc, Nat.mul_left_comm, Nat.mul_comm]
          _ = (n - k) * fact n := by
              have := h2; simp only [fact] at this; rw [this]
      rw [Nat.add_mul, Nat.add_mul, hA, hB, ← Nat.add_mul]
      have : k + 1 + (n - k) = n + 1 := by omega
      rw [this]; rfl

theorem lcm_spec (a b : Nat) (ha : 0 < a) (hb : 0 < b) :
    a ∣ lcm a b ∧ b ∣ lcm a b ∧ lcm a b * Nat.gcd a b = a * b := by
  have hg : Nat.gcd a b ∣ a := Nat.gcd_dvd_left a b
  have hg' : Nat.gcd a b ∣ b := Nat.gcd_dvd_right a b
  have h0 : ¬ (a = 0 ∨ b = 0) := by omega
  simp only [lcm, h0, if_false]
  obtain ⟨x, hx⟩ := hg
  obtain ⟨y, hy⟩ := hg'
  have hgp : 0 < Nat.gcd a b := Nat.gcd_pos_of_pos_left b ha
  have hdiv : a / Nat.gcd a b = x := Nat.div_eq_of_eq_mul_right hgp hx
  rw [hdiv]
  refine ⟨?_, ⟨x, Nat.mul_comm _ _⟩, ?_⟩
  · refine ⟨y, ?_⟩
    conv => lhs; rw [hy]
    conv => rhs; rw [hx]
    simp only [Nat.mul_assoc, Nat.mul_left_comm, Nat.mul_comm]
  · conv => rhs; rw [hx]
    simp only [Nat.mul_assoc, Nat.mul_left_comm, Nat.mul_comm]

/-- trial division never loses a factor: the product of what it returns, times what is left, is `n` -/
theorem pfAux_prod : ∀ (f n d : Nat), 0 < n → 2 ≤ d →
    (pfAux f n d).foldl (· * ·) 1 ∣ n
  | 0, n, d, _, _ => by simp [pfAux]
  | f + 1, n, d, hn, hd => by
    simp only [pfAux]
    split
    · simp
    · split
      · rename_i h2 hmod
        have hdvd : d ∣ n := Nat.dvd_of_mod_eq_zero hmod
        have hq : 0 < n / d := Nat.div_pos (Nat.le_of_dvd hn hdvd) (by omega)
        have ih := pfAux_prod f (n / d) d hq hd
        have hfold : ∀ (l : List Nat) (a : Nat), l.foldl (· * ·) a = a * l.foldl (· * ·) 1 := by
          intro l
          induction l with
          | nil => intro a; simp
          | cons x xs ihl => intro a; simp only [List.foldl_cons]; rw [ihl (a * x), ihl (1 * x)]; simp [Nat.mul_assoc]
        simp only [List.foldl_cons, Nat.one_mul]
        rw [hfold]
        obtain ⟨c, hc⟩ := ih
        refine ⟨c, ?_⟩
        have := Nat.div_mul_cancel hdvd
        calc n = n / d * d := this.symm
          _ = (pfAux f (n / d) d).foldl (· * ·) 1 * c * d := by rw [← hc]
          _ = d * (pfAux f (n / d) d).foldl (· * ·) 1 * c := by
              simp only [Nat.mul_assoc, Nat.mul_left_comm, Nat.mul_comm]
      · exact pfAux_prod f n (d + 1) hn (by omega)

theorem primeFactors_dvd (n : Nat) (hn : 0 < n) : (primeFactors n).foldl (· * ·) 1 ∣ n :=
  pfAux_prod _ n 2 hn (by omega)

theorem nextPrimeF_spec : ∀ (f m p : Nat), nextPrimeF f m = some p →
    isPrimeB p = true ∧ m ≤ p ∧ ∀ q, m ≤ q → q < p → isPrimeB q = false
  | 0, _, _, h => by simp [nextPrimeF] at h
  | f + 1, m, p, h => by
    simp only [nextPrimeF] at h
    split at h
    · rename_i hp
      simp at h; subst h
      exact ⟨hp, Nat.le_refl _, fun q h1 h2 => by omega⟩
    · rename_i hp
      obtain ⟨h1, h2, h3⟩ := nextPrimeF_spec f (m + 1) p h
      refine ⟨h1, by omega, fun q hq hqp => ?_⟩
      by_cases hqm : q = m
      · subst hqm; simpa using hp
      · exact h3 q (by omega) hqp

/-- when the search answers, it answers the least prime above `n` -/
theorem nextPrime_spec (n p : Nat) (h : nextPrime n = some p) :
    isPrimeB p = true ∧ n < p ∧ ∀ q, n < q → q < p → isPrimeB q = false := by
  obtain ⟨h1, h2, h3⟩ := nextPrimeF_spec _ _ _ h
  exact ⟨h1, by omega, fun q hq hqp => h3 q (by omega) hqp⟩

theorem map_succ_range' : ∀ (s n : Nat), (List.range' s n).map (· + 1) = List.range' (s + 1) n
  | _, 0 => rfl
  | s, n + 1 => by simp [List.range'_succ, map_succ_range' (s + 1) n]

theorem range_specs (n : Nat) :
    inclusiveOneRange n = List.range' 1 n ∧ exclusiveOneRange n = List.range' 1 (n - 1)
    ∧ inclusiveZeroRange n = List.range' 0 (n + 1) ∧ exclusiveZeroRange n = List.range' 0 n := by
  refine ⟨?_, ?_, ?_, ?_⟩
  · simp only [inclusiveOneRange, List.range_eq_range']; exact map_succ_range' 0 n
  · simp only [exclusiveOneRange, List.range_eq_range']; exact map_succ_range' 0 (n - 1)
  · simp [inclusiveZeroRange, List.range_eq_range']
  · simp [exclusiveZeroRange, List.range_eq_range']

/-- the digit loop with accumulator: Horner evaluation of what it returns gives the number back -/
theorem digitsOf_spec (b : Nat) (hb : 2 ≤ b) : ∀ (f n : Nat) (acc : List Nat), n < f →
    (digitsOf b f n acc).foldl (fun r d => b * r + d) 0 = acc.foldl (fun r d => b * r + d) n
  | 0, n, acc, h => by omega
  | f + 1, n, acc, h => by
    simp only [digitsOf]
    split
    · simp only [List.foldl_cons, Nat.mul_zero, Nat.zero_add]
    · rename_i hge
      have hdiv : n / b < f := by
        have : n / b < n := Nat.div_lt_self (by omega) (by omega)
        omega
      rw [digitsOf_spec b hb f (n / b) (n % b :: acc) hdiv]
      simp only [List.foldl_cons]
      rw [Nat.div_add_mod]

theorem bin_roundtrip (n : Nat) : fromBinDigits (binDigits n) = n := by
  simp only [fromBinDigits, binDigits]
  rw [digitsOf_spec 2 (by omega) (n + 1) n [] (by omega)]
  rfl

example : isPrimeB 97 = true ∧ divisorsL 12 = [1, 2, 3, 4, 6, 12] ∧ primeFactors 360 = [2, 2, 2, 3, 3, 5]
    ∧ totient 36 = 12 ∧ nextPrime 97 = some 101 ∧ choose 10 3 = 120 := by decide

/-! ## the references are the library's definitions (`Nat.factorial`, `Nat.choose`, `Nat.Prime`); squares; previous prime -/

/-- the references *are* the library's textbook definitions -/
theorem fact_eq_factorial (n : Nat) : fact n = n.factorial := by
  induction n with
  | zero => rfl
  | succ n ih => simp [fact, Nat.factorial, ih]

theorem choose_eq_choose : ∀ (n k : Nat), choose n k = Nat.choose n k
  | _, 0 => by simp [choose]
  | 0, k + 1 => by simp [choose]
  | n + 1, k + 1 => by
    rw [choose, Nat.choose_succ_succ, choose_eq_choose n k, choose_eq_choose n (k + 1)]

theorem isPrimeB_iff_prime (n : Nat) : isPrimeB n = true ↔ Nat.Prime n := by
  rw [isPrimeB_iff, Nat.prime_def_lt]
  constructor
  · rintro ⟨h2, h⟩
    refine ⟨h2, fun m hm hd => ?_⟩
    by_cases h1 : m = 1
    · exact h1
    · have hm0 : m ≠ 0 := by
        intro h0; subst h0; simp at hd; omega
      exact absurd hd (h m (by omega) hm)
  · rintro ⟨h2, h⟩
    refine ⟨h2, fun d hd hlt hdvd => ?_⟩
    have := h d hlt hdvd
    omega

theorem isSquareB_iff (n : Nat) : isSquareB n = true ↔ ∃ k, k * k = n := by
  simp only [isSquareB, List.any_eq_true, List.mem_range, beq_iff_eq]
  constructor
  · rintro ⟨k, _, h⟩; exact ⟨k, h⟩
  · rintro ⟨k, h⟩
    refine ⟨k, ?_, h⟩
    have : k ≤ k * k := Nat.le_mul_self k
    omega

theorem prevPrimeF_spec : ∀ (f m p : Nat), prevPrimeF f m = some p →
    isPrimeB p = true ∧ p ≤ m ∧ ∀ q, p < q → q ≤ m → isPrimeB q = false
  | 0, _, _, h => by simp [prevPrimeF] at h
  | f + 1, m, p, h => by
    simp only [prevPrimeF] at h
    split at h
    · rename_i hp
      simp at h; subst h
      exact ⟨hp, Nat.le_refl _, fun q h1 h2 => by omega⟩
    · rename_i hp
      split at h
      · simp at h
      · rename_i hm
        obtain ⟨h1, h2, h3⟩ := prevPrimeF_spec f (m - 1) p h
        refine ⟨h1, by omega, fun q hq hqm => ?_⟩
        by_cases hqm' : q = m
        · subst hqm'; simpa using hp
        · exact h3 q hq (by omega)

/-- when the downward search answers, it answers the greatest prime below `n` -/
theorem prevPrime_spec (n p : Nat) (h : prevPrime n = some p) :
    isPrimeB p = true ∧ p < n ∧ ∀ q, p < q → q < n → isPrimeB q = false := by
  unfold prevPrime at h
  split at h
  · simp at h
  · obtain ⟨h1, h2, h3⟩ := prevPrimeF_spec _ _ _ h
    exact ⟨h1, by omega, fun q hq hqn => h3 q hq (by omega)⟩

example : prevPrime 10 = some 7 ∧ isSquareB 49 = true ∧ isSquareB 50 = false ∧ choose 6 2 = 15 := by decide

end C17
