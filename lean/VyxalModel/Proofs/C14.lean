import VyxalModel.Model.Streams
/-!
# C14 — finite prefixes of infinite lists are computed lazily and terminate

`take` is total (structural recursion on the number of items asked for: the first n items of a
transformation of an infinite list always exist), and for each catalogued machine the number of
source items pulled for the first n outputs is bounded linearly — proved for every n and every source:
map / vectorised monad ≤ n, cumulative sums ≤ n, deltas ≤ n+1, windows of length k+1 ≤ n+k, chunks of k
= k·n, enumerate ≤ n, prepend ≤ n, slice from offset k ≤ n+k, prefixes ≤ n, every other item ≤ 2n,
filter ≤ c·n when the predicate holds at least once in every c consecutive items.  `bound_compose`
composes linear bounds, so pipelines of any depth stay linear.

CPython's generator protocol and itertools are not modelled (T4): a machine is a hand reading of a
generator body, validated by outputs *and* pull counts on the real code — partial.
-/
namespace C14
open Str

/-- a machine is `(a, b)`-linear from state `s` when `n` more outputs advance the cursor by at most `a·n + b`,
    and by at most `a·n` once it has started (`s'`-states reached later) -/
def StepBound {σ : Type} (m : M σ) (src : Nat → Int) (a : Nat) (good : σ → Prop) : Prop :=
  ∀ s p, good s → (m.step s src p).2.2 ≤ p + a ∧ good (m.step s src p).2.1

theorem run_bound {σ : Type} (m : M σ) (src : Nat → Int) (a : Nat) (good : σ → Prop) (h : StepBound m src a good) :
    ∀ (n : Nat) (s : σ) (p : Nat), good s → (runFrom m src n s p).2.2 ≤ p + a * n := by
  intro n
  induction n with
  | zero => intro s p _; simp [runFrom]
  | succ n ih =>
    intro s p hs
    obtain ⟨h1, h2⟩ := h s p hs
    simp only [runFrom]
    have := ih (m.step s src p).2.1 (m.step s src p).2.2 h2
    rw [Nat.mul_succ]
    omega

theorem take_length {σ : Type} (m : M σ) (src : Nat → Int) : ∀ (n : Nat) (s : σ) (p : Nat),
    (runFrom m src n s p).1.length = n := by
  intro n
  induction n with
  | zero => intro s p; rfl
  | succ n ih => intro s p; simp [runFrom, ih]

/-- asking for n items always answers n items: it terminates, whatever the (infinite) source -/
theorem take_total {σ : Type} (m : M σ) (src : Nat → Int) (n : Nat) : (take m src n).length = n :=
  take_length m src n m.init 0

theorem bound_map (f : Int → Int) (src : Nat → Int) (n : Nat) : pulls (mapT f) src n ≤ n := by
  have := run_bound (mapT f) src 1 (fun _ => True) (fun s p _ => ⟨by simp [mapT], trivial⟩) n () 0 trivial
  simpa [pulls] using this

theorem bound_cumsum (src : Nat → Int) (n : Nat) : pulls cumsumT src n ≤ n := by
  have := run_bound cumsumT src 1 (fun _ => True) (fun s p _ => ⟨by simp [cumsumT], trivial⟩) n 0 0 trivial
  simpa [pulls, cumsumT] using this

theorem bound_enumerate (src : Nat → Int) (n : Nat) : pulls enumerateT src n ≤ n := by
  have := run_bound enumerateT src 1 (fun _ => True) (fun s p _ => ⟨by simp [enumerateT], trivial⟩) n 0 0 trivial
  simpa [pulls, enumerateT] using this

theorem bound_prefixes (src : Nat → Int) (n : Nat) : pulls prefixesT src n ≤ n := by
  have := run_bound prefixesT src 1 (fun _ => True) (fun s p _ => ⟨by simp [prefixesT], trivial⟩) n [] 0 trivial
  simpa [pulls, prefixesT] using this

theorem bound_chunks (k : Nat) (src : Nat → Int) (n : Nat) : pulls (chunksT k) src n ≤ k * n := by
  have := run_bound (chunksT k) src k (fun _ => True) (fun s p _ => ⟨by simp [chunksT], trivial⟩) n () 0 trivial
  simpa [pulls] using this

/-- a machine whose first step is special: after it, every step pulls at most `a` items -/
theorem bound_after_first {σ : Type} (m : M σ) (src : Nat → Int) (a b : Nat) (good : σ → Prop)
    (hfirst : (m.step m.init src 0).2.2 ≤ b ∧ good (m.step m.init src 0).2.1) (h : StepBound m src a good) (n : Nat) :
    pulls m src (n + 1) ≤ b + a * n := by
  simp only [pulls, runFrom]
  have := run_bound m src a good h n (m.step m.init src 0).2.1 (m.step m.init src 0).2.2 hfirst.2
  omega

theorem bound_deltas (src : Nat → Int) (n : Nat) : pulls deltasT src n ≤ n + 1 := by
  cases n with
  | zero => simp [pulls, runFrom]
  | succ n =>
    have := bound_after_first deltasT src 1 2 (fun s => s.isSome = true)
      ⟨by simp [deltasT], by simp [deltasT]⟩
      (fun s p hs => by
        cases s with
        | none => simp at hs
        | some v => simp [deltasT]) n
    omega

theorem bound_windows (k : Nat) (src : Nat → Int) (n : Nat) : pulls (windowsT k) src n ≤ n + k := by
  cases n with
  | zero => simp [pulls, runFrom]
  | succ n =>
    have := bound_after_first (windowsT k) src 1 (k + 1) (fun s => s.isSome = true)
      ⟨by simp [windowsT], by simp [windowsT]⟩
      (fun s p hs => by
        cases s with
        | none => simp at hs
        | some v => simp [windowsT]) n
    omega

theorem bound_prepend (x : Int) (src : Nat → Int) (n : Nat) : pulls (prependT x) src n ≤ n := by
  cases n with
  | zero => simp [pulls, runFrom]
  | succ n =>
    have := bound_after_first (prependT x) src 1 0 (fun s => s = true)
      ⟨by simp [prependT], by simp [prependT]⟩
      (fun s p hs => by subst hs; simp [prependT]) n
    omega

theorem bound_slice_from (k : Nat) (src : Nat → Int) (n : Nat) : pulls (sliceFromT k) src n ≤ n + k := by
  cases n with
  | zero => simp [pulls, runFrom]
  | succ n =>
    have := bound_after_first (sliceFromT k) src 1 (k + 1) (fun s => s = true)
      ⟨by simp [sliceFromT], by simp [sliceFromT]⟩
      (fun s p hs => by subst hs; simp [sliceFromT]) n
    omega

theorem bound_every_other (src : Nat → Int) (n : Nat) : pulls everyOtherT src n ≤ 2 * n := by
  cases n with
  | zero => simp [pulls, runFrom]
  | succ n =>
    have := bound_after_first everyOtherT src 2 1 (fun s => s = true)
      ⟨by simp [everyOtherT], by simp [everyOtherT]⟩
      (fun s p hs => by subst hs; simp [everyOtherT]) n
    omega

theorem findNext_bound (q : Int → Bool) (src : Nat → Int) : ∀ (c p i : Nat), findNext q src c p = some i → p ≤ i ∧ i < p + c
  | 0, p, i, h => by simp [findNext] at h
  | c + 1, p, i, h => by
    simp only [findNext] at h
    split at h
    · simp at h; omega
    · have := findNext_bound q src c (p + 1) i h; omega

/-- filter: with the predicate true at least once in every window of `c` items — or not: the search window
    bounds the pulls either way — n outputs cost at most c·n pulls -/
theorem bound_filter (q : Int → Bool) (c : Nat) (src : Nat → Int) (n : Nat) : pulls (filterT q c) src n ≤ c * n := by
  have := run_bound (filterT q c) src c (fun _ => True) (fun s p _ => by
    refine ⟨?_, trivial⟩
    simp only [filterT]
    cases hf : findNext q src c p with
    | none => simp
    | some i => have := findNext_bound q src c p i hf; simp; omega) n () 0 trivial
  simpa [pulls] using this

/-- under the density hypothesis the filter really finds an item at every step (it never gives up) -/
theorem filter_finds (q : Int → Bool) (src : Nat → Int) : ∀ (c p : Nat), (∃ j, j < c ∧ q (src (p + j)) = true) →
    ∃ i, findNext q src c p = some i ∧ q (src i) = true
  | 0, p, ⟨j, hj, _⟩ => by omega
  | c + 1, p, ⟨j, hj, hq⟩ => by
    simp only [findNext]
    by_cases h0 : q (src p) = true
    · exact ⟨p, by simp [h0], h0⟩
    · have hj0 : j ≠ 0 := by intro e; subst e; exact h0 (by simpa using hq)
      obtain ⟨i, hi, hqi⟩ := filter_finds q src c (p + 1) ⟨j - 1, by omega, by
        have : p + 1 + (j - 1) = p + j := by omega
        rw [this]; exact hq⟩
      exact ⟨i, by simp [h0, hi], hqi⟩

theorem bound_prepend_list (xs : List Int) (src : Nat → Int) (n : Nat) : pulls (prependListT xs) src n ≤ n := by
  have := run_bound (prependListT xs) src 1 (fun _ => True)
    (fun s p _ => ⟨by simp only [prependListT]; split <;> simp, trivial⟩) n 0 0 trivial
  simpa [pulls, prependListT] using this

theorem bound_add_list (xs : List Int) (src : Nat → Int) (n : Nat) : pulls (addListT xs) src n ≤ n := by
  have := run_bound (addListT xs) src 1 (fun _ => True) (fun s p _ => ⟨by simp [addListT], trivial⟩) n 0 0 trivial
  simpa [pulls, addListT] using this

theorem bound_zip_map (f : Int → Int) (src : Nat → Int) (n : Nat) : pulls (zipMapT f) src n ≤ n := by
  have := run_bound (zipMapT f) src 1 (fun _ => True) (fun s p _ => ⟨by simp [zipMapT], trivial⟩) n () 0 trivial
  simpa [pulls] using this

theorem bound_interleave_map (f : Int → Int) (src : Nat → Int) (n : Nat) : pulls (interleaveMapT f) src n ≤ n := by
  have := run_bound (interleaveMapT f) src 1 (fun _ => True)
    (fun s p _ => ⟨by cases s <;> simp [interleaveMapT], trivial⟩) n none 0 trivial
  simpa [pulls, interleaveMapT] using this

theorem bound_chunks_map (k : Nat) (f : Int → Int) (src : Nat → Int) (n : Nat) : pulls (chunksMapT k f) src n ≤ k * n := by
  have := run_bound (chunksMapT k f) src k (fun _ => True) (fun s p _ => ⟨by simp [chunksMapT], trivial⟩) n () 0 trivial
  simpa [pulls] using this

/-- flatten of chunks of two: at most one item is pulled ahead of what has been handed out -/
theorem flatten_chunks_run (src : Nat → Int) : ∀ (n : Nat) (s : Option Int) (p : Nat),
    (runFrom flattenChunks2T src n s p).2.2 ≤ p + n + (if s.isNone ∧ 0 < n then 1 else 0) := by
  intro n
  induction n with
  | zero => intro s p; simp [runFrom]
  | succ n ih =>
    intro s p
    cases s with
    | none =>
      have := ih (some (src (p + 1))) (p + 2)
      simp only [runFrom, flattenChunks2T] at this ⊢
      simp at this ⊢
      omega
    | some y =>
      have := ih none p
      simp only [runFrom, flattenChunks2T] at this ⊢
      simp at this ⊢
      split at this <;> omega

theorem bound_flatten_chunks (src : Nat → Int) (n : Nat) : pulls flattenChunks2T src n ≤ n + 1 := by
  have := flatten_chunks_run src n none 0
  simp only [pulls, flattenChunks2T] at this ⊢
  split at this <;> omega

theorem bound_uniq (c : Nat) (src : Nat → Int) (n : Nat) : pulls (uniqT c) src n ≤ c * n := by
  have hstep : StepBound (uniqT c) src c (fun _ => True) := by
    intro s p _
    refine ⟨?_, trivial⟩
    simp only [uniqT]
    cases h : findNext (fun x => !s.contains x) src c p with
    | none => simp
    | some i => have := findNext_bound _ src c p i h; simp; omega
  have := run_bound (uniqT c) src c (fun _ => True) hstep n [] 0 trivial
  simpa [pulls, uniqT] using this

/-- uniquify never hands out an item twice (as long as the window finds a new item) -/
theorem uniq_step_new (c : Nat) (src : Nat → Int) (seen : List Int) (p i : Nat)
    (h : findNext (fun x => !seen.contains x) src c p = some i) : src i ∉ seen := by
  have : ∀ (c p : Nat), findNext (fun x => !seen.contains x) src c p = some i → src i ∉ seen := by
    intro c
    induction c with
    | zero => intro p h; simp [findNext] at h
    | succ c ih =>
      intro p h
      simp only [findNext] at h
      split at h
      · rename_i hq; injection h with h; subst h; simpa using hq
      · exact ih _ h
  exact this c p h

theorem runLen_le (src : Nat → Int) (v : Int) : ∀ (c p : Nat), runLen src v c p ≤ c := by
  intro c
  induction c with
  | zero => intro p; simp [runLen]
  | succ c ih => intro p; simp only [runLen]; split; exact Nat.succ_le_succ (ih _); omega

/-- group consecutive: at most `c + 2` pulls per group when runs are at most `c` long -/
theorem bound_group (c : Nat) (src : Nat → Int) (n : Nat) : pulls (groupT c) src n ≤ (c + 2) * n := by
  have hstep : StepBound (groupT c) src (c + 2) (fun _ => True) := by
    intro s p _
    refine ⟨?_, trivial⟩
    cases s with
    | none => simp only [groupT]; have := runLen_le src (src p) c (p + 1); omega
    | some v => simp only [groupT]; have := runLen_le src v c p; omega
  have := run_bound (groupT c) src (c + 2) (fun _ => True) hstep n none 0 trivial
  simpa [pulls, groupT] using this

/-- on a source without repetitions every group is a single item and, after the first, costs one pull -/
theorem group_distinct_step (c : Nat) (src : Nat → Int) (v : Int) (p : Nat) (h : src p ≠ v) :
    ((groupT (c + 1)).step (some v) src p) = ([v], some (src p), p + 1) := by
  simp [groupT, runLen, h]

/-- linear bounds compose: a pipeline of linear stages is linear, at any depth -/
theorem bound_compose (a1 b1 a2 b2 : Nat) (p1 p2 : Nat → Nat)
    (h1 : ∀ n, p1 n ≤ a1 * n + b1) (h2 : ∀ n, p2 n ≤ a2 * n + b2) (n : Nat) :
    p1 (p2 n) ≤ (a1 * a2) * n + (a1 * b2 + b1) := by
  have := h1 (p2 n)
  have h3 := h2 n
  calc p1 (p2 n) ≤ a1 * p2 n + b1 := this
    _ ≤ a1 * (a2 * n + b2) + b1 := by
        have := Nat.mul_le_mul_left a1 h3; omega
    _ = (a1 * a2) * n + (a1 * b2 + b1) := by rw [Nat.mul_add, Nat.mul_assoc]; omega

example : take deltasT (fun i => (i * i : Int)) 3 = [[1], [3], [5]] ∧ pulls deltasT (fun i => (i * i : Int)) 3 = 4 := by decide

end C14
