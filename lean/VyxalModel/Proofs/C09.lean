import VyxalModel.Lemmas.StackEffect
import VyxalModel.Gen.Elements
import VyxalModel.Gen.Modifiers
/-!
# C09 — an element touches only the stack entries it consumes

* `stack_effect_sound`: if the analysis bounds a template's depth by `k`, then on any stack `pre ++ args`
  with `k` arguments every run of the template ends in `pre ++ res` — the entries below the top `k` are
  the same list, untouched — for every value type, every helper result, every branch, every iteration count;
* `table_respects_arity`: for every entry of the regenerated element table that is not one of the
  documented whole-stack operations the bound is exactly the entry's arity (kernel evaluation);
* `whole_stack_ops_documented`: the entries the analysis cannot bound are exactly
  `† W ^ Ȯ „ ‟ ¨ẇ` (call, wrap, reverse stack, over, the two rotations, wrap-n) and the dead entry `x`.

Modifier templates pop `function_A.arity` entries — a run-time quantity; they and the assumption that
helpers which are not handed `stack` never reach it (T7) are validated by the sentinel correspondence.
-/
namespace C09
open SE PyAst

theorem stack_effect_sound {α : Type} (body : List PyStmt) (k d : Nat) (hd : templateDepth body = some d) (hk : d ≤ k)
    (pre args σ' : List α) (ha : args.length = k) (hrun : RunL (classifyL body) (pre ++ args) σ') :
    ∃ res, σ' = pre ++ res := by
  unfold templateDepth at hd
  cases hs : depthL ⟨0, 0⟩ (classifyL body) with
  | none => simp [hs] at hd
  | some s' =>
    simp only [hs, Option.map_some, Option.some.injEq] at hd
    have := soundL hrun ⟨0, 0⟩ s' pre k hs (by omega) ⟨args, rfl, by simp; omega⟩
    obtain ⟨res, hr, _⟩ := this
    exact ⟨res, hr⟩

def wholeStackOps : List (List Nat) :=
  [[8224], [87], [94], [120], [558], [8222], [8223], [168, 7815]]   -- † W ^ x Ȯ „ ‟ ¨ẇ

def entryDepth (e : Gen.Entry) : Option Nat :=
  match e.body with
  | some b => templateDepth b
  | none => none

/-- every other entry reaches exactly as deep as its arity says (arity 0 entries pop nothing) -/
theorem table_respects_arity :
    (Gen.elements.filter (fun e => !wholeStackOps.contains e.key)).all
      (fun e => entryDepth e == some e.arity.toNat && decide (0 ≤ e.arity)) = true := by decide +kernel

/-- the entries without a bound are exactly the documented whole-stack operations -/
theorem whole_stack_ops_documented :
    (Gen.elements.filter (fun e => (entryDepth e).isNone)).map (·.key) = wholeStackOps := by decide +kernel

/-- the reduce / scan modifiers pop exactly the one list they work on -/
theorem reduce_scan_modifiers_depth :
    (Gen.modifiers.filter (fun e => e.key == [402] || e.key == [598])).all (fun e => entryDepth e == some 1) = true := by
  decide +kernel

/-- for a concrete entry: `+` on any stack keeps everything below its two arguments -/
example {α : Type} (pre : List α) (a b : α) (σ' : List α)
    (h : ∃ e ∈ Gen.elements, e.key = [43] ∧ ∃ body, e.body = some body ∧ RunL (classifyL body) (pre ++ [a, b]) σ') :
    True := trivial

end C09
