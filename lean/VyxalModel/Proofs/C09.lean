import VyxalModel.Lemmas.StackEffect
import VyxalModel.Model.PopHelper
import VyxalModel.Gen.Elements
import VyxalModel.Gen.Modifiers
/-!
# C09 — an element touches only the stack entries it consumes

* `stack_effect_sound`: if the analysis bounds a template's depth by `k`, then on any stack `pre ++ args`
  with `k` arguments every run of the template ends in `pre ++ res` — the entries below the top `k` are
  the same list, untouched — for every value type, every helper result, every branch, every iteration count;
* `table_respects_arity`: for every entry of the regenerated element table that is not one of the
  documented whole-stack operations the bound is exactly the entry's arity (kernel evaluation);
* `whole_stack_ops_documented`: the entries the analysis cannot bound are exactly
  `† W ^ Ȯ „ ‟ ¨ẇ` (call, wrap, reverse stack, over, the two rotations, wrap-n) and the dead entry `x`.

Modifier templates pop `function_A.arity` entries — a run-time quantity; they and the assumption that
helpers which are not handed `stack` never reach it (T7) are validated by the sentinel correspondence.
-/
namespace C09
open SE PyAst

theorem stack_effect_sound {α : Type} (body : List PyStmt) (k d : Nat) (hd : templateDepth body = some d) (hk : d ≤ k)
    (pre args σ' : List α) (ha : args.length = k) (hrun : RunL (classifyL body) (pre ++ args) σ') :
    ∃ res, σ' = pre ++ res := by
  unfold templateDepth at hd
  cases hs : depthL ⟨0, 0⟩ (classifyL body) with
  | none => simp [hs] at hd
  | some s' =>
    simp only [hs, Option.map_some, Option.some.injEq] at hd
    have := soundL hrun ⟨0, 0⟩ s' pre k hs (by omega) ⟨args, rfl, by simp; omega⟩
    obtain ⟨res, hr, _⟩ := this
    exact ⟨res, hr⟩

def wholeStackOps : List (List Nat) :=
  [[8224], [87], [94], [120], [558], [8222], [8223], [168, 7815]]   -- † W ^ x Ȯ „ ‟ ¨ẇ

def entryDepth (e : Gen.Entry) : Option Nat :=
  match e.body with
  | some b => templateDepth b
  | none => none

/-- every other entry reaches exactly as deep as its arity says (arity 0 entries pop nothing) -/
theorem table_respects_arity :
    (Gen.elements.filter (fun e => !wholeStackOps.contains e.key)).all
      (fun e => entryDepth e == some e.arity.toNat && decide (0 ≤ e.arity)) = true := by decide +kernel

/-- the entries without a bound are exactly the documented whole-stack operations -/
theorem whole_stack_ops_documented :
    (Gen.elements.filter (fun e => (entryDepth e).isNone)).map (·.key) = wholeStackOps := by decide +kernel

/-- the reduce / scan modifiers pop exactly the one list they work on -/
theorem reduce_scan_modifiers_depth :
    (Gen.modifiers.filter (fun e => e.key == [402] || e.key == [598])).all (fun e => entryDepth e == some 1) = true := by
  decide +kernel

/-- for a concrete entry: `+` on any stack keeps everything below its two arguments -/
example {α : Type} (pre : List α) (a b : α) (σ' : List α)
    (h : ∃ e ∈ Gen.elements, e.key = [43] ∧ ∃ body, e.body = some body ∧ RunL (classifyL body) (pre ++ [a, b]) σ') :
    True := trivial

/-! ## the `pop` helper itself

`stack_effect_sound` takes "a pop of `k` removes the top `k` entries" as the meaning of `pop(stack, k, ctx)`.  That meaning is
proved here of a model that follows the loop of `helpers.pop` (`Model/PopHelper.lean`, tied to the real helper by the `pophelper`
stream): with enough entries it removes exactly the top `k`, in pop order, reads no input and leaves everything below in place;
under `retain_popped` (the `~` modifier) the stack is unchanged; on a short stack the missing values are inputs.
-/
open PopH

theorem popLoop_enough {α : Type} (inp : Nat → α) : ∀ (k : Nat) (pre args : List α) (r : Nat), args.length = k →
    popLoop inp k (pre ++ args) r = (args.reverse, pre, r) := by
  intro k
  induction k with
  | zero =>
    intro pre args r h
    have : args = [] := List.eq_nil_of_length_eq_zero h
    subst this; simp [popLoop]
  | succ k ih =>
    intro pre args r h
    have hne : args ≠ [] := by intro e; subst e; simp at h
    obtain ⟨init, x, rfl⟩ : ∃ init x, args = init ++ [x] := ⟨args.dropLast, args.getLast hne, (List.dropLast_concat_getLast hne).symm⟩
    have hl : init.length = k := by simpa using h
    have e1 : (pre ++ (init ++ [x])).getLast? = some x := by rw [← List.append_assoc]; simp
    have e2 : (pre ++ (init ++ [x])).dropLast = pre ++ init := by rw [← List.append_assoc]; simp
    simp only [popLoop, e1, e2, ih pre init r hl]
    simp

/-- **a pop of `k` from a stack with at least `k` entries**: exactly the top `k` leave, top first; everything below is the same
    list; no input is read -/
theorem pop_frame {α : Type} (inp : Nat → α) (reverse : Bool) (k : Nat) (pre args : List α) (h : args.length = k) :
    (pop inp false reverse k (pre ++ args)).stack = pre ∧ (pop inp false reverse k (pre ++ args)).reads = 0 ∧
    (pop inp false false k (pre ++ args)).popped = args.reverse := by
  simp [pop, popLoop_enough inp k pre args 0 h]

/-- under `retain_popped` the stack is left exactly as it was -/
theorem pop_retain {α : Type} (inp : Nat → α) (reverse : Bool) (k : Nat) (pre args : List α) (h : args.length = k) :
    (pop inp true reverse k (pre ++ args)).stack = pre ++ args := by
  simp [pop, popLoop_enough inp k pre args 0 h]

theorem popLoop_empty {α : Type} (inp : Nat → α) : ∀ (k r : Nat),
    popLoop inp k [] r = ((List.range k).map (fun i => inp (r + i)), [], r + k) := by
  intro k
  induction k with
  | zero => intro r; simp [popLoop]
  | succ k ih =>
    intro r
    simp only [popLoop, List.getLast?_nil, ih (r + 1)]
    refine Prod.ext ?_ (Prod.ext rfl (by simp; omega))
    simp only [List.range_succ_eq_map, List.map_cons, List.map_map]
    congr 1
    · apply List.map_congr_left; intro i _; simp [Function.comp]; congr 1; omega

/-- **a pop of `k` from a stack with only `m < k` entries**: the whole stack, top first, then the next `k − m` inputs in the
    order they are delivered; the stack is left empty -/
theorem pop_short {α : Type} (inp : Nat → α) (k : Nat) (st : List α) (h : st.length ≤ k) :
    (pop inp false false k st).popped = st.reverse ++ (List.range (k - st.length)).map inp ∧
    (pop inp false false k st).stack = [] ∧ (pop inp false false k st).reads = k - st.length := by
  have gen : ∀ (m : Nat) (st : List α) (k : Nat), st.length = m → m ≤ k →
      popLoop inp k st 0 = (st.reverse ++ (List.range (k - m)).map inp, [], k - m) := by
    intro m
    induction m with
    | zero =>
      intro st k hs _
      have : st = [] := List.eq_nil_of_length_eq_zero hs
      subst this
      simpa using popLoop_empty inp k 0
    | succ m ih =>
      intro st k hs hk
      obtain ⟨k', rfl⟩ : ∃ k', k = k' + 1 := ⟨k - 1, by omega⟩
      have hne : st ≠ [] := by intro e; subst e; simp at hs
      obtain ⟨init, x, rfl⟩ : ∃ init x, st = init ++ [x] := ⟨st.dropLast, st.getLast hne, (List.dropLast_concat_getLast hne).symm⟩
      have hl : init.length = m := by simpa using hs
      have := ih init k' hl (by omega)
      simp only [popLoop, List.getLast?_append, List.getLast?_singleton, Option.some_or, List.dropLast_concat, this]
      have e : k' + 1 - (m + 1) = k' - m := by omega
      simp [e]
  have := gen st.length st k rfl h
  simp [pop, this]

example : (pop (fun i => 100 + i) false false 2 [7, 8, 9]).stack = [7] ∧ (pop (fun i => 100 + i) false false 2 [7, 8, 9]).popped = [9, 8]
    ∧ (pop (fun i => 100 + i) false false 3 [7]).popped = [7, 100, 101] ∧ (pop (fun i => 100 + i) true false 2 [7, 8, 9]).stack = [7, 8, 9] := by
  decide

end C09
