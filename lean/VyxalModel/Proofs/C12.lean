import VyxalModel.Model.Transpile
namespace C12
theorem placeholder : True := trivial
end C12
