import VyxalModel.Lemmas.Balance
import VyxalModel.Model.Transpile
import VyxalModel.Gen.Elements
import VyxalModel.Gen.Modifiers
import VyxalModel.Gen.CtxSites
/-!
# C12 — interpreter context is balanced after every construct

* `balanced_sound`: code the delta typing accepts leaves the four depths (context values, input
  scopes, registered stacks, function stack) exactly where they were on **every** normally finishing
  execution — any conditions, any iteration counts, any nesting, early exits included;
* `function_body_balanced`: the same for a function body and each of its `return`s;
* `element_templates_balanced`, `modifier_templates_balanced`, `helper_functions_balanced`: every
  template of the regenerated tables and every helper of the repository that touches the lists is
  accepted (kernel evaluation);
* the schematic lemmas `for_template_balanced` … show that each structure template of
  `transpile.py` (as modelled in `Model/Transpile.lean`, tied to the real text by the AST stream) is
  accepted around any accepted body, with `X` / `x` templates accepted at the depth where the
  templates place them.

Calls are treated as neutral: that is exactly the statement that callee bodies are balanced, which is
checked for program-defined functions by the `defn` case and for helpers by the table theorem.
-/
namespace C12
open Bal Vy PyAst

/-- **soundness, top level** -/
theorem balanced_sound (prog : List PyStmt) (h : balancedTop prog = true) (c c' : D4)
    (hx : ExecL (skelL prog) c c' .normal) : c' = c := by
  have hc : chkL none none D4.zero (skelL prog) = some (some D4.zero) := by
    simpa [balancedTop] using h
  obtain ⟨d, hd, hr⟩ := soundL hx none none D4.zero (some D4.zero) hc
  have : d = D4.zero := by simpa using hd.symm
  subst this
  exact Rel_zero hr

/-- **soundness, function bodies**: falling off the end or returning, the depths are those at entry -/
theorem function_body_balanced (body : List PyStmt) (h : balancedFn body = true) (c c' : D4) (x : Exit)
    (hx : x = .normal ∨ x = .ret) (he : ExecL (skelL body) c c' x) : c' = c := by
  unfold balancedFn at h
  cases hc : chkL none (some D4.zero) D4.zero (skelL body) with
  | none => simp [hc] at h
  | some r =>
    have p := soundL he none (some D4.zero) D4.zero r hc
    rcases hx with rfl | rfl
    · obtain ⟨d, hd, hr⟩ := p
      subst hd
      simp only [hc] at h
      have : d = D4.zero := by simpa using h
      subst this; exact Rel_zero hr
    · obtain ⟨f, hf, hr⟩ := p
      have : f = D4.zero := by simpa using hf.symm
      subst this; exact Rel_zero hr

/-! ## tables -/

def entryBalanced (e : Gen.Entry) : Bool :=
  match e.body with
  | some b => balancedTop b
  | none => false

theorem element_templates_balanced : Gen.elements.all entryBalanced = true := by decide +kernel

theorem modifier_templates_balanced : Gen.modifiers.all entryBalanced = true := by decide +kernel

/-- `main.execute_vyxal` is the set-up of the initial state (it registers the program's stack), not part of
    any program's execution; every other function that touches the lists is balanced -/
theorem helper_functions_balanced :
    (Gen.ctxSites.filter (fun f => f.1 != "main.execute_vyxal")).all (fun f => balancedFn f.2) = true := by
  decide +kernel

example : (Gen.ctxSites.map (·.1)).contains "LazyList.LazyList.output" = true := by decide +kernel

/-! ## the structure templates -/

theorem skelL_append (a b : List PyStmt) : skelL (a ++ b) = skelL a ++ skelL b := by
  induction a with
  | nil => rfl
  | cons s r ih => simp [skelL, ih]

theorem chkL_append (lb fb : Option D4) (cur : D4) (a b : List Sk) :
    chkL lb fb cur (a ++ b) = match chkL lb fb cur a with
      | some (some d) => chkL lb fb d b
      | some none => some none
      | none => none := by
  induction a generalizing cur with
  | nil => simp [chkL]
  | cons s r ih =>
    simp only [List.cons_append, chkL]
    cases hs : chkS lb fb cur s with
    | none => rfl
    | some o =>
      cases o with
      | none => rfl
      | some d => simp only [ih]

def cv1 : D4 := ⟨1, 0, 0, 0⟩
def all1 : D4 := ⟨1, 1, 1, 1⟩
def fn1 : D4 := ⟨1, 1, 1, 0⟩

/-- a body is *accepted in a loop* when, checked one context value deeper than the loop, it falls through
    at that depth or not at all (its breaks / continues then sit exactly at the loop's own depth) -/
def LoopBodyOK (fb : Option D4) (cur : D4) (body : List PyStmt) : Prop :=
  chkL (some cur) fb (cur.add cv1) (skelL body) = some (some (cur.add cv1)) ∨
  chkL (some cur) fb (cur.add cv1) (skelL body) = some none

/-- a body is *accepted in a function* at entry delta `d` (after the prologue) -/
def FnBodyOK (d : D4) (body : List PyStmt) : Prop :=
  chkL none (some D4.zero) d (skelL body) = some (some d) ∨ chkL none (some D4.zero) d (skelL body) = some none

theorem add_cv1_back (cur : D4) : (cur.add cv1).add ⟨-1, 0, 0, 0⟩ = cur := by
  cases cur; simp only [D4.add, cv1, D4.mk.injEq]; omega

theorem skel_cv_append (a : PyExpr) (h : mutatesE a = false) :
    skelS (ctxCall "context_values" "append" [a]) = .ev cv1 := by
  simp [ctxCall, ctxE, skelS, h, listDelta, cv1]

theorem skel_cv_pop : skelS (ctxCall "context_values" "pop" []) = .ev ⟨-1, 0, 0, 0⟩ := by
  simp [ctxCall, ctxE, skelS, listDelta]

/-- `for VAR in iterable(pop(..)): ctx.context_values.append(VAR); <body>; ctx.context_values.pop()` -/
theorem for_template_balanced (lb fb : Option D4) (cur : D4) (var : PyExpr) (body : List PyStmt)
    (hv : mutatesE var = false) (hb : LoopBodyOK fb cur body) :
    chkL lb fb cur (skelL (forTemplate var body)) = some (some cur) := by
  have hit : mutatesE (callN "iterable" [pop1kw, nm "range", ctxE]) = false := by decide
  simp only [forTemplate, skelL, skelS, hit, Bool.false_eq_true, if_false, skelL_append, skel_cv_append var hv,
    skel_cv_pop, chkL, chkS, List.cons_append, List.nil_append]
  rcases hb with hb | hb
  · simp only [chkL_append, hb, chkL, chkS, add_cv1_back, if_true]
  · simp only [chkL_append, hb]

/-- the `while` template: condition, pop, loop(append, body, pop, condition, pop) -/
theorem while_template_balanced (lb fb : Option D4) (cur : D4) (cond body : List PyStmt)
    (hc : ∀ l f d, chkL l f d (skelL cond) = some (some d)) (hb : LoopBodyOK fb cur body) :
    chkL lb fb cur (skelL (whileTemplate cond body)) = some (some cur) := by
  have hcp : skelS condPop = .other := by
    simp [condPop, assign1, skelS, nm, pop1kw, stackE, kwCtx, ctxE, mutatesE, mutatesEL, mutatesKw, badTarget]
  have hbc : mutatesE boolifyCond = false := by decide
  have hcn : mutatesE (nm "condition") = false := by decide
  simp only [whileTemplate, skelL_append, chkL_append, hc, skelL, skelS, hcp, hbc, Bool.false_eq_true, if_false,
    skel_cv_append _ hcn, skel_cv_pop, chkL, chkS, List.cons_append, List.nil_append]
  rcases hb with hb | hb
  · simp only [chkL_append, hb, chkL, chkS, add_cv1_back, hc, if_true]
  · simp only [chkL_append, hb]

/-- the `X` template inside a for / while body: pop the context value, then `break` -/
theorem break_in_loop_ok (fb : Option D4) (cur : D4) :
    chkL (some cur) fb (cur.add cv1) (skelL (breakTemplate .forS)) = some none := by
  simp [breakTemplate, skelL, skelS, ctxCall, ctxE, listDelta, chkL, chkS, add_cv1_back]

theorem continue_in_loop_ok (fb : Option D4) (cur : D4) :
    chkL (some cur) fb (cur.add cv1) (skelL (recurseTemplate .whileS)) = some none := by
  simp [recurseTemplate, skelL, skelS, ctxCall, ctxE, listDelta, chkL, chkS, add_cv1_back]

/-- the `X` template inside a lambda body (all four lists one deeper than at the `def`): undo all four, return -/
theorem break_in_lambda_ok : ∀ lb : Option D4,
    chkL lb (some D4.zero) all1 (skelL (breakTemplate .lam)) = some none := by
  intro lb
  simp [breakTemplate, skelL, skelS, ctxCall, ctxE, listDelta, chkL, chkS, assign1, nm, pop1kw, stackE, kwCtx,
    mutatesE, mutatesEL, mutatesKw, badTarget, all1, D4.add, D4.zero]

theorem lambda_prologue_chk (ar : PyExpr) (har : mutatesE ar = false) :
    chkL none (some D4.zero) D4.zero (skelL (lambdaPrologue ar)) = some (some all1) := by
  have hsk : skelL (lambdaPrologue ar) =
      [.ifS [.other] [.ifS [.other] [.other]], .other, .ev ⟨0, 0, 0, 1⟩, .ev ⟨1, 0, 0, 0⟩, .ev ⟨0, 1, 0, 0⟩, .ev ⟨0, 0, 1, 0⟩] := by
    simp [lambdaPrologue, skelL, skelS, ctxCall, assign1, callN, nm, ctxE, stackE, kwCtx, mutatesE, mutatesEL, mutatesKw,
      mutatesC, mutatesO, isCtxList, isBookList, badTarget, listDelta, har]
  rw [hsk]; decide

theorem lambda_epilogue_chk : chkL none (some D4.zero) all1 (skelL lambdaEpilogue) = some none := by decide

/-- the lambda template is neutral where it stands, provided its body is accepted one level deeper on all four lists -/
theorem lambda_template_balanced (lb fb : Option D4) (cur : D4) (id : Str) (ar : PyExpr) (body : List PyStmt)
    (har : mutatesE ar = false) (hb : FnBodyOK all1 body) :
    chkL lb fb cur (skelL (lambdaTemplate id ar body)) = some (some cur) := by
  have hdef : chkL none (some D4.zero) D4.zero (skelL (lambdaPrologue ar ++ body ++ lambdaEpilogue)) = some none := by
    rw [skelL_append, skelL_append, List.append_assoc, chkL_append, lambda_prologue_chk ar har]
    rcases hb with hb | hb
    · simp only [chkL_append, hb, lambda_epilogue_chk]
    · simp only [chkL_append, hb]
  have h2 : skelS (assign1 (.attr (.pname "_lambda_" id) "arity") ar) = .other := by
    simp [assign1, skelS, har, mutatesE, mutatesEL, badTarget]
  have h3 : skelS (push (.pname "_lambda_" id)) = .other := by
    simp [push, skelS, stackE, mutatesE, mutatesEL, mutatesKw, isCtxList]
  simp only [lambdaTemplate, skelL, skelS, h2, h3, chkL, chkS, hdef]

end C12
