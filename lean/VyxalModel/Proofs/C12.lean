import VyxalModel.Lemmas.Balance
import VyxalModel.Lemmas.BalanceShift
import VyxalModel.Lemmas.BalanceCalls
import VyxalModel.Model.Placed
import VyxalModel.Model.Transpile
import VyxalModel.Gen.Elements
import VyxalModel.Gen.Modifiers
import VyxalModel.Gen.CtxSites
/-!
# C12 — interpreter context is balanced after every construct

* `balanced_sound`: code the delta typing accepts leaves the four depths (context values, input
  scopes, registered stacks, function stack) exactly where they were on **every** normally finishing
  execution — any conditions, any iteration counts, any nesting, early exits included;
* `function_body_balanced`: the same for a function body and each of its `return`s;
* `element_templates_balanced`, `modifier_templates_balanced`, `helper_functions_balanced`: every
  template of the regenerated tables and every helper of the repository that touches the lists is
  accepted (kernel evaluation);
* the schematic lemmas `for_template_balanced` … show that each structure template of
  `transpile.py` (as modelled in `Model/Transpile.lean`, tied to the real text by the AST stream) is
  accepted around any accepted body, with `X` / `x` templates accepted at the depth where the
  templates place them.

In `balanced_sound` calls are treated as neutral.  `balanced_sound_calls` (end of the file) removes that assumption: an
execution may call — to any depth, recursively — the functions and lambdas the code defines and the repository's helpers;
those bodies are *checked* (`defsL_ok`: every `def` the checker reaches is accepted as a function body;
`helper_functions_balanced` for the helpers) and the soundness induction runs over the derivation, calls included
(`Lemmas/BalanceCalls.lean`).
-/
namespace C12
open Bal Vy PyAst

/-- **soundness, top level** -/
theorem balanced_sound (prog : List PyStmt) (h : balancedTop prog = true) (c c' : D4)
    (hx : ExecL (skelL prog) c c' .normal) : c' = c := by
  have hc : chkL none none D4.zero (skelL prog) = some (some D4.zero) := by
    simpa [balancedTop] using h
  obtain ⟨d, hd, hr⟩ := soundL hx none none D4.zero (some D4.zero) hc
  have : d = D4.zero := by simpa using hd.symm
  subst this
  exact Rel_zero hr

/-- **soundness, function bodies**: falling off the end or returning, the depths are those at entry -/
theorem function_body_balanced (body : List PyStmt) (h : balancedFn body = true) (c c' : D4) (x : Exit)
    (hx : x = .normal ∨ x = .ret) (he : ExecL (skelL body) c c' x) : c' = c := by
  unfold balancedFn at h
  cases hc : chkL none (some D4.zero) D4.zero (skelL body) with
  | none => simp [hc] at h
  | some r =>
    have p := soundL he none (some D4.zero) D4.zero r hc
    rcases hx with rfl | rfl
    · obtain ⟨d, hd, hr⟩ := p
      subst hd
      simp only [hc] at h
      have : d = D4.zero := by simpa using h
      subst this; exact Rel_zero hr
    · obtain ⟨f, hf, hr⟩ := p
      have : f = D4.zero := by simpa using hf.symm
      subst this; exact Rel_zero hr

/-! ## tables -/

def entryBalanced (e : Gen.Entry) : Bool :=
  match e.body with
  | some b => balancedTop b
  | none => false

theorem element_templates_balanced : Gen.elements.all entryBalanced = true := by decide +kernel

theorem modifier_templates_balanced : Gen.modifiers.all entryBalanced = true := by decide +kernel

/-- `main.execute_vyxal` is the set-up of the initial state (it registers the program's stack), not part of
    any program's execution; every other function that touches the lists is balanced -/
theorem helper_functions_balanced :
    (Gen.ctxSites.filter (fun f => f.1 != "main.execute_vyxal")).all (fun f => balancedFn f.2) = true := by
  decide +kernel

example : (Gen.ctxSites.map (·.1)).contains "LazyList.LazyList.output" = true := by decide +kernel

/-! ## the structure templates -/

theorem skelL_append (a b : List PyStmt) : skelL (a ++ b) = skelL a ++ skelL b := by
  induction a with
  | nil => rfl
  | cons s r ih => simp [skelL, ih]

theorem chkL_append (lb fb : Option D4) (cur : D4) (a b : List Sk) :
    chkL lb fb cur (a ++ b) = match chkL lb fb cur a with
      | some (some d) => chkL lb fb d b
      | some none => some none
      | none => none := by
  induction a generalizing cur with
  | nil => simp [chkL]
  | cons s r ih =>
    simp only [List.cons_append, chkL]
    cases hs : chkS lb fb cur s with
    | none => rfl
    | some o =>
      cases o with
      | none => rfl
      | some d => simp only [ih]

def cv1 : D4 := ⟨1, 0, 0, 0⟩
def all1 : D4 := ⟨1, 1, 1, 1⟩
def fn1 : D4 := ⟨1, 1, 1, 0⟩

/-- a body is *accepted in a loop* when, checked one context value deeper than the loop, it falls through
    at that depth or not at all (its breaks / continues then sit exactly at the loop's own depth) -/
def LoopBodyOK (fb : Option D4) (cur : D4) (body : List PyStmt) : Prop :=
  chkL (some cur) fb (cur.add cv1) (skelL body) = some (some (cur.add cv1)) ∨
  chkL (some cur) fb (cur.add cv1) (skelL body) = some none

/-- a body is *accepted in a function* at entry delta `d` (after the prologue) -/
def FnBodyOK (d : D4) (body : List PyStmt) : Prop :=
  chkL none (some D4.zero) d (skelL body) = some (some d) ∨ chkL none (some D4.zero) d (skelL body) = some none

theorem add_cv1_back (cur : D4) : (cur.add cv1).add ⟨-1, 0, 0, 0⟩ = cur := by
  cases cur; simp only [D4.add, cv1, D4.mk.injEq]; omega

theorem skel_cv_append (a : PyExpr) (h : mutatesE a = false) :
    skelS (ctxCall "context_values" "append" [a]) = .ev cv1 := by
  simp [ctxCall, ctxE, skelS, h, listDelta, cv1]

theorem skel_cv_pop : skelS (ctxCall "context_values" "pop" []) = .ev ⟨-1, 0, 0, 0⟩ := by
  simp [ctxCall, ctxE, skelS, listDelta]

/-- `for VAR in iterable(pop(..)): ctx.context_values.append(VAR); <body>; ctx.context_values.pop()` -/
theorem for_template_balanced (lb fb : Option D4) (cur : D4) (var : PyExpr) (body : List PyStmt)
    (hv : mutatesE var = false) (hb : LoopBodyOK fb cur body) :
    chkL lb fb cur (skelL (forTemplate var body)) = some (some cur) := by
  have hit : mutatesE (callN "iterable" [pop1kw, nm "range", ctxE]) = false := by decide
  simp only [forTemplate, skelL, skelS, hit, Bool.false_eq_true, if_false, skelL_append, skel_cv_append var hv,
    skel_cv_pop, chkL, chkS, List.cons_append, List.nil_append]
  rcases hb with hb | hb
  · simp only [chkL_append, hb, chkL, chkS, add_cv1_back, if_true]
  · simp only [chkL_append, hb]

/-- the `while` template: condition, pop, loop(append, body, pop, condition, pop) -/
theorem while_template_balanced (lb fb : Option D4) (cur : D4) (cond body : List PyStmt)
    (hc : ∀ l f d, chkL l f d (skelL cond) = some (some d)) (hb : LoopBodyOK fb cur body) :
    chkL lb fb cur (skelL (whileTemplate cond body)) = some (some cur) := by
  have hcp : skelS condPop = .other := by
    simp [condPop, assign1, skelS, nm, pop1kw, stackE, kwCtx, ctxE, mutatesE, mutatesEL, mutatesKw, badTarget]
  have hbc : mutatesE boolifyCond = false := by decide
  have hcn : mutatesE (nm "condition") = false := by decide
  simp only [whileTemplate, skelL_append, chkL_append, hc, skelL, skelS, hcp, hbc, Bool.false_eq_true, if_false,
    skel_cv_append _ hcn, skel_cv_pop, chkL, chkS, List.cons_append, List.nil_append]
  rcases hb with hb | hb
  · simp only [chkL_append, hb, chkL, chkS, add_cv1_back, hc, if_true]
  · simp only [chkL_append, hb]

/-- the `X` template inside a for / while body: pop the context value, then `break` -/
theorem break_in_loop_ok (fb : Option D4) (cur : D4) :
    chkL (some cur) fb (cur.add cv1) (skelL (breakTemplate .forS)) = some none := by
  simp [breakTemplate, skelL, skelS, ctxCall, ctxE, listDelta, chkL, chkS, add_cv1_back]

theorem continue_in_loop_ok (fb : Option D4) (cur : D4) :
    chkL (some cur) fb (cur.add cv1) (skelL (recurseTemplate .whileS)) = some none := by
  simp [recurseTemplate, skelL, skelS, ctxCall, ctxE, listDelta, chkL, chkS, add_cv1_back]

/-- the `X` template inside a lambda body (all four lists one deeper than at the `def`): undo all four, return -/
theorem break_in_lambda_ok : ∀ lb : Option D4,
    chkL lb (some D4.zero) all1 (skelL (breakTemplate .lam)) = some none := by
  intro lb
  simp [breakTemplate, skelL, skelS, ctxCall, ctxE, listDelta, chkL, chkS, assign1, nm, pop1kw, stackE, kwCtx,
    mutatesE, mutatesEL, mutatesKw, badTarget, all1, D4.add, D4.zero]

theorem lambda_prologue_chk (ar : PyExpr) (har : mutatesE ar = false) :
    chkL none (some D4.zero) D4.zero (skelL (lambdaPrologue ar)) = some (some all1) := by
  have hsk : skelL (lambdaPrologue ar) =
      [.ifS [.other] [.ifS [.other] [.other]], .other, .ev ⟨0, 0, 0, 1⟩, .ev ⟨1, 0, 0, 0⟩, .ev ⟨0, 1, 0, 0⟩, .ev ⟨0, 0, 1, 0⟩] := by
    simp [lambdaPrologue, skelL, skelS, ctxCall, assign1, callN, nm, ctxE, stackE, kwCtx, mutatesE, mutatesEL, mutatesKw,
      mutatesC, mutatesO, isCtxList, isBookList, badTarget, listDelta, har]
  rw [hsk]; decide

theorem lambda_epilogue_chk : chkL none (some D4.zero) all1 (skelL lambdaEpilogue) = some none := by decide

/-- the lambda template is neutral where it stands, provided its body is accepted one level deeper on all four lists -/
theorem lambda_template_balanced (lb fb : Option D4) (cur : D4) (id : Str) (ar : PyExpr) (body : List PyStmt)
    (har : mutatesE ar = false) (hb : FnBodyOK all1 body) :
    chkL lb fb cur (skelL (lambdaTemplate id ar body)) = some (some cur) := by
  have hdef : chkL none (some D4.zero) D4.zero (skelL (lambdaPrologue ar ++ body ++ lambdaEpilogue)) = some none := by
    rw [skelL_append, skelL_append, List.append_assoc, chkL_append, lambda_prologue_chk ar har]
    rcases hb with hb | hb
    · simp only [chkL_append, hb, lambda_epilogue_chk]
    · simp only [chkL_append, hb]
  have h2 : skelS (assign1 (.attr (.pname "_lambda_" id) "arity") ar) = .other := by
    simp [assign1, skelS, har, mutatesE, mutatesEL, badTarget]
  have h3 : skelS (push (.pname "_lambda_" id)) = .other := by
    simp [push, skelS, stackE, mutatesE, mutatesEL, mutatesKw, isCtxList]
  simp only [lambdaTemplate, skelL, skelS, h2, h3, chkL, chkS, hdef]

/-! ## the tree-level theorem -/

@[local simp] theorem ex_ok_bind {ε α β} (a : α) (f : α → Except ε β) : ((Except.ok a : Except ε α) >>= f) = f a := rfl
@[local simp] theorem ex_err_bind {ε α β} (e : ε) (f : α → Except ε β) : ((Except.error e : Except ε α) >>= f) = .error e := rfl
@[local simp] theorem ex_map_ok {ε α β} (a : α) (f : α → β) : (f <$> (Except.ok a : Except ε α)) = .ok (f a) := rfl
@[local simp] theorem ex_map_err {ε α β} (e : ε) (f : α → β) : (f <$> (Except.error e : Except ε α)) = .error e := rfl
@[local simp] theorem ex_pure {ε α} (a : α) : (pure a : Except ε α) = .ok a := rfl

def TablesBalanced (env : TEnv) : Prop := (env.elements ++ env.modifiers).all entryBalanced = true

/-- what the checker may answer for code placed in context `c` at delta `cur`: it falls through at `cur`, or — inside a
    loop body or a lambda body — it never falls through (it left with `break` / `continue` / `return` at the right depth) -/
def Res (c : BCtx) (cur : D4) (r : Option (Option D4)) : Prop :=
  r = some (some cur) ∨ (c ≠ .plain ∧ r = some none)

/-- the depths a context guarantees -/
def Inv (c : BCtx) (lb fb : Option D4) (cur : D4) : Prop :=
  match c with
  | .plain => True
  | .loop => ∃ base, lb = some base ∧ cur = base.add cv1
  | .lam => fb = some D4.zero ∧ cur = all1

def ResL (c : BCtx) (lb fb : Option D4) (cur : D4) (code : List PyStmt) : Prop := Res c cur (chkL lb fb cur (skelL code))

theorem resL_append (c : BCtx) (lb fb : Option D4) (cur : D4) (a b : List PyStmt)
    (ha : ResL c lb fb cur a) (hb : ResL c lb fb cur b) : ResL c lb fb cur (a ++ b) := by
  unfold ResL at *
  rw [skelL_append, chkL_append]
  rcases ha with ha | ⟨hc, ha⟩
  · rw [ha]; exact hb
  · rw [ha]; exact Or.inr ⟨hc, rfl⟩

theorem resL_nil (c : BCtx) (lb fb : Option D4) (cur : D4) : ResL c lb fb cur [] := Or.inl (by simp [skelL, chkL])

theorem resL_orPass (c : BCtx) (lb fb : Option D4) (cur : D4) (b : List PyStmt) (h : ResL c lb fb cur b) :
    ResL c lb fb cur (orPass b) := by
  unfold orPass
  cases b with
  | nil => exact Or.inl (by simp [skelL, skelS, chkL, chkS])
  | cons s r => simpa using h

theorem exact_resL (c : BCtx) (lb fb : Option D4) (cur : D4) (code : List PyStmt)
    (h : chkL lb fb cur (skelL code) = some (some cur)) : ResL c lb fb cur code := Or.inl h

/-- a statement that is `other` in the skeleton -/
theorem other_chk (lb fb : Option D4) (cur : D4) (s : PyStmt) (rest : List PyStmt) (hs : skelS s = .other) :
    chkL lb fb cur (skelL (s :: rest)) = chkL lb fb cur (skelL rest) := by
  simp [skelL, hs, chkL, chkS]

theorem push_other (e : PyExpr) (he : mutatesE e = false) : skelS (push e) = .other := by
  simp [push, stackE, skelS, mutatesE, mutatesEL, mutatesKw, isCtxList, he]

theorem push_chk (lb fb : Option D4) (cur : D4) (e : PyExpr) (he : mutatesE e = false) :
    chkL lb fb cur (skelL [push e]) = some (some cur) := by
  rw [other_chk lb fb cur _ _ (push_other e he)]; simp [skelL, chkL]

theorem lookup_mem (tbl : List Gen.Entry) (k : Str) (e : Gen.Entry) (h : lookupEntry tbl k = some e) : e ∈ tbl := by
  have : ∀ (l : List Gen.Entry) (acc : Option Gen.Entry),
      l.foldl (fun acc e => if e.key = k then some e else acc) acc = some e → e ∈ l ∨ acc = some e := by
    intro l
    induction l with
    | nil => intro acc h; exact Or.inr h
    | cons x xs ih =>
      intro acc h
      simp only [List.foldl_cons] at h
      rcases ih _ h with h1 | h1
      · exact Or.inl (List.mem_cons_of_mem _ h1)
      · split at h1
        · simp at h1; subst h1; exact Or.inl (by simp)
        · exact Or.inr h1
  rcases this tbl none h with h1 | h1
  · exact h1
  · simp at h1

theorem entry_neutral (env : TEnv) (hT : TablesBalanced env) (e : Gen.Entry) (he : e ∈ env.elements ++ env.modifiers)
    (b : List PyStmt) (hb : e.body = some b) (lb fb : Option D4) (cur : D4) : chkL lb fb cur (skelL b) = some (some cur) := by
  have h := List.all_eq_true.mp hT e he
  simp only [entryBalanced, hb, balancedTop, beq_iff_eq] at h
  exact neutral_everywhere (skelL b) h lb fb cur

theorem pyInt_mut (i : Int) : mutatesE (pyInt i) = false := by
  unfold pyInt; split <;> simp [mutatesE]

theorem token_chk (env : TEnv) (hT : TablesBalanced env) (t : Token) (code : List PyStmt) (ht : transpileToken env t = .ok code)
    (lb fb : Option D4) (cur : D4) : chkL lb fb cur (skelL code) = some (some cur) := by
  unfold transpileToken at ht
  cases hk : t.kind with
  | string =>
    simp only [hk] at ht
    split at ht
    · simp at ht; subst ht; exact push_chk lb fb cur _ (by simp [mutatesE])
    · simp at ht
    · simp at ht
  | number =>
    simp only [hk] at ht
    simp at ht; subst ht; exact push_chk lb fb cur _ (by simp [mutatesE, mutatesEL, mutatesKw, isCtxList])
  | general =>
    simp only [hk] at ht
    cases hl : lookupEntry env.elements t.value with
    | none => simp [hl] at ht; subst ht; simp [skelL, skelS, chkL, chkS]
    | some e =>
      simp only [hl] at ht
      cases hb : e.body with
      | none => simp [hb] at ht
      | some b =>
        simp [hb] at ht; subst ht
        exact entry_neutral env hT e (List.mem_append_left _ (lookup_mem _ _ _ hl)) b hb lb fb cur
  | cnum =>
    simp only [hk] at ht
    split at ht
    · simp at ht; subst ht; exact push_chk lb fb cur _ (by simp [mutatesE])
    · simp at ht
  | cstr =>
    simp only [hk] at ht
    split at ht
    · simp at ht; subst ht; exact push_chk lb fb cur _ (by simp [mutatesE])
    · simp at ht
  | vget =>
    simp only [hk] at ht
    split at ht
    · simp at ht; subst ht; exact push_chk lb fb cur _ (by simp [mutatesE, ctxE])
    · split at ht <;> (simp at ht; subst ht; exact push_chk lb fb cur _ (by simp [mutatesE, ctxE]))
  | vset =>
    simp only [hk] at ht
    split at ht
    · simp at ht; subst ht
      simp [skelL, skelS, chkL, chkS, assign1, pop1kw, stackE, kwCtx, ctxE, mutatesE, mutatesEL, mutatesKw, badTarget, isBookList]
    · split at ht
      · simp at ht; subst ht
        simp [skelL, skelS, chkL, chkS, assign1, pop1kw, pop1pos, stackE, kwCtx, ctxE, mutatesE, mutatesEL, mutatesKw, badTarget]
      · simp at ht; subst ht
        simp [skelL, skelS, chkL, chkS, assign1, pop1kw, pop1pos, stackE, kwCtx, ctxE, mutatesE, mutatesEL, mutatesKw, badTarget]
  | cpnum =>
    simp only [hk] at ht
    simp at ht; subst ht
    exact push_chk lb fb cur _ (pyInt_mut _)
  | character =>
    simp only [hk] at ht
    simp at ht; subst ht; exact push_chk lb fb cur _ (by simp [mutatesE])

theorem mod_chk (env : TEnv) (hT : TablesBalanced env) (m : Str) (tmpl : List PyStmt) (ht : modTemplate env m = .ok tmpl)
    (lb fb : Option D4) (cur : D4) : chkL lb fb cur (skelL tmpl) = some (some cur) := by
  unfold modTemplate at ht
  cases hl : lookupEntry env.modifiers m with
  | none => simp [hl] at ht; subst ht; simp [skelL, skelS, chkL, chkS]
  | some e =>
    simp only [hl] at ht
    cases hb : e.body with
    | none => simp [hb] at ht
    | some b =>
      simp [hb] at ht; subst ht
      exact entry_neutral env hT e (List.mem_append_right _ (lookup_mem _ _ _ hl)) b hb lb fb cur

/-! ### structure templates in a context -/

theorem condPop_other : skelS condPop = .other := by
  simp [condPop, assign1, skelS, nm, pop1kw, stackE, kwCtx, ctxE, mutatesE, mutatesEL, mutatesKw, badTarget]

def ifJoin (a b : Option (Option D4)) : Option (Option D4) :=
  match a, b with
  | some x, some y => joinIf x y
  | _, _ => none

theorem chkS_ifS (lb fb : Option D4) (cur : D4) (t e : List Sk) :
    chkS lb fb cur (.ifS t e) = ifJoin (chkL lb fb cur t) (chkL lb fb cur e) := by
  simp only [chkS, ifJoin]
  cases chkL lb fb cur t <;> cases chkL lb fb cur e <;> rfl

theorem res_joinIf (c : BCtx) (cur : D4) (a b : Option (Option D4)) (ha : Res c cur a) (hb : Res c cur b) :
    Res c cur (ifJoin a b) := by
  rcases ha with ha | ⟨hc, ha⟩ <;> rcases hb with hb | ⟨hc', hb⟩ <;> subst ha <;> subst hb
  · exact Or.inl (by simp [ifJoin, joinIf])
  · exact Or.inl (by simp [ifJoin, joinIf])
  · exact Or.inl (by simp [ifJoin, joinIf])
  · exact Or.inr ⟨hc, by simp [ifJoin, joinIf]⟩

/-- `condition = pop(..); if boolify(condition): <t> else: <e>` -/
theorem if_resL (c : BCtx) (lb fb : Option D4) (cur : D4) (t e : List PyStmt) (ht : ResL c lb fb cur t) (he : ResL c lb fb cur e) :
    ResL c lb fb cur [condPop, .ifS boolifyCond t e] := by
  unfold ResL at *
  have hbc : mutatesE boolifyCond = false := by decide
  rw [other_chk lb fb cur _ _ condPop_other]
  have hsk : skelL [PyStmt.ifS boolifyCond t e] = [.ifS (skelL t) (skelL e)] := by
    simp [skelL, skelS, hbc]
  rw [hsk]
  simp only [chkL, chkS_ifS]
  have h := res_joinIf c cur _ _ ht he
  rcases h with h | ⟨hc, h⟩
  · rw [h]; exact Or.inl rfl
  · rw [h]; exact Or.inr ⟨hc, rfl⟩

def allRes (c : BCtx) (lb fb : Option D4) (cur : D4) : List (List PyStmt) → Prop
  | [] => True
  | b :: r => ResL c lb fb cur b ∧ allRes c lb fb cur r

theorem ifChain_resL (c : BCtx) (lb fb : Option D4) (cur : D4) : ∀ (cs : List (List PyStmt)), allRes c lb fb cur cs →
    ResL c lb fb cur (ifChain cs)
  | [], _ => resL_nil c lb fb cur
  | [b0], h => by simpa [ifChain] using if_resL c lb fb cur b0 [] h.1 (resL_nil c lb fb cur)
  | [b0, b1], h => by simpa [ifChain] using if_resL c lb fb cur b0 b1 h.1 h.2.1
  | b0 :: b1 :: b2 :: rest, h => by
      have ih := ifChain_resL c lb fb cur (b2 :: rest) h.2.2
      simpa [ifChain] using if_resL c lb fb cur b0 (b1 ++ ifChain (b2 :: rest)) h.1 (resL_append c lb fb cur _ _ h.2.1 ih)

theorem loopBody_of_res (fb : Option D4) (cur : D4) (body : List PyStmt)
    (h : ResL .loop (some cur) fb (cur.add cv1) body) : LoopBodyOK fb cur body := by
  rcases h with h | ⟨_, h⟩
  · exact Or.inl h
  · exact Or.inr h

theorem while2_chk (lb fb : Option D4) (cur : D4) (c1 c2 body : List PyStmt)
    (h1 : chkL lb fb cur (skelL c1) = some (some cur)) (h2 : chkL (some cur) fb cur (skelL c2) = some (some cur))
    (hb : LoopBodyOK fb cur body) :
    chkL lb fb cur (skelL (c1 ++ [ condPop, .whileS boolifyCond
      ([ctxCall "context_values" "append" [nm "condition"]] ++ body ++ [ctxCall "context_values" "pop" []] ++ c2 ++ [condPop]) ])) =
      some (some cur) := by
  have hbc : mutatesE boolifyCond = false := by decide
  have hcn : mutatesE (nm "condition") = false := by decide
  rw [skelL_append, chkL_append, h1]
  simp only [skelL, skelS, condPop_other, hbc, Bool.false_eq_true, if_false, skelL_append, skel_cv_append _ hcn, skel_cv_pop, chkL, chkS,
    List.cons_append, List.nil_append]
  rcases hb with hb | hb
  · simp only [chkL_append, hb, chkL, chkS, add_cv1_back, h2, if_true]
  · simp only [chkL_append, hb]

theorem fnCall_chk (lb fb : Option D4) (cur : D4) (name : Str) : chkL lb fb cur (skelL (fnCallTemplate name)) = some (some cur) := by
  simp [fnCallTemplate, skelL, skelS, chkL, chkS, stackE, ctxE, mutatesE, mutatesEL, mutatesKw, badTarget, isCtxList]

theorem paramStmt_other (p : Str) : skelS (paramStmt p) = .other := by
  unfold paramStmt
  split
  · simp [skelS, nm, callN, ctxE, mutatesE, mutatesEL, mutatesKw, badTarget, isCtxList]
  · split
    · simp [skelS, nm, pop1kw, kwCtx, ctxE, mutatesE, mutatesEL, mutatesKw, badTarget, isCtxList]
    · simp [skelS, assign1, nm, pop1kw, kwCtx, ctxE, mutatesE, mutatesEL, mutatesKw, badTarget]

theorem params_chk (lb fb : Option D4) (cur : D4) : ∀ (ps : List Str) (rest : List Sk),
    chkL lb fb cur (skelL (ps.map paramStmt) ++ rest) = chkL lb fb cur rest
  | [], rest => by simp [skelL]
  | p :: ps, rest => by
      simp only [List.map_cons, skelL, paramStmt_other p, List.cons_append, chkL, chkS]
      exact params_chk lb fb cur ps rest

theorem fnDef_chk (lb fb : Option D4) (cur : D4) (name : Str) (params : List Str) (body : List PyStmt)
    (hb : chkL none (some D4.zero) fn1 (skelL body) = some (some fn1)) :
    chkL lb fb cur (skelL (fnDefTemplate name params body)) = some (some cur) := by
  have hpro : chkL none (some D4.zero) D4.zero (skelL (fnDefPrologue name params)) = some (some fn1) := by
    simp only [fnDefPrologue, skelL_append]
    have h0 : skelL [assign1 (nm "parameters") (.list [])] = [.other] := by
      simp [skelL, skelS, assign1, nm, mutatesE, mutatesEL, badTarget]
    rw [h0]
    simp only [List.cons_append, List.nil_append, chkL, chkS]
    rw [params_chk]
    simp [skelL, skelS, chkL, chkS, assign1, ctxCall, ctxE, nm, stackE, mutatesE, mutatesEL, mutatesKw, mutatesO, badTarget, listDelta, fn1,
      D4.add, D4.zero]
  have hepi : chkL none (some D4.zero) fn1 (skelL fnDefEpilogue) = some none := by decide
  have hdef : chkL none (some D4.zero) D4.zero (skelL (fnDefPrologue name params ++ body ++ fnDefEpilogue)) = some none := by
    rw [skelL_append, skelL_append, List.append_assoc, chkL_append, hpro]
    simp only [chkL_append, hb, hepi]
  simp only [fnDefTemplate, skelL, skelS, chkL, chkS, hdef]

theorem listItem_chk (lb fb : Option D4) (cur : D4) (item : List PyStmt)
    (hi : chkL none (some D4.zero) D4.zero (skelL item) = some (some D4.zero)) (rest : List Sk) :
    chkL lb fb cur (skelL (listItemTemplate item) ++ rest) = chkL lb fb cur rest := by
  have h0 : skelL [assign1 stackE (callN "list" [callN "deep_copy" [nm "s"]])] = [.other] := by
    simp [skelL, skelS, assign1, stackE, callN, nm, mutatesE, mutatesEL, mutatesKw, badTarget]
  have hepi : chkL none (some D4.zero) D4.zero (skelL listItemEpilogue) = some none := by decide
  have hdef : chkL none (some D4.zero) D4.zero (skelL ([assign1 stackE (callN "list" [callN "deep_copy" [nm "s"]])] ++ item ++ listItemEpilogue)) =
      some none := by
    rw [skelL_append, skelL_append, List.append_assoc, chkL_append, h0]
    simp only [chkL, chkS, chkL_append, hi, hepi]
  have h2 : skelS (assign1 (nm "f") (callN "list_item" [stackE, ctxE])) = .other := by
    simp [skelS, assign1, nm, callN, stackE, ctxE, mutatesE, mutatesEL, mutatesKw, badTarget]
  have h3 : skelS (.ifS (.compare (nm "f") [(.isNot, .cnone)]) [.expr (.call (.attr (nm "temp_list") "append") [nm "f"] [])] []) =
      .ifS [.other] [] := by
    simp [skelS, skelL, nm, mutatesE, mutatesEL, mutatesKw, mutatesC, isCtxList]
  have hsk : skelL (listItemTemplate item) =
      [.defn (skelL ([assign1 stackE (callN "list" [callN "deep_copy" [nm "s"]])] ++ item ++ listItemEpilogue)),
       skelS (assign1 (nm "f") (callN "list_item" [stackE, ctxE])),
       skelS (.ifS (.compare (nm "f") [(.isNot, .cnone)]) [.expr (.call (.attr (nm "temp_list") "append") [nm "f"] [])] [])] := rfl
  rw [hsk, h2, h3]
  show chkL lb fb cur (.defn _ :: .other :: .ifS [.other] [] :: rest) = _
  simp only [chkL, chkS, hdef, joinIf, if_true]

theorem listItems_chk (lb fb : Option D4) (cur : D4) : ∀ (items : List (List PyStmt)) (rest : List Sk),
    (∀ i ∈ items, chkL none (some D4.zero) D4.zero (skelL i) = some (some D4.zero)) →
    chkL lb fb cur (skelL (items.map listItemTemplate).flatten ++ rest) = chkL lb fb cur rest
  | [], rest, _ => by simp [skelL]
  | i :: r, rest, h => by
      simp only [List.map_cons, List.flatten_cons, skelL_append, List.append_assoc]
      rw [listItem_chk lb fb cur i (h i (by simp))]
      exact listItems_chk lb fb cur r rest (fun j hj => h j (by simp [hj]))

theorem list_chk (lb fb : Option D4) (cur : D4) (items : List (List PyStmt))
    (h : ∀ i ∈ items, chkL none (some D4.zero) D4.zero (skelL i) = some (some D4.zero)) :
    chkL lb fb cur (skelL (listTemplate items)) = some (some cur) := by
  have h0 : skelS (assign1 (nm "temp_list") (.list [])) = .other := by
    simp [skelS, assign1, nm, mutatesE, mutatesEL, badTarget]
  have h1 : skelS (push (callN "list" [callN "deep_copy" [nm "temp_list"]])) = .other :=
    push_other _ (by simp [callN, nm, mutatesE, mutatesEL, mutatesKw])
  simp only [listTemplate, skelL_append, skelL, h0, List.cons_append, List.nil_append, chkL, chkS]
  rw [listItems_chk lb fb cur items _ h]
  simp [h1, chkL, chkS]

theorem functionPop_other (x : String) : skelS (functionPop x) = .other := by
  simp [functionPop, skelS, assign1, nm, pop1pos, stackE, ctxE, mutatesE, mutatesEL, mutatesKw, badTarget]

theorem break_resL (c : BCtx) (lb fb : Option D4) (cur : D4) (p : Parent) (hp : bBrk c p = true) (hi : Inv c lb fb cur) :
    ResL c lb fb cur (breakTemplate p) := by
  cases p <;> simp only [bBrk, beq_iff_eq] at hp
  case forS =>
    subst hp; obtain ⟨base, h1, h2⟩ := hi; subst h1; subst h2
    exact Or.inr ⟨by decide, break_in_loop_ok fb base⟩
  case whileS =>
    subst hp; obtain ⟨base, h1, h2⟩ := hi; subst h1; subst h2
    exact Or.inr ⟨by decide, break_in_loop_ok fb base⟩
  case lam =>
    subst hp; obtain ⟨h1, h2⟩ := hi; subst h1; subst h2
    exact Or.inr ⟨by decide, break_in_lambda_ok lb⟩
  all_goals exact Or.inl (by simp [breakTemplate, skelL, skelS, chkL, chkS])

theorem recurse_resL (c : BCtx) (lb fb : Option D4) (cur : D4) (p : Parent) (hp : bRec c p = true) (hi : Inv c lb fb cur) :
    ResL c lb fb cur (recurseTemplate p) := by
  cases p <;> simp only [bRec, beq_iff_eq] at hp
  case forS =>
    subst hp; obtain ⟨base, h1, h2⟩ := hi; subst h1; subst h2
    exact Or.inr ⟨by decide, continue_in_loop_ok fb base⟩
  case whileS =>
    subst hp; obtain ⟨base, h1, h2⟩ := hi; subst h1; subst h2
    exact Or.inr ⟨by decide, continue_in_loop_ok fb base⟩
  all_goals exact Or.inl (by
    simp [recurseTemplate, skelL, skelS, chkL, chkS, stackE, nm, kwCtx, ctxE, mutatesE, mutatesEL, mutatesKw, badTarget, isCtxList,
      isBookList])

theorem arity_mut (ar : Option Nat) : mutatesE (arityExpr ar) = false := by
  cases ar <;> simp [arityExpr, mutatesE, ctxE]

/-! ### the induction over the program -/

theorem res_plain {lb fb : Option D4} {cur : D4} {code : List PyStmt} (h : ResL .plain lb fb cur code) :
    chkL lb fb cur (skelL code) = some (some cur) := by
  rcases h with h | ⟨hc, _⟩
  · exact h
  · exact absurd rfl hc

theorem fnBody_of_res (body : List PyStmt) (h : ResL .lam none (some D4.zero) all1 body) : FnBodyOK all1 body := by
  rcases h with h | ⟨_, h⟩
  · exact Or.inl h
  · exact Or.inr h

theorem allRes_mem (c : BCtx) (lb fb : Option D4) (cur : D4) : ∀ (cs : List (List PyStmt)), allRes c lb fb cur cs →
    ∀ i ∈ cs, ResL c lb fb cur i
  | [], _, i, hi => by simp at hi
  | b :: r, h, i, hi => by
      rcases List.mem_cons.mp hi with rfl | hi
      · exact h.1
      · exact allRes_mem c lb fb cur r h.2 i hi

theorem chk_append_exact (lb fb : Option D4) (cur : D4) (a b : List PyStmt) (ha : chkL lb fb cur (skelL a) = some (some cur))
    (hb : chkL lb fb cur (skelL b) = some (some cur)) : chkL lb fb cur (skelL (a ++ b)) = some (some cur) := by
  rw [skelL_append, chkL_append, ha]; exact hb

mutual
theorem trS_bal (env : TEnv) (hT : TablesBalanced env) : ∀ (s : Structure) (c : BCtx) (k : Nat) (code : List PyStmt) (k' : Nat),
    bplS c s = true → transpileS env k s = .ok (code, k') → ∀ (lb fb : Option D4) (cur : D4), Inv c lb fb cur → ResL c lb fb cur code
  | .generic t, c, k, code, k', _, ht, lb, fb, cur, _ => by
      simp only [transpileS] at ht
      cases htt : transpileToken env t with
      | error e => simp [htt] at ht
      | ok cd => simp [htt] at ht; obtain ⟨h1, _⟩ := ht; subst h1; exact exact_resL c lb fb cur _ (token_chk env hT t cd htt lb fb cur)
  | .brk p, c, k, code, k', hp, ht, lb, fb, cur, hi => by
      simp [transpileS] at ht; obtain ⟨h1, _⟩ := ht; subst h1
      exact break_resL c lb fb cur p (by simpa [bplS] using hp) hi
  | .recurse p, c, k, code, k', hp, ht, lb, fb, cur, hi => by
      simp [transpileS] at ht; obtain ⟨h1, _⟩ := ht; subst h1
      exact recurse_resL c lb fb cur p (by simpa [bplS] using hp) hi
  | .ifS bs, c, k, code, k', hp, ht, lb, fb, cur, hi => by
      simp only [bplS] at hp
      simp only [transpileS] at ht
      cases hll : transpileLL env k bs with
      | error e => simp [hll] at ht
      | ok r =>
        obtain ⟨cs, k1⟩ := r
        simp [hll] at ht; obtain ⟨h1, _⟩ := ht; subst h1
        exact ifChain_resL c lb fb cur cs (trLL_bal env hT bs c k cs k1 hp hll lb fb cur hi)
  | .forS names body, c, k, code, k', hp, ht, lb, fb, cur, _ => by
      simp only [bplS] at hp
      cases names with
      | nil =>
        simp only [transpileS] at ht
        cases hb : transpileL env (k + 1) body with
        | error e => simp [hb] at ht
        | ok r =>
          obtain ⟨b, k2⟩ := r
          simp [hb] at ht; obtain ⟨h1, _⟩ := ht; subst h1
          exact exact_resL c lb fb cur _ (for_template_balanced lb fb cur _ _ (by simp [mutatesE])
            (loopBody_of_res fb cur _ (resL_orPass _ _ _ _ _ (trL_bal env hT body .loop (k + 1) b k2 hp hb (some cur) fb (cur.add cv1) ⟨cur, rfl, rfl⟩))))
      | cons nm rest =>
        simp only [transpileS] at ht
        cases hb : transpileL env k body with
        | error e => simp [hb] at ht
        | ok r =>
          obtain ⟨b, k2⟩ := r
          simp [hb] at ht; obtain ⟨h1, _⟩ := ht; subst h1
          have hbw := loopBody_of_res fb cur _ (resL_orPass _ _ _ _ _ (trL_bal env hT body .loop k b k2 hp hb (some cur) fb (cur.add cv1) ⟨cur, rfl, rfl⟩))
          split
          · exact exact_resL c lb fb cur _ (for_template_balanced lb fb cur _ _ (by simp [mutatesE, ctxE]) hbw)
          · exact exact_resL c lb fb cur _ (for_template_balanced lb fb cur _ _ (by simp [mutatesE]) hbw)
  | .whileS Option.none body, c, k, code, k', hp, ht, lb, fb, cur, _ => by
      simp only [bplS] at hp
      simp only [transpileS] at ht
      cases hc : transpileToken env ⟨.number, [49]⟩ with
      | error e => simp [hc] at ht
      | ok cd =>
        cases hb : transpileL env k body with
        | error e => simp [hc, hb] at ht
        | ok r =>
          obtain ⟨b, k2⟩ := r
          simp [hc, hb] at ht; obtain ⟨h1, _⟩ := ht; subst h1
          exact exact_resL c lb fb cur _ (while_template_balanced lb fb cur cd _ (fun l f d => token_chk env hT _ cd hc l f d)
            (loopBody_of_res fb cur _ (resL_orPass _ _ _ _ _ (trL_bal env hT body .loop k b k2 hp hb (some cur) fb (cur.add cv1) ⟨cur, rfl, rfl⟩))))
  | .whileS (some cnd) body, c, k, code, k', hp, ht, lb, fb, cur, _ => by
      simp only [bplS, Bool.and_eq_true] at hp
      simp only [transpileS] at ht
      cases hc1 : transpileL env k cnd with
      | error e => simp [hc1] at ht
      | ok r1 =>
        obtain ⟨c1, k1⟩ := r1
        cases hb : transpileL env k1 body with
        | error e => simp [hc1, hb] at ht
        | ok r2 =>
          obtain ⟨b, k2⟩ := r2
          cases hc2 : transpileL env k2 cnd with
          | error e => simp [hc1, hb, hc2] at ht
          | ok r3 =>
            obtain ⟨c2, k3⟩ := r3
            simp [hc1, hb, hc2] at ht; obtain ⟨h1, _⟩ := ht; subst h1
            have w1 := res_plain (resL_orPass _ _ _ _ _ (trL_bal env hT cnd .plain k c1 k1 hp.1 hc1 lb fb cur trivial))
            have w2 := res_plain (resL_orPass _ _ _ _ _ (trL_bal env hT cnd .plain k2 c2 k3 hp.1 hc2 (some cur) fb cur trivial))
            have wb := loopBody_of_res fb cur _ (resL_orPass _ _ _ _ _ (trL_bal env hT body .loop k1 b k2 hp.2 hb (some cur) fb (cur.add cv1) ⟨cur, rfl, rfl⟩))
            have := while2_chk lb fb cur (orPass c1) (orPass c2) (orPass b) w1 w2 wb
            exact exact_resL c lb fb cur _ (by simpa using this)
  | .fnCall name, c, k, code, k', _, ht, lb, fb, cur, _ => by
      simp [transpileS] at ht; obtain ⟨h1, _⟩ := ht; subst h1
      exact exact_resL c lb fb cur _ (fnCall_chk lb fb cur name)
  | .fnDef name params body, c, k, code, k', hp, ht, lb, fb, cur, _ => by
      simp only [bplS] at hp
      simp only [transpileS] at ht
      cases hb : transpileL env k body with
      | error e => simp [hb] at ht
      | ok r =>
        obtain ⟨b, k2⟩ := r
        simp [hb] at ht; obtain ⟨h1, _⟩ := ht; subst h1
        exact exact_resL c lb fb cur _ (fnDef_chk lb fb cur name params _
          (res_plain (resL_orPass _ _ _ _ _ (trL_bal env hT body .plain k b k2 hp hb none (some D4.zero) fn1 trivial))))
  | .lam ar body, c, k, code, k', hp, ht, lb, fb, cur, _ => by
      simp only [bplS] at hp
      simp only [transpileS] at ht
      cases hb : transpileL env (k + 1) body with
      | error e => simp [hb] at ht
      | ok r =>
        obtain ⟨b, k2⟩ := r
        simp [hb] at ht; obtain ⟨h1, _⟩ := ht; subst h1
        exact exact_resL c lb fb cur _ (lambda_template_balanced lb fb cur _ _ _ (arity_mut ar)
          (fnBody_of_res _ (resL_orPass _ _ _ _ _ (trL_bal env hT body .lam (k + 1) b k2 hp hb none (some D4.zero) all1 ⟨rfl, rfl⟩))))
  | .lamOp kind body, c, k, code, k', hp, ht, lb, fb, cur, _ => by
      simp only [bplS] at hp
      simp only [transpileS] at ht
      cases hb : transpileL env (k + 1) body with
      | error e => simp [hb] at ht
      | ok r =>
        obtain ⟨b, k2⟩ := r
        cases hta : transpileToken env ⟨.general, lamOpKey kind⟩ with
        | error e => simp [hb, hta] at ht
        | ok a =>
          simp [hb, hta] at ht; obtain ⟨h1, _⟩ := ht; subst h1
          exact exact_resL c lb fb cur _ (chk_append_exact lb fb cur _ _
            (lambda_template_balanced lb fb cur _ _ _ (by simp [mutatesE])
              (fnBody_of_res _ (resL_orPass _ _ _ _ _ (trL_bal env hT body .lam (k + 1) b k2 hp hb none (some D4.zero) all1 ⟨rfl, rfl⟩))))
            (token_chk env hT _ a hta lb fb cur))
  | .listS items, c, k, code, k', hp, ht, lb, fb, cur, _ => by
      simp only [bplS] at hp
      simp only [transpileS] at ht
      cases hll : transpileLL env k items with
      | error e => simp [hll] at ht
      | ok r =>
        obtain ⟨cs, k1⟩ := r
        simp [hll] at ht; obtain ⟨h1, _⟩ := ht; subst h1
        have hall := trLL_bal env hT items .plain k cs k1 hp hll none (some D4.zero) D4.zero trivial
        exact exact_resL c lb fb cur _ (list_chk lb fb cur cs (fun i hi => res_plain (allRes_mem _ _ _ _ cs hall i hi)))
  | .mon m a, c, k, code, k', hp, ht, lb, fb, cur, _ => by
      simp only [bplS] at hp
      simp only [transpileS] at ht
      cases hw : wrapLambda env k a with
      | error e => simp [hw] at ht
      | ok r =>
        obtain ⟨fa, k1⟩ := r
        cases hmt : modTemplate env m with
        | error e => simp [hw, hmt] at ht
        | ok tmpl =>
          simp [hw, hmt] at ht; obtain ⟨h1, _⟩ := ht; subst h1
          refine exact_resL c lb fb cur _ (chk_append_exact lb fb cur _ _ (wrap_bal env hT a k fa k1 hp hw lb fb cur) ?_)
          rw [other_chk lb fb cur _ _ (functionPop_other "A")]
          exact mod_chk env hT m tmpl hmt lb fb cur
  | .dy m a b, c, k, code, k', hp, ht, lb, fb, cur, _ => by
      simp only [bplS, Bool.and_eq_true] at hp
      simp only [transpileS] at ht
      cases hwa : wrapLambda env k a with
      | error e => simp [hwa] at ht
      | ok r =>
        obtain ⟨fa, k1⟩ := r
        cases hwb : wrapLambda env k1 b with
        | error e => simp [hwa, hwb] at ht
        | ok r2 =>
          obtain ⟨fb', k2⟩ := r2
          cases hmt : modTemplate env m with
          | error e => simp [hwa, hwb, hmt] at ht
          | ok tmpl =>
            simp [hwa, hwb, hmt] at ht; obtain ⟨h1, _⟩ := ht; subst h1
            refine exact_resL c lb fb cur _ (chk_append_exact lb fb cur _ _ (wrap_bal env hT a k fa k1 hp.1 hwa lb fb cur) ?_)
            rw [other_chk lb fb cur _ _ (functionPop_other "A")]
            refine chk_append_exact lb fb cur _ _ (wrap_bal env hT b k1 fb' k2 hp.2 hwb lb fb cur) ?_
            rw [other_chk lb fb cur _ _ (functionPop_other "B")]
            exact mod_chk env hT m tmpl hmt lb fb cur
  | .tri m a b c', c, k, code, k', hp, ht, lb, fb, cur, _ => by
      simp only [bplS, Bool.and_eq_true] at hp
      simp only [transpileS] at ht
      cases hwa : wrapLambda env k a with
      | error e => simp [hwa] at ht
      | ok r =>
        obtain ⟨fa, k1⟩ := r
        cases hwb : wrapLambda env k1 b with
        | error e => simp [hwa, hwb] at ht
        | ok r2 =>
          obtain ⟨fb', k2⟩ := r2
          cases hwc : wrapLambda env k2 c' with
          | error e => simp [hwa, hwb, hwc] at ht
          | ok r3 =>
            obtain ⟨fc, k3⟩ := r3
            cases hmt : modTemplate env m with
            | error e => simp [hwa, hwb, hwc, hmt] at ht
            | ok tmpl =>
              simp [hwa, hwb, hwc, hmt] at ht; obtain ⟨h1, _⟩ := ht; subst h1
              refine exact_resL c lb fb cur _ (chk_append_exact lb fb cur _ _ (wrap_bal env hT a k fa k1 hp.1.1 hwa lb fb cur) ?_)
              rw [other_chk lb fb cur _ _ (functionPop_other "A")]
              refine chk_append_exact lb fb cur _ _ (wrap_bal env hT b k1 fb' k2 hp.1.2 hwb lb fb cur) ?_
              rw [other_chk lb fb cur _ _ (functionPop_other "B")]
              refine chk_append_exact lb fb cur _ _ (wrap_bal env hT c' k2 fc k3 hp.2 hwc lb fb cur) ?_
              rw [other_chk lb fb cur _ _ (functionPop_other "C")]
              exact mod_chk env hT m tmpl hmt lb fb cur
theorem wrap_bal (env : TEnv) (hT : TablesBalanced env) : ∀ (s : Structure) (k : Nat) (code : List PyStmt) (k' : Nat),
    bplS .lam s = true → wrapLambda env k s = .ok (code, k') → ∀ (lb fb : Option D4) (cur : D4),
    chkL lb fb cur (skelL code) = some (some cur)
  | .generic t, k, code, k', _, hw, lb, fb, cur => by
      simp only [wrapLambda] at hw
      cases ht : transpileToken env t with
      | error e => simp [ht] at hw
      | ok b =>
        simp [ht] at hw; obtain ⟨h1, _⟩ := hw; subst h1
        exact lambda_template_balanced lb fb cur _ _ _ (pyInt_mut _) (Or.inl (token_chk env hT t b ht none (some D4.zero) all1))
  | .lam ar body, k, code, k', hp, hw, lb, fb, cur => by
      simp only [wrapLambda] at hw
      exact res_plain (trS_bal env hT (.lam ar body) .plain k code k' (by simpa [bplS] using hp) hw lb fb cur trivial)
  | .brk p, k, code, k', hp, hw, lb, fb, cur => by
      simp only [wrapLambda] at hw
      cases hb : transpileS env (k + 1) (.brk p) with
      | error e => simp [hb] at hw
      | ok r =>
        obtain ⟨b, k2⟩ := r; simp [hb] at hw; obtain ⟨h1, _⟩ := hw; subst h1
        exact lambda_template_balanced lb fb cur _ _ _ (by simp [mutatesE])
          (fnBody_of_res _ (trS_bal env hT _ .lam (k + 1) b k2 hp hb none (some D4.zero) all1 ⟨rfl, rfl⟩))
  | .recurse p, k, code, k', hp, hw, lb, fb, cur => by
      simp only [wrapLambda] at hw
      cases hb : transpileS env (k + 1) (.recurse p) with
      | error e => simp [hb] at hw
      | ok r =>
        obtain ⟨b, k2⟩ := r; simp [hb] at hw; obtain ⟨h1, _⟩ := hw; subst h1
        exact lambda_template_balanced lb fb cur _ _ _ (by simp [mutatesE])
          (fnBody_of_res _ (trS_bal env hT _ .lam (k + 1) b k2 hp hb none (some D4.zero) all1 ⟨rfl, rfl⟩))
  | .ifS bs, k, code, k', hp, hw, lb, fb, cur => by
      simp only [wrapLambda] at hw
      cases hb : transpileS env (k + 1) (.ifS bs) with
      | error e => simp [hb] at hw
      | ok r =>
        obtain ⟨b, k2⟩ := r; simp [hb] at hw; obtain ⟨h1, _⟩ := hw; subst h1
        exact lambda_template_balanced lb fb cur _ _ _ (by simp [mutatesE])
          (fnBody_of_res _ (trS_bal env hT _ .lam (k + 1) b k2 hp hb none (some D4.zero) all1 ⟨rfl, rfl⟩))
  | .forS ns body, k, code, k', hp, hw, lb, fb, cur => by
      simp only [wrapLambda] at hw
      cases hb : transpileS env (k + 1) (.forS ns body) with
      | error e => simp [hb] at hw
      | ok r =>
        obtain ⟨b, k2⟩ := r; simp [hb] at hw; obtain ⟨h1, _⟩ := hw; subst h1
        exact lambda_template_balanced lb fb cur _ _ _ (by simp [mutatesE])
          (fnBody_of_res _ (trS_bal env hT _ .lam (k + 1) b k2 hp hb none (some D4.zero) all1 ⟨rfl, rfl⟩))
  | .whileS c body, k, code, k', hp, hw, lb, fb, cur => by
      simp only [wrapLambda] at hw
      cases hb : transpileS env (k + 1) (.whileS c body) with
      | error e => simp [hb] at hw
      | ok r =>
        obtain ⟨b, k2⟩ := r; simp [hb] at hw; obtain ⟨h1, _⟩ := hw; subst h1
        exact lambda_template_balanced lb fb cur _ _ _ (by simp [mutatesE])
          (fnBody_of_res _ (trS_bal env hT _ .lam (k + 1) b k2 hp hb none (some D4.zero) all1 ⟨rfl, rfl⟩))
  | .fnCall nme, k, code, k', hp, hw, lb, fb, cur => by
      simp only [wrapLambda] at hw
      cases hb : transpileS env (k + 1) (.fnCall nme) with
      | error e => simp [hb] at hw
      | ok r =>
        obtain ⟨b, k2⟩ := r; simp [hb] at hw; obtain ⟨h1, _⟩ := hw; subst h1
        exact lambda_template_balanced lb fb cur _ _ _ (by simp [mutatesE])
          (fnBody_of_res _ (trS_bal env hT _ .lam (k + 1) b k2 hp hb none (some D4.zero) all1 ⟨rfl, rfl⟩))
  | .fnDef nme ps body, k, code, k', hp, hw, lb, fb, cur => by
      simp only [wrapLambda] at hw
      cases hb : transpileS env (k + 1) (.fnDef nme ps body) with
      | error e => simp [hb] at hw
      | ok r =>
        obtain ⟨b, k2⟩ := r; simp [hb] at hw; obtain ⟨h1, _⟩ := hw; subst h1
        exact lambda_template_balanced lb fb cur _ _ _ (by simp [mutatesE])
          (fnBody_of_res _ (trS_bal env hT _ .lam (k + 1) b k2 hp hb none (some D4.zero) all1 ⟨rfl, rfl⟩))
  | .lamOp kd body, k, code, k', hp, hw, lb, fb, cur => by
      simp only [wrapLambda] at hw
      cases hb : transpileS env (k + 1) (.lamOp kd body) with
      | error e => simp [hb] at hw
      | ok r =>
        obtain ⟨b, k2⟩ := r; simp [hb] at hw; obtain ⟨h1, _⟩ := hw; subst h1
        exact lambda_template_balanced lb fb cur _ _ _ (by simp [mutatesE])
          (fnBody_of_res _ (trS_bal env hT _ .lam (k + 1) b k2 hp hb none (some D4.zero) all1 ⟨rfl, rfl⟩))
  | .listS items, k, code, k', hp, hw, lb, fb, cur => by
      simp only [wrapLambda] at hw
      cases hb : transpileS env (k + 1) (.listS items) with
      | error e => simp [hb] at hw
      | ok r =>
        obtain ⟨b, k2⟩ := r; simp [hb] at hw; obtain ⟨h1, _⟩ := hw; subst h1
        exact lambda_template_balanced lb fb cur _ _ _ (by simp [mutatesE])
          (fnBody_of_res _ (trS_bal env hT _ .lam (k + 1) b k2 hp hb none (some D4.zero) all1 ⟨rfl, rfl⟩))
  | .mon m x, k, code, k', hp, hw, lb, fb, cur => by
      simp only [wrapLambda] at hw
      cases hb : transpileS env (k + 1) (.mon m x) with
      | error e => simp [hb] at hw
      | ok r =>
        obtain ⟨b, k2⟩ := r; simp [hb] at hw; obtain ⟨h1, _⟩ := hw; subst h1
        exact lambda_template_balanced lb fb cur _ _ _ (by simp [mutatesE])
          (fnBody_of_res _ (trS_bal env hT _ .lam (k + 1) b k2 hp hb none (some D4.zero) all1 ⟨rfl, rfl⟩))
  | .dy m x y, k, code, k', hp, hw, lb, fb, cur => by
      simp only [wrapLambda] at hw
      cases hb : transpileS env (k + 1) (.dy m x y) with
      | error e => simp [hb] at hw
      | ok r =>
        obtain ⟨b, k2⟩ := r; simp [hb] at hw; obtain ⟨h1, _⟩ := hw; subst h1
        exact lambda_template_balanced lb fb cur _ _ _ (by simp [mutatesE])
          (fnBody_of_res _ (trS_bal env hT _ .lam (k + 1) b k2 hp hb none (some D4.zero) all1 ⟨rfl, rfl⟩))
  | .tri m x y z, k, code, k', hp, hw, lb, fb, cur => by
      simp only [wrapLambda] at hw
      cases hb : transpileS env (k + 1) (.tri m x y z) with
      | error e => simp [hb] at hw
      | ok r =>
        obtain ⟨b, k2⟩ := r; simp [hb] at hw; obtain ⟨h1, _⟩ := hw; subst h1
        exact lambda_template_balanced lb fb cur _ _ _ (by simp [mutatesE])
          (fnBody_of_res _ (trS_bal env hT _ .lam (k + 1) b k2 hp hb none (some D4.zero) all1 ⟨rfl, rfl⟩))
theorem trL_bal (env : TEnv) (hT : TablesBalanced env) : ∀ (prog : List Structure) (c : BCtx) (k : Nat) (code : List PyStmt) (k' : Nat),
    bplL c prog = true → transpileL env k prog = .ok (code, k') → ∀ (lb fb : Option D4) (cur : D4), Inv c lb fb cur → ResL c lb fb cur code
  | [], c, k, code, k', _, ht, lb, fb, cur, _ => by
      simp [transpileL] at ht; obtain ⟨h1, _⟩ := ht; subst h1; exact resL_nil c lb fb cur
  | s :: rest, c, k, code, k', hp, ht, lb, fb, cur, hi => by
      simp only [bplL, Bool.and_eq_true] at hp
      simp only [transpileL] at ht
      cases hs : transpileS env k s with
      | error e => simp [hs] at ht
      | ok r1 =>
        obtain ⟨a, k1⟩ := r1
        cases hr : transpileL env k1 rest with
        | error e => simp [hs, hr] at ht
        | ok r2 =>
          obtain ⟨b, k2⟩ := r2
          simp [hs, hr] at ht; obtain ⟨h1, _⟩ := ht; subst h1
          exact resL_append c lb fb cur a b (trS_bal env hT s c k a k1 hp.1 hs lb fb cur hi) (trL_bal env hT rest c k1 b k2 hp.2 hr lb fb cur hi)
theorem trLL_bal (env : TEnv) (hT : TablesBalanced env) : ∀ (bs : List (List Structure)) (c : BCtx) (k : Nat) (cs : List (List PyStmt)) (k' : Nat),
    bplLL c bs = true → transpileLL env k bs = .ok (cs, k') → ∀ (lb fb : Option D4) (cur : D4), Inv c lb fb cur → allRes c lb fb cur cs
  | [], c, k, cs, k', _, ht, lb, fb, cur, _ => by
      simp [transpileLL] at ht; obtain ⟨h1, _⟩ := ht; subst h1; trivial
  | b :: rest, c, k, cs, k', hp, ht, lb, fb, cur, hi => by
      simp only [bplLL, Bool.and_eq_true] at hp
      simp only [transpileLL] at ht
      cases hl : transpileL env k b with
      | error e => simp [hl] at ht
      | ok r1 =>
        obtain ⟨a, k1⟩ := r1
        cases hr : transpileLL env k1 rest with
        | error e => simp [hl, hr] at ht
        | ok r2 =>
          obtain ⟨c2, k2⟩ := r2
          simp [hl, hr] at ht; obtain ⟨h1, _⟩ := ht; subst h1
          exact ⟨resL_orPass c lb fb cur a (trL_bal env hT b c k a k1 hp.1 hl lb fb cur hi), trLL_bal env hT rest c k1 c2 k2 hp.2 hr lb fb cur hi⟩
end

/-- **C12, tree level**: the Python generated for *any* parsed program — every structure, modifier and token kind, any
    nesting — whose `X` / `x` stand at the depth their template undoes (`bplL .plain`: a loop's `X` in that loop's body, a
    lambda's `X` directly in its body) is accepted by the delta typing: by `balanced_sound`, every normally finishing
    execution of it — whatever the conditions and iteration counts, early exits included — leaves the four bookkeeping
    depths where they were. -/
theorem transpile_balanced (env : TEnv) (hT : TablesBalanced env) (prog : List Structure) (hp : bplL .plain prog = true)
    (code : List PyStmt) (ht : transpileAst env prog = .ok code) : balancedTop code = true := by
  unfold transpileAst at ht
  cases htl : transpileL env 0 prog with
  | error e => simp [htl] at ht
  | ok r =>
    obtain ⟨c, k'⟩ := r
    simp [htl] at ht; subst ht
    have := res_plain (resL_orPass _ _ _ _ _ (trL_bal env hT prog .plain 0 c k' hp htl none none D4.zero trivial))
    simp [balancedTop, this]

/-- … and so the depths are restored (the two theorems composed) -/
theorem transpiled_program_restores_depths (env : TEnv) (hT : TablesBalanced env) (prog : List Structure)
    (hp : bplL .plain prog = true) (code : List PyStmt) (ht : transpileAst env prog = .ok code) (c c' : D4)
    (hx : ExecL (skelL code) c c' .normal) : c' = c :=
  balanced_sound code (transpile_balanced env hT prog hp code ht) c c' hx

theorem gen_tables_balanced (env : TEnv) (he : env.elements = Gen.elements) (hm : env.modifiers = Gen.modifiers) : TablesBalanced env := by
  unfold TablesBalanced
  rw [he, hm, List.all_append, element_templates_balanced, modifier_templates_balanced]; rfl

/-! ## calls made explicit: callee bodies are checked, not assumed neutral -/

mutual
/-- the function bodies whose `def` the checker reaches (code after an unconditional exit is not reached — and never runs) -/
def defsS (lb fb : Option D4) (cur : D4) : Sk → List (List Sk)
  | .ifS t e => defsL lb fb cur t ++ defsL lb fb cur e
  | .loop b => defsL (some cur) fb cur b
  | .defn b => b :: defsL none (some D4.zero) D4.zero b
  | .ev _ => []
  | .other => []
  | .unknown => []
  | .brk => []
  | .cont => []
  | .ret => []
def defsL (lb fb : Option D4) (cur : D4) : List Sk → List (List Sk)
  | [] => []
  | s :: rest =>
    defsS lb fb cur s ++
      (match chkS lb fb cur s with
       | some (some d) => defsL lb fb d rest
       | _ => [])
end

theorem balancedFn_FnOK (body : List PyStmt) (h : balancedFn body = true) : FnOK (skelL body) := by
  unfold balancedFn at h
  cases hc : chkL none (some D4.zero) D4.zero (skelL body) with
  | none => simp [hc] at h
  | some r =>
    refine ⟨r, hc, ?_⟩
    intro d hd; subst hd
    simpa [hc] using h

theorem chkS_defn {lb fb cur b r} (h : chkS lb fb cur (.defn b) = some r) : FnOK b := by
  simp only [chkS] at h
  cases hb : chkL none (some D4.zero) D4.zero b with
  | none => simp [hb] at h
  | some o =>
    refine ⟨o, hb, ?_⟩
    intro d hd; subst hd
    simp only [hb] at h
    split at h
    · assumption
    · simp at h

mutual
/-- **every function the accepted code can define is itself accepted as a function body** (nested definitions included) -/
theorem defsS_ok : ∀ (s : Sk) (lb fb : Option D4) (cur : D4) (r : Option D4), chkS lb fb cur s = some r →
    ∀ b ∈ defsS lb fb cur s, FnOK b
  | .ifS t e, lb, fb, cur, r, h, b, hb => by
      obtain ⟨x, y, hx, hy, _⟩ := chkS_if h
      simp only [defsS, List.mem_append] at hb
      rcases hb with hb | hb
      · exact defsL_ok t lb fb cur x hx b hb
      · exact defsL_ok e lb fb cur y hy b hb
  | .loop body, lb, fb, cur, r, h, b, hb => by
      obtain ⟨_, hc⟩ := chkS_loop h
      simp only [defsS] at hb
      rcases hc with hc | hc
      · exact defsL_ok body (some cur) fb cur _ hc b hb
      · exact defsL_ok body (some cur) fb cur _ hc b hb
  | .defn body, lb, fb, cur, r, h, b, hb => by
      have hok := chkS_defn h
      simp only [defsS, List.mem_cons] at hb
      rcases hb with rfl | hb
      · exact hok
      · obtain ⟨o, ho, _⟩ := hok
        exact defsL_ok body none (some D4.zero) D4.zero o ho b hb
  | .ev _, _, _, _, _, _, b, hb => by simp [defsS] at hb
  | .other, _, _, _, _, _, b, hb => by simp [defsS] at hb
  | .unknown, _, _, _, _, _, b, hb => by simp [defsS] at hb
  | .brk, _, _, _, _, _, b, hb => by simp [defsS] at hb
  | .cont, _, _, _, _, _, b, hb => by simp [defsS] at hb
  | .ret, _, _, _, _, _, b, hb => by simp [defsS] at hb
theorem defsL_ok : ∀ (l : List Sk) (lb fb : Option D4) (cur : D4) (r : Option D4), chkL lb fb cur l = some r →
    ∀ b ∈ defsL lb fb cur l, FnOK b
  | [], _, _, _, _, _, b, hb => by simp [defsL] at hb
  | s :: rest, lb, fb, cur, r, h, b, hb => by
      simp only [defsL, List.mem_append] at hb
      rcases chkL_cons h with ⟨d, hsd, hrest⟩ | ⟨hsn, _⟩
      · rcases hb with hb | hb
        · exact defsS_ok s lb fb cur _ hsd b hb
        · simp only [hsd] at hb
          exact defsL_ok rest lb fb d r hrest b hb
      · rcases hb with hb | hb
        · exact defsS_ok s lb fb cur _ hsn b hb
        · simp [hsn] at hb
end

/-- the helpers of the repository that touch the four lists, as callable bodies -/
def helperBodies : List (List Sk) :=
  (Gen.ctxSites.filter (fun f => f.1 != "main.execute_vyxal")).map (fun f => skelL f.2)

theorem helperBodies_ok : ∀ b ∈ helperBodies, FnOK b := by
  intro b hb
  simp only [helperBodies, List.mem_map] at hb
  obtain ⟨f, hf, rfl⟩ := hb
  have := List.all_eq_true.mp helper_functions_balanced f hf
  exact balancedFn_FnOK f.2 this

/-- **soundness with calls**: accepted code restores the four depths on every normally finishing execution in which every
    statement may call — any number of times, to any depth, recursively — the functions and lambdas the code defines and
    the repository's helpers.  Nothing is assumed about callees: those bodies are accepted by the checker
    (`defsL_ok`, `helper_functions_balanced`), and the induction is over the derivation, which contains every call. -/
theorem balanced_sound_calls (prog : List PyStmt) (h : balancedTop prog = true) (c c' : D4)
    (hx : ExecLF (defsL none none D4.zero (skelL prog) ++ helperBodies) (skelL prog) c c' .normal) : c' = c := by
  have hc : chkL none none D4.zero (skelL prog) = some (some D4.zero) := by
    simpa [balancedTop] using h
  have hF : ∀ b ∈ defsL none none D4.zero (skelL prog) ++ helperBodies, FnOK b := by
    intro b hb
    rcases List.mem_append.mp hb with hb | hb
    · exact defsL_ok _ none none D4.zero _ hc b hb
    · exact helperBodies_ok b hb
  obtain ⟨d, hd, hr⟩ := soundLF _ hF hx none none D4.zero (some D4.zero) hc
  have : d = D4.zero := by simpa using hd.symm
  subst this
  exact Rel_zero hr

/-- … for every transpiled program (tree-level theorem composed with the soundness with calls) -/
theorem transpiled_program_restores_depths_calls (env : TEnv) (hT : TablesBalanced env) (prog : List Structure)
    (hp : bplL .plain prog = true) (code : List PyStmt) (ht : transpileAst env prog = .ok code) (c c' : D4)
    (hx : ExecLF (defsL none none D4.zero (skelL code) ++ helperBodies) (skelL code) c c' .normal) : c' = c :=
  balanced_sound_calls code (transpile_balanced env hT prog hp code ht) c c' hx

/-- non-vacuity: a function that pushes and pops a context value and calls itself in between; the program defines it and
    calls it (the derivation runs `f` → `f` → end) -/
example :
    let body : List Sk := [.ev ⟨1, 0, 0, 0⟩, .other, .ev ⟨-1, 0, 0, 0⟩]
    let prog : List Sk := [.defn body, .other]
    chkL none none D4.zero prog = some (some D4.zero) ∧ defsL none none D4.zero prog = [body] ∧
    ExecLF [body] prog D4.zero D4.zero .normal := by
  intro body prog
  have run : ∀ (c : D4), CallsF [body] (c.add ⟨1, 0, 0, 0⟩) (c.add ⟨1, 0, 0, 0⟩) →
      ExecLF [body] body c ((c.add ⟨1, 0, 0, 0⟩).add ⟨-1, 0, 0, 0⟩) .normal :=
    fun c hc => .consN (.ev _ _) (.consN (.other hc) (.consN (.ev _ _) (.nil _)))
  have back : ∀ (c : D4), (c.add ⟨1, 0, 0, 0⟩).add ⟨-1, 0, 0, 0⟩ = c := by
    intro c; cases c; simp only [D4.add, D4.mk.injEq]; omega
  have inner : ExecLF [body] body (D4.zero.add ⟨1, 0, 0, 0⟩) (D4.zero.add ⟨1, 0, 0, 0⟩) .normal := by
    have := run (D4.zero.add ⟨1, 0, 0, 0⟩) (.done _)
    rwa [back] at this
  have outer : ExecLF [body] body D4.zero D4.zero .normal := by
    have := run D4.zero (.call (List.mem_singleton.mpr rfl) inner (Or.inl rfl) (.done _))
    rwa [back] at this
  refine ⟨by decide, rfl, ?_⟩
  exact .consN (.defn _ _) (.consN (.other (.call (List.mem_singleton.mpr rfl) outer (Or.inl rfl) (.done _))) (.nil _))

end C12
