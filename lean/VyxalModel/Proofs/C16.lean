import VyxalModel.Model.Lists
import Mathlib.Data.List.Sublists
import Mathlib.Data.Nat.Factorial.Basic
/-!
# C16 — list builtins obey their defining laws

Laws proved for **all** lists, on models that follow the Python loops of the repository:
reverse is an involution; uniquify keeps exactly the members, without duplicates, in order of first
occurrence; cumulative sums are the prefix sums and `deltas` undoes them; interleave / uninterleave are
inverse; wrap's chunks concatenate back and have the right lengths; prefixes are the `take (i+1)`;
group-consecutive concatenates back into the list, each group constant; counts pairs every distinct
item with its multiplicity; sort is the ordered permutation (Python's `sorted`, here merge sort);
sum / product are the folds; the powerset element enumerates exactly the sub-sequences, each once for a duplicate-free
list, `2^n` of them (`powerset_eq_sublists`: the element's doubling loop *is* Mathlib's `List.sublists`); the permutations
element (`itertools.permutations`, modelled by position) yields `n!` lists, each a permutation of the argument.
The cartesian product (diagonal order) and `sublists` are covered by the correspondence and the law oracles only (T5).
-/
namespace C16
open Ls

theorem reverse_involutive (l : List Int) : l.reverse.reverse = l := List.reverse_reverse l

/-! ## uniquify -/

theorem uniqGo_mem (l seen : List Int) : ∀ x, x ∈ uniqGo l seen ↔ x ∈ l ∧ x ∉ seen := by
  induction l generalizing seen with
  | nil => intro x; simp [uniqGo]
  | cons a as ih =>
    intro x
    simp only [uniqGo]
    by_cases ha : seen.contains a = true
    · have ham : a ∈ seen := by simpa using ha
      simp only [ha, if_true, ih, List.mem_cons]
      constructor
      · rintro ⟨h1, h2⟩; exact ⟨Or.inr h1, h2⟩
      · rintro ⟨h1 | h1, h2⟩
        · subst h1; exact absurd ham h2
        · exact ⟨h1, h2⟩
    · have ham : a ∉ seen := by simpa using ha
      have hf : seen.contains a = false := by simpa using ha
      simp only [hf, Bool.false_eq_true, if_false, List.mem_cons, ih, List.mem_append, List.mem_singleton, not_or,
        List.not_mem_nil, or_false]
      constructor
      · rintro (h1 | ⟨h1, h2, h3⟩)
        · subst h1; exact ⟨Or.inl rfl, ham⟩
        · exact ⟨Or.inr h1, h2⟩
      · rintro ⟨h1 | h1, h2⟩
        · exact Or.inl h1
        · by_cases hx : x = a
          · exact Or.inl hx
          · exact Or.inr ⟨h1, h2, hx⟩

theorem uniqGo_nodup (l seen : List Int) : (uniqGo l seen).Nodup := by
  induction l generalizing seen with
  | nil => simp [uniqGo]
  | cons a as ih =>
    simp only [uniqGo]
    split
    · exact ih seen
    · refine List.nodup_cons.mpr ⟨?_, ih _⟩
      intro h
      have := ((uniqGo_mem as (seen ++ [a]) a).mp h).2
      simp at this

theorem uniqGo_sublist (l seen : List Int) : (uniqGo l seen).Sublist l := by
  induction l generalizing seen with
  | nil => simp [uniqGo]
  | cons a as ih =>
    simp only [uniqGo]
    split
    · exact (ih seen).cons a
    · exact (ih _).cons_cons a

/-- uniquify keeps exactly the members of the list, each once, in their original relative order -/
theorem uniquify_spec (l : List Int) :
    (uniquify l).Nodup ∧ (∀ x, x ∈ uniquify l ↔ x ∈ l) ∧ (uniquify l).Sublist l :=
  ⟨uniqGo_nodup l [], fun x => by simp [uniquify, uniqGo_mem], uniqGo_sublist l []⟩

/-- … and what it keeps of each item is its *first* occurrence: the head of the list always survives -/
theorem uniquify_head (a : Int) (l : List Int) : (uniquify (a :: l)).head? = some a := by
  simp [uniquify, uniqGo]

/-! ## cumulative sums and deltas -/

theorem cumsumGo_length (acc : Int) (l : List Int) : (cumsumGo acc l).length = l.length := by
  induction l generalizing acc with
  | nil => rfl
  | cons x xs ih => simp [cumsumGo, ih]

theorem sum_take_succ_cons (x : Int) (xs : List Int) (i : Nat) :
    ((x :: xs).take (i + 1)).foldl (· + ·) 0 = x + (xs.take i).foldl (· + ·) 0 := by
  have h : ∀ (l : List Int) (a : Int), l.foldl (· + ·) a = a + l.foldl (· + ·) 0 := by
    intro l
    induction l with
    | nil => intro a; simp
    | cons y ys ih => intro a; simp only [List.foldl_cons]; rw [ih (a + y), ih (0 + y)]; omega
  simp only [List.take_succ_cons, List.foldl_cons]
  rw [h]; omega

/-- the i-th cumulative sum is the sum of the first i+1 items -/
theorem cumsum_spec (l : List Int) (acc : Int) (i : Nat) (hi : i < l.length) :
    (cumsumGo acc l)[i]? = some (acc + (l.take (i + 1)).foldl (· + ·) 0) := by
  induction l generalizing acc i with
  | nil => simp at hi
  | cons x xs ih =>
    cases i with
    | zero => simp [cumsumGo]
    | succ i =>
      have hi' : i < xs.length := by simpa using hi
      simp only [cumsumGo, List.getElem?_cons_succ]
      rw [ih (acc + x) i hi', sum_take_succ_cons x xs (i + 1)]
      congr 1; omega

theorem deltasGo_cumsumGo (acc : Int) (l : List Int) : deltasGo acc (cumsumGo acc l) = l := by
  induction l generalizing acc with
  | nil => rfl
  | cons x xs ih =>
    simp only [cumsumGo, deltasGo]
    rw [ih (acc + x)]
    congr 1; omega

/-- deltas undoes cumulative sums (up to the first item, which deltas drops) -/
theorem deltas_cumsum (l : List Int) : deltas (cumulativeSum l) = l.tail := by
  cases l with
  | nil => rfl
  | cons x xs =>
    simp only [cumulativeSum, cumsumGo, deltas, List.tail_cons]
    exact deltasGo_cumsumGo (0 + x) xs

theorem deltas_length (l : List Int) : (deltas l).length = l.length - 1 := by
  cases l with
  | nil => rfl
  | cons x xs =>
    simp only [deltas, List.length_cons, Nat.add_sub_cancel]
    have : ∀ (p : Int) (l : List Int), (deltasGo p l).length = l.length := by
      intro p l; induction l generalizing p with
      | nil => rfl
      | cons y ys ih => simp [deltasGo, ih]
    exact this x xs

/-! ## interleave / uninterleave -/

theorem uninterleave_interleave : ∀ (a b : List Int), (a.length = b.length ∨ a.length = b.length + 1) →
    uninterleave (interleave a b) = (a, b)
  | [], [], _ => rfl
  | [], _ :: _, h => by simp at h
  | [a], [], _ => rfl
  | _ :: _ :: _, [], h => by simp at h
  | a :: as, b :: bs, h => by
    have ih := uninterleave_interleave as bs (by simp at h; omega)
    simp only [uninterleave, Prod.mk.injEq] at ih ⊢
    simp only [interleave, evens, odds, ih.1, ih.2, and_self]

theorem interleave_length (a b : List Int) : (interleave a b).length = a.length + b.length := by
  induction a generalizing b with
  | nil => simp [interleave]
  | cons x xs ih =>
    cases b with
    | nil => simp [interleave]
    | cons y ys => simp [interleave, ih]; omega

/-! ## wrap -/

theorem chunks_join (k : Nat) (hk : 0 < k) : ∀ (f : Nat) (l : List Int), l.length ≤ f → (chunks k f l).flatten = l
  | 0, l, h => by
    have : l = [] := List.length_eq_zero_iff.mp (by omega)
    subst this; rfl
  | f + 1, [], _ => rfl
  | f + 1, x :: xs, h => by
    simp only [chunks, List.flatten_cons]
    have hlen : ((x :: xs).drop k).length ≤ f := by
      rw [List.length_drop]; simp only [List.length_cons] at h ⊢; omega
    rw [chunks_join k hk f _ hlen, List.take_append_drop]

theorem chunks_size (k : Nat) : ∀ (f : Nat) (l : List Int), ∀ c ∈ chunks k f l, c.length ≤ k
  | 0, _, c, h => by simp [chunks] at h
  | f + 1, [], c, h => by simp [chunks] at h
  | f + 1, x :: xs, c, h => by
    simp only [chunks, List.mem_cons] at h
    rcases h with rfl | h
    · simp [List.length_take]; omega
    · exact chunks_size k f _ c h

/-- the chunks of `wrap` concatenate back to the list and none is longer than `k` -/
theorem wrap_join (l : List Int) (k : Nat) (hk : 0 < k) :
    (wrapK l k).flatten = l ∧ ∀ c ∈ wrapK l k, c.length ≤ k := by
  have h0 : k ≠ 0 := by omega
  simp only [wrapK, h0, if_false]
  exact ⟨chunks_join k hk l.length l (Nat.le_refl _), chunks_size k l.length l⟩

/-! ## prefixes -/

theorem prefixesGo_spec (acc l : List Int) (i : Nat) (hi : i < l.length) :
    (prefixesGo acc l)[i]? = some (acc ++ l.take (i + 1)) := by
  induction l generalizing acc i with
  | nil => simp at hi
  | cons x xs ih =>
    cases i with
    | zero => simp [prefixesGo]
    | succ i =>
      have hi' : i < xs.length := by simpa using hi
      simp only [prefixesGo, List.getElem?_cons_succ]
      rw [ih (acc ++ [x]) i hi']
      simp

theorem prefixes_spec (l : List Int) (i : Nat) (hi : i < l.length) : (prefixes l)[i]? = some (l.take (i + 1)) := by
  simpa [prefixes] using prefixesGo_spec [] l i hi

theorem prefixes_length (l : List Int) : (prefixes l).length = l.length := by
  have : ∀ acc, (prefixesGo acc l).length = l.length := by
    induction l with
    | nil => intro acc; rfl
    | cons x xs ih => intro acc; simp [prefixesGo, ih]
  exact this []

/-! ## group consecutive -/

theorem groupGo_join (prev : Int) (n : Nat) (l : List Int) :
    (groupGo prev n l).flatten = List.replicate n prev ++ l := by
  induction l generalizing prev n with
  | nil => simp [groupGo]
  | cons x xs ih =>
    simp only [groupGo]
    split
    · rename_i h; subst h
      rw [ih]; simp [List.replicate_succ', List.append_assoc]
    · simp only [List.flatten_cons, ih]
      simp [List.replicate]

theorem group_consecutive_join (l : List Int) : (groupConsecutive l).flatten = l := by
  cases l with
  | nil => rfl
  | cons x xs => simp [groupConsecutive, groupGo_join, List.replicate]

theorem groupGo_constant (prev : Int) (n : Nat) (l : List Int) :
    ∀ g ∈ groupGo prev n l, ∃ v k, g = List.replicate k v := by
  induction l generalizing prev n with
  | nil => intro g hg; simp [groupGo] at hg; exact ⟨prev, n, hg⟩
  | cons x xs ih =>
    intro g hg
    simp only [groupGo] at hg
    split at hg
    · exact ih _ _ g hg
    · rcases List.mem_cons.mp hg with rfl | hg
      · exact ⟨prev, n, rfl⟩
      · exact ih _ _ g hg

/-! ## counts, sort, folds -/

theorem counts_spec (l : List Int) :
    (counts l).map (·.1) = uniquify l ∧ ∀ p ∈ counts l, p.2 = l.count p.1 := by
  refine ⟨by simp [counts, List.map_map, Function.comp_def], ?_⟩
  intro p hp
  simp only [counts, List.mem_map] at hp
  obtain ⟨x, _, rfl⟩ := hp
  rfl

/-- sort is the ordered permutation -/
theorem sort_sorted_perm (l : List Int) : (vySort l).Pairwise (· ≤ ·) ∧ (vySort l).Perm l := by
  refine ⟨?_, List.mergeSort_perm l _⟩
  have := List.pairwise_mergeSort (le := fun a b => decide (a ≤ b))
    (by intro a b c hab hbc; simp only [decide_eq_true_eq] at *; omega)
    (by intro a b; simp only [Bool.or_eq_true, decide_eq_true_eq]; omega) l
  simpa [vySort] using this

theorem sum_append (a b : List Int) : vySum (a ++ b) = vySum a + vySum b := by
  have h : ∀ (l : List Int) (x : Int), l.foldl (· + ·) x = x + l.foldl (· + ·) 0 := by
    intro l
    induction l with
    | nil => intro x; simp
    | cons y ys ih => intro x; simp only [List.foldl_cons]; rw [ih (x + y), ih (0 + y)]; omega
  simp only [vySum, List.foldl_append]
  rw [h b]

theorem sum_reverse (l : List Int) : vySum l.reverse = vySum l := by
  induction l with
  | nil => rfl
  | cons x xs ih =>
    rw [List.reverse_cons, sum_append, ih]
    have : vySum (x :: xs) = vySum [x] + vySum xs := by
      rw [← sum_append]; rfl
    rw [this]; omega

/-- the product is the fold from 1 — for every non-empty list (F30, known finding: the empty product is 0) -/
theorem product_fold_partial (l : List Int) (h : l ≠ []) : vyProduct l = l.foldl (· * ·) 1 := by
  cases l with
  | nil => exact absurd rfl h
  | cons x xs => simp [vyProduct]

theorem product_empty_counterexample : vyProduct [] ≠ ([] : List Int).foldl (· * ·) 1 := by decide

example : uniquify [3, 1, 3, 2, 1] = [3, 1, 2] ∧ cumulativeSum [1, 2, 3] = [1, 3, 6] ∧ deltas [1, 3, 6] = [2, 3]
    ∧ groupConsecutive [1, 1, 2, 1] = [[1, 1], [2], [1]] ∧ wrapK [1, 2, 3, 4, 5] 2 = [[1, 2], [3, 4], [5]] := by decide

/-! ## powerset and permutations -/

theorem powerset_snoc (l : List Int) (e : Int) : powerset (l ++ [e]) = powerset l ++ (powerset l).map (· ++ [e]) := by
  simp [powerset, List.foldl_append]

/-- the doubling loop of `ṗ` is `List.sublists` -/
theorem powerset_eq_sublists (l : List Int) : powerset l = l.sublists := by
  induction l using List.reverseRecOn with
  | nil => rfl
  | append_singleton l e ih => rw [powerset_snoc, ih, List.sublists_concat]

/-- **powerset**: exactly the sub-sequences, `2^n` of them, without repetition when the list has none -/
theorem powerset_spec (l : List Int) :
    (∀ s, s ∈ powerset l ↔ s.Sublist l) ∧ (powerset l).length = 2 ^ l.length ∧ (l.Nodup → (powerset l).Nodup) := by
  rw [powerset_eq_sublists]
  exact ⟨fun s => List.mem_sublists, List.length_sublists l, fun h => List.nodup_sublists.mpr h⟩

theorem eraseIdx_perm (l : List Int) (i : Nat) (hi : i < l.length) : (l.getD i 0 :: l.eraseIdx i).Perm l := by
  induction l generalizing i with
  | nil => simp at hi
  | cons a t ih =>
    cases i with
    | zero => simp
    | succ i =>
      have hi' : i < t.length := by simpa using hi
      have := ih i hi'
      simp only [List.getD_cons_succ, List.eraseIdx_cons_succ]
      exact (List.Perm.swap _ _ _).trans (this.cons a)

theorem permsFuel_spec : ∀ (n : Nat) (l : List Int), l.length = n →
    (permsFuel n l).length = n.factorial ∧ ∀ p ∈ permsFuel n l, p.Perm l
  | 0, l, h => by
      have : l = [] := List.eq_nil_of_length_eq_zero h
      subst this; simp [permsFuel]
  | n + 1, l, h => by
      have ih : ∀ i < l.length, (permsFuel n (l.eraseIdx i)).length = n.factorial ∧ ∀ p ∈ permsFuel n (l.eraseIdx i), p.Perm (l.eraseIdx i) := by
        intro i hi
        exact permsFuel_spec n (l.eraseIdx i) (by rw [List.length_eraseIdx]; simp [hi]; omega)
      constructor
      · simp only [permsFuel, List.length_flatMap, List.length_map]
        have : ((List.range l.length).map (fun i => (permsFuel n (l.eraseIdx i)).length)) = List.replicate l.length n.factorial := by
          apply List.ext_getElem
          · simp
          · intro k h1 h2
            simp only [List.getElem_map, List.getElem_range, List.getElem_replicate]
            exact (ih k (by simpa using h1)).1
        rw [this]
        simp [h, Nat.factorial_succ]
      · intro p hp
        simp only [permsFuel, List.mem_flatMap, List.mem_range, List.mem_map] at hp
        obtain ⟨i, hi, q, hq, rfl⟩ := hp
        exact ((ih i hi).2 q hq).cons _ |>.trans (eraseIdx_perm l i hi)

/-- **permutations**: `n!` lists, each a rearrangement of the argument -/
theorem permutations_spec (l : List Int) :
    (permutations l).length = l.length.factorial ∧ ∀ p ∈ permutations l, p.Perm l :=
  permsFuel_spec l.length l rfl

end C16
