import VyxalModel.Model.Lists
import VyxalModel.Lemmas.Cartesian
import Mathlib.Data.List.ProdSigma
import Mathlib.Data.List.Sublists
import Mathlib.Data.Nat.Factorial.Basic
import Mathlib.Tactic.Ring
/-!
# C16 — list builtins obey their defining laws

Laws proved for **all** lists, on models that follow the Python loops of the repository:
reverse is an involution; uniquify keeps exactly the members, without duplicates, in order of first
occurrence; cumulative sums are the prefix sums and `deltas` undoes them; interleave / uninterleave are
inverse; wrap's chunks concatenate back and have the right lengths; prefixes are the `take (i+1)`;
group-consecutive concatenates back into the list, each group constant; counts pairs every distinct
item with its multiplicity; sort is the ordered permutation (Python's `sorted`, here merge sort);
sum / product are the folds; the powerset element enumerates exactly the sub-sequences, each once for a duplicate-free
list, `2^n` of them (`powerset_eq_sublists`: the element's doubling loop *is* Mathlib's `List.sublists`); the permutations
element (`itertools.permutations`, modelled by position) yields `n!` lists, each a permutation of the argument.
`sublists` yields exactly the non-empty contiguous pieces (`contiguous_mem`, `contiguous_length`); overlapping groups are the
`take k ∘ drop i` (`windows_spec`); run-length encoding and decoding are inverse bijections between lists and lists of
maximal runs (`rld_rle`, `rle_runs`, `rle_rld`).
The cartesian product's diagonal walk (`Model/Cartesian.lean`, with the element's `lhs_max` / `rhs_max` bookkeeping, lists and lazy
lists) yields the existing pairs diagonal by diagonal (`cartesian_diagonals`) — a rearrangement of the full product, every pair
of positions exactly once (`cartesian_perm`, `cartesian_length`).
-/
namespace C16
open Ls

theorem reverse_involutive (l : List Int) : l.reverse.reverse = l := List.reverse_reverse l

/-! ## uniquify -/

theorem uniqGo_mem (l seen : List Int) : ∀ x, x ∈ uniqGo l seen ↔ x ∈ l ∧ x ∉ seen := by
  induction l generalizing seen with
  | nil => intro x; simp [uniqGo]
  | cons a as ih =>
    intro x
    simp only [uniqGo]
    by_cases ha : seen.contains a = true
    · have ham : a ∈ seen := by simpa using ha
      simp only [ha, if_true, ih, List.mem_cons]
      constructor
      · rintro ⟨h1, h2⟩; exact ⟨Or.inr h1, h2⟩
      · rintro ⟨h1 | h1, h2⟩
        · subst h1; exact absurd ham h2
        · exact ⟨h1, h2⟩
    · have ham : a ∉ seen := by simpa using ha
      have hf : seen.contains a = false := by simpa using ha
      simp only [hf, Bool.false_eq_true, if_false, List.mem_cons, ih, List.mem_append, List.mem_singleton, not_or,
        List.not_mem_nil, or_false]
      constructor
      · rintro (h1 | ⟨h1, h2, h3⟩)
        · subst h1; exact ⟨Or.inl rfl, ham⟩
        · exact ⟨Or.inr h1, h2⟩
      · rintro ⟨h1 | h1, h2⟩
        · exact Or.inl h1
        · by_cases hx : x = a
          · exact Or.inl hx
          · exact Or.inr ⟨h1, h2, hx⟩

theorem uniqGo_nodup (l seen : List Int) : (uniqGo l seen).Nodup := by
  induction l generalizing seen with
  | nil => simp [uniqGo]
  | cons a as ih =>
    simp only [uniqGo]
    split
    · exact ih seen
    · refine List.nodup_cons.mpr ⟨?_, ih _⟩
      intro h
      have := ((uniqGo_mem as (seen ++ [a]) a).mp h).2
      simp at this

theorem uniqGo_sublist (l seen : List Int) : (uniqGo l seen).Sublist l := by
  induction l generalizing seen with
  | nil => simp [uniqGo]
  | cons a as ih =>
    simp only [uniqGo]
    split
    · exact (ih seen).cons a
    · exact (ih _).cons_cons a

/-- uniquify keeps exactly the members of the list, each once, in their original relative order -/
theorem uniquify_spec (l : List Int) :
    (uniquify l).Nodup ∧ (∀ x, x ∈ uniquify l ↔ x ∈ l) ∧ (uniquify l).Sublist l :=
  ⟨uniqGo_nodup l [], fun x => by simp [uniquify, uniqGo_mem], uniqGo_sublist l []⟩

/-- … and what it keeps of each item is its *first* occurrence: the head of the list always survives -/
theorem uniquify_head (a : Int) (l : List Int) : (uniquify (a :: l)).head? = some a := by
  simp [uniquify, uniqGo]

/-! ## cumulative sums and deltas -/

theorem cumsumGo_length (acc : Int) (l : List Int) : (cumsumGo acc l).length = l.length := by
  induction l generalizing acc with
  | nil => rfl
  | cons x xs ih => simp [cumsumGo, ih]

theorem sum_take_succ_cons (x : Int) (xs : List Int) (i : Nat) :
    ((x :: xs).take (i + 1)).foldl (· + ·) 0 = x + (xs.take i).foldl (· + ·) 0 := by
  have h : ∀ (l : List Int) (a : Int), l.foldl (· + ·) a = a + l.foldl (· + ·) 0 := by
    intro l
    induction l with
    | nil => intro a; simp
    | cons y ys ih => intro a; simp only [List.foldl_cons]; rw [ih (a + y), ih (0 + y)]; omega
  simp only [List.take_succ_cons, List.foldl_cons]
  rw [h]; omega

/-- the i-th cumulative sum is the sum of the first i+1 items -/
theorem cumsum_spec (l : List Int) (acc : Int) (i : Nat) (hi : i < l.length) :
    (cumsumGo acc l)[i]? = some (acc + (l.take (i + 1)).foldl (· + ·) 0) := by
  induction l generalizing acc i with
  | nil => simp at hi
  | cons x xs ih =>
    cases i with
    | zero => simp [cumsumGo]
    | succ i =>
      have hi' : i < xs.length := by simpa using hi
      simp only [cumsumGo, List.getElem?_cons_succ]
      rw [ih (acc + x) i hi', sum_take_succ_cons x xs (i + 1)]
      congr 1; omega

theorem deltasGo_cumsumGo (acc : Int) (l : List Int) : deltasGo acc (cumsumGo acc l) = l := by
  induction l generalizing acc with
  | nil => rfl
  | cons x xs ih =>
    simp only [cumsumGo, deltasGo]
    rw [ih (acc + x)]
    congr 1; omega

/-- deltas undoes cumulative sums (up to the first item, which deltas drops) -/
theorem deltas_cumsum (l : List Int) : deltas (cumulativeSum l) = l.tail := by
  cases l with
  | nil => rfl
  | cons x xs =>
    simp only [cumulativeSum, cumsumGo, deltas, List.tail_cons]
    exact deltasGo_cumsumGo (0 + x) xs

theorem deltas_length (l : List Int) : (deltas l).length = l.length - 1 := by
  cases l with
  | nil => rfl
  | cons x xs =>
    simp only [deltas, List.length_cons, Nat.add_sub_cancel]
    have : ∀ (p : Int) (l : List Int), (deltasGo p l).length = l.length := by
      intro p l; induction l generalizing p with
      | nil => rfl
      | cons y ys ih => simp [deltasGo, ih]
    exact this x xs

/-! ## interleave / uninterleave -/

theorem uninterleave_interleave : ∀ (a b : List Int), (a.length = b.length ∨ a.length = b.length + 1) →
    uninterleave (interleave a b) = (a, b)
  | [], [], _ => rfl
  | [], _ :: _, h => by simp at h
  | [a], [], _ => rfl
  | _ :: _ :: _, [], h => by simp at h
  | a :: as, b :: bs, h => by
    have ih := uninterleave_interleave as bs (by simp at h; omega)
    simp only [uninterleave, Prod.mk.injEq] at ih ⊢
    simp only [interleave, evens, odds, ih.1, ih.2, and_self]

theorem interleave_length (a b : List Int) : (interleave a b).length = a.length + b.length := by
  induction a generalizing b with
  | nil => simp [interleave]
  | cons x xs ih =>
    cases b with
    | nil => simp [interleave]
    | cons y ys => simp [interleave, ih]; omega

/-! ## wrap -/

theorem chunks_join (k : Nat) (hk : 0 < k) : ∀ (f : Nat) (l : List Int), l.length ≤ f → (chunks k f l).flatten = l
  | 0, l, h => by
    have : l = [] := List.length_eq_zero_iff.mp (by omega)
    subst this; rfl
  | f + 1, [], _ => rfl
  | f + 1, x :: xs, h => by
    simp only [chunks, List.flatten_cons]
    have hlen : ((x :: xs).drop k).length ≤ f := by
      rw [List.length_drop]; simp only [List.length_cons] at h ⊢; omega
    rw [chunks_join k hk f _ hlen, List.take_append_drop]

theorem chunks_size (k : Nat) : ∀ (f : Nat) (l : List Int), ∀ c ∈ chunks k f l, c.length ≤ k
  | 0, _, c, h => by simp [chunks] at h
  | f + 1, [], c, h => by simp [chunks] at h
  | f + 1, x :: xs, c, h => by
    simp only [chunks, List.mem_cons] at h
    rcases h with rfl | h
    · rw [List.length_take]; omega
    · exact chunks_size k f _ c h

/-- the chunks of `wrap` concatenate back to the list and none is longer than `k` -/
theorem wrap_join (l : List Int) (k : Nat) (hk : 0 < k) :
    (wrapK l k).flatten = l ∧ ∀ c ∈ wrapK l k, c.length ≤ k := by
  have h0 : k ≠ 0 := by omega
  simp only [wrapK, h0, if_false]
  exact ⟨chunks_join k hk l.length l (Nat.le_refl _), chunks_size k l.length l⟩

/-! ## prefixes -/

theorem prefixesGo_spec (acc l : List Int) (i : Nat) (hi : i < l.length) :
    (prefixesGo acc l)[i]? = some (acc ++ l.take (i + 1)) := by
  induction l generalizing acc i with
  | nil => simp at hi
  | cons x xs ih =>
    cases i with
    | zero => simp [prefixesGo]
    | succ i =>
      have hi' : i < xs.length := by simpa using hi
      simp only [prefixesGo, List.getElem?_cons_succ]
      rw [ih (acc ++ [x]) i hi']
      simp

theorem prefixes_spec (l : List Int) (i : Nat) (hi : i < l.length) : (prefixes l)[i]? = some (l.take (i + 1)) := by
  simpa [prefixes] using prefixesGo_spec [] l i hi

theorem prefixes_length (l : List Int) : (prefixes l).length = l.length := by
  have : ∀ acc, (prefixesGo acc l).length = l.length := by
    induction l with
    | nil => intro acc; rfl
    | cons x xs ih => intro acc; simp [prefixesGo, ih]
  exact this []

/-! ## group consecutive -/

theorem groupGo_join (prev : Int) (n : Nat) (l : List Int) :
    (groupGo prev n l).flatten = List.replicate n prev ++ l := by
  induction l generalizing prev n with
  | nil => simp [groupGo]
  | cons x xs ih =>
    simp only [groupGo]
    split
    · rename_i h; subst h
      rw [ih]; simp [List.replicate_succ', List.append_assoc]
    · simp only [List.flatten_cons, ih]
      simp [List.replicate]

theorem group_consecutive_join (l : List Int) : (groupConsecutive l).flatten = l := by
  cases l with
  | nil => rfl
  | cons x xs => simp [groupConsecutive, groupGo_join, List.replicate]

theorem groupGo_constant (prev : Int) (n : Nat) (l : List Int) :
    ∀ g ∈ groupGo prev n l, ∃ v k, g = List.replicate k v := by
  induction l generalizing prev n with
  | nil => intro g hg; simp [groupGo] at hg; exact ⟨prev, n, hg⟩
  | cons x xs ih =>
    intro g hg
    simp only [groupGo] at hg
    split at hg
    · exact ih _ _ g hg
    · rcases List.mem_cons.mp hg with rfl | hg
      · exact ⟨prev, n, rfl⟩
      · exact ih _ _ g hg

/-! ## counts, sort, folds -/

theorem counts_spec (l : List Int) :
    (counts l).map (·.1) = uniquify l ∧ ∀ p ∈ counts l, p.2 = l.count p.1 := by
  refine ⟨by simp [counts, List.map_map, Function.comp_def], ?_⟩
  intro p hp
  simp only [counts, List.mem_map] at hp
  obtain ⟨x, _, rfl⟩ := hp
  rfl

/-- sort is the ordered permutation -/
theorem sort_sorted_perm (l : List Int) : (vySort l).Pairwise (· ≤ ·) ∧ (vySort l).Perm l := by
  refine ⟨?_, List.mergeSort_perm l _⟩
  have := List.pairwise_mergeSort (le := fun a b => decide (a ≤ b))
    (by intro a b c hab hbc; simp only [decide_eq_true_eq] at *; omega)
    (by intro a b; simp only [Bool.or_eq_true, decide_eq_true_eq]; omega) l
  simpa [vySort] using this

theorem sum_append (a b : List Int) : vySum (a ++ b) = vySum a + vySum b := by
  have h : ∀ (l : List Int) (x : Int), l.foldl (· + ·) x = x + l.foldl (· + ·) 0 := by
    intro l
    induction l with
    | nil => intro x; simp
    | cons y ys ih => intro x; simp only [List.foldl_cons]; rw [ih (x + y), ih (0 + y)]; omega
  simp only [vySum, List.foldl_append]
  rw [h b]

theorem sum_reverse (l : List Int) : vySum l.reverse = vySum l := by
  induction l with
  | nil => rfl
  | cons x xs ih =>
    rw [List.reverse_cons, sum_append, ih]
    have : vySum (x :: xs) = vySum [x] + vySum xs := by
      rw [← sum_append]; rfl
    rw [this]; omega

/-- the product is the fold from 1 — for every non-empty list (F30, known finding: the empty product is 0) -/
theorem product_fold_partial (l : List Int) (h : l ≠ []) : vyProduct l = l.foldl (· * ·) 1 := by
  cases l with
  | nil => exact absurd rfl h
  | cons x xs => simp [vyProduct]

theorem product_empty_counterexample : vyProduct [] ≠ ([] : List Int).foldl (· * ·) 1 := by decide

example : uniquify [3, 1, 3, 2, 1] = [3, 1, 2] ∧ cumulativeSum [1, 2, 3] = [1, 3, 6] ∧ deltas [1, 3, 6] = [2, 3]
    ∧ groupConsecutive [1, 1, 2, 1] = [[1, 1], [2], [1]] ∧ wrapK [1, 2, 3, 4, 5] 2 = [[1, 2], [3, 4], [5]] := by decide

/-! ## powerset and permutations -/

theorem powerset_snoc (l : List Int) (e : Int) : powerset (l ++ [e]) = powerset l ++ (powerset l).map (· ++ [e]) := by
  simp [powerset, List.foldl_append]

/-- the doubling loop of `ṗ` is `List.sublists` -/
theorem powerset_eq_sublists (l : List Int) : powerset l = l.sublists := by
  induction l using List.reverseRecOn with
  | nil => rfl
  | append_singleton l e ih => rw [powerset_snoc, ih, List.sublists_concat]

/-- **powerset**: exactly the sub-sequences, `2^n` of them, without repetition when the list has none -/
theorem powerset_spec (l : List Int) :
    (∀ s, s ∈ powerset l ↔ s.Sublist l) ∧ (powerset l).length = 2 ^ l.length ∧ (l.Nodup → (powerset l).Nodup) := by
  rw [powerset_eq_sublists]
  exact ⟨fun s => List.mem_sublists, List.length_sublists l, fun h => List.nodup_sublists.mpr h⟩

theorem eraseIdx_perm (l : List Int) (i : Nat) (hi : i < l.length) : (l.getD i 0 :: l.eraseIdx i).Perm l := by
  induction l generalizing i with
  | nil => simp at hi
  | cons a t ih =>
    cases i with
    | zero => simp
    | succ i =>
      have hi' : i < t.length := by simpa using hi
      have := ih i hi'
      simp only [List.getD_cons_succ, List.eraseIdx_cons_succ]
      exact (List.Perm.swap _ _ _).trans (this.cons a)

theorem permsFuel_spec : ∀ (n : Nat) (l : List Int), l.length = n →
    (permsFuel n l).length = n.factorial ∧ ∀ p ∈ permsFuel n l, p.Perm l
  | 0, l, h => by
      have : l = [] := List.eq_nil_of_length_eq_zero h
      subst this; simp [permsFuel]
  | n + 1, l, h => by
      have ih : ∀ i < l.length, (permsFuel n (l.eraseIdx i)).length = n.factorial ∧ ∀ p ∈ permsFuel n (l.eraseIdx i), p.Perm (l.eraseIdx i) := by
        intro i hi
        exact permsFuel_spec n (l.eraseIdx i) (by rw [List.length_eraseIdx]; simp [hi]; omega)
      constructor
      · simp only [permsFuel, List.length_flatMap, List.length_map]
        have : ((List.range l.length).map (fun i => (permsFuel n (l.eraseIdx i)).length)) = List.replicate l.length n.factorial := by
          apply List.ext_getElem
          · simp
          · intro k h1 h2
            simp only [List.getElem_map, List.getElem_range, List.getElem_replicate]
            exact (ih k (by simpa using h1)).1
        rw [this]
        simp [h, Nat.factorial_succ]
      · intro p hp
        simp only [permsFuel, List.mem_flatMap, List.mem_range, List.mem_map] at hp
        obtain ⟨i, hi, q, hq, rfl⟩ := hp
        exact ((ih i hi).2 q hq).cons _ |>.trans (eraseIdx_perm l i hi)

/-- **permutations**: `n!` lists, each a rearrangement of the argument -/
theorem permutations_spec (l : List Int) :
    (permutations l).length = l.length.factorial ∧ ∀ p ∈ permutations l, p.Perm l :=
  permsFuel_spec l.length l rfl

/-! ## sublists (`ÞS`): exactly the non-empty contiguous pieces -/

theorem suffixesNE_mem (l s : List Int) : s ∈ suffixesNE l ↔ s ≠ [] ∧ s <:+ l := by
  induction l with
  | nil => simp [suffixesNE]
  | cons x xs ih =>
    simp only [suffixesNE, List.mem_cons, ih, List.suffix_cons_iff]
    constructor
    · rintro (rfl | ⟨h1, h2⟩)
      · exact ⟨by simp, Or.inl rfl⟩
      · exact ⟨h1, Or.inr h2⟩
    · rintro ⟨h1, rfl | h2⟩
      · exact Or.inl rfl
      · exact Or.inr ⟨h1, h2⟩

theorem suffixesNE_length (l : List Int) : (suffixesNE l).length = l.length := by
  induction l with
  | nil => rfl
  | cons x xs ih => simp [suffixesNE, ih]

theorem prefixes_mem (l p : List Int) : p ∈ prefixes l ↔ p ≠ [] ∧ p <+: l := by
  constructor
  · intro h
    obtain ⟨i, hi0, rfl⟩ := List.getElem_of_mem h
    have hi : i < l.length := by rw [prefixes_length] at hi0; exact hi0
    have := prefixes_spec l i hi
    rw [List.getElem?_eq_getElem hi0] at this
    injection this with this
    rw [this]
    refine ⟨?_, List.take_prefix _ _⟩
    intro he
    have hz : (l.take (i + 1)).length = 0 := by rw [he]; rfl
    rw [List.length_take] at hz; omega
  · rintro ⟨hne, hp⟩
    have hlen : p.length ≤ l.length := hp.length_le
    have hpos : 0 < p.length := List.length_pos_iff.mpr hne
    have h1 : p.length - 1 < l.length := by omega
    have := prefixes_spec l (p.length - 1) h1
    have e : p.length - 1 + 1 = p.length := by omega
    rw [e, ← List.prefix_iff_eq_take.mp hp] at this
    exact List.mem_of_getElem? this

/-- **sublists** yields exactly the non-empty contiguous pieces of the list -/
theorem contiguous_mem (l s : List Int) : s ∈ contiguous l ↔ s ≠ [] ∧ s <:+: l := by
  simp only [contiguous, List.mem_flatMap, prefixes_mem, suffixesNE_mem]
  constructor
  · rintro ⟨p, ⟨_, hp⟩, hs, hsp⟩
    exact ⟨hs, List.infix_iff_suffix_prefix.mpr ⟨p, hsp, hp⟩⟩
  · rintro ⟨hs, hi⟩
    obtain ⟨p, hsp, hp⟩ := List.infix_iff_suffix_prefix.mp hi
    refine ⟨p, ⟨?_, hp⟩, hs, hsp⟩
    intro he; subst he
    exact hs (List.suffix_nil.mp hsp)

theorem contiguousGo_length (acc l : List Int) :
    2 * ((prefixesGo acc l).flatMap suffixesNE).length = l.length * (2 * acc.length + l.length + 1) := by
  induction l generalizing acc with
  | nil => simp [prefixesGo]
  | cons x xs ih =>
    simp only [prefixesGo, List.flatMap_cons, List.length_append, suffixesNE_length, List.length_cons, List.length_nil]
    have := ih (acc ++ [x])
    simp only [List.length_append, List.length_cons, List.length_nil] at this
    rw [Nat.mul_add, this]
    ring

/-- … `n (n + 1) / 2` of them -/
theorem contiguous_length (l : List Int) : 2 * (contiguous l).length = l.length * (l.length + 1) := by
  have := contiguousGo_length [] l
  simpa [contiguous, prefixes] using this

/-! ## overlapping groups (`l`): the windows of length `k`, in order -/

theorem windowsGo_spec (k : Nat) (l : List Int) : ∀ (w : List Int), w.length < k →
    windowsGo k w l = (List.range (w.length + l.length + 1 - k)).map (fun i => ((w ++ l).drop i).take k) := by
  induction l with
  | nil =>
    intro w hw
    have : w.length + 0 + 1 - k = 0 := by omega
    simp [windowsGo, this]
  | cons x xs ih =>
    intro w hw
    simp only [windowsGo]
    by_cases hk : (w ++ [x]).length = k
    · rw [if_pos hk]
      have hwl : w.length + 1 = k := by simpa using hk
      have htl : (w ++ [x]).tail.length < k := by simp; omega
      rw [ih _ htl]
      have hcnt : w.length + (x :: xs).length + 1 - k = xs.length + 1 := by simp; omega
      have hcnt' : (w ++ [x]).tail.length + xs.length + 1 - k = xs.length := by simp; omega
      rw [hcnt, hcnt', List.range_succ_eq_map, List.map_cons, List.map_map]
      congr 1
      · have : w ++ x :: xs = (w ++ [x]) ++ xs := by simp
        rw [List.drop_zero, this, List.take_left' hk]
      · apply List.map_congr_left
        intro i _
        have : w ++ x :: xs = (w ++ [x]) ++ xs := by simp
        simp only [Function.comp, this]
        cases hwx : w ++ [x] with
        | nil => simp at hwx
        | cons a as => simp
    · rw [if_neg hk]
      have hlt : (w ++ [x]).length < k := by
        have : (w ++ [x]).length = w.length + 1 := by simp
        omega
      rw [ih _ hlt]
      have hcnt : (w ++ [x]).length + xs.length + 1 - k = w.length + (x :: xs).length + 1 - k := by simp; omega
      rw [hcnt]
      simp

/-- **overlapping groups**: for `0 < k`, window `i` is `take k (drop i l)`, and there are `n + 1 - k` of them (none when `k > n`) -/
theorem windows_spec (l : List Int) (k : Int) (hk : 0 < k) :
    windows l k = (List.range (l.length + 1 - k.toNat)).map (fun i => (l.drop i).take k.toNat) := by
  have h1 : ¬ k ≤ 0 := by omega
  have h2 : ([] : List Int).length < k.toNat := by simp; omega
  simp only [windows, if_neg h1]
  rw [windowsGo_spec k.toNat l [] h2]
  simp

theorem windows_nonpositive (l : List Int) (k : Int) (hk : k ≤ 0) : windows l k = [] := by simp [windows, hk]

/-! ## run-length encoding / decoding -/

theorem rleGo_decode (prev : Int) (n : Nat) (l : List Int) : rld (rleGo prev n l) = List.replicate n prev ++ l := by
  induction l generalizing prev n with
  | nil => simp [rleGo, rld]
  | cons x xs ih =>
    simp only [rleGo]
    split
    · rename_i h; subst h
      rw [ih]; simp [List.replicate_succ', List.append_assoc]
    · have := ih x 1
      simp only [rld, List.flatMap_cons] at this ⊢
      rw [this]; simp [List.replicate]

/-- **decoding the run-length encoding gives the list back** -/
theorem rld_rle (l : List Int) : rld (rle l) = l := by
  cases l with
  | nil => rfl
  | cons x xs => simp [rle, rleGo_decode, List.replicate]

/-- a run list as the encoder produces it: positive counts, neighbouring keys different -/
def RunsOK : List (Int × Nat) → Prop
  | [] => True
  | [p] => 0 < p.2
  | p :: q :: rest => 0 < p.2 ∧ p.1 ≠ q.1 ∧ RunsOK (q :: rest)

theorem rleGo_runs (prev : Int) (n : Nat) (hn : 0 < n) (l : List Int) :
    RunsOK (rleGo prev n l) ∧ ((rleGo prev n l).head?.map (·.1)) = some prev := by
  induction l generalizing prev n with
  | nil => simp [rleGo, RunsOK, hn]
  | cons x xs ih =>
    simp only [rleGo]
    split
    · exact ih prev (n + 1) (by omega)
    · rename_i hne
      obtain ⟨h1, h2⟩ := ih x 1 (by omega)
      refine ⟨?_, by simp⟩
      cases hr : rleGo x 1 xs with
      | nil => simp [hr] at h2
      | cons q rest =>
        rw [hr] at h1 h2
        simp at h2
        exact ⟨hn, by rw [h2]; exact fun e => hne e.symm, h1⟩

/-- the encoder's output consists of maximal runs -/
theorem rle_runs (l : List Int) : RunsOK (rle l) := by
  cases l with
  | nil => trivial
  | cons x xs => exact (rleGo_runs x 1 (by omega) xs).1

theorem rleGo_replicate_append (prev : Int) (n m : Nat) (l : List Int) :
    rleGo prev n (List.replicate m prev ++ l) = rleGo prev (n + m) l := by
  induction m generalizing n with
  | zero => simp
  | succ m ih =>
    simp only [List.replicate_succ, List.cons_append, rleGo, if_true]
    rw [ih]; congr 1; omega

/-- **encoding the decoding of a run list gives the run list back** (so the two are inverse bijections between lists and run lists) -/
theorem rle_rld : ∀ (ps : List (Int × Nat)), RunsOK ps → rle (rld ps) = ps
  | [], _ => rfl
  | [p], h => by
      obtain ⟨v, c⟩ := p
      have hc : 0 < c := h
      obtain ⟨c', rfl⟩ : ∃ c', c = c' + 1 := ⟨c - 1, by omega⟩
      have := rleGo_replicate_append v 1 c' []
      simp only [List.append_nil] at this
      simp [rld, List.replicate_succ, rle, this, rleGo, Nat.add_comm]
  | p :: q :: rest, h => by
      obtain ⟨v, c⟩ := p
      obtain ⟨hc, hne, hrest⟩ := h
      have hc : 0 < c := hc
      obtain ⟨c', rfl⟩ : ∃ c', c = c' + 1 := ⟨c - 1, by omega⟩
      have ih := rle_rld (q :: rest) hrest
      obtain ⟨w, d⟩ := q
      have hd : 0 < d := by
        cases rest with
        | nil => exact hrest
        | cons _ _ => exact hrest.1
      obtain ⟨d', rfl⟩ : ∃ d', d = d' + 1 := ⟨d - 1, by omega⟩
      have hne : v ≠ w := hne
      simp only [rld, List.flatMap_cons, List.replicate_succ, List.cons_append, rle] at ih ⊢
      rw [rleGo_replicate_append]
      simp only [rleGo, if_neg (Ne.symm hne)]
      rw [ih, Nat.add_comm]

/-- non-vacuity: `aabccc` -/
example : rle [97, 97, 98, 99, 99, 99] = [(97, 2), (98, 1), (99, 3)] ∧ RunsOK [(97, 2), (98, 1), (99, 3)]
    ∧ windows [1, 2, 3, 4] 2 = [[1, 2], [2, 3], [3, 4]] ∧ contiguous [1, 2, 3] = [[1], [1, 2], [2], [1, 2, 3], [2, 3], [3]] := by
  refine ⟨by decide, by simp [RunsOK], by decide, by decide⟩

/-! ## cartesian product (`Ẋ`): the diagonal walk yields every pair exactly once, diagonal by diagonal -/

/-- **the walk's output, diagonal by diagonal** (lists: `lm0 = |l| - 1`, `rm0 = |r| - 1`; lazy lists: `0`) -/
theorem cartesian_diagonals (l r : List Int) (hl : l ≠ []) (hr : r ≠ []) (lm0 rm0 : Nat)
    (h1 : MaxOK l.length lm0) (h2 : MaxOK r.length rm0) :
    cartesian l r lm0 rm0 = (List.range (l.length + r.length - 1)).flatMap (diagPairs l r) := by
  have hl' : 0 < l.length := List.length_pos_iff.mpr hl
  simp only [cartesian, hl, hr, or_self, if_false]
  exact cpOuter_spec l r hl hr _ 0 lm0 rm0 [] (by omega) (by omega) h1 h2 (by simp)

theorem cartesian_empty (l r : List Int) (lm0 rm0 : Nat) (h : l = [] ∨ r = []) : cartesian l r lm0 rm0 = [] := by
  simp [cartesian, h]

/-- the initial values the element uses satisfy the walk's invariant -/
theorem cartesian_initial_ok (l : List Int) : MaxOK l.length (l.length - 1) ∧ MaxOK l.length 0 :=
  ⟨Or.inr (by omega), Or.inl rfl⟩

/-- index pairs of diagonal `d` -/
def diagIdx (n m d : Nat) : List (Nat × Nat) :=
  ((List.range (d + 1)).filter (fun i => decide (i < n) && decide (d - i < m))).map (fun i => (i, d - i))

theorem mem_diagIdx (n m d : Nat) (p : Nat × Nat) : p ∈ diagIdx n m d ↔ p.1 < n ∧ p.2 < m ∧ p.1 + p.2 = d := by
  obtain ⟨i, j⟩ := p
  simp only [diagIdx, List.mem_map, List.mem_filter, List.mem_range, Bool.and_eq_true, decide_eq_true_eq, Prod.mk.injEq]
  constructor
  · rintro ⟨i', ⟨h1, h2, h3⟩, rfl, rfl⟩
    exact ⟨h2, h3, by omega⟩
  · rintro ⟨h1, h2, h3⟩
    exact ⟨i, ⟨by omega, h1, by omega⟩, rfl, by omega⟩

theorem diagIdx_nodup (n m d : Nat) : (diagIdx n m d).Nodup := by
  apply List.Nodup.map_on
  · intro x _ y _ h; exact (Prod.mk.inj h).1
  · exact List.Nodup.filter _ List.nodup_range

theorem diagIdx_perm (n m : Nat) :
    ((List.range (n + m - 1)).flatMap (diagIdx n m)).Perm ((List.range n) ×ˢ (List.range m)) := by
  rw [List.perm_ext_iff_of_nodup]
  · rintro ⟨i, j⟩
    simp only [List.mem_flatMap, List.mem_range, mem_diagIdx, List.mem_product]
    constructor
    · rintro ⟨d, _, h1, h2, _⟩; exact ⟨h1, h2⟩
    · rintro ⟨h1, h2⟩; exact ⟨i + j, by omega, h1, h2, rfl⟩
  · rw [List.nodup_flatMap]
    refine ⟨fun d _ => diagIdx_nodup n m d, ?_⟩
    apply List.Pairwise.imp_of_mem (R := fun a b => a ≠ b)
    · intro a b _ _ hab
      simp only [Function.onFun]
      intro p ha hb
      rw [mem_diagIdx] at ha hb
      omega
    · exact List.nodup_range
  · exact List.Nodup.product List.nodup_range List.nodup_range

theorem map_product {α β γ δ} (f : α → γ) (g : β → δ) (a : List α) (b : List β) :
    (a ×ˢ b).map (Prod.map f g) = (a.map f) ×ˢ (b.map g) := by
  induction a with
  | nil => simp
  | cons x xs ih => simp [List.product_cons, ih, List.map_map, Function.comp_def]

theorem range_map_getD (l : List Int) : (List.range l.length).map (fun i => l.getD i 0) = l := by
  apply List.ext_getElem
  · simp
  · intro i h1 h2; simp [List.getD_eq_getElem?_getD, List.getElem?_eq_getElem h2]

theorem diagPairs_eq_map (l r : List Int) (d : Nat) :
    diagPairs l r d = (diagIdx l.length r.length d).map (Prod.map (fun i => l.getD i 0) (fun j => r.getD j 0)) := by
  simp only [diagPairs, diagIdx, List.map_map]
  rfl

/-- **cartesian product**: a rearrangement of all the pairs `(a, b)`, `a` from the left list and `b` from the right —
    every pair of positions exactly once -/
theorem cartesian_perm (l r : List Int) (lm0 rm0 : Nat) (h1 : MaxOK l.length lm0) (h2 : MaxOK r.length rm0) :
    (cartesian l r lm0 rm0).Perm (l ×ˢ r) := by
  by_cases hl : l = []
  · subst hl; simp [cartesian]
  by_cases hr : r = []
  · subst hr; simp [cartesian]
  rw [cartesian_diagonals l r hl hr lm0 rm0 h1 h2]
  have e : (List.range (l.length + r.length - 1)).flatMap (diagPairs l r)
      = ((List.range (l.length + r.length - 1)).flatMap (diagIdx l.length r.length)).map
          (Prod.map (fun i => l.getD i 0) (fun j => r.getD j 0)) := by
    rw [List.map_flatMap]
    congr 1
    funext d
    exact diagPairs_eq_map l r d
  rw [e]
  have := (diagIdx_perm l.length r.length).map (Prod.map (fun i => l.getD i 0) (fun j => r.getD j 0))
  rw [map_product, range_map_getD, range_map_getD] at this
  exact this

theorem cartesian_length (l r : List Int) (lm0 rm0 : Nat) (h1 : MaxOK l.length lm0) (h2 : MaxOK r.length rm0) :
    (cartesian l r lm0 rm0).length = l.length * r.length := by
  rw [(cartesian_perm l r lm0 rm0 h1 h2).length_eq, List.length_product]

/-- the order: pairs come by increasing index sum, and within one sum by increasing left index -/
example : cartesian [1, 2, 3] [10, 20] 2 1 = [(1, 10), (1, 20), (2, 10), (2, 20), (3, 10), (3, 20)] ∧
    cartesian [1, 2, 3] [10] 0 0 = [(1, 10), (2, 10), (3, 10)] := by decide


/-! ## grading, flatten -/

/-- **grade up**: a rearrangement of the positions `0 … n-1`, items non-decreasing along it, equal items in their original
    order (that is: sorted by (item, position), which determines the answer uniquely) -/
theorem gradeUp_spec (l : List Int) :
    (gradeUp l).Perm (List.range l.length) ∧
    (gradeUp l).Pairwise (fun i j => l.getD i 0 < l.getD j 0 ∨ (l.getD i 0 = l.getD j 0 ∧ i ≤ j)) := by
  refine ⟨List.mergeSort_perm _ _, ?_⟩
  have := List.pairwise_mergeSort (le := gradeLe l)
    (by intro a b c hab hbc; simp only [gradeLe, Bool.or_eq_true, Bool.and_eq_true, decide_eq_true_eq] at *; omega)
    (by intro a b; simp only [gradeLe, Bool.or_eq_true, Bool.and_eq_true, decide_eq_true_eq]; omega) (List.range l.length)
  simpa [gradeUp, gradeLe] using this

theorem gradeUp_sorted (l : List Int) : ((gradeUp l).map (fun i => l.getD i 0)).Pairwise (· ≤ ·) := by
  rw [List.pairwise_map]
  exact (gradeUp_spec l).2.imp (by intro a b h; omega)

/-- **grade down**: items non-increasing, equal items in their original order -/
theorem gradeDown_spec (l : List Int) :
    (gradeDown l).Perm (List.range l.length) ∧
    (gradeDown l).Pairwise (fun i j => l.getD j 0 < l.getD i 0 ∨ (l.getD i 0 = l.getD j 0 ∧ i ≤ j)) := by
  refine ⟨List.mergeSort_perm _ _, ?_⟩
  have := List.pairwise_mergeSort (le := gradeGe l)
    (by intro a b c hab hbc; simp only [gradeGe, Bool.or_eq_true, Bool.and_eq_true, decide_eq_true_eq] at *; omega)
    (by intro a b; simp only [gradeGe, Bool.or_eq_true, Bool.and_eq_true, decide_eq_true_eq]; omega) (List.range l.length)
  simpa [gradeDown, gradeGe] using this

theorem flattenL_append (a b : List T) : flattenL (a ++ b) = flattenL a ++ flattenL b := by
  induction a with
  | nil => simp [flattenL]
  | cons t ts ih => simp [flattenL, ih, List.append_assoc]

/-- **flatten** of a list of plain items is that list … -/
theorem flatten_flat (l : List Int) : flattenT (.node (l.map T.leaf)) = l := by
  simp only [flattenT]
  induction l with
  | nil => rfl
  | cons x xs ih => simp [flattenL, flattenT, ih]

/-- … so flattening twice is flattening once (the leaves, left to right) -/
theorem flatten_idempotent (t : T) : flattenT (.node ((flattenT t).map T.leaf)) = flattenT t := flatten_flat _

example : flattenT (.node [.leaf 1, .node [.leaf 2, .node []], .leaf 3]) = [1, 2, 3] := by decide
/-- (merge sort is defined by well-founded recursion, which the kernel does not unfold: the concrete values
    `gradeUp [3, 1, 3, 2] = [1, 3, 0, 2]`, `gradeDown … = [0, 2, 3, 1]` are checked by the driver against the element) -/
example : (gradeUp [3, 1, 3, 2]).length = 4 := by simp [gradeUp]

/-! ## zip, transpose -/

theorem zipLongest_length : ∀ (a b : List Int), (zipLongest a b).length = max a.length b.length
  | [], bs => by simp [zipLongest]
  | a :: as, [] => by simp [zipLongest, zipLongest_length as []]
  | a :: as, b :: bs => by simp [zipLongest, zipLongest_length as bs] <;> omega

/-- **zip**: item `i` pairs item `i` of both lists, `0` standing in for a list that has ended -/
theorem zipLongest_get : ∀ (a b : List Int) (i : Nat), i < max a.length b.length →
    (zipLongest a b)[i]? = some (a.getD i 0, b.getD i 0)
  | [], bs, i, h => by
      have hi : i < bs.length := by simpa using h
      simp [zipLongest, List.getElem?_map, List.getElem?_eq_getElem hi, List.getD_eq_getElem?_getD]
  | a :: as, [], i, h => by
      cases i with
      | zero => simp [zipLongest]
      | succ i =>
        have := zipLongest_get as [] i (by simp at h ⊢; omega)
        simpa [zipLongest] using this
  | a :: as, b :: bs, i, h => by
      cases i with
      | zero => simp [zipLongest]
      | succ i =>
        have := zipLongest_get as bs i (by simp at h ⊢; omega)
        simpa [zipLongest] using this

theorem foldl_max_le (m : List (List Int)) : ∀ (k0 : Nat) (r : List Int), r ∈ m → r.length ≤ m.foldl (fun k r => max k r.length) k0 := by
  induction m with
  | nil => intro k0 r h; simp at h
  | cons x xs ih =>
    intro k0 r h
    have mono : ∀ (l : List (List Int)) (a : Nat), a ≤ l.foldl (fun k r => max k r.length) a := by
      intro l; induction l with
      | nil => intro a; simp
      | cons y ys ihy => intro a; simp only [List.foldl_cons]; exact Nat.le_trans (Nat.le_max_left _ _) (ihy _)
    simp only [List.foldl_cons]
    rcases List.mem_cons.mp h with rfl | h
    · exact Nat.le_trans (Nat.le_max_right _ _) (mono xs _)
    · exact ih _ r h

theorem foldl_max_const (m : List (List Int)) (k : Nat) (h : ∀ r ∈ m, r.length = k) (hm : m ≠ []) :
    m.foldl (fun a r => max a r.length) 0 = k := by
  have gen : ∀ (l : List (List Int)) (a : Nat), (∀ r ∈ l, r.length = k) → a ≤ k → l ≠ [] → l.foldl (fun a r => max a r.length) a = k := by
    intro l
    induction l with
    | nil => intro a _ _ hne; exact absurd rfl hne
    | cons x xs ih =>
      intro a hl ha _
      simp only [List.foldl_cons]
      have hx : x.length = k := hl x (by simp)
      by_cases hxs : xs = []
      · subst hxs; simp [hx]; omega
      · exact ih _ (fun r hr => hl r (by simp [hr])) (by rw [hx]; omega) hxs
  exact gen m 0 h (Nat.zero_le _) hm

/-- **transpose**: as many columns as the longest row; column `i` is item `i` of every row that has one, in row order -/
theorem transposeR_spec (m : List (List Int)) :
    (transposeR m).length = m.foldl (fun k r => max k r.length) 0 ∧
    ∀ i, i < (transposeR m).length → (transposeR m)[i]? = some (m.filterMap (fun r => r[i]?)) := by
  refine ⟨by simp [transposeR], ?_⟩
  intro i hi
  simp only [transposeR, List.length_map, List.length_range] at hi
  simp [transposeR, hi]

/-- on a rectangular matrix (every row of length `k > 0`) transposing twice gives the matrix back -/
theorem transposeR_involutive (m : List (List Int)) (k : Nat) (hk : 0 < k) (hm : m ≠ []) (h : ∀ r ∈ m, r.length = k) :
    transposeR (transposeR m) = m := by
  have h1 : m.foldl (fun a r => max a r.length) 0 = k := foldl_max_const m k h hm
  have hcol : ∀ i, i < k → m.filterMap (fun r => r[i]?) = m.map (fun r => r.getD i 0) := by
    intro i hi
    rw [← List.filterMap_eq_map]
    apply List.filterMap_congr
    intro r hr
    have : i < r.length := by rw [h r hr]; exact hi
    simp [List.getD_eq_getElem?_getD, List.getElem?_eq_getElem this]
  have ht : transposeR m = (List.range k).map (fun i => m.map (fun r => r.getD i 0)) := by
    simp only [transposeR, h1]
    apply List.map_congr_left
    intro i hi
    exact hcol i (List.mem_range.mp hi)
  have hrows : ∀ c ∈ transposeR m, c.length = m.length := by
    intro c hc; rw [ht] at hc; simp only [List.mem_map] at hc; obtain ⟨i, _, rfl⟩ := hc; simp
  have hne : transposeR m ≠ [] := by
    rw [ht]; intro he
    have := congrArg List.length he
    simp at this; omega
  have hmlen : 0 < m.length := List.length_pos_iff.mpr hm
  have h2 : (transposeR m).foldl (fun a r => max a r.length) 0 = m.length := foldl_max_const _ _ hrows hne
  apply List.ext_getElem
  · rw [(transposeR_spec (transposeR m)).1, h2]
  · intro j hj1 hj2
    have e : (transposeR (transposeR m))[j] = (transposeR m).filterMap (fun c => c[j]?) := by
      have := (transposeR_spec (transposeR m)).2 j hj1
      rw [List.getElem?_eq_getElem hj1] at this
      exact Option.some.inj this
    rw [e, ht, List.filterMap_map]
    have : ∀ i ∈ List.range k, ((fun c : List Int => c[j]?) ∘ fun i => m.map (fun r => r.getD i 0)) i = some (m[j].getD i 0) := by
      intro i _; simp [List.getElem?_map, List.getElem?_eq_getElem hj2]
    rw [List.filterMap_congr this, List.filterMap_eq_map']
    apply List.ext_getElem
    · simp [h m[j] (List.getElem_mem hj2)]
    · intro a ha1 ha2
      simp [List.getD_eq_getElem?_getD, List.getElem?_eq_getElem ha2]

example : transposeR [[1, 2, 3], [4], [5, 6]] = [[1, 4, 5], [2, 6], [3]] ∧ zipLongest [1, 2, 3] [7] = [(1, 7), (2, 0), (3, 0)] := by decide

/-! ## interleave, any two lengths -/

/-- **interleave**: nothing is lost or invented, whatever the two lengths (the seeded change `interleave_zip_drops_item` loses one
    item when the second list is longer), and each list keeps its own order inside the result -/
theorem interleave_perm : ∀ (a b : List Int), (interleave a b).Perm (a ++ b)
  | [], bs => by simp [interleave]
  | a :: as, [] => by simp [interleave]
  | a :: as, b :: bs => by
      have ih := interleave_perm as bs
      simp only [interleave, List.cons_append]
      refine List.Perm.cons a ?_
      exact (List.Perm.cons b ih).trans (List.perm_middle.symm)

theorem interleave_sublists : ∀ (a b : List Int), a.Sublist (interleave a b) ∧ b.Sublist (interleave a b)
  | [], bs => by simp [interleave]
  | a :: as, [] => by simp [interleave]
  | a :: as, b :: bs => by
      obtain ⟨h1, h2⟩ := interleave_sublists as bs
      simp only [interleave]
      exact ⟨(h1.cons b).cons₂ a, (h2.cons₂ b).cons a⟩

/-- position by position: while both lists last, item `2i` is `a[i]` and item `2i+1` is `b[i]` -/
theorem interleave_get : ∀ (a b : List Int) (i : Nat), i < a.length → i < b.length →
    (interleave a b)[2 * i]? = a[i]? ∧ (interleave a b)[2 * i + 1]? = b[i]?
  | [], _, i, h, _ => by simp at h
  | _ :: _, [], i, _, h => by simp at h
  | a :: as, b :: bs, i, ha, hb => by
      cases i with
      | zero => simp [interleave]
      | succ i =>
        have := interleave_get as bs i (by simpa using ha) (by simpa using hb)
        have e1 : 2 * (i + 1) = 2 * i + 1 + 1 := by omega
        have e2 : 2 * (i + 1) + 1 = 2 * i + 1 + 1 + 1 := by omega
        simp only [interleave, e1, e2, List.getElem?_cons_succ]
        exact this

/-! ## maximum / minimum (`G` / `g`: of the leaves, by a left fold with `<`) -/

theorem foldl_max_spec (xs : List Int) : ∀ (x : Int),
    (xs.foldl (fun a b => if a < b then b else a) x ∈ x :: xs) ∧ ∀ y ∈ x :: xs, y ≤ xs.foldl (fun a b => if a < b then b else a) x := by
  induction xs with
  | nil => intro x; simp
  | cons z zs ih =>
    intro x
    simp only [List.foldl_cons]
    obtain ⟨hm, hle⟩ := ih (if x < z then z else x)
    constructor
    · rcases List.mem_cons.mp hm with h | h
      · rw [h]; split <;> simp
      · simp [h]
    · intro y hy
      have h0 := hle (if x < z then z else x) (by simp)
      rcases List.mem_cons.mp hy with rfl | hy
      · have : y ≤ (if y < z then z else y) := by split <;> omega
        omega
      · rcases List.mem_cons.mp hy with rfl | hy
        · have : y ≤ (if x < y then y else x) := by split <;> omega
          omega
        · exact hle y (by simp [hy])

theorem foldl_min_spec (xs : List Int) : ∀ (x : Int),
    (xs.foldl (fun a b => if b < a then b else a) x ∈ x :: xs) ∧ ∀ y ∈ x :: xs, xs.foldl (fun a b => if b < a then b else a) x ≤ y := by
  induction xs with
  | nil => intro x; simp
  | cons z zs ih =>
    intro x
    simp only [List.foldl_cons]
    obtain ⟨hm, hle⟩ := ih (if z < x then z else x)
    constructor
    · rcases List.mem_cons.mp hm with h | h
      · rw [h]; split <;> simp
      · simp [h]
    · intro y hy
      have h0 := hle (if z < x then z else x) (by simp)
      rcases List.mem_cons.mp hy with rfl | hy
      · have : (if z < y then z else y) ≤ y := by split <;> omega
        omega
      · rcases List.mem_cons.mp hy with rfl | hy
        · have : (if y < x then y else x) ≤ y := by split <;> omega
          omega
        · exact hle y (by simp [hy])

/-- **maximum**: one of the leaves, and no leaf is greater; no leaves, no maximum -/
theorem max_spec (t : T) : (vyMax t = none ↔ flattenT t = []) ∧ ∀ m, vyMax t = some m → m ∈ flattenT t ∧ ∀ y ∈ flattenT t, y ≤ m := by
  unfold vyMax
  cases h : flattenT t with
  | nil => simp [maxFold]
  | cons x xs =>
    refine ⟨by simp [maxFold], ?_⟩
    intro m hm
    simp only [maxFold, Option.some.injEq] at hm
    subst hm
    exact foldl_max_spec xs x

theorem min_spec (t : T) : (vyMin t = none ↔ flattenT t = []) ∧ ∀ m, vyMin t = some m → m ∈ flattenT t ∧ ∀ y ∈ flattenT t, m ≤ y := by
  unfold vyMin
  cases h : flattenT t with
  | nil => simp [minFold]
  | cons x xs =>
    refine ⟨by simp [minFold], ?_⟩
    intro m hm
    simp only [minFold, Option.some.injEq] at hm
    subst hm
    exact foldl_min_spec xs x

example : vyMax (.node [.leaf 3, .node [.leaf (-7), .leaf 9], .leaf 9]) = some 9 ∧ vyMin (.node [.leaf 3, .node [.leaf (-7)]]) = some (-7)
    ∧ vyMax (.node [.node []]) = none := by decide

/-! ## consequences: idempotence, uniqueness of the sorted permutation, last prefix / last cumulative sum -/

/-- on a list without repeats (in particular on its own result) uniquify is the identity -/
theorem uniqGo_of_nodup (l seen : List Int) (hn : l.Nodup) (hd : ∀ x ∈ l, x ∉ seen) : uniqGo l seen = l := by
  induction l generalizing seen with
  | nil => rfl
  | cons x xs ih =>
    have hx : x ∉ seen := hd x (by simp)
    have hc : seen.contains x = false := by simpa using hx
    rw [uniqGo, hc]
    simp only [Bool.false_eq_true, if_false]
    rw [ih (seen ++ [x]) (List.nodup_cons.mp hn).2]
    intro y hy
    have hyx : y ≠ x := by
      intro h; subst h; exact (List.nodup_cons.mp hn).1 hy
    simp only [List.mem_append, List.mem_singleton, not_or]
    exact ⟨hd y (by simp [hy]), hyx⟩

theorem uniquify_of_nodup (l : List Int) (hn : l.Nodup) : uniquify l = l :=
  uniqGo_of_nodup l [] hn (by simp)

theorem uniquify_idempotent (l : List Int) : uniquify (uniquify l) = uniquify l :=
  uniquify_of_nodup _ (uniquify_spec l).1

/-- the ordered permutation is unique, so sorting is idempotent and blind to the order of its argument -/
theorem sort_unique (a b : List Int) (hp : a.Perm b) : vySort a = vySort b := by
  have ha := sort_sorted_perm a
  have hb := sort_sorted_perm b
  exact List.Perm.eq_of_pairwise (le := (· ≤ ·)) (fun x y _ _ h1 h2 => Int.le_antisymm h1 h2) ha.1 hb.1
    (ha.2.trans (hp.trans hb.2.symm))

theorem sort_idempotent (l : List Int) : vySort (vySort l) = vySort l := sort_unique _ _ (sort_sorted_perm l).2
theorem sort_reverse (l : List Int) : vySort l.reverse = vySort l := sort_unique _ _ (List.reverse_perm l)

/-- the last cumulative sum is the sum -/
theorem cumsum_last (l : List Int) (h : l ≠ []) : (cumulativeSum l)[l.length - 1]? = some (vySum l) := by
  have hl : 0 < l.length := List.length_pos_iff.mpr h
  have := cumsum_spec l 0 (l.length - 1) (by omega)
  rw [cumulativeSum, this]
  have e : l.length - 1 + 1 = l.length := by omega
  simp [e, vySum]
/-- the last prefix is the whole list -/
theorem prefixes_last (l : List Int) (h : l ≠ []) : (prefixes l)[l.length - 1]? = some l := by
  have hl : 0 < l.length := List.length_pos_iff.mpr h
  rw [prefixes_spec l (l.length - 1) (by omega)]
  have e : l.length - 1 + 1 = l.length := by omega
  simp [e]
example : uniquify (uniquify [3, 1, 3, 2, 1]) = [3, 1, 2] ∧ (cumulativeSum [1, 2, 3])[2]? = some (vySum [1, 2, 3])
    ∧ (prefixes [4, 5, 6])[2]? = some [4, 5, 6] := by decide

end C16
