import VyxalModel.Model.Online
import VyxalModel.Gen.Sinks
import VyxalModel.Gen.Tries
/-!
# C19 — online mode contains the program

On the effect model, for **every** sequence of printing, evaluating, calling, executing, input-parsing
and failing operations: online there is no host output, no `eval` / `exec` of user text, no exception
reaching the caller, and what is recorded online is exactly what is printed offline.
`sinks_accounted` re-checks the regenerated inventory of every syntactic sink in `vyxal/*.py` and in
the element templates against the audited classification below; `user_text_sinks_guarded` says the
sinks that take user text or write to the host are all dominated by a `ctx.online` test.

That no *other* path reaches a sink (getattr tricks, other modules) rests on the syntactic
inventory (T8) and on the audit-hook runs — partial.
-/
namespace C19
open Onl

theorem online_no_host_output (ops : List Op) : ∀ e ∈ trace true ops, e.isHostPrint = false := by
  intro e he
  simp only [trace, List.mem_flatMap] at he
  obtain ⟨op, _, hop⟩ := he
  cases op <;> simp [effects, vyPrint, vyEval, callString, vyExec, onError] at hop <;>
    (try (rcases hop with rfl | rfl)) <;> (try subst hop) <;> rfl

theorem online_no_user_eval (ops : List Op) : ∀ e ∈ trace true ops, e.isUserCode = false := by
  intro e he
  simp only [trace, List.mem_flatMap] at he
  obtain ⟨op, _, hop⟩ := he
  cases op <;> simp [effects, vyPrint, vyEval, callString, vyExec, onError] at hop <;>
    (try (rcases hop with rfl | rfl)) <;> (try subst hop) <;> rfl

theorem online_errors_are_recorded (ops : List Op) : ∀ e ∈ trace true ops, e.isRaise = false := by
  intro e he
  simp only [trace, List.mem_flatMap] at he
  obtain ⟨op, _, hop⟩ := he
  cases op <;> simp [effects, vyPrint, vyEval, callString, vyExec, onError] at hop <;>
    (try (rcases hop with rfl | rfl)) <;> (try subst hop) <;> rfl

theorem recorded_append (a b : List Eff) : recorded (a ++ b) = recorded a ++ recorded b := by
  induction a with
  | nil => rfl
  | cons e r ih => cases e <;> simp [recorded, ih]

theorem hostPrinted_append (a b : List Eff) : hostPrinted (a ++ b) = hostPrinted a ++ hostPrinted b := by
  induction a with
  | nil => rfl
  | cons e r ih => cases e <;> simp [hostPrinted, ih]

/-- everything the program prints is collected in the output record, in the same order as offline -/
theorem online_output_is_offline_output (ops : List Op) : recorded (trace true ops) = hostPrinted (trace false ops) := by
  induction ops with
  | nil => rfl
  | cons op rest ih =>
    simp only [trace, List.flatMap_cons] at ih ⊢
    rw [recorded_append, hostPrinted_append, ih]
    congr 1
    cases op <;> simp [effects, vyPrint, vyEval, callString, vyExec, onError, recorded, hostPrinted]

/-- offline the same operations do reach the host: the theorems above are not vacuous -/
example : (trace false [.print [104], .eval [49], .callStr [120]]) = [.hostPrint [104], .pyEval [49], .pyExec [120]] := by decide

/-! ## the sink inventory -/

inductive Cls
  | offlineOnly      -- dominated by `not ctx.online`
  | onlineOnly       -- dominated by `ctx.online`
  | generatedCode    -- exec of transpiled code / of a transpiled Vyxal string (C18 applies to it)
  | numericText      -- eval(sympy.pycode(<a number>)) or eval of a fixed datetime expression: no user text
  | literal          -- ast.literal_eval
  | hostInput        -- input(): reads, executes nothing
  | processControl   -- exit / sys.exit
  | offlineTool      -- the REPL and the file-reading parts of execute_vyxal, never reached by the online entry point
  | network          -- urlopen (¨U), only requested online by its template
  | numberValue      -- sympy.nsimplify / sympify of a value the site has already dispatched on as a number
  | constantText     -- sympy.nsimplify of a string constant in the source
  | symbolicMath     -- sympy's expression parser applied to a *string operand* of a calculus / algebra element (∆ḋ, ∆ṁ, ∆c on
                     -- strings, …): not one of C19's three mechanisms (E, † on a string, input parsing); unguarded online — see DESIGN.md O1
  deriving DecidableEq, Repr

def audited : List ((String × String × String) × Cls) := [
  (("elements.divide", "sympy-eval:sympy.sympify(lhs)", ""), .numberValue),
  (("elements.e_digits", "sympy-eval:sympy.nsimplify(lhs, rational=True)", ""), .numberValue),
  (("elements.function_call", "exec", "not ctx.online"), .offlineOnly),
  (("elements.integer_divide", "sympy-eval:sympy.sympify(lhs)", ""), .numberValue),
  (("elements.request", "urllib.request.urlopen", ""), .network),
  (("elements.round_to", "sympy-eval:sympy.nsimplify(str(sympy.N(lhs, int(rhs) + 1)), rational=Tr", ""), .numericText),
  (("elements.vy_exec", "exec", ""), .generatedCode),
  (("elements.vy_sort", "sympy-eval:sympy.nsimplify('.'.join(parts), rational=True)", ""), .numericText),
  (("elements.vy_str", "sympy-eval:sympy.nsimplify(lhs, rational=True)", ""), .numberValue),
  (("elements.vy_str", "eval", ""), .numericText),
  (("elements.vy_str", "sympy-eval:sympy.nsimplify(lhs)", ""), .numberValue),
  (("elements.vy_print", "eval", ""), .numericText),
  (("elements.vy_print", "sympy-eval:sympy.nsimplify(lhs)", ""), .numberValue),
  (("elements.vy_print", "print", "not ctx.online"), .offlineOnly),
  (("helpers.get_input", "input", ""), .hostInput),
  (("helpers.local_minima", "sympy-eval:sympy.sympify(lhs)", ""), .symbolicMath),
  (("helpers.local_maxima", "sympy-eval:sympy.sympify(lhs)", ""), .symbolicMath),
  (("helpers.make_expression", "sympy-eval:sympy.parse_expr(expr, transformations=transformations)", ""), .symbolicMath),
  (("helpers.reverse_number", "eval", ""), .numericText),
  (("helpers.simplify", "eval", ""), .numericText),
  (("helpers.stationary_points", "sympy-eval:sympy.sympify(lhs)", ""), .symbolicMath),
  (("helpers.vy_eval", "ast.literal_eval", "ctx.online"), .literal),
  (("helpers.vy_eval", "eval", "not ctx.online"), .offlineOnly),
  (("helpers.vyxalify", "sympy-eval:sympy.nsimplify(value, rational=True)", ""), .numberValue),
  (("helpers.vyxalify", "sympy-eval:sympy.nsimplify(value, rational=True)", ""), .numberValue),
  (("main.execute_vyxal", "sys.exit", ""), .processControl),
  (("main.execute_vyxal", "open", ""), .offlineTool),
  (("main.execute_vyxal", "open", ""), .offlineTool),
  (("main.execute_vyxal", "open", ""), .offlineTool),
  (("main.execute_vyxal", "sys.exit", "ctx.online"), .onlineOnly),
  (("main.execute_vyxal", "print", "not ctx.online"), .offlineOnly),
  (("main.execute_vyxal", "exec", ""), .generatedCode),
  (("main.execute_vyxal", "sys.exit", "ctx.online"), .onlineOnly),
  (("main.execute_vyxal", "sys.exit", "ctx.online"), .onlineOnly),
  (("main.repl", "input", ""), .offlineTool),
  (("main.repl", "print", ""), .offlineTool),
  (("main.repl", "exec", ""), .offlineTool),
  (("template:Q", "exit", ""), .processControl),
  (("template:□", "input", ""), .hostInput),
  (("template:□", "input", ""), .hostInput),
  (("template:øḋ", "eval", ""), .numericText),
  (("template:kg", "sympy-eval:sympy.nsimplify('1/2 + sqrt(5)/2')", ""), .constantText),
  (("template:kN", "eval", ""), .numericText),
  (("template:kð", "eval", ""), .numericText)]

/-- every syntactic sink of the current source is one of the audited ones — a new `eval(`, a new `print(`,
    or a removed `if ctx.online` changes the regenerated list and breaks this theorem -/
theorem sinks_accounted : Gen.sinks = audited.map (·.1) := by decide +kernel

/-- the sinks that evaluate text or write to the host and are *not* provably harmless by their class are all
    dominated by a `ctx.online` test -/
theorem user_text_sinks_guarded :
    audited.all (fun e =>
      (e.1.2.1 == "print" || e.1.2.1 == "eval" || e.1.2.1 == "exec") → 
        (e.2 == .offlineOnly && e.1.2.2 == "not ctx.online") || e.2 == .generatedCode || e.2 == .numericText || e.2 == .offlineTool) = true := by
  decide +kernel

/-- C19's own mechanisms — input parsing (`vy_eval`, `get_input`) and the call element (`function_call`) — contain no sink
    outside: an offline-only eval/exec, `literal_eval`, and `input()`. A sympy string evaluation added there (a "read a/b
    as a number" convenience) is a new row and breaks `sinks_accounted`. -/
theorem input_and_call_sites_are_literal_only :
    audited.all (fun e =>
      (e.1.1 == "helpers.vy_eval" || e.1.1 == "helpers.get_input" || e.1.1 == "elements.function_call") →
        (e.2 == .offlineOnly && e.1.2.2 == "not ctx.online") || e.2 == .literal || e.2 == .hostInput) = true := by
  decide +kernel

/-! ## error containment: the handlers that keep exceptions inside online mode -/

/-- a handler that catches everything a program or an input can raise -/
def broad (types : String) : Bool := types == "Exception" || types == "BaseException" || types == "bare"

/-- the containment sites: the input reader (`vy_eval` in online mode, `get_input`) and the three stages of
    `execute_vyxal` (transpile, exec, implicit output) -/
def isContainmentSite (r : String × String × String × String) : Bool :=
  (r.1 == "helpers.vy_eval" && r.2.1 == "ctx.online") || r.1 == "helpers.get_input" || r.1 == "main.execute_vyxal"

/-- the five containment sites exist in the current source and each has a handler that catches every exception — a narrowed
    `except (ValueError, SyntaxError)` or a removed `try` changes the regenerated inventory and breaks this theorem -/
theorem containment_handlers_broad :
    (Gen.tries.filter isContainmentSite).length = 5 ∧ (Gen.tries.filter isContainmentSite).all (fun r => broad r.2.2.1) = true := by
  decide +kernel

end C19
