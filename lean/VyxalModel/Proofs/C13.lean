import VyxalModel.Lemmas.LazyList
import VyxalModel.Lemmas.FwdSlice
/-!
# C13 — a finite lazy list is indistinguishable from the list it enumerates

The machine (`Model/LazyList.lean`) follows `vyxal/LazyList.py` method by method over a finite source;
`oracle` is the same observation on the plain list.  `step_correct` says each observation returns the
list's answer, keeps the invariant and never changes the denoted sequence; `history_correct` lifts it
to **all** source lists and **all** observation histories by induction (the "≤ 4 observations on lists
of length ≤ 3" of the property text is only the size of the correspondence run).

Every observation is covered: indexing incl. negative and wrap-around, slices of both kinds — the ones
counted from the end, which generate everything first, and the *forward-loop* ones (`start ≥ 0`,
`stop ≥ 0` or absent, `step > 0`), which pull only as far as they need (`Lemmas/FwdSlice.lean`: the loop
collects `fwd`, and `fwd` is Python's `slice.indices` walk) —, length, iteration, truthiness, membership,
equality, counting, reversal, copying, indexing a copy.  The only side condition is that a slice step is
not 0: `__getitem__` replaces a step of 0 or `None` by 1 before anything else (`or 1`), so no other step
reaches the code that is modelled.
-/
namespace C13
open LLM

/-- a slice observation carries the step *after* `step or 1`: never 0 -/
def _root_.LLM.Obs.stepOK : Obs → Prop
  | .slice _ _ step => step ≠ 0
  | _ => True

theorem sliceLoop_inv : ∀ (n : Nat) (l : LL), l.Inv → ∀ (i : Int) (stop : Option Int) (step : Int) (acc : List Int),
    (l.sliceLoop n i stop step acc).2.Inv ∧ (l.sliceLoop n i stop step acc).2.src = l.src
  | 0, l, h, _, _, _, _ => ⟨h, rfl⟩
  | n + 1, l, h, i, stop, step, acc => by
    unfold LL.sliceLoop
    have hh := hasInd_spec l h i
    have hg := getItem_spec (l.hasInd i).2 hh.2.1 i
    by_cases hs : stopOK stop i = true
    · simp only [hs, if_true]
      by_cases hk : (l.hasInd i).1 = true
      · simp only [hk, if_true]
        cases ha : ((l.hasInd i).2.getItem i).1 with
        | int x =>
          simp only
          have := sliceLoop_inv n ((l.hasInd i).2.getItem i).2 hg.2.1 (i + step) stop step (x :: acc)
          exact ⟨this.1, this.2.trans (hg.2.2.trans hh.2.2)⟩
        | list _ => exact ⟨hg.2.1, hg.2.2.trans hh.2.2⟩
        | err => exact ⟨hg.2.1, hg.2.2.trans hh.2.2⟩
      · simp only [hk, if_false]
        exact ⟨hh.2.1, hh.2.2⟩
    · simp only [hs, if_false]
      exact ⟨h, rfl⟩

/-- every observation keeps the invariant and the source -/
theorem observe_inv (l : LL) (h : l.Inv) (o : Obs) : (l.observe o).2.Inv ∧ (l.observe o).2.src = l.src := by
  obtain ⟨fi, fs, fg, _⟩ := forceAll_spec l h
  cases o with
  | getItem i => exact (getItem_spec l h i).2
  | slice a b c =>
    simp only [LL.observe, LL.getSlice]
    cases b with
    | none =>
      simp only
      split
      · exact ⟨fi, fs⟩
      · exact sliceLoop_inv _ l h _ _ _ _
    | some e =>
      simp only
      split
      · exact ⟨fi, fs⟩
      · exact sliceLoop_inv _ l h _ _ _ _
  | len => exact ⟨fi, fs⟩
  | iter => exact ⟨fi, fs⟩
  | bool => exact (hasInd_spec l h 0).2
  | contains x => exact (contains_spec l h x).2
  | eq other => exact ⟨fi, fs⟩
  | count x => exact ⟨fi, fs⟩
  | reversed => exact ⟨fi, fs⟩
  | copy => exact ⟨fi, fs⟩
  | listify => exact ⟨fi, fs⟩
  | copyGet i =>
    simp only [LL.observe]
    split
    · exact ⟨fi, fs⟩
    · exact pullN_inv _ l h
  | nop => exact ⟨h, rfl⟩

/-- **one observation**: the lazy list answers what the list answers -/
theorem step_correct (l : LL) (h : l.Inv) (o : Obs) (ho : o.stepOK) :
    (l.observe o).1 = oracle l.src o := by
  obtain ⟨fi, fs, fg, _⟩ := forceAll_spec l h
  cases o with
  | getItem i => exact (getItem_spec l h i).1
  | slice a b c =>
    have hc0 : c ≠ 0 := ho
    simp only [LL.observe, LL.getSlice, oracle]
    cases b with
    | none =>
      simp only
      by_cases hc : c < 0 ∨ a.getD 0 < 0
      · simp only [hc, if_true, fg]
      · simp only [hc, if_false]
        have hs : 0 < c := by omega
        rw [sliceLoop_fwd _ l h _ _ _ _ (by omega) (by omega)]
        simp only [List.reverse_nil, List.nil_append]
        rw [fwd_pySlice l.src a none c hs (by omega) (by intro e he; simp at he)]
    | some e =>
      simp only
      by_cases hc : c < 0 ∨ e < 0 ∨ a.getD 0 < 0
      · simp only [hc, if_true, fg]
      · simp only [hc, if_false]
        have hs : 0 < c := by omega
        rw [sliceLoop_fwd _ l h _ _ _ _ (by omega) (by omega)]
        simp only [List.reverse_nil, List.nil_append]
        rw [fwd_pySlice l.src a (some e) c hs (by omega) (by intro e' he; simp at he; omega)]
  | len => simp [LL.observe, oracle, fg]
  | iter => simp [LL.observe, oracle, fg]
  | bool =>
    have hb := (hasInd_spec l h 0).1
    simp only [LL.observe, oracle]
    cases hx : l.hasInd 0 with
    | mk b l' =>
      rw [hx] at hb
      simp only at hb ⊢
      rw [hb]
      cases hs : l.src with
      | nil => simp
      | cons x xs => simp
  | contains x => exact (contains_spec l h x).1
  | eq other => simp [LL.observe, oracle, fg]
  | count x => simp [LL.observe, oracle, fg]
  | reversed => simp [LL.observe, oracle, fg]
  | copy => simp [LL.observe, oracle, fg]
  | listify => simp [LL.observe, oracle, fg]
  | copyGet i =>
    have := (getItem_spec (LL.fresh l.src) (fresh_inv l.src) i).1
    simp only [LL.observe]
    rw [this]; rfl
  | nop => rfl

/-- **all histories**: every answer of every observation equals the list's answer, whatever was observed before, and the
    denoted sequence never changes -/
theorem history_correct (src : List Int) (os : List Obs) :
    ∀ (l : LL), l.Inv → l.src = src →
      (∀ (k : Nat) (o : Obs) (a : Ans), os[k]? = some o → (runObs l os).1[k]? = some a → o.stepOK → a = oracle src o)
      ∧ (runObs l os).2.Inv ∧ (runObs l os).2.src = src := by
  induction os with
  | nil => intro l h hs; exact ⟨by intro k o a hk; simp at hk, h, hs⟩
  | cons o rest ih =>
    intro l h hs
    have hi := observe_inv l h o
    simp only [runObs]
    cases hx : l.observe o with
    | mk a1 l1 =>
      rw [hx] at hi
      have hrec := ih l1 hi.1 (hi.2.trans hs)
      cases hy : runObs l1 rest with
      | mk as l2 =>
        rw [hy] at hrec
        simp only
        refine ⟨?_, hrec.2.1, hrec.2.2⟩
        intro k o' a hk ha hf
        cases k with
        | zero =>
          simp only [List.getElem?_cons_zero, Option.some.injEq] at hk ha
          subst hk; subst ha
          have := step_correct l h o hf
          rw [hx] at this
          rw [← hs]; exact this
        | succ k =>
          simp only [List.getElem?_cons_succ] at hk ha
          exact hrec.1 k o' a hk ha hf

/-- the answers list has one answer per observation -/
theorem history_length (l : LL) (os : List Obs) : (runObs l os).1.length = os.length := by
  induction os generalizing l with
  | nil => rfl
  | cons o rest ih =>
    simp only [runObs]
    cases hx : l.observe o with
    | mk a l1 =>
      cases hy : runObs l1 rest with
      | mk as l2 =>
        have := ih l1
        rw [hy] at this
        simp [this]

/-- the property in the form a user relies on: what an observation answers does not depend on what was observed before —
    after *any* two histories on lazy lists over the same source, the same observation gives the same answer -/
theorem observation_history_independent (src : List Int) (os1 os2 : List Obs) (o : Obs) (ho : o.stepOK) :
    ((runObs (LL.fresh src) os1).2.observe o).1 = ((runObs (LL.fresh src) os2).2.observe o).1 := by
  obtain ⟨_, hi1, hs1⟩ := history_correct src os1 (LL.fresh src) (fresh_inv src) rfl
  obtain ⟨_, hi2, hs2⟩ := history_correct src os2 (LL.fresh src) (fresh_inv src) rfl
  rw [step_correct _ hi1 o ho, step_correct _ hi2 o ho, hs1, hs2]

/-- … in particular an observation repeated after anything else answers what it answered on the fresh list -/
theorem observation_repeatable (src : List Int) (os : List Obs) (o : Obs) (ho : o.stepOK) :
    ((runObs (LL.fresh src) os).2.observe o).1 = ((LL.fresh src).observe o).1 := by
  simpa [runObs] using observation_history_independent src os [] o ho

/-- non-vacuity: `len`, `ll[-1]`, `bool`, `len` on `[1,2,3]` (the history that exposed F11 / F12) -/
example : (runObs (LL.fresh [1, 2, 3]) [.len, .getItem (-1), .bool, .len]).1 = [.int 3, .int 3, .int 1, .int 3] := by
  decide

end C13
