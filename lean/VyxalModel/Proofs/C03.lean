import VyxalModel.Lemmas.Payload
import VyxalModel.Lemmas.LexLiteral
/-!
# C03 — literal contents and comments are data, never syntax

* lexer half: a rendered literal of each of the seven kinds is read back as exactly the tokens
  `litTokens k p`, whatever the payload `p` (valid for its kind) and whatever follows;
* parser half: `parse` commutes with erasing literal payloads (`parse_erase`), hence two token
  lists that differ only in payloads parse to the same shape — errors included;
* source level: two programs built from the same pieces with different (valid) payloads have the
  same shape.

`hdrOK` excludes the three places where the grammar itself reads token *text*: the arity branch
of `λ`, the header of `@`, the variable branch of `(`.
-/
namespace C03
open Vy

inductive LitKind | backquote | twoChar | escChar | cstr | cnum | cpnum | comment
  deriving DecidableEq, Repr

/-- per-kind well-formedness of a payload (what can be written between the delimiters at all) -/
def validPayload : LitKind → List Nat → Bool
  | .backquote, p => bqValid p
  | .twoChar, p => p.length == 2
  | .escChar, p => p.length == 1
  | .cstr, p => p.all (· != 171)
  | .cnum, p => p.all (· != 187)
  | .cpnum, p => p.length == 1
  | .comment, p => p.all (· != 10)

def renderLit : LitKind → List Nat → List Nat
  | .backquote, p => 96 :: p ++ [96]
  | .twoChar, p => 8219 :: p
  | .escChar, p => 92 :: p
  | .cstr, p => 171 :: p ++ [171]
  | .cnum, p => 187 :: p ++ [187]
  | .cpnum, p => 8314 :: p
  | .comment, p => 35 :: p ++ [10]

def litTokens : LitKind → List Nat → List Token
  | .backquote, p => [⟨.string, p⟩]
  | .twoChar, p => [⟨.string, p⟩]
  | .escChar, p => [⟨.character, p⟩]
  | .cstr, p => [⟨.cstr, p⟩]
  | .cnum, p => [⟨.cnum, p⟩]
  | .cpnum, p => [⟨.cpnum, p⟩]
  | .comment, _ => []

/-- **lexer half**: the literal is one unit for the lexer, for every valid payload and every continuation -/
theorem lex_literal (k : LitKind) (p rest : List Nat) (hv : validPayload k p = true) :
    tokenise (renderLit k p ++ rest) = litTokens k p ++ tokenise rest := by
  cases k with
  | backquote =>
    have := lex_backquote p rest hv
    simpa [renderLit, litTokens] using this
  | twoChar =>
    simp only [validPayload, beq_iff_eq] at hv
    match p, hv with
    | [a, b], _ => simpa [renderLit, litTokens] using lex_two_char a b rest
  | escChar =>
    simp only [validPayload, beq_iff_eq] at hv
    match p, hv with
    | [a], _ => simpa [renderLit, litTokens] using lex_escaped_char a rest
  | cstr =>
    have hp : ∀ c ∈ p, c ≠ 171 := by simpa [validPayload] using hv
    simpa [renderLit, litTokens] using lex_compressed_string p rest hp
  | cnum =>
    have hp : ∀ c ∈ p, c ≠ 187 := by simpa [validPayload] using hv
    simpa [renderLit, litTokens] using lex_compressed_number p rest hp
  | cpnum =>
    simp only [validPayload, beq_iff_eq] at hv
    match p, hv with
    | [a], _ => simpa [renderLit, litTokens] using lex_codepage_number a rest
  | comment =>
    have hp : ∀ c ∈ p, c ≠ 10 := by simpa [validPayload] using hv
    simpa [renderLit, litTokens] using lex_comment p rest hp

/-- the kind of token a literal produces depends on the literal kind only, never on the payload -/
theorem litTokens_erase (k : LitKind) (p q : List Nat) :
    (litTokens k p).map erase = (litTokens k q).map erase := by
  cases k <;> simp [litTokens, erase, payloadKind]

/-! ## source-level programs -/

inductive Piece
  | gen (c : Nat)                  -- a plain one-character token: structure syntax, modifiers, elements
  | digraph (c d : Nat)            -- kX ∆X øX ÞX ¨X
  | lit (k : LitKind) (p : List Nat)
  deriving Repr

def Piece.valid : Piece → Bool
  | .gen c => lexKind c == .gen
  | .digraph c d => lexKind c == .digraph && d != 124
  | .lit k p => validPayload k p

def Piece.render : Piece → List Nat
  | .gen c => [c]
  | .digraph c d => [c, d]
  | .lit k p => renderLit k p

def Piece.tokens : Piece → List Token
  | .gen c => [⟨.general, [c]⟩]
  | .digraph c d => [⟨.general, [c, d]⟩]
  | .lit k p => litTokens k p

def render (ps : List Piece) : List Nat := ps.flatMap Piece.render
def tokensOf (ps : List Piece) : List Token := ps.flatMap Piece.tokens

theorem lex_piece (p : Piece) (hv : p.valid = true) (rest : List Nat) :
    tokenise (p.render ++ rest) = p.tokens ++ tokenise rest := by
  cases p with
  | gen c =>
    have h : lexKind c = .gen := by simpa [Piece.valid] using hv
    simpa [Piece.render, Piece.tokens] using lex_general c rest h
  | digraph c d =>
    simp only [Piece.valid, Bool.and_eq_true, beq_iff_eq, bne_iff_ne, ne_eq] at hv
    simpa [Piece.render, Piece.tokens] using lex_digraph c d rest hv.1 hv.2
  | lit k p => exact lex_literal k p rest hv

/-- a program made of valid pieces lexes piece by piece -/
theorem lex_pieces (ps : List Piece) (hv : ∀ p ∈ ps, p.valid = true) :
    tokenise (render ps) = tokensOf ps := by
  induction ps with
  | nil => simp [render, tokensOf, tokenise_nil]
  | cons p ps ih =>
    have h1 := lex_piece p (hv p (by simp)) (render ps)
    have h2 := ih (fun q hq => hv q (by simp [hq]))
    simp only [render, tokensOf, List.flatMap_cons] at *
    rw [h1, h2]

/-- two pieces are the same up to the payload of a literal -/
def samePiece : Piece → Piece → Bool
  | .gen c, .gen c' => c == c'
  | .digraph c d, .digraph c' d' => c == c' && d == d'
  | .lit k _, .lit k' _ => k == k'
  | _, _ => false

theorem tokens_erase_congr (p q : Piece) (h : samePiece p q = true) :
    p.tokens.map erase = q.tokens.map erase := by
  cases p <;> cases q <;> simp_all [samePiece, Piece.tokens]
  exact litTokens_erase _ _ _

/-- two programs are the same up to literal payloads -/
def sameProg : List Piece → List Piece → Bool
  | [], [] => true
  | p :: ps, q :: qs => samePiece p q && sameProg ps qs
  | _, _ => false

theorem tokensOf_erase_congr : ∀ (ps qs : List Piece), sameProg ps qs = true →
    (tokensOf ps).map erase = (tokensOf qs).map erase
  | [], [], _ => rfl
  | p :: ps, q :: qs, h => by
    simp only [sameProg, Bool.and_eq_true] at h
    simp only [tokensOf, List.flatMap_cons, List.map_append]
    rw [tokens_erase_congr _ _ h.1]
    have := tokensOf_erase_congr ps qs h.2
    simp only [tokensOf] at this
    rw [this]
  | [], _ :: _, h => by simp [sameProg] at h
  | _ :: _, [], h => by simp [sameProg] at h

/-- **parser half** (proved in `Lemmas/Payload.lean`): parsing commutes with erasing literal payloads -/
theorem parse_erase (n : Nat) (ts : List Token) (par : Parent) (h : hdrOK n ts = true) :
    parse n (ts.map erase) par = emap eraseL (parse n ts par) := _root_.parse_erase n ts par h

theorem parse_shape_congr (n : Nat) (ts ts' : List Token) (par : Parent)
    (h : ts.map erase = ts'.map erase) (hk : hdrOK n ts = true) (hk' : hdrOK n ts' = true) :
    emap eraseL (parse n ts par) = emap eraseL (parse n ts' par) := _root_.parse_shape_congr n ts ts' par h hk hk'

/-- **the property**: replace the payload of any literal (string, two-character string, escaped
    character, compressed string / number, code-page number, comment) by any other valid payload of
    the same kind — the program's shape (structures, branches, modifier operands; parse errors
    included) does not change. -/
theorem literal_payload_irrelevant (ps qs : List Piece)
    (hs : sameProg ps qs = true)
    (hp : ∀ p ∈ ps, p.valid = true) (hq : ∀ q ∈ qs, q.valid = true)
    (hk : hdrOK ((tokensOf ps).length + 1) (tokensOf ps) = true)
    (hk' : hdrOK ((tokensOf qs).length + 1) (tokensOf qs) = true) :
    emap eraseL (parseTop (tokenise (render ps))) = emap eraseL (parseTop (tokenise (render qs))) := by
  rw [lex_pieces ps hp, lex_pieces qs hq]
  have he := tokensOf_erase_congr ps qs hs
  have hl : (tokensOf ps).length = (tokensOf qs).length := by
    have := congrArg List.length he
    simpa using this
  unfold parseTop
  rw [hl] at hk ⊢
  exact _root_.parse_shape_congr _ _ _ _ he hk hk'

/-- non-vacuity: ``[`|`1]`` and ``[`a`1]`` meet every hypothesis -/
example :
    let ps := [Piece.gen 91, .lit .backquote [124], .lit .escChar [88], .gen 43, .gen 93]
    let qs := [Piece.gen 91, .lit .backquote [97], .lit .escChar [97], .gen 43, .gen 93]
    (sameProg ps qs && ps.all Piece.valid && qs.all Piece.valid
      && hdrOK ((tokensOf ps).length + 1) (tokensOf ps) && hdrOK ((tokensOf qs).length + 1) (tokensOf qs)) = true := by
  decide +kernel

end C03
