import VyxalModel.Model.Transpile
import VyxalModel.Model.Placed
import VyxalModel.Lemmas.ParseToks
import VyxalModel.Lemmas.Strings
import VyxalModel.Lemmas.Number
import VyxalModel.Lemmas.LexInv
import VyxalModel.Lemmas.LexInvV
import VyxalModel.Gen.Elements
import VyxalModel.Gen.Modifiers
/-!
# C18 — generated Python contains program text only as constants

In the transpiler model program-supplied text can enter the output only through five constructors
(`cstrN`, `cint`, `pname`, `pattr`, `defP`): the generated tables contain none of them
(`tables_have_no_program_holes`), and `token_holes_ok` / the sanitiser lemmas show that whatever the
program text is,
* a string / character / compressed literal is **one** string constant (`escape_is_one_literal`:
  the hand-written escaping always yields the body of exactly one Python literal — for every string);
* a number token hands sympy a constant made of the token's own characters and `0 . 5 + 1 * I space`
  (`number_parts_chars`), and the lexer only puts digits, points and `°` into a number token
  (`lex_number_chars`);
* every identifier is a fixed prefix followed by letters, digits and underscores (`sanitise_ident`,
  `lex_variable_letters`, `token_holes_ok`).
-/
namespace C18
open Vy PyAst

/-- the string path: for every string the escaped text is the body of exactly one Python literal -/
theorem escape_is_one_literal (s : Str) : (pyStringBody (escapeString s)).isSome = true :=
  _root_.escape_is_one_literal s

def IdentChars (s : Str) : Prop := ∀ c ∈ s, isAlnumU c = true

theorem sanitise_ident (s : Str) : IdentChars (sanitise s) := by
  intro c hc
  exact (List.mem_filter.mp hc).2

theorem digits_ident (n : Nat) : IdentChars (digitsOfNat n) := by
  intro c hc
  simp only [digitsOfNat, List.mem_map] at hc
  obtain ⟨ch, hch, rfl⟩ := hc
  have hd : ch.isDigit = true := Nat.isDigit_of_mem_toDigits (by decide) (by decide) hch
  have hr : 48 ≤ ch.toNat ∧ ch.toNat ≤ 57 := by
    simp only [Char.isDigit, Bool.and_eq_true, decide_eq_true_eq] at hd
    have h1 : (48 : UInt32).toNat ≤ ch.val.toNat := UInt32.le_iff_toNat_le.mp hd.1
    have h2 : ch.val.toNat ≤ (57 : UInt32).toNat := UInt32.le_iff_toNat_le.mp hd.2
    exact ⟨h1, h2⟩
  simp only [isAlnumU, isDigit, Bool.or_eq_true, Bool.and_eq_true, decide_eq_true_eq]
  exact Or.inr hr

/-! ## what the lexer lets into a number / variable token -/

theorem lex_number_chars (s : Str) : ∀ t ∈ tokenise s, t.kind = .number → ∀ c ∈ t.value, isNumCh c = true :=
  tokenise_forall (fun t => t.kind = .number → ∀ c ∈ t.value, isNumCh c = true)
    (fun s t r h hk => lexStep_number_chars s t r h hk) s

/-- the same for the lexer with the `V` flag (one-character variable names) -/
theorem lexV_variable_letters (s : Str) :
    ∀ t ∈ tokeniseV s, (t.kind = .vget ∨ t.kind = .vset) → ∀ c ∈ t.value, isLetter c = true :=
  tokeniseVF_forall (fun t => (t.kind = .vget ∨ t.kind = .vset) → ∀ c ∈ t.value, isLetter c = true)
    (fun s t r h hk => lexStepV_variable_letters s t r h hk) _ s

theorem lex_variable_letters (s : Str) :
    ∀ t ∈ tokenise s, (t.kind = .vget ∨ t.kind = .vset) → ∀ c ∈ t.value, isLetter c = true :=
  tokenise_forall (fun t => (t.kind = .vget ∨ t.kind = .vset) → ∀ c ∈ t.value, isLetter c = true)
    (fun s t r h hk => lexStep_variable_letters s t r h hk) s

/-! ## the number payload -/

theorem splitOn_mem (sep : Nat) : ∀ (s : Str), ∀ p ∈ splitOn sep s, ∀ c ∈ p, c ∈ s
  | [], p, hp, c, hc => by simp [splitOn] at hp; subst hp; simp at hc
  | x :: xs, p, hp, c, hc => by
    have ih := splitOn_mem sep xs
    simp only [splitOn] at hp
    cases hsp : splitOn sep xs with
    | nil => simp [hsp] at hp; subst hp; simp at hc
    | cons h t =>
      simp only [hsp] at hp
      split at hp
      · rcases List.mem_cons.mp hp with rfl | hp
        · simp at hc
        · exact List.mem_cons_of_mem _ (ih p (by rw [hsp]; exact hp) c hc)
      · rcases List.mem_cons.mp hp with rfl | hp
        · rcases List.mem_cons.mp hc with rfl | hc
          · simp
          · exact List.mem_cons_of_mem _ (ih h (by rw [hsp]; simp) c hc)
        · exact List.mem_cons_of_mem _ (ih p (by rw [hsp]; exact List.mem_cons_of_mem _ hp) c hc)

def numberExtra : Str := [48, 46, 53, 43, 49, 32, 42, 73]   -- 0 . 5 + 1 space * I

theorem joinPlus_mem : ∀ (ps : List Str), ∀ c ∈ joinPlus ps, c = 43 ∨ ∃ p ∈ ps, c ∈ p
  | [], c, hc => by simp [joinPlus] at hc
  | [p], c, hc => by simp only [joinPlus] at hc; exact Or.inr ⟨p, by simp, hc⟩
  | p :: q :: r, c, hc => by
    simp only [joinPlus, List.mem_append, List.mem_cons] at hc
    rcases hc with hc | rfl | hc
    · exact Or.inr ⟨p, by simp, hc⟩
    · exact Or.inl rfl
    · rcases joinPlus_mem (q :: r) c hc with h | ⟨p', hp', h⟩
      · exact Or.inl h
      · exact Or.inr ⟨p', List.mem_cons_of_mem _ hp', h⟩

/-- every character of the text handed to sympy is a character of the token or one of `0 . 5 + 1 * I space` -/
theorem number_parts_chars (v : Str) : ∀ c ∈ numberParts v, c ∈ v ∨ c ∈ numberExtra := by
  have hparts : ∀ c ∈ joinPlus ((splitDeg v).map (fun p => if p = [cDot] then [48, 46, 53] else p)), c ∈ v ∨ c ∈ numberExtra := by
    intro c hc
    rcases joinPlus_mem _ c hc with rfl | ⟨p, hp, hcp⟩
    · exact Or.inr (by decide)
    · obtain ⟨q, hq, rfl⟩ := List.mem_map.mp hp
      split at hcp
      · exact Or.inr (by
          simp only [List.mem_cons, List.not_mem_nil, or_false] at hcp
          rcases hcp with rfl | rfl | rfl <;> decide)
      · exact Or.inl (splitOn_mem cDeg v q hq c hcp)
  intro c hc
  simp only [numberParts] at hc
  split at hc
  · rcases List.mem_append.mp hc with h | h
    · exact hparts c h
    · exact Or.inr (by simp at h; subst h; decide)
  · split at hc
    · rcases List.mem_append.mp hc with h | h
      · exact hparts c h
      · exact Or.inr (by
          simp only [List.mem_cons, List.not_mem_nil, or_false] at h
          rcases h with rfl | rfl | rfl | rfl | rfl <;> decide)
    · split at hc
      · rcases List.mem_append.mp hc with h | h
        · exact hparts c h
        · exact Or.inr (by
            simp only [List.mem_cons, List.not_mem_nil, or_false] at h
            rcases h with rfl | rfl | rfl <;> decide)
      · exact hparts c hc

/-! ## program text enters the output only through sanitised holes -/

mutual
/-- every program-derived identifier in the expression is made of letters, digits and underscores -/
def holesE : PyExpr → Bool
  | .pname _ s => s.all isAlnumU
  | .pattr e _ s => holesE e && s.all isAlnumU
  | .call f args kw => holesE f && holesEL args && holesKw kw
  | .attr e _ => holesE e
  | .subscript e i => holesE e && holesE i
  | .slice a b c => holesO a && holesO b && holesO c
  | .binop _ l r => holesE l && holesE r
  | .boolop _ vs => holesEL vs
  | .unary _ e => holesE e
  | .compare l rest => holesE l && holesC rest
  | .list xs => holesEL xs
  | .tuple xs => holesEL xs
  | .starred e => holesE e
  | .ifExp c t e => holesE c && holesE t && holesE e
  | .lambda _ b => holesE b
  | .other _ cs => holesEL cs
  | _ => true
def holesEL : List PyExpr → Bool
  | [] => true
  | x :: xs => holesE x && holesEL xs
def holesKw : List (String × PyExpr) → Bool
  | [] => true
  | (_, x) :: xs => holesE x && holesKw xs
def holesC : List (CmpOp × PyExpr) → Bool
  | [] => true
  | (_, x) :: xs => holesE x && holesC xs
def holesO : Option PyExpr → Bool
  | none => true
  | some e => holesE e
end

mutual
def holesS : PyStmt → Bool
  | .assign ts v => holesEL ts && holesE v
  | .augAssign t _ v => holesE t && holesE v
  | .expr e => holesE e
  | .ifS c t e => holesE c && holesL t && holesL e
  | .whileS c b => holesE c && holesL b
  | .forS t it b => holesE t && holesE it && holesL b
  | .defS _ _ b => holesL b
  | .defP _ s _ b => s.all isAlnumU && holesL b
  | .ret v => holesO v
  | .tryS b hs o f => holesL b && holesLL hs && holesL o && holesL f
  | .other _ es ss => holesEL es && holesL ss
  | _ => true
def holesL : List PyStmt → Bool
  | [] => true
  | s :: r => holesS s && holesL r
def holesLL : List (List PyStmt) → Bool
  | [] => true
  | l :: r => holesL l && holesLL r
end

def entryHoles (e : Gen.Entry) : Bool :=
  match e.body with
  | some b => holesL b
  | none => true

/-- the generated tables contain no program-derived identifier at all (they could not: they are fixed text) -/
theorem tables_have_no_program_holes : (Gen.elements ++ Gen.modifiers).all entryHoles = true := by decide +kernel

theorem letters_alnum {s : Str} (h : ∀ c ∈ s, isLetter c = true) : s.all isAlnumU = true := by
  simp only [List.all_eq_true]
  intro c hc
  simp [isAlnumU, h c hc]

/-- **tokens**: whatever a token carries, what it contributes to the output has only sanitised identifiers;
    the only hypothesis is the lexer's own guarantee on variable tokens (`lex_variable_letters`) -/
theorem token_holes_ok (env : TEnv) (henv : env.elements.all entryHoles = true) (t : Token) (r : List PyStmt)
    (hv : (t.kind = .vget ∨ t.kind = .vset) → ∀ c ∈ t.value, isLetter c = true)
    (h : transpileToken env t = .ok r) : holesL r = true := by
  unfold transpileToken at h
  cases hk : t.kind <;> simp only [hk] at h
  case string =>
    split at h <;> simp at h
    subst h; simp [holesL, holesS, push, holesE, holesEL, holesKw, stackE]
  case number =>
    simp at h; subst h
    simp [holesL, holesS, push, holesE, holesEL, holesKw, stackE]
  case character =>
    simp at h; subst h; simp [holesL, holesS, push, holesE, holesEL, holesKw, stackE]
  case general =>
    split at h
    · simp at h; subst h; simp [holesL, holesS]
    · rename_i e he
      split at h
      · rename_i b hb
        simp at h; subst h
        have hmem : e ∈ env.elements := by
          have : ∀ (l : List Gen.Entry) (acc : Option Gen.Entry),
              l.foldl (fun acc e => if e.key = t.value then some e else acc) acc = some e → e ∈ l ∨ acc = some e := by
            intro l
            induction l with
            | nil => intro acc h; exact Or.inr h
            | cons x xs ih =>
              intro acc h
              simp only [List.foldl_cons] at h
              rcases ih _ h with h1 | h1
              · exact Or.inl (List.mem_cons_of_mem _ h1)
              · split at h1
                · simp at h1; subst h1; exact Or.inl (by simp)
                · exact Or.inr h1
          rcases this env.elements none he with h1 | h1
          · exact h1
          · simp at h1
        have := List.all_eq_true.mp henv e hmem
        simpa [entryHoles, hb] using this
      · simp at h
  case cnum =>
    split at h <;> simp at h
    subst h; simp [holesL, holesS, push, holesE, holesEL, holesKw, stackE]
  case cstr =>
    split at h <;> simp at h
    subst h; simp [holesL, holesS, push, holesE, holesEL, holesKw, stackE]
  case vget =>
    have hl := letters_alnum (hv (Or.inl hk))
    split at h
    · simp at h; subst h; simp [holesL, holesS, push, holesE, holesEL, holesKw, stackE, ctxE]
    · split at h <;> (simp at h; subst h; simp_all [holesL, holesS, push, holesE, holesEL, holesKw, stackE, ctxE])
  case vset =>
    have hl := letters_alnum (hv (Or.inr hk))
    split at h
    · simp at h; subst h
      simp [holesL, holesS, assign1, holesE, holesEL, holesKw, stackE, ctxE, pop1kw, kwCtx]
    · split at h <;> (simp at h; subst h; simp_all [holesL, holesS, assign1, holesE, holesEL, holesKw, stackE, ctxE, pop1kw, pop1pos, kwCtx])
  case cpnum =>
    simp at h; subst h
    have hpi : ∀ i : Int, holesE (pyInt i) = true := by
      intro i; unfold pyInt; split <;> simp [holesE]
    simp [holesL, holesS, push, holesE, holesEL, holesKw, stackE, hpi]

/-- the identifiers the structure templates build from program text are sanitised or counters -/
theorem template_names_ok (name : Str) (k : Nat) :
    (sanitise name).all isAlnumU = true ∧ (digitsOfNat k).all isAlnumU = true ∧
    ([76, 79, 79, 80] ++ digitsOfNat k).all isAlnumU = true := by
  refine ⟨?_, ?_, ?_⟩
  · exact List.all_eq_true.mpr (sanitise_ident name)
  · exact List.all_eq_true.mpr (digits_ident k)
  · simp only [List.all_append, Bool.and_eq_true]
    exact ⟨by decide, List.all_eq_true.mpr (digits_ident k)⟩

/-! ## the tree-level theorem: every identifier of the generated program is sanitised -/

@[local simp] theorem ex_ok_bind {ε α β} (a : α) (f : α → Except ε β) : ((Except.ok a : Except ε α) >>= f) = f a := rfl
@[local simp] theorem ex_err_bind {ε α β} (e : ε) (f : α → Except ε β) : ((Except.error e : Except ε α) >>= f) = .error e := rfl
@[local simp] theorem ex_map_ok {ε α β} (a : α) (f : α → β) : (f <$> (Except.ok a : Except ε α)) = .ok (f a) := rfl
@[local simp] theorem ex_map_err {ε α β} (e : ε) (f : α → β) : (f <$> (Except.error e : Except ε α)) = .error e := rfl
@[local simp] theorem ex_pure {ε α} (a : α) : (pure a : Except ε α) = .ok a := rfl

def TablesHoles (env : TEnv) : Prop := (env.elements ++ env.modifiers).all entryHoles = true

theorem holesL_append (a b : List PyStmt) : holesL (a ++ b) = (holesL a && holesL b) := by
  induction a with
  | nil => simp [holesL]
  | cons s r ih => simp [holesL, ih, Bool.and_assoc]

theorem holes_orPass (b : List PyStmt) (h : holesL b = true) : holesL (orPass b) = true := by
  unfold orPass
  cases b with
  | nil => simp [holesL, holesS]
  | cons s r => simpa using h

theorem tok_holes (env : TEnv) (hT : TablesHoles env) (t : Token) (r : List PyStmt) (hv : vtokOK t = true)
    (h : transpileToken env t = .ok r) : holesL r = true := by
  apply token_holes_ok env ?_ t r ?_ h
  · unfold TablesHoles at hT
    rw [List.all_append, Bool.and_eq_true] at hT
    exact hT.1
  · intro hk c hc
    unfold vtokOK at hv
    rcases hk with hk | hk <;> simp only [hk] at hv <;> exact List.all_eq_true.mp hv c hc

theorem lookup_mem (tbl : List Gen.Entry) (k : Str) (e : Gen.Entry) (h : lookupEntry tbl k = some e) : e ∈ tbl := by
  have : ∀ (l : List Gen.Entry) (acc : Option Gen.Entry),
      l.foldl (fun acc e => if e.key = k then some e else acc) acc = some e → e ∈ l ∨ acc = some e := by
    intro l
    induction l with
    | nil => intro acc h; exact Or.inr h
    | cons x xs ih =>
      intro acc h
      simp only [List.foldl_cons] at h
      rcases ih _ h with h1 | h1
      · exact Or.inl (List.mem_cons_of_mem _ h1)
      · split at h1
        · simp at h1; subst h1; exact Or.inl (by simp)
        · exact Or.inr h1
  rcases this tbl none h with h1 | h1
  · exact h1
  · simp at h1

theorem mod_holes (env : TEnv) (hT : TablesHoles env) (m : Str) (tmpl : List PyStmt) (ht : modTemplate env m = .ok tmpl) :
    holesL tmpl = true := by
  unfold modTemplate at ht
  cases hl : lookupEntry env.modifiers m with
  | none => simp [hl] at ht; subst ht; simp [holesL, holesS]
  | some e =>
    simp only [hl] at ht
    cases hb : e.body with
    | none => simp [hb] at ht
    | some b =>
      simp [hb] at ht; subst ht
      have := List.all_eq_true.mp hT e (List.mem_append_right _ (lookup_mem _ _ _ hl))
      simpa [entryHoles, hb] using this

theorem ifChain_holes : ∀ (cs : List (List PyStmt)), holesLL cs = true → holesL (ifChain cs) = true
  | [], _ => by simp [ifChain, holesL]
  | [b0], h => by
      simp only [holesLL, Bool.and_eq_true] at h
      simp [ifChain, holesL, holesS, condPop, boolifyCond, assign1, callN, nm, pop1kw, stackE, kwCtx, ctxE, holesE, holesEL, holesKw, h.1]
  | [b0, b1], h => by
      simp only [holesLL, Bool.and_eq_true] at h
      simp [ifChain, holesL, holesS, condPop, boolifyCond, assign1, callN, nm, pop1kw, stackE, kwCtx, ctxE, holesE, holesEL, holesKw, h.1, h.2.1]
  | b0 :: b1 :: b2 :: rest, h => by
      simp only [holesLL, Bool.and_eq_true] at h
      have ih := ifChain_holes (b2 :: rest) (by simp only [holesLL, Bool.and_eq_true]; exact h.2.2)
      simp only [ifChain]
      simp [holesL, holesS, holesL_append, condPop, boolifyCond, assign1, callN, nm, pop1kw, stackE, kwCtx, ctxE, holesE, holesEL, holesKw,
        h.1, h.2.1, ih]

theorem for_holes (var : PyExpr) (body : List PyStmt) (hv : holesE var = true) (hb : holesL body = true) :
    holesL (forTemplate var body) = true := by
  simp [forTemplate, holesL, holesS, holesL_append, hb, hv, ctxCall, ctxE, callN, nm, pop1kw, stackE, kwCtx, holesE, holesEL, holesKw]

theorem while_holes (c1 c2 body : List PyStmt) (h1 : holesL c1 = true) (h2 : holesL c2 = true) (hb : holesL body = true) :
    holesL (c1 ++ [ condPop, .whileS boolifyCond
      ([ctxCall "context_values" "append" [nm "condition"]] ++ body ++ [ctxCall "context_values" "pop" []] ++ c2 ++ [condPop]) ]) = true := by
  simp [holesL, holesS, holesL_append, h1, h2, hb, condPop, boolifyCond, assign1, ctxCall, ctxE, callN, nm, pop1kw, stackE, kwCtx, holesE,
    holesEL, holesKw]

theorem san_all (s : Str) : (sanitise s).all isAlnumU = true := List.all_eq_true.mpr (sanitise_ident s)
theorem dig_all (k : Nat) : (digitsOfNat k).all isAlnumU = true := List.all_eq_true.mpr (digits_ident k)

theorem fnCall_holes (name : Str) : holesL (fnCallTemplate name) = true := by
  simp [fnCallTemplate, holesL, holesS, stackE, ctxE, holesE, holesEL, holesKw, san_all]

theorem paramStmt_holes (p : Str) : holesS (paramStmt p) = true := by
  unfold paramStmt
  split
  · simp [holesS, nm, callN, ctxE, holesE, holesEL, holesKw]
  · split
    · simp [holesS, nm, pop1kw, kwCtx, ctxE, holesE, holesEL, holesKw]
    · simp [holesS, assign1, nm, pop1kw, kwCtx, ctxE, holesE, holesEL, holesKw, san_all]

theorem params_holes : ∀ ps : List Str, holesL (ps.map paramStmt) = true
  | [] => by simp [holesL]
  | p :: ps => by simp [holesL, paramStmt_holes p, params_holes ps]

theorem fnDef_holes (name : Str) (params : List Str) (body : List PyStmt) (hb : holesL body = true) :
    holesL (fnDefTemplate name params body) = true := by
  have hp : holesL (fnDefPrologue name params) = true := by
    simp [fnDefPrologue, holesL, holesS, holesL_append, params_holes, assign1, ctxCall, ctxE, nm, stackE, holesE, holesEL, holesKw, holesO,
      san_all]
  have he : holesL fnDefEpilogue = true := by decide
  simp [fnDefTemplate, holesL, holesS, holesL_append, hp, he, hb, san_all]

theorem arity_holes (ar : Option Nat) : holesE (arityExpr ar) = true := by
  cases ar <;> simp [arityExpr, holesE, ctxE]

theorem pyInt_holes (i : Int) : holesE (pyInt i) = true := by
  unfold pyInt; split <;> simp [holesE]

theorem lambda_holes (k : Nat) (ar : PyExpr) (body : List PyStmt) (har : holesE ar = true) (hb : holesL body = true) :
    holesL (lambdaTemplate (digitsOfNat k) ar body) = true := by
  have hp : holesL (lambdaPrologue ar) = true := by
    simp [lambdaPrologue, holesL, holesS, assign1, ctxCall, ctxE, callN, nm, stackE, kwCtx, holesE, holesEL, holesKw, holesC, holesO, har]
  have he : holesL lambdaEpilogue = true := by decide
  simp [lambdaTemplate, holesL, holesS, holesL_append, hp, he, hb, holesE, assign1, push, stackE, holesEL, holesKw, har, dig_all]

theorem listItem_holes (item : List PyStmt) (hi : holesL item = true) : holesL (listItemTemplate item) = true := by
  have he : holesL listItemEpilogue = true := by decide
  simp [listItemTemplate, holesL, holesS, holesL_append, hi, he, assign1, callN, nm, stackE, ctxE, holesE, holesEL, holesKw, holesO, holesC]

theorem listItems_holes : ∀ items : List (List PyStmt), holesLL items = true → holesL (items.map listItemTemplate).flatten = true
  | [], _ => by simp [holesL]
  | i :: r, h => by
      simp only [holesLL, Bool.and_eq_true] at h
      simp [holesL_append, listItem_holes i h.1, listItems_holes r h.2]

theorem list_holes (items : List (List PyStmt)) (h : holesLL items = true) : holesL (listTemplate items) = true := by
  simp [listTemplate, holesL, holesS, holesL_append, listItems_holes items h, assign1, push, callN, nm, stackE, holesE, holesEL, holesKw]

theorem break_holes (p : Parent) : holesL (breakTemplate p) = true := by cases p <;> decide
theorem recurse_holes (p : Parent) : holesL (recurseTemplate p) = true := by cases p <;> decide

theorem functionPop_holes (x : String) : holesS (functionPop x) = true := by
  simp [functionPop, holesS, assign1, nm, pop1pos, stackE, ctxE, holesE, holesEL, holesKw]

mutual
theorem trS_holes (env : TEnv) (hT : TablesHoles env) : ∀ (s : Structure) (k : Nat) (code : List PyStmt) (k' : Nat),
    vtokS s = true → transpileS env k s = .ok (code, k') → holesL code = true
  | .generic t, k, code, k', hp, ht => by
      simp only [transpileS] at ht
      cases htt : transpileToken env t with
      | error e => simp [htt] at ht
      | ok c => simp [htt] at ht; obtain ⟨h1, _⟩ := ht; subst h1; exact tok_holes env hT t c (by simpa [vtokS] using hp) htt
  | .brk p, k, code, k', _, ht => by
      simp [transpileS] at ht; obtain ⟨h1, _⟩ := ht; subst h1; exact break_holes p
  | .recurse p, k, code, k', _, ht => by
      simp [transpileS] at ht; obtain ⟨h1, _⟩ := ht; subst h1; exact recurse_holes p
  | .ifS bs, k, code, k', hp, ht => by
      simp only [vtokS] at hp
      simp only [transpileS] at ht
      cases hll : transpileLL env k bs with
      | error e => simp [hll] at ht
      | ok r =>
        obtain ⟨cs, k1⟩ := r
        simp [hll] at ht; obtain ⟨h1, _⟩ := ht; subst h1
        exact ifChain_holes cs (trLL_holes env hT bs k cs k1 hp hll)
  | .forS names body, k, code, k', hp, ht => by
      simp only [vtokS] at hp
      cases names with
      | nil =>
        simp only [transpileS] at ht
        cases hb : transpileL env (k + 1) body with
        | error e => simp [hb] at ht
        | ok r =>
          obtain ⟨b, k2⟩ := r
          simp [hb] at ht; obtain ⟨h1, _⟩ := ht; subst h1
          exact for_holes _ _ (by simp [holesE, dig_all]; decide) (holes_orPass b (trL_holes env hT body (k + 1) b k2 hp hb))
      | cons nm rest =>
        simp only [transpileS] at ht
        cases hb : transpileL env k body with
        | error e => simp [hb] at ht
        | ok r =>
          obtain ⟨b, k2⟩ := r
          simp [hb] at ht; obtain ⟨h1, _⟩ := ht; subst h1
          have hbw := holes_orPass b (trL_holes env hT body k b k2 hp hb)
          split
          · exact for_holes _ _ (by simp [holesE, ctxE]) hbw
          · exact for_holes _ _ (by simp [holesE, san_all]) hbw
  | .whileS Option.none body, k, code, k', hp, ht => by
      simp only [vtokS] at hp
      simp only [transpileS] at ht
      cases hc : transpileToken env ⟨.number, [49]⟩ with
      | error e => simp [hc] at ht
      | ok c =>
        cases hb : transpileL env k body with
        | error e => simp [hc, hb] at ht
        | ok r =>
          obtain ⟨b, k2⟩ := r
          simp [hc, hb] at ht; obtain ⟨h1, _⟩ := ht; subst h1
          have hcw := tok_holes env hT _ c (by simp [vtokOK]) hc
          have := while_holes c c (orPass b) hcw hcw (holes_orPass b (trL_holes env hT body k b k2 hp hb))
          simpa [whileTemplate] using this
  | .whileS (some cnd) body, k, code, k', hp, ht => by
      simp only [vtokS, Bool.and_eq_true] at hp
      simp only [transpileS] at ht
      cases hc1 : transpileL env k cnd with
      | error e => simp [hc1] at ht
      | ok r1 =>
        obtain ⟨c1, k1⟩ := r1
        cases hb : transpileL env k1 body with
        | error e => simp [hc1, hb] at ht
        | ok r2 =>
          obtain ⟨b, k2⟩ := r2
          cases hc2 : transpileL env k2 cnd with
          | error e => simp [hc1, hb, hc2] at ht
          | ok r3 =>
            obtain ⟨c2, k3⟩ := r3
            simp [hc1, hb, hc2] at ht; obtain ⟨h1, _⟩ := ht; subst h1
            have := while_holes (orPass c1) (orPass c2) (orPass b) (holes_orPass c1 (trL_holes env hT cnd k c1 k1 hp.1 hc1))
              (holes_orPass c2 (trL_holes env hT cnd k2 c2 k3 hp.1 hc2)) (holes_orPass b (trL_holes env hT body k1 b k2 hp.2 hb))
            simpa using this
  | .fnCall name, k, code, k', _, ht => by
      simp [transpileS] at ht; obtain ⟨h1, _⟩ := ht; subst h1; exact fnCall_holes name
  | .fnDef name params body, k, code, k', hp, ht => by
      simp only [vtokS] at hp
      simp only [transpileS] at ht
      cases hb : transpileL env k body with
      | error e => simp [hb] at ht
      | ok r =>
        obtain ⟨b, k2⟩ := r
        simp [hb] at ht; obtain ⟨h1, _⟩ := ht; subst h1
        exact fnDef_holes name params _ (holes_orPass b (trL_holes env hT body k b k2 hp hb))
  | .lam ar body, k, code, k', hp, ht => by
      simp only [vtokS] at hp
      simp only [transpileS] at ht
      cases hb : transpileL env (k + 1) body with
      | error e => simp [hb] at ht
      | ok r =>
        obtain ⟨b, k2⟩ := r
        simp [hb] at ht; obtain ⟨h1, _⟩ := ht; subst h1
        exact lambda_holes k _ _ (arity_holes ar) (holes_orPass b (trL_holes env hT body (k + 1) b k2 hp hb))
  | .lamOp kind body, k, code, k', hp, ht => by
      simp only [vtokS] at hp
      simp only [transpileS] at ht
      cases hb : transpileL env (k + 1) body with
      | error e => simp [hb] at ht
      | ok r =>
        obtain ⟨b, k2⟩ := r
        cases hta : transpileToken env ⟨.general, lamOpKey kind⟩ with
        | error e => simp [hb, hta] at ht
        | ok a =>
          simp [hb, hta] at ht; obtain ⟨h1, _⟩ := ht; subst h1
          rw [holesL_append, lambda_holes k _ _ (by simp [holesE]) (holes_orPass b (trL_holes env hT body (k + 1) b k2 hp hb)),
            tok_holes env hT _ a (by simp [vtokOK]) hta]
          rfl
  | .listS items, k, code, k', hp, ht => by
      simp only [vtokS] at hp
      simp only [transpileS] at ht
      cases hll : transpileLL env k items with
      | error e => simp [hll] at ht
      | ok r =>
        obtain ⟨cs, k1⟩ := r
        simp [hll] at ht; obtain ⟨h1, _⟩ := ht; subst h1
        exact list_holes cs (trLL_holes env hT items k cs k1 hp hll)
  | .mon m a, k, code, k', hp, ht => by
      simp only [vtokS] at hp
      simp only [transpileS] at ht
      cases hw : wrapLambda env k a with
      | error e => simp [hw] at ht
      | ok r =>
        obtain ⟨fa, k1⟩ := r
        cases hmt : modTemplate env m with
        | error e => simp [hw, hmt] at ht
        | ok tmpl =>
          simp [hw, hmt] at ht; obtain ⟨h1, _⟩ := ht; subst h1
          simp [holesL_append, holesL, wrap_holes env hT a k fa k1 hp hw, functionPop_holes, mod_holes env hT m tmpl hmt]
  | .dy m a b, k, code, k', hp, ht => by
      simp only [vtokS, Bool.and_eq_true] at hp
      simp only [transpileS] at ht
      cases hwa : wrapLambda env k a with
      | error e => simp [hwa] at ht
      | ok r =>
        obtain ⟨fa, k1⟩ := r
        cases hwb : wrapLambda env k1 b with
        | error e => simp [hwa, hwb] at ht
        | ok r2 =>
          obtain ⟨fb, k2⟩ := r2
          cases hmt : modTemplate env m with
          | error e => simp [hwa, hwb, hmt] at ht
          | ok tmpl =>
            simp [hwa, hwb, hmt] at ht; obtain ⟨h1, _⟩ := ht; subst h1
            simp [holesL_append, holesL, wrap_holes env hT a k fa k1 hp.1 hwa, wrap_holes env hT b k1 fb k2 hp.2 hwb, functionPop_holes,
              mod_holes env hT m tmpl hmt]
  | .tri m a b c, k, code, k', hp, ht => by
      simp only [vtokS, Bool.and_eq_true] at hp
      simp only [transpileS] at ht
      cases hwa : wrapLambda env k a with
      | error e => simp [hwa] at ht
      | ok r =>
        obtain ⟨fa, k1⟩ := r
        cases hwb : wrapLambda env k1 b with
        | error e => simp [hwa, hwb] at ht
        | ok r2 =>
          obtain ⟨fb, k2⟩ := r2
          cases hwc : wrapLambda env k2 c with
          | error e => simp [hwa, hwb, hwc] at ht
          | ok r3 =>
            obtain ⟨fc, k3⟩ := r3
            cases hmt : modTemplate env m with
            | error e => simp [hwa, hwb, hwc, hmt] at ht
            | ok tmpl =>
              simp [hwa, hwb, hwc, hmt] at ht; obtain ⟨h1, _⟩ := ht; subst h1
              simp [holesL_append, holesL, wrap_holes env hT a k fa k1 hp.1.1 hwa, wrap_holes env hT b k1 fb k2 hp.1.2 hwb,
                wrap_holes env hT c k2 fc k3 hp.2 hwc, functionPop_holes, mod_holes env hT m tmpl hmt]
theorem wrap_holes (env : TEnv) (hT : TablesHoles env) : ∀ (s : Structure) (k : Nat) (code : List PyStmt) (k' : Nat),
    vtokS s = true → wrapLambda env k s = .ok (code, k') → holesL code = true
  | .generic t, k, code, k', hp, hw => by
      simp only [wrapLambda] at hw
      cases ht : transpileToken env t with
      | error e => simp [ht] at hw
      | ok b =>
        simp [ht] at hw; obtain ⟨h1, _⟩ := hw; subst h1
        exact lambda_holes k _ _ (pyInt_holes _) (tok_holes env hT t b (by simpa [vtokS] using hp) ht)
  | .lam ar body, k, code, k', hp, hw => by
      simp only [wrapLambda] at hw
      exact trS_holes env hT (.lam ar body) k code k' hp hw
  | .brk p, k, code, k', hp, hw => by
      simp only [wrapLambda] at hw
      cases hb : transpileS env (k + 1) (.brk p) with
      | error e => simp [hb] at hw
      | ok r =>
        obtain ⟨b, k2⟩ := r; simp [hb] at hw; obtain ⟨h1, _⟩ := hw; subst h1
        exact lambda_holes k _ _ (by simp [holesE]) (trS_holes env hT _ (k + 1) b k2 hp hb)
  | .recurse p, k, code, k', hp, hw => by
      simp only [wrapLambda] at hw
      cases hb : transpileS env (k + 1) (.recurse p) with
      | error e => simp [hb] at hw
      | ok r =>
        obtain ⟨b, k2⟩ := r; simp [hb] at hw; obtain ⟨h1, _⟩ := hw; subst h1
        exact lambda_holes k _ _ (by simp [holesE]) (trS_holes env hT _ (k + 1) b k2 hp hb)
  | .ifS bs, k, code, k', hp, hw => by
      simp only [wrapLambda] at hw
      cases hb : transpileS env (k + 1) (.ifS bs) with
      | error e => simp [hb] at hw
      | ok r =>
        obtain ⟨b, k2⟩ := r; simp [hb] at hw; obtain ⟨h1, _⟩ := hw; subst h1
        exact lambda_holes k _ _ (by simp [holesE]) (trS_holes env hT _ (k + 1) b k2 hp hb)
  | .forS ns body, k, code, k', hp, hw => by
      simp only [wrapLambda] at hw
      cases hb : transpileS env (k + 1) (.forS ns body) with
      | error e => simp [hb] at hw
      | ok r =>
        obtain ⟨b, k2⟩ := r; simp [hb] at hw; obtain ⟨h1, _⟩ := hw; subst h1
        exact lambda_holes k _ _ (by simp [holesE]) (trS_holes env hT _ (k + 1) b k2 hp hb)
  | .whileS c body, k, code, k', hp, hw => by
      simp only [wrapLambda] at hw
      cases hb : transpileS env (k + 1) (.whileS c body) with
      | error e => simp [hb] at hw
      | ok r =>
        obtain ⟨b, k2⟩ := r; simp [hb] at hw; obtain ⟨h1, _⟩ := hw; subst h1
        exact lambda_holes k _ _ (by simp [holesE]) (trS_holes env hT _ (k + 1) b k2 hp hb)
  | .fnCall nme, k, code, k', hp, hw => by
      simp only [wrapLambda] at hw
      cases hb : transpileS env (k + 1) (.fnCall nme) with
      | error e => simp [hb] at hw
      | ok r =>
        obtain ⟨b, k2⟩ := r; simp [hb] at hw; obtain ⟨h1, _⟩ := hw; subst h1
        exact lambda_holes k _ _ (by simp [holesE]) (trS_holes env hT _ (k + 1) b k2 hp hb)
  | .fnDef nme ps body, k, code, k', hp, hw => by
      simp only [wrapLambda] at hw
      cases hb : transpileS env (k + 1) (.fnDef nme ps body) with
      | error e => simp [hb] at hw
      | ok r =>
        obtain ⟨b, k2⟩ := r; simp [hb] at hw; obtain ⟨h1, _⟩ := hw; subst h1
        exact lambda_holes k _ _ (by simp [holesE]) (trS_holes env hT _ (k + 1) b k2 hp hb)
  | .lamOp kd body, k, code, k', hp, hw => by
      simp only [wrapLambda] at hw
      cases hb : transpileS env (k + 1) (.lamOp kd body) with
      | error e => simp [hb] at hw
      | ok r =>
        obtain ⟨b, k2⟩ := r; simp [hb] at hw; obtain ⟨h1, _⟩ := hw; subst h1
        exact lambda_holes k _ _ (by simp [holesE]) (trS_holes env hT _ (k + 1) b k2 hp hb)
  | .listS items, k, code, k', hp, hw => by
      simp only [wrapLambda] at hw
      cases hb : transpileS env (k + 1) (.listS items) with
      | error e => simp [hb] at hw
      | ok r =>
        obtain ⟨b, k2⟩ := r; simp [hb] at hw; obtain ⟨h1, _⟩ := hw; subst h1
        exact lambda_holes k _ _ (by simp [holesE]) (trS_holes env hT _ (k + 1) b k2 hp hb)
  | .mon m x, k, code, k', hp, hw => by
      simp only [wrapLambda] at hw
      cases hb : transpileS env (k + 1) (.mon m x) with
      | error e => simp [hb] at hw
      | ok r =>
        obtain ⟨b, k2⟩ := r; simp [hb] at hw; obtain ⟨h1, _⟩ := hw; subst h1
        exact lambda_holes k _ _ (by simp [holesE]) (trS_holes env hT _ (k + 1) b k2 hp hb)
  | .dy m x y, k, code, k', hp, hw => by
      simp only [wrapLambda] at hw
      cases hb : transpileS env (k + 1) (.dy m x y) with
      | error e => simp [hb] at hw
      | ok r =>
        obtain ⟨b, k2⟩ := r; simp [hb] at hw; obtain ⟨h1, _⟩ := hw; subst h1
        exact lambda_holes k _ _ (by simp [holesE]) (trS_holes env hT _ (k + 1) b k2 hp hb)
  | .tri m x y z, k, code, k', hp, hw => by
      simp only [wrapLambda] at hw
      cases hb : transpileS env (k + 1) (.tri m x y z) with
      | error e => simp [hb] at hw
      | ok r =>
        obtain ⟨b, k2⟩ := r; simp [hb] at hw; obtain ⟨h1, _⟩ := hw; subst h1
        exact lambda_holes k _ _ (by simp [holesE]) (trS_holes env hT _ (k + 1) b k2 hp hb)
theorem trL_holes (env : TEnv) (hT : TablesHoles env) : ∀ (prog : List Structure) (k : Nat) (code : List PyStmt) (k' : Nat),
    vtokL prog = true → transpileL env k prog = .ok (code, k') → holesL code = true
  | [], k, code, k', _, ht => by
      simp [transpileL] at ht; obtain ⟨h1, _⟩ := ht; subst h1; simp [holesL]
  | s :: rest, k, code, k', hp, ht => by
      simp only [vtokL, Bool.and_eq_true] at hp
      simp only [transpileL] at ht
      cases hs : transpileS env k s with
      | error e => simp [hs] at ht
      | ok r1 =>
        obtain ⟨a, k1⟩ := r1
        cases hr : transpileL env k1 rest with
        | error e => simp [hs, hr] at ht
        | ok r2 =>
          obtain ⟨b, k2⟩ := r2
          simp [hs, hr] at ht; obtain ⟨h1, _⟩ := ht; subst h1
          rw [holesL_append, trS_holes env hT s k a k1 hp.1 hs, trL_holes env hT rest k1 b k2 hp.2 hr]; rfl
theorem trLL_holes (env : TEnv) (hT : TablesHoles env) : ∀ (bs : List (List Structure)) (k : Nat) (cs : List (List PyStmt)) (k' : Nat),
    vtokLL bs = true → transpileLL env k bs = .ok (cs, k') → holesLL cs = true
  | [], k, cs, k', _, ht => by
      simp [transpileLL] at ht; obtain ⟨h1, _⟩ := ht; subst h1; simp [holesLL]
  | b :: rest, k, cs, k', hp, ht => by
      simp only [vtokLL, Bool.and_eq_true] at hp
      simp only [transpileLL] at ht
      cases hl : transpileL env k b with
      | error e => simp [hl] at ht
      | ok r1 =>
        obtain ⟨a, k1⟩ := r1
        cases hr : transpileLL env k1 rest with
        | error e => simp [hl, hr] at ht
        | ok r2 =>
          obtain ⟨c, k2⟩ := r2
          simp [hl, hr] at ht; obtain ⟨h1, _⟩ := ht; subst h1
          simp only [holesLL, Bool.and_eq_true]
          exact ⟨holes_orPass a (trL_holes env hT b k a k1 hp.1 hl), trLL_holes env hT rest k1 c k2 hp.2 hr⟩
end

/-- **C18, tree level**: in the Python generated for *any* parsed program — every structure, modifier and token kind, any
    nesting — every identifier that is derived from program text (variable, function, parameter and loop-variable names, the
    `_lambda_<k>` counters) consists of letters, digits and underscores after its fixed prefix; everything else the program
    supplies is a constant (`token_holes_ok`, `escape_is_one_literal`, `number_parts_chars`).  The only hypothesis on the
    tree is the lexer's own guarantee on variable tokens (`lex_variable_letters`). -/
theorem names_from_vocabulary (env : TEnv) (hT : TablesHoles env) (prog : List Structure) (hp : vtokL prog = true)
    (code : List PyStmt) (ht : transpileAst env prog = .ok code) : holesL code = true := by
  unfold transpileAst at ht
  cases htl : transpileL env 0 prog with
  | error e => simp [htl] at ht
  | ok r =>
    obtain ⟨c, k'⟩ := r
    simp [htl] at ht; subst ht
    exact holes_orPass c (trL_holes env hT prog 0 c k' hp htl)

/-- **C18, from the source text**: for *every* source string — any characters at all — whose token list parses and
    transpiles, every program-derived identifier of the generated Python is sanitised and everything else the program
    supplies is a constant.  No hypothesis on the program is left: the lexer's guarantee (`lex_variable_letters`) and the
    parser's (`parse_vtok`: it only puts tokens of its input into the tree) discharge `vtokL`. -/
theorem names_from_vocabulary_source (env : TEnv) (hT : TablesHoles env) (src : Str) (tree : List Structure)
    (hp : parseTop (tokenise src) = .ok tree) (code : List PyStmt) (ht : transpileAst env tree = .ok code) :
    holesL code = true :=
  names_from_vocabulary env hT tree (parseTop_vtok (tokenise src) (lex_variable_letters src) tree hp) code ht

theorem gen_tables_holes (env : TEnv) (he : env.elements = Gen.elements) (hm : env.modifiers = Gen.modifiers) : TablesHoles env := by
  unfold TablesHoles; rw [he, hm]; exact tables_have_no_program_holes

end C18
