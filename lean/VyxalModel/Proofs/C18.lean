import VyxalModel.Model.Transpile
import VyxalModel.Lemmas.Strings
import VyxalModel.Lemmas.Number
import VyxalModel.Lemmas.LexInv
import VyxalModel.Gen.Elements
import VyxalModel.Gen.Modifiers
/-!
# C18 — generated Python contains program text only as constants

In the transpiler model program-supplied text can enter the output only through five constructors
(`cstrN`, `cint`, `pname`, `pattr`, `defP`): the generated tables contain none of them
(`tables_have_no_program_holes`), and `token_holes_ok` / the sanitiser lemmas show that whatever the
program text is,
* a string / character / compressed literal is **one** string constant (`escape_is_one_literal`:
  the hand-written escaping always yields the body of exactly one Python literal — for every string);
* a number token hands sympy a constant made of the token's own characters and `0 . 5 + 1 * I space`
  (`number_parts_chars`), and the lexer only puts digits, points and `°` into a number token
  (`lex_number_chars`);
* every identifier is a fixed prefix followed by letters, digits and underscores (`sanitise_ident`,
  `lex_variable_letters`, `token_holes_ok`).
-/
namespace C18
open Vy PyAst

/-- the string path: for every string the escaped text is the body of exactly one Python literal -/
theorem escape_is_one_literal (s : Str) : (pyStringBody (escapeString s)).isSome = true :=
  _root_.escape_is_one_literal s

def IdentChars (s : Str) : Prop := ∀ c ∈ s, isAlnumU c = true

theorem sanitise_ident (s : Str) : IdentChars (sanitise s) := by
  intro c hc
  exact (List.mem_filter.mp hc).2

theorem digits_ident (n : Nat) : IdentChars (digitsOfNat n) := by
  intro c hc
  simp only [digitsOfNat, List.mem_map] at hc
  obtain ⟨ch, hch, rfl⟩ := hc
  have hd : ch.isDigit = true := Nat.isDigit_of_mem_toDigits (by decide) (by decide) hch
  have hr : 48 ≤ ch.toNat ∧ ch.toNat ≤ 57 := by
    simp only [Char.isDigit, Bool.and_eq_true, decide_eq_true_eq] at hd
    have h1 : (48 : UInt32).toNat ≤ ch.val.toNat := UInt32.le_iff_toNat_le.mp hd.1
    have h2 : ch.val.toNat ≤ (57 : UInt32).toNat := UInt32.le_iff_toNat_le.mp hd.2
    exact ⟨h1, h2⟩
  simp only [isAlnumU, isDigit, Bool.or_eq_true, Bool.and_eq_true, decide_eq_true_eq]
  exact Or.inr hr

/-! ## what the lexer lets into a number / variable token -/

theorem lex_number_chars (s : Str) : ∀ t ∈ tokenise s, t.kind = .number → ∀ c ∈ t.value, isNumCh c = true :=
  tokenise_forall (fun t => t.kind = .number → ∀ c ∈ t.value, isNumCh c = true)
    (fun s t r h hk => lexStep_number_chars s t r h hk) s

theorem lex_variable_letters (s : Str) :
    ∀ t ∈ tokenise s, (t.kind = .vget ∨ t.kind = .vset) → ∀ c ∈ t.value, isLetter c = true :=
  tokenise_forall (fun t => (t.kind = .vget ∨ t.kind = .vset) → ∀ c ∈ t.value, isLetter c = true)
    (fun s t r h hk => lexStep_variable_letters s t r h hk) s

/-! ## the number payload -/

theorem splitOn_mem (sep : Nat) : ∀ (s : Str), ∀ p ∈ splitOn sep s, ∀ c ∈ p, c ∈ s
  | [], p, hp, c, hc => by simp [splitOn] at hp; subst hp; simp at hc
  | x :: xs, p, hp, c, hc => by
    have ih := splitOn_mem sep xs
    simp only [splitOn] at hp
    cases hsp : splitOn sep xs with
    | nil => simp [hsp] at hp; subst hp; simp at hc
    | cons h t =>
      simp only [hsp] at hp
      split at hp
      · rcases List.mem_cons.mp hp with rfl | hp
        · simp at hc
        · exact List.mem_cons_of_mem _ (ih p (by rw [hsp]; exact hp) c hc)
      · rcases List.mem_cons.mp hp with rfl | hp
        · rcases List.mem_cons.mp hc with rfl | hc
          · simp
          · exact List.mem_cons_of_mem _ (ih h (by rw [hsp]; simp) c hc)
        · exact List.mem_cons_of_mem _ (ih p (by rw [hsp]; exact List.mem_cons_of_mem _ hp) c hc)

def numberExtra : Str := [48, 46, 53, 43, 49, 32, 42, 73]   -- 0 . 5 + 1 space * I

theorem joinPlus_mem : ∀ (ps : List Str), ∀ c ∈ joinPlus ps, c = 43 ∨ ∃ p ∈ ps, c ∈ p
  | [], c, hc => by simp [joinPlus] at hc
  | [p], c, hc => by simp only [joinPlus] at hc; exact Or.inr ⟨p, by simp, hc⟩
  | p :: q :: r, c, hc => by
    simp only [joinPlus, List.mem_append, List.mem_cons] at hc
    rcases hc with hc | rfl | hc
    · exact Or.inr ⟨p, by simp, hc⟩
    · exact Or.inl rfl
    · rcases joinPlus_mem (q :: r) c hc with h | ⟨p', hp', h⟩
      · exact Or.inl h
      · exact Or.inr ⟨p', List.mem_cons_of_mem _ hp', h⟩

/-- every character of the text handed to sympy is a character of the token or one of `0 . 5 + 1 * I space` -/
theorem number_parts_chars (v : Str) : ∀ c ∈ numberParts v, c ∈ v ∨ c ∈ numberExtra := by
  have hparts : ∀ c ∈ joinPlus ((splitDeg v).map (fun p => if p = [cDot] then [48, 46, 53] else p)), c ∈ v ∨ c ∈ numberExtra := by
    intro c hc
    rcases joinPlus_mem _ c hc with rfl | ⟨p, hp, hcp⟩
    · exact Or.inr (by decide)
    · obtain ⟨q, hq, rfl⟩ := List.mem_map.mp hp
      split at hcp
      · exact Or.inr (by
          simp only [List.mem_cons, List.not_mem_nil, or_false] at hcp
          rcases hcp with rfl | rfl | rfl <;> decide)
      · exact Or.inl (splitOn_mem cDeg v q hq c hcp)
  intro c hc
  simp only [numberParts] at hc
  split at hc
  · rcases List.mem_append.mp hc with h | h
    · exact hparts c h
    · exact Or.inr (by simp at h; subst h; decide)
  · split at hc
    · rcases List.mem_append.mp hc with h | h
      · exact hparts c h
      · exact Or.inr (by
          simp only [List.mem_cons, List.not_mem_nil, or_false] at h
          rcases h with rfl | rfl | rfl | rfl | rfl <;> decide)
    · split at hc
      · rcases List.mem_append.mp hc with h | h
        · exact hparts c h
        · exact Or.inr (by
            simp only [List.mem_cons, List.not_mem_nil, or_false] at h
            rcases h with rfl | rfl | rfl <;> decide)
      · exact hparts c hc

/-! ## program text enters the output only through sanitised holes -/

mutual
/-- every program-derived identifier in the expression is made of letters, digits and underscores -/
def holesE : PyExpr → Bool
  | .pname _ s => s.all isAlnumU
  | .pattr e _ s => holesE e && s.all isAlnumU
  | .call f args kw => holesE f && holesEL args && holesKw kw
  | .attr e _ => holesE e
  | .subscript e i => holesE e && holesE i
  | .slice a b c => holesO a && holesO b && holesO c
  | .binop _ l r => holesE l && holesE r
  | .boolop _ vs => holesEL vs
  | .unary _ e => holesE e
  | .compare l rest => holesE l && holesC rest
  | .list xs => holesEL xs
  | .tuple xs => holesEL xs
  | .starred e => holesE e
  | .ifExp c t e => holesE c && holesE t && holesE e
  | .lambda _ b => holesE b
  | .other _ cs => holesEL cs
  | _ => true
def holesEL : List PyExpr → Bool
  | [] => true
  | x :: xs => holesE x && holesEL xs
def holesKw : List (String × PyExpr) → Bool
  | [] => true
  | (_, x) :: xs => holesE x && holesKw xs
def holesC : List (CmpOp × PyExpr) → Bool
  | [] => true
  | (_, x) :: xs => holesE x && holesC xs
def holesO : Option PyExpr → Bool
  | none => true
  | some e => holesE e
end

mutual
def holesS : PyStmt → Bool
  | .assign ts v => holesEL ts && holesE v
  | .augAssign t _ v => holesE t && holesE v
  | .expr e => holesE e
  | .ifS c t e => holesE c && holesL t && holesL e
  | .whileS c b => holesE c && holesL b
  | .forS t it b => holesE t && holesE it && holesL b
  | .defS _ _ b => holesL b
  | .defP _ s _ b => s.all isAlnumU && holesL b
  | .ret v => holesO v
  | .tryS b hs o f => holesL b && holesLL hs && holesL o && holesL f
  | .other _ es ss => holesEL es && holesL ss
  | _ => true
def holesL : List PyStmt → Bool
  | [] => true
  | s :: r => holesS s && holesL r
def holesLL : List (List PyStmt) → Bool
  | [] => true
  | l :: r => holesL l && holesLL r
end

def entryHoles (e : Gen.Entry) : Bool :=
  match e.body with
  | some b => holesL b
  | none => true

/-- the generated tables contain no program-derived identifier at all (they could not: they are fixed text) -/
theorem tables_have_no_program_holes : (Gen.elements ++ Gen.modifiers).all entryHoles = true := by decide +kernel

theorem letters_alnum {s : Str} (h : ∀ c ∈ s, isLetter c = true) : s.all isAlnumU = true := by
  simp only [List.all_eq_true]
  intro c hc
  simp [isAlnumU, h c hc]

/-- **tokens**: whatever a token carries, what it contributes to the output has only sanitised identifiers;
    the only hypothesis is the lexer's own guarantee on variable tokens (`lex_variable_letters`) -/
theorem token_holes_ok (env : TEnv) (henv : env.elements.all entryHoles = true) (t : Token) (r : List PyStmt)
    (hv : (t.kind = .vget ∨ t.kind = .vset) → ∀ c ∈ t.value, isLetter c = true)
    (h : transpileToken env t = .ok r) : holesL r = true := by
  unfold transpileToken at h
  cases hk : t.kind <;> simp only [hk] at h
  case string =>
    split at h <;> simp at h
    subst h; simp [holesL, holesS, push, holesE, holesEL, holesKw, stackE]
  case number =>
    simp at h; subst h
    simp [holesL, holesS, push, holesE, holesEL, holesKw, stackE]
  case character =>
    simp at h; subst h; simp [holesL, holesS, push, holesE, holesEL, holesKw, stackE]
  case general =>
    split at h
    · simp at h; subst h; simp [holesL, holesS]
    · rename_i e he
      split at h
      · rename_i b hb
        simp at h; subst h
        have hmem : e ∈ env.elements := by
          have : ∀ (l : List Gen.Entry) (acc : Option Gen.Entry),
              l.foldl (fun acc e => if e.key = t.value then some e else acc) acc = some e → e ∈ l ∨ acc = some e := by
            intro l
            induction l with
            | nil => intro acc h; exact Or.inr h
            | cons x xs ih =>
              intro acc h
              simp only [List.foldl_cons] at h
              rcases ih _ h with h1 | h1
              · exact Or.inl (List.mem_cons_of_mem _ h1)
              · split at h1
                · simp at h1; subst h1; exact Or.inl (by simp)
                · exact Or.inr h1
          rcases this env.elements none he with h1 | h1
          · exact h1
          · simp at h1
        have := List.all_eq_true.mp henv e hmem
        simpa [entryHoles, hb] using this
      · simp at h
  case cnum =>
    split at h <;> simp at h
    subst h; simp [holesL, holesS, push, holesE, holesEL, holesKw, stackE]
  case cstr =>
    split at h <;> simp at h
    subst h; simp [holesL, holesS, push, holesE, holesEL, holesKw, stackE]
  case vget =>
    have hl := letters_alnum (hv (Or.inl hk))
    split at h
    · simp at h; subst h; simp [holesL, holesS, push, holesE, holesEL, holesKw, stackE, ctxE]
    · split at h <;> (simp at h; subst h; simp_all [holesL, holesS, push, holesE, holesEL, holesKw, stackE, ctxE])
  case vset =>
    have hl := letters_alnum (hv (Or.inr hk))
    split at h
    · simp at h; subst h
      simp [holesL, holesS, assign1, holesE, holesEL, holesKw, stackE, ctxE, pop1kw, kwCtx]
    · split at h <;> (simp at h; subst h; simp_all [holesL, holesS, assign1, holesE, holesEL, holesKw, stackE, ctxE, pop1kw, pop1pos, kwCtx])
  case cpnum =>
    simp at h; subst h
    have hpi : ∀ i : Int, holesE (pyInt i) = true := by
      intro i; unfold pyInt; split <;> simp [holesE]
    simp [holesL, holesS, push, holesE, holesEL, holesKw, stackE, hpi]

/-- the identifiers the structure templates build from program text are sanitised or counters -/
theorem template_names_ok (name : Str) (k : Nat) :
    (sanitise name).all isAlnumU = true ∧ (digitsOfNat k).all isAlnumU = true ∧
    ([76, 79, 79, 80] ++ digitsOfNat k).all isAlnumU = true := by
  refine ⟨?_, ?_, ?_⟩
  · exact List.all_eq_true.mpr (sanitise_ident name)
  · exact List.all_eq_true.mpr (digits_ident k)
  · simp only [List.all_append, Bool.and_eq_true]
    exact ⟨by decide, List.all_eq_true.mpr (digits_ident k)⟩

end C18
