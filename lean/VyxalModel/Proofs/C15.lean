import VyxalModel.Lemmas.Codec
import VyxalModel.Lemmas.LexLiteral
import VyxalModel.Lemmas.Encoding
import VyxalModel.Model.Transpile
import VyxalModel.Gen.Codepage
import VyxalModel.Lemmas.DictCompress
/-!
# C15 — compression and base-conversion codecs round-trip

* `digits_roundtrip`, `digits_in_base`: `to_base_digits` / `from_base_digits`, every base ≥ 2, every n;
* `alphabet_roundtrip`: `to_base_alphabet` / `from_base_alphabet` over any duplicate-free alphabet;
* `to_base_elem_roundtrip`: the digit loop of the `τ` element with exponent `e`.  The real code obtains
  `e` from a **floating-point** logarithm; the model replaces the float by the contract
  `n < b^(e+1)` (checked on the real code for every generated case, T6).  An over-estimate only adds
  leading zeros;
* `number_compress_roundtrip`: the text `øC` produces lexes to ONE compressed-number token (its payload
  cannot contain `»`), parses to one statement, and the transpiler pushes exactly `n`;
* `string_compress_roundtrip`: same for `øc` and a non-empty lowercase-and-space string that does not
  start with a space.

* `dict_compress_roundtrip`: dictionary compression `øD` — for every string over characters outside the compression
  alphabet and without backslash (printable ASCII is: `printable_outside_compression`), every word list and every
  `max_word_len`, the text the dynamic programme writes is read back by the decompressor as exactly the string, and it is
  never longer than the string (`Lemmas/DictCompress.lean`: every cell of the DP table decodes to its prefix).  The one
  fact about the 23 113-word list the kernel cannot evaluate (it is built with `String.splitOn`) — there are at most
  `160²` words, so every code has two characters — is a hypothesis, checked on both sides on every run.
-/
namespace C15
open Vy PyAst

theorem digits_roundtrip (b : Nat) (hb : 2 ≤ b) (n : Nat) : fromDigits b (toDigits b n) = n := _root_.digits_roundtrip b hb n

theorem digits_in_base (b : Nat) (hb : 2 ≤ b) (n : Nat) : ∀ d ∈ toDigits b n, d < b := _root_.digits_lt b hb n

theorem alphabet_roundtrip (α : Str) (hn : α.Nodup) (h2 : 2 ≤ α.length) (n : Nat) :
    fromAlphabet α (toAlphabet α n) = some n := _root_.alphabet_roundtrip α hn h2 n

theorem to_base_elem_roundtrip (b : Nat) (hb : 2 ≤ b) (e n : Nat) (he : n < b ^ (e + 1)) :
    fromDigits b (toBaseLoop b e n) = n ∧ ∀ d ∈ toBaseLoop b e n, d < b := toBaseLoop_spec b hb e n he

/-! ## the two base-255 alphabets -/

theorem num_alphabet : Gen.numCompress.length = 255 ∧ nodupB Gen.numCompress = true ∧ Gen.numCompress.contains 187 = false := by
  decide +kernel

theorem str_alphabet : Gen.strCompress.length = 255 ∧ nodupB Gen.strCompress = true ∧ Gen.strCompress.contains 171 = false := by
  decide +kernel

theorem base27_alphabet : Gen.base27.length = 27 ∧ nodupB Gen.base27 = true ∧ Gen.base27.head? = some 32 := by
  decide +kernel

/-- decoding the payload the `τ` loop produced gives the number back -/
theorem toBaseAlpha_decode (α : Str) (hn : α.Nodup) (h2 : 2 ≤ α.length) (e n : Nat) (he : n < α.length ^ (e + 1)) :
    fromAlphabet α (toBaseAlpha α e n) = some n := by
  obtain ⟨h1, hlt⟩ := toBaseLoop_spec α.length h2 e n he
  have hmap : toBaseAlpha α e n = (toBaseLoop α.length e n).map (fun i => α.getD i 0) := by
    unfold toBaseAlpha
    apply List.map_congr_left
    intro d hd
    rw [Nat.mod_eq_of_lt (hlt d hd)]
  rw [hmap, fromAlphabet_digits α hn _ hlt, h1]

/-- every character of the payload is a character of the alphabet -/
theorem toBaseAlpha_mem (α : Str) (h2 : 2 ≤ α.length) (e n : Nat) : ∀ c ∈ toBaseAlpha α e n, c ∈ α := by
  intro c hc
  unfold toBaseAlpha at hc
  obtain ⟨d, _, rfl⟩ := List.mem_map.mp hc
  have hlt : d % α.length < α.length := Nat.mod_lt d (by omega)
  rw [getD_mem α _ hlt]
  exact List.getElem_mem hlt

def testEnv (dict : Bool) : TEnv :=
  { elements := [], modifiers := [], codepage := Gen.codepage, numCompress := Gen.numCompress, strCompress := Gen.strCompress,
    base27 := Gen.base27, compression := Gen.compression, dictCompress := dict, small := [], contents := [] }

/-- **`øC`**: the compressed-number text lexes to one token, parses to one statement, and transpiles to a push of `n` -/
theorem number_compress_roundtrip (e n : Nat) (he : n < 255 ^ (e + 1)) (env : TEnv)
    (henv : env.numCompress = Gen.numCompress) :
    let text := compressNum Gen.numCompress e n
    let payload := toBaseAlpha Gen.numCompress e n
    tokenise text = [⟨.cnum, payload⟩]
    ∧ parseTop [⟨.cnum, payload⟩] = .ok [.generic ⟨.cnum, payload⟩]
    ∧ transpileToken env ⟨.cnum, payload⟩ = .ok [push (.cint n)] := by
  obtain ⟨hl, hnd, h187⟩ := num_alphabet
  have hn : Gen.numCompress.Nodup := nodupB_sound _ hnd
  have hne : ∀ c ∈ toBaseAlpha Gen.numCompress e n, c ≠ 187 := by
    intro c hc h
    have hm := toBaseAlpha_mem Gen.numCompress (by rw [hl]; omega) e n c hc
    rw [h] at hm
    have : Gen.numCompress.contains 187 = true := by simpa using hm
    rw [h187] at this; simp at this
  have hdec := toBaseAlpha_decode Gen.numCompress hn (by rw [hl]; omega) e n (by rw [hl]; exact he)
  refine ⟨?_, ?_, ?_⟩
  · have := lex_compressed_number (toBaseAlpha Gen.numCompress e n) [] hne
    simpa [compressNum, tokenise_nil] using this
  · simp [parseTop, parse, Token.isGen1]; rfl
  · simp [transpileToken, uncompressNum, henv, hdec]

/-! ## strings over the base-27 alphabet -/

theorem fromDigits_pos (b : Nat) (hb : 2 ≤ b) : ∀ (ds : List Nat), ds ≠ [] → ds.head? ≠ some 0 → 0 < fromDigits b ds
  | [], h, _ => absurd rfl h
  | d :: ds, _, hh => by
    rw [fromDigits_cons]
    have hd : 0 < d := by
      have : d ≠ 0 := by simpa using hh
      omega
    have : 0 < b ^ ds.length := Nat.pow_pos (by omega)
    have : 0 < d * b ^ ds.length := Nat.mul_pos hd this
    omega

theorem snoc_induction {P : List Nat → Prop} (h0 : P []) (hs : ∀ xs d, P xs → P (xs ++ [d])) : ∀ l, P l := by
  have : ∀ r : List Nat, P r.reverse := by
    intro r
    induction r with
    | nil => exact h0
    | cons x r ih => rw [List.reverse_cons]; exact hs _ _ ih
  intro l
  have := this l.reverse
  rwa [List.reverse_reverse] at this

/-- `to_base_digits` inverts `from_base_digits` on digit lists without a leading zero -/
theorem toDigits_fromDigits (b : Nat) (hb : 2 ≤ b) (ds : List Nat) (hne : ds ≠ []) (hlt : ∀ d ∈ ds, d < b)
    (hh : ds.head? ≠ some 0) : toDigits b (fromDigits b ds) = ds := by
  revert hne hlt hh
  refine snoc_induction (P := fun ds => ds ≠ [] → (∀ d ∈ ds, d < b) → ds.head? ≠ some 0 → toDigits b (fromDigits b ds) = ds) ?_ ?_ ds
  · intro hne; exact absurd rfl hne
  · intro xs d ih hne hlt hh
    rw [fromDigits_append]
    have hd : d < b := hlt d (by simp)
    cases xs with
    | nil =>
      simp only [fromDigits, List.foldl_nil, Nat.mul_zero, Nat.zero_add, List.nil_append]
      rw [toDigits]
      have h2 : ¬ b < 2 := by omega
      simp [h2, hd]
    | cons x xs' =>
      have hxs : toDigits b (fromDigits b (x :: xs')) = x :: xs' :=
        ih (by simp) (fun y hy => hlt y (by simp at hy ⊢; rcases hy with h | h; exact Or.inl h; exact Or.inr (Or.inl h))) (by simpa using hh)
      have hpos : 0 < fromDigits b (x :: xs') := fromDigits_pos b hb _ (by simp) (by simpa using hh)
      rw [toDigits]
      have h2 : ¬ b < 2 := by omega
      have hge : ¬ (b * fromDigits b (x :: xs') + d < b) := by
        have : b * 1 ≤ b * fromDigits b (x :: xs') := Nat.mul_le_mul_left b hpos
        omega
      simp only [h2, dite_false, hge, if_false]
      have e1 : (b * fromDigits b (x :: xs') + d) / b = fromDigits b (x :: xs') := by
        rw [Nat.mul_add_div (by omega), Nat.div_eq_of_lt hd]; simp
      have e2 : (b * fromDigits b (x :: xs') + d) % b = d := by
        rw [Nat.mul_add_mod]; exact Nat.mod_eq_of_lt hd
      rw [e1, e2, hxs]

/-- a string over a duplicate-free alphabet whose first character is not the zero digit is recovered exactly -/
theorem string_alphabet_roundtrip (α : Str) (hn : α.Nodup) (h2 : 2 ≤ α.length) (s : Str) (hne : s ≠ [])
    (hs : ∀ c ∈ s, c ∈ α) (hh : ∀ z, α.head? = some z → s.head? ≠ some z) :
    (fromAlphabet α s).map (toAlphabet α) = some s := by
  -- s is the image of its index list
  have hidx : s = (s.map α.idxOf).map (fun i => α.getD i 0) := by
    rw [List.map_map]
    conv => lhs; rw [← List.map_id s]
    apply List.map_congr_left
    intro c hc
    have hlt : α.idxOf c < α.length := List.idxOf_lt_length_iff.mpr (hs c hc)
    simp only [Function.comp, id]
    rw [getD_mem α _ hlt]; simp
  have hlt : ∀ d ∈ s.map α.idxOf, d < α.length := by
    intro d hd
    obtain ⟨c, hc, rfl⟩ := List.mem_map.mp hd
    exact List.idxOf_lt_length_iff.mpr (hs c hc)
  have hdec : fromAlphabet α s = some (fromDigits α.length (s.map α.idxOf)) := by
    conv => lhs; rw [hidx]
    exact fromAlphabet_digits α hn _ hlt
  rw [hdec]
  simp only [Option.map_some, Option.some.injEq]
  unfold toAlphabet
  have hhead : (s.map α.idxOf).head? ≠ some 0 := by
    cases s with
    | nil => exact absurd rfl hne
    | cons c cs =>
      simp only [List.map_cons, List.head?_cons, ne_eq, Option.some.injEq]
      intro h0
      have hc : c ∈ α := hs c (by simp)
      cases hα : α with
      | nil => rw [hα] at hc; simp at hc
      | cons z zs =>
        have : c = z := by
          have hlt0 : 0 < α.length := by rw [hα]; simp
          have := List.getElem_idxOf (List.idxOf_lt_length_iff.mpr hc)
          simp only [h0] at this
          rw [← this]; simp [hα]
        exact hh z (by rw [hα]; rfl) (by rw [this]; rfl)
  rw [toDigits_fromDigits α.length h2 _ (by simpa using hne) hlt hhead]
  exact hidx.symm

/-- **`øc`**: the compressed-string text lexes to one token and the transpiler pushes exactly `s` -/
theorem string_compress_roundtrip (s : Str) (hne : s ≠ []) (hs : ∀ c ∈ s, c ∈ Gen.base27) (h0 : s.head? ≠ some 32)
    (N e : Nat) (hN : fromAlphabet Gen.base27 s = some N) (he : N < 255 ^ (e + 1)) (env : TEnv)
    (h1 : env.strCompress = Gen.strCompress) (h2 : env.base27 = Gen.base27) :
    let payload := toBaseAlpha Gen.strCompress e N
    tokenise (compressStr Gen.strCompress e N) = [⟨.cstr, payload⟩]
    ∧ transpileToken env ⟨.cstr, payload⟩ = .ok [push (.cstrN s)] := by
  obtain ⟨hl, hnd, h171⟩ := str_alphabet
  obtain ⟨hl27, hnd27, hh27⟩ := base27_alphabet
  have hn : Gen.strCompress.Nodup := nodupB_sound _ hnd
  have hn27 : Gen.base27.Nodup := nodupB_sound _ hnd27
  have hne171 : ∀ c ∈ toBaseAlpha Gen.strCompress e N, c ≠ 171 := by
    intro c hc h
    have hm := toBaseAlpha_mem Gen.strCompress (by rw [hl]; omega) e N c hc
    rw [h] at hm
    have : Gen.strCompress.contains 171 = true := by simpa using hm
    rw [h171] at this; simp at this
  have hdec := toBaseAlpha_decode Gen.strCompress hn (by rw [hl]; omega) e N (by rw [hl]; exact he)
  have hrt := string_alphabet_roundtrip Gen.base27 hn27 (by rw [hl27]; omega) s hne hs
    (by intro z hz; rw [hh27] at hz; cases hz; exact h0)
  rw [hN] at hrt
  simp only [Option.map_some, Option.some.injEq] at hrt
  refine ⟨?_, ?_⟩
  · have := lex_compressed_string (toBaseAlpha Gen.strCompress e N) [] hne171
    simpa [compressStr, tokenise_nil] using this
  · simp [transpileToken, uncompressStr, h1, h2, hdec, hrt]

example : toAlphabet Gen.base27 (fromDigits 27 [8, 9]) = [104, 105] := by decide +kernel   -- "hi"

/-! ## dictionary compression -/

theorem compression_alphabet :
    Gen.compression.length = 160 ∧ nodupB Gen.compression = true ∧ Gen.compression.head? = some 955 ∧
      Gen.compression.contains cBS = false := by decide +kernel

theorem printable_outside_compression :
    ((List.range 127).filter (fun c => decide (32 ≤ c) && decide (c ≤ 126))).all (fun c => !Gen.compression.contains c) = true := by
  decide +kernel

/-- **`øD` round-trips and never lengthens** — every string `lhs` whose characters are outside the compression alphabet and
    are not backslashes, every word list of at most `160²` words, every `max_word_len`, every small dictionary -/
theorem dict_compress_roundtrip (small contents : List Str) (maxLen : Nat) (hlen : contents.length ≤ 160 * 160)
    (lhs : Str) (hl : ∀ c ∈ lhs, Gen.compression.contains c = false ∧ c ≠ cBS) :
    uncompressDict Gen.compression small contents (optimalCompressBody Gen.compression contents maxLen lhs) = lhs ∧
    (optimalCompressBody Gen.compression contents maxLen lhs).length ≤ lhs.length := by
  obtain ⟨hL, hnd, h0, hbs⟩ := compression_alphabet
  have hn : Gen.compression.Nodup := nodupB_sound _ hnd
  have hgood := (dpTable_good Gen.compression small contents hn h0 (by rw [hL]; omega) (by rw [hL]; exact hlen) hbs maxLen lhs hl
    lhs.length (Nat.le_refl _)).2 lhs.length (Nat.le_refl _)
  unfold optimalCompressBody
  refine ⟨?_, hgood.2⟩
  have := uncompress_of_dec Gen.compression small contents hgood.1
  rw [this, List.take_length]

/-- non-vacuity: a small word list, `"a the b"` → `a ` + code of `the` + ` b` -/
example : optimalCompressBody Gen.compression [[116, 104, 101], [97, 110]] 3 [97, 32, 116, 104, 101, 32, 98] =
    [97, 32, 955, 955, 32, 98] := by decide +kernel

end C15
