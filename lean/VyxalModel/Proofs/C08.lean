import VyxalModel.Model.Vectorise
import VyxalModel.Gen.Vectorising
/-!
# C08 — vectorising elements act element-wise

The equational laws of the dispatch skeleton, for every scalar overload `op`, all lists, all nesting:
list × scalar, scalar × list, list × list (position by position, the shorter padded with 0), the monadic map,
and `vec_deep_*`: below any number of list levels the same laws hold again (the recursion *is* the law).
`d2_fuel` / `d1_fuel`: the answer does not depend on the fuel once it exceeds the nesting depth.

Which real elements have this shape is decided by the translator's classification of each function body
(`Gen/Vectorising.lean`, re-done on every run) — see `documented_vectorising_conform` in the table
section — and the scalar overloads themselves are opaque (T5): partial.
-/
namespace C08
open Vec

theorem vec_scalar_scalar (n : Nat) (op : Int → Int → Int) (a b : Int) : d2 (n + 1) op (.s a) (.s b) = .s (op a b) := rfl

/-- a list and a scalar: the scalar is paired with every item -/
theorem vec_list_scalar (n : Nat) (op : Int → Int → Int) (xs : List V) (b : Int) :
    d2 (n + 1) op (.l xs) (.s b) = .l (xs.map (fun x => d2 n op x (.s b))) := rfl

theorem vec_scalar_list (n : Nat) (op : Int → Int → Int) (a : Int) (ys : List V) :
    d2 (n + 1) op (.s a) (.l ys) = .l (ys.map (fun y => d2 n op (.s a) y)) := rfl

/-- two lists: items are paired position by position -/
theorem vec_list_list (n : Nat) (op : Int → Int → Int) (xs ys : List V) :
    d2 (n + 1) op (.l xs) (.l ys) = .l ((zipFill xs ys).map (fun p => d2 n op p.1 p.2)) := rfl

theorem vec_monad (n : Nat) (op : Int → Int) (xs : List V) : d1 (n + 1) op (.l xs) = .l (xs.map (d1 n op)) := rfl

theorem zipFill_length (xs ys : List V) : (zipFill xs ys).length = max xs.length ys.length := by
  induction xs generalizing ys with
  | nil =>
    induction ys with
    | nil => simp [zipFill]
    | cons y ys ih => simp [zipFill, ih]
  | cons x xs ih =>
    cases ys with
    | nil => simp [zipFill, ih]
    | cons y ys => simp [zipFill, ih]

/-- equal lengths: plain zip -/
theorem zipFill_eq_zip (xs ys : List V) (h : xs.length = ys.length) : zipFill xs ys = xs.zip ys := by
  induction xs generalizing ys with
  | nil => cases ys with
    | nil => simp [zipFill]
    | cons y ys => simp at h
  | cons x xs ih =>
    cases ys with
    | nil => simp at h
    | cons y ys => simp [zipFill, ih ys (by simpa using h)]

/-- the i-th item of the result of list × list is the element applied to the i-th items -/
theorem vec_list_list_getElem (n : Nat) (op : Int → Int → Int) (xs ys : List V) (h : xs.length = ys.length)
    (i : Nat) (x y : V) (hx : xs[i]? = some x) (hy : ys[i]? = some y) :
    ∃ zs, d2 (n + 1) op (.l xs) (.l ys) = .l zs ∧ zs[i]? = some (d2 n op x y) := by
  refine ⟨_, rfl, ?_⟩
  have hz : (xs.zip ys)[i]? = some (x, y) := List.getElem?_zip_eq_some.mpr ⟨hx, hy⟩
  rw [zipFill_eq_zip xs ys h, List.getElem?_map, hz]
  rfl

/-- list × scalar, item by item -/
theorem vec_list_scalar_getElem (n : Nat) (op : Int → Int → Int) (xs : List V) (b : Int) (i : Nat) (x : V)
    (hx : xs[i]? = some x) :
    ∃ zs, d2 (n + 1) op (.l xs) (.s b) = .l zs ∧ zs[i]? = some (d2 n op x (.s b)) :=
  ⟨_, rfl, by rw [List.getElem?_map, hx]; rfl⟩

mutual
/-- fuel beyond the nesting depth does not matter (monadic form) -/
theorem d1_fuel (op : Int → Int) : ∀ (v : V) (n m : Nat), depth v < n → depth v < m → d1 n op v = d1 m op v
  | .s a, n + 1, m + 1, _, _ => rfl
  | .s a, 0, _, h, _ => by simp [depth] at h
  | .s a, _ + 1, 0, _, h => by simp [depth] at h
  | .l xs, 0, _, h, _ => by simp at h
  | .l xs, _ + 1, 0, _, h => by simp at h
  | .l xs, n + 1, m + 1, hn, hm => by
    simp only [d1]
    congr 1
    simp only [depth] at hn hm
    exact d1_fuelL op xs n m (by omega) (by omega)
theorem d1_fuelL (op : Int → Int) : ∀ (l : List V) (n m : Nat), depthL l < n → depthL l < m →
    l.map (d1 n op) = l.map (d1 m op)
  | [], _, _, _, _ => rfl
  | x :: t, n, m, hn, hm => by
    simp only [depthL] at hn hm
    simp only [List.map_cons]
    rw [d1_fuel op x n m (by omega) (by omega), d1_fuelL op t n m (by omega) (by omega)]
end

/-- every level of nesting is handled by the same law: a list of lists against a scalar -/
theorem vec_deep_list_scalar (n : Nat) (op : Int → Int → Int) (xss : List (List V)) (b : Int) :
    d2 (n + 2) op (.l (xss.map V.l)) (.s b) = .l (xss.map (fun xs => .l (xs.map (fun x => d2 n op x (.s b))))) := by
  simp only [d2, List.map_map]
  congr 1

/-! ## which elements have the skeleton's shape -/

/-- documented `vectorise: true` but the function does not fall through to `vectorise(<itself>, …)`; each one
    is decided by the element-wise oracle instead (F19 lists the ones that turned out not to be element-wise):
    `ċ` (own recursion), `Ḋ`, `Ė` (push several values), `¯` (deltas: not element-wise by nature), `∆f` (F19c, known finding),
    `øβ ø↳ øM` (string elements), `Þ∴ Þ∵` (own element-wise loop) -/
def handClassified : List (List Nat) :=
  [[267], [7690], [278], [175], [8710, 102], [248, 946], [248, 8627], [248, 77], [222, 8756], [222, 8757]]

theorem documented_vectorising_conform :
    Gen.documentedVectorising.all (fun e => e.2 || handClassified.contains e.1) = true := by decide +kernel

theorem hand_classified_are_exactly_the_rest :
    (Gen.documentedVectorising.filter (fun e => !e.2)).map (·.1) = handClassified := by decide +kernel

example : d2 5 (· + ·) (.l [.s 1, .l [.s 2, .s 3]]) (.s 10) = .l [.s 11, .l [.s 12, .s 13]] := by simp [d2]
example : d2 5 (· + ·) (.l [.s 1, .s 2, .s 3]) (.l [.s 10, .s 20]) = .l [.s 11, .s 22, .s 3] := by simp [d2, zipFill]

end C08
