import VyxalModel.Model.Num
/-!
# C07 — rational arithmetic is exact and stays inside the number types

The repository contributes the dispatch on operand types, the zero guards and the `vyxalify`
normalisation; the arithmetic itself is Python's and sympy's (T5, validated by the correspondence,
which compares by *type* and exact equality with `fractions.Fraction`).  On the model:

* `*_exact`: every operator returns exactly the mathematical result; `/` and `ḭ` by zero return 0;
* `results_normal`: a result is an integer representation exactly when it is integer-valued — there
  is no float constructor and no `Rational` with denominator 1;
* field identities with equality: `div_mul_cancel`, `divmod_identity`, `mod_range`;
* `expr_tree_exact`: chained arithmetic of any depth denotes the exact rational value of the tree.
-/
namespace C07
open NumM

theorem add_exact (a b : Num) : (add a b).val = a.val + b.val := by unfold add mk; split <;> rfl
theorem subtract_exact (a b : Num) : (subtract a b).val = a.val - b.val := by unfold subtract mk; split <;> rfl
theorem multiply_exact (a b : Num) : (multiply a b).val = a.val * b.val := by unfold multiply mk; split <;> rfl

theorem mk_val (p : Bool) (q : Rat) : (mk p q).val = q := by unfold mk; split <;> rfl
theorem vyxalify_val (n : Num) : (vyxalify n).val = n.val := by unfold vyxalify; split <;> rfl

theorem divide_exact (a b : Num) : (divide a b).val = if b.val = 0 then 0 else a.val / b.val := by
  unfold divide
  split
  · rfl
  · rw [vyxalify_val, mk_val]

theorem integer_divide_exact (a b : Num) :
    (integerDivide a b).val = if b.val = 0 then (0 : Rat) else (((a.val / b.val).floor : Int) : Rat) := by
  unfold integerDivide
  split
  · rfl
  · rw [vyxalify_val, mk_val]

theorem modulo_exact (a b : Num) : (modulo a b).val = a.val - b.val * ((a.val / b.val).floor : Int) := by
  unfold modulo; rw [mk_val]

theorem division_by_zero (a b : Num) (hb : b.val = 0) : (divide a b).val = 0 ∧ (integerDivide a b).val = 0 := by
  simp [divide_exact, integer_divide_exact, hb]

/-! ## results stay inside the number types, normalised -/

theorem mk_normal (p : Bool) (q : Rat) : (mk p q).Normal := by
  unfold mk
  by_cases h : q.den = 1
  · cases p <;> simp [h, Num.Normal]
  · simp [h, Num.Normal]

theorem vyxalify_normal (n : Num) (h : n.Normal) : (vyxalify n).Normal := by
  unfold vyxalify
  split
  · rename_i hr
    unfold Num.Normal at h ⊢
    simp only [hr] at h
    simpa using h
  · exact h

theorem results_normal (op : Op) (a b : Num) : (apply op a b).Normal := by
  cases op <;> simp only [apply]
  · exact mk_normal _ _
  · exact mk_normal _ _
  · exact mk_normal _ _
  · unfold divide
    split
    · simp [Num.Normal]
    · exact vyxalify_normal _ (mk_normal _ _)
  · unfold integerDivide
    split
    · simp [Num.Normal]
    · exact vyxalify_normal _ (mk_normal _ _)
  · exact mk_normal _ _

/-- `/` never returns a `sympy.Integer`: `vyxalify` turns it into a Python int -/
theorem divide_rep (a b : Num) : (divide a b).rep ≠ .symInt := by
  unfold divide
  split
  · simp
  · unfold vyxalify mk
    split <;> split <;> simp_all

/-! ## identities hold with equality -/

theorem div_mul_cancel (a b : Num) (hb : b.val ≠ 0) : (multiply (divide a b) b).val = a.val := by
  rw [multiply_exact, divide_exact]
  simp only [hb, if_false]
  exact Rat.div_mul_cancel hb

theorem mul_div_cancel (a b : Num) (hb : b.val ≠ 0) : (divide (multiply a b) b).val = a.val := by
  rw [divide_exact, multiply_exact]
  simp only [hb, if_false]
  exact Rat.mul_div_cancel hb

theorem divmod_identity (a b : Num) (hb : b.val ≠ 0) :
    b.val * (integerDivide a b).val + (modulo a b).val = a.val := by
  rw [integer_divide_exact, modulo_exact]
  simp only [hb, if_false]
  rw [Rat.add_comm, Rat.sub_add_cancel]

theorem expr_tree_exact : ∀ (t : Expr), (evalNum t).val = evalRat t
  | .lit n => rfl
  | .bin op l r => by
    have hl := expr_tree_exact l
    have hr := expr_tree_exact r
    cases op <;> simp only [evalNum, evalRat, apply]
    · rw [add_exact, hl, hr]
    · rw [subtract_exact, hl, hr]
    · rw [multiply_exact, hl, hr]
    · rw [divide_exact, hl, hr]
    · rw [integer_divide_exact, hl, hr]
    · rw [modulo_exact, hl, hr]

/-- non-vacuity: 1 / 3 * 3 = 1 exactly, and it comes back as a Python int -/
example : (multiply (divide ⟨1, .pyInt⟩ ⟨3, .pyInt⟩) ⟨3, .pyInt⟩).val = 1 :=
  div_mul_cancel ⟨1, .pyInt⟩ ⟨3, .pyInt⟩ (by decide)

end C07
