import VyxalModel.Model.Heap
import VyxalModel.Gen.Mutation
/-!
# C10 — values are immutable: no element changes a value another reference can see

* `frame_step` / `history_immutable`: on the reference-level heap model, any history of operations
  that writes only to objects allocated *during* the history leaves every reference that existed
  before denoting exactly what it denoted — whatever is allocated, copied (as a view or as a slice)
  or assigned into fresh objects, and for every fuel (nesting / view-chain depth);
* `assign_repaired_respects`: the repaired `Ȧ` (slice copy, then write into the copy) is such a history;
  `assign_shipped_counterexample`: the shipped one was not, and a `deep_copy` view of the argument
  changed its denotation — exactly `⟨1|2|3⟩:0 9Ȧ`;
* `mutation_sites_accounted`: the regenerated inventory of syntactic in-place mutations whose target is a
  *parameter* equals the audited list below, where each site is a cache, interpreter bookkeeping, the
  stack itself, a number, or a write into a freshly bound copy.

That the ~330 element bodies allocate and never write to pre-existing objects (the frame condition)
is an assumption (T7) backed by that inventory and by the snapshot differential — partial.
-/
namespace C10
open Hp

def refBelow (n : Nat) : Val → Bool
  | .int _ => true
  | .ref r => decide (r < n)

def cellBelow (n : Nat) : Obj → Bool
  | .list items => items.all (refBelow n)
  | .view r => decide (r < n)

/-- the first `n` cells only point at the first `n` cells (true of every heap built by allocation) -/
def ClosedBelow (n : Nat) (h : Heap) : Prop := ∀ r, r < n → ∀ o, h[r]? = some o → cellBelow n o = true

/-- what a reference below `n` denotes depends only on the first `n` cells -/
theorem den_prefix (n : Nat) (h1 h2 : Heap) (hp : ∀ r, r < n → h1[r]? = h2[r]?) (hc : ClosedBelow n h1) :
    ∀ (f : Nat) (r : Nat), r < n → denR h1 f r = denR h2 f r := by
  intro f
  induction f with
  | zero => intro r _; simp [denR]
  | succ f ih =>
    intro r hr
    simp only [denR]
    rw [← hp r hr]
    cases ho : h1[r]? with
    | none => rfl
    | some o =>
      have hcb := hc r hr o ho
      cases o with
      | list items =>
        simp only
        congr 1
        apply List.map_congr_left
        intro v hv
        have hvb : refBelow n v = true := by
          have := List.all_eq_true.mp (by simpa [cellBelow] using hcb) v hv
          exact this
        cases v with
        | int i => rfl
        | ref p => simp only [denVal]; exact ih p (by simpa [refBelow] using hvb)
      | view p => simp only; exact ih p (by simpa [cellBelow] using hcb)

/-- one frame-respecting operation leaves the first `n` cells alone -/
theorem step_prefix (n : Nat) (h : Heap) (hn : n ≤ h.length) (op : Op) (hr : op.respects n = true) :
    (∀ r, r < n → (step h op)[r]? = h[r]?) ∧ n ≤ (step h op).length := by
  cases op with
  | alloc o =>
    exact ⟨fun r hlt => List.getElem?_append_left (by omega), by simp [step]; omega⟩
  | deepCopy p =>
    exact ⟨fun r hlt => List.getElem?_append_left (by omega), by simp [step]; omega⟩
  | sliceCopy p =>
    simp only [step]
    split
    · exact ⟨fun r hlt => List.getElem?_append_left (by omega), by simp; omega⟩
    · exact ⟨fun r hlt => List.getElem?_append_left (by omega), by simp; omega⟩
  | setItem p i v =>
    have hp : n ≤ p := by simpa [Op.respects] using hr
    refine ⟨fun r hlt => ?_, by simp [step]; omega⟩
    simp only [step]
    exact List.getElem?_set_ne (by omega)

theorem run_prefix (n : Nat) : ∀ (ops : List Op) (h : Heap), n ≤ h.length → (∀ o ∈ ops, o.respects n = true) →
    ∀ r, r < n → (run h ops)[r]? = h[r]?
  | [], h, _, _, r, _ => rfl
  | op :: ops, h, hn, hr, r, hlt => by
    obtain ⟨h1, h2⟩ := step_prefix n h hn op (hr op (by simp))
    simp only [run]
    rw [run_prefix n ops (step h op) h2 (fun o ho => hr o (by simp [ho])) r hlt, h1 r hlt]

/-- **the frame theorem**: a history that writes only to objects it allocated itself leaves every reference
    that existed before denoting the same value, at every depth -/
theorem history_immutable (h : Heap) (ops : List Op) (hc : ClosedBelow h.length h)
    (hr : ∀ o ∈ ops, o.respects h.length = true) (f : Nat) :
    ∀ r, r < h.length → denR (run h ops) f r = denR h f r := by
  intro r hlt
  have hp : ∀ r, r < h.length → h[r]? = (run h ops)[r]? :=
    fun r hr' => (run_prefix h.length ops h (Nat.le_refl _) hr r hr').symm
  exact (den_prefix h.length h (run h ops) hp hc f r hlt).symm

/-- duplicating (a view, as `:` / `D` / variables do) and then transforming one copy with the repaired `Ȧ`
    never alters the other: the repaired assignment only writes into the cell it has just allocated -/
theorem assign_repaired_respects (h : Heap) (r i : Nat) (v : Val) :
    ∀ o ∈ assignRepaired h r i v, o.respects h.length = true := by
  intro o ho
  simp only [assignRepaired, List.mem_cons, List.not_mem_nil, or_false] at ho
  rcases ho with rfl | rfl <;> simp [Op.respects]

/-- F14 as shipped: the list `[1,2,3]` in cell 0, a `deep_copy` view of it in cell 1, then `lhs[0] = 9` in
    place — the *view* (the "other copy") now denotes `[9,2,3]` -/
theorem assign_shipped_counterexample :
    let h0 : Heap := [.list [.int 1, .int 2, .int 3], .view 0]
    Tree.beq (denR (run h0 (assignShipped 0 0 (.int 9))) 3 1) (denR h0 3 1) = false
    ∧ Tree.beq (denR (run h0 (assignShipped 0 0 (.int 9))) 3 1) (.node [.leaf 9, .leaf 2, .leaf 3]) = true := by decide

/-- … and with the repaired `Ȧ` it still denotes `[1,2,3]` -/
example :
    let h0 : Heap := [.list [.int 1, .int 2, .int 3], .view 0]
    Tree.beq (denR (run h0 (assignRepaired h0 0 0 (.int 9))) 3 1) (denR h0 3 1) = true := by decide

/-- non-vacuity of the hypothesis: that heap is closed -/
example : ClosedBelow 2 [.list [.int 1, .int 2, .int 3], .view 0] := by
  intro r hr o ho
  match r, hr with
  | 0, _ => simp at ho; subst ho; rfl
  | 1, _ => simp at ho; subst ho; rfl

/-! ## the inventory of in-place writes to parameters -/

/-- audited: each site writes to a cache, to interpreter bookkeeping, to the stack it is *meant* to change,
    to a number, or to a value bound to a fresh copy just before -/
def auditedSites : List (String × String × String × String) := [
  ("LazyList.__next__", "append", "self", ""),                 -- the lazy list's own cache (invisible: C13)
  ("LazyList.__setitem__", "setitem", "self", ""),             -- only called by Ȧ on the fresh view it made
  ("LazyList.output", "append", "ctx", ""),                    -- ctx.stacks bookkeeping (C12)
  ("LazyList.output", "pop", "ctx", ""),
  ("elements.assign_iterable", "setitem", "lhs", "deep_copy(lhs) if isinstance(lhs, LazyList) else lhs[:]"),  -- fresh copy
  ("elements.assign_iterable", "setitem", "lhs", "list(lhs)"),                                                 -- fresh list of a string
  ("elements.function_call", "aug-name", "lhs", ""),           -- lhs is the stack itself
  ("elements.grid_helper", "aug-name", "temp", "alias of string"),   -- a string (immutable): += rebinds
  ("elements.multiplicity", "aug-name", "lhs", ""),            -- a number
  ("elements.roman_numeral", "aug-name", "lhs", ""),           -- a number
  ("elements.vy_print", "aug-item", "ctx", ""),                -- ctx.online_output
  ("helpers.get_input", "aug-item", "ctx", ""),                -- input cursor
  ("helpers.get_input", "aug-item", "ctx", ""),
  ("helpers.pop", "append", "iterable_object", ""),            -- the stack itself
  ("helpers.pop", "pop", "iterable_object", "")]

theorem mutation_sites_accounted : Gen.mutationSites = auditedSites := by decide +kernel

end C10
