import VyxalModel.Lemmas.Strings
import VyxalModel.Gen.Codepage
/-!
# C06 — quoting a string and evaluating the quoted text returns the string

For **every** string `s` (no alphabet restriction in the model):
* `quote_lex`: the lexer reads the quoted text back as exactly one STRING token carrying the escaped body;
* `quote_eval_raw`: with dictionary compression off, escaping that body for Python and decoding the
  resulting literal gives back `s`;
* `quote_eval_dict`: with dictionary compression on the same holds for strings without compression
  characters — in particular for every printable-ASCII string, whatever the dictionary contains.

`pyStringBody` reads CPython's literal decoding for the three escapes that can arise (`\\`, `\"`,
`\n`); it is faithful for code-page characters (whose only control character is the newline) — T3,
validated by the exec stream.
-/
namespace C06
open Vy

/-- the lexer reads `` `…` `` produced by `quotify` as one STRING token whose value is the escaped body -/
theorem quote_lex (s : Str) : tokenise (quotify s) = [⟨.string, escBB s⟩] := by
  have := lex_backquote (escBB s) [] (bqValid_escBB s)
  simpa [quotify, cBQ, tokenise_nil] using this

/-- dictionary compression off: quote → lex → escape for Python → decode = identity -/
theorem quote_eval_raw (s : Str) : pyStringBody (escapeString (escBB s)) = some s := _root_.quote_eval_raw s

/-- decompression is the identity on text without compression characters (any word lists) -/
theorem uncompress_ascii_id (comp : Str) (small contents : List Str) (s : Str)
    (h : ∀ c ∈ escBB s, comp.contains c = false) :
    uncompressDict comp small contents (escBB s) = escBB s :=
  uncompress_plain_id comp small contents (escBB s) h (wellPaired_escBB s)

def isPrintableAscii (c : Nat) : Bool := 32 ≤ c && c ≤ 126

theorem printable_ascii_not_compression :
    ((List.range 127).filter isPrintableAscii).all (fun c => !Gen.compression.contains c) = true := by decide +kernel

theorem printable_not_compression (c : Nat) (h : isPrintableAscii c = true) : Gen.compression.contains c = false := by
  have hr : 32 ≤ c ∧ c ≤ 126 := by simpa [isPrintableAscii] using h
  have hm : c ∈ (List.range 127).filter isPrintableAscii := by
    simp [List.mem_filter, h]; omega
  have := List.all_eq_true.mp printable_ascii_not_compression c hm
  simpa using this

theorem escBB_printable (s : Str) (h : ∀ c ∈ s, isPrintableAscii c = true) : ∀ c ∈ escBB s, isPrintableAscii c = true := by
  induction s with
  | nil => simp [escBB]
  | cons c cs ih =>
    have ih' := ih (fun x hx => h x (by simp [hx]))
    have hc := h c (by simp)
    intro x hx
    by_cases h1 : c = cBS
    · subst h1; simp only [escBB, if_true, List.mem_cons] at hx
      rcases hx with rfl | rfl | hx
      · decide
      · decide
      · exact ih' x hx
    · by_cases h2 : c = cBQ
      · subst h2; simp only [escBB, h1, if_false, if_true, List.mem_cons] at hx
        rcases hx with rfl | rfl | hx
        · decide
        · decide
        · exact ih' x hx
      · simp only [escBB, h1, h2, if_false, List.mem_cons] at hx
        rcases hx with rfl | hx
        · exact hc
        · exact ih' x hx

/-- dictionary compression on, printable ASCII, **any** dictionary: the round trip is still the identity -/
theorem quote_eval_dict (small contents : List Str) (s : Str) (h : ∀ c ∈ s, isPrintableAscii c = true) :
    pyStringBody (escapeString (uncompressDict Gen.compression small contents (escBB s))) = some s := by
  rw [uncompress_ascii_id Gen.compression small contents s
    (fun c hc => printable_not_compression c (escBB_printable s h c hc))]
  exact _root_.quote_eval_raw s

/-- non-vacuity / worked example: the string  a\`"⏎  -/
example : pyStringBody (escapeString (escBB [97, 92, 96, 34, 10])) = some [97, 92, 96, 34, 10] := quote_eval_raw _

end C06
