import VyxalModel.Lemmas.Compile3
import VyxalModel.Lemmas.FragToks
import VyxalModel.Gen.Elements
import VyxalModel.Gen.Modifiers
/-!
# C01 — structures execute as specified (transpiled program = reference semantics)

Three executable pieces are related here:

* `RefSem.execL / refProgram` — the reference semantics of the parsed `Structure` tree (documents/specs);
* `Transpile.transpileAst` — the model of `transpile.py` (tied to the real transpiler by the AST stream);
* `PySem.execPL / pyProgram` — the semantics of the emitted Python fragment (tied to CPython by the py stream).

The theorems say: **wherever the reference semantics gives a program a meaning, the Python semantics of the
transpiled program computes the same final stack and the same printed text** — for every program of the fragment,
every nesting depth, every input list, every flag set of the property, every fuel.  They are parametric in the
element library: nothing in the proofs looks inside `CoreLib.elemFn`, so they cover every element whose table
entry is the `process_element` boilerplate of a first-order function (237 entries of the current table).

Stage reached: **every structure of the property**.  Literals, first-order elements, the 21 hand-written stack /
context / input / register / printing templates of the closed core, variables, `if` chains, `for`, `while`, break /
continue, lambdas (plain, map, filter, sort) with the call protocol, list literals, named functions (definition,
parameter prologue with counts / names / `*`, call by reference on the caller's stack, recursion), and the eight
modifiers `& v ~ ß ƒ ɖ ₌ ₍` (the operand wrapped by `lambda_wrap`, `function_A = pop(stack, 1, ctx)`, the template),
in any nesting, with the implicit output under the flags of the property.

What is still a hypothesis of `compile_correct` (besides "the reference semantics gives the run a meaning", which
is what makes the theorem one-directional):

* `Frag env.elements prog` — no longer a restriction on structures: `fragS` is `true` or the conjunction of its parts
  for every constructor; what it restricts is the *element tokens*: each must have a table entry of one of the shapes
  the element lemmas cover (237 `process_element` boilerplates, the 21 core templates, map / filter / sort-by, the call
  element), and only integer literals and variable get / set among the other token kinds;
* `ModsOK env.modifiers` — the modifier table holds exactly the eight templates the modifier lemmas were proved for
  (`modifier_templates_as_expected`: true of the regenerated table, by kernel evaluation).

Where the reference semantics says `unmodelled` (a function defined inside a function, a `continue` in a `while`,
`return` out of a loop inside a lambda, strings, non-integer numbers, function values printed or iterated, …) the
theorem says nothing; those runs are covered by the `py`, `ref` and `py-vs-ref` streams of the check only.
-/
namespace Vy.Sem
open Vy PyAst

/-- the fragment reached so far (decidable): see `Lemmas/Frag.lean` -/
def Frag (tbl : List Gen.Entry) (prog : List Structure) : Prop := fragL tbl prog = true

instance (tbl : List Gen.Entry) (prog : List Structure) : Decidable (Frag tbl prog) := by unfold Frag; infer_instance

/-- **Simulation**: from related states (any frame depth, any closure tables), whenever the reference semantics of
    `prog` is defined, the Python semantics of the transpiled code yields the corresponding signal and a related state —
    every program of the fragment, every starting identifier, every fuel. -/
theorem simulation (cfg : Cfg) (env : TEnv) (hE : cfg.elements = env.elements) (hM : ModsOK env.modifiers)
    (prog : List Structure) (hf : Frag env.elements prog) (k : Nat) (code : List PyStmt) (k' : Nat)
    (ht : transpileL env k prog = .ok (code, k')) (n : Nat) (A : Option Val) (σ σ' : RSt) (π : PSt) (sg : Sig)
    (h : Rel env A σ π) (hr : execL cfg n prog σ = .ok (sg, σ')) :
    ∃ π', execPL cfg n code π = .ok (sigP sg, π') ∧ Post env A sg σ' π' :=
  simAt_all cfg env hE hM n prog k code k' hf ht A σ π sg σ' h hr

/-- **The call protocol**: calling the function value number `id` in the reference semantics — with the arguments popped
    from `argStack`, by reference (the call element, `arity = none`) or from `safe_apply` (`arity = some k`) — and calling
    the Python function object with the same number return the same result, leave the same rest of the argument list,
    and related states. -/
theorem call_protocol (cfg : Cfg) (env : TEnv) (hE : cfg.elements = env.elements) (hM : ModsOK env.modifiers) (n : Nat) (A : Option Val) (σ σ' : RSt) (π : PSt)
    (h : Rel env A σ π) (id : Nat) (argStack : List Val) (arity : Option Nat) (byref : Bool) (res : Val) (rest : List Val)
    (hr : callLam cfg (n + 1) id argStack (arity.map (fun (a : Nat) => (a : Int))) σ = .ok (res, rest, σ')) :
    ∃ π', callPy cfg (n + 1) id (lamPos id argStack arity) [] byref π = .ok (.list [res], some (.list rest.reverse), π') ∧
      Rel env A σ' π' :=
  sim_callLam cfg n (simAt_all cfg env hE hM n) h id argStack arity byref res rest σ' hr

/-- **The named-function call**: `@f;` in the reference semantics — parameters popped from the caller's stack left to
    right, the body in a frame of its own, the function's whole stack appended to what the caller has left — and
    `stack += VAR_f(stack, self=None, ctx=ctx)` in the Python semantics end in related states. -/
theorem named_call_protocol (cfg : Cfg) (env : TEnv) (hE : cfg.elements = env.elements) (hM : ModsOK env.modifiers) (n : Nat) (A : Option Val) (σ σ' : RSt)
    (π : PSt) (h : Rel env A σ π) (name : Str) (sg : Sig)
    (hr : callNamed cfg (n + 1) (sanitise name) σ = .ok (sg, σ')) :
    ∃ π', execPL cfg (n + 1) (fnCallTemplate name) π = .ok (.normal, π') ∧ sg = .normal ∧ Rel env A σ' π' :=
  sim_callNamed cfg n (simAt_all cfg env hE hM n) h name sg σ' hr

/-- **C01**: a program that the reference semantics runs to an observation (final stack, printed text including the
    implicit output under the given flags) is run to the same observation by the Python semantics of its
    transpilation — every structure and modifier of the property, all programs over the covered element tokens, all
    inputs, flags and fuel. -/
theorem compile_correct (cfg : Cfg) (env : TEnv) (hE : cfg.elements = env.elements) (hM : ModsOK env.modifiers)
    (prog : List Structure) (hf : Frag env.elements prog) (code : List PyStmt)
    (ht : transpileAst env prog = .ok code) (fuel : Nat) (flags : String) (inputs : List Val)
    (obs : List Val × String) (hr : refProgram cfg fuel flags inputs prog = .ok obs) :
    pyProgram cfg fuel flags inputs code = .ok obs := by
  unfold transpileAst at ht
  cases htl : transpileL env 0 prog with
  | error e => simp [htl] at ht
  | ok r =>
    obtain ⟨c, k'⟩ := r
    simp [htl] at ht; subst ht
    unfold refProgram at hr
    cases hex : execL cfg fuel prog (initState flags inputs) with
    | error e => simp [hex] at hr
    | ok r1 =>
      obtain ⟨sg, σ⟩ := r1
      simp only [hex, R_ok_bind] at hr
      obtain ⟨π, he, hP⟩ := simAt_all cfg env hE hM fuel prog 0 c k' hf htl Option.none _ _ sg σ (rel_init flags inputs) hex
      unfold pyProgram
      rw [execPL_orPass, he]
      cases sg with
      | normal =>
        simp only [sigP, R_ok_bind] at hr ⊢
        have hR : Rel env Option.none σ π := hP
        cases hfin : finish flags σ with
        | error e => simp [hfin] at hr
        | ok σ' =>
          simp [hfin] at hr; subst hr
          obtain ⟨π', hfp, hout⟩ := finish_sim flags hR hfin
          simp [hfp, hR.getStack, hout]
      | brk => simp at hr
      | cont => simp at hr
      | ret v => simp at hr

/-- the map / filter / sort-by elements behind `ƛ ' µ` are covered in the regenerated table -/
theorem lamop_tokens_covered : ∀ k, fragTok Gen.elements ⟨.general, lamOpKey k⟩ = true := by
  intro k; cases k <;> decide +kernel

/-- **C01, from the source text**: for *every* source string whose lexed tokens are covered element tokens, integer
    literals or variables — no condition on how they are arranged —: if it parses, transpiles, and the reference semantics
    runs it to an observation, the Python semantics of the transpiled program yields the same observation. -/
theorem compile_correct_source (cfg : Cfg) (env : TEnv) (hE : cfg.elements = env.elements) (hM : ModsOK env.modifiers)
    (hlo : ∀ k, fragTok env.elements ⟨.general, lamOpKey k⟩ = true)
    (src : Str) (htok : ∀ t ∈ tokenise src, fragTok env.elements t = true)
    (prog : List Structure) (hp : parseTop (tokenise src) = .ok prog) (code : List PyStmt)
    (ht : transpileAst env prog = .ok code) (fuel : Nat) (flags : String) (inputs : List Val)
    (obs : List Val × String) (hr : refProgram cfg fuel flags inputs prog = .ok obs) :
    pyProgram cfg fuel flags inputs code = .ok obs :=
  compile_correct cfg env hE hM prog (frag_of_tokens env.elements hlo (tokenise src) htok prog hp) code ht fuel flags inputs obs hr

/-- the fragment is not empty: `3(n2%[+|-X]:,){←a|←a‹→a}λ2|+[X];†ƛnd;` — `n`, a dyad, an `if` with a break inside a
    `for`, duplicate and print, a `while` on a variable, a lambda with an early return called at once, a map lambda, a list literal `⟨1|:+|⟩`, a function `@f:1:x|←x+;` and its call `@f;`, the modifiers `v+`, `&‹`, `ƒ+`, `₌d‹`, `ßd`, `~λ2|+;` -/
example : Frag Gen.elements
    [ .generic ⟨.number, [51]⟩,
      .forS [] [ .generic ⟨.general, [110]⟩, .generic ⟨.number, [50]⟩, .generic ⟨.general, [37]⟩,
                 .ifS [[.generic ⟨.general, [43]⟩], [.generic ⟨.general, [45]⟩, .brk .forS]],
                 .generic ⟨.general, [58]⟩, .generic ⟨.general, [44]⟩ ],
      .whileS (some [.generic ⟨.vget, [97]⟩]) [.generic ⟨.vget, [97]⟩, .generic ⟨.general, [8249]⟩, .generic ⟨.vset, [97]⟩],
      .lam (some 2) [.generic ⟨.general, [43]⟩, .ifS [[.brk .lam]]], .generic ⟨.general, [8224]⟩,
      .lamOp .lmap [.generic ⟨.general, [110]⟩, .generic ⟨.general, [100]⟩],
      .listS [[.generic ⟨.number, [49]⟩], [.generic ⟨.general, [58]⟩, .generic ⟨.general, [43]⟩], []],
      .fnDef [102] [[49], [120]] [.generic ⟨.vget, [120]⟩, .generic ⟨.general, [43]⟩], .fnCall [102],
      .mon [118] (.generic ⟨.general, [43]⟩), .mon [38] (.generic ⟨.general, [8249]⟩), .mon [402] (.generic ⟨.general, [43]⟩),
      .dy [8332] (.generic ⟨.general, [100]⟩) (.generic ⟨.general, [8249]⟩), .mon [223] (.generic ⟨.general, [100]⟩),
      .mon [126] (.lam (some 2) [.generic ⟨.general, [43]⟩]) ] := by
  decide +kernel

/-- the regenerated modifier table holds the eight templates the modifier lemmas were proved for, and nothing else -/
theorem modifier_templates_as_expected : ModsOK Gen.modifiers := by decide +kernel

/-- how much of the current element table the parametric element lemma covers -/
theorem table_coverage : (Gen.elements.filter elemOK).length = 237 := by decide +kernel

/-- every hand-written template of the closed core (`: D $ _ ^ W ! ? n £ ¥ , … ₴ w " d ¬ u ₀ ₁`) is, in the
    regenerated element table, exactly the template the simulation lemmas were proved for -/
theorem core_templates_as_expected :
    coreKeys.all (fun c => match lookupElem Gen.elements [c] with
      | some e => coreEntryOK [c] e
      | Option.none => false) = true := by decide +kernel

/-- the call element and the three elements behind map / filter / sort lambdas are, in the regenerated table, what the
    closure lemmas were proved for -/
theorem closure_elements_as_expected :
    (match lookupElem Gen.elements [8224] with | some e => callEntryOK [8224] e | Option.none => false) = true ∧
    ([[77], [70], [7777]].all (fun k => match lookupElem Gen.elements k with | some e => hoElemOK e | Option.none => false)) = true := by
  decide +kernel

end Vy.Sem
