import VyxalModel.Model.RefSem
/-! # C01 — structures execute as specified (property theorems; under construction) -/
namespace Vy.Sem

/-- `pop(stack, k, ctx)` always delivers exactly `k` values (implicit input fills the gap) -/
theorem popN_length (k : Nat) (st : List Val) (ins : List (List Val × Nat)) : (popN k st ins).1.length = k := by
  induction k generalizing st ins with
  | zero => simp [popN]
  | succ k ih =>
    cases st with
    | nil => simp only [popN]; simp [ih]
    | cons x st => simp only [popN]; simp [ih]

end Vy.Sem
