import VyxalModel.Lemmas.Encoding
import VyxalModel.Lemmas.Lexer
import VyxalModel.Gen.Codepage
import VyxalModel.Gen.Syntax
import VyxalModel.Gen.Elements
import VyxalModel.Gen.Modifiers
import VyxalModel.Gen.Yaml
/-!
# C20 — every element is typeable in one byte per character and reachable

All table theorems are over the *generated* tables (`Gen.*`, rewritten from the repository's
source on every run) and are discharged by kernel evaluation of Boolean checkers
(`decide +kernel`, no axioms).  The two round-trip theorems are for **all** byte strings and
all code-page texts (induction), not for the length-≤-2 sample the property text mentions.
-/
namespace C20
open Vy

/-! ## the code page -/

theorem codepage_length : Gen.codepage.length = 256 := by decide +kernel

theorem codepage_nodup : Gen.codepage.Nodup := nodupB_sound _ (by decide +kernel)

/-- bytes → text → bytes = id, for every byte string -/
theorem bytes_roundtrip (bs : List Nat) (h : ∀ b ∈ bs, b < 256) :
    (vyxalToUtf8 Gen.codepage bs).bind (utf8ToVyxal Gen.codepage) = some bs :=
  bytes_roundtrip_gen Gen.codepage codepage_nodup bs (by rw [codepage_length]; exact h)

/-- text → bytes → text = id, for every text over the code page; and the bytes are < 256, one per character -/
theorem text_roundtrip (s : List Nat) (h : ∀ c ∈ s, c ∈ Gen.codepage) :
    (utf8ToVyxal Gen.codepage s).bind (vyxalToUtf8 Gen.codepage) = some s :=
  text_roundtrip_gen Gen.codepage s h

theorem one_byte_per_character (s r : List Nat) (h : utf8ToVyxal Gen.codepage s = some r) :
    r.length = s.length ∧ ∀ b ∈ r, b < 256 := by
  refine ⟨utf8ToVyxal_length _ s r h, ?_⟩
  have := utf8ToVyxal_bytes _ s r h
  rw [codepage_length] at this
  exact this

example : (vyxalToUtf8 Gen.codepage [0, 255, 10]).bind (utf8ToVyxal Gen.codepage) = some [0, 255, 10] := by
  decide +kernel

/-! ## the derived alphabets (used by the codecs, C15) -/

theorem num_compress_alphabet :
    Gen.numCompress.length = 255 ∧ nodupB Gen.numCompress = true ∧ Gen.numCompress.contains 187 = false := by
  decide +kernel

theorem str_compress_alphabet :
    Gen.strCompress.length = 255 ∧ nodupB Gen.strCompress = true ∧ Gen.strCompress.contains 171 = false := by
  decide +kernel

/-! ## keys are written with code-page characters and lex as exactly one token -/

def inCodepage (k : List Nat) : Bool := k.all Gen.codepage.contains

def structureChars : List (List Nat) :=
  Gen.structureInfo.map (·.1) ++ Gen.structureInfo.map (·.2.2) ++ [Gen.breakCharacter, Gen.recurseCharacter, [124]]

def parserModifiers : List (List Nat) := Gen.monadicModifiers ++ Gen.dyadicModifiers ++ Gen.triadicModifiers

def allKeys : List (List Nat) :=
  Gen.elements.map (·.key) ++ Gen.modifiers.map (·.key) ++ parserModifiers ++ structureChars

theorem keys_in_codepage : allKeys.all inCodepage = true := by decide +kernel

def oneToken (k : List Nat) : Bool := tokenise k == [⟨.general, k⟩]

theorem keys_one_token : allKeys.all oneToken = true := by decide +kernel

example : oneToken [8710, 99] = true := by decide +kernel   -- ∆c, a digraph

/-! ## no key is shadowed by another table entry or by structure syntax -/

/-- F17 (known finding, see KNOWN_FINDINGS.txt): the key `ÞR` is written twice in the `elements`
    literal.  Full statement: `(Gen.elements.map (·.key)).Nodup`.  Proved: duplicate-free once
    one copy of `ÞR` is removed. -/
theorem element_keys_nodup_partial : ((Gen.elements.map (·.key)).erase [222, 82]).Nodup :=
  nodupBL_sound _ (by decide +kernel)

theorem modifier_keys_nodup : (Gen.modifiers.map (·.key)).Nodup := nodupBL_sound _ (by decide +kernel)

/-- parsing the single token `k` gives the single generic statement for `k` -/
def reachable (k : List Nat) : Bool :=
  match parseTop [⟨.general, k⟩] with
  | .ok [.generic t] => t == ⟨.general, k⟩
  | _ => false

/-- F18 (known finding): the table entry `x` is dead — the parser turns `x` into a recurse
    statement.  Full statement: every element key is reachable.  Proved: every key but `x`. -/
theorem elements_reachable_partial :
    (Gen.elements.filter (fun e => e.key != [120])).all (fun e => reachable e.key) = true := by decide +kernel

theorem x_entry_unreachable : reachable [120] = false := by decide +kernel

/-- a modifier character followed by enough elements parses into the modifier structure (or the
    lambda it abbreviates) holding exactly those elements -/
def plusTok : Token := ⟨.general, [43]⟩

def modReachable (m : List Nat) : Bool :=
  match m with
  | [c] =>
    if Gen.monadicModifiers.contains m then
      (match parseTop [⟨.general, m⟩, plusTok] with
       | .ok [.mon m' (.generic t)] => m' == m && t == plusTok
       | .ok [.lam (some 1) [.generic t]] => c == 8317 && t == plusTok
       | _ => false)
    else if Gen.dyadicModifiers.contains m then
      (match parseTop [⟨.general, m⟩, plusTok, plusTok] with
       | .ok [.dy m' (.generic t) (.generic u)] => m' == m && t == plusTok && u == plusTok
       | .ok [.lam (some 1) [.generic t, .generic u]] => c == 8225 && t == plusTok && u == plusTok
       | _ => false)
    else
      (match parseTop [⟨.general, m⟩, plusTok, plusTok, plusTok] with
       | .ok [.lam (some 1) [.generic t, .generic u, .generic v]] => c == 8812 && t == plusTok && u == plusTok && v == plusTok
       | _ => false)
  | _ => false

theorem modifiers_reachable : parserModifiers.all modReachable = true := by decide +kernel

/-- every modifier the parser builds a modifier structure for has a template, and every template
    belongs to a modifier the parser knows (otherwise `modifiers.get(m, "pass")` silently does nothing) -/
def lambdaModifiers : List (List Nat) := [[8317], [8225], [8812]]   -- ⁽ ‡ ≬ become lambdas

theorem modifier_tables_agree :
    (parserModifiers.filter (fun m => !lambdaModifiers.contains m)).all (fun m => (Gen.modifiers.map (·.key)).contains m) = true
    ∧ (Gen.modifiers.map (·.key)).all (fun m => parserModifiers.contains m && !lambdaModifiers.contains m) = true := by
  decide +kernel

/-- every structure opener parses (with nothing after it) to its structure, never to an element -/
def openerReachable (o : List Nat) : Bool :=
  match parseTop [⟨.general, o⟩] with
  | .ok [.generic _] => false
  | .ok [_] => true
  | _ => false

theorem structures_reachable : (Gen.structureInfo.map (·.1)).all openerReachable = true := by decide +kernel

/-! ## the parser/lexer models use the tables of the source -/

def clsOf : String → Option Parent
  | "IfStatement" => some .ifS | "ForLoop" => some .forS | "WhileLoop" => some .whileS
  | "FunctionCall" => some .fnCall | "Lambda" => some .lam | "LambdaMap" => some .lmap
  | "LambdaFilter" => some .lfilter | "LambdaSort" => some .lsort | "ListLiteral" => some .listS
  | _ => none

def openerRow (r : List Nat × String × List Nat) : Bool :=
  match r with
  | ([o], cls, [c]) => (match clsOf cls with
      | some p => opener? o == some (p, c) && isCloserCh c
      | none => false)
  | _ => false

/-- the model's `opener?`, closers and modifier lists are exactly STRUCTURE_INFORMATION and the three
    modifier lists of `vyxal/parse.py` -/
theorem syntax_tables_agree :
    Gen.structureInfo.all openerRow = true
    ∧ Gen.structureInfo.length = 9
    ∧ Gen.monadicModifiers = monadicMods.map (fun c => [c])
    ∧ Gen.dyadicModifiers = dyadicMods.map (fun c => [c])
    ∧ Gen.triadicModifiers = triadicMods.map (fun c => [c])
    ∧ Gen.breakCharacter = [cX] ∧ Gen.recurseCharacter = [cx] := by
  decide +kernel

/-- the model has no opener beyond the nine of the table: `opener?` answers `some` only on them -/
theorem opener_only_table (c : Nat) (h : (opener? c).isSome = true) : Gen.openingCharacters.contains c = true := by
  unfold opener? at h
  simp only [Gen.openingCharacters]
  repeat' split at h
  all_goals first | (subst_vars; decide) | simp at h

/-- the character classes `tokenise` tests, as read from its source, are the ones the lexer model implements -/
def expectedLexerClasses : List (String × String × List Nat) := [
  ("head", "Eq", [92]),
  ("head", "In", [96, 187, 171]),
  ("head", "Eq", [96]),
  ("character", "Eq", [92]),
  ("head", "Eq", [96]),
  ("head", "Eq", [187]),
  ("head", "Eq", [171]),
  ("head", "In", [1, 68, 46, 176]),
  ("head", "Eq", [48]),
  ("source[0]", "In", [176, 46]),
  ("source[0]", "In", [1, 68, 46, 176]),
  ("head", "Eq", [8219]),
  ("head", "In", [8594, 8592]),
  ("source[0]", "In", [1, 76, 95]),
  ("head", "Eq", [8594]),
  ("head", "Eq", [35]),
  ("source[0]", "NotEq", [10]),
  ("head", "In", [107, 8710, 248, 222, 168]),
  ("source[0]", "NotEq", [124]),
  ("head", "Eq", [8314])]

theorem lexer_classes_agree : Gen.lexerClasses = expectedLexerClasses := by decide +kernel

/-! ## documentation -/

def arityCompat (doc : String) (a : Int) : Bool :=
  if doc == "NA" || doc == "*" || doc == "" then true
  else if doc == "1 or 2" then a == 1 || a == 2
  else doc == toString a

def docFor (k : List Nat) : List Gen.DocEntry := Gen.yaml.filter (fun d => d.key == k && !d.isModifier)

theorem every_element_documented : Gen.elements.all (fun e => !(docFor e.key).isEmpty) = true := by decide +kernel

/-- every documentation entry of an element agrees with the arity in the table (`NA`, `*` and a missing
    arity field are the documentation's own notations for "not a fixed arity").
    Full statement: for every element.  F17 (known finding): `ÞR` is documented twice, once for the
    unreachable `foldl_rows`; proved for every key but `ÞR`. -/
theorem arity_matches_docs_partial :
    (Gen.elements.filter (fun e => e.key != [222, 82])).all
      (fun e => (docFor e.key).all (fun d => arityCompat d.arity e.arity)) = true := by decide +kernel

theorem arity_docs_counterexample_ÞR :
    (Gen.elements.filter (fun e => e.key == [222, 82])).all
      (fun e => (docFor e.key).all (fun d => arityCompat d.arity e.arity)) = false := by decide +kernel

end C20
