import VyxalModel.Lemmas.Truncation
import VyxalModel.Lemmas.TruncationAt
import VyxalModel.Proofs.C03
/-!
# C04 — omitting trailing closers never changes the parse

* token level (`parse_append_closers`): appending any prefix of the closers that are still pending at
  the end of the token list does not change the parse — every structure, every modifier, every
  parent kind, any nesting (induction over the parser's recursion, `Lemmas/Closers.lean`,
  `Lemmas/Truncation.lean`);
* lexer level: an unterminated back-quoted / compressed literal at the end of the program lexes
  like the terminated one;
* source level (`truncation_invariant_partial`): for programs written with pieces.

**Function definitions / references (`@`)**: an unclosed `@name` whose *name* contains an opener is the one
place where a trailing closer is read as text (`@f[` gives `FunctionCall('f[')` but `@f[];` gives
`FunctionCall('f[]')`; such a name is outside the documented `\w+`).  `atOK n ts` (`Lemmas/TruncationAt.lean`)
follows the parser's recursion and says exactly that this does not happen: wherever a `@` structure is still
open at the end of its token list and still in its header, the header has no pending opener of its own.
`parse_append_closers` / `truncation_invariant` are proved under `atOK`; token lists without `@` satisfy it
(`atOK_of_noAt`), so the `…_partial` statements (no `@` at all) are corollaries.  The excluded inputs are
run against the real parser by the harness, which shows the parse really does change there.
-/
namespace C04
open Vy

/-- the closers still pending after `ts`, innermost first -/
def openClosers (ts : List Token) : List Nat := scan [] ts

/-- **token level, every token list**: appending any prefix of the pending closers does not change the parse,
    function definitions and references included, as long as no `@` header that is still open at the end of
    its token list has an opener of its own (`atOK`). -/
theorem parse_append_closers (n : Nat) (ts : List Token) (par : Parent) (cs : List Nat)
    (h : cs <+: openClosers ts) (hq : atOK n ts = true) :
    parse n (ts ++ toks cs) par = parse n ts par :=
  parse_closers_at n ts par cs h hq

/-- token lists without `@` meet the hypothesis of `parse_append_closers` -/
theorem atOK_without_at (n : Nat) (ts : List Token) (hq : ∀ t ∈ ts, t.isGen1 ≠ some 64) : atOK n ts = true :=
  atOK_of_noAt n ts hq

theorem parse_append_closers_partial (n : Nat) (ts : List Token) (par : Parent) (cs : List Nat)
    (h : cs <+: openClosers ts) (hq : ∀ t ∈ ts, t.isGen1 ≠ some 64) :
    parse n (ts ++ toks cs) par = parse n ts par :=
  parse_closers n ts par cs h hq

/-- every pending closer is one of the five closing characters, so it lexes as its own GENERAL token -/
theorem openClosers_are_closers (ts : List Token) : ∀ c ∈ openClosers ts, isCloserCh c = true :=
  scan_closers ts [] (by intro c hc; simp at hc)

theorem closer_lexKind {c : Nat} (h : isCloserCh c = true) : lexKind c = .gen := by
  have : (((c = 93 ∨ c = 41) ∨ c = 125) ∨ c = 59) ∨ c = 10217 := by
    simpa [isCloserCh] using h
  rcases this with (((rfl | rfl) | rfl) | rfl) | rfl <;> decide

theorem lex_closers (cs : List Nat) (h : ∀ c ∈ cs, isCloserCh c = true) : tokenise cs = toks cs := by
  induction cs with
  | nil => simp [tokenise_nil, toks]
  | cons c cs ih =>
    rw [lex_general c cs (closer_lexKind (h c (by simp))), ih (fun x hx => h x (by simp [hx]))]
    simp [toks, tok]

theorem lex_backquote_unclosed (p : List Nat) (hp : bqValid p = true) :
    tokenise (96 :: p) = tokenise (96 :: p ++ [96]) := _root_.lex_backquote_unclosed p hp

theorem lex_compressed_number_unclosed (p : List Nat) (hp : ∀ c ∈ p, c ≠ 187) :
    tokenise (187 :: p) = tokenise (187 :: p ++ [187]) := _root_.lex_compressed_number_unclosed p hp

theorem lex_compressed_string_unclosed (p : List Nat) (hp : ∀ c ∈ p, c ≠ 171) :
    tokenise (171 :: p) = tokenise (171 :: p ++ [171]) := _root_.lex_compressed_string_unclosed p hp

open C03 in
/-- **source level**: a program written with pieces (plain characters, digraphs, literals), followed by
    any prefix of its pending closers, parses exactly like the program without them.
    (Full statement: also for programs with `@`; see the module comment.) -/
theorem truncation_invariant_partial (n : Nat) (ps : List Piece) (par : Parent) (cs : List Nat)
    (hv : ∀ p ∈ ps, p.valid = true)
    (h : cs <+: openClosers (tokensOf ps)) (hq : ∀ t ∈ tokensOf ps, t.isGen1 ≠ some 64) :
    parse n (tokenise (render ps ++ cs)) par = parse n (tokenise (render ps)) par := by
  have hc : ∀ c ∈ cs, isCloserCh c = true := fun c hcm => openClosers_are_closers _ c (h.subset hcm)
  have hcs : ∀ p ∈ cs.map Piece.gen, p.valid = true := by
    intro p hp
    obtain ⟨c, hcm, rfl⟩ := List.mem_map.mp hp
    simp [Piece.valid, closer_lexKind (hc c hcm)]
  have hr : render ps ++ cs = render (ps ++ cs.map Piece.gen) := by
    simp [render, List.flatMap_append, List.flatMap_map, Piece.render]
  have ht1 : ∀ (l : List Nat), tokensOf (l.map Piece.gen) = toks l := by
    intro l
    induction l with
    | nil => rfl
    | cons c l ih =>
      simp only [tokensOf, List.map_cons, List.flatMap_cons, Piece.tokens] at ih ⊢
      rw [ih]; rfl
  have ht : tokensOf (ps ++ cs.map Piece.gen) = tokensOf ps ++ toks cs := by
    rw [← ht1 cs]; simp [tokensOf, List.flatMap_append]
  rw [hr, lex_pieces _ (by intro p hp; rcases List.mem_append.mp hp with h1 | h1; exact hv p h1; exact hcs p h1),
    lex_pieces ps hv, ht]
  exact parse_closers n _ par cs h hq

open C03 in
/-- **source level, with `@`**: as `truncation_invariant_partial`, for programs with function definitions and
    references, under `atOK`. -/
theorem truncation_invariant (n : Nat) (ps : List Piece) (par : Parent) (cs : List Nat)
    (hv : ∀ p ∈ ps, p.valid = true)
    (h : cs <+: openClosers (tokensOf ps)) (hq : atOK n (tokensOf ps) = true) :
    parse n (tokenise (render ps ++ cs)) par = parse n (tokenise (render ps)) par := by
  have hc : ∀ c ∈ cs, isCloserCh c = true := fun c hcm => openClosers_are_closers _ c (h.subset hcm)
  have hcs : ∀ p ∈ cs.map Piece.gen, p.valid = true := by
    intro p hp
    obtain ⟨c, hcm, rfl⟩ := List.mem_map.mp hp
    simp [Piece.valid, closer_lexKind (hc c hcm)]
  have hr : render ps ++ cs = render (ps ++ cs.map Piece.gen) := by
    simp [render, List.flatMap_append, List.flatMap_map, Piece.render]
  have ht1 : ∀ (l : List Nat), tokensOf (l.map Piece.gen) = toks l := by
    intro l
    induction l with
    | nil => rfl
    | cons c l ih =>
      simp only [tokensOf, List.map_cons, List.flatMap_cons, Piece.tokens] at ih ⊢
      rw [ih]; rfl
  have ht : tokensOf (ps ++ cs.map Piece.gen) = tokensOf ps ++ toks cs := by
    rw [← ht1 cs]; simp [tokensOf, List.flatMap_append]
  rw [hr, lex_pieces _ (by intro p hp; rcases List.mem_append.mp hp with h1 | h1; exact hv p h1; exact hcs p h1),
    lex_pieces ps hv, ht]
  exact parse_closers_at n _ par cs h hq

/-- non-vacuity of `atOK`: `[@f:a|1(` (a definition past its header, inside a list) meets it with pending
    closers `) ; ]`; `@f[` (header with an opener of its own) does not. -/
example : atOK 20 [⟨.general, [91]⟩, ⟨.general, [64]⟩, ⟨.general, [102]⟩, ⟨.general, [58]⟩, ⟨.general, [97]⟩, ⟨.general, [124]⟩,
      ⟨.number, [49]⟩, ⟨.general, [40]⟩] = true
    ∧ openClosers [⟨.general, [91]⟩, ⟨.general, [64]⟩, ⟨.general, [102]⟩, ⟨.general, [58]⟩, ⟨.general, [97]⟩, ⟨.general, [124]⟩,
      ⟨.number, [49]⟩, ⟨.general, [40]⟩] = [41, 59, 93]
    ∧ atOK 20 [⟨.general, [64]⟩, ⟨.general, [102]⟩, ⟨.general, [91]⟩] = false := by decide

/-- non-vacuity: `[1(λ+` has the pending closers `; ) ]` -/
example : openClosers [⟨.general, [91]⟩, ⟨.number, [49]⟩, ⟨.general, [40]⟩, ⟨.general, [955]⟩, ⟨.general, [43]⟩]
    = [59, 41, 93] := by decide

end C04
