import VyxalModel.Model.Transpile
namespace C02
theorem placeholder : True := trivial
end C02
