import VyxalModel.Model.Transpile
import VyxalModel.Model.WFPy
import VyxalModel.Gen.Elements
import VyxalModel.Gen.Modifiers
/-!
# C02 — every well-formed program transpiles to Python that compiles

The step from the emitted *text* to a Python AST is the correspondence (`ast.parse` of the real text
must equal the model's tree); the theorems are about that tree:

* `templates_parse`: every template of the regenerated element and modifier tables parses;
* `templates_wf`: no template contains a `break`, `continue` or `return` of its own or a node the
  serialiser cannot represent — so it is valid wherever a statement is (in every branch of every
  structure, every modifier slot);
* the schematic lemmas: each structure template is well formed around any well-formed body, with the
  `X` / `x` templates well formed exactly in the context (`inLoop`, `inDef`) the templates put them in.

Known findings F5 / F26 are the two places where the context recorded by `parse` is not the context
the text ends up in (a while *condition*, a list-literal item inside a loop); F7 is the string escape.
-/
namespace C02
open Vy PyAst

def entryParses (e : Gen.Entry) : Bool := e.body.isSome

theorem templates_parse : (Gen.elements ++ Gen.modifiers).all entryParses = true := by decide +kernel

def entryWF (e : Gen.Entry) : Bool :=
  match e.body with
  | some b => !b.isEmpty && wfL false false b
  | none => false

theorem templates_wf : (Gen.elements ++ Gen.modifiers).all entryWF = true := by decide +kernel

theorem wfL_append (l d : Bool) (a b : List PyStmt) : wfL l d (a ++ b) = (wfL l d a && wfL l d b) := by
  induction a with
  | nil => simp [wfL]
  | cons s r ih => simp [wfL, ih, Bool.and_assoc]

/-- whatever is well formed in a context stays well formed in a more permissive one (inside a loop, inside a def) -/
def le (a b : Bool) : Prop := a = true → b = true

mutual
theorem wf_monoS : ∀ (s : PyStmt) (l d l' d' : Bool), le l l' → le d d' → wfS l d s = true → wfS l' d' s = true
  | .assign _ _, _, _, _, _, _, _, h => by simpa [wfS] using h
  | .augAssign _ _ _, _, _, _, _, _, _, h => by simpa [wfS] using h
  | .expr _, _, _, _, _, _, _, h => by simpa [wfS] using h
  | .ifS c t e, l, d, l', d', hl, hd, h => by
      simp only [wfS, Bool.and_eq_true] at h ⊢
      exact ⟨⟨⟨h.1.1.1, h.1.1.2⟩, wf_monoL t l d l' d' hl hd h.1.2⟩, wf_monoL e l d l' d' hl hd h.2⟩
  | .whileS c b, l, d, l', d', _, hd, h => by
      simp only [wfS, Bool.and_eq_true] at h ⊢
      exact ⟨⟨h.1.1, h.1.2⟩, wf_monoL b true d true d' (fun x => x) hd h.2⟩
  | .forS t it b, l, d, l', d', _, hd, h => by
      simp only [wfS, Bool.and_eq_true] at h ⊢
      exact ⟨⟨⟨h.1.1.1, h.1.1.2⟩, h.1.2⟩, wf_monoL b true d true d' (fun x => x) hd h.2⟩
  | .defS _ _ _, _, _, _, _, _, _, h => by simpa [wfS] using h
  | .defP _ _ _ _, _, _, _, _, _, _, h => by simpa [wfS] using h
  | .ret v, l, d, l', d', _, hd, h => by
      simp only [wfS, Bool.and_eq_true] at h ⊢
      exact ⟨hd h.1, h.2⟩
  | .brk, l, d, l', d', hl, _, h => by simp only [wfS] at h ⊢; exact hl h
  | .cont, l, d, l', d', hl, _, h => by simp only [wfS] at h ⊢; exact hl h
  | .pass, _, _, _, _, _, _, _ => by simp [wfS]
  | .tryS b hs o f, l, d, l', d', hl, hd, h => by
      simp only [wfS, Bool.and_eq_true] at h ⊢
      exact ⟨⟨⟨⟨h.1.1.1.1, wf_monoL b l d l' d' hl hd h.1.1.1.2⟩, wf_monoLL hs l d l' d' hl hd h.1.1.2⟩,
        wf_monoL o l d l' d' hl hd h.1.2⟩, wf_monoL f l d l' d' hl hd h.2⟩
  | .other _ _ _, _, _, _, _, _, _, h => by simp [wfS] at h
theorem wf_monoL : ∀ (b : List PyStmt) (l d l' d' : Bool), le l l' → le d d' → wfL l d b = true → wfL l' d' b = true
  | [], _, _, _, _, _, _, _ => by simp [wfL]
  | s :: r, l, d, l', d', hl, hd, h => by
      simp only [wfL, Bool.and_eq_true] at h ⊢
      exact ⟨wf_monoS s l d l' d' hl hd h.1, wf_monoL r l d l' d' hl hd h.2⟩
theorem wf_monoLL : ∀ (b : List (List PyStmt)) (l d l' d' : Bool), le l l' → le d d' → wfLL l d b = true → wfLL l' d' b = true
  | [], _, _, _, _, _, _, _ => by simp [wfLL]
  | s :: r, l, d, l', d', hl, hd, h => by
      simp only [wfLL, Bool.and_eq_true] at h ⊢
      exact ⟨wf_monoL s l d l' d' hl hd h.1, wf_monoLL r l d l' d' hl hd h.2⟩
end

/-- hence a template of the tables is valid in every position of every structure -/
theorem template_valid_everywhere (e : Gen.Entry) (he : e ∈ Gen.elements ++ Gen.modifiers) (b : List PyStmt)
    (hb : e.body = some b) (l d : Bool) : wfL l d b = true := by
  have h := List.all_eq_true.mp templates_wf e he
  simp only [entryWF, hb, Bool.and_eq_true] at h
  exact wf_monoL b false false l d (fun x => by simp at x) (fun x => by simp at x) h.2

/-! ## structure templates -/

theorem for_template_wf (l d : Bool) (var : PyExpr) (body : List PyStmt)
    (hv : wfTarget var = true) (hve : wfE var = true) (hb : wfL true d body = true) :
    wfL l d (forTemplate var body) = true := by
  simp [forTemplate, wfL, wfS, wfL_append, hb, hv, hve, ctxCall, ctxE, callN, nm, pop1kw, stackE, kwCtx, wfE, wfEL, wfKw]

theorem while_template_wf (l d : Bool) (cond body : List PyStmt)
    (hc : ∀ l', wfL l' d cond = true) (hb : wfL true d body = true) :
    wfL l d (whileTemplate cond body) = true := by
  simp [whileTemplate, wfL, wfS, wfL_append, hb, hc, condPop, boolifyCond, assign1, ctxCall, ctxE, callN, nm, pop1kw, stackE,
    kwCtx, wfE, wfEL, wfKw, wfTarget]

theorem break_in_loop_wf (d : Bool) : wfL true d (breakTemplate .forS) = true := by
  simp [breakTemplate, wfL, wfS, ctxCall, ctxE, wfE, wfEL, wfKw]

theorem continue_in_loop_wf (d : Bool) : wfL true d (recurseTemplate .whileS) = true := by
  simp [recurseTemplate, wfL, wfS, ctxCall, ctxE, wfE, wfEL, wfKw]

theorem break_in_lambda_wf (l : Bool) : wfL l true (breakTemplate .lam) = true := by
  cases l <;> decide

/-- the failing placement of F5 / F26: the loop's `break` template outside any loop -/
theorem break_outside_loop_not_wf (d : Bool) : wfL false d (breakTemplate .forS) = false := by
  cases d <;> decide

theorem lambda_template_wf (l d : Bool) (id : Str) (ar : PyExpr) (body : List PyStmt)
    (har : wfE ar = true) (hb : wfL false true body = true) :
    wfL l d (lambdaTemplate id ar body) = true := by
  have hp : wfL false true (lambdaPrologue ar) = true := by
    simp [lambdaPrologue, wfL, wfS, assign1, ctxCall, ctxE, callN, nm, stackE, kwCtx, wfE, wfEL, wfKw, wfC, wfO, wfTarget, har]
  have he : wfL false true lambdaEpilogue = true := by decide
  have hne : ¬ lambdaEpilogue = [] := by simp [lambdaEpilogue]
  simp [lambdaTemplate, wfL, wfS, wfL_append, hp, he, hb, lambdaParams, wfO, wfE, assign1, push, stackE, wfTarget, wfEL,
    wfKw, har, hne]

end C02
