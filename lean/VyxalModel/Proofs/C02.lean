import VyxalModel.Model.Transpile
import VyxalModel.Model.WFPy
import VyxalModel.Model.Placed
import VyxalModel.Gen.Elements
import VyxalModel.Gen.Modifiers
/-!
# C02 — every well-formed program transpiles to Python that compiles

The step from the emitted *text* to a Python AST is the correspondence (`ast.parse` of the real text
must equal the model's tree); the theorems are about that tree:

* `templates_parse`: every template of the regenerated element and modifier tables parses;
* `templates_wf`: no template contains a `break`, `continue` or `return` of its own or a node the
  serialiser cannot represent — so it is valid wherever a statement is (in every branch of every
  structure, every modifier slot);
* the schematic lemmas: each structure template is well formed around any well-formed body, with the
  `X` / `x` templates well formed exactly in the context (`inLoop`, `inDef`) the templates put them in.

Known findings F5 / F26 are the two places where the context recorded by `parse` is not the context
the text ends up in (a while *condition*, a list-literal item inside a loop); F7 is the string escape.
-/
namespace C02
open Vy PyAst

def entryParses (e : Gen.Entry) : Bool := e.body.isSome

theorem templates_parse : (Gen.elements ++ Gen.modifiers).all entryParses = true := by decide +kernel

def entryWF (e : Gen.Entry) : Bool :=
  match e.body with
  | some b => !b.isEmpty && wfL false false b
  | none => false

theorem templates_wf : (Gen.elements ++ Gen.modifiers).all entryWF = true := by decide +kernel

theorem wfL_append (l d : Bool) (a b : List PyStmt) : wfL l d (a ++ b) = (wfL l d a && wfL l d b) := by
  induction a with
  | nil => simp [wfL]
  | cons s r ih => simp [wfL, ih, Bool.and_assoc]

/-- whatever is well formed in a context stays well formed in a more permissive one (inside a loop, inside a def) -/
def le (a b : Bool) : Prop := a = true → b = true

mutual
theorem wf_monoS : ∀ (s : PyStmt) (l d l' d' : Bool), le l l' → le d d' → wfS l d s = true → wfS l' d' s = true
  | .assign _ _, _, _, _, _, _, _, h => by simpa [wfS] using h
  | .augAssign _ _ _, _, _, _, _, _, _, h => by simpa [wfS] using h
  | .expr _, _, _, _, _, _, _, h => by simpa [wfS] using h
  | .ifS c t e, l, d, l', d', hl, hd, h => by
      simp only [wfS, Bool.and_eq_true] at h ⊢
      exact ⟨⟨⟨h.1.1.1, h.1.1.2⟩, wf_monoL t l d l' d' hl hd h.1.2⟩, wf_monoL e l d l' d' hl hd h.2⟩
  | .whileS c b, l, d, l', d', _, hd, h => by
      simp only [wfS, Bool.and_eq_true] at h ⊢
      exact ⟨⟨h.1.1, h.1.2⟩, wf_monoL b true d true d' (fun x => x) hd h.2⟩
  | .forS t it b, l, d, l', d', _, hd, h => by
      simp only [wfS, Bool.and_eq_true] at h ⊢
      exact ⟨⟨⟨h.1.1.1, h.1.1.2⟩, h.1.2⟩, wf_monoL b true d true d' (fun x => x) hd h.2⟩
  | .defS _ _ _, _, _, _, _, _, _, h => by simpa [wfS] using h
  | .defP _ _ _ _, _, _, _, _, _, _, h => by simpa [wfS] using h
  | .ret v, l, d, l', d', _, hd, h => by
      simp only [wfS, Bool.and_eq_true] at h ⊢
      exact ⟨hd h.1, h.2⟩
  | .brk, l, d, l', d', hl, _, h => by simp only [wfS] at h ⊢; exact hl h
  | .cont, l, d, l', d', hl, _, h => by simp only [wfS] at h ⊢; exact hl h
  | .pass, _, _, _, _, _, _, _ => by simp [wfS]
  | .tryS b hs o f, l, d, l', d', hl, hd, h => by
      simp only [wfS, Bool.and_eq_true] at h ⊢
      exact ⟨⟨⟨⟨h.1.1.1.1, wf_monoL b l d l' d' hl hd h.1.1.1.2⟩, wf_monoLL hs l d l' d' hl hd h.1.1.2⟩,
        wf_monoL o l d l' d' hl hd h.1.2⟩, wf_monoL f l d l' d' hl hd h.2⟩
  | .other _ _ _, _, _, _, _, _, _, h => by simp [wfS] at h
theorem wf_monoL : ∀ (b : List PyStmt) (l d l' d' : Bool), le l l' → le d d' → wfL l d b = true → wfL l' d' b = true
  | [], _, _, _, _, _, _, _ => by simp [wfL]
  | s :: r, l, d, l', d', hl, hd, h => by
      simp only [wfL, Bool.and_eq_true] at h ⊢
      exact ⟨wf_monoS s l d l' d' hl hd h.1, wf_monoL r l d l' d' hl hd h.2⟩
theorem wf_monoLL : ∀ (b : List (List PyStmt)) (l d l' d' : Bool), le l l' → le d d' → wfLL l d b = true → wfLL l' d' b = true
  | [], _, _, _, _, _, _, _ => by simp [wfLL]
  | s :: r, l, d, l', d', hl, hd, h => by
      simp only [wfLL, Bool.and_eq_true] at h ⊢
      exact ⟨wf_monoL s l d l' d' hl hd h.1, wf_monoLL r l d l' d' hl hd h.2⟩
end

/-- hence a template of the tables is valid in every position of every structure -/
theorem template_valid_everywhere (e : Gen.Entry) (he : e ∈ Gen.elements ++ Gen.modifiers) (b : List PyStmt)
    (hb : e.body = some b) (l d : Bool) : wfL l d b = true := by
  have h := List.all_eq_true.mp templates_wf e he
  simp only [entryWF, hb, Bool.and_eq_true] at h
  exact wf_monoL b false false l d (fun x => by simp at x) (fun x => by simp at x) h.2

/-! ## structure templates -/

theorem for_template_wf (l d : Bool) (var : PyExpr) (body : List PyStmt)
    (hv : wfTarget var = true) (hve : wfE var = true) (hb : wfL true d body = true) :
    wfL l d (forTemplate var body) = true := by
  simp [forTemplate, wfL, wfS, wfL_append, hb, hv, hve, ctxCall, ctxE, callN, nm, pop1kw, stackE, kwCtx, wfE, wfEL, wfKw]

theorem while_template_wf (l d : Bool) (cond body : List PyStmt)
    (hc : ∀ l', wfL l' d cond = true) (hb : wfL true d body = true) :
    wfL l d (whileTemplate cond body) = true := by
  simp [whileTemplate, wfL, wfS, wfL_append, hb, hc, condPop, boolifyCond, assign1, ctxCall, ctxE, callN, nm, pop1kw, stackE,
    kwCtx, wfE, wfEL, wfKw, wfTarget]

theorem break_in_loop_wf (d : Bool) : wfL true d (breakTemplate .forS) = true := by
  simp [breakTemplate, wfL, wfS, ctxCall, ctxE, wfE, wfEL, wfKw]

theorem continue_in_loop_wf (d : Bool) : wfL true d (recurseTemplate .whileS) = true := by
  simp [recurseTemplate, wfL, wfS, ctxCall, ctxE, wfE, wfEL, wfKw]

theorem break_in_lambda_wf (l : Bool) : wfL l true (breakTemplate .lam) = true := by
  cases l <;> decide

/-- the failing placement of F5 / F26: the loop's `break` template outside any loop -/
theorem break_outside_loop_not_wf (d : Bool) : wfL false d (breakTemplate .forS) = false := by
  cases d <;> decide

theorem lambda_template_wf (l d : Bool) (id : Str) (ar : PyExpr) (body : List PyStmt)
    (har : wfE ar = true) (hb : wfL false true body = true) :
    wfL l d (lambdaTemplate id ar body) = true := by
  have hp : wfL false true (lambdaPrologue ar) = true := by
    simp [lambdaPrologue, wfL, wfS, assign1, ctxCall, ctxE, callN, nm, stackE, kwCtx, wfE, wfEL, wfKw, wfC, wfO, wfTarget, har]
  have he : wfL false true lambdaEpilogue = true := by decide
  have hne : ¬ lambdaEpilogue = [] := by simp [lambdaEpilogue]
  simp [lambdaTemplate, wfL, wfS, wfL_append, hp, he, hb, lambdaParams, wfO, wfE, assign1, push, stackE, wfTarget, wfEL,
    wfKw, har, hne]

/-! ## the tree-level theorem: every parsed program whose `X` / `x` stand where `parse` says transpiles to well-formed Python -/

/-- the regenerated tables hold well-formed templates only -/
def TablesWF (env : TEnv) : Prop := (env.elements ++ env.modifiers).all entryWF = true

theorem lookupEntry_mem (tbl : List Gen.Entry) (k : Str) :
    ∀ (acc : Option Gen.Entry) (e : Gen.Entry), (∀ e0, acc = some e0 → e0 ∈ tbl) →
      tbl.foldl (fun acc e => if e.key = k then some e else acc) acc = some e → e ∈ tbl := by
  suffices h : ∀ (l : List Gen.Entry), (∀ x ∈ l, x ∈ tbl) → ∀ (acc : Option Gen.Entry) (e : Gen.Entry), (∀ e0, acc = some e0 → e0 ∈ tbl) →
      l.foldl (fun acc e => if e.key = k then some e else acc) acc = some e → e ∈ tbl from h tbl (fun _ hx => hx)
  intro l
  induction l with
  | nil => intro _ acc e hacc h; exact hacc e h
  | cons x xs ih =>
    intro hl acc e hacc h
    simp only [List.foldl_cons] at h
    apply ih (fun y hy => hl y (List.mem_cons_of_mem _ hy)) _ e _ h
    intro e0 he0
    by_cases hx : x.key = k
    · simp [hx] at he0; subst he0; exact hl x (List.mem_cons_self)
    · simp [hx] at he0; exact hacc e0 he0

theorem entry_wf (env : TEnv) (hT : TablesWF env) (tbl : List Gen.Entry) (htbl : ∀ e ∈ tbl, e ∈ env.elements ++ env.modifiers)
    (k : Str) (e : Gen.Entry) (b : List PyStmt) (hl : lookupEntry tbl k = some e) (hb : e.body = some b) (l d : Bool) :
    wfL l d b = true ∧ b ≠ [] := by
  have hmem := htbl e (lookupEntry_mem tbl k Option.none e (by intro e0 he0; simp at he0) hl)
  have h := List.all_eq_true.mp hT e hmem
  simp only [entryWF, hb, Bool.and_eq_true] at h
  refine ⟨wf_monoL b false false l d (fun x => by simp at x) (fun x => by simp at x) h.2, ?_⟩
  intro hb0; rw [hb0] at h; simp at h

theorem wf_orPass (l d : Bool) (b : List PyStmt) (h : wfL l d b = true) : wfL l d (orPass b) = true ∧ orPass b ≠ [] := by
  unfold orPass
  cases b with
  | nil => simp [wfL, wfS]
  | cons s r => simpa using h

theorem wf_push (l d : Bool) (e : PyExpr) (he : wfE e = true) : wfL l d [push e] = true := by
  simp [wfL, wfS, push, stackE, wfE, wfEL, wfKw, he]

theorem wfE_pyInt (i : Int) : wfE (pyInt i) = true := by
  unfold pyInt
  split
  · unfold wfE; unfold wfE; rfl
  · unfold wfE; rfl

theorem token_wf (env : TEnv) (hT : TablesWF env) (t : Token) (code : List PyStmt) (ht : transpileToken env t = .ok code) (l d : Bool) :
    wfL l d code = true := by
  unfold transpileToken at ht
  cases hk : t.kind with
  | string =>
    simp only [hk] at ht
    split at ht
    · simp at ht; subst ht; exact wf_push l d _ (by simp [wfE])
    · simp at ht
    · simp at ht
  | number =>
    simp only [hk] at ht
    simp at ht; subst ht; exact wf_push l d _ (by simp [wfE, wfEL, wfKw])
  | general =>
    simp only [hk] at ht
    cases hl : lookupEntry env.elements t.value with
    | none => simp [hl] at ht; subst ht; simp [wfL, wfS]
    | some e =>
      simp only [hl] at ht
      cases hb : e.body with
      | none => simp [hb] at ht
      | some b =>
        simp [hb] at ht; subst ht
        exact (entry_wf env hT env.elements (fun e he => List.mem_append_left _ he) t.value e b hl hb l d).1
  | cnum =>
    simp only [hk] at ht
    split at ht
    · simp at ht; subst ht; exact wf_push l d _ (by simp [wfE])
    · simp at ht
  | cstr =>
    simp only [hk] at ht
    split at ht
    · simp at ht; subst ht; exact wf_push l d _ (by simp [wfE])
    · simp at ht
  | vget =>
    simp only [hk] at ht
    split at ht
    · simp at ht; subst ht; exact wf_push l d _ (by simp [wfE, ctxE])
    · split at ht <;> (simp at ht; subst ht; exact wf_push l d _ (by simp [wfE, ctxE]))
  | vset =>
    simp only [hk] at ht
    split at ht
    · simp at ht; subst ht; simp [wfL, wfS, assign1, pop1kw, stackE, kwCtx, ctxE, wfE, wfEL, wfKw, wfTarget]
    · split at ht <;> (simp at ht; subst ht; simp [wfL, wfS, assign1, pop1kw, pop1pos, stackE, kwCtx, ctxE, wfE, wfEL, wfKw, wfTarget])
  | cpnum =>
    simp only [hk] at ht
    simp at ht; subst ht
    exact wf_push l d _ (wfE_pyInt _)
  | character =>
    simp only [hk] at ht
    simp at ht; subst ht; exact wf_push l d _ (by simp [wfE])

/-! ### the structure templates around well-formed parts -/

/-- every branch well formed and not empty -/
def allWF (l d : Bool) : List (List PyStmt) → Bool
  | [] => true
  | c :: r => wfL l d c && !c.isEmpty && allWF l d r

theorem ifChain_wf (l d : Bool) : ∀ (cs : List (List PyStmt)), allWF l d cs = true → wfL l d (ifChain cs) = true
  | [], _ => by simp [ifChain, wfL]
  | [b0], h => by
      simp only [allWF, Bool.and_eq_true] at h
      simp [ifChain, wfL, wfS, condPop, boolifyCond, assign1, callN, nm, pop1kw, stackE, kwCtx, ctxE, wfE, wfEL, wfKw, wfTarget, h.1.1]
      simpa using h.1.2
  | [b0, b1], h => by
      simp only [allWF, Bool.and_eq_true] at h
      simp [ifChain, wfL, wfS, condPop, boolifyCond, assign1, callN, nm, pop1kw, stackE, kwCtx, ctxE, wfE, wfEL, wfKw, wfTarget, h.1.1,
        h.2.1.1]
      simpa using h.1.2
  | b0 :: b1 :: b2 :: rest, h => by
      simp only [allWF, Bool.and_eq_true] at h
      have ih := ifChain_wf l d (b2 :: rest) (by simp only [allWF, Bool.and_eq_true]; exact h.2.2)
      simp only [ifChain]
      simp [wfL, wfS, wfL_append, condPop, boolifyCond, assign1, callN, nm, pop1kw, stackE, kwCtx, ctxE, wfE, wfEL, wfKw, wfTarget, h.1.1,
        h.2.1.1, ih]
      simpa using h.1.2

theorem while2_wf (l d : Bool) (c1 c2 body : List PyStmt) (h1 : wfL l d c1 = true) (h2 : wfL true d c2 = true)
    (hb : wfL true d body = true) :
    wfL l d (c1 ++ [ condPop, .whileS boolifyCond
      ([ctxCall "context_values" "append" [nm "condition"]] ++ body ++ [ctxCall "context_values" "pop" []] ++ c2 ++ [condPop]) ]) = true := by
  simp [wfL, wfS, wfL_append, h1, h2, hb, condPop, boolifyCond, assign1, ctxCall, ctxE, callN, nm, pop1kw, stackE, kwCtx, wfE, wfEL,
    wfKw, wfTarget]

theorem fnCall_wf (l d : Bool) (name : Str) : wfL l d (fnCallTemplate name) = true := by
  simp [fnCallTemplate, wfL, wfS, stackE, ctxE, wfE, wfEL, wfKw, wfTarget]

theorem paramStmt_wf (p : Str) : wfS false true (paramStmt p) = true := by
  unfold paramStmt
  split
  · simp [wfS, nm, callN, ctxE, wfE, wfEL, wfKw, wfTarget]
  · split
    · simp [wfS, nm, pop1kw, kwCtx, ctxE, wfE, wfEL, wfKw, wfTarget]
    · simp [wfS, assign1, nm, pop1kw, kwCtx, ctxE, wfE, wfEL, wfKw, wfTarget]

theorem params_wf : ∀ ps : List Str, wfL false true (ps.map paramStmt) = true
  | [] => by simp [wfL]
  | p :: ps => by simp [wfL, paramStmt_wf p, params_wf ps]

theorem fnDef_wf (l d : Bool) (name : Str) (params : List Str) (body : List PyStmt) (hb : wfL false true body = true) :
    wfL l d (fnDefTemplate name params body) = true := by
  have hp : wfL false true (fnDefPrologue name params) = true := by
    simp [fnDefPrologue, wfL, wfS, wfL_append, params_wf, assign1, ctxCall, ctxE, nm, stackE, wfE, wfEL, wfKw, wfO, wfTarget]
  have he : wfL false true fnDefEpilogue = true := by decide
  have hne : ¬ fnDefEpilogue = [] := by simp [fnDefEpilogue]
  simp [fnDefTemplate, wfL, wfS, wfL_append, hp, he, hb, lambdaParams, wfO, wfE, hne]

theorem listItem_wf (l d : Bool) (item : List PyStmt) (hi : wfL false true item = true) :
    wfL l d (listItemTemplate item) = true := by
  have he : wfL false true listItemEpilogue = true := by decide
  simp [listItemTemplate, wfL, wfS, wfL_append, hi, he, assign1, callN, nm, stackE, ctxE, wfE, wfEL, wfKw, wfO, wfC, wfTarget]

theorem listItems_wf (l d : Bool) : ∀ items : List (List PyStmt), allWF false true items = true →
    wfL l d (items.map listItemTemplate).flatten = true
  | [], _ => by simp [wfL]
  | i :: r, h => by
      simp only [allWF, Bool.and_eq_true] at h
      simp [wfL_append, listItem_wf l d i h.1.1, listItems_wf l d r h.2]

theorem list_wf (l d : Bool) (items : List (List PyStmt)) (h : allWF false true items = true) :
    wfL l d (listTemplate items) = true := by
  simp [listTemplate, wfL, wfS, wfL_append, listItems_wf l d items h, assign1, push, callN, nm, stackE, wfE, wfEL, wfKw, wfTarget]

theorem break_wf (l d : Bool) (p : Parent) (h : placedBrk l d p = true) : wfL l d (breakTemplate p) = true := by
  cases l <;> cases d <;> cases p <;> first | decide | simp [placedBrk] at h

theorem recurse_wf (l d : Bool) (p : Parent) (h : placedRec l p = true) : wfL l d (recurseTemplate p) = true := by
  cases l <;> cases d <;> cases p <;> first | decide | simp [placedRec] at h

theorem functionPop_wf (l d : Bool) (x : String) : wfS l d (functionPop x) = true := by
  simp [functionPop, wfS, assign1, nm, pop1pos, stackE, ctxE, wfE, wfEL, wfKw, wfTarget]

theorem modTemplate_wf (env : TEnv) (hT : TablesWF env) (m : Str) (tmpl : List PyStmt) (ht : modTemplate env m = .ok tmpl) (l d : Bool) :
    wfL l d tmpl = true := by
  unfold modTemplate at ht
  cases hl : lookupEntry env.modifiers m with
  | none => simp [hl] at ht; subst ht; simp [wfL, wfS]
  | some e =>
    simp only [hl] at ht
    cases hb : e.body with
    | none => simp [hb] at ht
    | some b =>
      simp [hb] at ht; subst ht
      exact (entry_wf env hT env.modifiers (fun e he => List.mem_append_right _ he) m e b hl hb l d).1

theorem arityExpr_wf (ar : Option Nat) : wfE (arityExpr ar) = true := by
  cases ar <;> simp [arityExpr, wfE, ctxE]

/-! ### the induction over the program -/

@[local simp] theorem ex_ok_bind {ε α β} (a : α) (f : α → Except ε β) : ((Except.ok a : Except ε α) >>= f) = f a := rfl
@[local simp] theorem ex_err_bind {ε α β} (e : ε) (f : α → Except ε β) : ((Except.error e : Except ε α) >>= f) = .error e := rfl
@[local simp] theorem ex_map_ok {ε α β} (a : α) (f : α → β) : (f <$> (Except.ok a : Except ε α)) = .ok (f a) := rfl
@[local simp] theorem ex_map_err {ε α β} (e : ε) (f : α → β) : (f <$> (Except.error e : Except ε α)) = .error e := rfl
@[local simp] theorem ex_pure {ε α} (a : α) : (pure a : Except ε α) = .ok a := rfl

mutual
theorem trS_wf (env : TEnv) (hT : TablesWF env) : ∀ (s : Structure) (l d : Bool) (k : Nat) (code : List PyStmt) (k' : Nat),
    placedS l d s = true → transpileS env k s = .ok (code, k') → wfL l d code = true
  | .generic t, l, d, k, code, k', _, ht => by
      simp only [transpileS] at ht
      cases htt : transpileToken env t with
      | error e => simp [htt] at ht
      | ok c => simp [htt] at ht; obtain ⟨h1, _⟩ := ht; subst h1; exact token_wf env hT t c htt l d
  | .brk p, l, d, k, code, k', hp, ht => by
      simp [transpileS] at ht; obtain ⟨h1, _⟩ := ht; subst h1
      exact break_wf l d p (by simpa [placedS] using hp)
  | .recurse p, l, d, k, code, k', hp, ht => by
      simp [transpileS] at ht; obtain ⟨h1, _⟩ := ht; subst h1
      exact recurse_wf l d p (by simpa [placedS] using hp)
  | .ifS bs, l, d, k, code, k', hp, ht => by
      simp only [placedS] at hp
      simp only [transpileS] at ht
      cases hll : transpileLL env k bs with
      | error e => simp [hll] at ht
      | ok r =>
        obtain ⟨cs, k1⟩ := r
        simp [hll] at ht; obtain ⟨h1, _⟩ := ht; subst h1
        exact ifChain_wf l d cs (trLL_wf env hT bs l d k cs k1 hp hll)
  | .forS names body, l, d, k, code, k', hp, ht => by
      simp only [placedS] at hp
      cases names with
      | nil =>
        simp only [transpileS] at ht
        cases hb : transpileL env (k + 1) body with
        | error e => simp [hb] at ht
        | ok r =>
          obtain ⟨b, k2⟩ := r
          simp [hb] at ht; obtain ⟨h1, _⟩ := ht; subst h1
          exact for_template_wf l d _ _ (by simp [wfTarget]) (by simp [wfE]) (wf_orPass true d b (trL_wf env hT body true d (k + 1) b k2 hp hb)).1
      | cons nm rest =>
        simp only [transpileS] at ht
        cases hb : transpileL env k body with
        | error e => simp [hb] at ht
        | ok r =>
          obtain ⟨b, k2⟩ := r
          simp [hb] at ht; obtain ⟨h1, _⟩ := ht; subst h1
          have hbw := (wf_orPass true d b (trL_wf env hT body true d k b k2 hp hb)).1
          split
          · exact for_template_wf l d _ _ (by simp [wfTarget, wfE, ctxE]) (by simp [wfE, ctxE]) hbw
          · exact for_template_wf l d _ _ (by simp [wfTarget]) (by simp [wfE]) hbw
  | .whileS Option.none body, l, d, k, code, k', hp, ht => by
      simp only [placedS] at hp
      simp only [transpileS] at ht
      cases hc : transpileToken env ⟨.number, [49]⟩ with
      | error e => simp [hc] at ht
      | ok c =>
        cases hb : transpileL env k body with
        | error e => simp [hc, hb] at ht
        | ok r =>
          obtain ⟨b, k2⟩ := r
          simp [hc, hb] at ht; obtain ⟨h1, _⟩ := ht; subst h1
          exact while_template_wf l d c _ (fun l' => token_wf env hT _ c hc l' d)
            (wf_orPass true d b (trL_wf env hT body true d k b k2 hp hb)).1
  | .whileS (some cnd) body, l, d, k, code, k', hp, ht => by
      simp only [placedS, Bool.and_eq_true] at hp
      simp only [transpileS] at ht
      cases hc1 : transpileL env k cnd with
      | error e => simp [hc1] at ht
      | ok r1 =>
        obtain ⟨c1, k1⟩ := r1
        cases hb : transpileL env k1 body with
        | error e => simp [hc1, hb] at ht
        | ok r2 =>
          obtain ⟨b, k2⟩ := r2
          cases hc2 : transpileL env k2 cnd with
          | error e => simp [hc1, hb, hc2] at ht
          | ok r3 =>
            obtain ⟨c2, k3⟩ := r3
            simp [hc1, hb, hc2] at ht; obtain ⟨h1, _⟩ := ht; subst h1
            have w1 := (wf_orPass l d c1 (trL_wf env hT cnd l d k c1 k1 hp.1 hc1)).1
            have w2 := (wf_orPass l d c2 (trL_wf env hT cnd l d k2 c2 k3 hp.1 hc2)).1
            have w2' := wf_monoL _ l d true d (fun _ => rfl) (fun x => x) w2
            have wb := (wf_orPass true d b (trL_wf env hT body true d k1 b k2 hp.2 hb)).1
            have := while2_wf l d (orPass c1) (orPass c2) (orPass b) w1 w2' wb
            simpa using this
  | .fnCall name, l, d, k, code, k', _, ht => by
      simp [transpileS] at ht; obtain ⟨h1, _⟩ := ht; subst h1
      exact fnCall_wf l d name
  | .fnDef name params body, l, d, k, code, k', hp, ht => by
      simp only [placedS] at hp
      simp only [transpileS] at ht
      cases hb : transpileL env k body with
      | error e => simp [hb] at ht
      | ok r =>
        obtain ⟨b, k2⟩ := r
        simp [hb] at ht; obtain ⟨h1, _⟩ := ht; subst h1
        exact fnDef_wf l d name params _ (wf_orPass false true b (trL_wf env hT body false true k b k2 hp hb)).1
  | .lam ar body, l, d, k, code, k', hp, ht => by
      simp only [placedS] at hp
      simp only [transpileS] at ht
      cases hb : transpileL env (k + 1) body with
      | error e => simp [hb] at ht
      | ok r =>
        obtain ⟨b, k2⟩ := r
        simp [hb] at ht; obtain ⟨h1, _⟩ := ht; subst h1
        exact lambda_template_wf l d _ _ _ (arityExpr_wf ar) (wf_orPass false true b (trL_wf env hT body false true (k + 1) b k2 hp hb)).1
  | .lamOp kind body, l, d, k, code, k', hp, ht => by
      simp only [placedS] at hp
      simp only [transpileS] at ht
      cases hb : transpileL env (k + 1) body with
      | error e => simp [hb] at ht
      | ok r =>
        obtain ⟨b, k2⟩ := r
        cases hta : transpileToken env ⟨.general, lamOpKey kind⟩ with
        | error e => simp [hb, hta] at ht
        | ok a =>
          simp [hb, hta] at ht; obtain ⟨h1, _⟩ := ht; subst h1
          rw [wfL_append, lambda_template_wf l d _ _ _ (by simp [wfE]) (wf_orPass false true b (trL_wf env hT body false true (k + 1) b k2 hp hb)).1,
            token_wf env hT _ a hta l d]
          rfl
  | .listS items, l, d, k, code, k', hp, ht => by
      simp only [placedS] at hp
      simp only [transpileS] at ht
      cases hll : transpileLL env k items with
      | error e => simp [hll] at ht
      | ok r =>
        obtain ⟨cs, k1⟩ := r
        simp [hll] at ht; obtain ⟨h1, _⟩ := ht; subst h1
        exact list_wf l d cs (trLL_wf env hT items false true k cs k1 hp hll)
  | .mon m a, l, d, k, code, k', hp, ht => by
      simp only [placedS] at hp
      simp only [transpileS] at ht
      cases hw : wrapLambda env k a with
      | error e => simp [hw] at ht
      | ok r =>
        obtain ⟨fa, k1⟩ := r
        cases hmt : modTemplate env m with
        | error e => simp [hw, hmt] at ht
        | ok tmpl =>
          simp [hw, hmt] at ht; obtain ⟨h1, _⟩ := ht; subst h1
          simp [wfL_append, wfL, wrap_wf env hT a l d k fa k1 hp hw, functionPop_wf, modTemplate_wf env hT m tmpl hmt l d]
  | .dy m a b, l, d, k, code, k', hp, ht => by
      simp only [placedS, Bool.and_eq_true] at hp
      simp only [transpileS] at ht
      cases hwa : wrapLambda env k a with
      | error e => simp [hwa] at ht
      | ok r =>
        obtain ⟨fa, k1⟩ := r
        cases hwb : wrapLambda env k1 b with
        | error e => simp [hwa, hwb] at ht
        | ok r2 =>
          obtain ⟨fb, k2⟩ := r2
          cases hmt : modTemplate env m with
          | error e => simp [hwa, hwb, hmt] at ht
          | ok tmpl =>
            simp [hwa, hwb, hmt] at ht; obtain ⟨h1, _⟩ := ht; subst h1
            simp [wfL_append, wfL, wrap_wf env hT a l d k fa k1 hp.1 hwa, wrap_wf env hT b l d k1 fb k2 hp.2 hwb, functionPop_wf,
              modTemplate_wf env hT m tmpl hmt l d]
  | .tri m a b c, l, d, k, code, k', hp, ht => by
      simp only [placedS, Bool.and_eq_true] at hp
      simp only [transpileS] at ht
      cases hwa : wrapLambda env k a with
      | error e => simp [hwa] at ht
      | ok r =>
        obtain ⟨fa, k1⟩ := r
        cases hwb : wrapLambda env k1 b with
        | error e => simp [hwa, hwb] at ht
        | ok r2 =>
          obtain ⟨fb, k2⟩ := r2
          cases hwc : wrapLambda env k2 c with
          | error e => simp [hwa, hwb, hwc] at ht
          | ok r3 =>
            obtain ⟨fc, k3⟩ := r3
            cases hmt : modTemplate env m with
            | error e => simp [hwa, hwb, hwc, hmt] at ht
            | ok tmpl =>
              simp [hwa, hwb, hwc, hmt] at ht; obtain ⟨h1, _⟩ := ht; subst h1
              simp [wfL_append, wfL, wrap_wf env hT a l d k fa k1 hp.1.1 hwa, wrap_wf env hT b l d k1 fb k2 hp.1.2 hwb,
                wrap_wf env hT c l d k2 fc k3 hp.2 hwc, functionPop_wf, modTemplate_wf env hT m tmpl hmt l d]
theorem wrap_wf (env : TEnv) (hT : TablesWF env) : ∀ (s : Structure) (l d : Bool) (k : Nat) (code : List PyStmt) (k' : Nat),
    placedS false true s = true → wrapLambda env k s = .ok (code, k') → wfL l d code = true
  | .generic t, l, d, k, code, k', _, hw => by
      simp only [wrapLambda] at hw
      cases ht : transpileToken env t with
      | error e => simp [ht] at hw
      | ok b =>
        simp [ht] at hw; obtain ⟨h1, _⟩ := hw; subst h1
        exact lambda_template_wf l d _ _ _ (wfE_pyInt _) (token_wf env hT t b ht false true)
  | .lam ar body, l, d, k, code, k', hp, hw => by
      simp only [wrapLambda] at hw
      exact trS_wf env hT (.lam ar body) l d k code k' (by simpa [placedS] using hp) hw
  | .brk p, l, d, k, code, k', hp, hw => by
      simp only [wrapLambda] at hw
      cases hb : transpileS env (k + 1) (.brk p) with
      | error e => simp [hb] at hw
      | ok r =>
        obtain ⟨b, k2⟩ := r; simp [hb] at hw; obtain ⟨h1, _⟩ := hw; subst h1
        exact lambda_template_wf l d _ _ _ (by simp [wfE]) (trS_wf env hT _ false true (k + 1) b k2 hp hb)
  | .recurse p, l, d, k, code, k', hp, hw => by
      simp only [wrapLambda] at hw
      cases hb : transpileS env (k + 1) (.recurse p) with
      | error e => simp [hb] at hw
      | ok r =>
        obtain ⟨b, k2⟩ := r; simp [hb] at hw; obtain ⟨h1, _⟩ := hw; subst h1
        exact lambda_template_wf l d _ _ _ (by simp [wfE]) (trS_wf env hT _ false true (k + 1) b k2 hp hb)
  | .ifS bs, l, d, k, code, k', hp, hw => by
      simp only [wrapLambda] at hw
      cases hb : transpileS env (k + 1) (.ifS bs) with
      | error e => simp [hb] at hw
      | ok r =>
        obtain ⟨b, k2⟩ := r; simp [hb] at hw; obtain ⟨h1, _⟩ := hw; subst h1
        exact lambda_template_wf l d _ _ _ (by simp [wfE]) (trS_wf env hT _ false true (k + 1) b k2 hp hb)
  | .forS ns body, l, d, k, code, k', hp, hw => by
      simp only [wrapLambda] at hw
      cases hb : transpileS env (k + 1) (.forS ns body) with
      | error e => simp [hb] at hw
      | ok r =>
        obtain ⟨b, k2⟩ := r; simp [hb] at hw; obtain ⟨h1, _⟩ := hw; subst h1
        exact lambda_template_wf l d _ _ _ (by simp [wfE]) (trS_wf env hT _ false true (k + 1) b k2 hp hb)
  | .whileS c body, l, d, k, code, k', hp, hw => by
      simp only [wrapLambda] at hw
      cases hb : transpileS env (k + 1) (.whileS c body) with
      | error e => simp [hb] at hw
      | ok r =>
        obtain ⟨b, k2⟩ := r; simp [hb] at hw; obtain ⟨h1, _⟩ := hw; subst h1
        exact lambda_template_wf l d _ _ _ (by simp [wfE]) (trS_wf env hT _ false true (k + 1) b k2 hp hb)
  | .fnCall nme, l, d, k, code, k', hp, hw => by
      simp only [wrapLambda] at hw
      cases hb : transpileS env (k + 1) (.fnCall nme) with
      | error e => simp [hb] at hw
      | ok r =>
        obtain ⟨b, k2⟩ := r; simp [hb] at hw; obtain ⟨h1, _⟩ := hw; subst h1
        exact lambda_template_wf l d _ _ _ (by simp [wfE]) (trS_wf env hT _ false true (k + 1) b k2 hp hb)
  | .fnDef nme ps body, l, d, k, code, k', hp, hw => by
      simp only [wrapLambda] at hw
      cases hb : transpileS env (k + 1) (.fnDef nme ps body) with
      | error e => simp [hb] at hw
      | ok r =>
        obtain ⟨b, k2⟩ := r; simp [hb] at hw; obtain ⟨h1, _⟩ := hw; subst h1
        exact lambda_template_wf l d _ _ _ (by simp [wfE]) (trS_wf env hT _ false true (k + 1) b k2 hp hb)
  | .lamOp kd body, l, d, k, code, k', hp, hw => by
      simp only [wrapLambda] at hw
      cases hb : transpileS env (k + 1) (.lamOp kd body) with
      | error e => simp [hb] at hw
      | ok r =>
        obtain ⟨b, k2⟩ := r; simp [hb] at hw; obtain ⟨h1, _⟩ := hw; subst h1
        exact lambda_template_wf l d _ _ _ (by simp [wfE]) (trS_wf env hT _ false true (k + 1) b k2 hp hb)
  | .listS items, l, d, k, code, k', hp, hw => by
      simp only [wrapLambda] at hw
      cases hb : transpileS env (k + 1) (.listS items) with
      | error e => simp [hb] at hw
      | ok r =>
        obtain ⟨b, k2⟩ := r; simp [hb] at hw; obtain ⟨h1, _⟩ := hw; subst h1
        exact lambda_template_wf l d _ _ _ (by simp [wfE]) (trS_wf env hT _ false true (k + 1) b k2 hp hb)
  | .mon m x, l, d, k, code, k', hp, hw => by
      simp only [wrapLambda] at hw
      cases hb : transpileS env (k + 1) (.mon m x) with
      | error e => simp [hb] at hw
      | ok r =>
        obtain ⟨b, k2⟩ := r; simp [hb] at hw; obtain ⟨h1, _⟩ := hw; subst h1
        exact lambda_template_wf l d _ _ _ (by simp [wfE]) (trS_wf env hT _ false true (k + 1) b k2 hp hb)
  | .dy m x y, l, d, k, code, k', hp, hw => by
      simp only [wrapLambda] at hw
      cases hb : transpileS env (k + 1) (.dy m x y) with
      | error e => simp [hb] at hw
      | ok r =>
        obtain ⟨b, k2⟩ := r; simp [hb] at hw; obtain ⟨h1, _⟩ := hw; subst h1
        exact lambda_template_wf l d _ _ _ (by simp [wfE]) (trS_wf env hT _ false true (k + 1) b k2 hp hb)
  | .tri m x y z, l, d, k, code, k', hp, hw => by
      simp only [wrapLambda] at hw
      cases hb : transpileS env (k + 1) (.tri m x y z) with
      | error e => simp [hb] at hw
      | ok r =>
        obtain ⟨b, k2⟩ := r; simp [hb] at hw; obtain ⟨h1, _⟩ := hw; subst h1
        exact lambda_template_wf l d _ _ _ (by simp [wfE]) (trS_wf env hT _ false true (k + 1) b k2 hp hb)
theorem trL_wf (env : TEnv) (hT : TablesWF env) : ∀ (prog : List Structure) (l d : Bool) (k : Nat) (code : List PyStmt) (k' : Nat),
    placedL l d prog = true → transpileL env k prog = .ok (code, k') → wfL l d code = true
  | [], l, d, k, code, k', _, ht => by
      simp [transpileL] at ht; obtain ⟨h1, _⟩ := ht; subst h1; simp [wfL]
  | s :: rest, l, d, k, code, k', hp, ht => by
      simp only [placedL, Bool.and_eq_true] at hp
      simp only [transpileL] at ht
      cases hs : transpileS env k s with
      | error e => simp [hs] at ht
      | ok r1 =>
        obtain ⟨a, k1⟩ := r1
        cases hr : transpileL env k1 rest with
        | error e => simp [hs, hr] at ht
        | ok r2 =>
          obtain ⟨b, k2⟩ := r2
          simp [hs, hr] at ht; obtain ⟨h1, _⟩ := ht; subst h1
          rw [wfL_append, trS_wf env hT s l d k a k1 hp.1 hs, trL_wf env hT rest l d k1 b k2 hp.2 hr]; rfl
theorem trLL_wf (env : TEnv) (hT : TablesWF env) : ∀ (bs : List (List Structure)) (l d : Bool) (k : Nat) (cs : List (List PyStmt)) (k' : Nat),
    placedLL l d bs = true → transpileLL env k bs = .ok (cs, k') → allWF l d cs = true
  | [], l, d, k, cs, k', _, ht => by
      simp [transpileLL] at ht; obtain ⟨h1, _⟩ := ht; subst h1; simp [allWF]
  | b :: rest, l, d, k, cs, k', hp, ht => by
      simp only [placedLL, Bool.and_eq_true] at hp
      simp only [transpileLL] at ht
      cases hl : transpileL env k b with
      | error e => simp [hl] at ht
      | ok r1 =>
        obtain ⟨a, k1⟩ := r1
        cases hr : transpileLL env k1 rest with
        | error e => simp [hl, hr] at ht
        | ok r2 =>
          obtain ⟨c, k2⟩ := r2
          simp [hl, hr] at ht; obtain ⟨h1, _⟩ := ht; subst h1
          have hw := wf_orPass l d a (trL_wf env hT b l d k a k1 hp.1 hl)
          simp only [allWF, Bool.and_eq_true]
          refine ⟨⟨hw.1, ?_⟩, trLL_wf env hT rest l d k1 c k2 hp.2 hr⟩
          cases ho : orPass a with
          | nil => exact absurd ho hw.2
          | cons _ _ => rfl
end

/-- **C02, tree level**: every program whose `X` / `x` stand where `parse` recorded them (`placedL false false`: the top level
    is neither in a loop nor in a function) transpiles — when it transpiles at all — to Python that is well formed in the
    sense `compile()` checks: `break` / `continue` inside a loop of the same function, `return` inside a function, no
    empty block, only nodes the emitted grammar has.  Every structure, modifier and token kind, any nesting. -/
theorem transpile_wf (env : TEnv) (hT : TablesWF env) (prog : List Structure) (hp : placedL false false prog = true)
    (code : List PyStmt) (ht : transpileAst env prog = .ok code) : wfL false false code = true ∧ code ≠ [] := by
  unfold transpileAst at ht
  cases htl : transpileL env 0 prog with
  | error e => simp [htl] at ht
  | ok r =>
    obtain ⟨c, k'⟩ := r
    simp [htl] at ht; subst ht
    exact wf_orPass false false c (trL_wf env hT prog false false 0 c k' hp htl)

/-- the regenerated tables satisfy the hypothesis -/
theorem gen_tables_wf (env : TEnv) (he : env.elements = Gen.elements) (hm : env.modifiers = Gen.modifiers) : TablesWF env := by
  unfold TablesWF; rw [he, hm]; exact templates_wf

end C02
