import VyxalModel.Model.Input
/-!
# C11 — input is a cyclic stream shared by explicit and implicit reads

`top_stream`: whatever mixture of explicit reads (`?`), implicit reads at any scope depth and scope
entries / exits happens, the k-th value delivered from the program's inputs is input number
(cursor + k) mod n — and 0 when there are no inputs.  In particular explicit reads inside a lambda or
function still take the program's inputs, and implicit reads at top level share the same cursor.
`inner_stream`: inside a scope, implicit reads cycle over that call's arguments (reversed, as the
templates push them) and never touch the program's cursor.
-/
namespace C11
open Inp

theorem read_vals (s : Sc) : s.read.2.vals = s.vals := by
  unfold Sc.read; split <;> rfl

/-- C11, first sentence: whatever mixture of explicit reads, implicit reads at any depth, and scope
    entries/exits happens, the k-th value taken from the program's inputs is input number
    (cursor + k) mod n — and 0 when there are no inputs. -/
theorem top_stream (ops : List Op) : ∀ (st : St),
    ∃ k, topReads ops st = (List.range k).map (fun i => cyc st.top.vals (st.top.cur + i)) := by
  induction ops with
  | nil => intro st; exact ⟨0, by simp [topReads]⟩
  | cons op ops ih =>
    intro st
    -- a top read delivers cyc vals cur and advances the cursor (or vals = [] and everything is 0)
    have key : ∀ (st' : St), st'.top = st.top.read.2 → st'.top.vals = st.top.vals ∧
        ∀ k, (List.range k).map (fun i => cyc st'.top.vals (st'.top.cur + i)) =
             (List.range k).map (fun i => cyc st.top.vals (st.top.cur + 1 + i)) := by
      intro st' h
      refine ⟨by rw [h, read_vals], fun k => ?_⟩
      apply List.map_congr_left
      intro i _
      rw [h]
      unfold Sc.read
      by_cases hv : st.top.vals = []
      · simp [hv, cyc]
      · simp only [hv, if_false]
    have topcase : ∀ (st' : St), st'.top = st.top.read.2 →
        ∃ k, st.top.read.1 :: topReads ops st' =
          (List.range k).map (fun i => cyc st.top.vals (st.top.cur + i)) := by
      intro st' h
      obtain ⟨k, hk⟩ := ih st'
      refine ⟨k + 1, ?_⟩
      rw [hk, (key st' h).2 k, List.range_succ_eq_map]
      simp only [List.map_cons, List.map_map, Nat.add_zero]
      congr 1
      · unfold Sc.read; by_cases hv : st.top.vals = [] <;> simp [hv, cyc]
      · apply List.map_congr_left; intro i _; simp [Function.comp, Nat.add_assoc, Nat.add_comm 1 i]
    cases op with
    | explicit => simpa [topReads, step] using topcase { st with top := st.top.read.2 } rfl
    | implicit =>
      cases hin : st.inner with
      | nil => simpa [topReads, step, hin] using topcase { st with top := st.top.read.2 } rfl
      | cons s rest =>
        obtain ⟨k, hk⟩ := ih { st with inner := s.read.2 :: rest }
        exact ⟨k, by simpa [topReads, step, hin] using hk⟩
    | enter args =>
      obtain ⟨k, hk⟩ := ih { st with inner := ⟨args.reverse, 0⟩ :: st.inner }
      exact ⟨k, by simpa [topReads, step] using hk⟩
    | leave =>
      obtain ⟨k, hk⟩ := ih { st with inner := st.inner.tail }
      exact ⟨k, by simpa [topReads, step] using hk⟩


/-- the k-th read at top level is input k mod n, in order; with no inputs every read yields 0 -/
theorem cyclic_stream (inputs : List Int) (ops : List Op) :
    ∃ k, topReads ops (St.init inputs) = (List.range k).map (fun i => cyc inputs i) := by
  obtain ⟨k, hk⟩ := top_stream ops (St.init inputs)
  exact ⟨k, by simpa [St.init] using hk⟩

theorem no_inputs_all_zero (ops : List Op) : ∀ v ∈ topReads ops (St.init []), v = 0 := by
  obtain ⟨k, hk⟩ := cyclic_stream [] ops
  intro v hv
  rw [hk] at hv
  obtain ⟨i, _, rfl⟩ := List.mem_map.mp hv
  simp [cyc]

def NoScopeChange : List Op → Prop
  | [] => True
  | .enter _ :: _ => False
  | .leave :: _ => False
  | _ :: ops => NoScopeChange ops

/-- inside a scope (until it is left or another is entered) implicit reads cycle over that call's arguments,
    explicit reads go to the program's inputs and do not disturb the scope's cursor -/
theorem inner_stream (ops : List Op) (hn : NoScopeChange ops) : ∀ (st : St) (s : Sc) (rest : List Sc),
    st.inner = s :: rest →
    ∃ k, innerReads ops st = (List.range k).map (fun i => cyc s.vals (s.cur + i)) := by
  induction ops with
  | nil => intro st s rest _; exact ⟨0, by simp [innerReads]⟩
  | cons op ops ih =>
    intro st s rest hin
    cases op with
    | enter a => simp [NoScopeChange] at hn
    | leave => simp [NoScopeChange] at hn
    | explicit =>
      have hn' : NoScopeChange ops := by simpa [NoScopeChange] using hn
      obtain ⟨k, hk⟩ := ih hn' { st with top := st.top.read.2 } s rest hin
      exact ⟨k, by simpa [innerReads, step] using hk⟩
    | implicit =>
      have hn' : NoScopeChange ops := by simpa [NoScopeChange] using hn
      obtain ⟨k, hk⟩ := ih hn' { st with inner := s.read.2 :: rest } s.read.2 rest rfl
      refine ⟨k + 1, ?_⟩
      simp only [innerReads, step, hin]
      rw [hk, List.range_succ_eq_map]
      simp only [List.map_cons, List.map_map, Nat.add_zero]
      unfold Sc.read
      by_cases hv : s.vals = []
      · simp [hv, cyc]
      · simp only [hv, if_false]
        congr 1
        apply List.map_congr_left; intro i _
        simp [Function.comp, Nat.add_assoc, Nat.add_comm 1 i]

/-! ## what "cyclic" means: the first round is the input list, period n, nothing but inputs -/
/-- "input number k modulo the number of inputs": inside the first round the stream is the input list itself … -/
theorem cyc_lt (vals : List Int) (i : Nat) (hi : i < vals.length) : cyc vals i = vals[i] := by
  have hne : vals ≠ [] := by intro h; simp [h] at hi
  simp [cyc, hne, Nat.mod_eq_of_lt hi, hi]

/-- … and it repeats with period `n`: read `k + n` delivers what read `k` delivered -/
theorem cyc_periodic (vals : List Int) (i : Nat) : cyc vals (i + vals.length) = cyc vals i := by
  simp [cyc]

theorem cyc_mod (vals : List Int) (i : Nat) : cyc vals i = cyc vals (i % vals.length) := by
  by_cases h : vals = []
  · simp [cyc, h]
  · simp [cyc, h, Nat.mod_mod]

/-- every value delivered is one of the inputs (or the 0 default when there are none) -/
theorem cyc_mem (vals : List Int) (i : Nat) (h : vals ≠ []) : cyc vals i ∈ vals := by
  have hl : 0 < vals.length := List.length_pos_iff.mpr h
  have hm : i % vals.length < vals.length := Nat.mod_lt _ hl
  simp [cyc, h, hm]

/-- non-vacuity: `? (enter [5,6]) implicit ? implicit leave implicit` on inputs `[7,8]` -/
example : run [.explicit, .enter [5, 6], .implicit, .explicit, .implicit, .leave, .implicit] (St.init [7, 8])
    = [some (true, 7), none, some (false, 6), some (true, 8), some (false, 5), none, some (true, 7)] := by decide

end C11
