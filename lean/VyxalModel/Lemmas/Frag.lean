import VyxalModel.Lemmas.CoreTemplates
/-!
# The fragment of programs the compiler-correctness theorem covers (decidable, syntactic)

`elemOK` / `coreEntryOK`: what the table entry of an element must look like (the `process_element` boilerplate of a
first-order function; one of the 21 hand-written templates exactly as expected).  `fragS / fragL / fragLL`: the
structures.
-/
namespace Vy.Sem
open Vy PyAst

/-- Python names that the templates bind besides `stack` and the `VAR_…` / `_lambda_…` families -/
def junkNames : List String :=
  ["condition", "lhs", "rhs", "third", "top", "temp", "_", "arguments", "arguments_A", "arguments_B", "stack_copy",
   "function_A", "function_B", "function_C", "res", "res_A", "res_B", "ret", "this", "parameters", "temp_list", "f",
   "list_item", "arg_stack", "self", "arity", "s", "_lambda_", "VAR_"]

def popStackE (k : Int) : PyExpr := .call (.name "pop") [.name "stack", .cint k, .name "ctx"] []
def appendCall (f : String) (args : List PyExpr) : PyStmt :=
  .expr (.call (.attr (.name "stack") "append") [.call (.name f) args [("ctx", .name "ctx")]] [])


def boilerplate : Nat → String → List PyStmt
  | 0, f => [.assign [.name "_"] (popStackE 0), appendCall f []]
  | 1, f => [.assign [.name "lhs"] (popStackE 1), appendCall f [.name "lhs"]]
  | 2, f => [.assign [.tuple [.name "rhs", .name "lhs"]] (popStackE 2), appendCall f [.name "lhs", .name "rhs"]]
  | _, f => [.assign [.tuple [.name "third", .name "rhs", .name "lhs"]] (popStackE 3), appendCall f [.name "lhs", .name "rhs", .name "third"]]


def isBoilerplate : List PyStmt → Option (Nat × String)
  | [.assign [.name "_"] (.call (.name "pop") [.name "stack", .cint 0, .name "ctx"] []),
     .expr (.call (.attr (.name "stack") "append") [.call (.name f) [] [("ctx", .name "ctx")]] [])] => some (0, f)
  | [.assign [.name "lhs"] (.call (.name "pop") [.name "stack", .cint 1, .name "ctx"] []),
     .expr (.call (.attr (.name "stack") "append") [.call (.name f) [.name "lhs"] [("ctx", .name "ctx")]] [])] => some (1, f)
  | [.assign [.tuple [.name "rhs", .name "lhs"]] (.call (.name "pop") [.name "stack", .cint 2, .name "ctx"] []),
     .expr (.call (.attr (.name "stack") "append") [.call (.name f) [.name "lhs", .name "rhs"] [("ctx", .name "ctx")]] [])] => some (2, f)
  | [.assign [.tuple [.name "third", .name "rhs", .name "lhs"]] (.call (.name "pop") [.name "stack", .cint 3, .name "ctx"] []),
     .expr (.call (.attr (.name "stack") "append") [.call (.name f) [.name "lhs", .name "rhs", .name "third"] [("ctx", .name "ctx")]] [])] => some (3, f)
  | _ => none

theorem isBoilerplate_sound (b : List PyStmt) (k : Nat) (f : String) (h : isBoilerplate b = some (k, f)) :
    b = boilerplate k f := by
  unfold isBoilerplate at h
  split at h <;> simp at h <;> obtain ⟨h1, h2⟩ := h <;> subst h1 <;> subst h2 <;> rfl

/-- what a table entry must look like for the parametric element lemma -/
def elemOK (e : Gen.Entry) : Bool :=
  e.kind == "fn" && decide (0 ≤ e.arity) && decide (e.arity ≤ 3) &&
  (match e.body with
   | some b => isBoilerplate b == some (e.arity.toNat, e.helper)
   | Option.none => false) &&
  (specialOf e.helper).isNone && !junkNames.contains e.helper && e.helper != "stack"

/-- a hand-written template of the closed core, as expected -/
def coreEntryOK (key : Str) (e : Gen.Entry) : Bool :=
  e.kind != "fn" && (match key, e.body with
    | [c], some b => isCoreTmpl c b
    | _, _ => false)

/-- the map / filter / sort elements: `process_element` boilerplate of the three higher-order helpers -/
def hoElemOK (e : Gen.Entry) : Bool :=
  e.kind == "fn" && e.arity == 2 &&
  (match e.body with
   | some b => isBoilerplate b == some (2, e.helper)
   | Option.none => false) &&
  (e.helper == "vy_map" || e.helper == "vy_filter" || e.helper == "sort_by")

/-- the call element `†` with the expected template -/
def callEntryOK (key : Str) (e : Gen.Entry) : Bool :=
  e.kind != "fn" && key == [8224] && (match e.body with
    | some b => isTmpl8224 b
    | Option.none => false)

def fragTok (tbl : List Gen.Entry) (t : Token) : Bool :=
  match t.kind with
  | .number => true
  | .vget => true
  | .vset => true
  | .general => (match lookupElem tbl t.value with
      | Option.none => true
      | some e => elemOK e || coreEntryOK t.value e || hoElemOK e || callEntryOK t.value e)
  | _ => false

mutual
/-- the fragment: literals, first-order elements, the core templates, variables, `if`, `for`, `while`, break /
    continue, lambdas (plain, map, filter, sort) with the call element, list literals, named functions -/
def fragS (tbl : List Gen.Entry) : Structure → Bool
  | .generic t => fragTok tbl t
  | .brk _ => true
  | .recurse _ => true
  | .ifS bs => fragLL tbl bs
  | .forS _ body => fragL tbl body
  | .whileS Option.none body => fragL tbl body
  | .whileS (some c) body => fragL tbl c && fragL tbl body
  | .lam _ body => fragL tbl body
  | .lamOp k body => fragL tbl body && fragTok tbl ⟨.general, lamOpKey k⟩
  | .listS items => fragLL tbl items
  | .fnCall _ => true
  | .fnDef _ _ body => fragL tbl body
  | .mon _ a => fragS tbl a
  | .dy _ a b => fragS tbl a && fragS tbl b
  | .tri _ _ _ _ => true     -- (no triadic modifier exists: the reference semantics gives such a structure no meaning)
def fragL (tbl : List Gen.Entry) : List Structure → Bool
  | [] => true
  | s :: r => fragS tbl s && fragL tbl r
def fragLL (tbl : List Gen.Entry) : List (List Structure) → Bool
  | [] => true
  | l :: r => fragL tbl l && fragLL tbl r
end

end Vy.Sem
