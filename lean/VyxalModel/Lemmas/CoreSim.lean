import VyxalModel.Lemmas.Sim
/-! # The hand-written templates of the closed core simulate their documented meaning (`RefSem.execCore`) -/
namespace Vy.Sem
open Vy PyAst

variable {env : TEnv} {A : Option Val}


theorem pyTruth_eq_truthy (v : Val) : pyTruth v = truthy v := by
  cases v <;> rfl

/-- `j = pop(stack, k, ctx)` for a template-local name `j` -/
theorem exec_assign_pop {σ : RSt} {π : PSt} (cfg : Cfg) (n : Nat) (h : Rel env A σ π) (j : String) (hj : j ∈ junkNames) (i : Int) (k : Nat)
    (hik : i = (k : Int)) (hna : j ≠ "arg_stack" := by decide) :
    execPS cfg n (.assign [.name j] (.call (.name "pop") [.name "stack", .cint i, .name "ctx"] [])) π =
      .ok (.normal, (popPi σ π k).setVar (j, []) (popVal k (σ.popK k).1)) ∧
    Rel env A (σ.popK k).2 ((popPi σ π k).setVar (j, []) (popVal k (σ.popK k).1)) :=
  ⟨exec_assign_name cfg n j _ _ π _ (eval_pop cfg n h i k hik [.name "ctx"] []), (rel_popPi h k).setJunk j _ hj hna⟩

/-- `stack.append(j)` -/
theorem exec_push_var {σ : RSt} {π : PSt} (cfg : Cfg) (n : Nat) (h : Rel env A σ π) (j : String) (v : Val) (hv : π.getVar (j, []) = some v) :
    execPS cfg n (.expr (.call (.attr (.name "stack") "append") [.name j] [])) π =
      .ok (.normal, π.setVar ("stack", []) (.list ((v :: σ.stack).reverse))) ∧
    Rel env A (σ.push v) (π.setVar ("stack", []) (.list ((v :: σ.stack).reverse))) := by
  have := exec_push cfg n (.name j) v (evalE_name cfg n j π v hv) h
  simpa [push, stackE] using this

theorem getVar_stack_ne (π : PSt) (j : String) (hj : j ∈ junkNames) (v : Val) (k : PKey) (hk : k ≠ ("stack", [])) (hk2 : k ≠ (j, [])) :
    ((π.setVar ("stack", []) v).getVar k) = π.getVar k := getVar_setVar_ne _ _ _ _ hk

theorem popK_zero (σ : RSt) : σ.popK 0 = ([], σ) := by
  simp [RSt.popK, popN]

/-- `_ = pop(stack, 0, ctx)` changes nothing the relation sees -/
theorem exec_pop0 {σ : RSt} {π : PSt} (cfg : Cfg) (n : Nat) (h : Rel env A σ π) :
    ∃ π1, execPS cfg n (.assign [.name "_"] (.call (.name "pop") [.name "stack", .cint 0, .name "ctx"] [])) π = .ok (.normal, π1) ∧
      Rel env A σ π1 := by
  obtain ⟨he, hR⟩ := exec_assign_pop cfg n h "_" (by decide) 0 0 rfl
  rw [popK_zero] at hR
  exact ⟨_, he, hR⟩

/-- `stack.append(e)` for an expression that does not touch the state -/
theorem exec_push_pure {σ : RSt} {π : PSt} (cfg : Cfg) (n : Nat) (h : Rel env A σ π) (e : PyExpr) (v : Val) (he : evalE cfg n e π = .ok (v, π)) :
    ∃ π', execPS cfg n (.expr (.call (.attr (.name "stack") "append") [e] [])) π = .ok (.normal, π') ∧ Rel env A (σ.push v) π' := by
  obtain ⟨h1, h2⟩ := exec_push cfg n e v he h
  exact ⟨_, by simpa [push, stackE] using h1, h2⟩

/-- the `pop 0; push e` templates (`!`, `n`, `¥`, `u`, `₀`, `₁`) -/
theorem sim_pop0_push {σ : RSt} {π : PSt} (cfg : Cfg) (n : Nat) (h : Rel env A σ π) (e : PyExpr) (v : Val)
    (he : ∀ π1, Rel env A σ π1 → evalE cfg n e π1 = .ok (v, π1)) :
    ∃ π', execPL cfg n [.assign [.name "_"] (.call (.name "pop") [.name "stack", .cint 0, .name "ctx"] []),
        .expr (.call (.attr (.name "stack") "append") [e] [])] π = .ok (.normal, π') ∧ Rel env A (σ.push v) π' := by
  obtain ⟨π1, h1, hR1⟩ := exec_pop0 cfg n h
  obtain ⟨π2, h2, hR2⟩ := exec_push_pure cfg n hR1 e v (he π1 hR1)
  exact ⟨π2, by simp [execPL_cons, h1, h2, execPL], hR2⟩


theorem sim_core_n {σ σ' : RSt} {π : PSt} (cfg : Cfg) (n : Nat) (h : Rel env A σ π) (sg : Sig)
    (hr : execCore cfg n 110 σ = .ok (sg, σ')) : ∃ π', execPL cfg n tmpl110 π = .ok (sigP sg, π') ∧ Post env A sg σ' π' := by
  unfold execCore at hr
  simp only [Nat.reduceEqDiff, ↓reduceIte] at hr
  match hc : σ.ctxVals with
  | [] => simp [hc] at hr
  | x :: r =>
    simp [hc] at hr; obtain ⟨h1, h2⟩ := hr; subst h1; subst h2
    have := sim_pop0_push cfg n h (.subscript (.attr (.name "ctx") "context_values") (.unary "USub" (.cint 1))) x (by
      intro π1 hR1
      have hl : (1 : Int) ≤ (r.length : Int) + 1 := by omega
      simp [evalE, isCtxName, subscriptV, hR1.ctxVals, hc, hl])
    simpa [tmpl110, sigP, Post] using this

theorem sim_core_reg {σ σ' : RSt} {π : PSt} (cfg : Cfg) (n : Nat) (h : Rel env A σ π) (sg : Sig)
    (hr : execCore cfg n 165 σ = .ok (sg, σ')) : ∃ π', execPL cfg n tmpl165 π = .ok (sigP sg, π') ∧ Post env A sg σ' π' := by
  unfold execCore at hr
  simp only [Nat.reduceEqDiff, ↓reduceIte] at hr
  simp at hr; obtain ⟨h1, h2⟩ := hr; subst h1; subst h2
  have := sim_pop0_push cfg n h (.attr (.name "ctx") "register") σ.register (by
    intro π1 hR1; simp [evalE, isCtxName, hR1.register])
  simpa [tmpl165, sigP, Post] using this

theorem sim_core_len {σ σ' : RSt} {π : PSt} (cfg : Cfg) (n : Nat) (h : Rel env A σ π) (sg : Sig)
    (hr : execCore cfg n 33 σ = .ok (sg, σ')) : ∃ π', execPL cfg n tmpl33 π = .ok (sigP sg, π') ∧ Post env A sg σ' π' := by
  unfold execCore at hr
  simp only [Nat.reduceEqDiff, ↓reduceIte] at hr
  simp at hr; obtain ⟨h1, h2⟩ := hr; subst h1; subst h2
  have := sim_pop0_push cfg n h (.call (.name "len") [.name "stack"] []) (.int σ.stack.length) (by
    intro π1 hR1; simp [evalE, evalSpecial, hR1.getStack, asList])
  simpa [tmpl33, sigP, Post] using this

theorem sim_core_consts {σ σ' : RSt} {π : PSt} (cfg : Cfg) (n : Nat) (h : Rel env A σ π) (sg : Sig) :
    (execCore cfg n 117 σ = .ok (sg, σ') → ∃ π', execPL cfg n tmpl117 π = .ok (sigP sg, π') ∧ Post env A sg σ' π') ∧
    (execCore cfg n 8320 σ = .ok (sg, σ') → ∃ π', execPL cfg n tmpl8320 π = .ok (sigP sg, π') ∧ Post env A sg σ' π') ∧
    (execCore cfg n 8321 σ = .ok (sg, σ') → ∃ π', execPL cfg n tmpl8321 π = .ok (sigP sg, π') ∧ Post env A sg σ' π') := by
  refine ⟨?_, ?_, ?_⟩ <;> intro hr <;> unfold execCore at hr <;> simp only [Nat.reduceEqDiff, ↓reduceIte] at hr <;>
    simp at hr <;> obtain ⟨h1, h2⟩ := hr <;> subst h1 <;> subst h2
  · have := sim_pop0_push cfg n h (.unary "USub" (.cint 1)) (.int (-1)) (by intro π1 _; simp [evalE])
    simpa [tmpl117, sigP, Post] using this
  · have := sim_pop0_push cfg n h (.cint 10) (.int 10) (by intro π1 _; simp [evalE])
    simpa [tmpl8320, sigP, Post] using this
  · have := sim_pop0_push cfg n h (.cint 100) (.int 100) (by intro π1 _; simp [evalE])
    simpa [tmpl8321, sigP, Post] using this


theorem pop1_eq (σ : RSt) : popVal 1 (σ.popK 1).1 = σ.pop1.1 ∧ (σ.popK 1).2 = σ.pop1.2 := by
  have := popK_one σ
  exact ⟨by rw [this.1]; rfl, this.2⟩

/-- `top = pop(stack, 1, ctx)` (or any template-local name) -/
theorem exec_assign_pop1 {σ : RSt} {π : PSt} (cfg : Cfg) (n : Nat) (h : Rel env A σ π) (j : String) (hj : j ∈ junkNames)
    (hna : j ≠ "arg_stack" := by decide) :
    ∃ π1, execPS cfg n (.assign [.name j] (.call (.name "pop") [.name "stack", .cint 1, .name "ctx"] [])) π = .ok (.normal, π1) ∧
      Rel env A σ.pop1.2 π1 ∧ π1.getVar (j, []) = some σ.pop1.1 := by
  obtain ⟨he, hR⟩ := exec_assign_pop cfg n h j hj 1 1 rfl hna
  rw [(pop1_eq σ).1, (pop1_eq σ).2] at hR
  rw [(pop1_eq σ).1] at he
  exact ⟨_, he, hR, getVar_setVar_eq _ _ _⟩

theorem getVar_after_push (π : PSt) (j : String) (v w : Val) (hne : j ≠ "stack") (hv : π.getVar (j, []) = some v) :
    (π.setVar ("stack", []) w).getVar (j, []) = some v := by
  rw [getVar_setVar_ne]; exact hv
  intro he; injection he with h1 _; exact hne h1

theorem sim_core_dup {σ σ' : RSt} {π : PSt} (cfg : Cfg) (n : Nat) (h : Rel env A σ π) (sg : Sig)
    (hr : execCore cfg n 58 σ = .ok (sg, σ')) : ∃ π', execPL cfg n tmpl58 π = .ok (sigP sg, π') ∧ Post env A sg σ' π' := by
  unfold execCore at hr
  simp only [↓reduceIte] at hr
  simp at hr; obtain ⟨h1, h2⟩ := hr; subst h1; subst h2
  obtain ⟨π1, he1, hR1, hv1⟩ := exec_assign_pop1 cfg n h "top" (by decide)
  have hdc : evalE cfg n (.call (.name "deep_copy") [.name "top"] []) π1 = .ok (σ.pop1.1, π1) := by
    simp [evalE, evalSpecial, hv1]
  obtain ⟨π2, he2, hR2⟩ := exec_push_pure cfg n hR1 _ _ hdc
  -- π2 is π1 with `stack` rebound: `top` is still there
  obtain ⟨he2', hR2'⟩ := exec_push cfg n _ _ hdc hR1
  have hv2 := getVar_after_push π1 "top" σ.pop1.1 (.list ((σ.pop1.1 :: σ.pop1.2.stack).reverse)) (by decide) hv1
  obtain ⟨he3, hR3⟩ := exec_push_var cfg n hR2' "top" σ.pop1.1 hv2
  refine ⟨_, ?_, hR3⟩
  simp only [tmpl58, execPL_cons, he1]
  simp only [push, stackE] at he2'
  simp only [he2', he3, execPL, sigP]


/-- `lhs = pop(stack, 1, ctx); stack.append(e)` with `e` a pure expression of `lhs` -/
theorem sim_pop1_push {σ : RSt} {π : PSt} (cfg : Cfg) (n : Nat) (h : Rel env A σ π) (j : String) (hj : j ∈ junkNames) (e : PyExpr) (v : Val)
    (he : ∀ π1, Rel env A σ.pop1.2 π1 → π1.getVar (j, []) = some σ.pop1.1 → evalE cfg n e π1 = .ok (v, π1))
    (hna : j ≠ "arg_stack" := by decide) :
    ∃ π', execPL cfg n [.assign [.name j] (.call (.name "pop") [.name "stack", .cint 1, .name "ctx"] []),
        .expr (.call (.attr (.name "stack") "append") [e] [])] π = .ok (.normal, π') ∧ Rel env A (σ.pop1.2.push v) π' := by
  obtain ⟨π1, he1, hR1, hv1⟩ := exec_assign_pop1 cfg n h j hj hna
  obtain ⟨π2, he2, hR2⟩ := exec_push_pure cfg n hR1 e v (he π1 hR1 hv1)
  exact ⟨π2, by simp [execPL_cons, he1, he2, execPL], hR2⟩

theorem sim_core_wrap {σ σ' : RSt} {π : PSt} (cfg : Cfg) (n : Nat) (h : Rel env A σ π) (sg : Sig)
    (hr : execCore cfg n 119 σ = .ok (sg, σ')) : ∃ π', execPL cfg n tmpl119 π = .ok (sigP sg, π') ∧ Post env A sg σ' π' := by
  unfold execCore at hr
  simp only [Nat.reduceEqDiff, ↓reduceIte] at hr
  simp at hr; obtain ⟨h1, h2⟩ := hr; subst h1; subst h2
  have := sim_pop1_push cfg n h "lhs" (by decide) (.list [.name "lhs"]) (.list [σ.pop1.1]) (by
    intro π1 _ hv; simp [evalE, evalArgs, isCtxName, hv])
  simpa [tmpl119, sigP, Post] using this

theorem sim_core_not {σ σ' : RSt} {π : PSt} (cfg : Cfg) (n : Nat) (h : Rel env A σ π) (sg : Sig)
    (hr : execCore cfg n 172 σ = .ok (sg, σ')) : ∃ π', execPL cfg n tmpl172 π = .ok (sigP sg, π') ∧ Post env A sg σ' π' := by
  unfold execCore at hr
  simp only [Nat.reduceEqDiff, ↓reduceIte] at hr
  simp at hr; obtain ⟨h1, h2⟩ := hr; subst h1; subst h2
  have := sim_pop1_push cfg n h "lhs" (by decide)
    (.call (.attr (.name "sympy") "nsimplify") [.call (.name "int") [.unary "Not" (.name "lhs")] []] [])
    (.int (b2i (!truthy σ.pop1.1))) (by
      intro π1 _ hv; simp [evalE, evalSpecial, specialOf, hv, pyTruth_eq_truthy])
  simpa [tmpl172, sigP, Post] using this

theorem sim_core_double {σ σ' : RSt} {π : PSt} (cfg : Cfg) (n : Nat) (h : Rel env A σ π) (sg : Sig)
    (hr : execCore cfg n 100 σ = .ok (sg, σ')) : ∃ π', execPL cfg n tmpl100 π = .ok (sigP sg, π') ∧ Post env A sg σ' π' := by
  unfold execCore at hr
  simp only [Nat.reduceEqDiff, ↓reduceIte] at hr
  by_cases hfn : isFnVal σ.pop1.1 = true
  · simp [hfn] at hr
  · simp only [hfn, Bool.false_eq_true, ↓reduceIte] at hr
    cases hm : elemFn "multiply" [σ.pop1.1, .int 2] with
    | error e => simp [hm] at hr
    | ok r =>
      simp [hm] at hr; obtain ⟨h1, h2⟩ := hr; subst h1; subst h2
      have := sim_pop1_push cfg n h "lhs" (by decide)
        (.call (.name "multiply") [.name "lhs", .cint 2, .name "ctx"] []) r (by
          intro π1 hR1 hv
          have hargs : evalArgs cfg n [.name "lhs", .cint 2, .name "ctx"] π1 = .ok ([σ.pop1.1, .int 2], π1) := by
            simp [evalArgs, isCtxName, evalE, hv]
          have hsp : specialOf "multiply" = Option.none := by decide
          have := eval_elemCall cfg n hR1 "multiply" [.name "lhs", .cint 2, .name "ctx"] _ r hsp (by decide) (by decide) hargs
            (by intro x hx; simp at hx; rcases hx with hx | hx
                · subst hx; simpa using hfn
                · subst hx; rfl) hm []
          exact this)
      simpa [tmpl100, sigP, Post] using this


theorem sim_core_pop {σ σ' : RSt} {π : PSt} (cfg : Cfg) (n : Nat) (h : Rel env A σ π) (sg : Sig)
    (hr : execCore cfg n 95 σ = .ok (sg, σ')) : ∃ π', execPL cfg n tmpl95 π = .ok (sigP sg, π') ∧ Post env A sg σ' π' := by
  unfold execCore at hr
  simp only [Nat.reduceEqDiff, ↓reduceIte] at hr
  simp at hr; obtain ⟨h1, h2⟩ := hr; subst h1; subst h2
  have he := eval_pop cfg n h 1 1 rfl [.name "ctx"] []
  refine ⟨popPi σ π 1, ?_, rel_pop1 h⟩
  simp [tmpl95, execPL_cons, execPS, he, execPL, sigP]

theorem sim_core_setreg {σ σ' : RSt} {π : PSt} (cfg : Cfg) (n : Nat) (h : Rel env A σ π) (sg : Sig)
    (hr : execCore cfg n 163 σ = .ok (sg, σ')) : ∃ π', execPL cfg n tmpl163 π = .ok (sigP sg, π') ∧ Post env A sg σ' π' := by
  unfold execCore at hr
  simp only [Nat.reduceEqDiff, ↓reduceIte] at hr
  simp at hr; obtain ⟨h1, h2⟩ := hr; subst h1; subst h2
  have he := eval_pop cfg n h 1 1 rfl [.name "ctx"] []
  rw [(pop1_eq σ).1] at he
  refine ⟨{ popPi σ π 1 with register := σ.pop1.1 }, ?_, (rel_pop1 h).setRegister _⟩
  simp [tmpl163, execPL_cons, execPS, he, assignTo, execPL, sigP]

/-- `vy_print(top, [end=…,] ctx=ctx)` -/
theorem eval_print {σ : RSt} {π : PSt} (cfg : Cfg) (n : Nat) (h : Rel env A σ π) (j : String) (v : Val) (hv : π.getVar (j, []) = some v)
    (kw : List (String × PyExpr)) (end_ s : String) (hend : endOf kw = .ok end_) (hp : printText v = .ok s) :
    execPS cfg n (.expr (.call (.name "vy_print") [.name j] kw)) π = .ok (.normal, π.print (s ++ end_)) ∧
    Rel env A (σ.print (s ++ end_)) (π.print (s ++ end_)) := by
  refine ⟨?_, h.print _⟩
  simp [execPS, evalE, evalSpecial, hv, hend, printPy, hp]

theorem getVar_print (π : PSt) (k : PKey) (s : String) : (π.print s).getVar k = π.getVar k := rfl

theorem sim_core_print {σ σ' : RSt} {π : PSt} (cfg : Cfg) (n : Nat) (h : Rel env A σ π) (sg : Sig)
    (hr : execCore cfg n 44 σ = .ok (sg, σ')) : ∃ π', execPL cfg n tmpl44 π = .ok (sigP sg, π') ∧ Post env A sg σ' π' := by
  unfold execCore at hr
  simp only [Nat.reduceEqDiff, ↓reduceIte] at hr
  cases hp : printText σ.pop1.1 with
  | error e => simp [hp] at hr
  | ok s =>
    simp [hp] at hr; obtain ⟨h1, h2⟩ := hr; subst h1; subst h2
    obtain ⟨π1, he1, hR1, hv1⟩ := exec_assign_pop1 cfg n h "top" (by decide)
    obtain ⟨he2, hR2⟩ := eval_print cfg n hR1 "top" _ hv1 [("ctx", .name "ctx")] "\n" s (by simp [endOf, kwGet]) hp
    exact ⟨_, by simp [tmpl44, execPL_cons, he1, he2, execPL, sigP], hR2⟩

theorem sim_core_print_noline {σ σ' : RSt} {π : PSt} (cfg : Cfg) (n : Nat) (h : Rel env A σ π) (sg : Sig)
    (hr : execCore cfg n 8372 σ = .ok (sg, σ')) : ∃ π', execPL cfg n tmpl8372 π = .ok (sigP sg, π') ∧ Post env A sg σ' π' := by
  unfold execCore at hr
  simp only [Nat.reduceEqDiff, ↓reduceIte] at hr
  cases hp : printText σ.pop1.1 with
  | error e => simp [hp] at hr
  | ok s =>
    simp [hp] at hr; obtain ⟨h1, h2⟩ := hr; subst h1; subst h2
    obtain ⟨π1, he1, hR1, hv1⟩ := exec_assign_pop1 cfg n h "top" (by decide)
    obtain ⟨he2, hR2⟩ := eval_print cfg n hR1 "top" _ hv1 [("end", .cstr ""), ("ctx", .name "ctx")] "" s (by simp [endOf, kwGet]) hp
    rw [String.append_empty] at he2 hR2
    exact ⟨_, by simp [tmpl8372, execPL_cons, he1, he2, execPL, sigP], hR2⟩

theorem sim_core_print_keep {σ σ' : RSt} {π : PSt} (cfg : Cfg) (n : Nat) (h : Rel env A σ π) (sg : Sig)
    (hr : execCore cfg n 8230 σ = .ok (sg, σ')) : ∃ π', execPL cfg n tmpl8230 π = .ok (sigP sg, π') ∧ Post env A sg σ' π' := by
  unfold execCore at hr
  simp only [Nat.reduceEqDiff, ↓reduceIte] at hr
  cases hp : printText σ.pop1.1 with
  | error e => simp [hp] at hr
  | ok s =>
    simp [hp] at hr; obtain ⟨h1, h2⟩ := hr; subst h1; subst h2
    obtain ⟨π1, he1, hR1, hv1⟩ := exec_assign_pop1 cfg n h "top" (by decide)
    obtain ⟨he2, hR2⟩ := eval_print cfg n hR1 "top" _ hv1 [("end", .cstr "\n"), ("ctx", .name "ctx")] "\n" s (by simp [endOf, kwGet]) hp
    obtain ⟨he3, hR3⟩ := exec_push_var cfg n hR2 "top" σ.pop1.1 (by rw [getVar_print]; exact hv1)
    exact ⟨_, by simp [tmpl8230, execPL_cons, he1, he2, he3, execPL, sigP], hR3⟩


theorem popK_two (σ : RSt) : ∃ a b, (σ.popK 2).1 = [a, b] := by
  have hl := popK_len σ 2
  match hq : (σ.popK 2).1, hl with
  | [a, b], _ => exact ⟨a, b, rfl⟩

/-- `rhs, lhs = pop(stack, 2, ctx)` -/
theorem exec_assign_pop2 {σ : RSt} {π : PSt} (cfg : Cfg) (n : Nat) (h : Rel env A σ π) (a b : Val) (hp : (σ.popK 2).1 = [a, b]) :
    ∃ π1, execPS cfg n (.assign [.tuple [.name "rhs", .name "lhs"]] (.call (.name "pop") [.name "stack", .cint 2, .name "ctx"] [])) π =
        .ok (.normal, π1) ∧ Rel env A (σ.popK 2).2 π1 ∧ π1.getVar ("rhs", []) = some a ∧ π1.getVar ("lhs", []) = some b := by
  have hpop := eval_pop cfg n h 2 2 rfl [.name "ctx"] []
  rw [hp, show popVal 2 [a, b] = .list [a, b] from rfl] at hpop
  refine ⟨_, exec_assign_tuple2 cfg n "rhs" "lhs" _ a b π _ hpop,
    ((rel_popPi h 2).setJunk "rhs" a (by decide)).setJunk "lhs" b (by decide), ?_, getVar_setVar_eq _ _ _⟩
  rw [getVar_setVar_ne _ _ _ _ (by decide)]; exact getVar_setVar_eq _ _ _

theorem sim_core_swap {σ σ' : RSt} {π : PSt} (cfg : Cfg) (n : Nat) (h : Rel env A σ π) (sg : Sig)
    (hr : execCore cfg n 36 σ = .ok (sg, σ')) : ∃ π', execPL cfg n tmpl36 π = .ok (sigP sg, π') ∧ Post env A sg σ' π' := by
  unfold execCore at hr
  simp only [Nat.reduceEqDiff, ↓reduceIte] at hr
  obtain ⟨a, b, hp⟩ := popK_two σ
  simp only [hp] at hr
  simp at hr; obtain ⟨h1, h2⟩ := hr; subst h1; subst h2
  obtain ⟨π1, he1, hR1, hva, hvb⟩ := exec_assign_pop2 cfg n h a b hp
  obtain ⟨he2, hR2⟩ := exec_push_var cfg n hR1 "rhs" a hva
  obtain ⟨he3, hR3⟩ := exec_push_var cfg n hR2 "lhs" b (getVar_after_push π1 "lhs" b _ (by decide) hvb)
  exact ⟨_, by simp only [tmpl36, execPL_cons, he1, he2, he3, execPL, sigP], hR3⟩

theorem sim_core_pair {σ σ' : RSt} {π : PSt} (cfg : Cfg) (n : Nat) (h : Rel env A σ π) (sg : Sig)
    (hr : execCore cfg n 34 σ = .ok (sg, σ')) : ∃ π', execPL cfg n tmpl34 π = .ok (sigP sg, π') ∧ Post env A sg σ' π' := by
  unfold execCore at hr
  simp only [Nat.reduceEqDiff, ↓reduceIte] at hr
  obtain ⟨a, b, hp⟩ := popK_two σ
  simp only [hp] at hr
  simp at hr; obtain ⟨h1, h2⟩ := hr; subst h1; subst h2
  obtain ⟨π1, he1, hR1, hva, hvb⟩ := exec_assign_pop2 cfg n h a b hp
  obtain ⟨π2, he2, hR2⟩ := exec_push_pure cfg n hR1 (.list [.name "lhs", .name "rhs"]) (.list [b, a]) (by
    simp [evalE, evalArgs, isCtxName, hva, hvb])
  exact ⟨_, by simp [tmpl34, execPL_cons, he1, he2, execPL, sigP], hR2⟩

/-- `stack.append(deep_copy(j))` -/
theorem exec_push_dcvar {σ : RSt} {π : PSt} (cfg : Cfg) (n : Nat) (h : Rel env A σ π) (j : String) (v : Val) (hv : π.getVar (j, []) = some v) :
    execPS cfg n (.expr (.call (.attr (.name "stack") "append") [.call (.name "deep_copy") [.name j] []] [])) π =
      .ok (.normal, π.setVar ("stack", []) (.list ((v :: σ.stack).reverse))) ∧
    Rel env A (σ.push v) (π.setVar ("stack", []) (.list ((v :: σ.stack).reverse))) := by
  have hdc : evalE cfg n (.call (.name "deep_copy") [.name j] []) π = .ok (v, π) := by simp [evalE, evalSpecial, hv]
  have := exec_push cfg n _ v hdc h
  simpa [push, stackE] using this

theorem sim_core_trip {σ σ' : RSt} {π : PSt} (cfg : Cfg) (n : Nat) (h : Rel env A σ π) (sg : Sig)
    (hr : execCore cfg n 68 σ = .ok (sg, σ')) : ∃ π', execPL cfg n tmpl68 π = .ok (sigP sg, π') ∧ Post env A sg σ' π' := by
  unfold execCore at hr
  simp only [Nat.reduceEqDiff, ↓reduceIte] at hr
  simp at hr; obtain ⟨h1, h2⟩ := hr; subst h1; subst h2
  obtain ⟨π1, he1, hR1, hv1⟩ := exec_assign_pop1 cfg n h "top" (by decide)
  obtain ⟨he2, hR2⟩ := exec_push_var cfg n hR1 "top" σ.pop1.1 hv1
  have hv2 := getVar_after_push π1 "top" σ.pop1.1 (.list ((σ.pop1.1 :: σ.pop1.2.stack).reverse)) (by decide) hv1
  obtain ⟨he3, hR3⟩ := exec_push_dcvar cfg n hR2 "top" σ.pop1.1 hv2
  have hv3 := getVar_after_push _ "top" σ.pop1.1 (.list ((σ.pop1.1 :: (σ.pop1.2.push σ.pop1.1).stack).reverse)) (by decide) hv2
  obtain ⟨he4, hR4⟩ := exec_push_dcvar cfg n hR3 "top" σ.pop1.1 hv3
  exact ⟨_, by simp only [tmpl68, execPL_cons, he1, he2, he3, he4, execPL, sigP], hR4⟩


theorem popN_all (st : List Val) (ins : List (List Val × Nat)) : popN st.length st ins = (st, [], ins) := by
  induction st with
  | nil => simp [popN]
  | cons x r ih => simp [popN, ih]

theorem Rel.setUseTop {σ : RSt} {π : PSt} (h : Rel env A σ π) : Rel env A σ { π with useTop := false } :=
  ⟨h.depth, h.params0, h.stack, h.ctxVals, h.inputs, h.register, h.ghost, h.out, h.printed, h.retain, rfl, h.stacks, h.fnStack,
   h.gvars, h.lvars, h.clean, h.fnsLen, h.lams, h.argVar, h.gArg, h.funcs⟩

theorem setVar_useTop_comm (π : PSt) (k : PKey) (v : Val) (b : Bool) :
    { π.setVar k v with useTop := b } = ({ π with useTop := b }).setVar k v := by
  unfold PSt.setVar; split <;> rfl

theorem exec_set_useTop (cfg : Cfg) (n : Nat) (π : PSt) (b : Bool) :
    execPS cfg n (.assign [.attr (.name "ctx") "use_top_input"] (.cbool b)) π = .ok (.normal, { π with useTop := b }) := by
  simp [execPS, evalE, assignTo]

theorem exec_get_input_top (cfg : Cfg) (n : Nat) (π : PSt) (h : π.useTop = true) :
    execPS cfg n (.assign [.name "lhs"] (.call (.name "get_input") [.name "ctx"] [])) π =
      .ok (.normal, ({ π with inputs := (explicitInput π.inputs).2 }).setVar ("lhs", []) (explicitInput π.inputs).1) := by
  simp [execPS, evalE, evalSpecial, assignTo, h]

theorem sim_core_input {σ σ' : RSt} {π : PSt} (cfg : Cfg) (n : Nat) (h : Rel env A σ π) (sg : Sig)
    (hr : execCore cfg n 63 σ = .ok (sg, σ')) : ∃ π', execPL cfg n tmpl63 π = .ok (sigP sg, π') ∧ Post env A sg σ' π' := by
  unfold execCore at hr
  simp only [Nat.reduceEqDiff, ↓reduceIte] at hr
  simp at hr; obtain ⟨h1, h2⟩ := hr; subst h1; subst h2
  have hR1 : Rel env A { σ with inputs := (explicitInput σ.inputs).2 }
      (({ π with inputs := (explicitInput σ.inputs).2 }).setVar ("lhs", []) (explicitInput σ.inputs).1) :=
    (h.setInputs _).setJunk "lhs" _ (by decide)
  obtain ⟨he4, hR4⟩ := exec_push_var cfg n hR1 "lhs" (explicitInput σ.inputs).1 (getVar_setVar_eq _ _ _)
  refine ⟨_, ?_, hR4⟩
  have hstate : ({ ({ ({ π with useTop := true } : PSt) with inputs := (explicitInput σ.inputs).2 } : PSt).setVar ("lhs", []) (explicitInput σ.inputs).1 with useTop := false } : PSt)
      = ({ π with inputs := (explicitInput σ.inputs).2 } : PSt).setVar ("lhs", []) (explicitInput σ.inputs).1 := by
    rw [setVar_useTop_comm]
    congr 1
    have := h.useTop
    cases π; simp_all
  simp only [tmpl63, execPL_cons, exec_set_useTop]
  rw [exec_get_input_top cfg n _ rfl]
  simp only [exec_set_useTop, h.inputs]
  rw [hstate, he4]
  simp [execPL, sigP]


theorem eval_len_stack {σ : RSt} {π : PSt} (cfg : Cfg) (n : Nat) (h : Rel env A σ π) :
    evalE cfg n (.call (.name "len") [.name "stack"] []) π = .ok (.int σ.stack.length, π) := by
  simp [evalE, evalSpecial, h.getStack, asList]

theorem sim_core_revstack {σ σ' : RSt} {π : PSt} (cfg : Cfg) (n : Nat) (h : Rel env A σ π) (sg : Sig)
    (hr : execCore cfg n 94 σ = .ok (sg, σ')) : ∃ π', execPL cfg n tmpl94 π = .ok (sigP sg, π') ∧ Post env A sg σ' π' := by
  unfold execCore at hr
  simp only [Nat.reduceEqDiff, ↓reduceIte] at hr
  simp at hr; obtain ⟨h1, h2⟩ := hr; subst h1; subst h2
  have hR := ((h.setInputs σ.inputs).setStack []).setStack σ.stack.reverse
  refine ⟨_, ?_, by simpa [Post] using hR⟩
  have hk : ¬ ((σ.stack.length : Int) < 0) := by omega
  simp only [tmpl94, execPL_cons, execPS, nameKey, evalE, specialOf_wrapify, evalSpecial, eval_len_stack cfg n h, R_ok_bind,
    asNat, hk, ↓reduceIte, h.getStack, popPy_rev, Int.toNat_natCast, popN_all, h.retain, h.inputs, getVar_setVar_eq,
    List.reverse_nil, List.nil_append, execPL, sigP, List.reverse_reverse]


theorem sim_core_wrapstack {σ σ' : RSt} {π : PSt} (cfg : Cfg) (n : Nat) (h : Rel env A σ π) (sg : Sig)
    (hr : execCore cfg n 87 σ = .ok (sg, σ')) : ∃ π', execPL cfg n tmpl87 π = .ok (sigP sg, π') ∧ Post env A sg σ' π' := by
  unfold execCore at hr
  simp only [Nat.reduceEqDiff, ↓reduceIte] at hr
  simp at hr; obtain ⟨h1, h2⟩ := hr; subst h1; subst h2
  -- temp = list(deep_copy(stack))
  have he1 : execPS cfg n (.assign [.name "temp"] (.call (.name "list") [.call (.name "deep_copy") [.name "stack"] []] [])) π =
      .ok (.normal, π.setVar ("temp", []) (.list σ.stack.reverse)) := by
    apply exec_assign_name
    simp [evalE, evalSpecial, h.getStack]
  have hR1 := h.setJunk "temp" (.list σ.stack.reverse) (by decide)
  -- pop(stack, len(stack), ctx)
  have hk : ¬ ((σ.stack.length : Int) < 0) := by omega
  have hR2 := ((hR1.setInputs σ.inputs).setStack [])
  have he2 : execPS cfg n (.expr (.call (.name "pop") [.name "stack", .call (.name "len") [.name "stack"] [], .name "ctx"] []))
      (π.setVar ("temp", []) (.list σ.stack.reverse)) =
      .ok (.normal, ({ π.setVar ("temp", []) (.list σ.stack.reverse) with inputs := σ.inputs }).setVar ("stack", []) (.list [])) := by
    simp only [execPS, evalE, specialOf_pop, evalSpecial, eval_len_stack cfg n hR1, R_ok_bind, asNat, hk, ↓reduceIte,
      hR1.getStack, popPy_rev, Int.toNat_natCast, popN_all, hR1.retain, hR1.inputs, List.reverse_nil]
    split <;> rfl
  have hv : (({ π.setVar ("temp", []) (.list σ.stack.reverse) with inputs := σ.inputs } : PSt).setVar ("stack", []) (.list [])).getVar ("temp", [])
      = some (.list σ.stack.reverse) := by
    rw [getVar_setVar_ne _ _ _ _ (by decide)]
    have : ({ π.setVar ("temp", []) (.list σ.stack.reverse) with inputs := σ.inputs } : PSt).getVar ("temp", []) =
        (π.setVar ("temp", []) (.list σ.stack.reverse)).getVar ("temp", []) := rfl
    rw [this, getVar_setVar_eq]
  obtain ⟨he3, hR3⟩ := exec_push_var cfg n hR2 "temp" (.list σ.stack.reverse) (by simpa using hv)
  refine ⟨_, ?_, by simpa [Post, RSt.push] using hR3⟩
  simp only [tmpl87, execPL_cons, he1, he2]
  simp only [List.reverse_nil] at he3
  rw [he3]; simp [execPL, sigP]


/-- every template of the closed core, by code point -/
theorem sim_core {σ σ' : RSt} {π : PSt} (cfg : Cfg) (n : Nat) (c : Nat) (body : List PyStmt) (hb : isCoreTmpl c body = true)
    (h : Rel env A σ π) (sg : Sig) (hr : execCore cfg n c σ = .ok (sg, σ')) :
    ∃ π', execPL cfg n body π = .ok (sigP sg, π') ∧ Post env A sg σ' π' := by
  unfold isCoreTmpl at hb
  by_cases h172 : c = 172
  · subst h172; simp only [↓reduceIte, Nat.reduceEqDiff] at hb; rw [isTmpl172_sound body hb]; exact sim_core_not cfg n h sg hr
  simp only [h172, ↓reduceIte] at hb
  by_cases h33 : c = 33
  · subst h33; simp only [↓reduceIte, Nat.reduceEqDiff] at hb; rw [isTmpl33_sound body hb]; exact sim_core_len cfg n h sg hr
  simp only [h33, ↓reduceIte] at hb
  by_cases h34 : c = 34
  · subst h34; simp only [↓reduceIte, Nat.reduceEqDiff] at hb; rw [isTmpl34_sound body hb]; exact sim_core_pair cfg n h sg hr
  simp only [h34, ↓reduceIte] at hb
  by_cases h36 : c = 36
  · subst h36; simp only [↓reduceIte, Nat.reduceEqDiff] at hb; rw [isTmpl36_sound body hb]; exact sim_core_swap cfg n h sg hr
  simp only [h36, ↓reduceIte] at hb
  by_cases h44 : c = 44
  · subst h44; simp only [↓reduceIte, Nat.reduceEqDiff] at hb; rw [isTmpl44_sound body hb]; exact sim_core_print cfg n h sg hr
  simp only [h44, ↓reduceIte] at hb
  by_cases h58 : c = 58
  · subst h58; simp only [↓reduceIte, Nat.reduceEqDiff] at hb; rw [isTmpl58_sound body hb]; exact sim_core_dup cfg n h sg hr
  simp only [h58, ↓reduceIte] at hb
  by_cases h63 : c = 63
  · subst h63; simp only [↓reduceIte, Nat.reduceEqDiff] at hb; rw [isTmpl63_sound body hb]; exact sim_core_input cfg n h sg hr
  simp only [h63, ↓reduceIte] at hb
  by_cases h68 : c = 68
  · subst h68; simp only [↓reduceIte, Nat.reduceEqDiff] at hb; rw [isTmpl68_sound body hb]; exact sim_core_trip cfg n h sg hr
  simp only [h68, ↓reduceIte] at hb
  by_cases h87 : c = 87
  · subst h87; simp only [↓reduceIte, Nat.reduceEqDiff] at hb; rw [isTmpl87_sound body hb]; exact sim_core_wrapstack cfg n h sg hr
  simp only [h87, ↓reduceIte] at hb
  by_cases h94 : c = 94
  · subst h94; simp only [↓reduceIte, Nat.reduceEqDiff] at hb; rw [isTmpl94_sound body hb]; exact sim_core_revstack cfg n h sg hr
  simp only [h94, ↓reduceIte] at hb
  by_cases h95 : c = 95
  · subst h95; simp only [↓reduceIte, Nat.reduceEqDiff] at hb; rw [isTmpl95_sound body hb]; exact sim_core_pop cfg n h sg hr
  simp only [h95, ↓reduceIte] at hb
  by_cases h100 : c = 100
  · subst h100; simp only [↓reduceIte, Nat.reduceEqDiff] at hb; rw [isTmpl100_sound body hb]; exact sim_core_double cfg n h sg hr
  simp only [h100, ↓reduceIte] at hb
  by_cases h110 : c = 110
  · subst h110; simp only [↓reduceIte, Nat.reduceEqDiff] at hb; rw [isTmpl110_sound body hb]; exact sim_core_n cfg n h sg hr
  simp only [h110, ↓reduceIte] at hb
  by_cases h117 : c = 117
  · subst h117; simp only [↓reduceIte, Nat.reduceEqDiff] at hb; rw [isTmpl117_sound body hb]; exact (sim_core_consts cfg n h sg).1 hr
  simp only [h117, ↓reduceIte] at hb
  by_cases h119 : c = 119
  · subst h119; simp only [↓reduceIte, Nat.reduceEqDiff] at hb; rw [isTmpl119_sound body hb]; exact sim_core_wrap cfg n h sg hr
  simp only [h119, ↓reduceIte] at hb
  by_cases h8320 : c = 8320
  · subst h8320; simp only [↓reduceIte, Nat.reduceEqDiff] at hb; rw [isTmpl8320_sound body hb]; exact (sim_core_consts cfg n h sg).2.1 hr
  simp only [h8320, ↓reduceIte] at hb
  by_cases h8321 : c = 8321
  · subst h8321; simp only [↓reduceIte, Nat.reduceEqDiff] at hb; rw [isTmpl8321_sound body hb]; exact (sim_core_consts cfg n h sg).2.2 hr
  simp only [h8321, ↓reduceIte] at hb
  by_cases h8372 : c = 8372
  · subst h8372; simp only [↓reduceIte, Nat.reduceEqDiff] at hb; rw [isTmpl8372_sound body hb]; exact sim_core_print_noline cfg n h sg hr
  simp only [h8372, ↓reduceIte] at hb
  by_cases h8230 : c = 8230
  · subst h8230; simp only [↓reduceIte, Nat.reduceEqDiff] at hb; rw [isTmpl8230_sound body hb]; exact sim_core_print_keep cfg n h sg hr
  simp only [h8230, ↓reduceIte] at hb
  by_cases h163 : c = 163
  · subst h163; simp only [↓reduceIte, Nat.reduceEqDiff] at hb; rw [isTmpl163_sound body hb]; exact sim_core_setreg cfg n h sg hr
  simp only [h163, ↓reduceIte] at hb
  by_cases h165 : c = 165
  · subst h165; simp only [↓reduceIte, Nat.reduceEqDiff] at hb; rw [isTmpl165_sound body hb]; exact sim_core_reg cfg n h sg hr
  simp only [h165, ↓reduceIte] at hb
  simp at hb

end Vy.Sem
