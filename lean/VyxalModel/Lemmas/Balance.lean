import VyxalModel.Model.Balance
/-!
# Soundness of the delta typing `chkL` against a nondeterministic execution relation

Conditions and iteration counts are arbitrary; `other` statements (assignments, element calls, helper
calls) leave the four depths unchanged — for calls this is the statement that every function body is
itself balanced, which `chkS (.defn …)` checks for the functions the program defines and
`Proofs/C12.helper_functions_balanced` checks for the helpers of the repository.
-/
namespace Bal

inductive Exit | normal | brk | cont | ret
  deriving DecidableEq, Repr

mutual
inductive ExecS : Sk → D4 → D4 → Exit → Prop
  | ev (d c) : ExecS (.ev d) c (c.add d) .normal
  | other (c) : ExecS .other c c .normal
  | unknown (c c' x) : ExecS .unknown c c' x
  | ifT {t e c c' x} : ExecL t c c' x → ExecS (.ifS t e) c c' x
  | ifE {t e c c' x} : ExecL e c c' x → ExecS (.ifS t e) c c' x
  | brk (c) : ExecS .brk c c .brk
  | cont (c) : ExecS .cont c c .cont
  | ret (c) : ExecS .ret c c .ret
  | loop {b c c' x} : ExecLoop b c c' x → ExecS (.loop b) c c' x
  | defn (b c) : ExecS (.defn b) c c .normal
inductive ExecL : List Sk → D4 → D4 → Exit → Prop
  | nil (c) : ExecL [] c c .normal
  | consN {s rest c c1 c2 x} : ExecS s c c1 .normal → ExecL rest c1 c2 x → ExecL (s :: rest) c c2 x
  | consX {s rest c c1 x} : ExecS s c c1 x → x ≠ .normal → ExecL (s :: rest) c c1 x
inductive ExecLoop : List Sk → D4 → D4 → Exit → Prop
  | stop (b c) : ExecLoop b c c .normal
  | iterN {b c c1 c2 x} : ExecL b c c1 .normal → ExecLoop b c1 c2 x → ExecLoop b c c2 x
  | iterC {b c c1 c2 x} : ExecL b c c1 .cont → ExecLoop b c1 c2 x → ExecLoop b c c2 x
  | iterB {b c c1} : ExecL b c c1 .brk → ExecLoop b c c1 .normal
  | iterR {b c c1} : ExecL b c c1 .ret → ExecLoop b c c1 .ret
end

/-- `c' − c = d − cur`, componentwise -/
def Rel (c c' cur d : D4) : Prop :=
  c'.cv - c.cv = d.cv - cur.cv ∧ c'.inp - c.inp = d.inp - cur.inp ∧
  c'.stk - c.stk = d.stk - cur.stk ∧ c'.fs - c.fs = d.fs - cur.fs

theorem Rel.refl (c cur : D4) : Rel c c cur cur := by simp [Rel]

theorem Rel.trans {c c1 c2 cur d1 d2 : D4} (h1 : Rel c c1 cur d1) (h2 : Rel c1 c2 d1 d2) : Rel c c2 cur d2 := by
  unfold Rel at *; omega

/-- what a successful check promises about one execution -/
def Post (lb fb : Option D4) (cur : D4) (r : Option D4) (c c' : D4) : Exit → Prop
  | .normal => ∃ d, r = some d ∧ Rel c c' cur d
  | .brk => ∃ b, lb = some b ∧ Rel c c' cur b
  | .cont => ∃ b, lb = some b ∧ Rel c c' cur b
  | .ret => ∃ f, fb = some f ∧ Rel c c' cur f

theorem joinIf_left {a b : Option D4} {r : Option D4} {d : D4} (h : joinIf a b = some r) (ha : a = some d) : r = some d := by
  subst ha
  cases b with
  | none => simp [joinIf] at h; exact h.symm
  | some y =>
    simp only [joinIf] at h
    split at h
    · simp at h; exact h.symm
    · simp at h

theorem joinIf_right {a b : Option D4} {r : Option D4} {d : D4} (h : joinIf a b = some r) (hb : b = some d) : r = some d := by
  subst hb
  cases a with
  | none => simp [joinIf] at h; exact h.symm
  | some x =>
    simp only [joinIf] at h
    split at h
    · rename_i hxy; simp at h; rw [← h, hxy]
    · simp at h

theorem chkS_if {lb fb cur t e r} (h : chkS lb fb cur (.ifS t e) = some r) :
    ∃ a b, chkL lb fb cur t = some a ∧ chkL lb fb cur e = some b ∧ joinIf a b = some r := by
  simp only [chkS] at h
  cases ha : chkL lb fb cur t with
  | none => simp [ha] at h
  | some a =>
    cases hb : chkL lb fb cur e with
    | none => simp [ha, hb] at h
    | some b => simp only [ha, hb] at h; exact ⟨a, b, rfl, rfl, h⟩

theorem chkL_cons {lb fb cur s rest r} (h : chkL lb fb cur (s :: rest) = some r) :
    (∃ d, chkS lb fb cur s = some (some d) ∧ chkL lb fb d rest = some r) ∨
    (chkS lb fb cur s = some none ∧ r = none) := by
  simp only [chkL] at h
  cases hs : chkS lb fb cur s with
  | none => simp [hs] at h
  | some o =>
    cases o with
    | none => simp [hs] at h; exact Or.inr ⟨rfl, h.symm⟩
    | some d => simp only [hs] at h; exact Or.inl ⟨d, rfl, h⟩

theorem chkS_loop {lb fb cur b r} (h : chkS lb fb cur (.loop b) = some r) :
    r = some cur ∧ ((chkL (some cur) fb cur b = some (some cur)) ∨ (chkL (some cur) fb cur b = some none)) := by
  simp only [chkS] at h
  cases hb : chkL (some cur) fb cur b with
  | none => simp [hb] at h
  | some o =>
    cases o with
    | none => simp [hb] at h; exact ⟨h.symm, Or.inr rfl⟩
    | some x =>
      simp only [hb] at h
      split at h
      · rename_i hx; subst hx; simp at h; exact ⟨h.symm, Or.inl rfl⟩
      · simp at h

mutual
theorem soundS : ∀ {s c c' x}, ExecS s c c' x → ∀ lb fb cur r, chkS lb fb cur s = some r → Post lb fb cur r c c' x
  | _, _, _, _, .ev d c, lb, fb, cur, r, h => by
      simp [chkS] at h; subst h
      exact ⟨_, rfl, by simp only [Rel, D4.add]; refine ⟨?_, ?_, ?_, ?_⟩ <;> omega⟩
  | _, _, _, _, .other c, lb, fb, cur, r, h => by
      simp [chkS] at h; subst h; exact ⟨_, rfl, Rel.refl _ _⟩
  | _, _, _, _, .unknown c c' x, lb, fb, cur, r, h => by simp [chkS] at h
  | _, _, _, _, .brk c, lb, fb, cur, r, h => by
      simp only [chkS] at h
      split at h
      · rename_i hl; exact ⟨cur, hl, Rel.refl _ _⟩
      · simp at h
  | _, _, _, _, .cont c, lb, fb, cur, r, h => by
      simp only [chkS] at h
      split at h
      · rename_i hl; exact ⟨cur, hl, Rel.refl _ _⟩
      · simp at h
  | _, _, _, _, .ret c, lb, fb, cur, r, h => by
      simp only [chkS] at h
      split at h
      · rename_i hl; exact ⟨cur, hl, Rel.refl _ _⟩
      · simp at h
  | _, _, _, _, .defn b c, lb, fb, cur, r, h => by
      simp only [chkS] at h
      cases hb : chkL none (some D4.zero) D4.zero b with
      | none => simp [hb] at h
      | some o =>
        cases o with
        | none => simp [hb] at h; subst h; exact ⟨_, rfl, Rel.refl _ _⟩
        | some x =>
          simp only [hb] at h
          split at h
          · simp at h; subst h; exact ⟨_, rfl, Rel.refl _ _⟩
          · simp at h
  | _, _, _, _, .ifT (t := t) (e := e) (x := x) ht, lb, fb, cur, r, h => by
      obtain ⟨a, b, ha, hb, hj⟩ := chkS_if h
      have p := soundL ht lb fb cur a ha
      cases x with
      | normal =>
        obtain ⟨d, hd, hr⟩ := p
        exact ⟨d, joinIf_left hj hd, hr⟩
      | brk => exact p
      | cont => exact p
      | ret => exact p
  | _, _, _, _, .ifE (t := t) (e := e) (x := x) he, lb, fb, cur, r, h => by
      obtain ⟨a, b, ha, hb, hj⟩ := chkS_if h
      have p := soundL he lb fb cur b hb
      cases x with
      | normal =>
        obtain ⟨d, hd, hr⟩ := p
        exact ⟨d, joinIf_right hj hd, hr⟩
      | brk => exact p
      | cont => exact p
      | ret => exact p
  | _, _, _, _, .loop (b := b) (x := x) hl, lb, fb, cur, r, h => by
      obtain ⟨hr, hb⟩ := chkS_loop h
      have p := soundLoop hl fb cur hb
      rcases p with ⟨hx, hrel⟩ | ⟨hx, f, hf, hrel⟩
      · subst hx; exact ⟨cur, hr, hrel⟩
      · subst hx; exact ⟨f, hf, hrel⟩
theorem soundL : ∀ {l c c' x}, ExecL l c c' x → ∀ lb fb cur r, chkL lb fb cur l = some r → Post lb fb cur r c c' x
  | _, _, _, _, .nil c, lb, fb, cur, r, h => by
      simp [chkL] at h; subst h; exact ⟨_, rfl, Rel.refl _ _⟩
  | _, _, _, _, .consN (s := s) (rest := rest) (x := x) hs hr, lb, fb, cur, r, h => by
      rcases chkL_cons h with ⟨d, hsd, hrest⟩ | ⟨hsn, _⟩
      · obtain ⟨d', hd', hrel⟩ := soundS hs lb fb cur (some d) hsd
        have hdd : d' = d := by simpa using hd'.symm
        subst hdd
        have p := soundL hr lb fb d' r hrest
        cases x with
        | normal => obtain ⟨e, he, hr2⟩ := p; exact ⟨e, he, hrel.trans hr2⟩
        | brk => obtain ⟨e, he, hr2⟩ := p; exact ⟨e, he, hrel.trans hr2⟩
        | cont => obtain ⟨e, he, hr2⟩ := p; exact ⟨e, he, hrel.trans hr2⟩
        | ret => obtain ⟨e, he, hr2⟩ := p; exact ⟨e, he, hrel.trans hr2⟩
      · obtain ⟨d', hd', _⟩ := soundS hs lb fb cur none hsn
        simp at hd'
  | _, _, _, _, .consX (s := s) (rest := rest) (x := x) hs hx, lb, fb, cur, r, h => by
      rcases chkL_cons h with ⟨d, hsd, _⟩ | ⟨hsn, _⟩
      · have p := soundS hs lb fb cur (some d) hsd
        cases x with
        | normal => exact absurd rfl hx
        | brk => exact p
        | cont => exact p
        | ret => exact p
      · have p := soundS hs lb fb cur none hsn
        cases x with
        | normal => exact absurd rfl hx
        | brk => exact p
        | cont => exact p
        | ret => exact p
/-- a checked loop: it ends normally with the depths it started with, or returns with the function's delta -/
theorem soundLoop : ∀ {b c c' x}, ExecLoop b c c' x → ∀ fb cur,
    (chkL (some cur) fb cur b = some (some cur) ∨ chkL (some cur) fb cur b = some none) →
    (x = .normal ∧ Rel c c' cur cur) ∨ (x = .ret ∧ ∃ f, fb = some f ∧ Rel c c' cur f)
  | _, _, _, _, .stop b c, fb, cur, _ => Or.inl ⟨rfl, Rel.refl _ _⟩
  | _, _, _, _, .iterN (c := c) (c1 := c1) (x := x) hb hl, fb, cur, hc => by
      have hrel : Rel c c1 cur cur := by
        rcases hc with hc | hc
        · obtain ⟨d, hd, hr⟩ := soundL hb (some cur) fb cur (some cur) hc
          have : d = cur := by simpa using hd.symm
          subst this; exact hr
        · obtain ⟨d, hd, _⟩ := soundL hb (some cur) fb cur none hc
          simp at hd
      rcases soundLoop hl fb cur hc with ⟨hx, h2⟩ | ⟨hx, f, hf, h2⟩
      · exact Or.inl ⟨hx, hrel.trans h2⟩
      · exact Or.inr ⟨hx, f, hf, hrel.trans h2⟩
  | _, _, _, _, .iterC (c := c) (c1 := c1) (x := x) hb hl, fb, cur, hc => by
      have hrel : Rel c c1 cur cur := by
        rcases hc with hc | hc
        · obtain ⟨d, hd, hr⟩ := soundL hb (some cur) fb cur (some cur) hc
          have : d = cur := by simpa using hd.symm
          subst this; exact hr
        · obtain ⟨d, hd, hr⟩ := soundL hb (some cur) fb cur none hc
          have : d = cur := by simpa using hd.symm
          subst this; exact hr
      rcases soundLoop hl fb cur hc with ⟨hx, h2⟩ | ⟨hx, f, hf, h2⟩
      · exact Or.inl ⟨hx, hrel.trans h2⟩
      · exact Or.inr ⟨hx, f, hf, hrel.trans h2⟩
  | _, _, _, _, .iterB hb, fb, cur, hc => by
      rcases hc with hc | hc
      · obtain ⟨d, hd, hr⟩ := soundL hb (some cur) fb cur (some cur) hc
        have : d = cur := by simpa using hd.symm
        subst this; exact Or.inl ⟨rfl, hr⟩
      · obtain ⟨d, hd, hr⟩ := soundL hb (some cur) fb cur none hc
        have : d = cur := by simpa using hd.symm
        subst this; exact Or.inl ⟨rfl, hr⟩
  | _, _, _, _, .iterR hb, fb, cur, hc => by
      rcases hc with hc | hc
      · obtain ⟨f, hf, hr⟩ := soundL hb (some cur) fb cur (some cur) hc
        exact Or.inr ⟨rfl, f, hf, hr⟩
      · obtain ⟨f, hf, hr⟩ := soundL hb (some cur) fb cur none hc
        exact Or.inr ⟨rfl, f, hf, hr⟩
end

theorem Rel_zero {c c' : D4} (h : Rel c c' D4.zero D4.zero) : c' = c := by
  cases c; cases c'
  simp only [Rel, D4.zero] at h
  simp only [D4.mk.injEq]
  omega

end Bal
