import VyxalModel.Model.LazyList
/-! Invariant of the lazy-list machine and correctness of each observation against the plain list. -/
namespace LLM

def LL.Inv (l : LL) : Prop := l.gen = l.src.take l.pos ∧ l.pos ≤ l.src.length

theorem fresh_inv (src : List Int) : (LL.fresh src).Inv := by simp [LL.fresh, LL.Inv]

theorem inv_len {l : LL} (h : l.Inv) : l.gen.length = l.pos := by
  rw [h.1, List.length_take]; have := h.2; omega

theorem next_inv (l : LL) (h : l.Inv) : (l.next).2.Inv ∧ (l.next).2.src = l.src := by
  unfold LL.next
  cases hx : l.src[l.pos]? with
  | none => exact ⟨h, rfl⟩
  | some x =>
    have hlt : l.pos < l.src.length := by
      rcases List.getElem?_eq_some_iff.mp hx with ⟨hh, _⟩; exact hh
    refine ⟨⟨?_, by simp only; omega⟩, rfl⟩
    simp only
    rw [h.1, List.take_add_one, hx]; rfl

theorem next_none {l : LL} (h : l.Inv) : (l.next).1 = none ↔ l.pos = l.src.length := by
  unfold LL.next
  cases hx : l.src[l.pos]? with
  | none =>
    have : l.src.length ≤ l.pos := List.getElem?_eq_none_iff.mp hx
    have := h.2
    simp; omega
  | some x =>
    have hlt : l.pos < l.src.length := by
      rcases List.getElem?_eq_some_iff.mp hx with ⟨hh, _⟩; exact hh
    simp; omega

theorem next_some {l : LL} {x : Int} {l' : LL} (hx : l.next = (some x, l')) :
    l.src[l.pos]? = some x ∧ l'.pos = l.pos + 1 ∧ l'.src = l.src := by
  unfold LL.next at hx
  cases hy : l.src[l.pos]? with
  | none => rw [hy] at hx; simp at hx
  | some y =>
    rw [hy] at hx
    simp only [Prod.mk.injEq, Option.some.injEq] at hx
    obtain ⟨rfl, rfl⟩ := hx
    exact ⟨rfl, rfl, rfl⟩

theorem pullN_inv (k : Nat) (l : LL) (h : l.Inv) : (l.pullN k).Inv ∧ (l.pullN k).src = l.src := by
  induction k generalizing l with
  | zero => exact ⟨h, rfl⟩
  | succ k ih =>
    unfold LL.pullN
    have hn := next_inv l h
    cases hx : l.next with
    | mk o l' =>
      rw [hx] at hn
      cases o with
      | none => exact ⟨h, rfl⟩
      | some _ => have := ih l' hn.1; exact ⟨this.1, this.2.trans hn.2⟩

theorem pullN_pos (k : Nat) (l : LL) (h : l.Inv) : (l.pullN k).pos = min (l.pos + k) l.src.length := by
  induction k generalizing l with
  | zero => have := h.2; simp [LL.pullN]; omega
  | succ k ih =>
    unfold LL.pullN
    have hn := next_inv l h
    cases hx : l.next with
    | mk o l' =>
      rw [hx] at hn
      cases o with
      | none =>
        have : l.pos = l.src.length := (next_none h).mp (by rw [hx])
        simp only; omega
      | some x =>
        obtain ⟨hs, hp, hsrc⟩ := next_some hx
        have hlt : l.pos < l.src.length := by
          rcases List.getElem?_eq_some_iff.mp hs with ⟨hh, _⟩; exact hh
        have := ih l' hn.1
        simp only
        rw [this, hp, hsrc]; omega

theorem forceAll_spec (l : LL) (h : l.Inv) :
    l.forceAll.Inv ∧ l.forceAll.src = l.src ∧ l.forceAll.gen = l.src ∧ l.forceAll.pos = l.src.length := by
  have hi := pullN_inv (l.src.length + 1) l h
  have hp := pullN_pos (l.src.length + 1) l h
  unfold LL.forceAll
  refine ⟨hi.1, hi.2, ?_, by rw [hp]; omega⟩
  rw [hi.1.1, hi.2, hp]
  have : min (l.pos + (l.src.length + 1)) l.src.length = l.src.length := by omega
  rw [this, List.take_length]

theorem pullK_spec (k : Nat) (l : LL) (h : l.Inv) :
    (l.pullK k).1 = decide (l.pos + k ≤ l.src.length) ∧ (l.pullK k).2.Inv ∧ (l.pullK k).2.src = l.src := by
  induction k generalizing l with
  | zero => have := h.2; simp [LL.pullK, h]; omega
  | succ k ih =>
    unfold LL.pullK
    have hn := next_inv l h
    cases hx : l.next with
    | mk o l' =>
      rw [hx] at hn
      cases o with
      | none =>
        have : l.pos = l.src.length := (next_none h).mp (by rw [hx])
        refine ⟨?_, h, rfl⟩
        simp; omega
      | some x =>
        obtain ⟨hs, hp, hsrc⟩ := next_some hx
        have := ih l' hn.1
        simp only
        refine ⟨?_, this.2.1, this.2.2.trans hn.2⟩
        rw [this.1, hp, hsrc]
        congr 1
        apply propext; omega

theorem hasInd_spec (l : LL) (h : l.Inv) (i : Int) :
    (l.hasInd i).1 = decide (0 ≤ i ∧ i < l.src.length) ∧ (l.hasInd i).2.Inv ∧ (l.hasInd i).2.src = l.src := by
  unfold LL.hasInd
  have hlen := inv_len h
  have hle := h.2
  split
  · rename_i hi
    refine ⟨?_, h, rfl⟩
    simp only
    congr 1; apply propext
    constructor
    · intro h0; exact ⟨h0, by omega⟩
    · intro h0; exact h0.1
  · rename_i hi
    have hk := pullK_spec (i.toNat - l.gen.length + 1) l h
    refine ⟨?_, hk.2.1, hk.2.2⟩
    rw [hk.1]
    congr 1; apply propext
    omega

/-- `__getitem__` agrees with the list (wrap-around for non-negative positions, IndexError for negatives out of range) -/
theorem getItem_spec (l : LL) (h : l.Inv) (i : Int) :
    (l.getItem i).1 = oracle l.src (.getItem i) ∧ (l.getItem i).2.Inv ∧ (l.getItem i).2.src = l.src := by
  have hlen := inv_len h
  have hle := h.2
  unfold LL.getItem oracle
  by_cases hneg : i < 0
  · simp only [hneg, if_true]
    obtain ⟨fi, fs, fg, _⟩ := forceAll_spec l h
    rw [fg]; exact ⟨rfl, fi, fs⟩
  · simp only [hneg, if_false]
    have hi0 : 0 ≤ i := by omega
    by_cases hin : i < l.gen.length
    · simp only [hin, if_true]
      refine ⟨?_, h, by first | rfl | trivial⟩
      have hsl : i.toNat < l.src.length := by omega
      have hne : l.src.isEmpty = false := by
        cases hs : l.src with
        | nil => simp [hs] at hsl
        | cons a b => rfl
      have hg : l.gen[i.toNat]? = l.src[i.toNat]? := by
        rw [h.1, List.getElem?_take]; simp; omega
      simp only [wrapAns, hne, Bool.false_eq_true, if_false, Nat.mod_eq_of_lt hsl, idxAns, hg]
    · simp only [hin, if_false]
      have hI := pullN_inv (i.toNat + 1 - l.gen.length) l h
      have hP := pullN_pos (i.toNat + 1 - l.gen.length) l h
      generalize hl' : l.pullN (i.toNat + 1 - l.gen.length) = l' at hI hP
      have hg' : l'.gen = l.src.take l'.pos := by rw [hI.1.1, hI.2]
      have hpos : l'.pos = min (i.toNat + 1) l.src.length := by rw [hP]; omega
      refine ⟨?_, hI.1, hI.2⟩
      cases hs : l.src with
      | nil =>
        have : l'.gen = [] := by rw [hg', hs]; simp
        simp [this, wrapAns]
      | cons a b =>
        have hsl : 0 < l.src.length := by rw [hs]; simp
        have hgl : l'.gen.length = l'.pos := by rw [hg', List.length_take, hpos]; omega
        have hgne : l'.gen.isEmpty = false := by
          cases hgg : l'.gen with
          | nil => rw [hgg] at hgl; simp at hgl; omega
          | cons x y => rfl
        rw [← hs]
        have hsne : l.src.isEmpty = false := by rw [hs]; rfl
        simp only [wrapAns, hgne, hsne, Bool.false_eq_true, if_false]
        by_cases hfull : i.toNat + 1 ≤ l.src.length
        · have hp1 : l'.pos = i.toNat + 1 := by omega
          have e1 : i.toNat % l'.gen.length = i.toNat := Nat.mod_eq_of_lt (by omega)
          have e2 : i.toNat % l.src.length = i.toNat := Nat.mod_eq_of_lt (by omega)
          have hk : (List.take (i.toNat + 1) l.src)[i.toNat]? = l.src[i.toNat]? := by
            rw [List.getElem?_take]; simp
          rw [idxAns, idxAns, e1, e2, hg', hp1, hk]
        · have hp1 : l'.pos = l.src.length := by omega
          have : l'.gen = l.src := by rw [hg', hp1, List.take_length]
          rw [this]

theorem containsF_spec (n : Nat) (l : LL) (h : l.Inv) (x : Int) (hn : l.src.length < l.pos + n) :
    (l.containsF n x).1 = .int (if (l.src.drop l.pos).contains x then 1 else 0) ∧
    (l.containsF n x).2.Inv ∧ (l.containsF n x).2.src = l.src := by
  induction n generalizing l with
  | zero => have := h.2; omega
  | succ n ih =>
    unfold LL.containsF
    have hn' := next_inv l h
    cases hx : l.next with
    | mk o l' =>
      rw [hx] at hn'
      cases o with
      | none =>
        have hp : l.pos = l.src.length := (next_none h).mp (by rw [hx])
        refine ⟨?_, h, by first | rfl | trivial⟩
        simp only [hp, List.drop_length]
        rfl
      | some y =>
        obtain ⟨hs, hp, hsrc⟩ := next_some hx
        have hlt : l.pos < l.src.length := by
          rcases List.getElem?_eq_some_iff.mp hs with ⟨hh, _⟩; exact hh
        have hd : l.src.drop l.pos = y :: l.src.drop (l.pos + 1) := by
          rw [List.drop_eq_getElem_cons hlt]
          congr 1
          rw [List.getElem?_eq_getElem hlt] at hs
          exact Option.some.inj hs
        simp only
        by_cases hyx : y = x
        · simp only [hyx, if_true]
          refine ⟨?_, hn'.1, hn'.2⟩
          rw [hd, hyx]; simp
        · simp only [hyx, if_false]
          have := ih l' hn'.1 (by rw [hp, hsrc]; omega)
          refine ⟨?_, this.2.1, this.2.2.trans hn'.2⟩
          rw [this.1, hp, hsrc, hd]
          have hxy : ¬ x = y := fun e => hyx e.symm
          simp [hxy]

theorem contains_spec (l : LL) (h : l.Inv) (x : Int) :
    (l.contains x).1 = oracle l.src (.contains x) ∧ (l.contains x).2.Inv ∧ (l.contains x).2.src = l.src := by
  unfold LL.contains oracle
  have hsplit : l.src = l.gen ++ l.src.drop l.pos := by rw [h.1, List.take_append_drop]
  have hc : l.src.contains x = (l.gen.contains x || (l.src.drop l.pos).contains x) := by
    conv => lhs; rw [hsplit]
    simp [List.contains_eq_mem, List.mem_append]
  by_cases hg : l.gen.contains x = true
  · simp only [hg, if_true]
    refine ⟨?_, h, by first | rfl | trivial⟩
    rw [hc, hg]; simp
  · simp only [hg, Bool.false_eq_true, if_false]
    have hg' : l.gen.contains x = false := by simpa using hg
    have := containsF_spec (l.src.length + 1) l h x (by omega)
    refine ⟨?_, this.2.1, this.2.2⟩
    rw [this.1, hc, hg']; simp

end LLM
