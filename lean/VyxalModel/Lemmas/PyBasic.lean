import VyxalModel.Model.PySem
import VyxalModel.Model.Transpile
/-! Basic facts about the Python-fragment interpreter: the monad, variable maps, `pop`, sequencing. -/
namespace Vy.Sem
open Vy PyAst

@[simp] theorem R_ok_bind {α β} (a : α) (f : α → R β) : ((Except.ok a : R α) >>= f) = f a := rfl
@[simp] theorem R_err_bind {α β} (e : SErr) (f : α → R β) : ((Except.error e : R α) >>= f) = .error e := rfl
@[simp] theorem R_pure {α} (a : α) : (pure a : R α) = .ok a := rfl

@[simp] theorem ex_ok_bind {ε α β} (a : α) (f : α → Except ε β) : ((Except.ok a : Except ε α) >>= f) = f a := rfl
@[simp] theorem ex_err_bind {ε α β} (e : ε) (f : α → Except ε β) : ((Except.error e : Except ε α) >>= f) = .error e := rfl
@[simp] theorem ex_map_ok {ε α β} (a : α) (f : α → β) : (f <$> (Except.ok a : Except ε α)) = .ok (f a) := rfl
@[simp] theorem ex_map_err {ε α β} (e : ε) (f : α → β) : (f <$> (Except.error e : Except ε α)) = .error e := rfl
@[simp] theorem ex_pure {ε α} (a : α) : (pure a : Except ε α) = .ok a := rfl

theorem lookupP_setP_eq (k : PKey) (v : Val) (l : List (PKey × Val)) : lookupP k (setP k v l) = some v := by
  induction l with
  | nil => simp [setP, lookupP]
  | cons h t ih =>
    obtain ⟨k', v'⟩ := h
    by_cases hk : k' = k <;> simp [setP, lookupP, hk, ih]

theorem lookupP_setP_ne (k k2 : PKey) (v : Val) (l : List (PKey × Val)) (h : k2 ≠ k) :
    lookupP k2 (setP k v l) = lookupP k2 l := by
  induction l with
  | nil => simp [setP, lookupP]; intro h'; exact absurd h'.symm h
  | cons hd t ih =>
    obtain ⟨k', v'⟩ := hd
    by_cases hk : k' = k
    · subst hk; simp [setP, lookupP, Ne.symm h]
    · by_cases hk2 : k' = k2
      · subst hk2; simp [setP, lookupP, h]
      · simp [setP, lookupP, hk, hk2, ih]

theorem lookupKV_setKV_eq {α} (k : Str) (v : α) (l : List (Str × α)) : lookupKV k (setKV k v l) = some v := by
  induction l with
  | nil => simp [setKV, lookupKV]
  | cons h t ih =>
    obtain ⟨k', v'⟩ := h
    by_cases hk : k' = k <;> simp [setKV, lookupKV, hk, ih]

theorem lookupKV_setKV_ne {α} (k k2 : Str) (v : α) (l : List (Str × α)) (h : k2 ≠ k) :
    lookupKV k2 (setKV k v l) = lookupKV k2 l := by
  induction l with
  | nil => simp [setKV, lookupKV]; intro h'; exact absurd h'.symm h
  | cons hd t ih =>
    obtain ⟨k', v'⟩ := hd
    by_cases hk : k' = k
    · subst hk; simp [setKV, lookupKV, Ne.symm h]
    · by_cases hk2 : k' = k2
      · subst hk2; simp [setKV, lookupKV, h]
      · simp [setKV, lookupKV, hk, hk2, ih]

/-! ### variables at module level (depth 0) -/

theorem getVar_d0 (π : PSt) (k : PKey) (h : π.depth = 0) : π.getVar k = lookupP k π.globals := by
  simp [PSt.getVar, h]

theorem setVar_d0 (π : PSt) (k : PKey) (v : Val) (h : π.depth = 0) :
    π.setVar k v = { π with globals := setP k v π.globals } := by
  simp [PSt.setVar, h]

@[simp] theorem setVar_depth (π : PSt) (k : PKey) (v : Val) : (π.setVar k v).depth = π.depth := by
  unfold PSt.setVar; split <;> rfl

theorem getVar_setVar_eq (π : PSt) (k : PKey) (v : Val) : (π.setVar k v).getVar k = some v := by
  unfold PSt.setVar PSt.getVar
  by_cases h : π.depth = 0 <;> simp [h, lookupP_setP_eq]

theorem getVar_setVar_ne (π : PSt) (k k2 : PKey) (v : Val) (h : k2 ≠ k) : (π.setVar k v).getVar k2 = π.getVar k2 := by
  unfold PSt.setVar PSt.getVar
  by_cases hd : π.depth = 0 <;> simp [hd, lookupP_setP_ne _ _ _ _ h]

@[simp] theorem setVar_ctxVals (π : PSt) (k : PKey) (v : Val) : (π.setVar k v).ctxVals = π.ctxVals := by
  unfold PSt.setVar; split <;> rfl
@[simp] theorem setVar_inputs (π : PSt) (k : PKey) (v : Val) : (π.setVar k v).inputs = π.inputs := by
  unfold PSt.setVar; split <;> rfl
@[simp] theorem setVar_register (π : PSt) (k : PKey) (v : Val) : (π.setVar k v).register = π.register := by
  unfold PSt.setVar; split <;> rfl
@[simp] theorem setVar_ghost (π : PSt) (k : PKey) (v : Val) : (π.setVar k v).ghost = π.ghost := by
  unfold PSt.setVar; split <;> rfl
@[simp] theorem setVar_out (π : PSt) (k : PKey) (v : Val) : (π.setVar k v).out = π.out := by
  unfold PSt.setVar; split <;> rfl
@[simp] theorem setVar_printed (π : PSt) (k : PKey) (v : Val) : (π.setVar k v).printed = π.printed := by
  unfold PSt.setVar; split <;> rfl
@[simp] theorem setVar_retain (π : PSt) (k : PKey) (v : Val) : (π.setVar k v).retain = π.retain := by
  unfold PSt.setVar; split <;> rfl
@[simp] theorem setVar_useTop (π : PSt) (k : PKey) (v : Val) : (π.setVar k v).useTop = π.useTop := by
  unfold PSt.setVar; split <;> rfl
@[simp] theorem setVar_fns (π : PSt) (k : PKey) (v : Val) : (π.setVar k v).fns = π.fns := by
  unfold PSt.setVar; split <;> rfl
@[simp] theorem setVar_stacks (π : PSt) (k : PKey) (v : Val) : (π.setVar k v).stacks = π.stacks := by
  unfold PSt.setVar; split <;> rfl
@[simp] theorem setVar_fnStack (π : PSt) (k : PKey) (v : Val) : (π.setVar k v).fnStack = π.fnStack := by
  unfold PSt.setVar; split <;> rfl

/-! ### sequencing -/

theorem execPL_append (cfg : Cfg) (n : Nat) (a b : List PyStmt) (π : PSt) :
    execPL cfg n (a ++ b) π =
      (match execPL cfg n a π with
       | .ok (.normal, π1) => execPL cfg n b π1
       | r => r) := by
  induction a generalizing π with
  | nil => simp [execPL]
  | cons s rest ih =>
    simp only [List.cons_append, execPL]
    cases h : execPS cfg n s π with
    | error e => simp
    | ok r =>
      obtain ⟨sg, π1⟩ := r
      cases sg <;> simp [ih]

theorem execPL_cons (cfg : Cfg) (n : Nat) (s : PyStmt) (rest : List PyStmt) (π : PSt) :
    execPL cfg n (s :: rest) π =
      (match execPS cfg n s π with
       | .ok (.normal, π1) => execPL cfg n rest π1
       | .ok (sg, π1) => .ok (sg, π1)
       | .error e => .error e) := by
  simp only [execPL]
  cases h : execPS cfg n s π with
  | error e => simp
  | ok r => obtain ⟨sg, π1⟩ := r; cases sg <;> simp

/-! ### `pop` -/

theorem popN_length (k : Nat) (st : List Val) (ins : List (List Val × Nat)) : (popN k st ins).1.length = k := by
  induction k generalizing st ins with
  | zero => simp [popN]
  | succ k ih =>
    cases st with
    | nil => simp only [popN]; simp [ih]
    | cons x st => simp only [popN]; simp [ih]

theorem popPy_rev (k : Nat) (st : List Val) (ins : List (List Val × Nat)) :
    popPy k st.reverse ins false = ((popN k st ins).1, (popN k st ins).2.1.reverse, (popN k st ins).2.2) := by
  simp [popPy]

end Vy.Sem
