import VyxalModel.Lemmas.Compile2
/-! # List literals: every item runs in its own `list_item` frame on a copy of the stack -/
namespace Vy.Sem
open Vy PyAst
variable {env : TEnv} {A : Option Val}

def itemFrame (S : List Val) : List (PKey × Val) := [(("s", []), .list S), (("stack", []), .list S)]

/-- inside `list_item`: its own frame with a copy of the caller's stack -/
theorem rel_enterItem {σ : RSt} {π : PSt} (h : Rel env A σ π) :
    Rel env Option.none (enterItem σ) { π with locals := itemFrame σ.stack.reverse, depth := π.depth + 1 } := by
  refine ⟨by simp [enterItem, h.depth], by simp [enterItem], ?_, h.ctxVals, h.inputs, h.register, h.ghost, h.out, h.printed,
    h.retain, h.useTop, h.stacks, h.fnStack, h.gvars, ?_, ?_, h.fnsLen, h.lams, ?_, h.gArg, h.funcs⟩
  · simp [PSt.getVar, itemFrame, lookupP, enterItem]
  · intro _ x hx hl
    simp [itemFrame, lookupP, enterItem, lookupKV]
  · intro hn hj hs
    have hg := getVar_none_globals π (hn, []) (h.clean hn hj hs)
    have h1 : hn ≠ "s" := by intro he; subst he; exact hj (by decide)
    simp [PSt.getVar, itemFrame, lookupP, hg, h1.symm, Ne.symm hs]
  · simp [PSt.getVar, itemFrame, lookupP, h.gArg]


def itemDef (pitem : List PyStmt) : PFn :=
  { params := [("s", Option.none), ("ctx", Option.none)],
    body := [assign1 stackE (callN "list" [callN "deep_copy" [nm "s"]])] ++ pitem ++ listItemEpilogue }

theorem bindPy_item (cfg : Cfg) (n : Nat) (v : Val) (π : PSt) :
    bindPy cfg n [("s", Option.none), ("ctx", Option.none)] [v] [] π = .ok [(("s", []), v)] := by
  unfold bindPy; simp
  unfold bindPy; simp
  unfold bindPy; simp

theorem itemResult_empty (σ : RSt) (he : σ.stack.isEmpty = true) : itemResult σ = (Option.none, σ) := by
  simp [itemResult, he]

theorem itemResult_nonempty (σ : RSt) (he : ¬ σ.stack.isEmpty = true) :
    (itemResult σ).2 = σ.pop1.2 ∧ (itemResult σ).1.getD Val.none = σ.pop1.1 := by
  unfold itemResult
  simp only [he, Bool.false_eq_true, ↓reduceIte]
  split <;> simp_all

/-- the end of `list_item`: nothing for an empty stack, else the top -/
theorem exec_itemEpilogue {σ : RSt} {π : PSt} (cfg : Cfg) (n : Nat) (h : Rel env A σ π) :
    ∃ π', execPL cfg n listItemEpilogue π = .ok (.ret ((itemResult σ).1.getD Val.none), π') ∧ Rel env A (itemResult σ).2 π' := by
  have hlen : evalE cfg n (.compare (callN "len" [stackE]) [(.eq, .cint 0)]) π = .ok (.int (b2i σ.stack.isEmpty), π) := by
    have hs := eval_stack_var cfg n π _ h.getStack
    cases hst : σ.stack with
    | nil => simp [callN, evalE, evalSpecial, hs, hst, asList, cmpVals, b2i]
    | cons x r =>
      have : ((r.length : Int) + 1 == 0) = false := by simp; omega
      simp [callN, evalE, evalSpecial, hs, hst, asList, cmpVals, b2i, this]
  unfold listItemEpilogue
  rw [execPL_cons, exec_ifS cfg n _ _ _ _ _ _ hlen]
  by_cases he : σ.stack.isEmpty = true
  · simp only [he, pyTruth_b2i, ↓reduceIte, itemResult_empty σ he]
    exact ⟨π, by simp [execPL_cons, execPS], h⟩
  · simp only [he, pyTruth_b2i, Bool.false_eq_true, ↓reduceIte, execPL]
    rw [(itemResult_nonempty σ he).1, (itemResult_nonempty σ he).2]
    refine ⟨popPi σ π 1, ?_, rel_pop1 h⟩
    simp [execPL_cons, execPS, eval_pop1kw cfg n h]


theorem setVar_fns_comm' (π : PSt) (k : PKey) (v : Val) (F : List PFn) :
    ({ π with fns := F } : PSt).setVar k v = { π.setVar k v with fns := F } := by
  unfold PSt.setVar; split <;> rfl

/-- calling `list_item(stack, ctx)` right after its definition -/
theorem sim_callItem (cfg : Cfg) (n : Nat) (hsim : SimAt cfg env n) {σ : RSt} {π : PSt} (h : Rel env A σ π) (item : List Structure)
    (k : Nat) (b : List PyStmt) (k' : Nat) (hfrag : fragL env.elements item = true) (htr : transpileL env k item = .ok (b, k'))
    (σ1 : RSt) (hr : execL cfg n item (enterItem σ.allocFn) = .ok (.normal, σ1)) :
    ∃ π3, callPy cfg (n + 1) π.fns.length [.list σ.stack.reverse] [] true
        (({ π with fns := π.fns ++ [itemDef (orPass b)] } : PSt).setVar ("list_item", []) (.fn π.fns.length)) =
          .ok ((itemResult σ1).1.getD Val.none, Option.none, π3) ∧
      Rel env A (restoreFrame σ.allocFn (itemResult σ1).2) π3 ∧
      (∀ key, π3.getVar key = (({ π with fns := π.fns ++ [itemDef (orPass b)] } : PSt).setVar ("list_item", []) (.fn π.fns.length)).getVar key) := by
  -- the caller's state after the `def`
  have hRa : Rel env A σ.allocFn (({ π with fns := π.fns ++ [itemDef (orPass b)] } : PSt).setVar ("list_item", []) (.fn π.fns.length)) :=
    (h.addFn ⟨0, Option.none, [], [], false⟩ (itemDef (orPass b)) (by intro hc; simp at hc)).setJunk "list_item" _ (by decide)
  generalize hπ1 : (({ π with fns := π.fns ++ [itemDef (orPass b)] } : PSt).setVar ("list_item", []) (.fn π.fns.length)) = π1 at hRa ⊢
  have hfn : π1.fns[π.fns.length]? = some (itemDef (orPass b)) := by
    rw [← hπ1]; simp
  -- inside: the frame, the copy of the stack
  have hRin := rel_enterItem hRa
  have hstk : σ.allocFn.stack = σ.stack := rfl
  rw [hstk] at hRin
  have hb1 : execPS cfg n (assign1 stackE (callN "list" [callN "deep_copy" [nm "s"]]))
      { π1 with locals := [(("s", []), .list σ.stack.reverse)], depth := π1.depth + 1 } =
      .ok (.normal, { π1 with locals := itemFrame σ.stack.reverse, depth := π1.depth + 1 }) := by
    simp [assign1, stackE, callN, nm, execPS, evalE, evalSpecial, PSt.getVar, PSt.setVar, lookupP, setP, assignTo, itemFrame]
  -- the item
  obtain ⟨π2, hbody, hP2⟩ := hsim item k b k' hfrag htr Option.none _ _ _ _ hRin hr
  have hR2 : Rel env Option.none σ1 π2 := hP2
  obtain ⟨π2e, hepi, hRe⟩ := exec_itemEpilogue cfg n hR2
  refine ⟨{ π2e with locals := π1.locals, depth := π1.depth, globals := π1.globals, fns := π1.fns ++ π2e.fns.drop π1.fns.length },
    ?_, hRa.restore hRe, fun _ => rfl⟩
  have hall : execPL cfg n ([assign1 stackE (callN "list" [callN "deep_copy" [nm "s"]])] ++ (orPass b ++ listItemEpilogue))
      { π1 with locals := [(("s", []), .list σ.stack.reverse)], depth := π1.depth + 1 } =
      .ok (.ret ((itemResult σ1).1.getD Val.none), π2e) := by
    simp only [List.cons_append, List.nil_append]
    rw [execPL_cons, hb1]
    simp only
    rw [execPL_append, execPL_orPass, hbody]
    simp only [sigP, hepi]
  unfold callPy
  simp only [hfn, itemDef, bindPy_item, R_ok_bind, List.append_assoc, hall]
  simp


theorem itemResult_some_ne_none (σ : RSt) (v : Val) (h : (itemResult σ).1 = some v) : v ≠ Val.none := by
  unfold itemResult at h
  split at h
  · simp at h
  · split at h
    · simp at h
    · rename_i hne
      simp at h; subst h
      intro hc; exact hne hc

/-- one item of a list literal: `def list_item`, call it, append what it returns -/
theorem sim_listItemTemplate (cfg : Cfg) (n : Nat) (hsim : SimAt cfg env n) {σ : RSt} {π : PSt} (h : Rel env A σ π) (item : List Structure)
    (k : Nat) (b : List PyStmt) (k' : Nat) (hfrag : fragL env.elements item = true) (htr : transpileL env k item = .ok (b, k'))
    (acc : List Val) (hacc : π.getVar ("temp_list", []) = some (.list acc))
    (σ1 : RSt) (hr : execL cfg n item (enterItem σ.allocFn) = .ok (.normal, σ1)) :
    ∃ π4, execPL cfg (n + 1) (listItemTemplate (orPass b)) π = .ok (.normal, π4) ∧
      Rel env A (restoreFrame σ.allocFn (itemResult σ1).2) π4 ∧
      π4.getVar ("temp_list", []) = some (.list (acc ++ (itemResult σ1).1.toList)) := by
  obtain ⟨π3, hcall, hR3, hg3⟩ := sim_callItem cfg n hsim h item k b k' hfrag htr σ1 hr
  generalize hπ1 : (({ π with fns := π.fns ++ [itemDef (orPass b)] } : PSt).setVar ("list_item", []) (.fn π.fns.length)) = π1 at hcall hg3
  have hRa : Rel env A σ.allocFn π1 := by
    rw [← hπ1]
    exact (h.addFn ⟨0, Option.none, [], [], false⟩ (itemDef (orPass b)) (by intro hc; simp at hc)).setJunk "list_item" _ (by decide)
  have s1 : execPS cfg (n + 1) (.defS "list_item" [("s", Option.none), ("ctx", Option.none)]
      ([assign1 stackE (callN "list" [callN "deep_copy" [nm "s"]])] ++ orPass b ++ listItemEpilogue)) π = .ok (.normal, π1) := by
    rw [← hπ1]; simp [execPS, itemDef]
  -- f = list_item(stack, ctx)
  have hli : π1.getVar ("list_item", []) = some (.fn π.fns.length) := by rw [← hπ1]; exact getVar_setVar_eq _ _ _
  have hargs : evalArgs cfg (n + 1) [stackE, ctxE] π1 = .ok ([.list σ.stack.reverse], π1) := by
    have hs := eval_stack_var cfg (n + 1) π1 _ hRa.getStack
    have : σ.allocFn.stack = σ.stack := rfl
    rw [this] at hs
    simp only [stackE] at hs
    simp [evalArgs, stackE, ctxE, isCtxName, hs]
  have hsp : specialOf "list_item" = Option.none := by decide
  have hev : evalE cfg (n + 1) (callN "list_item" [stackE, ctxE]) π1 = .ok ((itemResult σ1).1.getD Val.none, π3) := by
    simp only [callN, evalE, hsp, callVar, hli, hargs, R_ok_bind, evalKws, List.find?, List.filter, List.append_nil, hcall]
    simp [stackE]
  have s2 : execPS cfg (n + 1) (assign1 (nm "f") (callN "list_item" [stackE, ctxE])) π1 =
      .ok (.normal, π3.setVar ("f", []) ((itemResult σ1).1.getD Val.none)) := exec_assign_name cfg (n + 1) "f" _ _ π1 _ hev
  have hR4 := hR3.setJunk "f" ((itemResult σ1).1.getD Val.none) (by decide)
  have htl : (π3.setVar ("f", []) ((itemResult σ1).1.getD Val.none)).getVar ("temp_list", []) = some (.list acc) := by
    rw [getVar_setVar_ne _ _ _ _ (by decide), hg3, ← hπ1, getVar_setVar_ne _ _ _ _ (by decide)]
    exact hacc
  have hvf : (π3.setVar ("f", []) ((itemResult σ1).1.getD Val.none)).getVar ("f", []) = some ((itemResult σ1).1.getD Val.none) :=
    getVar_setVar_eq _ _ _
  simp only [listItemTemplate, execPL_cons, s1, s2]
  cases hres : (itemResult σ1).1 with
  | none =>
    rw [hres] at hvf htl hR4
    simp only [Option.getD_none] at hvf htl hR4 ⊢
    have hcmp : evalE cfg (n + 1) (.compare (nm "f") [(.isNot, .cnone)]) (π3.setVar ("f", []) Val.none) =
        .ok (.int 0, π3.setVar ("f", []) Val.none) := by
      simp only [nm, evalE, hvf, R_ok_bind, cmpVals, b2i]; rfl
    rw [exec_ifS cfg (n + 1) _ _ _ _ _ _ hcmp]
    simp only [pyTruth, bne_self_eq_false, Bool.false_eq_true, ↓reduceIte, execPL]
    exact ⟨_, rfl, hR4, by simpa using htl⟩
  | some v =>
    have hvn := itemResult_some_ne_none σ1 v hres
    rw [hres] at hvf htl hR4
    simp only [Option.getD_some] at hvf htl hR4 ⊢
    have hcmp : evalE cfg (n + 1) (.compare (nm "f") [(.isNot, .cnone)]) (π3.setVar ("f", []) v) =
        .ok (.int 1, π3.setVar ("f", []) v) := by
      simp only [nm, evalE, hvf, R_ok_bind, cmpVals, b2i]
      cases v <;> first | rfl | exact absurd rfl hvn
    rw [exec_ifS cfg (n + 1) _ _ _ _ _ _ hcmp]
    simp only [pyTruth, show ((1 : Int) != 0) = true by decide, ↓reduceIte]
    have happ : execPS cfg (n + 1) (.expr (.call (.attr (nm "temp_list") "append") [nm "f"] [])) (π3.setVar ("f", []) v) =
        .ok (.normal, (π3.setVar ("f", []) v).setVar ("temp_list", []) (.list (acc ++ [v]))) := by
      simp [nm, execPS, evalE, hvf, htl]
    refine ⟨(π3.setVar ("f", []) v).setVar ("temp_list", []) (.list (acc ++ [v])), by simp only [execPL_cons, happ, execPL],
      hR4.setJunk "temp_list" _ (by decide), ?_⟩
    simp [getVar_setVar_eq]


/-- all items of a list literal, in order, accumulating into `temp_list` -/
theorem sim_listItems (cfg : Cfg) (n : Nat) (hsim : SimAt cfg env n) :
    ∀ (items : List (List Structure)) (k : Nat) (cs : List (List PyStmt)) (k' : Nat), fragLL env.elements items = true →
      transpileLL env k items = .ok (cs, k') →
      ∀ {σ : RSt} {π : PSt} (acc vals : List Val) (σ' : RSt), Rel env A σ π → π.getVar ("temp_list", []) = some (.list acc) →
        listItems cfg (n + 1) items σ = .ok (vals, σ') →
        ∃ π', execPL cfg (n + 1) ((cs.map listItemTemplate).flatten) π = .ok (.normal, π') ∧ Rel env A σ' π' ∧
          π'.getVar ("temp_list", []) = some (.list (acc ++ vals))
  | [], k, cs, k', _, ht, σ, π, acc, vals, σ', h, hacc, hr => by
      simp [transpileLL] at ht; obtain ⟨h1, _⟩ := ht; subst h1
      simp [listItems] at hr; obtain ⟨h1, h2⟩ := hr; subst h1; subst h2
      exact ⟨π, by simp [execPL], h, by simpa using hacc⟩
  | item :: rest, k, cs, k', hf, ht, σ, π, acc, vals, σ', h, hacc, hr => by
      simp only [fragLL, Bool.and_eq_true] at hf
      simp only [transpileLL] at ht
      cases hl : transpileL env k item with
      | error e => simp [hl] at ht
      | ok r1 =>
        obtain ⟨b, k1⟩ := r1
        cases hrr : transpileLL env k1 rest with
        | error e => simp [hl, hrr] at ht
        | ok r2 =>
          obtain ⟨cs2, k2⟩ := r2
          simp [hl, hrr] at ht; obtain ⟨h1, _⟩ := ht; subst h1
          simp only [listItems] at hr
          cases hit : execL cfg n item (enterItem σ.allocFn) with
          | error e => simp [hit] at hr
          | ok r3 =>
            obtain ⟨sg, σ1⟩ := r3
            simp only [hit, R_ok_bind] at hr
            cases sg with
            | normal =>
              simp only at hr
              cases hrest : listItems cfg (n + 1) rest (restoreFrame σ.allocFn (itemResult σ1).2) with
              | error e => simp [hrest] at hr
              | ok r4 =>
                obtain ⟨vs, σ4⟩ := r4
                simp [hrest] at hr; obtain ⟨h1, h2⟩ := hr; subst h1; subst h2
                obtain ⟨π4, he1, hR4, hacc4⟩ := sim_listItemTemplate cfg n hsim h item k b k1 hf.1 hl acc hacc σ1 hit
                obtain ⟨π5, he2, hR5, hacc5⟩ := sim_listItems cfg n hsim rest k1 cs2 k2 hf.2 hrr _ vs σ4 hR4 hacc4 hrest
                refine ⟨π5, ?_, hR5, ?_⟩
                · simp only [List.map_cons, List.flatten_cons]
                  rw [execPL_append, he1]; exact he2
                · rw [hacc5]
                  cases (itemResult σ1).1 <;> simp
            | brk => simp at hr
            | cont => simp at hr
            | ret v => simp at hr

end Vy.Sem
