import VyxalModel.Lemmas.Frag
import VyxalModel.Lemmas.ParseToks
/-! # The fragment of the compiler-correctness theorem, as a condition on the lexed tokens -/
namespace Vy.Sem
open Vy PyAst

mutual
theorem frag_of_allTok (tbl : List Gen.Entry) : ∀ (s : Structure), allTokS (fragTok tbl) s = true → fragS tbl s = true
  | .generic t, h => by simpa [allTokS, fragS] using h
  | .brk _, _ => by simp [fragS]
  | .recurse _, _ => by simp [fragS]
  | .fnCall _, _ => by simp [fragS]
  | .ifS bs, h => by simp only [allTokS] at h; simp only [fragS]; exact fragLL_of_allTok tbl bs h
  | .forS _ body, h => by simp only [allTokS] at h; simp only [fragS]; exact fragL_of_allTok tbl body h
  | .whileS Option.none body, h => by simp only [allTokS] at h; simp only [fragS]; exact fragL_of_allTok tbl body h
  | .whileS (some c) body, h => by
      simp only [allTokS, Bool.and_eq_true] at h; simp only [fragS, Bool.and_eq_true]
      exact ⟨fragL_of_allTok tbl c h.1, fragL_of_allTok tbl body h.2⟩
  | .fnDef _ _ body, h => by simp only [allTokS] at h; simp only [fragS]; exact fragL_of_allTok tbl body h
  | .lam _ body, h => by simp only [allTokS] at h; simp only [fragS]; exact fragL_of_allTok tbl body h
  | .lamOp _ body, h => by
      simp only [allTokS, Bool.and_eq_true] at h; simp only [fragS, Bool.and_eq_true]
      exact ⟨fragL_of_allTok tbl body h.1, h.2⟩
  | .listS items, h => by simp only [allTokS] at h; simp only [fragS]; exact fragLL_of_allTok tbl items h
  | .mon _ a, h => by simp only [allTokS] at h; simp only [fragS]; exact frag_of_allTok tbl a h
  | .dy _ a b, h => by
      simp only [allTokS, Bool.and_eq_true] at h; simp only [fragS, Bool.and_eq_true]
      exact ⟨frag_of_allTok tbl a h.1, frag_of_allTok tbl b h.2⟩
  | .tri _ _ _ _, _ => by simp [fragS]
theorem fragL_of_allTok (tbl : List Gen.Entry) : ∀ (l : List Structure), allTokL (fragTok tbl) l = true → fragL tbl l = true
  | [], _ => by simp [fragL]
  | s :: r, h => by
      simp only [allTokL, Bool.and_eq_true] at h; simp only [fragL, Bool.and_eq_true]
      exact ⟨frag_of_allTok tbl s h.1, fragL_of_allTok tbl r h.2⟩
theorem fragLL_of_allTok (tbl : List Gen.Entry) : ∀ (l : List (List Structure)), allTokLL (fragTok tbl) l = true → fragLL tbl l = true
  | [], _ => by simp [fragLL]
  | s :: r, h => by
      simp only [allTokLL, Bool.and_eq_true] at h; simp only [fragLL, Bool.and_eq_true]
      exact ⟨fragL_of_allTok tbl s h.1, fragLL_of_allTok tbl r h.2⟩
end

/-- a source whose lexed tokens are all covered (and whose table has the map / filter / sort-by elements as expected) parses
    into the fragment -/
theorem frag_of_tokens (tbl : List Gen.Entry) (hlo : ∀ k, fragTok tbl ⟨.general, lamOpKey k⟩ = true) (ts : List Token)
    (hq : ∀ t ∈ ts, fragTok tbl t = true) (tree : List Structure) (h : parseTop ts = .ok tree) : fragL tbl tree = true :=
  fragL_of_allTok tbl tree (parse_allTok (fragTok tbl) hlo _ ts .none tree hq h)

end Vy.Sem
