import VyxalModel.Lemmas.LazyList
namespace C13
open LLM

/-- what the forward loop collects from the plain list: `src[i], src[i+step], …` while `i` is an index and below `stop` -/
def fwd (src : List Int) : Nat → Int → Option Int → Int → List Int
  | 0, _, _, _ => []
  | n + 1, i, stop, step =>
    if stopOK stop i ∧ i < src.length then
      match src[i.toNat]? with
      | some x => x :: fwd src n (i + step) stop step
      | none => []
    else []

theorem getItem_inrange (l : LL) (h : l.Inv) (i : Int) (h0 : 0 ≤ i) (h1 : i < l.src.length) :
    ∃ x, l.src[i.toNat]? = some x ∧ (l.getItem i).1 = .int x := by
  have hg := (getItem_spec l h i).1
  have hlt : i.toNat < l.src.length := by omega
  obtain ⟨x, hx⟩ : ∃ x, l.src[i.toNat]? = some x := ⟨l.src[i.toNat], List.getElem?_eq_getElem hlt⟩
  refine ⟨x, hx, ?_⟩
  rw [hg]
  have hneg : ¬ i < 0 := by omega
  have hne : l.src.isEmpty = false := by
    cases hs : l.src with
    | nil => rw [hs] at hlt; simp at hlt
    | cons a b => rfl
  simp only [oracle, hneg, if_false, wrapAns, hne, Bool.false_eq_true, idxAns, Nat.mod_eq_of_lt hlt, hx]

theorem sliceLoop_fwd : ∀ (n : Nat) (l : LL), l.Inv → ∀ (i : Int) (stop : Option Int) (step : Int) (acc : List Int), 0 ≤ i → 0 ≤ step →
    (l.sliceLoop n i stop step acc).1 = acc.reverse ++ fwd l.src n i stop step
  | 0, l, _, _, _, _, _, _, _ => by simp [LL.sliceLoop, fwd]
  | n + 1, l, h, i, stop, step, acc, h0, hs => by
    unfold LL.sliceLoop fwd
    have hh := hasInd_spec l h i
    by_cases hstop : stopOK stop i = true
    · simp only [hstop, if_true, true_and]
      by_cases hlt : i < l.src.length
      · have hk : (l.hasInd i).1 = true := by rw [hh.1]; simp [h0, hlt]
        simp only [hk, if_true, hlt]
        obtain ⟨x, hx, hgx⟩ := getItem_inrange (l.hasInd i).2 hh.2.1 i h0 (by rw [hh.2.2]; exact hlt)
        rw [hh.2.2] at hx
        rw [hgx, hx]
        simp only
        have hg := getItem_spec (l.hasInd i).2 hh.2.1 i
        rw [sliceLoop_fwd n _ hg.2.1 (i + step) stop step (x :: acc) (by omega) hs, hg.2.2, hh.2.2]
        simp
      · have hk : (l.hasInd i).1 = false := by rw [hh.1]; simp [hlt]
        simp [hk, hlt]
    · simp [hstop]

end C13

namespace C13
open LLM

theorem sliceIdx_pos (n : Nat) (i e step : Int) (hs : 0 < step) :
    sliceIdx (n + 1) i e step = if i < e then i :: sliceIdx n (i + step) e step else [] := by
  have h1 : ¬ step < 0 := by omega
  simp [sliceIdx, hs, h1]

/-- the loop over the plain list and Python's slice indices, from any index with enough fuel on both sides -/
theorem fwd_sliceIdx (src : List Int) (stop : Option Int) (step e' : Int) (hs : 0 < step) (he : e' ≤ src.length)
    (hcond : ∀ i : Int, 0 ≤ i → ((stopOK stop i = true ∧ i < src.length) ↔ i < e')) :
    ∀ (f g : Nat) (i : Int), 0 ≤ i → e' - i < f → e' - i < g →
      fwd src f i stop step = (sliceIdx g i e' step).filterMap (fun j => src[j.toNat]?)
  | 0, g, i, h0, hf, hg => by
      have hlt : ¬ i < e' := by omega
      cases g with
      | zero => simp [fwd, sliceIdx]
      | succ g => simp [fwd, sliceIdx_pos g i e' step hs, hlt]
  | f + 1, g, i, h0, hf, hg => by
      by_cases hlt : i < e'
      · cases g with
        | zero => omega
        | succ g =>
          have hc := (hcond i h0).mpr hlt
          have hin : i.toNat < src.length := by omega
          have hx : src[i.toNat]? = some src[i.toNat] := List.getElem?_eq_getElem hin
          rw [sliceIdx_pos g i e' step hs]
          simp only [hlt, if_true, List.filterMap_cons, hx]
          unfold fwd
          simp only [hc, and_self, if_true, hx]
          rw [fwd_sliceIdx src stop step e' hs he hcond f g (i + step) (by omega) (by omega) (by omega)]
      · have hc : ¬ (stopOK stop i = true ∧ i < src.length) := fun h => hlt ((hcond i h0).mp h)
        unfold fwd
        simp only [hc, if_false]
        cases g with
        | zero => simp [sliceIdx]
        | succ g => simp [sliceIdx_pos g i e' step hs, hlt]

def fwdBound (len : Int) : Option Int → Int
  | some e => min e len
  | none => len

theorem adjust_nonneg (len step v : Int) (hv : 0 ≤ v) (hs : 0 < step) (hl : 0 ≤ len) : adjust len step v = min v len := by
  unfold adjust
  have h1 : ¬ v < 0 := by omega
  have h2 : ¬ step < 0 := by omega
  by_cases h3 : v ≥ len
  · simp [h1, h2, h3]; omega
  · simp [h1, h3]; omega

/-- **forward slices**: with `start ≥ 0`, `stop ≥ 0` or absent, `step > 0`, the loop over the plain list is Python's slice -/
theorem fwd_pySlice (src : List Int) (start stop : Option Int) (step : Int) (hs : 0 < step) (h0 : 0 ≤ start.getD 0)
    (he : ∀ e, stop = some e → 0 ≤ e) :
    fwd src (src.length + 2) (start.getD 0) stop step = pySlice src start stop step := by
  have hstep : ¬ step < 0 := by omega
  have hb1 : (sliceBounds src.length start stop step).1 = min (start.getD 0) src.length := by
    unfold sliceBounds
    cases start with
    | none => simp only [hstep, if_false, Option.getD_none]; omega
    | some v => simp only [Option.getD_some]; exact adjust_nonneg _ _ v h0 hs (by omega)
  have hb2 : (sliceBounds src.length start stop step).2 = fwdBound src.length stop := by
    unfold sliceBounds fwdBound
    cases stop with
    | none => simp [hstep]
    | some v => simp only; exact adjust_nonneg _ _ v (he v rfl) hs (by omega)
  have hele : fwdBound src.length stop ≤ src.length := by
    unfold fwdBound
    cases stop with
    | none => simp
    | some v => simp only; omega
  have hcond : ∀ i : Int, 0 ≤ i → ((stopOK stop i = true ∧ i < src.length) ↔ i < fwdBound src.length stop) := by
    intro i _
    unfold fwdBound
    cases stop with
    | none => simp [stopOK]
    | some v => simp only [stopOK, decide_eq_true_eq]; omega
  have hps : pySlice src start stop step =
      (sliceIdx (src.length + 1) (sliceBounds src.length start stop step).1 (sliceBounds src.length start stop step).2 step).filterMap
        (fun i => src[i.toNat]?) := rfl
  rw [hps, hb1, hb2]
  by_cases hst : start.getD 0 < src.length
  · have hmin : min (start.getD 0) (src.length : Int) = start.getD 0 := by omega
    rw [hmin]
    exact fwd_sliceIdx src stop step _ hs hele hcond (src.length + 2) (src.length + 1) (start.getD 0) h0 (by omega) (by omega)
  · have hmin : min (start.getD 0) (src.length : Int) = src.length := by omega
    rw [hmin]
    have h1 : ¬ ((src.length : Int) < fwdBound src.length stop) := by omega
    rw [sliceIdx_pos src.length _ _ step hs]
    simp only [h1, if_false, List.filterMap_nil]
    unfold fwd
    have hc : ¬ (stopOK stop (start.getD 0) = true ∧ start.getD 0 < src.length) := fun h => hst h.2
    simp [hc]

end C13
