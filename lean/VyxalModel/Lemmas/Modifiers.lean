import VyxalModel.Lemmas.NamedFn
import VyxalModel.Lemmas.ModTemplates
/-! # Modifiers: the wrapped operand, `function_A = pop(stack, 1, ctx)`, and one lemma per modifier template -/
namespace Vy.Sem
open Vy PyAst

variable {env : TEnv} {A : Option Val}

/-! ### a call gives the caller's frame back: every Python variable keeps its value -/

/-- same frame: locals, module namespace, depth -/
def SameVars (π π' : PSt) : Prop := π'.locals = π.locals ∧ π'.globals = π.globals ∧ π'.depth = π.depth

theorem SameVars.refl (π : PSt) : SameVars π π := ⟨rfl, rfl, rfl⟩
theorem SameVars.trans {a b c : PSt} (h1 : SameVars a b) (h2 : SameVars b c) : SameVars a c :=
  ⟨h2.1.trans h1.1, h2.2.1.trans h1.2.1, h2.2.2.trans h1.2.2⟩
theorem SameVars.getVar {π π' : PSt} (h : SameVars π π') (k : PKey) : π'.getVar k = π.getVar k := by
  unfold PSt.getVar; rw [h.1, h.2.1, h.2.2]

theorem callPy_same (cfg : Cfg) (n id : Nat) (pos : List Val) (kws : List (String × Val)) (b : Bool) (π π' : PSt) (r : Val)
    (back : Option Val) (h : callPy cfg n id pos kws b π = .ok (r, back, π')) : SameVars π π' := by
  cases n with
  | zero => simp [callPy] at h
  | succ m =>
    unfold callPy at h
    cases hf : π.fns[id]? with
    | none => simp [hf] at h
    | some f =>
      simp only [hf] at h
      cases hb : bindPy cfg m f.params pos kws π with
      | error e => simp [hb] at h
      | ok frame =>
        simp only [hb, R_ok_bind] at h
        cases he : execPL cfg m f.body { π with locals := frame, depth := π.depth + 1 } with
        | error e => simp [he] at h
        | ok r2 =>
          obtain ⟨sg, π2⟩ := r2
          simp only [he, R_ok_bind] at h
          cases sg <;> simp at h
          all_goals (obtain ⟨_, _, h3⟩ := h; subst h3; exact ⟨rfl, rfl, rfl⟩)

theorem applyPy_same (cfg : Cfg) (n : Nat) (f : Val) (args : List Val) (π π' : PSt) (r : Val)
    (h : applyPy cfg n f args π = .ok (r, π')) : SameVars π π' := by
  unfold applyPy at h
  cases f with
  | fn id =>
    simp only at h
    cases hc : callPy cfg n id [.list args.reverse, .fn id, .int args.length] [] false π with
    | error e => simp [hc] at h
    | ok r3 =>
      obtain ⟨rv, back, π3⟩ := r3
      have hs := callPy_same cfg n id _ _ _ π π3 rv back hc
      simp only [hc, R_ok_bind] at h
      cases rv with
      | list l =>
        simp only at h
        cases hl : l.getLast? with
        | some x => simp [hl] at h; obtain ⟨_, h2⟩ := h; subst h2; exact hs
        | none => simp [hl] at h; obtain ⟨_, h2⟩ := h; subst h2; exact hs
      | int i => simp at h
      | fn i => simp at h
      | none => simp at h
  | int i => simp at h
  | list l => simp at h
  | none => simp at h

theorem mapPy_same (cfg : Cfg) (n : Nat) (f : Val) : ∀ (xs : List Val) (π π' : PSt) (ys : List Val),
    mapPy cfg n f xs π = .ok (ys, π') → SameVars π π'
  | [], π, π', ys, h => by simp [mapPy] at h; obtain ⟨_, h2⟩ := h; subst h2; exact .refl π
  | x :: xs, π, π', ys, h => by
      simp only [mapPy] at h
      cases ha : applyPy cfg n f [x] π with
      | error e => simp [ha] at h
      | ok r1 =>
        obtain ⟨y, π1⟩ := r1
        simp only [ha, R_ok_bind] at h
        cases hm : mapPy cfg n f xs π1 with
        | error e => simp [hm] at h
        | ok r2 =>
          obtain ⟨ys2, π2⟩ := r2
          simp [hm] at h; obtain ⟨_, h2⟩ := h; subst h2
          exact (applyPy_same cfg n f [x] π π1 y ha).trans (mapPy_same cfg n f xs π1 π2 ys2 hm)

theorem mapPy2_same (cfg : Cfg) (n : Nat) (f : Val) : ∀ (xs : List (Val × Val)) (π π' : PSt) (ys : List Val),
    mapPy2 cfg n f xs π = .ok (ys, π') → SameVars π π'
  | [], π, π', ys, h => by simp [mapPy2] at h; obtain ⟨_, h2⟩ := h; subst h2; exact .refl π
  | (x, y) :: xs, π, π', ys, h => by
      simp only [mapPy2] at h
      cases ha : applyPy cfg n f [x, y] π with
      | error e => simp [ha] at h
      | ok r1 =>
        obtain ⟨z, π1⟩ := r1
        simp only [ha, R_ok_bind] at h
        cases hm : mapPy2 cfg n f xs π1 with
        | error e => simp [hm] at h
        | ok r2 =>
          obtain ⟨ys2, π2⟩ := r2
          simp [hm] at h; obtain ⟨_, h2⟩ := h; subst h2
          exact (applyPy_same cfg n f [x, y] π π1 z ha).trans (mapPy2_same cfg n f xs π1 π2 ys2 hm)

theorem filterPy_same (cfg : Cfg) (n : Nat) (f : Val) : ∀ (xs : List Val) (π π' : PSt) (ys : List Val),
    filterPy cfg n f xs π = .ok (ys, π') → SameVars π π'
  | [], π, π', ys, h => by simp [filterPy] at h; obtain ⟨_, h2⟩ := h; subst h2; exact .refl π
  | x :: xs, π, π', ys, h => by
      simp only [filterPy] at h
      cases ha : applyPy cfg n f [x] π with
      | error e => simp [ha] at h
      | ok r1 =>
        obtain ⟨y, π1⟩ := r1
        simp only [ha, R_ok_bind] at h
        cases hm : filterPy cfg n f xs π1 with
        | error e => simp [hm] at h
        | ok r2 =>
          obtain ⟨ys2, π2⟩ := r2
          simp [hm] at h; obtain ⟨_, h2⟩ := h; subst h2
          exact (applyPy_same cfg n f [x] π π1 y ha).trans (filterPy_same cfg n f xs π1 π2 ys2 hm)

theorem foldPy_same (cfg : Cfg) (n : Nat) (f : Val) : ∀ (xs : List Val) (acc : Val) (π π' : PSt) (r : Val),
    foldPy cfg n f acc xs π = .ok (r, π') → SameVars π π'
  | [], acc, π, π', r, h => by simp [foldPy] at h; obtain ⟨_, h2⟩ := h; subst h2; exact .refl π
  | x :: xs, acc, π, π', r, h => by
      simp only [foldPy] at h
      cases ha : applyPy cfg n f [acc, x] π with
      | error e => simp [ha] at h
      | ok r1 =>
        obtain ⟨y, π1⟩ := r1
        simp only [ha, R_ok_bind] at h
        exact (applyPy_same cfg n f [acc, x] π π1 y ha).trans (foldPy_same cfg n f xs y π1 π' r h)

theorem scanPy_same (cfg : Cfg) (n : Nat) (f : Val) : ∀ (xs : List Val) (acc : Val) (π π' : PSt) (ys : List Val),
    scanPy cfg n f acc xs π = .ok (ys, π') → SameVars π π'
  | [], acc, π, π', ys, h => by simp [scanPy] at h; obtain ⟨_, h2⟩ := h; subst h2; exact .refl π
  | x :: xs, acc, π, π', ys, h => by
      simp only [scanPy] at h
      cases ha : applyPy cfg n f [acc, x] π with
      | error e => simp [ha] at h
      | ok r1 =>
        obtain ⟨y, π1⟩ := r1
        simp only [ha, R_ok_bind] at h
        cases hm : scanPy cfg n f y xs π1 with
        | error e => simp [hm] at h
        | ok r2 =>
          obtain ⟨ys2, π2⟩ := r2
          simp [hm] at h; obtain ⟨_, h2⟩ := h; subst h2
          exact (applyPy_same cfg n f [acc, x] π π1 y ha).trans (scanPy_same cfg n f xs y π1 π2 ys2 hm)

/-! ### the remaining iterated applications -/

theorem sim_mapFn2 (cfg : Cfg) (N : Nat) (hsim : ∀ m, N = m + 1 → SimAt cfg env m) (f : Val) :
    ∀ (xs : List (Val × Val)) {σ : RSt} {π : PSt}, Rel env A σ π → ∀ (ys : List Val) (σ' : RSt), mapFn2 cfg N f xs σ = .ok (ys, σ') →
      ∃ π', mapPy2 cfg N f xs π = .ok (ys, π') ∧ Rel env A σ' π'
  | [], σ, π, h, ys, σ', hr => by
      simp [mapFn2] at hr; obtain ⟨h1, h2⟩ := hr; subst h1; subst h2
      exact ⟨π, by simp [mapPy2], h⟩
  | (x, y) :: xs, σ, π, h, ys, σ', hr => by
      simp only [mapFn2] at hr
      cases ha : applyFn cfg N f [x, y] σ with
      | error e => simp [ha] at hr
      | ok r1 =>
        obtain ⟨z, σ1⟩ := r1
        simp only [ha, R_ok_bind] at hr
        obtain ⟨π1, hp1, hR1⟩ := sim_applyFn' cfg N hsim h f [x, y] z σ1 ha
        cases hm : mapFn2 cfg N f xs σ1 with
        | error e => simp [hm] at hr
        | ok r2 =>
          obtain ⟨ys2, σ2⟩ := r2
          simp [hm] at hr; obtain ⟨h1, h2⟩ := hr; subst h1; subst h2
          obtain ⟨π2, hp2, hR2⟩ := sim_mapFn2 cfg N hsim f xs hR1 ys2 σ2 hm
          exact ⟨π2, by simp [mapPy2, hp1, hp2], hR2⟩

theorem sim_foldFn (cfg : Cfg) (N : Nat) (hsim : ∀ m, N = m + 1 → SimAt cfg env m) (f : Val) :
    ∀ (xs : List Val) (acc : Val) {σ : RSt} {π : PSt}, Rel env A σ π → ∀ (r : Val) (σ' : RSt), foldFn cfg N f acc xs σ = .ok (r, σ') →
      ∃ π', foldPy cfg N f acc xs π = .ok (r, π') ∧ Rel env A σ' π'
  | [], acc, σ, π, h, r, σ', hr => by
      simp [foldFn] at hr; obtain ⟨h1, h2⟩ := hr; subst h1; subst h2
      exact ⟨π, by simp [foldPy], h⟩
  | x :: xs, acc, σ, π, h, r, σ', hr => by
      simp only [foldFn] at hr
      cases ha : applyFn cfg N f [acc, x] σ with
      | error e => simp [ha] at hr
      | ok r1 =>
        obtain ⟨y, σ1⟩ := r1
        simp only [ha, R_ok_bind] at hr
        obtain ⟨π1, hp1, hR1⟩ := sim_applyFn' cfg N hsim h f [acc, x] y σ1 ha
        obtain ⟨π2, hp2, hR2⟩ := sim_foldFn cfg N hsim f xs y hR1 r σ' hr
        exact ⟨π2, by simp [foldPy, hp1, hp2], hR2⟩

theorem sim_scanFn (cfg : Cfg) (N : Nat) (hsim : ∀ m, N = m + 1 → SimAt cfg env m) (f : Val) :
    ∀ (xs : List Val) (acc : Val) {σ : RSt} {π : PSt}, Rel env A σ π → ∀ (ys : List Val) (σ' : RSt), scanFn cfg N f acc xs σ = .ok (ys, σ') →
      ∃ π', scanPy cfg N f acc xs π = .ok (ys, π') ∧ Rel env A σ' π'
  | [], acc, σ, π, h, ys, σ', hr => by
      simp [scanFn] at hr; obtain ⟨h1, h2⟩ := hr; subst h1; subst h2
      exact ⟨π, by simp [scanPy], h⟩
  | x :: xs, acc, σ, π, h, ys, σ', hr => by
      simp only [scanFn] at hr
      cases ha : applyFn cfg N f [acc, x] σ with
      | error e => simp [ha] at hr
      | ok r1 =>
        obtain ⟨y, σ1⟩ := r1
        simp only [ha, R_ok_bind] at hr
        obtain ⟨π1, hp1, hR1⟩ := sim_applyFn' cfg N hsim h f [acc, x] y σ1 ha
        cases hm : scanFn cfg N f y xs σ1 with
        | error e => simp [hm] at hr
        | ok r2 =>
          obtain ⟨ys2, σ2⟩ := r2
          simp [hm] at hr; obtain ⟨h1, h2⟩ := hr; subst h1; subst h2
          obtain ⟨π2, hp2, hR2⟩ := sim_scanFn cfg N hsim f xs y hR1 ys2 σ2 hm
          exact ⟨π2, by simp [scanPy, hp1, hp2], hR2⟩

/-! ### the wrapped operand and `function_X = pop(stack, 1, ctx)` -/

/-- `sim_lambdaTemplate`, also saying which Python variables it touches -/
theorem sim_lambdaTemplate_vars {σ : RSt} {π : PSt} (cfg : Cfg) (n : Nat) (h : Rel env A σ π) (idc : Str) (arE : PyExpr) (a : Int)
    (ha : ArE arE a) (body : List Structure) (B : List PyStmt) (hB : IsTr env body B) (hfrag : fragL env.elements body = true)
    (sh : List Str) :
    ∃ π', execPL cfg n (lambdaTemplate idc arE B) π = .ok (.normal, π') ∧
      Rel env A { σ with fns := σ.fns ++ [⟨a, Option.none, body, sh, true⟩], stack := .fn σ.fns.length :: σ.stack } π' ∧
      (∀ key, key ≠ ("_lambda_", idc) → key ≠ ("stack", []) → π'.getVar key = π.getVar key) := by
  let pf1 : PFn := { params := lambdaParams, body := lambdaPrologue arE ++ B ++ lambdaEpilogue, arity := some (.int a) }
  have hlr : LamRel env ⟨a, Option.none, body, sh, true⟩ pf1 :=
    ⟨rfl, ⟨arE, B, rfl, ha, hB⟩, rfl, rfl, hfrag⟩
  have hR1 := (h.addFn ⟨a, Option.none, body, sh, true⟩ pf1 (fun _ => hlr))
  have hR2 : Rel env A { σ with fns := σ.fns ++ [⟨a, Option.none, body, sh, true⟩] }
      (({ π with fns := π.fns ++ [pf1] } : PSt).setVar ("_lambda_", idc) (.fn π.fns.length)) := by
    apply hR1.setVarFrame
    · intro he; injection he with h1 _; exact absurd h1 (by decide)
    · intro x _ _ he; injection he with h1 _; exact absurd h1 (by decide)
    · intro f hf he; injection he with h1 _; subst h1; exact hf (by decide)
    · intro he; injection he with h1 _; exact absurd h1 (by decide)
  have hR3 := hR2.setStack (.fn σ.fns.length :: σ.stack)
  refine ⟨_, ?_, hR3, ?_⟩
  · let pf0 : PFn := { params := lambdaParams, body := lambdaPrologue arE ++ B ++ lambdaEpilogue }
    have s1 : execPS cfg n (.defP "_lambda_" idc lambdaParams (lambdaPrologue arE ++ B ++ lambdaEpilogue)) π =
        .ok (.normal, ({ π with fns := π.fns ++ [pf0] } : PSt).setVar ("_lambda_", idc) (.fn π.fns.length)) := by
      simp [execPS, pf0]
    have s2 : execPS cfg n (assign1 (.attr (.pname "_lambda_" idc) "arity") arE)
        (({ π with fns := π.fns ++ [pf0] } : PSt).setVar ("_lambda_", idc) (.fn π.fns.length)) =
        .ok (.normal, ({ π with fns := π.fns ++ [pf1] } : PSt).setVar ("_lambda_", idc) (.fn π.fns.length)) := by
      simp only [assign1, execPS, eval_arE cfg n _ arE a ha, R_ok_bind, assignTo, nameKey, getVar_setVar_eq, setVar_fns,
        getElem?_length_append, ↓reduceIte, set_length_append, setVar_fns_comm]
      rfl
    have s3 := (exec_push cfg n (.pname "_lambda_" idc) (.fn π.fns.length)
      (π := ({ π with fns := π.fns ++ [pf1] } : PSt).setVar ("_lambda_", idc) (.fn π.fns.length))
      (by simp [evalE, getVar_setVar_eq]) hR2).1
    simp only [lambdaTemplate, execPL_cons, s1, s2]
    simp only [h.fnsLen] at s3 ⊢
    rw [s3]; simp [execPL]
  · intro key hk1 hk2
    rw [getVar_setVar_ne _ _ _ _ hk2, getVar_setVar_ne _ _ _ _ hk1]
    rfl

/-- the operand's wrapper and `function_X = pop(stack, 1, ctx)`: the function object lands in the variable, the
    stack and the input scopes are as before -/
theorem sim_wrapper {σ : RSt} {π : PSt} (cfg : Cfg) (n : Nat) (h : Rel env A σ π) (fname : String) (hj : fname ∈ junkNames)
    (hna : fname ≠ "arg_stack") (idc : Str) (arE : PyExpr) (a : Int)
    (ha : ArE arE a) (body : List Structure) (B : List PyStmt) (hB : IsTr env body B) (hfrag : fragL env.elements body = true)
    (sh : List Str) :
    ∃ π', execPL cfg n (lambdaTemplate idc arE B ++ [assign1 (nm fname) pop1pos]) π = .ok (.normal, π') ∧
      Rel env A { σ with fns := σ.fns ++ [⟨a, Option.none, body, sh, true⟩] } π' ∧
      π'.getVar (fname, []) = some (.fn σ.fns.length) ∧
      (∀ key, key ≠ ("_lambda_", idc) → key ≠ ("stack", []) → key ≠ (fname, []) → π'.getVar key = π.getVar key) := by
  obtain ⟨π1, he1, hR1, hv1⟩ := sim_lambdaTemplate_vars cfg n h idc arE a ha body B hB hfrag sh
  have hpop := eval_pop1pos cfg n hR1
  have hp1 : ({ σ with fns := σ.fns ++ [⟨a, Option.none, body, sh, true⟩], stack := .fn σ.fns.length :: σ.stack } : RSt).pop1 =
      (.fn σ.fns.length, { σ with fns := σ.fns ++ [⟨a, Option.none, body, sh, true⟩] }) := by
    simp [RSt.pop1, popN]
  rw [hp1] at hpop
  have hR2 := rel_pop1 hR1
  rw [hp1] at hR2
  have hR3 := hR2.setJunk fname (.fn σ.fns.length) hj hna
  refine ⟨_, ?_, hR3, getVar_setVar_eq _ _ _, ?_⟩
  · rw [execPL_append, he1]
    simp only [execPL_cons, assign1, nm, execPS, hpop, R_ok_bind, assignTo, execPL]
  · intro key hk1 hk2 hk3
    rw [getVar_setVar_ne _ _ _ _ hk3]
    unfold popPi
    rw [getVar_setVar_ne _ _ _ _ hk2]
    exact hv1 key hk1 hk2

/-! ### pieces the modifier templates are made of -/

@[simp] theorem specialOf_safe_apply : specialOf "safe_apply" = some .safe_apply := by decide
@[simp] theorem specialOf_vectorise : specialOf "vectorise" = some .vectorise := by decide
@[simp] theorem specialOf_vy_reduce : specialOf "vy_reduce" = some .vy_reduce := by decide
@[simp] theorem specialOf_scanl : specialOf "scanl" = some .scanl := by decide

/-- the Python variable `fname` holds the function object `id`, whose `arity` attribute is `ar` -/
structure FnVar (π : PSt) (fname : String) (id : Nat) (ar : Int) : Prop where
  var : π.getVar (fname, []) = some (.fn id)
  arity : ∃ pf, π.fns[id]? = some pf ∧ pf.arity = some (.int ar)

theorem FnVar.of_rel {σ : RSt} {π : PSt} (h : Rel env A σ π) (fname : String) (id : Nat) (rf : RFn)
    (hv : π.getVar (fname, []) = some (.fn id)) (hid : σ.fns[id]? = some rf) (hl : rf.live = true) : FnVar π fname id rf.arity := by
  obtain ⟨pf, hp, hlr⟩ := h.lams id rf hid hl
  exact ⟨hv, pf, hp, hlr.arity⟩

theorem FnVar.mono {π π' : PSt} {fname : String} {id : Nat} {ar : Int} (h : FnVar π fname id ar)
    (hv : π'.getVar (fname, []) = π.getVar (fname, [])) (hf : π'.fns = π.fns) : FnVar π' fname id ar :=
  ⟨by rw [hv]; exact h.var, by rw [hf]; exact h.arity⟩

theorem eval_fn_arity (cfg : Cfg) (n : Nat) {π : PSt} {fname : String} {id : Nat} {ar : Int} (h : FnVar π fname id ar)
    (hc : fname ≠ "ctx" := by decide) :
    evalE cfg n (.attr (.name fname) "arity") π = .ok (.int ar, π) := by
  obtain ⟨pf, hp, ha⟩ := h.arity
  have : isCtxName (.name fname) = false := by simp [isCtxName, hc]
  simp [evalE, this, h.var, hp, ha]

/-- `var = wrapify(stack, <count>, …)` -/
theorem exec_wrapify_stack {σ : RSt} {π : PSt} (cfg : Cfg) (n : Nat) (h : Rel env A σ π) (var : String) (hj : var ∈ junkNames)
    (hna : var ≠ "arg_stack") (ke : PyExpr) (k : Nat) (hke : evalE cfg n ke π = .ok (.int k, π))
    (rest : List PyExpr) (kw : List (String × PyExpr)) :
    execPS cfg n (.assign [.name var] (.call (.name "wrapify") (.name "stack" :: ke :: rest) kw)) π =
      .ok (.normal, (popPi σ π k).setVar (var, []) (.list (σ.popK k).1)) ∧
    Rel env A (σ.popK k).2 ((popPi σ π k).setVar (var, []) (.list (σ.popK k).1)) := by
  have hw := eval_wrapify_var cfg n π π "stack" σ.stack ke k hke h.stack h.retain rest kw
  refine ⟨?_, (rel_popPi h k).setJunk var _ hj hna⟩
  simp only [execPS, hw, R_ok_bind, assignTo, h.inputs]
  rfl

/-- `*(var[::-1])` as the only further arguments -/
theorem evalArgs_starred_rev (cfg : Cfg) (n : Nat) (π : PSt) (var : String) (xs : List Val)
    (hv : π.getVar (var, []) = some (.list xs)) :
    evalArgs cfg n [.starred (.subscript (.name var) (.slice Option.none Option.none (some (.unary "USub" (.cint 1)))))] π =
      .ok (xs.reverse, π) := by
  simp [evalArgs, evalE, hv, subscriptV, asList]

/-- `safe_apply(function_X, *(arguments[::-1]), ctx=ctx)` -/
theorem eval_safe_apply {σ : RSt} {π : PSt} (cfg : Cfg) (N : Nat) (hsim : ∀ m, N = m + 1 → SimAt cfg env m) (h : Rel env A σ π)
    (fname : String) (id : Nat) (hv : π.getVar (fname, []) = some (.fn id)) (var : String) (xs : List Val)
    (hvar : π.getVar (var, []) = some (.list xs)) (r : Val) (σ' : RSt) (hr : applyFn cfg N (.fn id) xs.reverse σ = .ok (r, σ')) :
    ∃ π', evalE cfg N (.call (.name "safe_apply") [.name fname,
        .starred (.subscript (.name var) (.slice Option.none Option.none (some (.unary "USub" (.cint 1)))))] [("ctx", .name "ctx")]) π = .ok (r, π') ∧
      Rel env A σ' π' ∧ SameVars π π' := by
  obtain ⟨π', hp, hR⟩ := sim_applyFn' cfg N hsim h (.fn id) xs.reverse r σ' hr
  refine ⟨π', ?_, hR, applyPy_same cfg N _ _ π π' r hp⟩
  simp only [evalE, specialOf_safe_apply, evalSpecial, hv, R_ok_bind, evalArgs_starred_rev cfg N π var xs hvar, hp]

/-- `&`: apply to the register -/
theorem sim_mod38 {σ : RSt} {π : PSt} (cfg : Cfg) (N : Nat) (hsim : ∀ m, N = m + 1 → SimAt cfg env m) (h : Rel env A σ π)
    (id : Nat) (ar : Int) (hfa : FnVar π "function_A" id ar) (sg : Sig) (σ' : RSt)
    (hr : execMon cfg N 38 id ar σ = .ok (sg, σ')) :
    ∃ π', execPL cfg N tmplM38 π = .ok (sigP sg, π') ∧ Post env A sg σ' π' := by
  unfold execMon at hr
  simp only [show (38 : Nat) ≠ 118 by decide, ↓reduceIte] at hr
  cases hk : toNatArity ar with
  | error e => simp [hk] at hr
  | ok k =>
    simp only [hk, R_ok_bind] at hr
    have hkk : ar = (k : Int) := by
      unfold toNatArity at hk
      split at hk
      · simp at hk
      · simp at hk; omega
    cases ha : applyFn cfg N (.fn id) ((σ.push σ.register).popK k).1.reverse ((σ.push σ.register).popK k).2 with
    | error e => simp [ha] at hr
    | ok r2 =>
      obtain ⟨r, σ2⟩ := r2
      simp [ha] at hr; obtain ⟨h1, h2⟩ := hr; subst h1; subst h2
      -- stack.append(ctx.register)
      obtain ⟨s1, hR1⟩ := exec_push cfg N (.attr (.name "ctx") "register") σ.register (π := π) (π1 := π)
        (by simp [evalE, isCtxName, h.register]) h
      have hfa1 : FnVar (π.setVar ("stack", []) (.list (σ.register :: σ.stack).reverse)) "function_A" id ar :=
        hfa.mono (getVar_setVar_ne _ _ _ _ (by decide)) (by simp)
      -- arguments = wrapify(stack, function_A.arity, ctx=ctx)
      have hke := eval_fn_arity cfg N hfa1
      rw [hkk] at hke
      obtain ⟨s2, hR2⟩ := exec_wrapify_stack cfg N hR1 "arguments" (by decide) (by decide) _ k hke [] [("ctx", .name "ctx")]
      -- ctx.register = safe_apply(function_A, *(arguments[::-1]), ctx=ctx)
      have hv3 : ((popPi (σ.push σ.register) (π.setVar ("stack", []) (.list (σ.register :: σ.stack).reverse)) k).setVar ("arguments", [])
          (.list ((σ.push σ.register).popK k).1)).getVar ("function_A", []) = some (.fn id) := by
        rw [getVar_setVar_ne _ _ _ _ (by decide)]
        unfold popPi
        rw [getVar_setVar_ne _ _ _ _ (by decide)]
        exact hfa1.var
      obtain ⟨π3, hev, hR3, _⟩ := eval_safe_apply cfg N hsim hR2 "function_A" id hv3 "arguments" _ (getVar_setVar_eq _ _ _) r σ2 ha
      refine ⟨{ π3 with register := r }, ?_, by simpa [Post] using hR3.setRegister r⟩
      simp only [tmplM38, execPL_cons]
      simp only [push, stackE] at s1
      rw [s1]
      simp only
      rw [s2]
      simp only [execPS, hev, R_ok_bind, assignTo, execPL, sigP]


theorem toNatArity_ok {ar : Int} {k : Nat} (hk : toNatArity ar = .ok k) : ar = (k : Int) := by
  unfold toNatArity at hk
  split at hk
  · simp at hk
  · simp at hk; omega

/-- the function variable after `var = wrapify(stack, …)` -/
theorem getVar_after_wrapify {σ : RSt} {π : PSt} (k : Nat) (var fname : String) (v : Val) (hne : (fname, ([] : List Nat)) ≠ (var, []))
    (hns : (fname, ([] : List Nat)) ≠ ("stack", [])) :
    ((popPi σ π k).setVar (var, []) v).getVar (fname, []) = π.getVar (fname, []) := by
  rw [getVar_setVar_ne _ _ _ _ hne]
  unfold popPi
  rw [getVar_setVar_ne _ _ _ _ hns]
  rfl

/-- `v`: vectorise -/
theorem sim_mod118 {σ : RSt} {π : PSt} (cfg : Cfg) (N : Nat) (hsim : ∀ m, N = m + 1 → SimAt cfg env m) (h : Rel env A σ π)
    (id : Nat) (ar : Int) (hfa : FnVar π "function_A" id ar) (sg : Sig) (σ' : RSt)
    (hr : execMon cfg N 118 id ar σ = .ok (sg, σ')) :
    ∃ π', execPL cfg N tmplM118 π = .ok (sigP sg, π') ∧ Post env A sg σ' π' := by
  unfold execMon at hr
  simp only [↓reduceIte] at hr
  cases hk : toNatArity ar with
  | error e => simp [hk] at hr
  | ok k =>
    simp only [hk, R_ok_bind] at hr
    have hkk := toNatArity_ok hk
    have hke := eval_fn_arity cfg N hfa
    rw [hkk] at hke
    obtain ⟨s1, hR1⟩ := exec_wrapify_stack cfg N h "arguments" (by decide) (by decide) _ k hke [] [("ctx", .name "ctx")]
    have hv : ((popPi σ π k).setVar ("arguments", []) (.list (σ.popK k).1)).getVar ("function_A", []) = some (.fn id) := by
      rw [getVar_after_wrapify k "arguments" "function_A" _ (by decide) (by decide)]; exact hfa.var
    have hargs := evalArgs_starred_rev cfg N ((popPi σ π k).setVar ("arguments", []) (.list (σ.popK k).1)) "arguments" _ (getVar_setVar_eq _ _ _)
    simp only [tmplM118, execPL_cons, s1]
    -- the value of `vectorise(function_A, *(arguments[::-1]), explicit=True, ctx=ctx)`
    suffices hev : ∃ ys σ2 π2, sg = .normal ∧ σ' = σ2.push (.list ys) ∧
        evalE cfg N (.call (.name "vectorise") [.name "function_A",
          .starred (.subscript (.name "arguments") (.slice Option.none Option.none (some (.unary "USub" (.cint 1)))))]
          [("explicit", .cbool true), ("ctx", .name "ctx")]) ((popPi σ π k).setVar ("arguments", []) (.list (σ.popK k).1)) = .ok (.list ys, π2) ∧
        Rel env A σ2 π2 by
      obtain ⟨ys, σ2, π2, h1, h2, hev, hR2⟩ := hev
      subst h1; subst h2
      obtain ⟨s2, hR3⟩ := exec_push cfg N _ _ hev hR2
      simp only [push, stackE] at s2
      exact ⟨_, by simp only [s2, execPL, sigP], hR3⟩
    simp only [evalE, specialOf_vectorise, evalSpecial, hv, R_ok_bind, hargs]
    generalize hpr : (σ.popK k).1.reverse = pr at hr ⊢
    match pr, hr with
    | [], hr => simp at hr
    | [a], hr =>
      simp only at hr ⊢
      cases hx : iterRange cfg a with
      | error e => simp [hx] at hr
      | ok xs =>
        simp only [hx, R_ok_bind] at hr ⊢
        cases hm : mapFn cfg N (.fn id) xs (σ.popK k).2 with
        | error e => cases e <;> simp [hm, lazyErr] at hr
        | ok r2 =>
          obtain ⟨ys, σ2⟩ := r2
          simp [hm, lazyErr] at hr; obtain ⟨h1, h2⟩ := hr
          obtain ⟨π2, hp, hR2⟩ := sim_mapFn cfg N hsim (.fn id) xs hR1 ys σ2 hm
          exact ⟨ys, σ2, π2, h1.symm, h2.symm, by simp [hp, lazyErr], hR2⟩
    | [a, b], hr =>
      simp only at hr ⊢
      generalize vecPairs a b = pairsR at hr ⊢
      cases pairsR with
      | error e => simp at hr
      | ok pairs =>
        simp only [R_ok_bind] at hr ⊢
        cases hm : mapFn2 cfg N (.fn id) pairs (σ.popK k).2 with
        | error e => cases e <;> simp [hm, lazyErr] at hr
        | ok r2 =>
          obtain ⟨ys, σ2⟩ := r2
          simp [hm, lazyErr] at hr; obtain ⟨h1, h2⟩ := hr
          obtain ⟨π2, hp, hR2⟩ := sim_mapFn2 cfg N hsim (.fn id) pairs hR1 ys σ2 hm
          exact ⟨ys, σ2, π2, h1.symm, h2.symm, by simp [hp, lazyErr], hR2⟩
    | _ :: _ :: _ :: _, hr => simp at hr

/-! ### `ƒ` and `ɖ`: `function_A.stored_arity = 2`, then a fold / a scan -/

theorem getElem?_set' {α} (l : List α) (i j : Nat) (a : α) :
    (l.set i a)[j]? = if i = j then (if i < l.length then some a else Option.none) else l[j]? := by
  by_cases hij : i = j
  · subst hij
    by_cases hlt : i < l.length
    · simp [hlt]
    · simp [hlt]
  · simp [hij, List.getElem?_set_ne hij]

/-- setting `stored_arity` on a live lambda, on both sides -/
theorem Rel.setStored {σ : RSt} {π : PSt} (h : Rel env A σ π) (id : Nat) (rf : RFn) (pf : PFn) (hid : σ.fns[id]? = some rf)
    (hpf : π.fns[id]? = some pf) (hlr : LamRel env rf pf) (v : Int) :
    Rel env A { σ with fns := σ.fns.set id { rf with stored := some v } }
      { π with fns := π.fns.set id { pf with stored := some (.int v) } } := by
  have hlt : id < σ.fns.length := by
    by_cases hlt : id < σ.fns.length
    · exact hlt
    · rw [List.getElem?_eq_none (by omega)] at hid; simp at hid
  have hltp : id < π.fns.length := by rw [h.fnsLen]; exact hlt
  refine ⟨h.depth, h.params0, h.stack, h.ctxVals, h.inputs, h.register, h.ghost, h.out, h.printed, h.retain, h.useTop, h.stacks,
    h.fnStack, h.gvars, h.lvars, h.clean, by simp [h.fnsLen], ?_, h.argVar, h.gArg, ?_⟩
  · intro id' rf' hid' hlive
    simp only at hid' ⊢
    rw [getElem?_set'] at hid' ⊢
    by_cases he : id = id'
    · subst he
      simp only [↓reduceIte, hlt, hltp] at hid' ⊢
      injection hid' with hid'; subst hid'
      exact ⟨_, rfl, ⟨hlr.params, hlr.body, hlr.arity, rfl, hlr.frag⟩⟩
    · simp only [he, ↓reduceIte] at hid' ⊢
      exact h.lams id' rf' hid' hlive
  · intro name ps body hf
    obtain ⟨h1, h2, h3, id', pf', h4, h5, h6, h7⟩ := h.funcs name ps body hf
    by_cases he : id = id'
    · subst he
      rw [hpf] at h5; injection h5 with h5; subst h5
      refine ⟨h1, h2, h3, id, { pf with stored := some (.int v) }, h4, ?_, h6, h7⟩
      simp only; rw [getElem?_set']; simp [hltp]
    · refine ⟨h1, h2, h3, id', pf', h4, ?_, h6, h7⟩
      simp only; rw [getElem?_set']; simp [he, h5]

/-- `function_A.stored_arity = 2` -/
theorem exec_set_stored {σ : RSt} {π : PSt} (cfg : Cfg) (n : Nat) (h : Rel env A σ π) (id : Nat) (rf : RFn)
    (hid : σ.fns[id]? = some rf) (hl : rf.live = true) (hv : π.getVar ("function_A", []) = some (.fn id)) :
    ∃ π', execPS cfg n (.assign [.attr (.name "function_A") "stored_arity"] (.cint 2)) π = .ok (.normal, π') ∧
      Rel env A { σ with fns := σ.fns.set id { (σ.fns.getD id ⟨0, Option.none, [], [], true⟩) with stored := some 2 } } π' ∧
      π'.getVar ("function_A", []) = some (.fn id) := by
  obtain ⟨pf, hpf, hlr⟩ := h.lams id rf hid hl
  have hgd : σ.fns.getD id ⟨0, Option.none, [], [], true⟩ = rf := by
    simp [List.getD, hid]
  rw [hgd]
  refine ⟨_, ?_, h.setStored id rf pf hid hpf hlr 2, hv⟩
  simp [execPS, evalE, assignTo, nameKey, hv, hpf]

theorem iterDigits_notFn {x : Val} {xs : List Val} (h : iterDigits x = .ok xs) : isFnVal x = false := by
  cases x <;> simp_all [iterDigits, isFnVal]

theorem evalE_special (cfg : Cfg) (n : Nat) (hn : String) (args : List PyExpr) (kw : List (String × PyExpr)) (π : PSt) (sp : Special)
    (hs : specialOf hn = some sp) : evalE cfg n (.call (.name hn) args kw) π = evalSpecial cfg n sp args kw π := by
  simp [evalE, hs]

/-- `ƒ`: reduce -/
theorem sim_mod402 {σ : RSt} {π : PSt} (cfg : Cfg) (N : Nat) (hsim : ∀ m, N = m + 1 → SimAt cfg env m) (h : Rel env A σ π)
    (id : Nat) (rf : RFn) (hid : σ.fns[id]? = some rf) (hl : rf.live = true) (hv : π.getVar ("function_A", []) = some (.fn id))
    (ar : Int) (sg : Sig) (σ' : RSt) (hr : execMon cfg N 402 id ar σ = .ok (sg, σ')) :
    ∃ π', execPL cfg N tmplM402 π = .ok (sigP sg, π') ∧ Post env A sg σ' π' := by
  unfold execMon at hr
  simp only [show (402 : Nat) ≠ 118 by decide, show (402 : Nat) ≠ 38 by decide, show (402 : Nat) ≠ 126 by decide,
    show (402 : Nat) ≠ 223 by decide, ↓reduceIte] at hr
  obtain ⟨π1, s1, hR1, hv1⟩ := exec_set_stored cfg N h id rf hid hl hv
  generalize ({ σ with fns := σ.fns.set id { (σ.fns.getD id ⟨0, Option.none, [], [], true⟩) with stored := some 2 } } : RSt) = σ0 at hr hR1
  have hpop := eval_pop1pos cfg N hR1
  have hR2 := rel_pop1 hR1
  have hv2 : (popPi σ0 π1 1).getVar ("function_A", []) = some (.fn id) := by
    unfold popPi; rw [getVar_setVar_ne _ _ _ _ (by decide)]; exact hv1
  simp only [tmplM402, execPL_cons, s1]
  suffices hev : ∃ z σ2 π2, sg = .normal ∧ σ' = σ2.push z ∧
      evalE cfg N (.call (.name "vy_reduce") [.name "function_A", .call (.name "pop") [.name "stack", .cint 1, .name "ctx"] [], .name "ctx"] []) π1 =
        .ok (z, π2) ∧ Rel env A σ2 π2 by
    obtain ⟨z, σ2, π2, h1, h2, hev, hR3⟩ := hev
    subst h1; subst h2
    obtain ⟨s2, hR4⟩ := exec_push cfg N _ _ hev hR3
    simp only [push, stackE] at s2
    exact ⟨_, by simp only [s2, execPL, sigP], hR4⟩
  simp only [pop1pos, stackE, ctxE] at hpop
  rw [evalE_special cfg N "vy_reduce" _ _ _ .vy_reduce (by decide)]
  simp only [evalSpecial, evalE_name cfg N "function_A" π1 _ hv1, hpop, R_ok_bind]
  cases hx : iterDigits σ0.pop1.1 with
  | error e => simp [hx] at hr
  | ok xs =>
    have hnf := iterDigits_notFn hx
    simp only [hx, R_ok_bind] at hr
    simp only [hnf, show isFnVal (Val.fn id) = true from rfl, Bool.true_or, Bool.false_eq_true, ↓reduceIte, hx, R_ok_bind]
    cases xs with
    | nil =>
      simp at hr; obtain ⟨h1, h2⟩ := hr
      exact ⟨.int 0, σ0.pop1.2, _, h1.symm, h2.symm, rfl, hR2⟩
    | cons y r =>
      simp only at hr ⊢
      cases hf : foldFn cfg N (.fn id) y r σ0.pop1.2 with
      | error e => simp [hf] at hr
      | ok r2 =>
        obtain ⟨z, σ2⟩ := r2
        simp [hf] at hr; obtain ⟨h1, h2⟩ := hr
        obtain ⟨π2, hp, hR3⟩ := sim_foldFn cfg N hsim (.fn id) r y hR2 z σ2 hf
        exact ⟨z, σ2, π2, h1.symm, h2.symm, hp, hR3⟩

/-- `ɖ`: cumulative reduce -/
theorem sim_mod598 {σ : RSt} {π : PSt} (cfg : Cfg) (N : Nat) (hsim : ∀ m, N = m + 1 → SimAt cfg env m) (h : Rel env A σ π)
    (id : Nat) (rf : RFn) (hid : σ.fns[id]? = some rf) (hl : rf.live = true) (hv : π.getVar ("function_A", []) = some (.fn id))
    (ar : Int) (sg : Sig) (σ' : RSt) (hr : execMon cfg N 598 id ar σ = .ok (sg, σ')) :
    ∃ π', execPL cfg N tmplM598 π = .ok (sigP sg, π') ∧ Post env A sg σ' π' := by
  unfold execMon at hr
  simp only [show (598 : Nat) ≠ 118 by decide, show (598 : Nat) ≠ 38 by decide, show (598 : Nat) ≠ 126 by decide,
    show (598 : Nat) ≠ 223 by decide, show (598 : Nat) ≠ 402 by decide, ↓reduceIte] at hr
  obtain ⟨π1, s1, hR1, hv1⟩ := exec_set_stored cfg N h id rf hid hl hv
  generalize ({ σ with fns := σ.fns.set id { (σ.fns.getD id ⟨0, Option.none, [], [], true⟩) with stored := some 2 } } : RSt) = σ0 at hr hR1
  have hpop := eval_pop1pos cfg N hR1
  have hR2 := rel_pop1 hR1
  simp only [tmplM598, execPL_cons, s1]
  suffices hev : ∃ z σ2 π2, sg = .normal ∧ σ' = σ2.push z ∧
      evalE cfg N (.call (.name "scanl") [.name "function_A", .call (.name "pop") [.name "stack", .cint 1, .name "ctx"] [], .name "ctx"] []) π1 =
        .ok (z, π2) ∧ Rel env A σ2 π2 by
    obtain ⟨z, σ2, π2, h1, h2, hev, hR3⟩ := hev
    subst h1; subst h2
    obtain ⟨s2, hR4⟩ := exec_push cfg N _ _ hev hR3
    simp only [push, stackE] at s2
    exact ⟨_, by simp only [s2, execPL, sigP], hR4⟩
  simp only [pop1pos, stackE, ctxE] at hpop
  rw [evalE_special cfg N "scanl" _ _ _ .scanl (by decide)]
  simp only [evalSpecial, evalE_name cfg N "function_A" π1 _ hv1, hpop, R_ok_bind]
  cases hx : iterDigits σ0.pop1.1 with
  | error e => simp [hx] at hr
  | ok xs =>
    simp only [hx, R_ok_bind] at hr ⊢
    cases xs with
    | nil =>
      simp at hr; obtain ⟨h1, h2⟩ := hr
      exact ⟨.list [], σ0.pop1.2, _, h1.symm, h2.symm, rfl, hR2⟩
    | cons y r =>
      simp only at hr ⊢
      cases hf : scanFn cfg N (.fn id) y r σ0.pop1.2 with
      | error e => cases e <;> simp [hf, lazyErr] at hr
      | ok r2 =>
        obtain ⟨zs, σ2⟩ := r2
        simp [hf, lazyErr] at hr; obtain ⟨h1, h2⟩ := hr
        obtain ⟨π2, hp, hR3⟩ := sim_scanFn cfg N hsim (.fn id) r y hR2 zs σ2 hf
        exact ⟨.list zs, σ2, π2, h1.symm, h2.symm, by simp [hp, lazyErr], hR3⟩

/-! ### `ß`: conditional call -/

/-- `function_call(stack, ctx)` with a function value on top (the computation inside `sim_core_call`) -/
theorem eval_function_call {σ σ3 : RSt} {π : PSt} (cfg : Cfg) (m : Nat) (hsim : SimAt cfg env m) (h : Rel env A σ π) (id : Nat)
    (hf : σ.pop1.1 = .fn id) (res : Val) (rest : List Val)
    (hc : callLam cfg (m + 1) id σ.pop1.2.stack Option.none σ.pop1.2 = .ok (res, rest, σ3)) :
    ∃ π', evalE cfg (m + 1) (.call (.name "function_call") [.name "stack", .name "ctx"] []) π = .ok (.none, π') ∧
      Rel env A { σ3 with stack := res :: rest } π' := by
  have hR1 := rel_pop1 h
  obtain ⟨π3, hcall, hR3⟩ := sim_callLam cfg m hsim hR1 id σ.pop1.2.stack Option.none true res rest σ3 (by simpa using hc)
  have hR4 := hR3.setStack (res :: rest)
  rw [List.reverse_cons] at hR4
  refine ⟨_, ?_, hR4⟩
  have hpn := popK_one σ
  have hp1 : (popN 1 σ.stack σ.inputs).1 = [Val.fn id] := by
    have := hpn.1; simp only [RSt.popK] at this; rw [this, hf]
  have hp2 : (popN 1 σ.stack σ.inputs).2.1 = σ.pop1.2.stack := by
    have := hpn.2; simp [RSt.popK] at this; rw [← this]
  have hpi : popPi σ π 1 = ({ π with inputs := (popN 1 σ.stack σ.inputs).2.2 } : PSt).setVar ("stack", []) (.list σ.pop1.2.stack.reverse) := by
    simp [popPi, hp2]
  have hpp : popPy 1 σ.stack.reverse π.inputs π.retain =
      ([Val.fn id], σ.pop1.2.stack.reverse, (popN 1 σ.stack σ.inputs).2.2) := by
    rw [h.retain, h.inputs, popPy_rev, hp1, hp2]
  simp only [lamPos] at hcall
  rw [hpi] at hcall
  simp only [evalE, specialOf_function_call, evalSpecial, h.getStack, hpp, hcall, R_ok_bind]

theorem pop1_push (σ : RSt) (v : Val) : (σ.push v).pop1 = (v, σ) := by
  simp [RSt.pop1, RSt.push, popN]

/-- `ß`: call the operand if the top of the stack is truthy -/
theorem sim_mod223 {σ : RSt} {π : PSt} (cfg : Cfg) (N : Nat) (hsim : ∀ m, N = m + 1 → SimAt cfg env m) (h : Rel env A σ π)
    (id : Nat) (hv : π.getVar ("function_A", []) = some (.fn id))
    (ar : Int) (sg : Sig) (σ' : RSt) (hr : execMon cfg N 223 id ar σ = .ok (sg, σ')) :
    ∃ π', execPL cfg N tmplM223 π = .ok (sigP sg, π') ∧ Post env A sg σ' π' := by
  unfold execMon at hr
  simp only [show (223 : Nat) ≠ 118 by decide, show (223 : Nat) ≠ 38 by decide, show (223 : Nat) ≠ 126 by decide, ↓reduceIte] at hr
  have hpop := eval_pop1pos cfg N h
  have hR1 := rel_pop1 h
  have hv1 : (popPi σ π 1).getVar ("function_A", []) = some (.fn id) := by
    unfold popPi; rw [getVar_setVar_ne _ _ _ _ (by decide)]; exact hv
  have hcond : evalE cfg N (.call (.name "boolify") [.call (.name "pop") [.name "stack", .cint 1, .name "ctx"] [], .name "ctx"] []) π =
      .ok (.int (b2i (truthy σ.pop1.1)), popPi σ π 1) := by
    simp only [pop1pos, stackE, ctxE] at hpop
    rw [evalE_special cfg N "boolify" _ _ _ .boolify (by decide)]
    simp only [evalSpecial, hpop, R_ok_bind]
  simp only [tmplM223, execPL_cons]
  rw [exec_ifS cfg N _ _ _ _ _ _ hcond]
  by_cases ht : truthy σ.pop1.1 = true
  · simp only [ht, ↓reduceIte] at hr
    simp only [ht, b2i, pyTruth, show ((1 : Int) != 0) = true by decide, ↓reduceIte]
    cases N with
    | zero => simp [callLam] at hr
    | succ m =>
      cases hc : callLam cfg (m + 1) id σ.pop1.2.stack Option.none σ.pop1.2 with
      | error e => simp [hc] at hr
      | ok r3 =>
        obtain ⟨res, rest, σ3⟩ := r3
        simp [hc] at hr; obtain ⟨h1, h2⟩ := hr; subst h1; subst h2
        -- stack.append(function_A)
        obtain ⟨s1, hR2⟩ := exec_push cfg (m + 1) (.name "function_A") (.fn id) (evalE_name cfg (m + 1) "function_A" _ _ hv1) hR1
        have hpp := pop1_push σ.pop1.2 (.fn id)
        obtain ⟨π', hev, hR3⟩ := eval_function_call cfg m (hsim m rfl) hR2 id (by rw [hpp]) res rest
          (by rw [hpp]; exact hc)
        refine ⟨π', ?_, by simpa [Post] using hR3⟩
        simp only [push, stackE] at s1
        simp only [execPL_cons, s1, execPS, hev, R_ok_bind, execPL, sigP]
  · have ht' : truthy σ.pop1.1 = false := by simpa using ht
    simp only [ht', Bool.false_eq_true, ↓reduceIte] at hr
    simp at hr; obtain ⟨h1, h2⟩ := hr; subst h1; subst h2
    refine ⟨popPi σ π 1, ?_, by simpa [Post] using hR1⟩
    simp [ht', b2i, pyTruth, execPL, sigP]

/-! ### `~`: apply without popping (arity ≥ 2) / filter (arity 1) -/

theorem iterRange_notFn {cfg : Cfg} {x : Val} {xs : List Val} (h : iterRange cfg x = .ok xs) : isFnVal x = false := by
  cases x <;> simp_all [iterRange, isFnVal]

theorem popPy_rev_retain (k : Nat) (st : List Val) (ins : List (List Val × Nat)) :
    popPy k st.reverse ins true =
      ((popN k st ins).1, (popN k st ins).2.1.reverse ++ (popN k st ins).1.reverse, (popN k st ins).2.2) := by
  simp [popPy]

/-- `ctx.retain_popped = True; arguments = wrapify(stack, function_A.arity, ctx=ctx); ctx.retain_popped = False` -/
theorem exec_retained_wrapify {σ : RSt} {π : PSt} (cfg : Cfg) (n : Nat) (h : Rel env A σ π) (id : Nat) (k : Nat)
    (hfa : FnVar π "function_A" id k) :
    ∃ π', execPL cfg n
        [ .assign [.attr (.name "ctx") "retain_popped"] (.cbool true),
          .assign [.name "arguments"] (.call (.name "wrapify") [.name "stack", .attr (.name "function_A") "arity"] [("ctx", .name "ctx")]),
          .assign [.attr (.name "ctx") "retain_popped"] (.cbool false) ] π = .ok (.normal, π') ∧
      Rel env A { (σ.popK k).2 with stack := (σ.popK k).1 ++ (σ.popK k).2.stack } π' ∧
      π'.getVar ("arguments", []) = some (.list (σ.popK k).1) ∧ π'.getVar ("function_A", []) = some (.fn id) := by
  -- the state the three statements end in, built so that the relation is immediate
  have hRx := ((h.setInputs (popN k σ.stack σ.inputs).2.2).setStack ((popN k σ.stack σ.inputs).1 ++ (popN k σ.stack σ.inputs).2.1)).setJunk
    "arguments" (.list (popN k σ.stack σ.inputs).1) (by decide)
  refine ⟨_, ?_, by simpa [RSt.popK] using hRx, by simp [RSt.popK, getVar_setVar_eq], ?_⟩
  · have hfa1 : FnVar ({ π with retain := true } : PSt) "function_A" id k := hfa.mono rfl rfl
    have hke := eval_fn_arity cfg n hfa1
    have hst : ({ π with retain := true } : PSt).getVar ("stack", []) = some (.list σ.stack.reverse) := h.stack
    have hk : ¬ ((k : Int) < 0) := by omega
    simp only [execPL_cons, execPS, evalE, assignTo, R_ok_bind, b2i, pyTruth, show ((1 : Int) != 0) = true by decide,
      show ((0 : Int) != 0) = false by decide, ↓reduceIte]
    have hw : evalE cfg n (.call (.name "wrapify") [.name "stack", .attr (.name "function_A") "arity"] [("ctx", .name "ctx")])
        ({ π with retain := true } : PSt) =
        .ok (.list (popN k σ.stack σ.inputs).1,
          ({ π with retain := true, inputs := (popN k σ.stack σ.inputs).2.2 } : PSt).setVar ("stack", [])
            (.list ((popN k σ.stack σ.inputs).2.1.reverse ++ (popN k σ.stack σ.inputs).1.reverse))) := by
      rw [evalE_special cfg n "wrapify" _ _ _ .wrapify (by decide)]
      simp only [evalSpecial, hke, R_ok_bind, asNat, hk, ↓reduceIte, Int.toNat_natCast, hst, popPy_rev_retain]
      simp only [h.inputs]
    simp only [evalE] at hw
    rw [hw]
    simp only [R_ok_bind, execPL]
    congr 2
    unfold PSt.setVar
    simp only [h.retain]
    split <;> simp [List.reverse_append]
  · rw [getVar_setVar_ne _ _ _ _ (by decide), getVar_setVar_ne _ _ _ _ (by decide)]
    exact hfa.var

/-- `~` -/
theorem sim_mod126 {σ : RSt} {π : PSt} (cfg : Cfg) (N : Nat) (hsim : ∀ m, N = m + 1 → SimAt cfg env m) (h : Rel env A σ π)
    (id : Nat) (ar : Int) (hfa : FnVar π "function_A" id ar) (sg : Sig) (σ' : RSt)
    (hr : execMon cfg N 126 id ar σ = .ok (sg, σ')) :
    ∃ π', execPL cfg N tmplM126 π = .ok (sigP sg, π') ∧ Post env A sg σ' π' := by
  unfold execMon at hr
  simp only [show (126 : Nat) ≠ 118 by decide, show (126 : Nat) ≠ 38 by decide, ↓reduceIte, List.reverse_reverse] at hr
  have hke := eval_fn_arity cfg N hfa
  have hge : evalE cfg N (.compare (.attr (.name "function_A") "arity") [(.ge, .cint 2)]) π = .ok (.int (b2i (decide (ar ≥ 2))), π) := by
    simp [evalE, hke, cmpVals]
  simp only [tmplM126, execPL_cons]
  rw [exec_ifS cfg N _ _ _ _ _ _ hge]
  by_cases h2 : ar ≥ 2
  · simp only [h2, ↓reduceIte] at hr
    simp only [h2, decide_true, b2i, pyTruth, show ((1 : Int) != 0) = true by decide, ↓reduceIte]
    cases hk : toNatArity ar with
    | error e => simp [hk] at hr
    | ok k =>
      simp only [hk, R_ok_bind] at hr
      have hkk := toNatArity_ok hk
      subst hkk
      cases ha : applyFn cfg N (.fn id) (σ.popK k).1.reverse { (σ.popK k).2 with stack := (σ.popK k).1 ++ (σ.popK k).2.stack } with
      | error e => simp [ha] at hr
      | ok r2 =>
        obtain ⟨r, σ2⟩ := r2
        simp [ha] at hr; obtain ⟨h1, h2'⟩ := hr; subst h1; subst h2'
        obtain ⟨π1, s1, hR1, hva, hvf⟩ := exec_retained_wrapify cfg N h id k hfa
        obtain ⟨π2, hev, hR2, _⟩ := eval_safe_apply cfg N hsim hR1 "function_A" id hvf "arguments" _ hva r σ2 ha
        obtain ⟨s2, hR3⟩ := exec_push cfg N _ _ hev hR2
        simp only [push, stackE] at s2
        refine ⟨_, ?_, by simpa [Post] using hR3⟩
        have hsplit : ∀ (a b c d : PyStmt), [a, b, c, d] = [a, b, c] ++ [d] := fun _ _ _ _ => rfl
        rw [hsplit, execPL_append, s1]
        simp only [execPL_cons, s2, execPL, sigP, List.reverse_cons]
  · simp only [h2, ↓reduceIte] at hr
    simp only [h2, decide_false, b2i, pyTruth, bne_self_eq_false, Bool.false_eq_true, ↓reduceIte]
    have heq : evalE cfg N (.compare (.attr (.name "function_A") "arity") [(.eq, .cint 1)]) π = .ok (.int (b2i (ar == 1)), π) := by
      simp [evalE, hke, cmpVals]
    simp only [execPL_cons]
    rw [exec_ifS cfg N _ _ _ _ _ _ heq]
    by_cases h1 : ar = 1
    · subst h1
      simp only [↓reduceIte] at hr
      simp only [beq_self_eq_true, b2i, pyTruth, show ((1 : Int) != 0) = true by decide, ↓reduceIte]
      cases hx : iterRange cfg σ.pop1.1 with
      | error e => simp [hx] at hr
      | ok xs =>
        simp only [hx, R_ok_bind] at hr
        cases hf : filterFn cfg N (.fn id) xs σ.pop1.2 with
        | error e => cases e <;> simp [hf, lazyErr] at hr
        | ok r2 =>
          obtain ⟨ys, σ2⟩ := r2
          simp [hf, lazyErr] at hr; obtain ⟨h1', h2'⟩ := hr; subst h1'; subst h2'
          have hpop := eval_pop1kw cfg N h
          have hR1 := rel_pop1 h
          have hv1 : (popPi σ π 1).getVar ("function_A", []) = some (.fn id) := by
            unfold popPi; rw [getVar_setVar_ne _ _ _ _ (by decide)]; exact hfa.var
          obtain ⟨π2, hp, hR2⟩ := sim_filterFn cfg N hsim (.fn id) xs hR1 ys σ2 hf
          have hnf := iterRange_notFn hx
          have hev : evalE cfg N (.call (.name "vy_filter")
              [.call (.name "pop") [.name "stack", .cint 1] [("ctx", .name "ctx")], .name "function_A"] [("ctx", .name "ctx")]) π =
              .ok (.list ys, π2) := by
            simp only [pop1kw, stackE, kwCtx, ctxE] at hpop
            rw [evalE_special cfg N "vy_filter" _ _ _ .vy_filter (by decide)]
            simp only [evalSpecial, hpop, evalE_name cfg N "function_A" _ _ hv1, R_ok_bind, hnf,
              show isFnVal (Val.fn id) = true from rfl, Bool.false_or, Bool.false_eq_true, ↓reduceIte, hx, hp, lazyErr]
          obtain ⟨s2, hR3⟩ := exec_push cfg N _ _ hev hR2
          simp only [push, stackE] at s2
          refine ⟨π2.setVar ("stack", []) (.list (Val.list ys :: σ2.stack).reverse), ?_, by simpa [Post] using hR3⟩
          simp only [execPL_cons, s2, execPL, sigP]
    · simp only [h1, ↓reduceIte] at hr
      simp at hr; obtain ⟨h1', h2'⟩ := hr; subst h1'; subst h2'
      have : (ar == 1) = false := by simpa using h1
      exact ⟨π, by simp [this, b2i, pyTruth, execPL, sigP], by simpa [Post] using h⟩

/-! ### `₌` and `₍`: two operands on the same stack -/

/-- a call neither reads nor changes the caller's stack -/
theorem callLam_stack (cfg : Cfg) (n id : Nat) (args : List Val) (ar : Option Int) (σ σ'' : RSt) (s' : List Val) (res : Val)
    (rest : List Val) (h : callLam cfg n id args ar σ = .ok (res, rest, σ'')) :
    callLam cfg n id args ar { σ with stack := s' } = .ok (res, rest, { σ'' with stack := s' }) ∧ σ''.stack = σ.stack := by
  cases n with
  | zero => simp [callLam] at h
  | succ m =>
    unfold callLam at h ⊢
    cases hf : σ.fns[id]? with
    | none => simp [hf] at h
    | some f =>
      simp only [hf] at h ⊢
      by_cases hl : f.live = true
      · simp only [hl, Bool.not_true, Bool.false_eq_true, ↓reduceIte] at h ⊢
        cases hk : toNatArity (lamArity f ar) with
        | error e => simp [hk] at h
        | ok k =>
          simp only [hk, R_ok_bind] at h ⊢
          have he : enterLam { σ with stack := s' } f id (popN k args σ.inputs).1 (popN k args σ.inputs).2.2 =
              enterLam σ f id (popN k args σ.inputs).1 (popN k args σ.inputs).2.2 := rfl
          rw [he]
          cases hb : execL cfg m f.body (enterLam σ f id (popN k args σ.inputs).1 (popN k args σ.inputs).2.2) with
          | error e => simp [hb] at h
          | ok r2 =>
            obtain ⟨sg, σ2⟩ := r2
            simp only [hb, R_ok_bind] at h ⊢
            cases hlr : lamResult sg σ2 with
            | error e => simp [hlr] at h
            | ok r3 =>
              obtain ⟨res3, σ3⟩ := r3
              simp only [hlr, R_ok_bind] at h ⊢
              cases hll : σ3.leaveLam with
              | error e => simp [hll] at h
              | ok σ4 =>
                simp [hll] at h ⊢
                obtain ⟨h1, h2, h3⟩ := h
                subst h1; subst h2; subst h3
                exact ⟨⟨rfl, rfl, rfl⟩, rfl⟩
      · simp [hl] at h

theorem applyFn_stack (cfg : Cfg) (n : Nat) (f : Val) (args : List Val) (σ σ'' : RSt) (s' : List Val) (r : Val)
    (h : applyFn cfg n f args σ = .ok (r, σ'')) :
    applyFn cfg n f args { σ with stack := s' } = .ok (r, { σ'' with stack := s' }) ∧ σ''.stack = σ.stack := by
  unfold applyFn at h ⊢
  cases f with
  | fn id =>
    simp only at h ⊢
    cases hc : callLam cfg n id args (some (args.length : Int)) σ with
    | error e => simp [hc] at h
    | ok r3 =>
      obtain ⟨res, rest, σ3⟩ := r3
      simp [hc] at h; obtain ⟨h1, h2⟩ := h; subst h1; subst h2
      obtain ⟨hc', hst⟩ := callLam_stack cfg n id args _ σ σ3 s' res rest hc
      exact ⟨by simp [hc'], hst⟩
  | int i => simp at h
  | list l => simp at h
  | none => simp at h

@[simp] theorem specialOf_list' : specialOf "list" = some .list_ := by decide

/-- the common start of `₌` and `₍`: the copy, both argument lists -/
theorem exec_dy_args {σ : RSt} {π : PSt} (cfg : Cfg) (n : Nat) (h : Rel env A σ π) (idA idB kA kB : Nat)
    (hfa : FnVar π "function_A" idA kA) (hfb : FnVar π "function_B" idB kB) :
    ∃ π', execPL cfg n
        [ .assign [.name "stack_copy"] (.call (.name "list") [.call (.name "deep_copy") [.name "stack"] []] []),
          .assign [.name "arguments_A"] (.call (.name "wrapify") [.name "stack_copy", .attr (.name "function_A") "arity"] [("ctx", .name "ctx")]),
          .assign [.name "arguments_B"] (.call (.name "wrapify") [.name "stack", .attr (.name "function_B") "arity"] [("ctx", .name "ctx")]) ] π =
        .ok (.normal, π') ∧
      Rel env A (({ σ with inputs := (popN kA σ.stack σ.inputs).2.2 } : RSt).popK kB).2 π' ∧
      π'.getVar ("arguments_A", []) = some (.list (popN kA σ.stack σ.inputs).1) ∧
      π'.getVar ("arguments_B", []) = some (.list (({ σ with inputs := (popN kA σ.stack σ.inputs).2.2 } : RSt).popK kB).1) ∧
      π'.getVar ("function_A", []) = some (.fn idA) ∧ π'.getVar ("function_B", []) = some (.fn idB) := by
  -- stack_copy = list(deep_copy(stack))
  let π1 := π.setVar ("stack_copy", []) (.list σ.stack.reverse)
  have hR1 : Rel env A σ π1 := h.setJunk "stack_copy" _ (by decide)
  have s1 : execPS cfg n (.assign [.name "stack_copy"] (.call (.name "list") [.call (.name "deep_copy") [.name "stack"] []] [])) π =
      .ok (.normal, π1) := by
    simp [execPS, evalE, evalSpecial, h.stack, assignTo, π1]
  have hfa1 : FnVar π1 "function_A" idA kA := hfa.mono (getVar_setVar_ne _ _ _ _ (by decide)) (by simp [π1])
  have hfb1 : FnVar π1 "function_B" idB kB := hfb.mono (getVar_setVar_ne _ _ _ _ (by decide)) (by simp [π1])
  -- arguments_A = wrapify(stack_copy, function_A.arity, ctx=ctx)
  have hw := eval_wrapify_var cfg n π1 π1 "stack_copy" σ.stack (.attr (.name "function_A") "arity") kA (eval_fn_arity cfg n hfa1)
    (getVar_setVar_eq _ _ _) hR1.retain [] [("ctx", .name "ctx")]
  rw [hR1.inputs] at hw
  let π2 := ((({ π1 with inputs := (popN kA σ.stack σ.inputs).2.2 } : PSt).setVar ("stack_copy", [])
    (.list (popN kA σ.stack σ.inputs).2.1.reverse)).setVar ("arguments_A", []) (.list (popN kA σ.stack σ.inputs).1))
  have hR2 : Rel env A { σ with inputs := (popN kA σ.stack σ.inputs).2.2 } π2 :=
    ((hR1.setInputs _).setJunk "stack_copy" _ (by decide)).setJunk "arguments_A" _ (by decide)
  have s2 : execPS cfg n (.assign [.name "arguments_A"] (.call (.name "wrapify") [.name "stack_copy", .attr (.name "function_A") "arity"] [("ctx", .name "ctx")])) π1 =
      .ok (.normal, π2) := by
    simp only [execPS, hw, R_ok_bind, assignTo, π2]
  have hg2 : ∀ key, key ≠ ("stack_copy", []) → key ≠ ("arguments_A", []) → π2.getVar key = π1.getVar key := by
    intro key h1 h2
    simp only [π2]
    rw [getVar_setVar_ne _ _ _ _ h2, getVar_setVar_ne _ _ _ _ h1]; rfl
  have hfb2 : FnVar π2 "function_B" idB kB := hfb1.mono (hg2 _ (by decide) (by decide)) (by simp [π2])
  -- arguments_B = wrapify(stack, function_B.arity, ctx=ctx)
  obtain ⟨s3, hR3⟩ := exec_wrapify_stack cfg n hR2 "arguments_B" (by decide) (by decide) _ kB (eval_fn_arity cfg n hfb2) [] [("ctx", .name "ctx")]
  refine ⟨_, ?_, hR3, ?_, getVar_setVar_eq _ _ _, ?_, ?_⟩
  · simp only [execPL_cons, s1, s2, s3, execPL]
  · rw [getVar_after_wrapify kB "arguments_B" "arguments_A" _ (by decide) (by decide)]
    exact getVar_setVar_eq _ _ _
  · rw [getVar_after_wrapify kB "arguments_B" "function_A" _ (by decide) (by decide), hg2 _ (by decide) (by decide)]
    exact hfa1.var
  · rw [getVar_after_wrapify kB "arguments_B" "function_B" _ (by decide) (by decide)]
    exact hfb2.var

/-- `₌` (parallel apply) and `₍` (parallel apply, wrapped) -/
theorem sim_dy {σ : RSt} {π : PSt} (cfg : Cfg) (N : Nat) (hsim : ∀ m, N = m + 1 → SimAt cfg env m) (h : Rel env A σ π)
    (m : Nat) (hm : m = 8332 ∨ m = 8333) (idA idB : Nat) (arA arB : Int)
    (hfa : FnVar π "function_A" idA arA) (hfb : FnVar π "function_B" idB arB) (sg : Sig) (σ' : RSt)
    (hr : execDy cfg N m idA arA idB arB σ = .ok (sg, σ')) :
    ∃ π', execPL cfg N (if m = 8332 then tmplM8332 else tmplM8333) π = .ok (sigP sg, π') ∧ Post env A sg σ' π' := by
  unfold execDy at hr
  simp only [hm, ↓reduceIte] at hr
  cases hkA : toNatArity arA with
  | error e => simp [hkA] at hr
  | ok kA =>
    cases hkB : toNatArity arB with
    | error e => simp [hkA, hkB] at hr
    | ok kB =>
      simp only [hkA, hkB, R_ok_bind] at hr
      have hA := toNatArity_ok hkA; subst hA
      have hB := toNatArity_ok hkB; subst hB
      obtain ⟨π3, s123, hR3, hvaA, hvaB, hvfA, hvfB⟩ := exec_dy_args cfg N h idA idB kA kB hfa hfb
      generalize hσ1 : (({ σ with inputs := (popN kA σ.stack σ.inputs).2.2 } : RSt).popK kB) = pk at hr hR3 hvaB
      obtain ⟨argsB, σ1⟩ := pk
      simp only at hr hR3 hvaB
      cases ha : applyFn cfg N (.fn idA) (popN kA σ.stack σ.inputs).1.reverse σ1 with
      | error e => simp [ha] at hr
      | ok r2 =>
        obtain ⟨rA, σ2⟩ := r2
        simp only [ha, R_ok_bind] at hr
        cases hb : applyFn cfg N (.fn idB) argsB.reverse σ2 with
        | error e => simp [hb] at hr
        | ok r3 =>
          obtain ⟨rB, σ3⟩ := r3
          simp only [hb, R_ok_bind] at hr
          obtain ⟨π4, hevA, hR4, hsame4⟩ := eval_safe_apply cfg N hsim hR3 "function_A" idA hvfA "arguments_A" _ hvaA rA σ2 ha
          have hsplit5 : ∀ (a b c d e : PyStmt), [a, b, c, d, e] = [a, b, c] ++ [d, e] := fun _ _ _ _ _ => rfl
          have hsplit6 : ∀ (a b c d e f : PyStmt), [a, b, c, d, e, f] = [a, b, c] ++ [d, e, f] := fun _ _ _ _ _ _ => rfl
          by_cases h32 : m = 8332
          · subst h32
            simp only [↓reduceIte] at hr ⊢
            simp at hr; obtain ⟨h1, h2⟩ := hr; subst h1; subst h2
            -- stack.append(safe_apply(function_A, …))
            obtain ⟨s4, hR5⟩ := exec_push cfg N _ _ hevA hR4
            simp only [push, stackE] at s4
            -- stack.append(safe_apply(function_B, …)): the second operand runs with the first result already pushed
            obtain ⟨hb', hst⟩ := applyFn_stack cfg N (.fn idB) argsB.reverse σ2 σ3 (rA :: σ2.stack) rB hb
            have hvfB5 : (π4.setVar ("stack", []) (.list (rA :: σ2.stack).reverse)).getVar ("function_B", []) = some (.fn idB) := by
              rw [getVar_setVar_ne _ _ _ _ (by decide), hsame4.getVar]; exact hvfB
            have hvaB5 : (π4.setVar ("stack", []) (.list (rA :: σ2.stack).reverse)).getVar ("arguments_B", []) = some (.list argsB) := by
              rw [getVar_setVar_ne _ _ _ _ (by decide), hsame4.getVar]; exact hvaB
            obtain ⟨π6, hevB, hR6, _⟩ := eval_safe_apply cfg N hsim hR5 "function_B" idB hvfB5 "arguments_B" _ hvaB5 rB _ hb'
            obtain ⟨s5, hR7⟩ := exec_push cfg N _ _ hevB hR6
            simp only [push, stackE] at s5
            have hthis : ((σ3.push rA).push rB) = ({ σ3 with stack := rA :: σ2.stack } : RSt).push rB := by
              simp [RSt.push, hst]
            rw [← hthis] at hR7
            refine ⟨_, ?_, hR7⟩
            simp only [tmplM8332]
            rw [hsplit5, execPL_append, s123]
            simp only [execPL_cons, s4, s5, execPL, sigP]
          · have h33 : m = 8333 := by rcases hm with hm | hm; exact absurd hm h32; exact hm
            subst h33
            simp only [show (8333 : Nat) ≠ 8332 by decide, ↓reduceIte] at hr ⊢
            simp at hr; obtain ⟨h1, h2⟩ := hr; subst h1; subst h2
            -- res_A = safe_apply(function_A, …)
            have hR5 := hR4.setJunk "res_A" rA (by decide)
            have s4 := exec_assign_name cfg N "res_A" _ _ π3 _ hevA
            have hvfB5 : (π4.setVar ("res_A", []) rA).getVar ("function_B", []) = some (.fn idB) := by
              rw [getVar_setVar_ne _ _ _ _ (by decide), hsame4.getVar]; exact hvfB
            have hvaB5 : (π4.setVar ("res_A", []) rA).getVar ("arguments_B", []) = some (.list argsB) := by
              rw [getVar_setVar_ne _ _ _ _ (by decide), hsame4.getVar]; exact hvaB
            -- res_B = safe_apply(function_B, …)
            obtain ⟨π6, hevB, hR6, hsame6⟩ := eval_safe_apply cfg N hsim hR5 "function_B" idB hvfB5 "arguments_B" _ hvaB5 rB σ3 hb
            have hR7 := hR6.setJunk "res_B" rB (by decide)
            have s5 := exec_assign_name cfg N "res_B" _ _ _ _ hevB
            -- stack.append([res_A, res_B])
            have hvA7 : (π6.setVar ("res_B", []) rB).getVar ("res_A", []) = some rA := by
              rw [getVar_setVar_ne _ _ _ _ (by decide), hsame6.getVar]; exact getVar_setVar_eq _ _ _
            have hvB7 : (π6.setVar ("res_B", []) rB).getVar ("res_B", []) = some rB := getVar_setVar_eq _ _ _
            have hlist : evalE cfg N (.list [.name "res_A", .name "res_B"]) (π6.setVar ("res_B", []) rB) =
                .ok (.list [rA, rB], π6.setVar ("res_B", []) rB) := by
              simp [evalE, evalArgs, isCtxName, hvA7, hvB7]
            obtain ⟨s6, hR8⟩ := exec_push cfg N _ _ hlist hR7
            simp only [push, stackE] at s6
            refine ⟨_, ?_, by simpa [Post] using hR8⟩
            simp only [tmplM8333]
            rw [hsplit6, execPL_append, s123]
            simp only [execPL_cons, s4, s5, s6, execPL, sigP, List.reverse_cons]

/-! ### from the modifier table to the lemmas -/

theorem keyCh_eq {m : Str} {c : Nat} (h : keyCh m = c) (hc : c ≠ 0) : m = [c] := by
  unfold keyCh at h
  split at h
  · rw [h]
  · exact absurd h.symm hc

theorem isModTmpl_cases {c : Nat} {b : List PyStmt} (h : isModTmpl c b = true) :
    (c = 38 ∧ b = tmplM38) ∨ (c = 118 ∧ b = tmplM118) ∨ (c = 126 ∧ b = tmplM126) ∨ (c = 8332 ∧ b = tmplM8332) ∨
    (c = 8333 ∧ b = tmplM8333) ∨ (c = 402 ∧ b = tmplM402) ∨ (c = 598 ∧ b = tmplM598) ∨ (c = 223 ∧ b = tmplM223) := by
  unfold isModTmpl at h
  by_cases h1 : c = 38
  · simp only [h1, ↓reduceIte] at h; exact Or.inl ⟨h1, isTmplM38_sound b h⟩
  by_cases h2 : c = 118
  · simp only [h2, ↓reduceIte] at h; exact Or.inr (Or.inl ⟨h2, isTmplM118_sound b (by simpa using h)⟩)
  by_cases h3 : c = 126
  · simp only [h3, ↓reduceIte] at h; exact Or.inr (Or.inr (Or.inl ⟨h3, isTmplM126_sound b (by simpa using h)⟩))
  by_cases h4 : c = 8332
  · simp only [h4, ↓reduceIte] at h; exact Or.inr (Or.inr (Or.inr (Or.inl ⟨h4, isTmplM8332_sound b (by simpa using h)⟩)))
  by_cases h5 : c = 8333
  · simp only [h5, ↓reduceIte] at h; exact Or.inr (Or.inr (Or.inr (Or.inr (Or.inl ⟨h5, isTmplM8333_sound b (by simpa using h)⟩))))
  by_cases h6 : c = 402
  · simp only [h6, ↓reduceIte] at h; exact Or.inr (Or.inr (Or.inr (Or.inr (Or.inr (Or.inl ⟨h6, isTmplM402_sound b (by simpa using h)⟩)))))
  by_cases h7 : c = 598
  · simp only [h7, ↓reduceIte] at h; exact Or.inr (Or.inr (Or.inr (Or.inr (Or.inr (Or.inr (Or.inl ⟨h7, isTmplM598_sound b (by simpa using h)⟩))))))
  by_cases h8 : c = 223
  · simp only [h8, ↓reduceIte] at h; exact Or.inr (Or.inr (Or.inr (Or.inr (Or.inr (Or.inr (Or.inr ⟨h8, isTmplM223_sound b (by simpa using h)⟩))))))
  simp [h1, h2, h3, h4, h5, h6, h7, h8] at h

/-- what `modTemplate` returns, given a table as expected: the template of one of the eight modifiers, or `pass` for a
    character that is none of them -/
theorem modTemplate_spec (hM : ModsOK env.modifiers) (m : Str) (tmpl : List PyStmt) (ht : modTemplate env m = .ok tmpl) :
    (tmpl = [.pass] ∧ ∀ c ∈ modKeys, keyCh m ≠ c) ∨ (∃ c, m = [c] ∧ isModTmpl c tmpl = true) := by
  unfold modTemplate at ht
  cases hlk : lookupEntry env.modifiers m with
  | none =>
    simp [hlk] at ht
    left
    refine ⟨ht.symm, ?_⟩
    intro c hc hk
    have hc0 : c ≠ 0 := by intro h0; subst h0; revert hc; decide
    have hm := keyCh_eq hk hc0
    have := modsOK_present env.modifiers hM c hc
    rw [← hm, hlk] at this; simp at this
  | some e =>
    right
    obtain ⟨hok, hkey⟩ := modsOK_lookup env.modifiers hM m e hlk
    simp only [hlk] at ht
    unfold modEntryOK at hok
    split at hok
    · rename_i c b hk hb
      rw [hb] at ht; simp at ht; subst ht
      exact ⟨c, by rw [← hkey, hk], hok⟩
    · simp at hok

/-- a monadic modifier's template against `execMon` -/
theorem sim_monTemplate {σ : RSt} {π : PSt} (cfg : Cfg) (N : Nat) (hsim : ∀ m, N = m + 1 → SimAt cfg env m) (hM : ModsOK env.modifiers)
    (h : Rel env A σ π) (m : Str) (tmpl : List PyStmt) (ht : modTemplate env m = .ok tmpl) (id : Nat) (rf : RFn)
    (hid : σ.fns[id]? = some rf) (hl : rf.live = true) (hv : π.getVar ("function_A", []) = some (.fn id)) (sg : Sig) (σ' : RSt)
    (hr : execMon cfg N (keyCh m) id rf.arity σ = .ok (sg, σ')) :
    ∃ π', execPL cfg N tmpl π = .ok (sigP sg, π') ∧ Post env A sg σ' π' := by
  have hfa := FnVar.of_rel h "function_A" id rf hv hid hl
  rcases modTemplate_spec hM m tmpl ht with ⟨htm, hne⟩ | ⟨c, hmc, hok⟩
  · subst htm
    unfold execMon at hr
    have n1 := hne 118 (by decide); have n2 := hne 38 (by decide); have n3 := hne 126 (by decide); have n4 := hne 223 (by decide)
    have n5 := hne 402 (by decide); have n6 := hne 598 (by decide); have n7 := hne 8332 (by decide); have n8 := hne 8333 (by decide)
    simp only [n1, n2, n3, n4, n5, n6, n7, n8, ↓reduceIte, or_self] at hr
    simp at hr; obtain ⟨h1, h2⟩ := hr; subst h1; subst h2
    exact ⟨π, by simp [execPL, execPS, sigP], by simpa [Post] using h⟩
  · subst hmc
    simp only [keyCh] at hr
    rcases isModTmpl_cases hok with ⟨hc, hb⟩ | ⟨hc, hb⟩ | ⟨hc, hb⟩ | ⟨hc, hb⟩ | ⟨hc, hb⟩ | ⟨hc, hb⟩ | ⟨hc, hb⟩ | ⟨hc, hb⟩ <;> subst hc <;> subst hb
    · exact sim_mod38 cfg N hsim h id rf.arity hfa sg σ' hr
    · exact sim_mod118 cfg N hsim h id rf.arity hfa sg σ' hr
    · exact sim_mod126 cfg N hsim h id rf.arity hfa sg σ' hr
    · unfold execMon at hr; simp at hr
    · unfold execMon at hr; simp at hr
    · exact sim_mod402 cfg N hsim h id rf hid hl hv rf.arity sg σ' hr
    · exact sim_mod598 cfg N hsim h id rf hid hl hv rf.arity sg σ' hr
    · exact sim_mod223 cfg N hsim h id hv rf.arity sg σ' hr

/-- a dyadic modifier's template against `execDy` -/
theorem sim_dyTemplate {σ : RSt} {π : PSt} (cfg : Cfg) (N : Nat) (hsim : ∀ m, N = m + 1 → SimAt cfg env m) (hM : ModsOK env.modifiers)
    (h : Rel env A σ π) (m : Str) (tmpl : List PyStmt) (ht : modTemplate env m = .ok tmpl) (idA idB : Nat) (rfA rfB : RFn)
    (hidA : σ.fns[idA]? = some rfA) (hlA : rfA.live = true) (hvA : π.getVar ("function_A", []) = some (.fn idA))
    (hidB : σ.fns[idB]? = some rfB) (hlB : rfB.live = true) (hvB : π.getVar ("function_B", []) = some (.fn idB)) (sg : Sig) (σ' : RSt)
    (hr : execDy cfg N (keyCh m) idA rfA.arity idB rfB.arity σ = .ok (sg, σ')) :
    ∃ π', execPL cfg N tmpl π = .ok (sigP sg, π') ∧ Post env A sg σ' π' := by
  have hfa := FnVar.of_rel h "function_A" idA rfA hvA hidA hlA
  have hfb := FnVar.of_rel h "function_B" idB rfB hvB hidB hlB
  rcases modTemplate_spec hM m tmpl ht with ⟨htm, hne⟩ | ⟨c, hmc, hok⟩
  · subst htm
    unfold execDy at hr
    have n1 := hne 118 (by decide); have n2 := hne 38 (by decide); have n3 := hne 126 (by decide); have n4 := hne 223 (by decide)
    have n5 := hne 402 (by decide); have n6 := hne 598 (by decide); have n7 := hne 8332 (by decide); have n8 := hne 8333 (by decide)
    simp only [n1, n2, n3, n4, n5, n6, n7, n8, ↓reduceIte, or_self] at hr
    simp at hr; obtain ⟨h1, h2⟩ := hr; subst h1; subst h2
    exact ⟨π, by simp [execPL, execPS, sigP], by simpa [Post] using h⟩
  · subst hmc
    simp only [keyCh] at hr
    rcases isModTmpl_cases hok with ⟨hc, hb⟩ | ⟨hc, hb⟩ | ⟨hc, hb⟩ | ⟨hc, hb⟩ | ⟨hc, hb⟩ | ⟨hc, hb⟩ | ⟨hc, hb⟩ | ⟨hc, hb⟩ <;> subst hc <;> subst hb
    · unfold execDy at hr; simp at hr
    · unfold execDy at hr; simp at hr
    · unfold execDy at hr; simp at hr
    · have := sim_dy cfg N hsim h 8332 (Or.inl rfl) idA idB rfA.arity rfB.arity hfa hfb sg σ' hr
      simpa using this
    · have := sim_dy cfg N hsim h 8333 (Or.inr rfl) idA idB rfA.arity rfB.arity hfa hfb sg σ' hr
      simpa using this
    · unfold execDy at hr; simp at hr
    · unfold execDy at hr; simp at hr
    · unfold execDy at hr; simp at hr

/-! ### `lambda_wrap`: what the wrapper of an operand is -/

theorem niladic_eq (k : TokKind) :
    niladic k = (match k with | .string | .number | .cnum | .cstr | .vget | .cpnum => true | _ => false) := by
  cases k <;> rfl

theorem arE_declared (ar : Option Nat) : ArE (arityExpr ar) (match ar with | some a => (a : Int) | Option.none => 1) := by
  cases ar with
  | none => right; exact ⟨rfl, rfl⟩
  | some a =>
    left
    have : ¬ ((a : Int) < 0) := by omega
    simp [arityExpr, pyInt, this]

/-- the wrapper `lambda_wrap` builds for a modifier's operand: a lambda whose arity and body are `wrapArity`'s -/
theorem wrap_spec (cfg : Cfg) (env : TEnv) (hE : cfg.elements = env.elements) (a : Structure) (k : Nat) (fa : List PyStmt) (k1 : Nat)
    (hw : wrapLambda env k a = .ok (fa, k1)) (hf : fragS env.elements a = true) :
    ∃ arE B, fa = lambdaTemplate (digitsOfNat k) arE B ∧ ArE arE (wrapArity cfg a).1 ∧ IsTr env (wrapArity cfg a).2 B ∧
      fragL env.elements (wrapArity cfg a).2 = true := by
  have other : ∀ s : Structure, fragS env.elements s = true →
      (∀ b k2, transpileS env (k + 1) s = .ok (b, k2) →
        ∃ arE B, lambdaTemplate (digitsOfNat k) (.cint 1) b = lambdaTemplate (digitsOfNat k) arE B ∧ ArE arE 1 ∧ IsTr env [s] B ∧
          fragL env.elements [s] = true) := by
    intro s hs b k2 hb
    refine ⟨.cint 1, b, rfl, Or.inl rfl, ⟨k + 1, b ++ [], k2, ?_, Or.inl (by simp)⟩, by simp [fragL, hs]⟩
    simp [transpileL, hb]
  cases a with
  | generic t =>
    simp only [wrapLambda] at hw
    cases ht : transpileToken env t with
    | error e => simp [ht] at hw
    | ok b =>
      simp [ht] at hw; obtain ⟨h1, _⟩ := hw; subst h1
      have h2 : (wrapArity cfg (.generic t)).2 = [.generic t] := rfl
      rw [h2]
      refine ⟨_, b, rfl, Or.inl ?_, ⟨k, b ++ [], k, ?_, Or.inl (by simp)⟩, by simpa [fragL] using hf⟩
      · simp only [wrapArity, niladic_eq, hE]
        rfl
      · simp [transpileL, transpileS, ht]
  | lam ar body =>
    simp only [wrapLambda, transpileS] at hw
    cases hb : transpileL env (k + 1) body with
    | error e => simp [hb] at hw
    | ok r =>
      obtain ⟨b, k2⟩ := r
      simp [hb] at hw; obtain ⟨h1, _⟩ := hw; subst h1
      have h2 : (wrapArity cfg (.lam ar body)).2 = body := rfl
      rw [h2]
      exact ⟨_, orPass b, rfl, arE_declared ar, ⟨k + 1, b, k2, hb, Or.inr rfl⟩, by simpa [fragS] using hf⟩
  | brk p =>
    simp only [wrapLambda] at hw
    cases hb : transpileS env (k + 1) (.brk p) with
    | error e => simp [hb] at hw
    | ok r => obtain ⟨b, k2⟩ := r; simp [hb] at hw; obtain ⟨h1, _⟩ := hw; subst h1; exact other _ hf b k2 hb
  | recurse p =>
    simp only [wrapLambda] at hw
    cases hb : transpileS env (k + 1) (.recurse p) with
    | error e => simp [hb] at hw
    | ok r => obtain ⟨b, k2⟩ := r; simp [hb] at hw; obtain ⟨h1, _⟩ := hw; subst h1; exact other _ hf b k2 hb
  | ifS bs =>
    simp only [wrapLambda] at hw
    cases hb : transpileS env (k + 1) (.ifS bs) with
    | error e => simp [hb] at hw
    | ok r => obtain ⟨b, k2⟩ := r; simp [hb] at hw; obtain ⟨h1, _⟩ := hw; subst h1; exact other _ hf b k2 hb
  | forS ns body =>
    simp only [wrapLambda] at hw
    cases hb : transpileS env (k + 1) (.forS ns body) with
    | error e => simp [hb] at hw
    | ok r => obtain ⟨b, k2⟩ := r; simp [hb] at hw; obtain ⟨h1, _⟩ := hw; subst h1; exact other _ hf b k2 hb
  | whileS c body =>
    simp only [wrapLambda] at hw
    cases hb : transpileS env (k + 1) (.whileS c body) with
    | error e => simp [hb] at hw
    | ok r => obtain ⟨b, k2⟩ := r; simp [hb] at hw; obtain ⟨h1, _⟩ := hw; subst h1; exact other _ hf b k2 hb
  | fnCall nme =>
    simp only [wrapLambda] at hw
    cases hb : transpileS env (k + 1) (.fnCall nme) with
    | error e => simp [hb] at hw
    | ok r => obtain ⟨b, k2⟩ := r; simp [hb] at hw; obtain ⟨h1, _⟩ := hw; subst h1; exact other _ hf b k2 hb
  | fnDef nme ps body =>
    simp only [wrapLambda] at hw
    cases hb : transpileS env (k + 1) (.fnDef nme ps body) with
    | error e => simp [hb] at hw
    | ok r => obtain ⟨b, k2⟩ := r; simp [hb] at hw; obtain ⟨h1, _⟩ := hw; subst h1; exact other _ hf b k2 hb
  | lamOp kd body =>
    simp only [wrapLambda] at hw
    cases hb : transpileS env (k + 1) (.lamOp kd body) with
    | error e => simp [hb] at hw
    | ok r => obtain ⟨b, k2⟩ := r; simp [hb] at hw; obtain ⟨h1, _⟩ := hw; subst h1; exact other _ hf b k2 hb
  | listS items =>
    simp only [wrapLambda] at hw
    cases hb : transpileS env (k + 1) (.listS items) with
    | error e => simp [hb] at hw
    | ok r => obtain ⟨b, k2⟩ := r; simp [hb] at hw; obtain ⟨h1, _⟩ := hw; subst h1; exact other _ hf b k2 hb
  | mon m x =>
    simp only [wrapLambda] at hw
    cases hb : transpileS env (k + 1) (.mon m x) with
    | error e => simp [hb] at hw
    | ok r => obtain ⟨b, k2⟩ := r; simp [hb] at hw; obtain ⟨h1, _⟩ := hw; subst h1; exact other _ hf b k2 hb
  | dy m x y =>
    simp only [wrapLambda] at hw
    cases hb : transpileS env (k + 1) (.dy m x y) with
    | error e => simp [hb] at hw
    | ok r => obtain ⟨b, k2⟩ := r; simp [hb] at hw; obtain ⟨h1, _⟩ := hw; subst h1; exact other _ hf b k2 hb
  | tri m x y z =>
    simp only [wrapLambda] at hw
    cases hb : transpileS env (k + 1) (.tri m x y z) with
    | error e => simp [hb] at hw
    | ok r => obtain ⟨b, k2⟩ := r; simp [hb] at hw; obtain ⟨h1, _⟩ := hw; subst h1; exact other _ hf b k2 hb

end Vy.Sem
