import VyxalModel.Lemmas.CoreSim
import VyxalModel.Proofs.C05
/-!
# Token-level simulation lemmas and the structural induction for the closure-free fragment (C01, stage 2)
-/
namespace Vy.Sem
open Vy PyAst

/-! ### tokens -/

theorem digits_parts (ds : Str) (hne : ds ≠ []) (hd : ds.all isDigit = true) :
    numberParts ds = ds ∧ numberUsesRational ds = false := by
  have hreal : C05.RealLiteral ds := by
    intro c hc; left
    have := List.all_eq_true.mp hd c hc
    simpa [isDigit, isDig] using this
  have hnd : ds ≠ [cDot] := by
    intro he; subst he; simp [isDigit, cDot] at hd
  refine ⟨C05.number_parts_plain ds hreal hnd, ?_⟩
  rw [C05.uses_rational_iff ds hreal hnd]
  cases hc : ds.contains cDot with
  | false => rfl
  | true =>
    have hm : cDot ∈ ds := by simpa using hc
    have := List.all_eq_true.mp hd cDot hm
    simp [isDigit, cDot] at this

theorem eval_nsimplify (cfg : Cfg) (n : Nat) (ds : Str) (π : PSt) (hne : ds ≠ []) (hd : ds.all isDigit = true) :
    evalE cfg n (.call (.attr (.name "sympy") "nsimplify") [.cstrN ds] []) π = .ok (.int (natOfDigits ds), π) := by
  simp [evalE, hne, hd]

/-- what a table entry must look like for the parametric element lemma -/
def elemOK (e : Gen.Entry) : Bool :=
  e.kind == "fn" && decide (0 ≤ e.arity) && decide (e.arity ≤ 3) &&
  (match e.body with
   | some b => isBoilerplate b == some (e.arity.toNat, e.helper)
   | Option.none => false) &&
  (specialOf e.helper).isNone && !junkNames.contains e.helper && e.helper != "stack"

theorem lookupElem_eq_lookupEntry (tbl : List Gen.Entry) (k : Str) : lookupElem tbl k = lookupEntry tbl k := rfl

/-- an element whose entry is the `process_element` boilerplate of a first-order function -/
theorem sim_elem {σ : RSt} {π : PSt} (cfg : Cfg) (n : Nat) (key : Str) (e : Gen.Entry) (body : List PyStmt)
    (hl : lookupElem cfg.elements key = some e) (hok : elemOK e = true) (hb : e.body = some body) (h : Rel σ π)
    (sg : Sig) (σ' : RSt) (hr : execElem cfg n key σ = .ok (sg, σ')) :
    ∃ π', execPL cfg n body π = .ok (sigP sg, π') ∧ Post sg σ' π' := by
  simp only [elemOK, Bool.and_eq_true, beq_iff_eq, decide_eq_true_eq, Bool.not_eq_true', bne_iff_ne, ne_eq, Option.isNone_iff_eq_none] at hok
  obtain ⟨⟨⟨⟨⟨⟨hkind, h0⟩, h3⟩, hbp⟩, hsp⟩, hj⟩, hs⟩ := hok
  rw [hb] at hbp
  have hbody := isBoilerplate_sound body _ _ (by simpa using hbp)
  have hk3 : e.arity.toNat ≤ 3 := by omega
  have hjn : e.helper ∉ junkNames := by
    intro hm; have : junkNames.contains e.helper = true := by simpa using hm
    rw [this] at hj; exact absurd hj (by decide)
  unfold execElem at hr
  simp only [hl, hkind, ↓reduceIte, toNatArity] at hr
  have hnn : ¬ (e.arity < 0) := by omega
  simp only [hnn, ↓reduceIte, R_ok_bind] at hr
  split at hr
  · -- a function value among the arguments: the reference semantics has no meaning for this helper
    exfalso
    split at hr
    next h1 _ => rw [h1] at hsp; exact absurd hsp (by decide)
    next h1 _ => rw [h1] at hsp; exact absurd hsp (by decide)
    next h1 _ => rw [h1] at hsp; exact absurd hsp (by decide)
    next h1 _ => rw [h1] at hsp; exact absurd hsp (by decide)
    next => simp at hr
  · rename_i hfn
    cases hel : elemFn e.helper (σ.popK e.arity.toNat).1.reverse with
    | error er => simp [hel] at hr
    | ok r =>
      simp only [hel, R_ok_bind] at hr
      simp at hr; obtain ⟨h1, h2⟩ := hr; subst h1; subst h2
      have hnf : ∀ x ∈ (σ.popK e.arity.toNat).1, isFnVal x = false := by
        intro x hx
        cases x with
        | fn id =>
          exfalso; apply hfn
          simp only [List.any_eq_true]
          exact ⟨.fn id, by simpa using hx, rfl⟩
        | _ => rfl
      obtain ⟨π', he, hR⟩ := exec_boilerplate cfg n h e.arity.toNat hk3 e.helper r hsp hjn hs hnf hel
      exact ⟨π', by rw [hbody, he]; rfl, hR⟩



/-- a hand-written template of the closed core, as expected -/
def coreEntryOK (key : Str) (e : Gen.Entry) : Bool :=
  e.kind != "fn" && (match key, e.body with
    | [c], some b => isCoreTmpl c b
    | _, _ => false)

def frag2Tok (tbl : List Gen.Entry) (t : Token) : Bool :=
  match t.kind with
  | .number => true
  | .vget => true
  | .vset => true
  | .general => (match lookupElem tbl t.value with
      | Option.none => true
      | some e => elemOK e || coreEntryOK t.value e)
  | _ => false

theorem exec_pass (cfg : Cfg) (n : Nat) (π : PSt) : execPL cfg n [.pass] π = .ok (.normal, π) := by
  simp [execPL, execPS]

theorem sim_tok {σ : RSt} {π : PSt} (cfg : Cfg) (env : TEnv) (hE : cfg.elements = env.elements) (n : Nat) (t : Token)
    (hf : frag2Tok env.elements t = true) (code : List PyStmt) (ht : transpileToken env t = .ok code)
    (h : Rel σ π) (sg : Sig) (σ' : RSt) (hr : execTok cfg n t σ = .ok (sg, σ')) :
    ∃ π', execPL cfg n code π = .ok (sigP sg, π') ∧ Post sg σ' π' := by
  unfold execTok at hr
  unfold transpileToken at ht
  unfold frag2Tok at hf
  cases hk : t.kind <;> simp only [hk] at hr ht hf
  case number =>
    split at hr
    · rename_i hd
      simp at hr ht; obtain ⟨h1, h2⟩ := hr; subst h1; subst h2; subst ht
      obtain ⟨hp, hu⟩ := digits_parts t.value hd.1 (by simpa using hd.2)
      rw [hp, hu]
      obtain ⟨he, hR⟩ := exec_push cfg n _ _ (eval_nsimplify cfg n t.value π hd.1 (by simpa using hd.2)) h
      exact ⟨_, by simp [execPL_cons, he, execPL, sigP], hR⟩
    · simp at hr
  case general =>
    rw [← hE, ← lookupElem_eq_lookupEntry] at ht
    rw [← hE] at hf
    cases hl : lookupElem cfg.elements t.value with
    | none =>
      simp only [hl] at ht
      unfold execElem at hr
      simp [hl] at hr ht; obtain ⟨h1, h2⟩ := hr; subst h1; subst h2; subst ht
      exact ⟨π, by simp [exec_pass, sigP], h⟩
    | some e =>
      simp only [hl] at ht hf
      cases hb : e.body with
      | none => simp [hb] at ht
      | some b =>
        simp [hb] at ht; subst ht
        by_cases hok : elemOK e = true
        · exact sim_elem cfg n t.value e b hl hok hb h sg σ' hr
        · have hco : coreEntryOK t.value e = true := by
            cases hh : elemOK e with
            | true => exact absurd hh hok
            | false => simpa [hh] using hf
          unfold coreEntryOK at hco
          simp only [Bool.and_eq_true, bne_iff_ne, ne_eq] at hco
          obtain ⟨hkind, hcb⟩ := hco
          unfold execElem at hr
          simp only [hl, hkind, ↓reduceIte] at hr
          match hv : t.value, hcb with
          | [c], hcb =>
            rw [hb] at hcb
            simp only [hv, keyCh] at hr
            exact sim_core cfg n c b hcb h sg hr
  case vget =>
    cases hv : t.value with
    | nil =>
      simp only [hv] at hr ht
      simp at hr ht; obtain ⟨h1, h2⟩ := hr; subst h1; subst h2; subst ht
      have hev : evalE cfg n (.attr ctxE "ghost_variable") π = .ok (σ.ghost, π) := by
        simp [evalE, ctxE, isCtxName, h.ghost]
      obtain ⟨he, hR⟩ := exec_push cfg n _ _ hev h
      exact ⟨_, by simp [execPL_cons, he, execPL, sigP], hR⟩
    | cons c cs =>
      simp only [hv] at hr ht
      by_cases hc : c = 95
      · simp [hc] at hr
      · simp only [hc, ↓reduceIte] at hr ht
        by_cases hln : isLoopName (c :: cs) = true
        · simp [hln] at hr
        · simp only [hln, Bool.false_eq_true, ↓reduceIte, h.params, lookupKV] at hr
          cases hg : lookupKV (c :: cs) σ.globals with
          | none => simp [hg] at hr; split at hr <;> simp at hr
          | some v =>
            simp only [hg] at hr
            split at hr
            · simp at hr
            · simp at hr ht; obtain ⟨h1, h2⟩ := hr; subst h1; subst h2; subst ht
              have hev : evalE cfg n (.pname "VAR_" (c :: cs)) π = .ok (v, π) := by
                have := h.vars (c :: cs) (by simp) (by simpa using hln)
                simp [evalE, getVar_d0 _ _ h.pd0, this, hg]
              obtain ⟨he, hR⟩ := exec_push cfg n _ _ hev h
              exact ⟨_, by simp [execPL_cons, he, execPL, sigP], hR⟩
  case vset =>
    cases hv : t.value with
    | nil =>
      simp only [hv] at hr ht
      simp at hr ht; obtain ⟨h1, h2⟩ := hr; subst h1; subst h2; subst ht
      refine ⟨{ popPi σ π 1 with ghost := σ.pop1.1 }, ?_, ?_⟩
      · simp [execPL_cons, execPS, assign1, eval_pop1kw cfg n h, assignTo, ctxE, execPL, sigP]
      · exact (rel_pop1 h).setGhost _
    | cons c cs =>
      simp only [hv] at hr ht
      by_cases hc : c = 95
      · simp [hc] at hr
      · simp only [hc, ↓reduceIte] at hr ht
        by_cases hln : isLoopName (c :: cs) = true
        · simp [hln] at hr
        · simp only [hln, Bool.false_eq_true, ↓reduceIte, h.d0, Nat.lt_irrefl, gt_iff_lt] at hr
          simp at hr ht; obtain ⟨h1, h2⟩ := hr; subst h1; subst h2; subst ht
          refine ⟨(popPi σ π 1).setVar ("VAR_", c :: cs) σ.pop1.1, ?_, ?_⟩
          · simp [execPL_cons, execPS, assign1, eval_pop1kw cfg n h, assignTo, execPL, sigP]
          · exact (rel_pop1 h).setProgVar (c :: cs) (by simp) _
  all_goals simp at hf



theorem sim_brk {σ : RSt} {π : PSt} (cfg : Cfg) (n : Nat) (p : Parent) (hp : p ≠ .lam) (h : Rel σ π) (sg : Sig) (σ' : RSt)
    (hr : execS cfg n (.brk p) σ = .ok (sg, σ')) :
    ∃ π', execPL cfg n (breakTemplate p) π = .ok (sigP sg, π') ∧ Post sg σ' π' := by
  unfold execS at hr
  cases p <;> simp only [breakTemplate] at hr ⊢ <;> try (exact absurd rfl hp)
  all_goals first
    | (simp at hr; obtain ⟨h1, h2⟩ := hr; subst h1; subst h2
       exact ⟨π, by simp [execPL, execPS, sigP], h⟩)
    | (split at hr
       · simp at hr
       · rename_i hne
         simp at hr; obtain ⟨h1, h2⟩ := hr; subst h1; subst h2
         match hc : σ.ctxVals with
         | [] => simp [hc] at hne
         | x :: r =>
           have hpc : π.ctxVals = x :: r := by rw [h.ctxVals, hc]
           refine ⟨{ π with ctxVals := r }, ?_, ?_⟩
           · simp [execPL_cons, exec_ctxPop cfg n π x r hpc, execPS, execPL, sigP]
           · exact ⟨{ σ with ctxVals := r }, by simp [RSt.dropCtx, hc], h.setCtxVals r⟩)


theorem sim_recurse {σ : RSt} {π : PSt} (cfg : Cfg) (n : Nat) (p : Parent) (h : Rel σ π) (sg : Sig) (σ' : RSt)
    (hr : execS cfg n (.recurse p) σ = .ok (sg, σ')) :
    ∃ π', execPL cfg n (recurseTemplate p) π = .ok (sigP sg, π') ∧ Post sg σ' π' := by
  unfold execS at hr
  cases p <;> simp only [recurseTemplate] at hr ⊢
  all_goals first
    | (simp at hr; done)
    | (simp at hr; obtain ⟨h1, h2⟩ := hr; subst h1; subst h2
       exact ⟨π, by simp [execPL, execPS, sigP], h⟩)
    | (split at hr
       · simp at hr
       · rename_i hne
         simp at hr; obtain ⟨h1, h2⟩ := hr; subst h1; subst h2
         match hc : σ.ctxVals with
         | [] => simp [hc] at hne
         | x :: r =>
           have hpc : π.ctxVals = x :: r := by rw [h.ctxVals, hc]
           refine ⟨{ π with ctxVals := r }, ?_, ?_⟩
           · simp [execPL_cons, exec_ctxPop cfg n π x r hpc, execPS, execPL, sigP]
           · exact ⟨{ σ with ctxVals := r }, by simp [RSt.dropCtx, hc], h.setCtxVals r⟩)
    | (cases hp : printText (.list σ.stack.reverse) with
       | error e => simp [hp] at hr
       | ok s =>
         simp [hp] at hr; obtain ⟨h1, h2⟩ := hr; subst h1; subst h2
         refine ⟨π.print (s ++ "\n"), ?_, h.print _⟩
         simp [execPL_cons, execPS, nm, stackE, kwCtx, ctxE, evalE, evalSpecial, h.getStack, endOf, kwGet, printPy, hp, execPL, sigP])



theorem execPL_orPass (cfg : Cfg) (n : Nat) (a : List PyStmt) (π : PSt) : execPL cfg n (orPass a) π = execPL cfg n a π := by
  unfold orPass
  cases a with
  | nil => simp [execPL, execPS]
  | cons s r => simp

theorem sims_orPass {cfg : Cfg} {n : Nat} {l : List Structure} {a : List PyStmt} (h : Sims cfg n l a) : Sims cfg n l (orPass a) := by
  intro σ π sg σ' hR hr
  rw [execPL_orPass]; exact h σ π sg σ' hR hr

theorem All2.imp {α β} {R S : α → β → Prop} (hRS : ∀ a b, R a b → S a b) : ∀ {as : List α} {bs : List β}, All2 R as bs → All2 S as bs
  | _, _, .nil => .nil
  | _, _, .cons h t => .cons (hRS _ _ h) (All2.imp hRS t)

theorem eval_iterable_pop {σ : RSt} {π : PSt} (cfg : Cfg) (n : Nat) (h : Rel σ π) (xs : List Val)
    (hx : iterRange cfg σ.pop1.1 = .ok xs) :
    evalE cfg n (callN "iterable" [pop1kw, nm "range", ctxE]) π = .ok (.list xs, popPi σ π 1) := by
  simp [callN, nm, evalE, evalSpecial, eval_pop1kw cfg n h, hx]



/-! ### the structural induction -/


mutual
/-- the closure-free fragment: literals, first-order elements, variables, `if`, `for`, `while`, break / continue -/
def frag2S (tbl : List Gen.Entry) : Structure → Bool
  | .generic t => frag2Tok tbl t
  | .brk p => p != .lam
  | .recurse _ => true
  | .ifS bs => frag2LL tbl bs
  | .forS _ body => frag2L tbl body
  | .whileS Option.none body => frag2L tbl body
  | .whileS (some c) body => frag2L tbl c && frag2L tbl body
  | _ => false
def frag2L (tbl : List Gen.Entry) : List Structure → Bool
  | [] => true
  | s :: r => frag2S tbl s && frag2L tbl r
def frag2LL (tbl : List Gen.Entry) : List (List Structure) → Bool
  | [] => true
  | l :: r => frag2L tbl l && frag2LL tbl r
end

/-- statement-level simulation -/
def SimS (cfg : Cfg) (s : Structure) (code : List PyStmt) : Prop :=
  ∀ n σ π sg σ', Rel σ π → execS cfg n s σ = .ok (sg, σ') → ∃ π', execPL cfg n code π = .ok (sigP sg, π') ∧ Post sg σ' π'

theorem sims_nil (cfg : Cfg) : SimsAll cfg [] [] := by
  intro n σ π sg σ' h hr
  simp [execL] at hr; obtain ⟨h1, h2⟩ := hr; subst h1; subst h2
  exact ⟨π, by simp [execPL, sigP], h⟩

theorem sims_cons (cfg : Cfg) (s : Structure) (rest : List Structure) (a b : List PyStmt)
    (hs : SimS cfg s a) (hr : SimsAll cfg rest b) : SimsAll cfg (s :: rest) (a ++ b) := by
  intro n σ π sg σ' h hex
  unfold execL at hex
  split at hex
  · simp at hex
  · rename_i hst
    simp only [R_ok_bind] at hex
    cases hs1 : execS cfg n s σ with
    | error e => simp [hs1] at hex
    | ok r1 =>
      obtain ⟨sg1, σ1⟩ := r1
      simp only [hs1, R_ok_bind] at hex
      obtain ⟨π1, he1, hP1⟩ := hs n σ π sg1 σ1 h hs1
      rw [execPL_append, he1]
      cases sg1 with
      | normal => simp only [sigP]; exact hr n σ1 π1 sg σ' hP1 hex
      | brk => simp at hex; obtain ⟨h1, h2⟩ := hex; subst h1; subst h2; exact ⟨π1, by simp [sigP], hP1⟩
      | cont => simp at hex; obtain ⟨h1, h2⟩ := hex; subst h1; subst h2; exact ⟨π1, by simp [sigP], hP1⟩
      | ret v => exact absurd hP1 (by simp [Post])


theorem sim_forS_core {σ : RSt} {π : PSt} (cfg : Cfg) (body : List Structure) (pbody : List PyStmt) (hb : SimsAll cfg body pbody)
    (var : Option Str) (pvar : PyExpr) (hfv : ForVar var pvar) (n : Nat) (sg : Sig) (σ' : RSt) (h : Rel σ π)
    (items : List Val) (hit : iterRange cfg σ.pop1.1 = .ok items)
    (hloop : forLoop cfg n var body items σ.pop1.2 = .ok (sg, σ')) :
    ∃ π', execPL cfg n (forTemplate pvar pbody) π = .ok (sigP sg, π') ∧ Post sg σ' π' := by
  obtain ⟨π', he, hP⟩ := sim_for cfg body pbody hb var pvar hfv n items σ.pop1.2 (popPi σ π 1) sg σ' (rel_pop1 h) hloop
  refine ⟨π', ?_, hP⟩
  simp only [forTemplate, execPL_cons, execPS, eval_iterable_pop cfg n h items hit, R_ok_bind, asList]
  rw [he]; cases sg <;> simp [sigP, execPL]

theorem sim_forS (cfg : Cfg) (names : List Str) (body : List Structure) (pbody : List PyStmt) (k : Nat)
    (hb : SimsAll cfg body pbody) :
    SimS cfg (.forS names body)
      (forTemplate (match names with
          | [] => PyExpr.pname "VAR_" ([76, 79, 79, 80] ++ digitsOfNat k)
          | nm :: _ => if sanitise nm = [] then .attr ctxE "ghost_variable" else .pname "VAR_" (sanitise nm)) pbody) := by
  intro n σ π sg σ' h hr
  cases names with
  | nil =>
    unfold execS at hr
    simp only at hr
    cases hit : iterRange cfg σ.pop1.1 with
    | error e => simp [hit] at hr
    | ok items =>
      simp only [hit, R_ok_bind] at hr
      exact sim_forS_core cfg body pbody hb Option.none _ (ForVar.unnamed k) n sg σ' h items hit (by simpa using hr)
  | cons nm rest =>
    unfold execS at hr
    simp only at hr
    cases hit : iterRange cfg σ.pop1.1 with
    | error e => simp [hit] at hr
    | ok items =>
      simp only [hit, R_ok_bind, h.d0, Nat.lt_irrefl, gt_iff_lt, and_false, ↓reduceIte] at hr
      split at hr
      · simp at hr
      · have hsan : (nm.filter fun c => isLetter c || isDigit c) = sanitise nm := rfl
        have hloop : forLoop cfg n (some (sanitise nm)) body items σ.pop1.2 = .ok (sg, σ') := by
          rw [← hsan]; simpa using hr
        by_cases he : sanitise nm = []
        · simp only [he, ↓reduceIte]
          rw [he] at hloop
          exact sim_forS_core cfg body pbody hb (some []) _ ForVar.ghost n sg σ' h items hit hloop
        · simp only [he, ↓reduceIte]
          exact sim_forS_core cfg body pbody hb (some (sanitise nm)) _ (ForVar.named _ he) n sg σ' h items hit hloop


/-- after the condition has been evaluated: `condition = pop(…)`, then the `while` statement -/
theorem sim_while_entry {σ1 : RSt} {π1 : PSt} (cfg : Cfg) (cond : Option (List Structure)) (pc2 : List PyStmt)
    (hc2 : SimsAll cfg (condProg cond) pc2) (body : List Structure) (pbody : List PyStmt) (hb : SimsAll cfg body pbody)
    (n : Nat) (sg : Sig) (σ' : RSt) (h1 : Rel σ1 π1)
    (hr : whileLoop cfg n cond body σ1.pop1.1 σ1.pop1.2 = .ok (sg, σ')) :
    ∃ π', execPL cfg n [condPop, .whileS boolifyCond
        ([ctxCall "context_values" "append" [nm "condition"]] ++ pbody ++ [ctxCall "context_values" "pop" []] ++ pc2 ++ [condPop])] π1 =
      .ok (sigP sg, π') ∧ Post sg σ' π' := by
  obtain ⟨hcp, hR⟩ := exec_condPop cfg n h1
  obtain ⟨π', he, hP⟩ := sim_while cfg cond pc2 hc2 body pbody hb n σ1.pop1.1 σ1.pop1.2 _ sg σ' hR (getVar_setVar_eq _ _ _) hr
  refine ⟨π', ?_, hP⟩
  simp only [execPL_cons, hcp, execPS]
  rw [he]; cases sg <;> simp [sigP, execPL]

theorem sim_whileS_some (cfg : Cfg) (c body : List Structure) (pc1 pc2 pbody : List PyStmt)
    (hc1 : SimsAll cfg c pc1) (hc2 : SimsAll cfg c pc2) (hb : SimsAll cfg body pbody) :
    SimS cfg (.whileS (some c) body)
      (pc1 ++ [condPop, .whileS boolifyCond
        ([ctxCall "context_values" "append" [nm "condition"]] ++ pbody ++ [ctxCall "context_values" "pop" []] ++ pc2 ++ [condPop])]) := by
  intro n σ π sg σ' h hr
  unfold execS at hr
  cases hcd : execL cfg n c σ with
  | error e => simp [hcd] at hr
  | ok r1 =>
    obtain ⟨sg1, σ1⟩ := r1
    simp only [hcd, R_ok_bind] at hr
    obtain ⟨π1, he1, hP1⟩ := hc1 n σ π sg1 σ1 h hcd
    rw [execPL_append, he1]
    cases sg1 with
    | normal =>
      simp only [sigP] at hr ⊢
      exact sim_while_entry cfg (some c) pc2 hc2 body pbody hb n sg σ' hP1 hr
    | brk => simp at hr
    | cont => simp at hr
    | ret v => simp at hr

theorem sim_whileS_none (cfg : Cfg) (body : List Structure) (pc2 pbody : List PyStmt)
    (hc2 : SimsAll cfg (condProg Option.none) pc2) (hb : SimsAll cfg body pbody) :
    SimS cfg (.whileS Option.none body)
      ([push (.call (.attr (.name "sympy") "nsimplify") [.cstrN [49]] [])] ++ [condPop, .whileS boolifyCond
        ([ctxCall "context_values" "append" [nm "condition"]] ++ pbody ++ [ctxCall "context_values" "pop" []] ++ pc2 ++ [condPop])]) := by
  intro n σ π sg σ' h hr
  unfold execS at hr
  simp only at hr
  obtain ⟨he, hR⟩ := exec_push cfg n _ _ (eval_nsimplify cfg n [49] π (by simp) (by decide)) h
  have h1 : natOfDigits [49] = 1 := by decide
  rw [h1] at hR he
  have hpre : execPL cfg n [push (.call (.attr (.name "sympy") "nsimplify") [.cstrN [49]] [])] π =
      .ok (.normal, π.setVar ("stack", []) (.list ((Val.int ((1 : Nat) : Int)) :: σ.stack).reverse)) := by
    simp only [execPL_cons, he, execPL]
  rw [execPL_append, hpre]
  exact sim_while_entry cfg Option.none pc2 hc2 body pbody hb n sg σ' hR hr


@[simp] theorem ex_ok_bind {ε α β} (a : α) (f : α → Except ε β) : ((Except.ok a : Except ε α) >>= f) = f a := rfl
@[simp] theorem ex_err_bind {ε α β} (e : ε) (f : α → Except ε β) : ((Except.error e : Except ε α) >>= f) = .error e := rfl
@[simp] theorem ex_map_ok {ε α β} (a : α) (f : α → β) : (f <$> (Except.ok a : Except ε α)) = .ok (f a) := rfl
@[simp] theorem ex_map_err {ε α β} (e : ε) (f : α → β) : (f <$> (Except.error e : Except ε α)) = .error e := rfl
@[simp] theorem ex_pure {ε α} (a : α) : (pure a : Except ε α) = .ok a := rfl

theorem simS_if (cfg : Cfg) (bs : List (List Structure)) (cs : List (List PyStmt)) (hall : All2 (SimsAll cfg) bs cs) :
    SimS cfg (.ifS bs) (ifChain cs) := by
  intro n σ π sg σ' h hr
  unfold execS at hr
  exact sim_ifChain cfg n bs cs (All2.imp (fun _ _ hs => hs n) hall) σ π sg σ' h hr

theorem transpile_one (env : TEnv) : transpileToken env ⟨.number, [49]⟩ =
    .ok [push (.call (.attr (.name "sympy") "nsimplify") [.cstrN [49]] [])] := by
  have := digits_parts [49] (by simp) (by decide)
  simp [transpileToken, this.1, this.2]

theorem sims_all_orPass {cfg : Cfg} {l : List Structure} {a : List PyStmt} (h : SimsAll cfg l a) : SimsAll cfg l (orPass a) :=
  fun n => sims_orPass (h n)

mutual
theorem simS (cfg : Cfg) (env : TEnv) (hE : cfg.elements = env.elements) :
    ∀ (s : Structure), frag2S env.elements s = true → ∀ (k : Nat) (code : List PyStmt) (k' : Nat),
      transpileS env k s = .ok (code, k') → SimS cfg s code
  | .generic t, hf, k, code, k', ht => by
      simp only [frag2S] at hf
      simp only [transpileS] at ht
      cases htt : transpileToken env t with
      | error e => simp [htt] at ht
      | ok c =>
        simp [htt] at ht; obtain ⟨h1, _⟩ := ht; subst h1
        intro n σ π sg σ' h hr
        unfold execS at hr
        exact sim_tok cfg env hE n t hf c htt h sg σ' hr
  | .brk p, hf, k, code, k', ht => by
      simp only [frag2S, bne_iff_ne, ne_eq] at hf
      simp [transpileS] at ht; obtain ⟨h1, _⟩ := ht; subst h1
      intro n σ π sg σ' h hr
      exact sim_brk cfg n p hf h sg σ' hr
  | .recurse p, hf, k, code, k', ht => by
      simp [transpileS] at ht; obtain ⟨h1, _⟩ := ht; subst h1
      intro n σ π sg σ' h hr
      exact sim_recurse cfg n p h sg σ' hr
  | .ifS bs, hf, k, code, k', ht => by
      simp only [frag2S] at hf
      simp only [transpileS] at ht
      cases hll : transpileLL env k bs with
      | error e => simp [hll] at ht
      | ok r =>
        obtain ⟨cs, k1⟩ := r
        simp [hll] at ht; obtain ⟨h1, _⟩ := ht; subst h1
        exact simS_if cfg bs cs (simLL cfg env hE bs hf k cs k1 hll)
  | .forS names body, hf, k, code, k', ht => by
      simp only [frag2S] at hf
      cases names with
      | nil =>
        simp only [transpileS] at ht
        cases hb : transpileL env (k + 1) body with
        | error e => simp [hb] at ht
        | ok r =>
          obtain ⟨b, k2⟩ := r
          simp [hb] at ht; obtain ⟨h1, _⟩ := ht; subst h1
          exact sim_forS cfg [] body (orPass b) k (sims_all_orPass (simL cfg env hE body hf (k + 1) b k2 hb))
      | cons nm rest =>
        simp only [transpileS] at ht
        cases hb : transpileL env k body with
        | error e => simp [hb] at ht
        | ok r =>
          obtain ⟨b, k2⟩ := r
          simp [hb] at ht; obtain ⟨h1, _⟩ := ht; subst h1
          exact sim_forS cfg (nm :: rest) body (orPass b) k (sims_all_orPass (simL cfg env hE body hf k b k2 hb))
  | .whileS Option.none body, hf, k, code, k', ht => by
      simp only [frag2S] at hf
      simp only [transpileS, transpile_one] at ht
      cases hb : transpileL env k body with
      | error e => simp [hb] at ht
      | ok r =>
        obtain ⟨b, k2⟩ := r
        simp [hb] at ht; obtain ⟨h1, _⟩ := ht; subst h1
        have hbody := sims_all_orPass (simL cfg env hE body hf k b k2 hb)
        have hc : SimsAll cfg (condProg Option.none) [push (.call (.attr (.name "sympy") "nsimplify") [.cstrN [49]] [])] := by
          have hs : SimS cfg (.generic ⟨.number, [49]⟩) [push (.call (.attr (.name "sympy") "nsimplify") [.cstrN [49]] [])] := by
            intro n σ π sg σ' h hr
            unfold execS at hr
            exact sim_tok cfg env hE n ⟨.number, [49]⟩ (by simp [frag2Tok]) _ (transpile_one env) h sg σ' hr
          have := sims_cons cfg _ [] _ [] hs (sims_nil cfg)
          simpa [condProg] using this
        have := sim_whileS_none cfg body _ (orPass b) hc hbody
        simpa [whileTemplate] using this
  | .whileS (some c) body, hf, k, code, k', ht => by
      simp only [frag2S, Bool.and_eq_true] at hf
      simp only [transpileS] at ht
      cases hc1 : transpileL env k c with
      | error e => simp [hc1] at ht
      | ok r1 =>
        obtain ⟨c1, k1⟩ := r1
        cases hb : transpileL env k1 body with
        | error e => simp [hc1, hb] at ht
        | ok r2 =>
          obtain ⟨b, k2⟩ := r2
          cases hc2 : transpileL env k2 c with
          | error e => simp [hc1, hb, hc2] at ht
          | ok r3 =>
            obtain ⟨c2, k3⟩ := r3
            simp [hc1, hb, hc2] at ht; obtain ⟨h1, _⟩ := ht; subst h1
            have := sim_whileS_some cfg c body (orPass c1) (orPass c2) (orPass b)
              (sims_all_orPass (simL cfg env hE c hf.1 k c1 k1 hc1)) (sims_all_orPass (simL cfg env hE c hf.1 k2 c2 k3 hc2))
              (sims_all_orPass (simL cfg env hE body hf.2 k1 b k2 hb))
            simpa using this
  | .fnCall _, hf, _, _, _, _ => by simp [frag2S] at hf
  | .fnDef _ _ _, hf, _, _, _, _ => by simp [frag2S] at hf
  | .lam _ _, hf, _, _, _, _ => by simp [frag2S] at hf
  | .lamOp _ _, hf, _, _, _, _ => by simp [frag2S] at hf
  | .listS _, hf, _, _, _, _ => by simp [frag2S] at hf
  | .mon _ _, hf, _, _, _, _ => by simp [frag2S] at hf
  | .dy _ _ _, hf, _, _, _, _ => by simp [frag2S] at hf
  | .tri _ _ _ _, hf, _, _, _, _ => by simp [frag2S] at hf

theorem simL (cfg : Cfg) (env : TEnv) (hE : cfg.elements = env.elements) :
    ∀ (l : List Structure), frag2L env.elements l = true → ∀ (k : Nat) (code : List PyStmt) (k' : Nat),
      transpileL env k l = .ok (code, k') → SimsAll cfg l code
  | [], _, k, code, k', ht => by
      simp [transpileL] at ht; obtain ⟨h1, _⟩ := ht; subst h1
      exact sims_nil cfg
  | s :: rest, hf, k, code, k', ht => by
      simp only [frag2L, Bool.and_eq_true] at hf
      simp only [transpileL] at ht
      cases hs : transpileS env k s with
      | error e => simp [hs] at ht
      | ok r1 =>
        obtain ⟨a, k1⟩ := r1
        cases hr : transpileL env k1 rest with
        | error e => simp [hs, hr] at ht
        | ok r2 =>
          obtain ⟨b, k2⟩ := r2
          simp [hs, hr] at ht; obtain ⟨h1, _⟩ := ht; subst h1
          exact sims_cons cfg s rest a b (simS cfg env hE s hf.1 k a k1 hs) (simL cfg env hE rest hf.2 k1 b k2 hr)

theorem simLL (cfg : Cfg) (env : TEnv) (hE : cfg.elements = env.elements) :
    ∀ (bs : List (List Structure)), frag2LL env.elements bs = true → ∀ (k : Nat) (cs : List (List PyStmt)) (k' : Nat),
      transpileLL env k bs = .ok (cs, k') → All2 (SimsAll cfg) bs cs
  | [], _, k, cs, k', ht => by
      simp [transpileLL] at ht; obtain ⟨h1, _⟩ := ht; subst h1
      exact .nil
  | l :: rest, hf, k, cs, k', ht => by
      simp only [frag2LL, Bool.and_eq_true] at hf
      simp only [transpileLL] at ht
      cases hl : transpileL env k l with
      | error e => simp [hl] at ht
      | ok r1 =>
        obtain ⟨a, k1⟩ := r1
        cases hr : transpileLL env k1 rest with
        | error e => simp [hl, hr] at ht
        | ok r2 =>
          obtain ⟨b, k2⟩ := r2
          simp [hl, hr] at ht; obtain ⟨h1, _⟩ := ht; subst h1
          exact .cons (sims_all_orPass (simL cfg env hE l hf.1 k a k1 hl)) (simLL cfg env hE rest hf.2 k1 b k2 hr)
end



/-! ### whole programs -/

theorem rel_init (flags : String) (inputs : List Val) : Rel (initState flags inputs) (initPy flags inputs) := by
  refine ⟨rfl, rfl, rfl, ?_, rfl, rfl, rfl, rfl, rfl, rfl, rfl, rfl, ?_, ?_⟩
  · by_cases hH : flags.contains 'H' <;> simp [initPy, initState, lookupP, hH]
  · intro x hx hl
    simp [initPy, initState, lookupP, lookupKV]
  · intro f hj hs
    simp only [initPy, lookupP]
    have : ((("stack" : String), ([] : List Nat)) = (f, [])) = False := by
      simp; exact fun h => hs h.symm
    simp [this]

theorem pop1_printed (σ : RSt) : σ.pop1.2.printed = σ.printed := by
  simp only [RSt.pop1]; split <;> rfl
theorem pop1_out (σ : RSt) : σ.pop1.2.out = σ.out := by
  simp only [RSt.pop1]; split <;> rfl

theorem finish_sim {σ σ' : RSt} {π : PSt} (flags : String) (h : Rel σ π) (hf : finish flags σ = .ok σ') :
    ∃ π', finishPy flags π = .ok π' ∧ π'.out = σ'.out := by
  unfold finish at hf
  unfold finishPy
  rw [h.getStack]
  simp only [popPy_rev, h.inputs]
  have hp := popK_one σ
  have hpn : (popN 1 σ.stack σ.inputs).1 = [σ.pop1.1] := by simpa [RSt.popK] using hp.1
  have hp2 : (popN 1 σ.stack σ.inputs).2.1 = σ.pop1.2.stack := by
    have := hp.2; simp [RSt.popK] at this; rw [← this]
  simp only [hpn, List.headD_cons, hp2, List.reverse_reverse, List.isEmpty_reverse]
  cases ho : List.foldlM (fun o c => applyFlag σ.stack.isEmpty σ.pop1.2.stack c o) (OutV.val σ.pop1.1) flags.toList with
  | error e => simp [ho] at hf
  | ok o =>
    simp only [ho, R_ok_bind, pop1_printed, h.printed.symm] at hf ⊢
    split at hf
    · rename_i hc
      simp only [hc, ↓reduceIte]
      cases o with
      | text s =>
        simp at hf; subst hf
        exact ⟨_, rfl, by simp [PSt.print, RSt.print, pop1_out, h.out]⟩
      | val v =>
        simp only at hf ⊢
        cases hp : printText v with
        | error e => simp [hp] at hf
        | ok s =>
          simp [hp] at hf ⊢; subst hf
          simp [PSt.print, RSt.print, pop1_out, h.out]
    · rename_i hc
      simp only [hc, ↓reduceIte]
      simp at hf; subst hf
      exact ⟨_, rfl, by simp [pop1_out, h.out]⟩


end Vy.Sem
